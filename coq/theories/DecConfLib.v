(** Decoder-side library for the one-hop fixed point (C18, typed inputs): inversion of the
    typed read operations, the invariant a well-formed cursor keeps, what the generic-tree
    decoder returns in ANY format, decoded scalars, and "quiet" types (decoding them does not
    change the protocol version state). *)
From Coq Require Import ZArith List Bool String Lia PeanoNat.
From KV Require Import Base BaseProofs Wire WireProofs Cursor CursorProofs Schema SchemaSem SchemaSemEq FaithfulProofs
  Roundtrip RoundtripEq RoundtripProofs Normalize NormalizeEq DecConfDefs NormProofs.
Import ListNotations.
Open Scope Z_scope.

(** ** reflexivity of the boolean equalities *)
Lemma zlist_eqb_s_refl a : zlist_eqb_s a a = true.
Proof. induction a as [|x a IH]; cbn [zlist_eqb_s]; [reflexivity | rewrite Z.eqb_refl, IH; reflexivity]. Qed.

Lemma item_eqb_refl i : item_eqb i i = true.
Proof.
  induction i as [tag kids IH|tag v|tag v|tag v|tag r v|tag b|tag s|tag s|tag v|tag v|tag r v] using item_ind';
    cbn [item_eqb]; rewrite ?Z.eqb_refl; cbn [andb]; try reflexivity.
  - induction IH as [|k ks Hk _ IHks]; [reflexivity|]. rewrite Hk. exact IHks.
  - destruct b; reflexivity.
  - induction s as [|x s IHs]; [reflexivity|]. rewrite Z.eqb_refl. exact IHs.
  - induction s as [|x s IHs]; [reflexivity|]. rewrite Z.eqb_refl. exact IHs.
Qed.

Lemma kind_eqb_refl k : kind_eqb k k = true.
Proof. destruct k; cbn [kind_eqb]; try reflexivity; apply Z.eqb_refl. Qed.

Lemma ty_eqb_refl t : ty_eqb t t = true.
Proof. induction t; cbn [ty_eqb]; try assumption; [apply kind_eqb_refl | apply String.eqb_refl | apply String.eqb_refl]. Qed.

Lemma value_eqb_refl v : value_eqb v v = true.
Proof.
  induction v as [z|b|s| | |w IH|l IH|n fs IH|t w IH|i] using value_ind'; cbn [value_eqb]; try reflexivity.
  - apply Z.eqb_refl.
  - destruct b; reflexivity.
  - apply zlist_eqb_s_refl.
  - exact IH.
  - induction IH as [|k ks Hk _ IHks]; [reflexivity|]. rewrite Hk. exact IHks.
  - rewrite String.eqb_refl. cbn [andb]. induction IH as [|k ks Hk _ IHks]; [reflexivity|]. rewrite Hk. exact IHks.
  - rewrite ty_eqb_refl, IH. reflexivity.
  - apply item_eqb_refl.
Qed.

(** ** the cursor *)
Section Cur.
  Context {R : Type}.
  Variable F : rawfmt R.

  (** well-formedness of raw elements, as the format's reader guarantees it, and the ranges
      of the values its parsers return on well-formed elements *)
  Variable eok : relem R -> bool.

  Record fmt_ranged : Prop := {
    r_kids : forall tag ty raw kids kb, eok (RE tag ty raw kids kb) = true -> forallb eok kids = true;
    r_tag : forall tag ty raw kids kb, eok (RE tag ty raw kids kb) = true -> (0 <=? tag) && (tag <? 2 ^ 24) = true;
    r_int : forall tag raw kids kb v, eok (RE tag T_INT raw kids kb) = true -> p_int F raw = Ok v -> in_i32 v = true;
    r_long : forall tag raw kids kb v, eok (RE tag T_LONG raw kids kb) = true -> p_long F raw = Ok v -> in_i64 v = true;
    r_enum : forall rt tag raw kids kb v, eok (RE tag T_ENUM raw kids kb) = true -> p_enum F rt tag raw = Ok v -> in_u32 v = true;
    r_text : forall tag raw kids kb v, eok (RE tag T_TEXT raw kids kb) = true -> p_text F raw = Ok v -> bytes_ok v = true;
    r_bytes : forall tag raw kids kb v, eok (RE tag T_BYTES raw kids kb) = true -> p_bytes F raw = Ok v -> bytes_ok v = true;
    r_date : forall tag raw kids kb v, eok (RE tag T_DATE raw kids kb) = true -> p_date F raw = Ok v -> in_i64 v = true;
    r_intv : forall tag raw kids kb v, eok (RE tag T_INTV raw kids kb) = true -> p_intv F raw = Ok v -> in_u32 v = true;
    r_mask : forall rt tag raw kids kb v, eok (RE tag T_INT raw kids kb) = true -> p_mask F rt tag raw = Ok v -> in_i32 v = true;
  }.
  Hypothesis HR : fmt_ranged.

  Definition c_ok (c : cur R) : Prop := forallb eok (fst c) = true.

  Lemma c_open_ok (l : list (relem R)) b c : c_open l b = Ok c -> forallb eok l = true -> c_ok c.
  Proof. unfold c_ok. destruct l; cbn [c_open]; [destruct b; [discriminate|]; intros H; injection H as <-; reflexivity | intros H; injection H as <-; auto]. Qed.

  Lemma c_next_ok (c c' : cur R) : c_next c = Ok c' -> c_ok c -> c_ok c'.
  Proof.
    destruct c as [[|e rest] b]; cbn [c_next fst snd]; [discriminate|]. unfold c_ok at 1. cbn [fst forallb]. intros H Hw.
    apply andb_true_iff in Hw. destruct Hw as [_ Hw]. eapply c_open_ok; eassumption.
  Qed.

  Lemma c_ok_head (c : cur R) e rest : fst c = e :: rest -> c_ok c -> eok e = true.
  Proof. unfold c_ok. intros -> H. cbn [forallb] in H. apply andb_true_iff in H. apply H. Qed.

  Lemma c_scalar_inv {A} ty (parse : R -> res A) tag (c : cur R) a c' :
    c_scalar ty parse tag c = Ok (a, c') ->
    exists raw kids kb rest, fst c = RE tag ty raw kids kb :: rest /\ parse raw = Ok a /\ c_next c = Ok c'.
  Proof.
    intros Hr. unfold c_scalar, c_expect in Hr. destruct c as [[|[t y raw kids kb] rest] b]; cbn [fst bind] in Hr; [discriminate|].
    destruct (Z.eqb_spec t tag); cbn [negb] in Hr; [|discriminate]. destruct (Z.eqb_spec y ty); cbn [negb bind] in Hr; [|discriminate].
    destruct (parse raw) eqn:Ep; cbn [bind] in Hr; try discriminate. destruct (c_next _) eqn:En; cbn [bind] in Hr; try discriminate.
    injection Hr as <- <-. subst. cbn [fst snd]. eauto 10.
  Qed.

  Lemma c_struct_inv {A} tag (f : cur R -> res (A * cur R)) (c : cur R) a c' :
    c_struct F tag f c = Ok (a, c') ->
    exists raw kids kb rest sub r, fst c = RE tag T_STRUCT raw kids kb :: rest /\ c_open kids kb = Ok sub /\
      f sub = Ok (a, r) /\ c_next c = Ok c'.
  Proof.
    intros Er. unfold c_struct, c_expect in Er.
    destruct c as [[|[t y raw kids kb] rest] b]; cbn [fst bind] in Er; [discriminate|].
    destruct (Z.eqb_spec t tag); cbn [negb] in Er; [|discriminate]. destruct (Z.eqb_spec y T_STRUCT); cbn [negb bind] in Er; [|discriminate].
    destruct (c_open kids kb) as [sub| | |] eqn:Eo; cbn [bind] in Er; try discriminate.
    destruct (f sub) as [[a0 r]| | |] eqn:Ef; cbn [bind fst snd] in Er; try discriminate.
    destruct (strict_close F && snd r); [discriminate|].
    destruct (c_next _) as [cn| | |] eqn:En; cbn [bind] in Er; try discriminate.
    injection Er as <- <-. subst. cbn [fst]. exists raw, kids, kb, rest, sub, r. auto.
  Qed.

  (** what reading a structure gives: the body ran on a well-formed cursor, the tag is in range *)
  Lemma c_struct_ok {A} tag (f : cur R -> res (A * cur R)) (c : cur R) a c' :
    c_struct F tag f c = Ok (a, c') ->
    exists sub r, f sub = Ok (a, r) /\ (c_ok c -> c_ok sub /\ c_ok c' /\ (0 <=? tag) && (tag <? 2 ^ 24) = true).
  Proof.
    intros H. destruct (c_struct_inv _ _ _ _ _ H) as (raw & kids & kb & rest & sub & r & Ec & Eo & Ef & En).
    exists sub, r. split; [exact Ef|]. intros Hc. pose proof (c_ok_head _ _ _ Ec Hc) as He.
    split; [eapply c_open_ok; [exact Eo | eapply (r_kids HR); exact He]|].
    split; [eapply c_next_ok; eassumption | eapply (r_tag HR); exact He].
  Qed.

  (** ** generic trees: whatever the format, what Value.TagDecodeTTLV returns is tree-shaped
      and carries the tag asked for; in range when the cursor is well-formed *)
  Lemma dec_value_good fuel :
    (forall tag (c : cur R) i c', dec_value F fuel tag c = Ok (i, c') ->
       tree_shaped i = true /\ itag i = tag /\ (c_ok c -> c_ok c' /\ item_ok i = true)) /\
    (forall (c : cur R) l c', dec_fields F fuel c = Ok (l, c') ->
       forallb tree_shaped l = true /\ forallb (fun k => negb (itag k =? 0)) l = true /\
       (c_ok c -> c_ok c' /\ forallb item_ok l = true)).
  Proof.
    induction fuel as [|f [IHv IHf]]; [split; intros; discriminate|].
    split.
    - intros tag c i c' H. cbn [dec_value] in H.
      unfold c_integer, c_long, c_big, c_enum, c_bool, c_text, c_bytes, c_date, c_intv in H.
      repeat match type of H with (if ?b then _ else _) = _ => destruct b eqn:? end; try discriminate;
        try (match type of H with bind ?x _ = _ => destruct x as [[a ca]| | |] eqn:Er; cbn [bind fst snd] in H; try discriminate end;
             injection H as <- <-;
             destruct (c_scalar_inv _ _ _ _ _ _ Er) as (raw & kids & kb & rest & Ec & Ep & En);
             split; [reflexivity|]; split; [reflexivity|]; intros Hc;
             pose proof (c_ok_head _ _ _ Ec Hc) as He; pose proof (r_tag HR _ _ _ _ _ He) as Ht;
             split; [eapply c_next_ok; eassumption|]; cbn [item_ok]; rewrite Ht; cbn [andb]; try reflexivity;
             first [ eapply (r_int HR); eassumption | eapply (r_long HR); eassumption | eapply (r_enum HR); eassumption
                   | eapply (r_text HR); eassumption | eapply (r_bytes HR); eassumption | eapply (r_date HR); eassumption
                   | eapply (r_intv HR); eassumption ]).
      (* structure *)
      match type of H with bind ?x _ = _ => destruct x as [[l cl]| | |] eqn:Er; cbn [bind fst snd] in H; try discriminate end.
      injection H as <- <-.
      destruct (c_struct_ok _ _ _ _ _ Er) as (sub & r & Ef & Hok).
      change ((fix dec_value (fuel : nat) (tag : Z) (c : cur R) {struct fuel} : res (item * cur R) := _
               with dec_fields (fuel : nat) (c : cur R) {struct fuel} : res (list item * cur R) := _ for dec_fields) f sub)
        with (dec_fields F f sub) in Ef.
      destruct (IHf _ _ _ Ef) as (Hsh & Htags & Hrng).
      split; [cbn [tree_shaped]; rewrite Hsh, Htags; reflexivity|]. split; [reflexivity|].
      intros Hc. destruct (Hok Hc) as (Hsub & Hc' & Ht). split; [exact Hc'|].
      destruct (Hrng Hsub) as [_ Hl]. cbn [item_ok]. rewrite Ht, Hl. reflexivity.
    - intros c l c' H. cbn [dec_fields] in H.
      destruct (Z.eqb_spec (c_tag c) 0) as [E0|Hne].
      + injection H as <- <-. repeat split; auto.
      + match type of H with bind ?x _ = _ => destruct x as [[i ci]| | |] eqn:Ev; cbn [bind fst snd] in H; try discriminate end.
        match type of H with bind ?x _ = _ => destruct x as [[l' cl]| | |] eqn:El; cbn [bind fst snd] in H; try discriminate end.
        injection H as <- <-.
        change ((fix dec_value (fuel : nat) (tag : Z) (c : cur R) {struct fuel} : res (item * cur R) := _
                 with dec_fields (fuel : nat) (c : cur R) {struct fuel} : res (list item * cur R) := _ for dec_value) f (c_tag c) c)
          with (dec_value F f (c_tag c) c) in Ev.
        change ((fix dec_value (fuel : nat) (tag : Z) (c : cur R) {struct fuel} : res (item * cur R) := _
                 with dec_fields (fuel : nat) (c : cur R) {struct fuel} : res (list item * cur R) := _ for dec_fields) f ci)
          with (dec_fields F f ci) in El.
        destruct (IHv _ _ _ _ Ev) as (Hi1 & Hi2 & Hi3). destruct (IHf _ _ _ El) as (Hl1 & Hl2 & Hl3).
        split; [cbn [forallb]; rewrite Hi1, Hl1; reflexivity|].
        split; [cbn [forallb]; rewrite Hi2, Hl2; apply Z.eqb_neq in Hne; rewrite Hne; reflexivity|].
        intros Hc. destruct (Hi3 Hc) as [Hci Hio]. destruct (Hl3 Hci) as [Hcl Hlo].
        split; [exact Hcl|]. cbn [forallb]. rewrite Hio, Hlo. reflexivity.
  Qed.

  Lemma trees_of_map is : trees_of (map VTree is) = Some is.
  Proof. induction is as [|i is IH]; cbn [map trees_of tree_of]; [reflexivity | rewrite IH; reflexivity]. Qed.

  (** ** scalars: what [dec_scalar] returns is encodable, conforming, in range *)
  Lemma dec_scalar_good k tag (c : cur R) v c' :
    dec_scalar F k tag c = Ok (v, c') -> enc_kind_ok k = true ->
    exists i, enc_scalar k tag v = Ok [i] /\ scalar_ok k v = true /\
      (c_ok c -> c_ok c' /\ item_ok i = true).
  Proof.
    intros H Hk. destruct k; try discriminate Hk; cbn [dec_scalar] in H;
      unfold c_integer, c_long, c_big, c_enum, c_bool, c_text, c_bytes, c_date, c_intv, c_mask in H;
      match type of H with bind ?x _ = _ => destruct x as [[a ca]| | |] eqn:Er; cbn [bind fst snd] in H; try discriminate end;
      destruct (c_scalar_inv _ _ _ _ _ _ Er) as (raw & kids & kb & rest & Ec & Ep & En);
      try (destruct (Z.ltb_spec a 0) as [Hneg|Hpos]; [discriminate|]);
      injection H as <- <-;
      (eexists; split; [try reflexivity|]);
      try (destruct a; reflexivity);
      (split; [cbn [scalar_ok]; try reflexivity; try (apply Z.leb_le; exact Hpos); try (destruct a; reflexivity)|]);
      intros Hc; pose proof (c_ok_head _ _ _ Ec Hc) as He; pose proof (r_tag HR _ _ _ _ _ He) as Ht;
      (split; [eapply c_next_ok; eassumption|]); cbn [item_ok]; rewrite Ht; cbn [andb]; try reflexivity;
      first [ eapply (r_int HR); eassumption | eapply (r_long HR); eassumption | eapply (r_enum HR); eassumption
            | eapply (r_text HR); eassumption | eapply (r_date HR); eassumption
            | eapply (r_intv HR); eassumption | eapply (r_mask HR); eassumption
            | destruct a; [reflexivity | eapply (r_bytes HR); eassumption] ].
  Qed.
End Cur.
