(** Normalisation does not change the encoding (C18): for every value the encoder accepts,
    [norm_ty] returns a value that is encoded as exactly the same items, with the same final
    version state - and that state is the one [norm_ty] itself computes. *)
From Coq Require Import ZArith List Bool String Lia PeanoNat.
From KV Require Import Base BaseProofs Wire Cursor Schema SchemaSem SchemaSemEq FaithfulProofs Roundtrip RoundtripEq RoundtripProofs
  Normalize NormalizeEq DecConfDefs.
Import ListNotations.
Open Scope Z_scope.

Lemma find_tdef_in (S : schema) n d : find_tdef S n = Some d -> In d S.
Proof.
  induction S as [|d0 r IH]; cbn [find_tdef]; [discriminate|].
  destruct (String.eqb (t_name d0) n); [intros H; injection H as <-; left; reflexivity | intros H; right; apply IH, H].
Qed.

Section NP.
  Variable S : schema.
  Hypothesis HS : enc_schema_ok S = true.

  Local Notation enc_ty := (enc_ty S).
  Local Notation enc_list := (enc_list S).
  Local Notation enc_fields := (enc_fields S).
  Local Notation enc_same_tag := (enc_same_tag S).
  Local Notation enc_custom := (enc_custom S).
  Local Notation norm_ty := (norm_ty S).
  Local Notation norm_list := (norm_list S).
  Local Notation norm_fields := (norm_fields S).
  Local Notation norm_same_tag := (norm_same_tag S).
  Local Notation norm_custom := (norm_custom S).

  (** the value left when an omitempty element is absent is empty *)
  Lemma omit_zero_of t : omit_ty_ok t = true -> is_zero (zero_of S 8 t) = true.
  Proof. destruct t as [k| | | |]; try discriminate; [destruct k; try discriminate; reflexivity | reflexivity | reflexivity]. Qed.

  (** normalisation keeps emptiness of the types omitempty fields have *)
  Lemma omit_norm_zero t : omit_ty_ok t = true -> forall f st x, is_zero (fst (norm_ty f st t x)) = is_zero x.
  Proof.
    intros Ht f st x. destruct f as [|f]; [reflexivity|]. rewrite norm_ty_eq.
    destruct t as [k|t'|t'| |]; try discriminate.
    - reflexivity.
    - destruct x; reflexivity.
    - destruct x as [| | | | | |l| | |]; try reflexivity. cbn [fst is_zero].
      destruct f as [|f]; [reflexivity|]. rewrite norm_list_eq. destruct l; reflexivity.
  Qed.

  (** a plain structure (required scalars only) is its own normal form, under any state *)
  Lemma norm_plain_fields fl : forallb plain_field fl = true ->
    forall f st vl r, enc_fields f st fl vl = Ok r -> forall g st2, norm_fields g st2 fl vl = (vl, st2).
  Proof.
    induction fl as [|fd fl IH]; intros Hp f st vl r He g st2; destruct f as [|f]; try discriminate; rewrite enc_fields_eq in He.
    - destruct vl; [|discriminate]. destruct g; reflexivity.
    - destruct vl as [|x vl]; [discriminate|].
      cbn [forallb] in Hp. apply andb_true_iff in Hp. destruct Hp as [Hp1 Hp2].
      destruct (plain_field_facts fd Hp1) as (Ht & Ho & Hs & Hr & k & Hk).
      apply Z.eqb_neq in Ht. cbv zeta in He. rewrite Ht, Hs, Hr, Ho, Hk in He. rewrite version_in_none in He. cbn [negb andb] in He.
      destruct (enc_ty f st (TScalar k) (f_tag fd) x) as [[a sa]| | |] eqn:Ea; cbn [bind fst snd] in He; try discriminate.
      destruct (enc_fields f sa fl vl) as [rb| | |] eqn:Eb; cbn [bind fst snd] in He; try discriminate.
      destruct g as [|g]; [reflexivity|]. rewrite norm_fields_eq. cbv zeta. rewrite Ht, Hs, Hr, Ho, Hk. rewrite version_in_none. cbn [negb andb].
      assert (Hn : norm_ty g st2 (TScalar k) x = (x, st2)) by (destruct g; reflexivity).
      rewrite Hn. cbn [fst snd]. rewrite (IH Hp2 _ _ _ _ Eb). reflexivity.
  Qed.

  Lemma norm_plain t : plain_struct S t = true ->
    forall f st tag x r, enc_ty f st t tag x = Ok r -> forall g st2, norm_ty g st2 t x = (x, st2).
  Proof.
    intros Hp f st tag x r He g st2. unfold plain_struct in Hp. destruct t as [| | |n|]; try discriminate.
    destruct (find_tdef S n) as [d|] eqn:Ed; [|discriminate].
    rewrite !andb_true_iff in Hp. destruct Hp as ((((Hce & Hcd) & Hpl) & HV) & HS').
    apply negb_true_iff in Hce, Hcd, HV, HS'.
    destruct f as [|f]; [discriminate|]. rewrite enc_ty_eq, HV, HS', Ed in He.
    destruct x as [| | | | | | |n' fs| |]; try discriminate. rewrite Hce in He.
    destruct (enc_fields f st (t_fields d) fs) as [rr| | |] eqn:Ef; cbn [bind] in He; try discriminate.
    destruct g as [|g]; [reflexivity|]. rewrite norm_ty_eq, HV, HS', Ed, Hce. cbv zeta.
    rewrite (norm_plain_fields _ Hpl _ _ _ _ Ef). reflexivity.
  Qed.

  (** what the schema condition says of a field of a reflectively encoded structure *)
  Lemma enc_field_facts n d fd : find_tdef S n = Some d -> t_custom_enc d = false -> In fd (t_fields d) ->
    enc_field_ok S fd = true.
  Proof.
    intros Ed Hce Hin. unfold enc_schema_ok in HS. rewrite forallb_forall in HS.
    specialize (HS d (find_tdef_in S n d Ed)). rewrite Hce in HS. cbn [orb] in HS.
    rewrite forallb_forall in HS. apply HS, Hin.
  Qed.

  Definition A_ty (f : nat) : Prop := forall st t tag v items st',
    enc_ty f st t tag v = Ok (items, st') ->
    snd (norm_ty f st t v) = st' /\ enc_ty f st t tag (fst (norm_ty f st t v)) = Ok (items, st').
  Definition A_list (f : nat) : Prop := forall st t tag l items st',
    enc_list f st t tag l = Ok (items, st') ->
    snd (norm_list f st t l) = st' /\ enc_list f st t tag (fst (norm_list f st t l)) = Ok (items, st').
  Definition A_fields (f : nat) : Prop := forall st fl vl items st',
    Forall (fun fd => enc_field_ok S fd = true) fl ->
    enc_fields f st fl vl = Ok (items, st') ->
    snd (norm_fields f st fl vl) = st' /\ enc_fields f st fl (fst (norm_fields f st fl vl)) = Ok (items, st').
  Definition A_same (f : nat) : Prop := forall st fl tag vl items st',
    enc_same_tag f st fl tag vl = Ok (items, st') ->
    snd (norm_same_tag f st fl vl) = st' /\ enc_same_tag f st fl tag (fst (norm_same_tag f st fl vl)) = Ok (items, st').
  Definition A_custom (f : nat) : Prop := forall st d tag fs items st',
    enc_custom f st d tag fs = Ok (items, st') ->
    snd (norm_custom f st d fs) = st' /\ enc_custom f st d tag (fst (norm_custom f st d fs)) = Ok (items, st').

  Definition A_all (f : nat) : Prop := A_ty f /\ A_list f /\ A_fields f /\ A_same f /\ A_custom f.

  Lemma A_step_ty f : A_all f -> A_ty (Datatypes.S f).
  Proof.
    intros (IHt & IHl & IHf & IHs & IHc) st t tag v items st' He.
    rewrite enc_ty_eq in He. rewrite norm_ty_eq.
    destruct t as [k|t'|t'|n|nm].
    - cbn [fst snd]. split; [|rewrite enc_ty_eq; exact He].
      destruct (enc_scalar k tag v); cbn [bind] in He; try discriminate. injection He as _ <-. reflexivity.
    - destruct v as [| | | | |w| | | |]; try discriminate.
      + injection He as <- <-. cbn [fst snd]. split; [reflexivity | rewrite enc_ty_eq; reflexivity].
      + destruct (IHt _ _ _ _ _ _ He) as [H1 H2]. cbn [fst snd]. split; [exact H1 | rewrite enc_ty_eq; exact H2].
    - destruct v as [| | | | | |l| | |]; try discriminate.
      destruct (IHl _ _ _ _ _ _ He) as [H1 H2]. cbn [fst snd]. split; [exact H1 | rewrite enc_ty_eq; exact H2].
    - destruct (String.eqb n "ttlv.Value") eqn:EV.
      { cbn [fst snd]. split; [|rewrite enc_ty_eq, EV; exact He].
        destruct v; try discriminate. injection He as _ <-. reflexivity. }
      destruct (String.eqb n "ttlv.Struct") eqn:ES.
      { cbn [fst snd]. split; [|rewrite enc_ty_eq, EV, ES; exact He].
        destruct v as [| | | | | |l| | |]; try discriminate. destruct (trees_of l); [|discriminate]. injection He as _ <-. reflexivity. }
      destruct (find_tdef S n) as [d|] eqn:Ed; [|discriminate].
      destruct v as [| | | | | | |n' fs| |]; try discriminate.
      cbv zeta. destruct (t_custom_enc d) eqn:Hce.
      + destruct (IHc _ _ _ _ _ _ He) as [H1 H2]. cbn [fst snd]. split; [exact H1|].
        rewrite enc_ty_eq, EV, ES, Ed, Hce. exact H2.
      + destruct (enc_fields f st (t_fields d) fs) as [[kids s2]| | |] eqn:Ef; cbn [bind fst snd] in He; try discriminate.
        injection He as <- <-.
        assert (Hall : Forall (fun fd => enc_field_ok S fd = true) (t_fields d)).
        { apply Forall_forall. intros fd Hin. exact (enc_field_facts n d fd Ed Hce Hin). }
        destruct (IHf _ _ _ _ _ Hall Ef) as [H1 H2]. cbn [fst snd]. split; [exact H1|].
        rewrite enc_ty_eq, EV, ES, Ed, Hce, H2. reflexivity.
    - destruct v as [| | | | | | | |dyn w|]; try discriminate.
      + injection He as <- <-. cbn [fst snd]. split; [reflexivity | rewrite enc_ty_eq; reflexivity].
      + destruct (IHt _ _ _ _ _ _ He) as [H1 H2]. cbn [fst snd]. split; [exact H1 | rewrite enc_ty_eq; exact H2].
  Qed.

  Lemma A_step_list f : A_all f -> A_list (Datatypes.S f).
  Proof.
    intros (IHt & IHl & IHf & IHs & IHc) st t tag l items st' He.
    rewrite enc_list_eq in He. rewrite norm_list_eq.
    destruct l as [|x r].
    - injection He as <- <-. cbn [fst snd]. split; [reflexivity | rewrite enc_list_eq; reflexivity].
    - destruct (enc_ty f st t tag x) as [[a sa]| | |] eqn:Ea; cbn [bind fst snd] in He; try discriminate.
      destruct (enc_list f sa t tag r) as [[b sb]| | |] eqn:Eb; cbn [bind fst snd] in He; try discriminate.
      injection He as <- <-.
      destruct (IHt _ _ _ _ _ _ Ea) as [H1 H2]. cbv zeta. rewrite H1.
      destruct (IHl _ _ _ _ _ _ Eb) as [H3 H4]. cbn [fst snd]. split; [exact H3|].
      rewrite enc_list_eq, H2. cbn [bind fst snd]. rewrite H4. reflexivity.
  Qed.

  Lemma A_step_same f : A_all f -> A_same (Datatypes.S f).
  Proof.
    intros (IHt & IHl & IHf & IHs & IHc) st fl tag vl items st' He.
    rewrite enc_same_tag_eq in He. rewrite norm_same_tag_eq.
    destruct fl as [|fd fl'].
    - destruct vl; [|discriminate]. injection He as <- <-. cbn [fst snd]. split; [reflexivity | rewrite enc_same_tag_eq; reflexivity].
    - destruct vl as [|x vl']; [discriminate|].
      destruct (enc_ty f st (f_ty fd) tag x) as [[a sa]| | |] eqn:Ea; cbn [bind fst snd] in He; try discriminate.
      destruct (enc_same_tag f sa fl' tag vl') as [[b sb]| | |] eqn:Eb; cbn [bind fst snd] in He; try discriminate.
      injection He as <- <-.
      destruct (IHt _ _ _ _ _ _ Ea) as [H1 H2]. cbv zeta. rewrite H1.
      destruct (IHs _ _ _ _ _ _ Eb) as [H3 H4]. cbn [fst snd]. split; [exact H3|].
      rewrite enc_same_tag_eq, H2. cbn [bind fst snd]. rewrite H4. reflexivity.
  Qed.

  Lemma A_step_fields f : A_all f -> A_fields (Datatypes.S f).
  Proof.
    intros (IHt & IHl & IHf & IHs & IHc) st fl vl items st' Hall He.
    rewrite enc_fields_eq in He. rewrite norm_fields_eq.
    destruct fl as [|fd fl'].
    { destruct vl; [|discriminate]. injection He as <- <-. cbn [fst snd]. split; [reflexivity | rewrite enc_fields_eq; reflexivity]. }
    destruct vl as [|x vl']; [discriminate|].
    inversion Hall as [|? ? Hfd Hall']; subst.
    (* the first field: what the encoder does with [x], and with its normal form *)
    set (ea := if f_tag fd =? 0
               then match x with VNil => Ok ([], st) | VIface dyn w => enc_ty f st dyn (deftag_of S dyn) w | _ => Panic end
               else let st1 := if f_setver fd then ver_of_value x else st in
                    if negb (version_in st1 (f_range fd)) then Ok ([], st1)
                    else if f_omit fd && is_zero x then Ok ([], st1) else enc_ty f st1 (f_ty fd) (f_tag fd) x) in *.
    set (na := if f_tag fd =? 0
               then match x with VIface dyn w => let r := norm_ty f st dyn w in (VIface dyn (fst r), snd r) | _ => (x, st) end
               else let st1 := if f_setver fd then ver_of_value x else st in
                    if negb (version_in st1 (f_range fd)) then (zero_of S 8 (f_ty fd), st1)
                    else if f_omit fd && is_zero x then (zero_of S 8 (f_ty fd), st1) else norm_ty f st1 (f_ty fd) x).
    destruct ea as [[a sa]| | |] eqn:Ea; cbn [bind fst snd] in He; try discriminate.
    destruct (enc_fields f sa fl' vl') as [[b sb]| | |] eqn:Eb; cbn [bind fst snd] in He; try discriminate.
    injection He as <- <-.
    assert (Hfirst : snd na = sa /\
      (if f_tag fd =? 0
       then match fst na with VNil => Ok ([], st) | VIface dyn w => enc_ty f st dyn (deftag_of S dyn) w | _ => Panic end
       else let st1 := if f_setver fd then ver_of_value (fst na) else st in
            if negb (version_in st1 (f_range fd)) then Ok ([], st1)
            else if f_omit fd && is_zero (fst na) then Ok ([], st1) else enc_ty f st1 (f_ty fd) (f_tag fd) (fst na)) = Ok (a, sa)).
    { subst ea na. destruct (f_tag fd =? 0) eqn:Etag.
      - destruct x as [| | | |  | | | |dyn w|]; try discriminate.
        + injection Ea as <- <-. cbn [fst snd]. split; reflexivity.
        + destruct (IHt _ _ _ _ _ _ Ea) as [H1 H2]. cbv zeta. cbn [fst snd]. split; [exact H1 | exact H2].
      - cbv zeta in Ea |- *.
        unfold enc_field_ok in Hfd. apply andb_true_iff in Hfd. destruct Hfd as [Hom Hsv].
        destruct (f_setver fd) eqn:Esv.
        + (* a set-version field: a plain structure, never omitted, not gated *)
          rewrite !andb_true_iff in Hsv. destruct Hsv as ((Hpl & Hno) & Hnr).
          apply negb_true_iff in Hno, Hnr. unfold has_range in Hnr. destruct (f_range fd) eqn:Er; [discriminate|].
          rewrite Hno in Ea |- *. rewrite version_in_none in Ea |- *. cbn [negb andb] in Ea |- *.
          rewrite (norm_plain _ Hpl _ _ _ _ _ Ea). cbn [fst snd].
          destruct (plain_enc_ty S _ Hpl _ _ _ _ _ _ Ea) as [-> _]. split; [reflexivity | exact Ea].
        + destruct (negb (version_in st (f_range fd))) eqn:Ever.
          { injection Ea as <- <-. cbn [fst snd]. split; reflexivity. }
          destruct (f_omit fd && is_zero x) eqn:Eom.
          { injection Ea as <- <-. cbn [fst snd]. split; [reflexivity|].
            apply andb_true_iff in Eom. destruct Eom as [Eo _]. rewrite Eo in Hom |- *.
            rewrite (omit_zero_of _ Hom). reflexivity. }
          destruct (IHt _ _ _ _ _ _ Ea) as [H1 H2]. split; [exact H1|].
          assert (Ez : f_omit fd && is_zero (fst (norm_ty f st (f_ty fd) x)) = false).
          { destruct (f_omit fd) eqn:Eo; [|reflexivity]. cbn [andb] in Eom |- *. rewrite (omit_norm_zero _ Hom). exact Eom. }
          rewrite Ez. exact H2. }
    destruct Hfirst as [Hs1 Hs2]. cbv zeta. fold na. rewrite Hs1.
    destruct (IHf _ _ _ _ _ Hall' Eb) as [H3 H4]. cbn [fst snd]. split; [exact H3|].
    rewrite enc_fields_eq. cbv zeta in Hs2 |- *. rewrite Hs2. cbn [bind fst snd]. rewrite H4. reflexivity.
  Qed.

  Lemma A_step_custom f : A_all f -> A_custom (Datatypes.S f).
  Proof.
    intros (IHt & IHl & IHf & IHs & IHc) st d tag fs items st' He.
    rewrite enc_custom_eq in He. rewrite norm_custom_eq. cbv zeta in He |- *.
    destruct (String.eqb (t_name d) "kmip.RequestBatchItem") eqn:E1.
    { destruct fs as [|x0 fs]; [discriminate|]. destruct x0 as [op| | | | | | | | |]; try discriminate.
      destruct fs as [|idv fs]; [discriminate|]. destruct fs as [|payload fs]; [discriminate|]. destruct fs as [|ext fs]; [discriminate|].
      destruct fs as [|? ?]; [|discriminate].
      destruct (bytes_of idv) as [id|] eqn:Eid; [|discriminate].
      destruct (enc_ty f st (fty d 2) (ftag d 2) payload) as [[ip sp]| | |] eqn:Ep; cbn [bind fst snd] in He; try discriminate.
      destruct (enc_ty f sp (fty d 3) (ftag d 3) ext) as [[ie se]| | |] eqn:Ee; cbn [bind fst snd] in He; try discriminate.
      injection He as <- <-.
      destruct (IHt _ _ _ _ _ _ Ep) as [H1 H2]. rewrite H1.
      destruct (IHt _ _ _ _ _ _ Ee) as [H3 H4]. cbn [fst snd]. split; [exact H3|].
      rewrite enc_custom_eq. cbv zeta. rewrite E1. cbn [bytes_of]. rewrite H2. cbn [bind fst snd]. rewrite H4. reflexivity. }
    destruct (String.eqb (t_name d) "kmip.ResponseBatchItem") eqn:E2.
    { destruct fs as [|x0 fs]; [discriminate|]. destruct x0 as [op| | | | | | | | |]; try discriminate.
      destruct fs as [|idv fs]; [discriminate|]. destruct fs as [|x2 fs]; [discriminate|]. destruct x2 as [status| | | | | | | | |]; try discriminate.
      destruct fs as [|x3 fs]; [discriminate|]. destruct x3 as [reason| | | | | | | | |]; try discriminate.
      destruct fs as [|x4 fs]; [discriminate|]. destruct x4 as [| |msg| | | | | | |]; try discriminate.
      destruct fs as [|acvv fs]; [discriminate|]. destruct fs as [|payload fs]; [discriminate|]. destruct fs as [|ext fs]; [discriminate|].
      destruct fs as [|? ?]; [|discriminate].
      destruct (bytes_of idv) as [id|] eqn:Eid; [|discriminate].
      destruct (bytes_of acvv) as [acv|] eqn:Eacv; [|discriminate].
      destruct (enc_ty f st (fty d 6) (ftag d 6) payload) as [[ip sp]| | |] eqn:Ep; cbn [bind fst snd] in He; try discriminate.
      destruct (enc_ty f sp (fty d 7) (ftag d 7) ext) as [[ie se]| | |] eqn:Ee; cbn [bind fst snd] in He; try discriminate.
      injection He as <- <-.
      destruct (IHt _ _ _ _ _ _ Ep) as [H1 H2]. rewrite H1.
      destruct (IHt _ _ _ _ _ _ Ee) as [H3 H4]. cbn [fst snd]. split; [exact H3|].
      rewrite enc_custom_eq. cbv zeta. rewrite E1, E2. cbn [bytes_of]. rewrite H2. cbn [bind fst snd]. rewrite H4. reflexivity. }
    destruct (String.eqb (t_name d) "kmip.UnknownPayload") eqn:E3.
    { cbn [fst snd]. split; [|rewrite enc_custom_eq; cbv zeta; rewrite E1, E2, E3; exact He].
      destruct fs as [|[?| | | | | | | | |] [|[| | | | | |l| | |] [|? ?]]]; try discriminate.
      destruct (trees_of l); [|discriminate]. injection He as _ <-. reflexivity. }
    destruct (IHs _ _ _ _ _ _ He) as [H1 H2]. split; [exact H1|].
    rewrite enc_custom_eq. cbv zeta. rewrite E1, E2, E3. exact H2.
  Qed.

  Theorem enc_norm_all f : A_all f.
  Proof.
    induction f as [|f IH].
    - repeat split; intros; discriminate.
    - split; [apply A_step_ty, IH|]. split; [apply A_step_list, IH|]. split; [apply A_step_fields, IH|].
      split; [apply A_step_same, IH | apply A_step_custom, IH].
  Qed.

  (** normalisation does not change the encoding *)
  Theorem enc_norm f st t tag v items st' :
    enc_ty f st t tag v = Ok (items, st') ->
    snd (norm_ty f st t v) = st' /\ enc_ty f st t tag (fst (norm_ty f st t v)) = Ok (items, st').
  Proof. destruct (enc_norm_all f) as (H & _). apply H. Qed.
End NP.
