(** Row checkers used by the generated cases_*.v files of the codec properties
    (C03, C02, ...): each compares what the implementation did on one case with what the
    model computes for the same case. *)
From Coq Require Import ZArith List Bool.
From KV Require Import Base Wire Cursor Cases.
Import ListNotations.
Open Scope Z_scope.

Definition spec_parse_all (bs : list Z) : option (list wtree) := spec_parse (S (length bs)) bs.

(** C03 row: the implementation encoded [it] as [bytes] *)
Definition row_enc (r : item * list Z) : bool :=
  let '(it, bytes) := r in
  zlist_eqb (wire_enc it) bytes &&
  match spec_parse_all bytes with
  | Some [t] => wtree_eqb t (to_wire it)
  | _ => false
  end.

(** outcome classes of a Go call as the driver observes them *)
Inductive obs (A : Type) : Type := OOk (a : A) | OErr | OPanic | OHang.
Arguments OOk {A}. Arguments OErr {A}. Arguments OPanic {A}. Arguments OHang {A}.

Definition res_obs_eqb {A} (eqb : A -> A -> bool) (m : res A) (o : obs A) : bool :=
  match m, o with
  | Ok a, OOk b => eqb a b
  | Err, OErr => true
  | Panic, OPanic => true
  | OutOfFuel, OHang => true
  | _, _ => false
  end.

(** decode row: UnmarshalTTLV(bytes, &ttlv.Value{}) returned [o] *)
Definition row_dec (r : list Z * obs item) : bool :=
  let '(bytes, o) := r in res_obs_eqb item_eqb (unmarshal_value bytes) o.

(** accepted-input row (C18 at the generic-tree level): re-encoding of the decoded value *)
Definition row_reenc (r : list Z * obs (list Z)) : bool :=
  let '(bytes, o) := r in
  res_obs_eqb zlist_eqb (do i <- unmarshal_value bytes ;; Ok (wire_enc i)) o.

(** operation-level row (C02): a script of reader operations run through the public
    ttlv.Decoder API on [bytes] produced the outputs [outs] *)
From KV Require Import Reader.
Definition rout_eqb (a b : rout) : bool :=
  match a, b with
  | RNum x, RNum y => x =? y
  | RBool x, RBool y => Bool.eqb x y
  | RStr x, RStr y => zlist_eqb x y
  | RUnit, RUnit | ROpen, ROpen | RClose, RClose | RErr, RErr | RPanic, RPanic => true
  | _, _ => false
  end.
Definition row_ops (r : Z * list rop * list Z * list rout) : bool :=
  let '(fuel, ops, bytes, outs) := r in list_eqb rout_eqb (run_script fuel ops bytes) outs.
