(** The guards of ttlvReader exclude every slice/index panic (C02, binary part). *)
From Coq Require Import ZArith List Bool Lia.
From KV Require Import Base BaseProofs Wire Reader.
Import ListNotations.
Open Scope Z_scope.

Lemma len_take {A} n (l : list A) : 0 <= n <= len l -> len (take n l) = n.
Proof. intros H. unfold len, take in *. rewrite firstn_length. lia. Qed.
Lemma len_drop {A} n (l : list A) : 0 <= n <= len l -> len (drop n l) = len l - n.
Proof. intros H. unfold len, drop in *. rewrite skipn_length. lia. Qed.
Lemma In_firstn' {A} (x : A) n l : In x (firstn n l) -> In x l.
Proof. revert l. induction n as [|n IH]; intros [|y l] H; cbn [firstn] in H; try contradiction.
  destruct H as [->|H]; [left; reflexivity | right; apply IH, H]. Qed.
Lemma In_skipn' {A} (x : A) n l : In x (skipn n l) -> In x l.
Proof. revert l. induction n as [|n IH]; intros [|y l] H; cbn [skipn] in H; try assumption.
  right. apply IH, H. Qed.
Lemma bytes_ok_take n l : bytes_ok l = true -> bytes_ok (take n l) = true.
Proof. unfold bytes_ok, take. rewrite !forallb_forall. intros H x Hx. apply H. eapply In_firstn'; eauto. Qed.
Lemma bytes_ok_drop n l : bytes_ok l = true -> bytes_ok (drop n l) = true.
Proof. unfold bytes_ok, drop. rewrite !forallb_forall. intros H x Hx. apply H. eapply In_skipn'; eauto. Qed.

Lemma slice_ok (buf : list Z) lo hi : 0 <= lo <= hi -> hi <= len buf -> slice buf lo hi = Ok (take (hi - lo) (drop lo buf)).
Proof.
  intros H1 H2. unfold slice.
  destruct (Z.ltb_spec lo 0); [lia|]. destruct (Z.ltb_spec hi lo); [lia|]. destruct (Z.ltb_spec (len buf) hi); [lia|].
  reflexivity.
Qed.
Lemma idx_ok (buf : list Z) i : 0 <= i < len buf -> idx buf i = Ok (nth (Z.to_nat i) buf 0).
Proof. intros H. unfold idx. destruct (Z.ltb_spec i 0); [lia|]. destruct (Z.leb_spec (len buf) i); [lia|]. reflexivity. Qed.

Lemma len_slice (buf : list Z) lo hi : 0 <= lo <= hi -> hi <= len buf -> len (take (hi - lo) (drop lo buf)) = hi - lo.
Proof. intros. rewrite len_take; [reflexivity|]. rewrite len_drop by lia. lia. Qed.

(** [wfbuf]: what newTTLVReader / Next establish before any value is read *)
Definition wfbuf (buf : list Z) : Prop := bytes_ok buf = true /\ r_validate buf = Ok true.

Definition width_ok (ty l : Z) : Prop :=
  ((ty = T_INT \/ ty = T_ENUM \/ ty = T_INTV) -> l = 4) /\
  ((ty = T_LONG \/ ty = T_BOOL \/ ty = T_DATE) -> l = 8) /\
  (ty = T_BIG -> l <> 0).

Lemma len_pos_nonnil {A} (l : list A) : len l <> 0 -> l <> [].
Proof. intros H ->. apply H. reflexivity. Qed.

Lemma r_len_ok buf : 8 <= len buf -> r_len buf = Ok (unbe (take 4 (drop 4 buf))).
Proof.
  intros H. unfold r_len. destruct buf as [|b buf']; [cbn in H; lia|].
  rewrite slice_ok by lia. reflexivity.
Qed.
Lemma r_type_ok buf : 8 <= len buf -> r_type buf = Ok (nth 3 buf 0).
Proof.
  intros H. unfold r_type. destruct buf as [|b buf']; [cbn in H; lia|]. rewrite idx_ok by lia. reflexivity.
Qed.
Lemma r_tag_ok buf : 8 <= len buf -> exists t, r_tag buf = Ok t.
Proof.
  intros H. unfold r_tag. destruct buf as [|b buf']; [cbn in H; lia|].
  rewrite !idx_ok by lia. cbn [bind]. eauto.
Qed.

Lemma unbe_nonneg l : bytes_ok l = true -> 0 <= unbe l.
Proof. intros H. apply unbe_bound in H. lia. Qed.

(** validate never panics, on any byte string *)
Lemma validate_total buf : r_validate buf = Ok true \/ r_validate buf = Ok false.
Proof.
  unfold r_validate. destruct (Z.eqb_spec (len buf) 0); [left; reflexivity|].
  destruct (Z.ltb_spec (len buf) 8); [right; reflexivity|].
  rewrite slice_ok by lia. cbn [bind]. unfold r_padded. rewrite r_len_ok by lia. cbn [bind].
  destruct (_ <? _); [right; reflexivity|]. rewrite r_type_ok by lia. cbn [bind].
  destruct (_ || _); [right; reflexivity|].
  destruct (_ && _); [right; reflexivity|]. destruct (_ && _); [right; reflexivity|].
  destruct (_ && _); [right; reflexivity|]. left; reflexivity.
Qed.

Lemma r_new_total bs : bytes_ok bs = true -> (exists b, r_new bs = Ok b /\ wfbuf b) \/ r_new bs = Err.
Proof.
  intros Hb. unfold r_new. destruct (validate_total bs) as [E|E]; rewrite E; cbn [bind].
  - left. exists bs. split; [reflexivity | split; assumption].
  - right. reflexivity.
Qed.

(** what a validated non-empty buffer guarantees *)
Lemma valid_facts buf : wfbuf buf -> len buf <> 0 ->
  8 <= len buf /\
  let l := unbe (take 4 (drop 4 buf)) in
  let ty := nth 3 buf 0 in
  0 <= l /\ l + pad8 l <= len buf - 8 /\ 1 <= ty <= 10 /\ width_ok ty l.
Proof.
  intros [Hb Hv] Hne. unfold r_validate in Hv.
  destruct (Z.eqb_spec (len buf) 0); [lia|].
  destruct (Z.ltb_spec (len buf) 8); [discriminate|].
  rewrite slice_ok in Hv by lia. cbn [bind] in Hv. unfold r_padded in Hv. rewrite r_len_ok in Hv by lia. cbn [bind] in Hv.
  rewrite len_slice in Hv by lia.
  set (l := unbe (take 4 (drop 4 buf))) in *.
  assert (Hl0 : 0 <= l) by (apply unbe_nonneg, bytes_ok_take, bytes_ok_drop, Hb).
  destruct (Z.ltb_spec (len buf - 8) (l + pad8 l)); [discriminate|].
  rewrite r_type_ok in Hv by lia. cbn [bind] in Hv. set (ty := nth 3 buf 0) in *.
  destruct (Z.ltb_spec 10 ty); cbn [orb] in Hv; [discriminate|].
  destruct (Z.eqb_spec ty 0); [discriminate|].
  assert (Hty0 : 0 <= ty).
  { unfold ty. destruct (nth_in_or_default 3 buf 0) as [Hin|Hd]; [|rewrite Hd; lia].
    unfold bytes_ok in Hb. rewrite forallb_forall in Hb. specialize (Hb _ Hin). unfold byte_ok in Hb.
    apply andb_true_iff in Hb. destruct Hb as [H0' _]. apply Z.leb_le in H0'. exact H0'. }
  split; [lia|]. cbv zeta. fold l ty. split; [exact Hl0|]. split; [lia|]. split; [lia|].
  unfold width_ok, T_INT, T_ENUM, T_INTV, T_LONG, T_BOOL, T_DATE, T_BIG in *.
  repeat split; intros Hc.
  - destruct (Z.eqb_spec l 4); [assumption|]. exfalso.
    assert (((ty =? 2) || (ty =? 5) || (ty =? 10)) = true) as Et.
    { destruct Hc as [->|[->| ->]]; reflexivity. }
    rewrite Et in Hv. cbn [andb negb] in Hv. discriminate.
  - destruct (Z.eqb_spec l 8); [assumption|]. exfalso.
    assert (((ty =? 3) || (ty =? 6) || (ty =? 9)) = true) as Et.
    { destruct Hc as [->|[->| ->]]; reflexivity. }
    destruct (((ty =? 2) || (ty =? 5) || (ty =? 10)) && negb (l =? 4)); [discriminate|].
    rewrite Et in Hv. cbn [andb negb] in Hv. discriminate.
  - intros ->. subst ty. rewrite Hc in Hv. cbn in Hv. discriminate.
Qed.

(** a result that is not a panic (nor fuel exhaustion) and whose value satisfies [P] *)
Definition safe_res {A} (P : A -> Prop) (r : res A) : Prop :=
  match r with Ok a => P a | Err => True | _ => False end.

Lemma safe_bind {A B} (P : A -> Prop) (Q : B -> Prop) (r : res A) (f : A -> res B) :
  safe_res P r -> (forall a, P a -> safe_res Q (f a)) -> safe_res Q (bind r f).
Proof. destruct r; cbn [safe_res bind]; intros H Hf; try exact H. apply Hf, H. Qed.

Lemma r_padded_ok buf : 8 <= len buf -> r_padded buf = Ok (let l := unbe (take 4 (drop 4 buf)) in l + pad8 l).
Proof. intros H. unfold r_padded. rewrite r_len_ok by exact H. reflexivity. Qed.

Lemma r_value_ok buf : wfbuf buf -> len buf <> 0 ->
  r_value buf = Ok (take (unbe (take 4 (drop 4 buf))) (drop 8 buf)).
Proof.
  intros Hw Hne. destruct (valid_facts buf Hw Hne) as (H8 & Hl0 & Hpl & _). cbv zeta in *.
  unfold r_value. destruct buf as [|b buf'] eqn:E; [cbn in Hne; lia|]. rewrite <- E in *.
  rewrite r_len_ok by lia. cbn [bind]. pose proof (pad8_range (unbe (take 4 (drop 4 buf)))).
  rewrite slice_ok by lia. f_equal. f_equal. lia.
Qed.

Lemma r_next_safe buf : wfbuf buf -> safe_res wfbuf (r_next buf).
Proof.
  intros Hw. unfold r_next. destruct (Z.eqb_spec (len buf) 0) as [|Hne]; [exact I|].
  destruct (valid_facts buf Hw Hne) as (H8 & Hl0 & Hpl & _). cbv zeta in *.
  rewrite r_padded_ok by lia. cbn [bind]. cbv zeta. set (l := unbe (take 4 (drop 4 buf))) in *.
  pose proof (pad8_range l). rewrite slice_ok by lia. cbn [bind].
  set (rest := take _ (drop _ buf)).
  destruct (validate_total rest) as [E|E]; rewrite E; cbn [bind safe_res]; [|exact I].
  split; [|exact E]. unfold rest. apply bytes_ok_take, bytes_ok_drop, Hw.
Qed.

Lemma r_assert_safe ty tag buf : wfbuf buf ->
  exists b, r_assert ty tag buf = Ok b /\ (b = true -> len buf <> 0 /\ nth 3 buf 0 = ty).
Proof.
  intros Hw. unfold r_assert. destruct (Z.eqb_spec (len buf) 0) as [|Hne]; [exists false; split; [reflexivity | discriminate]|].
  destruct (valid_facts buf Hw Hne) as (H8 & _). destruct (r_tag_ok buf H8) as [t Et]. rewrite Et. cbn [bind].
  destruct (negb (t =? tag)); [exists false; split; [reflexivity | discriminate]|].
  rewrite r_type_ok by exact H8. cbn [bind]. eexists. split; [reflexivity|]. intros E. apply Z.eqb_eq in E. split; assumption.
Qed.

(** a typed read is safe as soon as its getter is safe on values of the validated width *)
Lemma r_read_safe {A} ty (get : list Z -> res A) tag buf :
  wfbuf buf ->
  (forall raw, bytes_ok raw = true -> 0 <= len raw -> width_ok ty (len raw) -> safe_res (fun _ => True) (get raw)) ->
  safe_res (fun p => wfbuf (snd p)) (r_read ty get tag buf).
Proof.
  intros Hw Hget. unfold r_read. destruct (r_assert_safe ty tag buf Hw) as (b & Eb & Hb). rewrite Eb. cbn [bind].
  destruct b; cbn [negb]; [|exact I]. destruct (Hb eq_refl) as [Hne Hty].
  rewrite r_value_ok by assumption. cbn [bind].
  destruct (valid_facts buf Hw Hne) as (H8 & Hl0 & Hpl & Htyr & Hwd). cbv zeta in *.
  set (l := unbe (take 4 (drop 4 buf))) in *. pose proof (pad8_range l).
  assert (Hlen : len (take l (drop 8 buf)) = l) by (rewrite len_take; [reflexivity | rewrite len_drop by lia; lia]).
  eapply safe_bind with (P := fun _ => True).
  - apply Hget; [apply bytes_ok_take, bytes_ok_drop, Hw | lia | rewrite Hlen, <- Hty; exact Hwd].
  - intros v _. eapply safe_bind; [apply r_next_safe, Hw|]. intros b' Hb'. exact Hb'.
Qed.

Lemma be_u32_safe raw : len raw = 4 -> safe_res (fun _ => True) (be_u32 raw).
Proof. intros H. unfold be_u32. rewrite idx_ok by lia. exact I. Qed.
Lemma be_u64_safe raw : len raw = 8 -> safe_res (fun _ => True) (be_u64 raw).
Proof. intros H. unfold be_u64. rewrite idx_ok by lia. exact I. Qed.

Ltac width_of H := unfold width_ok, T_INT, T_ENUM, T_INTV, T_LONG, T_BOOL, T_DATE, T_BIG in H; destruct H as (H4 & H8 & Hbig).

Lemma r_integer_safe tag buf : wfbuf buf -> safe_res (fun p => wfbuf (snd p)) (r_integer tag buf).
Proof. intros Hw. apply r_read_safe; [exact Hw|]. intros raw _ _ Hwd. width_of Hwd.
  eapply safe_bind; [apply be_u32_safe, H4; auto | intros; exact I]. Qed.
Lemma r_enum_safe tag buf : wfbuf buf -> safe_res (fun p => wfbuf (snd p)) (r_enum tag buf).
Proof. intros Hw. apply r_read_safe; [exact Hw|]. intros raw _ _ Hwd. width_of Hwd. apply be_u32_safe, H4; auto. Qed.
Lemma r_intv_safe tag buf : wfbuf buf -> safe_res (fun p => wfbuf (snd p)) (r_intv tag buf).
Proof. intros Hw. apply r_read_safe; [exact Hw|]. intros raw _ _ Hwd. width_of Hwd. apply be_u32_safe, H4; auto. Qed.
Lemma r_long_safe tag buf : wfbuf buf -> safe_res (fun p => wfbuf (snd p)) (r_long tag buf).
Proof. intros Hw. apply r_read_safe; [exact Hw|]. intros raw _ _ Hwd. width_of Hwd.
  eapply safe_bind; [apply be_u64_safe, H8; auto | intros; exact I]. Qed.
Lemma r_date_safe tag buf : wfbuf buf -> safe_res (fun p => wfbuf (snd p)) (r_date tag buf).
Proof. intros Hw. apply r_read_safe; [exact Hw|]. intros raw _ _ Hwd. width_of Hwd.
  eapply safe_bind; [apply be_u64_safe, H8; auto | intros; exact I]. Qed.
Lemma r_bool_safe tag buf : wfbuf buf -> safe_res (fun p => wfbuf (snd p)) (r_bool tag buf).
Proof. intros Hw. apply r_read_safe; [exact Hw|]. intros raw _ _ Hwd. width_of Hwd.
  rewrite idx_ok by (rewrite H8; auto; lia). exact I. Qed.
Lemma r_big_safe tag buf : wfbuf buf -> safe_res (fun p => wfbuf (snd p)) (r_big tag buf).
Proof. intros Hw. apply r_read_safe; [exact Hw|]. intros raw _ Hl Hwd. width_of Hwd.
  unfold r_big_of. destruct (Z.eqb_spec (len raw) 0); [exact I|]. rewrite idx_ok by lia. cbn [bind].
  destruct (_ <? _); exact I. Qed.
Lemma r_text_safe tag buf : wfbuf buf -> safe_res (fun p => wfbuf (snd p)) (r_text tag buf).
Proof. intros Hw. apply r_read_safe; [exact Hw|]. intros; exact I. Qed.
Lemma r_bytes_safe tag buf : wfbuf buf -> safe_res (fun p => wfbuf (snd p)) (r_bytes tag buf).
Proof. intros Hw. apply r_read_safe; [exact Hw|]. intros; exact I. Qed.

(** entering a structure: the nested reader is validated, hence well-formed *)
Lemma r_struct_enter_safe buf : wfbuf buf -> len buf <> 0 ->
  safe_res wfbuf (do v <- r_value buf ;; r_new v).
Proof.
  intros Hw Hne. rewrite r_value_ok by assumption. cbn [bind].
  set (v := take _ (drop 8 buf)). assert (Hb : bytes_ok v = true) by (apply bytes_ok_take, bytes_ok_drop, Hw).
  destruct (r_new_total v Hb) as [(b & E & Hwb)|E]; rewrite E; [exact Hwb | exact I].
Qed.

Lemma r_struct_safe {A} tag (f : list Z -> res (A * list Z)) buf :
  wfbuf buf -> (forall sub, wfbuf sub -> safe_res (fun _ => True) (f sub)) ->
  safe_res (fun p => wfbuf (snd p)) (r_struct tag f buf).
Proof.
  intros Hw Hf. unfold r_struct. destruct (r_assert_safe T_STRUCT tag buf Hw) as (b & Eb & Hb). rewrite Eb. cbn [bind].
  destruct b; cbn [negb]; [|exact I]. destruct (Hb eq_refl) as [Hne _].
  pose proof (r_struct_enter_safe buf Hw Hne) as Hs.
  rewrite r_value_ok in * by assumption. cbn [bind] in *.
  eapply safe_bind; [exact Hs|]. intros sub Hsub.
  eapply safe_bind; [apply Hf, Hsub|]. intros r _.
  eapply safe_bind; [apply r_next_safe, Hw|]. intros b' Hb'. exact Hb'.
Qed.
