(** C08, the HTTP entry point (kmipserver/http.go, [httpHandler.ServeHTTP]).

    One POSTed request is handled by a straight-line function: method check, content type, the
    Content-Length header, the size limit, reading exactly Content-Length bytes of the body,
    decoding, then EITHER the invalid-message reply OR the request handler, and one write of the
    marshalled response.  The decoder, the request handler and the marshaller are the
    environment: whether the body decodes is an input of the model ([h_decodable], given by the
    library's own decoder in the correspondence runs).

    The observable of one exchange: the HTTP status, how many KMIP response messages the body of
    the answer holds and of which kind, and how many times the request handler was invoked. *)
From Coq Require Import ZArith List Bool.
Import ListNotations.
Local Open Scope Z_scope.

Inductive ctype := CtXml | CtJson | CtTtlv | CtOther.

Record hreq := mkHreq {
  h_post : bool;            (* req.Method == POST *)
  h_ctype : ctype;          (* the Content-Type header *)
  h_clen : option Z;        (* the Content-Length header parsed as an integer; None: not an integer *)
  h_avail : Z;              (* how many bytes the body delivers before its end *)
  h_decodable : bool        (* the first Content-Length bytes decode as a request message *)
}.

Inductive hkind := RHandler | RInvalidMessage.

(** what the exchange produces: an HTTP error status without any KMIP message, or status 200 with
    the marshalled response of the given kind *)
Inductive hout := HStatus (code : Z) | HResp (k : hkind).

Definition max_body : Z := 1048576.   (* DEFAULT_MAX_BODY_SIZE *)

(** [ServeHTTP]: outcome and number of invocations of the request handler *)
Definition serve (q : hreq) : hout * Z :=
  if negb (h_post q) then (HStatus 405, 0) else
  match h_ctype q with
  | CtOther => (HStatus 406, 0)
  | _ =>
    match h_clen q with
    | None => (HStatus 411, 0)
    | Some n =>
      if n <=? 0 then (HStatus 411, 0)
      else if max_body <? n then (HStatus 400, 0)
      else if h_avail q <? n then (HStatus 400, 0)     (* io.ReadFull fails *)
      else if h_decodable q then (HResp RHandler, 1)
      else (HResp RInvalidMessage, 0)
    end
  end.

(** number of KMIP response messages in the body of the answer *)
Definition messages (o : hout) : Z := match o with HStatus _ => 0 | HResp _ => 1 end.

(** the request reaches the decoding step *)
Definition admitted (q : hreq) : bool :=
  h_post q && (match h_ctype q with CtOther => false | _ => true end) &&
  match h_clen q with Some n => (0 <? n) && (n <=? max_body) && (n <=? h_avail q) | None => false end.

(** a server is a sequence of independent exchanges (the handler keeps no state between them):
    outcomes in request order, total number of handler invocations *)
Definition serve_all (l : list hreq) : list hout * Z :=
  (map (fun q => fst (serve q)) l, fold_right (fun q acc => snd (serve q) + acc) 0 l).

(** correspondence rows: (request, (status, messages in the body, kind: 0 none / 1 handler / 2 invalid message, handler calls)) *)
Definition hrow : Type := (hreq * (Z * Z * Z * Z))%type.
Definition kind_code (o : hout) : Z := match o with HStatus _ => 0 | HResp RHandler => 1 | HResp RInvalidMessage => 2 end.
Definition status_of (o : hout) : Z := match o with HStatus c => c | HResp _ => 200 end.
Definition hrow_ok (r : hrow) : bool :=
  match r with
  | (q, (st, nm, k, calls)) =>
      let '(o, c) := serve q in
      (status_of o =? st) && (messages o =? nm) && (kind_code o =? k) && (c =? calls)
  end.
