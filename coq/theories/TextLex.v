(** Lexical forms shared by the XML and JSON encodings of TTLV (ttlv/encoding_xml.go,
    ttlv/encoding_json.go, ttlv/utils.go, ttlv/registry.go): decimal and hexadecimal numbers
    (strconv.Itoa/AppendInt, fmt "%0NX", strconv.ParseInt/ParseUint, parseInt/parseUint of
    utils.go with the "0x" switch), hex byte strings (encoding/hex), big integers as
    two's-complement hex, RFC 3339 instants in UTC, booleans, white-space splitting
    (strings.Fields / strings.TrimSpace / strings.Split), and the part of UTF-8 that decides
    which text strings the two formats can carry.  Strings are byte lists.  Go slice
    expressions and indexings that the code performs are explicit ([go_from], [Panic]) so that
    "never panics" is a theorem about the guards the code has.  No proofs here. *)
From Coq Require Import String Ascii ZArith List Bool.
From KV Require Import Base Wire.
Import ListNotations.
Open Scope Z_scope.

(** a Go call returned normally: with a value or an error - it did not panic and the model's
    fuel sufficed *)
Definition returns {A} (r : res A) : Prop :=
  match r with Ok _ | Err => True | Panic | OutOfFuel => False end.

(** a Coq string literal as a byte list (ASCII only is used) *)
Definition str (s : string) : list Z := map (fun c => Z.of_N (N_of_ascii c)) (list_ascii_of_string s).

Fixpoint seqb (a b : list Z) : bool :=
  match a, b with
  | [], [] => true
  | x :: xs, y :: ys => (x =? y) && seqb xs ys
  | _, _ => false
  end.

(** strings.HasPrefix *)
Fixpoint has_prefix (p s : list Z) : bool :=
  match p, s with
  | [], _ => true
  | a :: p', b :: s' => (a =? b) && has_prefix p' s'
  | _ :: _, [] => false
  end.

(** Go slice expression s[n:]: panics when n > len(s) *)
Definition go_from (n : Z) (s : list Z) : res (list Z) :=
  if len s <? n then Panic else Ok (drop n s).

Definition s_0x : list Z := [48; 120].

(** ---------------------------------------------------------------- numbers *)

Definition digit_char (upper : bool) (d : Z) : Z :=
  if d <? 10 then 48 + d else (if upper then 55 else 87) + d.

(** value of a digit character as strconv reads it (letters in either case) *)
Definition digit_val (c : Z) : option Z :=
  if (48 <=? c) && (c <=? 57) then Some (c - 48)
  else if (97 <=? c) && (c <=? 122) then Some (c - 87)
  else if (65 <=? c) && (c <=? 90) then Some (c - 55)
  else None.

(** digits of [n >= 0] in [base], most significant first *)
Fixpoint digits_aux (fuel : nat) (base : Z) (upper : bool) (n : Z) (acc : list Z) : list Z :=
  match fuel with
  | O => acc
  | S f => if n <? base then digit_char upper n :: acc
           else digits_aux f base upper (n / base) (digit_char upper (n mod base) :: acc)
  end.
Definition digits (base : Z) (upper : bool) (n : Z) : list Z :=
  digits_aux (S (Z.to_nat (Z.log2 n))) base upper n [].

(** strconv.Itoa / strconv.AppendInt(.., 10) / big.Int.Append(.., 10) *)
Definition fmt_int (n : Z) : list Z :=
  if n <? 0 then 45 :: digits 10 false (- n) else digits 10 false n.

Definition pad_left (w : nat) (s : list Z) : list Z := repeat 48 (w - length s) ++ s.
(** fmt "%0wX" / "%0wx" of an unsigned value *)
Definition hex_pad (w : nat) (upper : bool) (n : Z) : list Z := pad_left w (digits 16 upper n).

Fixpoint parse_digits (base : Z) (s : list Z) (acc : Z) : option Z :=
  match s with
  | [] => Some acc
  | c :: r =>
    match digit_val c with
    | Some d => if d <? base then parse_digits base r (acc * base + d) else None
    | None => None
    end
  end.

(** strconv.ParseUint(s, base, bits) for an explicit base (no prefix, sign or underscore) *)
Definition parse_uint (base bits : Z) (s : list Z) : res Z :=
  match s with
  | [] => Err
  | _ =>
    match parse_digits base s 0 with
    | Some v => if v <? 2 ^ bits then Ok v else Err
    | None => Err
    end
  end.

(** strconv.ParseInt(s, base, bits) for an explicit base *)
Definition parse_int (base bits : Z) (s : list Z) : res Z :=
  match s with
  | [] => Err
  | c :: r =>
    let body := if (c =? 43) || (c =? 45) then r else s in
    match body with
    | [] => Err
    | _ =>
      match parse_digits base body 0 with
      | None => Err
      | Some v =>
        if c =? 45 then (if v <=? 2 ^ (bits - 1) then Ok (- v) else Err)
        else (if v <? 2 ^ (bits - 1) then Ok v else Err)
      end
    end
  end.

(** parseInt(val, bits) of ttlv/utils.go: "0x" selects ParseUint base 16 then int64(ui) *)
Definition go_parse_int (bits : Z) (s : list Z) : res Z :=
  if has_prefix s_0x s then
    do r <- go_from 2 s ;; do u <- parse_uint 16 bits r ;; Ok (to_i64 u)
  else parse_int 10 bits s.

(** parseUint(val, bits) of ttlv/utils.go *)
Definition go_parse_uint (bits : Z) (s : list Z) : res Z :=
  if has_prefix s_0x s then do r <- go_from 2 s ;; parse_uint 16 bits r
  else parse_uint 10 bits s.

(** ---------------------------------------------------------------- hex byte strings *)

Definition hex_byte (upper : bool) (b : Z) : list Z :=
  [digit_char upper (b / 16); digit_char upper (b mod 16)].
(** hex.EncodeToString (lower case), strings.ToUpper of it (upper) *)
Definition hex_encode (upper : bool) (bs : list Z) : list Z := flat_map (hex_byte upper) bs.

Definition hex_val (c : Z) : option Z :=
  match digit_val c with Some d => if d <? 16 then Some d else None | None => None end.

(** hex.DecodeString: odd length or a non-hex character is an error *)
Fixpoint hex_decode (s : list Z) : res (list Z) :=
  match s with
  | [] => Ok []
  | [_] => Err
  | a :: b :: r =>
    match hex_val a, hex_val b with
    | Some x, Some y => do t <- hex_decode r ;; Ok (x * 16 + y :: t)
    | _, _ => Err
    end
  end.

(** bytesToBigInt (ttlv/utils.go, after fix 4fc19c4) with the index v[0] explicit *)
Definition go_bytes_to_big (v : list Z) : res Z :=
  if len v =? 0 then Ok 0 else
  match v with
  | [] => Panic
  | b0 :: _ => Ok (if b0 <? 128 then unbe v else unbe v - 256 ^ len v)
  end.

(** the padded two's-complement bytes both text writers derive from bigIntToBytes(value, padding) *)
Definition big_bytes (v padding : Z) : list Z :=
  let '(b, padval, padlen) := big_to_bytes v padding in
  repeat padval (Z.to_nat padlen) ++ b.

(** ---------------------------------------------------------------- booleans *)

Definition s_true := Eval vm_compute in str "true".
Definition s_false := Eval vm_compute in str "false".
(** strconv.FormatBool *)
Definition fmt_bool (b : bool) : list Z := if b then s_true else s_false.
(** strconv.ParseBool *)
Definition parse_bool (s : list Z) : res bool :=
  if seqb s [49] || seqb s [116] || seqb s [84] || seqb s (str "TRUE") || seqb s s_true || seqb s (str "True") then Ok true
  else if seqb s [48] || seqb s [102] || seqb s [70] || seqb s (str "FALSE") || seqb s s_false || seqb s (str "False") then Ok false
  else Err.

(** ---------------------------------------------------------------- RFC 3339 (UTC) *)

(** proleptic Gregorian calendar: civil date of a day number counted from 1970-01-01 *)
Definition civil_from_days (z : Z) : Z * Z * Z :=
  let z := z + 719468 in
  let era := z / 146097 in
  let doe := z mod 146097 in
  let yoe := (doe - doe / 1460 + doe / 36524 - doe / 146096) / 365 in
  let doy := doe - (365 * yoe + yoe / 4 - yoe / 100) in
  let mp := (5 * doy + 2) / 153 in
  let d := doy - (153 * mp + 2) / 5 + 1 in
  let m := if mp <? 10 then mp + 3 else mp - 9 in
  let y := yoe + era * 400 in
  (if m <=? 2 then y + 1 else y, m, d).

Definition days_from_civil (y m d : Z) : Z :=
  let y := if m <=? 2 then y - 1 else y in
  let era := y / 400 in
  let yoe := y mod 400 in
  let doy := (153 * (if 2 <? m then m - 3 else m + 9) + 2) / 5 + d - 1 in
  let doe := yoe * 365 + yoe / 4 - yoe / 100 + doy in
  era * 146097 + doe - 719468.

Definition is_leap (y : Z) : bool := (y mod 4 =? 0) && (negb (y mod 100 =? 0) || (y mod 400 =? 0)).
Definition days_in_month (y m : Z) : Z :=
  if m =? 2 then (if is_leap y then 29 else 28)
  else if (m =? 4) || (m =? 6) || (m =? 9) || (m =? 11) then 30 else 31.

Definition pad_num (w : nat) (n : Z) : list Z := pad_left w (digits 10 false n).

(** time.Unix(t, 0).Format(time.RFC3339) with TZ=UTC *)
Definition fmt_rfc3339 (t : Z) : list Z :=
  let days := t / 86400 in
  let sod := t mod 86400 in
  let '(y, m, d) := civil_from_days days in
  (if y <? 0 then 45 :: pad_num 4 (- y) else pad_num 4 y) ++ [45] ++ pad_num 2 m ++ [45] ++ pad_num 2 d ++ [84] ++
  pad_num 2 (sod / 3600) ++ [58] ++ pad_num 2 (sod mod 3600 / 60) ++ [58] ++ pad_num 2 (sod mod 60) ++ [90].

(** exactly [w] decimal digits *)
Definition num_fixed (w : Z) (s : list Z) : option (Z * list Z) :=
  if len s <? w then None else
  match parse_digits 10 (take w s) 0 with
  | Some v => Some (v, drop w s)
  | None => None
  end.
Definition lit (c : Z) (s : list Z) : option (list Z) :=
  match s with x :: r => if x =? c then Some r else None | [] => None end.

Fixpoint skip_digits (s : list Z) : list Z :=
  match s with
  | c :: r => if (48 <=? c) && (c <=? 57) then skip_digits r else s
  | [] => []
  end.

Notation "'opt' x <- r ;; k" := (match r with Some x => k | None => Err end)
  (at level 200, x pattern, r at level 100, k at level 200, right associativity).

(** time.Parse(time.RFC3339, s) then Unix(): the fixed-width forms
    YYYY-MM-DDTHH:MM:SS[(.|,)digits](Z|(+|-)HH:MM) with field range checks.  (time.Parse also
    takes a one-digit hour; that laxness of the standard library is outside the model.) *)
Definition parse_rfc3339 (s : list Z) : res Z :=
  opt (y, s) <- num_fixed 4 s ;; opt s <- lit 45 s ;;
  opt (m, s) <- num_fixed 2 s ;; opt s <- lit 45 s ;;
  opt (d, s) <- num_fixed 2 s ;; opt s <- lit 84 s ;;
  opt (hh, s) <- num_fixed 2 s ;; opt s <- lit 58 s ;;
  opt (mi, s) <- num_fixed 2 s ;; opt s <- lit 58 s ;;
  opt (ss, s) <- num_fixed 2 s ;;
  let s := match s with
           | c :: d0 :: r => if ((c =? 46) || (c =? 44)) && (48 <=? d0) && (d0 <=? 57) then skip_digits r else s
           | _ => s
           end in
  if (m <? 1) || (12 <? m) || (d <? 1) || (days_in_month y m <? d) || (23 <? hh) || (59 <? mi) || (59 <? ss) then Err else
  let local := days_from_civil y m d * 86400 + hh * 3600 + mi * 60 + ss in
  match s with
  | sg :: r =>
    if (sg =? 90) && (match r with [] => true | _ => false end) then Ok local else
    if (sg =? 43) || (sg =? 45) then
      opt (zh, r) <- num_fixed 2 r ;; opt r <- lit 58 r ;; opt (zm, r) <- num_fixed 2 r ;;
      match r with
      | [] => if (24 <? zh) || (60 <? zm) then Err else
              let off := zh * 3600 + zm * 60 in
              Ok (if sg =? 43 then local - off else local + off)
      | _ => Err
      end
    else Err
  | [] => Err
  end.

(** 9999-12-31T23:59:59Z and 0001-01-01T00:00:00Z as Unix seconds *)
Definition date_max : Z := 253402300799.
Definition date_min : Z := -62135596800.
Definition date_ok (t : Z) : bool := (date_min <=? t) && (t <=? date_max).

(** ---------------------------------------------------------------- UTF-8 *)

Definition cont (b : Z) : bool := (128 <=? b) && (b <=? 191).

(** utf8.DecodeRune on a non-empty [s]: (rune, width); (U+FFFD, 1) for an invalid or short sequence *)
Definition utf8_decode (s : list Z) : Z * Z :=
  match s with
  | [] => (65533, 1)
  | b0 :: r =>
    if b0 <? 128 then (b0, 1)
    else if (194 <=? b0) && (b0 <=? 223) then
      match r with
      | b1 :: _ => if cont b1 then ((b0 - 192) * 64 + (b1 - 128), 2) else (65533, 1)
      | _ => (65533, 1)
      end
    else if (224 <=? b0) && (b0 <=? 239) then
      match r with
      | b1 :: b2 :: _ =>
        let lo := if b0 =? 224 then 160 else 128 in
        let hi := if b0 =? 237 then 159 else 191 in
        if (lo <=? b1) && (b1 <=? hi) && cont b2
        then ((b0 - 224) * 4096 + (b1 - 128) * 64 + (b2 - 128), 3) else (65533, 1)
      | _ => (65533, 1)
      end
    else if (240 <=? b0) && (b0 <=? 244) then
      match r with
      | b1 :: b2 :: b3 :: _ =>
        let lo := if b0 =? 240 then 144 else 128 in
        let hi := if b0 =? 244 then 143 else 191 in
        if (lo <=? b1) && (b1 <=? hi) && cont b2 && cont b3
        then ((b0 - 240) * 262144 + (b1 - 128) * 4096 + (b2 - 128) * 64 + (b3 - 128), 4) else (65533, 1)
      | _ => (65533, 1)
      end
    else (65533, 1)
  end.

(** What a text string becomes when it goes through the standard library's escaping and back:
    every byte that is not part of a valid UTF-8 sequence, and every rune the format cannot
    carry ([keep] false), is replaced by U+FFFD (EF BF BD).  Second component: nothing was
    replaced. (encoding/xml printer.EscapeString, encoding/json appendString.) *)
Fixpoint text_scan (keep : Z -> bool) (fuel : nat) (s : list Z) : list Z * bool :=
  match fuel with
  | O => ([], true)
  | S f =>
    match s with
    | [] => ([], true)
    | _ =>
      let '(r, w) := utf8_decode s in
      let rest := text_scan keep f (drop w s) in
      if ((r =? 65533) && (w =? 1)) || negb (keep r) then (239 :: 191 :: 189 :: fst rest, false)
      else (take w s ++ fst rest, snd rest)
    end
  end.

(** XML 1.0 Char (encoding/xml isInCharacterRange) *)
Definition xml_char (r : Z) : bool :=
  (r =? 9) || (r =? 10) || (r =? 13) || ((32 <=? r) && (r <=? 55295)) ||
  ((57344 <=? r) && (r <=? 65533)) || ((65536 <=? r) && (r <=? 1114111)).

Definition xml_carry (s : list Z) : list Z := fst (text_scan xml_char (length s) s).
Definition xml_text_ok (s : list Z) : bool := snd (text_scan xml_char (length s) s).
Definition json_carry (s : list Z) : list Z := fst (text_scan (fun _ => true) (length s) s).
Definition json_text_ok (s : list Z) : bool := snd (text_scan (fun _ => true) (length s) s).

(** ---------------------------------------------------------------- white space, splitting *)

(** width in bytes of the white-space rune (unicode.IsSpace) at the head of [s]; 0 if none *)
Definition space_width (s : list Z) : Z :=
  match s with
  | [] => 0
  | c :: r =>
    if (c =? 32) || ((9 <=? c) && (c <=? 13)) then 1
    else if c =? 194 then
      match r with b :: _ => if (b =? 133) || (b =? 160) then 2 else 0 | _ => 0 end
    else if c =? 225 then
      match r with a :: b :: _ => if (a =? 154) && (b =? 128) then 3 else 0 | _ => 0 end
    else if c =? 226 then
      match r with
      | a :: b :: _ =>
        if (a =? 128) && (((128 <=? b) && (b <=? 138)) || (b =? 168) || (b =? 169) || (b =? 175)) then 3
        else if (a =? 129) && (b =? 159) then 3 else 0
      | _ => 0
      end
    else if c =? 227 then
      match r with a :: b :: _ => if (a =? 128) && (b =? 128) then 3 else 0 | _ => 0 end
    else 0
  end.

(** strings.Fields *)
Fixpoint fields_aux (fuel : nat) (s : list Z) (cur : list Z) : list (list Z) :=
  match fuel with
  | O => match cur with [] => [] | _ => [rev cur] end
  | S f =>
    match s with
    | [] => match cur with [] => [] | _ => [rev cur] end
    | c :: r =>
      let w := space_width s in
      if w =? 0 then fields_aux f r (c :: cur)
      else match cur with [] => [] | _ => [rev cur] end ++ fields_aux f (drop w s) []
    end
  end.
Definition fields (s : list Z) : list (list Z) := fields_aux (S (length s)) s [].

(** strings.Split(s, sep) for a one-byte separator: always at least one part *)
Fixpoint split_aux (sep : Z) (s : list Z) (cur : list Z) : list (list Z) :=
  match s with
  | [] => [rev cur]
  | c :: r => if c =? sep then rev cur :: split_aux sep r [] else split_aux sep r (c :: cur)
  end.
Definition split_on (sep : Z) (s : list Z) : list (list Z) := split_aux sep s [].

Fixpoint trim_left (fuel : nat) (s : list Z) : list Z :=
  match fuel with
  | O => s
  | S f => let w := space_width s in if w =? 0 then s else trim_left f (drop w s)
  end.

(** width of the white-space rune that ends [s]; 0 if none *)
Definition space_suffix (s : list Z) : Z :=
  let n := len s in
  if (1 <=? n) && (space_width (drop (n - 1) s) =? 1) then 1
  else if (2 <=? n) && (space_width (drop (n - 2) s) =? 2) then 2
  else if (3 <=? n) && (space_width (drop (n - 3) s) =? 3) then 3
  else 0.
Fixpoint trim_right (fuel : nat) (s : list Z) : list Z :=
  match fuel with
  | O => s
  | S f => let w := space_suffix s in if w =? 0 then s else trim_right f (take (len s - w) s)
  end.
(** strings.TrimSpace *)
Definition trim_space (s : list Z) : list Z :=
  let l := trim_left (length s) s in trim_right (length l) l.

Fixpoint join (sep : list Z) (parts : list (list Z)) : list Z :=
  match parts with
  | [] => []
  | [p] => p
  | p :: r => p ++ sep ++ join sep r
  end.

(** ---------------------------------------------------------------- identifiers (registry hygiene) *)

Definition is_alpha (c : Z) : bool := ((65 <=? c) && (c <=? 90)) || ((97 <=? c) && (c <=? 122)).
Definition is_ident_char (c : Z) : bool := is_alpha c || ((48 <=? c) && (c <=? 57)) || (c =? 95).
(** a letter followed by letters, digits and underscores: what every KMIP normalised name is *)
Definition ident_ok (s : list Z) : bool :=
  match s with
  | c :: r => is_alpha c && forallb is_ident_char r
  | [] => false
  end.
