(** Normalisation of a decoded value (C18, typed inputs): what the ENCODER makes of a value,
    read back as a value.  The decoder accepts more than the encoder writes - an element
    present although outside the version range of its field is decoded, but the encoder does
    not write it; an element holding the zero value of an omitempty field is decoded, but not
    written; the hand-written encoders of RequestBatchItem / ResponseBatchItem write a []byte
    only when its length is not 0, so an explicit empty Byte String (decoded to a non-nil
    empty slice) is dropped and read back as nil.  [norm_ty] follows the traversal and the
    version-state threading of [SchemaSem.enc_ty] one for one and puts, at every position the
    encoder skips, the value the decoder leaves there when the element is absent.
    By construction  enc (norm v) = enc v  (NormProofs.v), and for decoder outputs
    norm v  conforms (DecConf*.v), so it is the fixed point reached after one hop.
    Definitions only. *)
From Coq Require Import ZArith List Bool String.
From KV Require Import Base Wire Cursor Schema SchemaSem.
Import ListNotations.
Open Scope Z_scope.

Section Norm.
  Variable S : schema.

  (** returns the normalised value and the version state after it, as the encoder threads it *)
  Fixpoint norm_ty (fuel : nat) (st : vstate) (t : ty) (v : value) {struct fuel} : value * vstate :=
    match fuel with
    | O => (v, st)
    | Datatypes.S f =>
      match t with
      | TScalar _ => (v, st)
      | TPtr t' =>
        match v with
        | VPtr w => let r := norm_ty f st t' w in (VPtr (fst r), snd r)
        | _ => (v, st)
        end
      | TSlice t' =>
        match v with
        | VList l => let r := norm_list f st t' l in (VList (fst r), snd r)
        | _ => (v, st)
        end
      | TIface _ =>
        match v with
        | VIface dyn w => let r := norm_ty f st dyn w in (VIface dyn (fst r), snd r)
        | _ => (v, st)
        end
      | TNamed n =>
        if String.eqb n "ttlv.Value" then (v, st)
        else if String.eqb n "ttlv.Struct" then (v, st)
        else
          match find_tdef S n, v with
          | Some d, VStruct n' fs =>
            let r := if t_custom_enc d then norm_custom f st d fs else norm_fields f st (t_fields d) fs in
            (VStruct n' (fst r), snd r)
          | _, _ => (v, st)
          end
      end
    end
  with norm_list (fuel : nat) (st : vstate) (t : ty) (l : list value) {struct fuel} : list value * vstate :=
    match fuel with
    | O => (l, st)
    | Datatypes.S f =>
      match l with
      | [] => ([], st)
      | x :: r =>
        let a := norm_ty f st t x in
        let b := norm_list f (snd a) t r in
        (fst a :: fst b, snd b)
      end
    end
  (** buildStructEncodeFunc: a field the encoder does not write holds the zero value *)
  with norm_fields (fuel : nat) (st : vstate) (fl : list field) (vl : list value) {struct fuel} : list value * vstate :=
    match fuel with
    | O => (vl, st)
    | Datatypes.S f =>
      match fl, vl with
      | fd :: fl', x :: vl' =>
        let a :=
          (if f_tag fd =? 0 then
             match x with
             | VIface dyn w => let r := norm_ty f st dyn w in (VIface dyn (fst r), snd r)
             | _ => (x, st)
             end
           else
             let st1 := if f_setver fd then ver_of_value x else st in
             if negb (version_in st1 (f_range fd)) then (zero_of S 8 (f_ty fd), st1)
             else if f_omit fd && is_zero x then (zero_of S 8 (f_ty fd), st1)
             else norm_ty f st1 (f_ty fd) x) in
        let b := norm_fields f (snd a) fl' vl' in
        (fst a :: fst b, snd b)
      | _, _ => (vl, st)
      end
    end
  (** CredentialValue, KeyValue, KeyMaterial: every alternative, in order *)
  with norm_same_tag (fuel : nat) (st : vstate) (fl : list field) (vl : list value) {struct fuel} : list value * vstate :=
    match fuel with
    | O => (vl, st)
    | Datatypes.S f =>
      match fl, vl with
      | fd :: fl', x :: vl' =>
        let a := norm_ty f st (f_ty fd) x in
        let b := norm_same_tag f (snd a) fl' vl' in
        (fst a :: fst b, snd b)
      | _, _ => (vl, st)
      end
    end
  (** the hand-written encoders: a []byte of length 0 is not written, nil or not *)
  with norm_custom (fuel : nat) (st : vstate) (d : tdef) (fs : list value) {struct fuel} : list value * vstate :=
    match fuel with
    | O => (fs, st)
    | Datatypes.S f =>
      let n := t_name d in
      if String.eqb n "kmip.RequestBatchItem" then
        match fs with
        | [VInt op; idv; payload; ext] =>
          match bytes_of idv with None => (fs, st) | Some id =>
          let p := norm_ty f st (fty d 2) payload in
          let e := norm_ty f (snd p) (fty d 3) ext in
          ([VInt op; VStr id; fst p; fst e], snd e)
          end
        | _ => (fs, st)
        end
      else if String.eqb n "kmip.ResponseBatchItem" then
        match fs with
        | [VInt op; idv; VInt status; VInt reason; VStr msg; acvv; payload; ext] =>
          match bytes_of idv, bytes_of acvv with
          | Some id, Some acv =>
            let p := norm_ty f st (fty d 6) payload in
            let e := norm_ty f (snd p) (fty d 7) ext in
            ([VInt op; VStr id; VInt status; VInt reason; VStr msg; VStr acv; fst p; fst e], snd e)
          | _, _ => (fs, st)
          end
        | _ => (fs, st)
        end
      else if String.eqb n "kmip.UnknownPayload" then (fs, st)
      else norm_same_tag f st (t_fields d) fs
    end.
End Norm.
