(** The XML and JSON encodings of TTLV at the level of the element tree / JSON value tree:
    writers transcribing xmlWriter (ttlv/encoding_xml.go) and jsonWriter (ttlv/encoding_json.go)
    call by call, and readers transcribing xmlReader / jsonReader as two instances of the generic
    reader cursor of Cursor.v (raw forest + scalar parsers).  The byte level below the trees
    (tokenising, escaping, attribute quoting by encoding/xml and encoding/json) is outside the
    model; the one place where the library itself used to write string literals by hand
    (strconv.AppendQuote in jsonWriter.TextString/Enum) is repaired to go through encoding/json,
    whose effect on a string is [json_carry] (TextLex.v).

    The name registry (ttlv/registry.go: tagNames, tagByName, enumNames, enumsByName,
    bitmaskNames, bitmaskByName) is a parameter.  The code modelled is the code AFTER the fix:
    commits of this property (Type() no longer panics, getMap checks its assertion, JSON strings
    are JSON, Interval/DateTime range checks, XML trailing skip) and with the three Bitmask
    readers as repaired on branch ag_D (hex flag parsed as unsigned 32 bits, empty JSON part
    skipped).  No proofs here. *)
From Coq Require Import String Ascii ZArith List Bool.
From KV Require Import Base Wire Cursor TextLex.
Import ListNotations.
Open Scope Z_scope.

(** ttlv/registry.go: the six maps, as lookup functions *)
Record registry : Type := {
  r_tag_name : Z -> option (list Z);             (* tagNames[tag] *)
  r_tag_by_name : list Z -> option Z;            (* tagByName[name] *)
  r_enum_name : Z -> Z -> option (list Z);       (* enumNames[tag][value] *)
  r_enum_by_name : Z -> list Z -> option Z;      (* enumsByName[tag][name] *)
  r_mask_names : Z -> list (list Z);             (* bitmaskNames[tag] (nil when absent) *)
  r_mask_by_name : Z -> list Z -> option Z;      (* bitmaskByName[tag][name] *)
}.

(** ttlv/types.go typesName / nameTypes *)
Definition type_names : list (Z * list Z) := Eval vm_compute in
  [(1, str "Structure"); (2, str "Integer"); (3, str "LongInteger"); (4, str "BigInteger");
   (5, str "Enumeration"); (6, str "Boolean"); (7, str "TextString"); (8, str "ByteString");
   (9, str "DateTime"); (10, str "Interval")].
Definition type_name (ty : Z) : list Z :=
  match find (fun p => fst p =? ty) type_names with Some p => snd p | None => [] end.
Definition type_by_name (s : list Z) : option Z :=
  match find (fun p => seqb (snd p) s) type_names with Some p => Some (fst p) | None => None end.
(** what Type() answers for an unknown type name after the fix (was: panic("Invalid type")) *)
Definition T_INVALID : Z := 255.

Definition s_TTLV := Eval vm_compute in str "TTLV".
Definition s_tag := Eval vm_compute in str "tag".
Definition s_type := Eval vm_compute in str "type".
Definition s_value := Eval vm_compute in str "value".

(** bit i of an int32 as the int32 value 1 << i (bit 31 is negative) *)
Definition bit32 (i : Z) : Z := to_i32 (2 ^ i).
Definition bit_indices : list Z := Eval vm_compute in map Z.of_nat (seq 0 32).

(** the XML element tree: name, attributes in document order, children, and [cut]: the
    tokeniser reports a syntax error (or an unexpected end of input) after the listed children,
    before the end tag.  Writers never produce [cut]. *)
Inductive xelem : Type :=
| XE (name : list Z) (attrs : list (list Z * list Z)) (kids : list xelem) (cut : bool).

(** the JSON value tree as encoding/json hands it over with UseNumber: numbers keep their
    literal text, objects keep their members in document order (a later duplicate wins) *)
Inductive jvalue : Type :=
| JNull
| JBool (b : bool)
| JNum (lit : list Z)
| JStr (s : list Z)
| JArr (l : list jvalue)
| JObj (m : list (list Z * jvalue)).

Definition XRaw : Type := list Z.
Definition JRaw : Type := jvalue.

(** Typed re-reading of a written call sequence: what a schema-driven decoder does, the
    "schema" being the items themselves - for every writer call the matching typed read with the
    same tag (and real-tag hint), structures through Struct with a callback reading the children
    in order.  The values carried by the script are ignored; the items read are returned. *)
Section ReadAs.
  Context {R : Type}.
  Variable F : rawfmt R.

  Fixpoint read_as (i : item) (c : cur R) : res (item * cur R) :=
    match i with
    | IStruct tag kids =>
      do r <- c_struct F tag
                (fun sub =>
                   (fix go (l : list item) (c : cur R) : res (list item * cur R) :=
                      match l with
                      | [] => Ok ([], c)
                      | k :: ks => do r <- read_as k c ;; do rs <- go ks (snd r) ;; Ok (fst r :: fst rs, snd rs)
                      end) kids sub) c ;;
      Ok (IStruct tag (fst r), snd r)
    | IInt tag _ => do r <- c_integer F tag c ;; Ok (IInt tag (fst r), snd r)
    | ILong tag _ => do r <- c_long F tag c ;; Ok (ILong tag (fst r), snd r)
    | IBig tag _ => do r <- c_big F tag c ;; Ok (IBig tag (fst r), snd r)
    | IEnum tag rtag _ => do r <- c_enum F rtag tag c ;; Ok (IEnum tag rtag (fst r), snd r)
    | IBool tag _ => do r <- c_bool F tag c ;; Ok (IBool tag (fst r), snd r)
    | IText tag _ => do r <- c_text F tag c ;; Ok (IText tag (fst r), snd r)
    | IBytes tag _ => do r <- c_bytes F tag c ;; Ok (IBytes tag (fst r), snd r)
    | IDate tag _ => do r <- c_date F tag c ;; Ok (IDate tag (fst r), snd r)
    | IIntv tag _ => do r <- c_intv F tag c ;; Ok (IIntv tag (fst r), snd r)
    | IMask tag rtag _ => do r <- c_mask F rtag tag c ;; Ok (IMask tag rtag (fst r), snd r)
    end.

  Fixpoint read_list (l : list item) (c : cur R) : res (list item * cur R) :=
    match l with
    | [] => Ok ([], c)
    | k :: ks => do r <- read_as k c ;; do rs <- read_list ks (snd r) ;; Ok (fst r :: fst rs, snd rs)
    end.
End ReadAs.

(** sibling list of a reader that validates lazily: conversion stops after the first element
    inside which the tokeniser fails ([conv] says so); [cut]: it fails after the last one *)
Section CutForest.
  Context {E R : Type}.
  Variable conv : E -> relem R * bool.
  Fixpoint cut_forest (l : list E) (cut : bool) : list (relem R) * bool :=
    match l with
    | [] => ([], cut)
    | k :: r =>
      let ke := conv k in
      if snd ke then ([fst ke], true)
      else let rr := cut_forest r cut in (fst ke :: fst rr, snd rr)
    end.
End CutForest.

(** m[k] on a decoded JSON object (the last of duplicate members), mapped through [f] *)
Section JFind.
  Context {V A : Type}.
  Variable f : V -> A.
  Fixpoint jfind_map (k : list Z) (m : list (list Z * V)) : option A :=
    match m with
    | [] => None
    | (k', v) :: r =>
      match jfind_map k r with
      | Some x => Some x
      | None => if seqb k' k then Some (f v) else None
      end
    end.
End JFind.

Section WithRegistry.
  Variable G : registry.

  (** ============================================================ shared by both formats *)

  (** "0x%06X" of uint(tag) (xmlWriter.startElement, TagString) *)
  Definition tag_hex (tag : Z) : list Z := s_0x ++ hex_pad 6 true tag.

  (** TagString (registry.go) *)
  Definition tag_string (tag : Z) : list Z :=
    match r_tag_name G tag with Some n => n | None => tag_hex tag end.

  (** the realtag / enumtag / bitmasktag convention of writers and readers *)
  Definition real_tag (rtag tag : Z) : Z := if rtag <=? 0 then tag else rtag.

  (** EnumName(tag, value), "" when unknown; then the "0x%08X" fall-back of the writers *)
  Definition enum_string (etag v : Z) : list Z :=
    match r_enum_name G etag v with
    | Some (c :: n) => c :: n
    | _ => s_0x ++ hex_pad 8 true v
    end.

  (** AppendBitmaskString (registry.go) *)
  Definition mask_parts (names : list (list Z)) (v : Z) : list (list Z) :=
    flat_map (fun i =>
      if Z.testbit v i then
        match nth_error names (Z.to_nat i) with
        | Some [] => []
        | Some n => [n]
        | None => [s_0x ++ hex_pad 8 true (2 ^ i)]
        end
      else []) bit_indices.
  Definition mask_string (mtag v : Z) (sep : list Z) : list Z :=
    if v =? 0 then [] else join sep (mask_parts (r_mask_names G mtag) v).

  (** the body of xmlReader.Enum / jsonReader.Enum (string form) *)
  Definition enum_parse (rtag : Z) (val : list Z) : res Z :=
    if has_prefix s_0x val then do r <- go_from 2 val ;; parse_uint 16 32 r
    else match parse_uint 10 32 val with
         | Ok v => Ok v
         | Panic => Panic
         | _ => match r_enum_by_name G rtag val with Some v => Ok v | None => Err end
         end.

  (** one flag of xmlReader.Bitmask / jsonReader.Bitmask (string form), as repaired: the hex
      form is parsed as an unsigned 32-bit number *)
  Definition mask_part (rtag : Z) (part : list Z) : res Z :=
    if has_prefix s_0x part then do r <- go_from 2 part ;; parse_uint 16 32 r
    else match parse_int 10 32 part with
         | Ok v => Ok v
         | Panic => Panic
         | _ => match r_mask_by_name G rtag part with Some p => Ok p | None => Err end
         end.
  (** result |= int32(parsed) over the parts *)
  Fixpoint mask_fold (rtag : Z) (parts : list (list Z)) (acc : Z) : res Z :=
    match parts with
    | [] => Ok acc
    | p :: r => do v <- mask_part rtag p ;; mask_fold rtag r (Z.lor acc (to_i32 v))
    end.

  (** xmlReader.Tag / jsonReader.Tag once the raw tag string is known *)
  Definition resolve_tag (raw : list Z) : Z :=
    match raw with
    | [] => 0
    | _ =>
      if has_prefix s_0x raw then
        match parse_int 16 32 (drop 2 raw) with Ok t => t | _ => 0 end
      else match r_tag_by_name G raw with Some t => t | None => 0 end
    end.

  (** typeFromName, and the invalid type the repaired Type() answers otherwise *)
  Definition resolve_type (name : list Z) : Z :=
    match type_by_name name with Some t => t | None => T_INVALID end.

  (** ============================================================ XML writer *)

  (** xmlWriter.startElement *)
  Definition xml_start (ty tag : Z) : list Z * list (list Z * list Z) :=
    let na := match r_tag_name G tag with
              | Some (c :: n) => (c :: n, [])
              | _ => (s_TTLV, [(s_tag, tag_hex tag)])
              end in
    (fst na, snd na ++ (if ty =? T_STRUCT then [] else [(s_type, type_name ty)])).

  (** xmlWriter.encode *)
  Definition xml_leaf (ty tag : Z) (value : list Z) : xelem :=
    let na := xml_start ty tag in XE (fst na) (snd na ++ [(s_value, value)]) [] false.

  (** xmlWriter.{Struct,Integer,LongInteger,BigInteger,Enum,Bool,TextString,ByteString,DateTime,Interval,Bitmask} *)
  Fixpoint xml_write1 (i : item) : xelem :=
    match i with
    | IStruct tag kids => let na := xml_start T_STRUCT tag in XE (fst na) (snd na) (map xml_write1 kids) false
    | IInt tag v => xml_leaf T_INT tag (fmt_int v)
    | ILong tag v => xml_leaf T_LONG tag (fmt_int v)
    | IBig tag v => xml_leaf T_BIG tag (hex_encode true (big_bytes v 1))
    | IEnum tag rtag v => xml_leaf T_ENUM tag (enum_string (real_tag rtag tag) v)
    | IBool tag b => xml_leaf T_BOOL tag (fmt_bool b)
    | IText tag s => xml_leaf T_TEXT tag (xml_carry s)
    | IBytes tag s => xml_leaf T_BYTES tag (hex_encode true s)
    | IDate tag v => xml_leaf T_DATE tag (fmt_rfc3339 v)
    | IIntv tag v => xml_leaf T_INTV tag (fmt_int v)
    | IMask tag rtag v => xml_leaf T_INT tag (mask_string (real_tag rtag tag) v [32])
    end.
  Definition xml_write (l : list item) : list xelem := map xml_write1 l.

  (** ============================================================ XML reader *)

  Fixpoint attr_get (k : list Z) (attrs : list (list Z * list Z)) : option (list Z) :=
    match attrs with
    | [] => None
    | (k', v) :: r => if seqb k' k then Some v else attr_get k r
    end.

  (** xmlReader.value *)
  Definition xml_value (attrs : list (list Z * list Z)) : list Z :=
    match attr_get s_value attrs with Some v => v | None => [] end.
  (** xmlReader.rawTag *)
  Definition xml_raw_tag (name : list Z) (attrs : list (list Z * list Z)) : list Z :=
    if seqb name s_TTLV then match attr_get s_tag attrs with Some v => v | None => [] end else name.
  (** xmlReader.Type on an element *)
  Definition xml_type (attrs : list (list Z * list Z)) : Z :=
    match attr_get s_type attrs with Some v => resolve_type v | None => T_STRUCT end.

  (** The raw element an XML element is for the cursor, and whether the tokeniser error lies
      inside it (then nothing after it can be reached: Next() fails while skipping it or while
      looking for its end tag).  Children are visible only for structures; a typed element is
      skipped as a whole by Next(). *)
  Fixpoint xml_relem (e : xelem) : relem XRaw * bool :=
    match e with
    | XE name attrs kids cut =>
      let fr := cut_forest xml_relem kids cut in
      let ty := xml_type attrs in
      let st := ty =? T_STRUCT in
      (RE (resolve_tag (xml_raw_tag name attrs)) ty (xml_value attrs)
          (if st then fst fr else []) (if st then snd fr else false), snd fr)
    end.
  Definition xml_forest (l : list xelem) (cut : bool) : list (relem XRaw) * bool :=
    cut_forest xml_relem l cut.

  (** newXMLReader: the first Next() fails on a document without any element *)
  Definition xml_cursor (doc : list xelem) (cut : bool) : res (cur XRaw) :=
    match doc with
    | [] => Err
    | _ => let fr := xml_forest doc cut in c_open (fst fr) (snd fr)
    end.

  (** xmlReader.{Integer,LongInteger,BigInteger,Enum,Bool,TextString,ByteString,DateTime,Interval,Bitmask}
      on the value attribute *)
  Definition xml_fmt : rawfmt XRaw := {|
    p_int := fun raw => do v <- go_parse_int 32 raw ;; Ok (to_i32 v);
    p_long := fun raw => go_parse_int 64 raw;
    p_big := fun raw => do b <- hex_decode raw ;; go_bytes_to_big b;
    p_enum := fun rtag tag raw => enum_parse (real_tag rtag tag) raw;
    p_bool := parse_bool;
    p_text := fun raw => Ok raw;
    p_bytes := hex_decode;
    p_date := parse_rfc3339;
    p_intv := fun raw => go_parse_uint 32 raw;
    p_mask := fun rtag tag raw => mask_fold (real_tag rtag tag) (map trim_space (fields raw)) 0;
    strict_close := true;
  |}.

  (** ttlv.UnmarshalXML(doc, &ttlv.Value{}) *)
  Definition xml_unmarshal (doc : list xelem) (cut : bool) : res item :=
    do c <- xml_cursor doc cut ;;
    do r <- dec_value xml_fmt (S (2 * forest_size (fst c))) (c_tag c) c ;;
    Ok (fst r).

  (** ============================================================ JSON writer *)

  (** jsonWriter.startElem .. endElem around a value *)
  Definition json_elem (ty tag : Z) (v : jvalue) : jvalue :=
    JObj ((s_tag, JStr (tag_string tag)) ::
          (if ty =? T_STRUCT then [] else [(s_type, JStr (type_name ty))]) ++ [(s_value, v)]).

  Definition json_big (v : Z) : bool := (2 ^ 52 <=? v) || (v <=? - 2 ^ 52).

  (** jsonWriter.{Struct,Integer,LongInteger,BigInteger,Enum,Bool,TextString,ByteString,DateTime,Interval,Bitmask} *)
  Fixpoint json_write1 (i : item) : jvalue :=
    match i with
    | IStruct tag kids => json_elem T_STRUCT tag (JArr (map json_write1 kids))
    | IInt tag v => json_elem T_INT tag (JNum (fmt_int v))
    | ILong tag v =>
      json_elem T_LONG tag
        (if json_big v then JStr (s_0x ++ hex_pad 16 false (to_u64 v)) else JNum (fmt_int v))
    | IBig tag v =>
      json_elem T_BIG tag
        (if json_big v then JStr (s_0x ++ hex_encode false (big_bytes v 8)) else JNum (fmt_int v))
    | IEnum tag rtag v =>
      json_elem T_ENUM tag
        (JStr match r_enum_name G (real_tag rtag tag) v with
              | Some (c :: n) => json_carry (c :: n)
              | _ => s_0x ++ hex_pad 8 true v
              end)
    | IBool tag b => json_elem T_BOOL tag (JBool b)
    | IText tag s => json_elem T_TEXT tag (JStr (json_carry s))
    | IBytes tag s => json_elem T_BYTES tag (JStr (hex_encode true s))
    | IDate tag v => json_elem T_DATE tag (JStr (fmt_rfc3339 v))
    | IIntv tag v => json_elem T_INTV tag (JNum (fmt_int v))
    | IMask tag rtag v => json_elem T_INT tag (JStr (mask_string (real_tag rtag tag) v [124]))
    end.
  Definition json_write (l : list item) : jvalue := JArr (map json_write1 l).

  (** ============================================================ JSON reader *)

  (** m[k] on the decoded object: the last of duplicate members *)
  Definition jget (k : list Z) (m : list (list Z * jvalue)) : option jvalue := jfind_map (fun x => x) k m.
  (** x, _ := m[k].(string) *)
  Definition jget_str (k : list Z) (m : list (list Z * jvalue)) : list Z :=
    match jget k m with Some (JStr s) => s | _ => [] end.

  (** jsonReader.Type on a member list: "" (absent, not a string) means Structure *)
  Definition json_type (m : list (list Z * jvalue)) : Z :=
    match jget_str s_type m with [] => T_STRUCT | n => resolve_type n end.

  (** The raw element a JSON value is for the cursor (jsonReader.getMap after the fix: a value
      that is not an object has no members, hence tag 0, type Structure, value nil).  The
      children of a structure are the elements of its "value" array; any other "value" makes
      Struct fail ("Invalid structure data layout") before its callback runs. *)
  Fixpoint json_relem (v : jvalue) : relem JRaw :=
    match v with
    | JObj m =>
      let tag := resolve_tag (jget_str s_tag m) in
      let ty := json_type m in
      let kids := jfind_map (fun x => match x with JArr l => (map json_relem l, false) | _ => ([], true) end) s_value m in
      let raw := match jget s_value m with Some x => x | None => JNull end in
      if ty =? T_STRUCT then
        match kids with
        | Some kb => RE tag ty raw (fst kb) (snd kb)
        | None => RE tag ty raw [] true
        end
      else RE tag ty raw [] false
    | _ => RE 0 T_STRUCT JNull [] true
    end.

  (** newJSONReader on the decoded document: one top-level value *)
  Definition json_cursor (doc : jvalue) : res (cur JRaw) := c_open [json_relem doc] false.

  (** json.Number.Int64 *)
  Definition json_int64 (lit : list Z) : res Z := parse_int 10 64 lit.

  Definition in_range (lo hi n : Z) : res Z := if (n <? lo) || (hi <? n) then Err else Ok n.

  (** jsonReader.{Integer,...,Bitmask} on the "value" member *)
  Definition json_fmt : rawfmt JRaw := {|
    p_int := fun raw =>
      match raw with
      | JNum lit => do n <- json_int64 lit ;; in_range (- 2 ^ 31) (2 ^ 31 - 1) n
      | JStr s => do n <- go_parse_int 32 s ;; in_range (- 2 ^ 31) (2 ^ 31 - 1) n
      | _ => Err
      end;
    p_long := fun raw =>
      match raw with
      | JNum lit => json_int64 lit
      | JStr s => go_parse_int 64 s
      | _ => Err
      end;
    p_big := fun raw =>
      match raw with
      | JNum lit => json_int64 lit
      | JStr s =>
        if negb (has_prefix s_0x s) then Err else
        do r <- go_from 2 s ;; do b <- hex_decode r ;; go_bytes_to_big b
      | _ => Err
      end;
    p_enum := fun rtag tag raw =>
      match raw with
      | JNum lit => do n <- json_int64 lit ;; in_range 0 (2 ^ 32 - 1) n
      | JStr s => enum_parse (real_tag rtag tag) s
      | _ => Err
      end;
    p_bool := fun raw =>
      match raw with
      | JBool b => Ok b
      | JStr s => do n <- go_parse_int 64 s ;; Ok (negb (n =? 0))
      | _ => Err
      end;
    p_text := fun raw => match raw with JStr s => Ok s | _ => Err end;
    p_bytes := fun raw => match raw with JStr s => hex_decode s | _ => Err end;
    p_date := fun raw =>
      match raw with
      | JStr s =>
        if has_prefix s_0x s then
          do r <- go_from 2 s ;; do u <- parse_uint 16 64 r ;;
          let epoch := to_i64 u in
          if epoch <? 0 then Err else if date_max <? epoch then Err else Ok epoch
        else parse_rfc3339 s
      | _ => Err
      end;
    p_intv := fun raw =>
      match raw with
      | JNum lit => do n <- json_int64 lit ;; in_range 0 (2 ^ 32 - 1) n
      | JStr s => go_parse_uint 32 s
      | _ => Err
      end;
    p_mask := fun rtag tag raw =>
      match raw with
      | JNum lit => do n <- json_int64 lit ;; in_range (- 2 ^ 31) (2 ^ 31 - 1) n
      | JStr s =>
        mask_fold (real_tag rtag tag)
          (filter (fun p => match p with [] => false | _ => true end) (map trim_space (split_on 124 s))) 0
      | _ => Err
      end;
    strict_close := false;
  |}.

  (** ttlv.UnmarshalJSON(doc, &ttlv.Value{}) *)
  Definition json_unmarshal (doc : jvalue) : res item :=
    do c <- json_cursor doc ;;
    do r <- dec_value json_fmt (S (2 * forest_size (fst c))) (c_tag c) c ;;
    Ok (fst r).

  (** NewXMLDecoder(doc) / NewJSONDecoder(doc) followed by the typed reads of a script *)
  Definition xml_reread (script : item) (doc : list xelem) (cut : bool) : res item :=
    do c <- xml_cursor doc cut ;; do r <- read_as xml_fmt script c ;; Ok (fst r).
  Definition json_reread (script : item) (doc : jvalue) : res item :=
    do c <- json_cursor doc ;; do r <- read_as json_fmt script c ;; Ok (fst r).

End WithRegistry.

(** ============================================================ a registry given by tables
    (the six maps as association lists, as the driver dumps them from the live library) *)

Record regtables : Type := {
  t_tags : list (Z * list Z);
  t_tags_rev : list (list Z * Z);
  t_enums : list (Z * list (Z * list Z));
  t_enums_rev : list (Z * list (list Z * Z));
  t_masks : list (Z * list (list Z));
  t_masks_rev : list (Z * list (list Z * Z));
}.

Fixpoint assoc_z {A} (k : Z) (l : list (Z * A)) : option A :=
  match l with [] => None | (k', v) :: r => if k' =? k then Some v else assoc_z k r end.
Fixpoint assoc_s {A} (k : list Z) (l : list (list Z * A)) : option A :=
  match l with [] => None | (k', v) :: r => if seqb k' k then Some v else assoc_s k r end.

Definition reg_of_tables (T : regtables) : registry := {|
  r_tag_name := fun t => assoc_z t (t_tags T);
  r_tag_by_name := fun n => assoc_s n (t_tags_rev T);
  r_enum_name := fun t v => match assoc_z t (t_enums T) with Some m => assoc_z v m | None => None end;
  r_enum_by_name := fun t n => match assoc_z t (t_enums_rev T) with Some m => assoc_s n m | None => None end;
  r_mask_names := fun t => match assoc_z t (t_masks T) with Some l => l | None => [] end;
  r_mask_by_name := fun t n => match assoc_z t (t_masks_rev T) with Some m => assoc_s n m | None => None end;
|}.

(** the hygiene the round-trip theorems need, as a checker over tables: every forward entry is
    an identifier (a letter, then letters, digits, underscores; so it is neither empty nor
    number-like nor "0x.." and contains no separator), is not the reserved element name TTLV,
    and the reverse map sends it back; a bit-mask has at most 32 names and name i maps to 1<<i *)
Definition tables_okb (T : regtables) : bool :=
  forallb (fun p => ident_ok (snd p) && negb (seqb (snd p) s_TTLV) &&
                    match assoc_s (snd p) (t_tags_rev T) with Some t => t =? fst p | None => false end)
          (t_tags T) &&
  forallb (fun e =>
             forallb (fun p => ident_ok (snd p) &&
                               match assoc_z (fst e) (t_enums_rev T) with
                               | Some m => match assoc_s (snd p) m with Some v => v =? fst p | None => false end
                               | None => false
                               end)
                     (snd e))
          (t_enums T) &&
  forallb (fun e =>
             (len (snd e) <=? 32) &&
             forallb (fun ip => ident_ok (snd ip) &&
                                match assoc_z (fst e) (t_masks_rev T) with
                                | Some m => match assoc_s (snd ip) m with Some v => v =? bit32 (fst ip) | None => false end
                                | None => false
                                end)
                     (combine bit_indices (snd e)))
          (t_masks T).

(** ============================================================ hypotheses of the theorems *)

(** What the round-trip theorems need from the registry: every registered name is an identifier
    (hence not empty, not number-like, no "0x" prefix, no separator or quote), a tag name is not the
    reserved element name TTLV, the reverse maps send names back, a mask has at most 32 names and
    name i stands for bit i.  (tables_okb checks it on dumped tables; see tables_ok_sound.) *)
Record registry_ok (G : registry) : Prop := {
  rk_tag : forall t n, r_tag_name G t = Some n ->
           ident_ok n = true /\ n <> s_TTLV /\ r_tag_by_name G n = Some t;
  rk_enum : forall t v n, r_enum_name G t v = Some n ->
            ident_ok n = true /\ r_enum_by_name G t n = Some v;
  rk_mask : forall t i n, nth_error (r_mask_names G t) i = Some n ->
            (i < 32)%nat /\ ident_ok n = true /\ r_mask_by_name G t n = Some (bit32 (Z.of_nat i));
}.

Definition tag_ok (tag : Z) : bool := (0 <=? tag) && (tag <? 2 ^ 24).

(** items a text format represents: values in their Go ranges (as item_ok of Wire.v), text the
    format can carry ([txt]), dates in years 1..9999 *)
Fixpoint text_item_ok (txt : list Z -> bool) (i : item) : bool :=
  match i with
  | IStruct tag kids => tag_ok tag && forallb (text_item_ok txt) kids
  | IInt tag v | IMask tag _ v => tag_ok tag && in_i32 v
  | ILong tag v => tag_ok tag && in_i64 v
  | IBig tag _ | IBool tag _ => tag_ok tag
  | IEnum tag _ v | IIntv tag v => tag_ok tag && in_u32 v
  | IText tag s => tag_ok tag && txt s
  | IBytes tag s => tag_ok tag && bytes_ok s
  | IDate tag v => tag_ok tag && date_ok v
  end.
Definition xml_item_ok := text_item_ok xml_text_ok.
Definition json_item_ok := text_item_ok json_text_ok.

(** items that are the writer calls of a ttlv.Value tree (Value.TagEncodeTTLV): no bit-mask call,
    enumerations without real-tag hint, and no child with tag 0 (Struct.TagDecodeTTLV stops there) *)
Fixpoint value_item (i : item) : bool :=
  match i with
  | IStruct _ kids => forallb (fun k => negb (itag k =? 0) && value_item k) kids
  | IEnum _ rtag _ => rtag =? 0
  | IMask _ _ _ => false
  | _ => true
  end.

Fixpoint item_size (i : item) : nat :=
  match i with
  | IStruct _ kids => S (fold_right (fun k n => item_size k + n)%nat O kids)
  | _ => 1%nat
  end.

(** ============================================================ a field tagged `omitempty`
    applyOmitEmptyEncode (ttlv/encoder.go): the zero value is not written;
    applyOmitEmptyDecode (ttlv/decoder.go): when the next item has another tag the field is zero.
    Shown for an int32 field (e.g. CryptographicParameters.TagLength); used only to state the known
    finding that an optional element holding its zero value is not reproduced. *)
Definition omitempty_int_enc (tag v : Z) : list item := if v =? 0 then [] else [IInt tag v].
Definition omitempty_int_dec {R : Type} (F : rawfmt R) (tag : Z) (c : cur R) : res (Z * cur R) :=
  if negb (c_tag c =? tag) then Ok (0, c) else c_integer F tag c.
