(** The struct-level codec: the reflective interpreter of ttlv/encoder.go (encodeFunc,
    buildStructEncodeFunc, applyOmitEmptyEncode, applyVersionRangeEncode, applySetVersionEncode)
    and ttlv/decoder.go (decodeFunc, buidStructDecodeFunc, applyOmitEmptyDecode,
    applyVersionRangeDecode, applySetVersionDecode, buildPointerDecodeFunc, buildSliceDecodeFunc),
    driven by a [schema] (REGENERATED from /repo: KVGen.KmipSchema), together with hand
    transcriptions of every hand-written codec of the library (requests.go, responses.go,
    kmip.go Credential/CredentialValue, objects.go KeyBlock/KeyValue/PlainKeyValue/KeyMaterial,
    attributes.go Attribute, payloads/get.go, register.go, import_export.go, operations.go
    UnknownPayload, ttlv/value.go).  The encoder produces writer calls ([item]); the decoder
    runs on the generic reader cursor of Cursor.v, so it is the same for binary, XML and JSON.
    The protocol version (ttlv/version.go extension.version) is threaded as state.
    No proofs here. *)
From Coq Require Import ZArith List Bool String.
From KV Require Import Base Wire Cursor Schema.
Import ListNotations.
Open Scope Z_scope.

(** extension.version: nil = no gating *)
Definition vstate : Type := option ver.

Definition ver_cmp (a b : ver) : comparison :=
  match Z.compare (fst a) (fst b) with Eq => Z.compare (snd a) (snd b) | c => c end.

(** versionRange.contains *)
Definition range_contains (r : option ver * option ver) (v : ver) : bool :=
  (match fst r with Some s => match ver_cmp s v with Gt => false | _ => true end | None => true end) &&
  (match snd r with Some e => match ver_cmp e v with Lt => false | _ => true end | None => true end).

(** extension.versionIn *)
Definition version_in (st : vstate) (r : option (option ver * option ver)) : bool :=
  match r, st with
  | None, _ => true
  | Some _, None => true
  | Some rg, Some v => range_contains rg v
  end.

(** reflect.Value.IsZero on the value universe *)
Fixpoint is_zero (v : value) : bool :=
  match v with
  | VInt z => z =? 0
  | VBool b => negb b
  | VStr s => match s with [] => true | _ => false end
  | VEmptyBytes => false
  | VNil => true
  | VPtr _ => false
  | VList l => match l with [] => true | _ => false end
  | VStruct _ fs => forallb is_zero fs
  | VIface _ _ => false
  | VTree _ => false
  end.

(** Value.TagEncodeTTLV(e, tag): a generic tree is written under the tag it is given *)
Definition retag (i : item) (tag : Z) : item :=
  match i with
  | IStruct _ k => IStruct tag k
  | IInt _ v => IInt tag v | ILong _ v => ILong tag v | IBig _ v => IBig tag v
  | IEnum _ r v => IEnum tag r v | IBool _ b => IBool tag b | IText _ s => IText tag s
  | IBytes _ s => IBytes tag s | IDate _ v => IDate tag v | IIntv _ v => IIntv tag v
  | IMask _ r v => IMask tag r v
  end.

(** a decoded byte string: Go yields a non-nil slice, of length 0 for an empty element *)
Definition vbytes (s : list Z) : value := match s with [] => VEmptyBytes | _ => VStr s end.
(** the bytes held by a []byte value (nil and empty alike) *)
Definition bytes_of (v : value) : option (list Z) :=
  match v with VStr s => Some s | VEmptyBytes => Some [] | _ => None end.

Definition tree_of (v : value) : option item := match v with VTree i => Some i | _ => None end.
Fixpoint trees_of (l : list value) : option (list item) :=
  match l with
  | [] => Some []
  | v :: r => match tree_of v, trees_of r with Some i, Some is => Some (i :: is) | _, _ => None end
  end.

(** getTagForType of a dynamic type held in an interface (pointers are looked through) *)
Fixpoint deftag_of (S : schema) (t : ty) : Z :=
  match t with
  | TPtr t' => deftag_of S t'
  | TSlice t' => deftag_of S t'
  | TNamed n => match find_tdef S n with Some d => t_deftag d | None => 0 end
  | TScalar (KEnum r) | TScalar (KMask r) => r
  | _ => 0
  end.

(** encoding of a scalar kind (encodeFunc's leaf cases) *)
Definition enc_scalar (k : kind) (tag : Z) (v : value) : res (list item) :=
  match k, v with
  | (KInt8 | KInt16 | KInt32 | KUint8 | KUint16), VInt z => Ok [IInt tag z]
  | (KInt64 | KUint32), VInt z => Ok [ILong tag z]
  | KBool, VBool b => Ok [IBool tag b]
  | KString, VStr s => Ok [IText tag s]
  | KBytes, VStr s => Ok [IBytes tag s]
  | KBytes, VEmptyBytes => Ok [IBytes tag []]
  | KTime, VInt z => Ok [IDate tag z]
  | KDuration, VInt z => Ok [IIntv tag z]
  | KBigInt, VInt z => Ok [IBig tag z]
  | KEnum r, VInt z => Ok [IEnum tag r z]
  | KMask r, VInt z => Ok [IMask tag r z]
  | _, _ => Panic
  end.

(** zero value of a type (reflect.Value.SetZero) *)
Definition time_zero : Z := -62135596800.
Fixpoint zero_of (S : schema) (fuel : nat) (t : ty) : value :=
  match fuel with
  | O => VNil
  | Datatypes.S f =>
    match t with
    | TScalar KBool => VBool false
    | TScalar (KString | KBytes) => VStr []
    | TScalar KTime => VInt time_zero
    | TScalar _ => VInt 0
    | TPtr _ => VNil
    | TSlice _ => VList []
    | TIface _ => VNil
    | TNamed n =>
      match find_tdef S n with
      | Some d => VStruct n (map (fun fd => zero_of S f (f_ty fd)) (t_fields d))
      | None => VList []
      end
    end
  end.

Definition ver_of_value (v : value) : vstate :=
  match v with
  | VStruct _ [VInt a; VInt b] => Some (a, b)
  | _ => None
  end.

Definition nth_field (d : tdef) (i : nat) : field :=
  nth i (t_fields d) {| f_name := ""; f_tag := 0; f_ty := TIface "any"; f_omit := false; f_range := None; f_setver := false |}.
Definition ftag (d : tdef) (i : nat) : Z := f_tag (nth_field d i).
Definition fty (d : tdef) (i : nat) : ty := f_ty (nth_field d i).

Definition TAG_BATCH_ITEM : Z := 4325391.   (* kmip.TagBatchItem 0x42000F, used literally by ResponseBatchItem.TagEncodeTTLV *)
Definition RESULT_STATUS_FAILED : Z := 1.    (* kmip.ResultStatusOperationFailed (after fix 961ca96) *)

Section Sem.
  Variable S : schema.
  Variable OPS : op_table.
  Variable ATTRS : attr_table.
  Variable OBJS : obj_table.

  Definition lookup_op (op : Z) : option (string * string) :=
    match find (fun e => fst e =? op) OPS with Some e => Some (snd e) | None => None end.
  Definition lookup_obj (ot : Z) : option string :=
    match find (fun e => fst e =? ot) OBJS with Some e => Some (snd e) | None => None end.
  Definition lookup_attr (name : list Z) : option ty :=
    match find (fun e => zlist_eqb_s (fst e) name) ATTRS with Some e => Some (snd e) | None => None end.

  (** AttributeName.IsCustom: prefix "x-" or "y-" *)
  Definition attr_is_custom (name : list Z) : bool :=
    match name with
    | a :: b :: _ => ((a =? 120) || (a =? 121)) && (b =? 45)
    | _ => false
    end.
  (** newAttribute(name): the type the value is decoded into *)
  Definition attr_ty (name : list Z) : ty :=
    if attr_is_custom name then TNamed "ttlv.Value"
    else match lookup_attr name with Some t => t | None => TNamed "ttlv.Value" end.

  (** ---------------------------------------------------------------------------------
      Encoder *)
  Fixpoint enc_ty (fuel : nat) (st : vstate) (t : ty) (tag : Z) (v : value) {struct fuel} : res (list item * vstate) :=
    match fuel with
    | O => OutOfFuel
    | Datatypes.S f =>
      match t with
      | TScalar k => do l <- enc_scalar k tag v ;; Ok (l, st)
      | TPtr t' =>
        match v with
        | VNil => Ok ([], st)
        | VPtr w => enc_ty f st t' tag w
        | _ => Panic
        end
      | TSlice t' =>
        match v with
        | VList l => enc_list f st t' tag l
        | _ => Panic
        end
      | TIface _ =>
        match v with
        | VNil => Ok ([], st)
        | VIface dyn w => enc_ty f st dyn tag w
        | _ => Panic
        end
      | TNamed n =>
        if String.eqb n "ttlv.Value" then
          match v with VTree i => Ok ([retag i tag], st) | _ => Panic end
        else if String.eqb n "ttlv.Struct" then
          match v with
          | VList l => match trees_of l with Some is => Ok ([IStruct tag is], st) | None => Panic end
          | _ => Panic
          end
        else
          match find_tdef S n, v with
          | Some d, VStruct _ fs =>
            if t_custom_enc d then enc_custom f st d tag fs
            else do r <- enc_fields f st (t_fields d) fs ;; Ok ([IStruct tag (fst r)], snd r)
          | _, _ => Panic
          end
      end
    end
  with enc_list (fuel : nat) (st : vstate) (t : ty) (tag : Z) (l : list value) {struct fuel} : res (list item * vstate) :=
    match fuel with
    | O => OutOfFuel
    | Datatypes.S f =>
      match l with
      | [] => Ok ([], st)
      | x :: r =>
        do a <- enc_ty f st t tag x ;;
        do b <- enc_list f (snd a) t tag r ;;
        Ok (fst a ++ fst b, snd b)
      end
    end
  (** buildStructEncodeFunc: the per-field closures in order *)
  with enc_fields (fuel : nat) (st : vstate) (fl : list field) (vl : list value) {struct fuel} : res (list item * vstate) :=
    match fuel with
    | O => OutOfFuel
    | Datatypes.S f =>
      match fl, vl with
      | [], [] => Ok ([], st)
      | fd :: fl', x :: vl' =>
        do a <-
          (if f_tag fd =? 0 then
             (* interface field without tag: tag of the dynamic type, no wrappers *)
             match x with
             | VNil => Ok ([], st)
             | VIface dyn w => enc_ty f st dyn (deftag_of S dyn) w
             | _ => Panic
             end
           else
             let st1 := if f_setver fd then ver_of_value x else st in
             if negb (version_in st1 (f_range fd)) then Ok ([], st1)
             else if f_omit fd && is_zero x then Ok ([], st1)
             else enc_ty f st1 (f_ty fd) (f_tag fd) x) ;;
        do b <- enc_fields f (snd a) fl' vl' ;;
        Ok (fst a ++ fst b, snd b)
      | _, _ => Panic
      end
    end
  (** every field written with the tag handed to the custom encoder
      (CredentialValue, KeyValue, KeyMaterial .TagEncodeTTLV) *)
  with enc_same_tag (fuel : nat) (st : vstate) (fl : list field) (tag : Z) (vl : list value) {struct fuel} : res (list item * vstate) :=
    match fuel with
    | O => OutOfFuel
    | Datatypes.S f =>
      match fl, vl with
      | [], [] => Ok ([], st)
      | fd :: fl', x :: vl' =>
        do a <- enc_ty f st (f_ty fd) tag x ;;
        do b <- enc_same_tag f (snd a) fl' tag vl' ;;
        Ok (fst a ++ fst b, snd b)
      | _, _ => Panic
      end
    end
  with enc_custom (fuel : nat) (st : vstate) (d : tdef) (tag : Z) (fs : list value) {struct fuel} : res (list item * vstate) :=
    match fuel with
    | O => OutOfFuel
    | Datatypes.S f =>
      let n := t_name d in
      if String.eqb n "kmip.RequestBatchItem" then
        (* RequestBatchItem.TagEncodeTTLV *)
        match fs with
        | [VInt op; idv; payload; ext] =>
          match bytes_of idv with None => Panic | Some id =>
          do p <- enc_ty f st (fty d 2) (ftag d 2) payload ;;
          do e <- enc_ty f (snd p) (fty d 3) (ftag d 3) ext ;;
          Ok ([IStruct tag ([IEnum (ftag d 0) (ftag d 0) op] ++
                            (match id with [] => [] | _ => [IBytes (ftag d 1) id] end) ++
                            fst p ++ fst e)], snd e)
          end
        | _ => Panic
        end
      else if String.eqb n "kmip.ResponseBatchItem" then
        (* ResponseBatchItem.TagEncodeTTLV: always under TagBatchItem *)
        match fs with
        | [VInt op; idv; VInt status; VInt reason; VStr msg; acvv; payload; ext] =>
          match bytes_of idv, bytes_of acvv with
          | Some id, Some acv =>
          do p <- enc_ty f st (fty d 6) (ftag d 6) payload ;;
          do e <- enc_ty f (snd p) (fty d 7) (ftag d 7) ext ;;
          Ok ([IStruct TAG_BATCH_ITEM
                 ((if op =? 0 then [] else [IEnum (ftag d 0) (ftag d 0) op]) ++
                  (match id with [] => [] | _ => [IBytes (ftag d 1) id] end) ++
                  [IEnum (ftag d 2) (ftag d 2) status] ++
                  (if (status =? RESULT_STATUS_FAILED) || negb (reason =? 0) then [IEnum (ftag d 3) (ftag d 3) reason] else []) ++
                  (match msg with [] => [] | _ => [IText (ftag d 4) msg] end) ++
                  (match acv with [] => [] | _ => [IBytes (ftag d 5) acv] end) ++
                  fst p ++ fst e)], snd e)
          | _, _ => Panic
          end
        | _ => Panic
        end
      else if String.eqb n "kmip.UnknownPayload" then
        match fs with
        | [VInt _; VList l] => match trees_of l with Some is => Ok ([IStruct tag is], st) | None => Panic end
        | _ => Panic
        end
      else
        (* CredentialValue, KeyValue, KeyMaterial: each alternative under the same tag *)
        enc_same_tag f st (t_fields d) tag fs
    end.

  (** ---------------------------------------------------------------------------------
      Decoder, over any reader format *)
  Context {R : Type}.
  Variable F : rawfmt R.

  Definition dres : Type := res (value * cur R * vstate).

  Definition dec_scalar (k : kind) (tag : Z) (c : cur R) : res (value * cur R) :=
    match k with
    | KInt8 | KInt16 | KInt32 => do r <- c_integer F tag c ;; Ok (VInt (fst r), snd r)
    | KUint8 | KUint16 => do r <- c_integer F tag c ;; if fst r <? 0 then Err else Ok (VInt (fst r), snd r)
    | KInt64 => do r <- c_long F tag c ;; Ok (VInt (fst r), snd r)
    | KUint32 | KUint64 => do r <- c_long F tag c ;; if fst r <? 0 then Err else Ok (VInt (fst r), snd r)
    | KBool => do r <- c_bool F tag c ;; Ok (VBool (fst r), snd r)
    | KString => do r <- c_text F tag c ;; Ok (VStr (fst r), snd r)
    | KBytes => do r <- c_bytes F tag c ;; Ok (vbytes (fst r), snd r)
    | KTime => do r <- c_date F tag c ;; Ok (VInt (fst r), snd r)
    | KDuration => do r <- c_intv F tag c ;; Ok (VInt (fst r), snd r)
    | KBigInt => do r <- c_big F tag c ;; Ok (VInt (fst r), snd r)
    | KEnum rt => do r <- c_enum F rt tag c ;; Ok (VInt (fst r), snd r)
    | KMask rt => do r <- c_mask F rt tag c ;; Ok (VInt (fst r), snd r)
    end.

  (** the first attribute named "Object Type" whose value is an ObjectType enumeration
      (ImportRequestPayload.TagDecodeTTLV) *)
  Definition OBJECT_TYPE_NAME : list Z := [79; 98; 106; 101; 99; 116; 32; 84; 121; 112; 101].
  Fixpoint import_object_type (objtag : Z) (attrs : list value) : option Z :=
    match attrs with
    | [] => None
    | VStruct _ [VStr name; _; VIface (TScalar (KEnum r)) (VInt ot)] :: rest =>
        if zlist_eqb_s name OBJECT_TYPE_NAME && (r =? objtag) then Some ot else import_object_type objtag rest
    | _ :: rest => import_object_type objtag rest
    end.

  (** ---- hand-written decoders, written with open recursion: [dty] decodes a value of a
      type under a tag ([dec_ty] one fuel unit down), [dopt] is d.Opt, [dobj] NewObjectForType
      followed by d.Any(&pl.Object), [dtrees] the loop of ttlv.Struct.TagDecodeTTLV. *)
  Section Customs.
    Variable dty : vstate -> ty -> Z -> cur R -> dres.
    Variable dopt : vstate -> ty -> Z -> cur R -> dres.
    Variable dobj : vstate -> Z -> cur R -> dres.
    Variable dtrees : cur R -> res (list item * cur R).

    (** d.Struct(tag, body) producing the struct value [n] *)
    Definition wrap_struct (n : string) (tag : Z) (c : cur R)
        (body : cur R -> res (list value * cur R * vstate)) : dres :=
      do r <- c_struct F tag (fun sub => do x <- body sub ;; Ok ((fst (fst x), snd x), snd (fst x))) c ;;
      Ok (VStruct n (fst (fst r)), snd r, snd (fst r)).

    Definition int_of (v : value) : Z := match v with VInt z => z | _ => 0 end.

    (** newRequestPayload / newResponsePayload + d.TagAny(tag, &payload) *)
    Definition dec_payload (st : vstate) (side : bool) (opv tag : Z) (c : cur R) : dres :=
      match lookup_op opv with
      | Some (rq, rs) =>
        let n := if side then rs else rq in
        do r <- dty st (TNamed n) tag c ;;
        Ok (VIface (TPtr (TNamed n)) (VPtr (fst (fst r))), snd (fst r), snd r)
      | None =>
        do r <- c_struct F tag dtrees c ;;
        Ok (VIface (TPtr (TNamed "kmip.UnknownPayload")) (VPtr (VStruct "kmip.UnknownPayload" [VInt opv; VList (map VTree (fst r))])), snd r, st)
      end.

    (** RequestBatchItem.TagDecodeTTLV *)
    Definition dec_request_item (st : vstate) (d : tdef) (tag : Z) (c : cur R) : dres :=
      wrap_struct (t_name d) tag c (fun c0 =>
        do op <- dty st (fty d 0) (ftag d 0) c0 ;;
        do id <- dopt st (fty d 1) (ftag d 1) (snd (fst op)) ;;
        do pl <- dec_payload st false (int_of (fst (fst op))) (ftag d 2) (snd (fst id)) ;;
        do ext <- dopt st (fty d 3) (ftag d 3) (snd (fst pl)) ;;
        Ok ([fst (fst op); fst (fst id); fst (fst pl); fst (fst ext)], snd (fst ext), st)).

    (** ResponseBatchItem.TagDecodeTTLV (after fix 79e1dd7) *)
    Definition dec_response_item (st : vstate) (d : tdef) (tag : Z) (c : cur R) : dres :=
      wrap_struct (t_name d) tag c (fun c0 =>
        do op <- dopt st (fty d 0) (ftag d 0) c0 ;;
        do id <- dopt st (fty d 1) (ftag d 1) (snd (fst op)) ;;
        do status <- dty st (fty d 2) (ftag d 2) (snd (fst id)) ;;
        do reason <- dopt st (fty d 3) (ftag d 3) (snd (fst status)) ;;
        do msg <- dopt st (fty d 4) (ftag d 4) (snd (fst reason)) ;;
        do acv <- dopt st (fty d 5) (ftag d 5) (snd (fst msg)) ;;
        let opv := int_of (fst (fst op)) in
        do pl <-
          (if (0 <? opv) && (c_tag (snd (fst acv)) =? ftag d 6)
           then dec_payload st true opv (ftag d 6) (snd (fst acv))
           else Ok (VNil, snd (fst acv), st)) ;;
        do ext <- dopt st (fty d 7) (ftag d 7) (snd (fst pl)) ;;
        Ok ([fst (fst op); fst (fst id); fst (fst status); fst (fst reason); fst (fst msg); fst (fst acv); fst (fst pl); fst (fst ext)],
            snd (fst ext), st)).

    (** Credential.TagDecodeTTLV + CredentialValue.decode *)
    Definition dec_credential (st : vstate) (d : tdef) (tag : Z) (c : cur R) : dres :=
      wrap_struct (t_name d) tag c (fun c0 =>
        do ct <- dty st (fty d 0) (ftag d 0) c0 ;;
        let ctv := int_of (fst (fst ct)) in
        match find_tdef S "kmip.CredentialValue" with
        | None => Panic
        | Some cv =>
          let c1 := snd (fst ct) in
          let vtag := ftag d 1 in
          if ctv =? 1 then do r <- dty st (fty cv 0) vtag c1 ;; Ok ([fst (fst ct); VStruct "kmip.CredentialValue" [fst (fst r); VNil; VNil]], snd (fst r), st)
          else if ctv =? 2 then do r <- dty st (fty cv 1) vtag c1 ;; Ok ([fst (fst ct); VStruct "kmip.CredentialValue" [VNil; fst (fst r); VNil]], snd (fst r), st)
          else if ctv =? 3 then do r <- dty st (fty cv 2) vtag c1 ;; Ok ([fst (fst ct); VStruct "kmip.CredentialValue" [VNil; VNil; fst (fst r)]], snd (fst r), st)
          else Err
        end).

    (** KeyMaterial.decode: which slot a key format designates *)
    Definition key_slot (fmtv : Z) : option nat :=
      if (fmtv =? 1) || (fmtv =? 2) || (fmtv =? 3) || (fmtv =? 4) || (fmtv =? 5) || (fmtv =? 6) then Some 0%nat
      else if fmtv =? 7 then Some 1%nat        (* TransparentSymmetricKey *)
      else if fmtv =? 10 then Some 2%nat       (* TransparentRSAPrivateKey *)
      else if fmtv =? 11 then Some 3%nat       (* TransparentRSAPublicKey *)
      else if fmtv =? 14 then Some 4%nat       (* TransparentECDSAPrivateKey *)
      else if fmtv =? 15 then Some 5%nat       (* TransparentECDSAPublicKey *)
      else if fmtv =? 20 then Some 6%nat       (* TransparentECPrivateKey *)
      else if fmtv =? 21 then Some 7%nat       (* TransparentECPublicKey *)
      else None.

    (** KeyValue.decode / PlainKeyValue.decode / KeyMaterial.decode *)
    Definition dec_key_value (st : vstate) (fmtv : Z) (tag : Z) (c2 : cur R) : dres :=
      if c_type c2 =? T_BYTES then
        do r <- c_bytes F tag c2 ;;
        Ok (VPtr (VStruct "kmip.KeyValue" [VPtr (vbytes (fst r)); VNil]), snd r, st)
      else if c_type c2 =? T_STRUCT then
        match find_tdef S "kmip.PlainKeyValue", find_tdef S "kmip.KeyMaterial" with
        | Some pkv, Some km =>
          do r <- c_struct F tag (fun sub =>
               match key_slot fmtv with
               | None => Err
               | Some k =>
                 do m <- dty st (fty km k) (ftag pkv 0) sub ;;
                 let slots := map (fun i => if Nat.eqb i k then fst (fst m) else VNil) (seq 0 8) in
                 do at_ <- dty st (fty pkv 1) (ftag pkv 1) (snd (fst m)) ;;
                 Ok (VStruct "kmip.PlainKeyValue" [VStruct "kmip.KeyMaterial" slots; fst (fst at_)], snd (fst at_))
               end) c2 ;;
          Ok (VPtr (VStruct "kmip.KeyValue" [VNil; VPtr (fst r)]), snd r, st)
        | _, _ => Panic
        end
      else Err.

    (** KeyBlock.TagDecodeTTLV *)
    Definition dec_key_block (st : vstate) (d : tdef) (tag : Z) (c : cur R) : dres :=
      wrap_struct (t_name d) tag c (fun c0 =>
        do kft <- dty st (fty d 0) (ftag d 0) c0 ;;
        do kct <- dopt st (fty d 1) (ftag d 1) (snd (fst kft)) ;;
        let c2 := snd (fst kct) in
        do kv <- (if c_tag c2 =? ftag d 2 then dec_key_value st (int_of (fst (fst kft))) (ftag d 2) c2 else Ok (VNil, c2, st)) ;;
        do alg <- dopt st (fty d 3) (ftag d 3) (snd (fst kv)) ;;
        do ln <- dopt st (fty d 4) (ftag d 4) (snd (fst alg)) ;;
        do kwd <- dty st (fty d 5) (ftag d 5) (snd (fst ln)) ;;
        Ok ([fst (fst kft); fst (fst kct); fst (fst kv); fst (fst alg); fst (fst ln); fst (fst kwd)], snd (fst kwd), st)).

    (** Attribute.TagDecodeTTLV *)
    Definition dec_attribute (st : vstate) (d : tdef) (tag : Z) (c : cur R) : dres :=
      wrap_struct (t_name d) tag c (fun c0 =>
        do nm <- c_text F (ftag d 0) c0 ;;
        do idx <-
          (if c_tag (snd nm) =? ftag d 1 then
             do r <- c_integer F (ftag d 1) (snd nm) ;; Ok (VPtr (VInt (fst r)), snd r)
           else Ok (VNil, snd nm)) ;;
        let aty := attr_ty (fst nm) in
        do v <- dty st aty (ftag d 2) (snd idx) ;;
        Ok ([VStr (fst nm); fst idx; VIface aty (fst (fst v))], snd (fst v), st)).

    (** payloads.GetResponsePayload.TagDecodeTTLV *)
    Definition dec_get_response (st : vstate) (d : tdef) (tag : Z) (c : cur R) : dres :=
      wrap_struct (t_name d) tag c (fun c0 =>
        do ot <- dty st (fty d 0) (ftag d 0) c0 ;;
        do uid <- dty st (fty d 1) (ftag d 1) (snd (fst ot)) ;;
        do ob <- dobj st (int_of (fst (fst ot))) (snd (fst uid)) ;;
        Ok ([fst (fst ot); fst (fst uid); fst (fst ob)], snd (fst ob), st)).

    (** payloads.RegisterRequestPayload.TagDecodeTTLV *)
    Definition dec_register_request (st : vstate) (d : tdef) (tag : Z) (c : cur R) : dres :=
      wrap_struct (t_name d) tag c (fun c0 =>
        do ot <- dty st (fty d 0) (ftag d 0) c0 ;;
        do ta <- dty st (fty d 1) (ftag d 1) (snd (fst ot)) ;;
        do ob <- dobj st (int_of (fst (fst ot))) (snd (fst ta)) ;;
        Ok ([fst (fst ot); fst (fst ta); fst (fst ob)], snd (fst ob), st)).

    (** payloads.ExportResponsePayload.TagDecodeTTLV *)
    Definition dec_export_response (st : vstate) (d : tdef) (tag : Z) (c : cur R) : dres :=
      wrap_struct (t_name d) tag c (fun c0 =>
        do ot <- dty st (fty d 0) (ftag d 0) c0 ;;
        do uid <- dty st (fty d 1) (ftag d 1) (snd (fst ot)) ;;
        do at_ <- dty st (fty d 2) (ftag d 2) (snd (fst uid)) ;;
        do ob <- dobj st (int_of (fst (fst ot))) (snd (fst at_)) ;;
        Ok ([fst (fst ot); fst (fst uid); fst (fst at_); fst (fst ob)], snd (fst ob), st)).

    (** payloads.ImportRequestPayload.TagDecodeTTLV (after fix ec220f8) *)
    Definition dec_import_request (st : vstate) (d : tdef) (tag : Z) (c : cur R) : dres :=
      wrap_struct (t_name d) tag c (fun c0 =>
        do uid <- dty st (fty d 0) (ftag d 0) c0 ;;
        do rep <- dopt st (fty d 1) (ftag d 1) (snd (fst uid)) ;;
        do kwt <- dopt st (fty d 2) (ftag d 2) (snd (fst rep)) ;;
        do at_ <- dty st (fty d 3) (ftag d 3) (snd (fst kwt)) ;;
        let objtag := match find_tdef S "payloads.GetResponsePayload" with Some g => ftag g 0 | None => 0 end in
        match (match fst (fst at_) with VList l => import_object_type objtag l | _ => None end) with
        | None => Err
        | Some otv =>
          do ob <- dobj st otv (snd (fst at_)) ;;
          Ok ([fst (fst uid); fst (fst rep); fst (fst kwt); fst (fst at_); fst (fst ob)], snd (fst ob), st)
        end).

    (** which hand-written decoder a type name selects *)
    Definition dec_custom_of (st : vstate) (d : tdef) (tag : Z) (c : cur R) : dres :=
      let n := t_name d in
      if String.eqb n "kmip.RequestBatchItem" then dec_request_item st d tag c
      else if String.eqb n "kmip.ResponseBatchItem" then dec_response_item st d tag c
      else if String.eqb n "kmip.Credential" then dec_credential st d tag c
      else if String.eqb n "kmip.KeyBlock" then dec_key_block st d tag c
      else if String.eqb n "kmip.Attribute" then dec_attribute st d tag c
      else if String.eqb n "payloads.GetResponsePayload" then dec_get_response st d tag c
      else if String.eqb n "payloads.RegisterRequestPayload" then dec_register_request st d tag c
      else if String.eqb n "payloads.ExportResponsePayload" then dec_export_response st d tag c
      else if String.eqb n "payloads.ImportRequestPayload" then dec_import_request st d tag c
      else Panic.
  End Customs.

  Fixpoint dec_ty (fuel : nat) (st : vstate) (t : ty) (tag : Z) (c : cur R) {struct fuel} : dres :=
    match fuel with
    | O => OutOfFuel
    | Datatypes.S f =>
      match t with
      | TScalar k => do r <- dec_scalar k tag c ;; Ok (fst r, snd r, st)
      | TPtr t' =>
        (* buildPointerDecodeFunc / buildTagDecodableDecodeFunc on a pointer *)
        if negb (c_tag c =? tag) then Ok (VNil, c, st)
        else do r <- dec_ty f st t' tag c ;; Ok (VPtr (fst (fst r)), snd (fst r), snd r)
      | TSlice t' => do r <- dec_slice f st t' tag c ;; Ok (VList (fst (fst r)), snd (fst r), snd r)
      | TIface _ => Panic   (* d.decodeValue(tag, value.Elem()) on a nil interface *)
      | TNamed n =>
        if String.eqb n "ttlv.Value" then
          do r <- dec_value F f tag c ;; Ok (VTree (fst r), snd r, st)
        else if String.eqb n "ttlv.Struct" then
          do r <- c_struct F tag (dec_fields F f) c ;; Ok (VList (map VTree (fst r)), snd r, st)
        else
          match find_tdef S n with
          | Some d =>
            if t_custom_dec d then
              dec_custom_of (dec_ty f) (dec_opt f) (dec_object f) (dec_fields F f) st d tag c
            else
              do r <- c_struct F tag (fun sub => do x <- dec_fields_s f st (t_fields d) sub ;; Ok ((fst (fst x), snd x), snd (fst x))) c ;;
              Ok (VStruct n (fst (fst r)), snd r, snd (fst r))
          | None => Panic
          end
      end
    end
  (** buildSliceDecodeFunc: for d.Tag() == tag { decode one element } *)
  with dec_slice (fuel : nat) (st : vstate) (t : ty) (tag : Z) (c : cur R) {struct fuel} : res (list value * cur R * vstate) :=
    match fuel with
    | O => OutOfFuel
    | Datatypes.S f =>
      if negb (c_tag c =? tag) then Ok ([], c, st)
      else
        do a <- dec_ty f st t tag c ;;
        do b <- dec_slice f (snd a) t tag (snd (fst a)) ;;
        Ok (fst (fst a) :: fst (fst b), snd (fst b), snd b)
    end
  (** buidStructDecodeFunc: the per-field closures in order *)
  with dec_fields_s (fuel : nat) (st : vstate) (fl : list field) (c : cur R) {struct fuel} : res (list value * cur R * vstate) :=
    match fuel with
    | O => OutOfFuel
    | Datatypes.S f =>
      match fl with
      | [] => Ok ([], c, st)
      | fd :: fl' =>
        do a <-
          (if f_tag fd =? 0 then Panic   (* getTagForType(value.Elem().Type()) on a nil interface *)
           else if negb (version_in st (f_range fd)) && negb (c_tag c =? f_tag fd) then Ok (zero_of S 8 (f_ty fd), c, st)
           else if f_omit fd && negb (c_tag c =? f_tag fd) then Ok (zero_of S 8 (f_ty fd), c, st)
           else dec_ty f st (f_ty fd) (f_tag fd) c) ;;
        let st1 := if f_setver fd then ver_of_value (fst (fst a)) else snd a in
        do b <- dec_fields_s f st1 fl' (snd (fst a)) ;;
        Ok (fst (fst a) :: fst (fst b), snd (fst b), snd b)
      end
    end
  (** d.Opt(tag, &x): decode when the current tag matches, keep the zero value otherwise *)
  with dec_opt (fuel : nat) (st : vstate) (t : ty) (tag : Z) (c : cur R) {struct fuel} : dres :=
    match fuel with
    | O => OutOfFuel
    | Datatypes.S f =>
      if c_tag c =? tag then dec_ty f st t tag c else Ok (zero_of S 8 t, c, st)
    end
  (** NewObjectForType + d.Any(&pl.Object) *)
  with dec_object (fuel : nat) (st : vstate) (ot : Z) (c : cur R) {struct fuel} : dres :=
    match fuel with
    | O => OutOfFuel
    | Datatypes.S f =>
      match lookup_obj ot with
      | None => Err
      | Some n =>
        do r <- dec_ty f st (TNamed n) (deftag_of S (TNamed n)) c ;;
        Ok (VIface (TPtr (TNamed n)) (VPtr (fst (fst r))), snd (fst r), snd r)
      end
    end.

End Sem.
