(** Round trip of kmip.KeyBlock with kmip.KeyValue / kmip.PlainKeyValue / kmip.KeyMaterial
    (objects.go).  KeyBlock and PlainKeyValue are written reflectively; KeyValue and KeyMaterial
    by their TagEncodeTTLV (every alternative under the same tag).  KeyBlock.TagDecodeTTLV reads
    the key format first and hands it down: KeyValue.decode looks at the TYPE of the element
    (byte string = wrapped, structure = plain), KeyMaterial.decode lets the key format select
    the alternative to read. *)
From Coq Require Import ZArith List Bool String Lia PeanoNat.
From KV Require Import Base BaseProofs Wire WireProofs Cursor CursorProofs Schema SchemaSem SchemaSemEq FaithfulProofs
  Roundtrip RoundtripEq RoundtripProofs RtCustomLib RtSameTag.
Import ListNotations.
Open Scope Z_scope.

(** ** the alternatives of KeyMaterial *)
Lemma conf_slots_nils cty st km tag k : forall slots i, (k < i)%nat ->
  conf_slots cty st km tag k i slots = true -> slots = repeat VNil (List.length slots).
Proof.
  induction slots as [|x r IH]; intros i Hi H; [reflexivity|].
  cbn [conf_slots] in H. apply andb_true_iff in H. destruct H as [H1 H2].
  destruct (Nat.eqb_spec i k); [lia|]. destruct x; try discriminate.
  cbn [List.length repeat]. f_equal. apply (IH (Datatypes.S i)); [lia | exact H2].
Qed.

(** exactly the slot the key format designates may be set *)
Lemma conf_slots_shape cty st km tag k : forall slots i, (i <= k)%nat -> (k < i + List.length slots)%nat ->
  conf_slots cty st km tag k i slots = true ->
  exists x m, slots = (repeat VNil (k - i) ++ x :: repeat VNil m)%list /\ cty st (fty km k) tag x = Some st.
Proof.
  induction slots as [|y r IH]; intros i Hi Hk H; cbn [List.length] in Hk; [lia|].
  cbn [conf_slots] in H. apply andb_true_iff in H. destruct H as [H1 H2].
  destruct (Nat.eqb_spec i k) as [->|Hne].
  - exists y, (List.length r). rewrite Nat.sub_diag. cbn [repeat app]. split.
    + f_equal. apply (conf_slots_nils cty st km tag k r (Datatypes.S k)); [lia | exact H2].
    + apply keeps_some, H1.
  - destruct y; try discriminate. destruct (IH (Datatypes.S i)) as (x & m & Hx & Hcx); [lia | lia | exact H2 |].
    exists x, m. split; [|exact Hcx]. replace (k - i)%nat with (Datatypes.S (k - Datatypes.S i)) by lia.
    cbn [repeat app]. f_equal. exact Hx.
Qed.

Lemma key_slot_lt fmtv k : key_slot fmtv = Some k -> (k < 8)%nat.
Proof.
  unfold key_slot.
  repeat match goal with |- (if ?c then _ else _) = _ -> _ => destruct c end;
    intros H; inversion H; lia.
Qed.

Section KB.
  Variable S : schema.
  Variables (OPS : op_table) (ATTRS : attr_table) (OBJS : obj_table).
  Context {R : Type}.
  Variable F : rawfmt R.

  Local Notation enc_ty := (enc_ty S).
  Local Notation dec_ty := (dec_ty S OPS ATTRS OBJS F).
  Local Notation dec_opt := (dec_opt S OPS ATTRS OBJS F).
  Local Notation conf_ty := (conf_ty S OPS ATTRS OBJS).
  Local Notation Q := (Q S OPS ATTRS OBJS F).
  Local Notation RT_concl := (RT_concl S OPS ATTRS OBJS F).

  (** ** KeyValue held in the pointer field of a key block: nil, wrapped (a byte string) or
      plain (a structure: key material, then attributes) *)
  Lemma key_value_rt g : Q g -> forall fc st fmtv tag kv items st' kvd,
    find_tdef S "kmip.KeyValue" = Some kvd -> t_custom_enc kvd = true ->
    List.length (t_fields kvd) = 2%nat ->
    fty kvd 0 = TPtr (TScalar KBytes) -> fty kvd 1 = TPtr (TNamed "kmip.PlainKeyValue") ->
    enc_ty g st (TPtr (TNamed "kmip.KeyValue")) tag kv = Ok (items, st') ->
    conf_key_value S (conf_ty fc) st fmtv tag kv = true ->
    st' = st /\
    ((kv = VNil /\ items = []) \/
     exists i, items = [i] /\ itag i = tag /\
       forall (e : relem R) rest fd, faithful1 F i e -> (g + 2 * item_size i + 2 <= fd)%nat ->
         dec_key_value S F (dec_ty fd) st fmtv tag (e :: rest, false) = Ok (kv, (rest, false), st)).
  Proof.
    intros HQ fc st fmtv tag kv items st' kvd Ekvd Hkve Hlen Hk0 Hk1 He Hc.
    assert (Hkptr : forallb is_ptr_field (t_fields kvd) = true).
    { rewrite !fty_nth in Hk0, Hk1. destruct (t_fields kvd) as [|h0 [|h1 [|? ?]]]; try discriminate Hlen.
      cbn [nth] in Hk0, Hk1. cbn [forallb]. unfold is_ptr_field. rewrite Hk0, Hk1. reflexivity. }
    unfold conf_key_value in Hc.
    destruct kv as [| | | | |w| | | |]; try discriminate.
    { (* nil *)
      destruct g as [|g1]; [discriminate|]. rewrite enc_ty_eq in He. injection He as <- <-. split; [reflexivity|]. left. auto. }
    destruct w as [| | | | | | |n' l| |]; try discriminate.
    destruct l as [|x0 l]; try discriminate.
    destruct g as [|g1]; [discriminate|]. rewrite enc_ty_eq in He.
    apply (enc_ty_same_tag_inv S _ _ _ kvd) in He; try assumption; try reflexivity.
    destruct He as (g3 & -> & He).
    destruct x0 as [| | | | |wb| | | |]; try discriminate.
    - (* plain *)
      destruct l as [|x1 l0]; try discriminate.
      destruct x1 as [| | | | |pl| | | |]; try discriminate.
      destruct pl as [| | | | | | |n2 l2| |]; try discriminate.
      destruct l2 as [|y0 l1]; try discriminate.
      destruct y0 as [| | | | | | |n3 slots| |]; try discriminate.
      destruct l1 as [|attrs l2]; try discriminate.
      destruct l2; try discriminate. destruct l0; try discriminate.
      destruct (find_tdef S "kmip.PlainKeyValue") as [pkv|] eqn:Epkv; [|rewrite andb_false_r in Hc; discriminate].
      destruct (find_tdef S "kmip.KeyMaterial") as [km|] eqn:Ekm; [|rewrite andb_false_r in Hc; discriminate].
      destruct (key_slot fmtv) as [k|] eqn:Ek; [|rewrite andb_false_r in Hc; discriminate].
      rewrite !andb_true_iff in Hc.
      destruct Hc as (((Hn' & Hn2) & Hn3) & (((((((((((((Hpe & Hpd) & Hkme) & Hlp) & Hlk) & Hls) & Hpp) & Hpo) & Hp0) & Hp1) & Hp01) & Hkmptr) & Hsl) & Hat)).
      apply String.eqb_eq in Hn', Hn2, Hn3. subst n' n2 n3.
      apply negb_true_iff in Hpe, Hpd, Hp01. apply Z.eqb_neq in Hp01. apply ty_eqb_eq in Hp0.
      apply Nat.eqb_eq in Hlp, Hlk, Hls. apply keeps_some in Hat.
      pose proof (key_slot_lt _ _ Ek) as Hk8.
      assert (Hkl : (k < 0 + List.length slots)%nat) by lia.
      destruct (conf_slots_shape _ _ _ _ k slots 0%nat (Nat.le_0_l k) Hkl Hsl) as (x & m & Hslots & Hcx).
      rewrite Nat.sub_0_r in Hslots.
      assert (Hm : m = (8 - k - 1)%nat).
      { rewrite Hslots, app_length, repeat_length in Hls. cbn [List.length] in Hls. rewrite repeat_length in Hls. lia. }
      (* the two fields of PlainKeyValue *)
      rewrite (ftag_nth pkv 0), (ftag_nth pkv 1) in Hp01. rewrite (ftag_nth pkv 0) in Hsl, Hcx.
      rewrite (fty_nth pkv 0) in Hp0. rewrite (fty_nth pkv 1) in Hp1. rewrite (fty_nth pkv 1), (ftag_nth pkv 1) in Hat.
      destruct (t_fields pkv) as [|p0 [|p1 [|? ?]]] eqn:Epf; try discriminate Hlp.
      cbn [nth] in Hp0, Hp1, Hp01, Hat, Hcx.
      cbn [forallb] in Hpp, Hpo. rewrite !andb_true_iff in Hpp, Hpo.
      destruct Hpp as (Hpp0 & Hpp1 & _). destruct Hpo as (Hpo0 & Hpo1 & _). apply negb_true_iff in Hpo0, Hpo1.
      destruct (pos_field_facts _ Hpp0) as (Hpt0 & _ & _). destruct (pos_field_facts _ Hpp1) as (Hpt1 & _ & _).
      destruct (f_ty p1) as [| |ta| |] eqn:Etp1; try discriminate. clear Hp1.
      (* the encoder: KeyValue -> Plain -> PlainKeyValue -> KeyMaterial, attributes *)
      change [VNil; VPtr (VStruct "kmip.PlainKeyValue" [VStruct "kmip.KeyMaterial" slots; attrs])]
        with (repeat VNil 1 ++ VPtr (VStruct "kmip.PlainKeyValue" [VStruct "kmip.KeyMaterial" slots; attrs]) :: repeat VNil 0)%list in He.
      destruct (enc_same_tag_slot S 1 _ _ _ _ _ _ _ _ Hkptr He) as (g4 & Hg4 & E4). rewrite <- fty_nth, Hk1 in E4.
      destruct g4 as [|g5]; [discriminate|]. rewrite enc_ty_eq in E4.
      destruct g5 as [|g6]; [discriminate|]. rewrite enc_ty_eq in E4.
      change (String.eqb "kmip.PlainKeyValue" "ttlv.Value") with false in E4.
      change (String.eqb "kmip.PlainKeyValue" "ttlv.Struct") with false in E4. cbv iota in E4.
      rewrite Epkv, Hpe, Epf in E4.
      destruct g6 as [|g7]; [discriminate|]. rewrite (enc_field_req S) in E4 by assumption. rewrite Hp0 in E4.
      destruct (enc_ty g7 st (TNamed "kmip.KeyMaterial") (f_tag p0) (VStruct "kmip.KeyMaterial" slots)) as [[ikm skm]| | |] eqn:Em;
        cbn [bind fst snd] in E4; try discriminate.
      apply (enc_ty_same_tag_inv S _ _ _ km) in Em; try assumption; try reflexivity.
      destruct Em as (g9 & -> & Em). rewrite Hslots in Em.
      destruct (enc_same_tag_slot S k _ _ _ _ _ _ _ _ Hkmptr Em) as (g10 & Hg10 & Ex). rewrite <- fty_nth in Ex.
      destruct (Q_ty S OPS ATTRS OBJS F _ g10 HQ ltac:(lia) _ _ _ _ _ _ _ _ Ex Hcx) as (<- & Htkm & _ & _ & Hdx).
      rewrite (enc_field_req S) in E4 by assumption. rewrite Etp1 in E4.
      destruct (enc_ty (Datatypes.S g9) st (TSlice ta) (f_tag p1) attrs) as [[iat sat]| | |] eqn:Ea; cbn [bind fst snd] in E4; try discriminate.
      rewrite (enc_fields_nil S) in E4. cbn [bind fst snd] in E4.
      injection E4 as <- <-.
      destruct (Q_ty S OPS ATTRS OBJS F _ (Datatypes.S g9) HQ ltac:(lia) _ _ _ _ _ _ _ _ Ea Hat) as (<- & Htat & _ & _ & Hda).
      split; [reflexivity|]. right. eexists. split; [reflexivity|]. split; [reflexivity|].
      intros e rest fd He1 Hfd.
      inversion He1 as [tag0 kids0 raw eks Hks| | | | | | | | | |]; subst tag0 kids0 e.
      rewrite app_nil_r in Hks, Hfd. rewrite item_size_struct, items_size_app in Hfd.
      pose proof (faithful_hd_tag F _ _ Hks) as Hhd.
      apply faithful_app_inv in Hks. destruct Hks as (ekm & eat & -> & Hfkm & Hfat).
      unfold dec_key_value. rewrite c_type_head.
      change (T_STRUCT =? T_BYTES) with false. change (T_STRUCT =? T_STRUCT) with true. cbv iota.
      rewrite Epkv, Ekm.
      unfold c_struct. rewrite c_expect_hit. cbn [bind]. rewrite c_open_good. cbn [bind].
      rewrite Ek. rewrite !fty_nth, !ftag_nth, Epf. cbn [nth]. rewrite <- !fty_nth.
      rewrite (Hdx ekm eat fd Hfkm).
      2:{ intros _. rewrite (faithful_hd_tag F _ _ Hfat). destruct iat as [|ia iat']; [cbn [hd_tag]; congruence|].
          cbn [hd_tag]. inversion Htat; subst. congruence. }
      2:{ lia. }
      cbn [bind fst snd]. rewrite Etp1.
      pose proof (Hda eat [] fd Hfat) as Hda'. rewrite app_nil_r in Hda'. rewrite Hda'.
      2:{ intros _. rewrite c_tag_nil. congruence. }
      2:{ lia. }
      cbn [bind fst snd]. rewrite andb_false_r. rewrite c_next_cons. cbn [bind fst snd].
      rewrite (map_slot_repeat x VNil k 8 0) by lia. rewrite Nat.sub_0_r, Hslots, Hm. reflexivity.
    - (* wrapped *)
      destruct l as [|x1 l0]; try discriminate.
      destruct x1; try discriminate. destruct l0; try discriminate.
      apply andb_true_iff in Hc. destruct Hc as [Hn' Hwb]. apply String.eqb_eq in Hn'. subst n'.
      change [VPtr wb; VNil] with (repeat VNil 0 ++ VPtr wb :: repeat VNil 1)%list in He.
      destruct (enc_same_tag_slot S 0 _ _ _ _ _ _ _ _ Hkptr He) as (g4 & Hg4 & E4). rewrite <- fty_nth, Hk0 in E4.
      destruct g4 as [|g5]; [discriminate|]. rewrite enc_ty_eq in E4.
      destruct g5 as [|g6]; [discriminate|]. rewrite enc_ty_eq in E4.
      assert (Hb : exists s, enc_scalar KBytes tag wb = Ok [IBytes tag s] /\ vbytes s = wb).
      { destruct wb as [| |[|z s']| | | | | | |]; try discriminate Hwb; eexists; split; reflexivity. }
      destruct Hb as (s & Es & Hvb). rewrite Es in E4. cbn [bind] in E4. injection E4 as <- <-.
      split; [reflexivity|]. right. eexists. split; [reflexivity|]. split; [reflexivity|].
      intros e rest fd He1 Hfd. inversion He1; subst.
      unfold dec_key_value. rewrite c_type_head. rewrite Z.eqb_refl.
      unfold c_bytes. erewrite c_scalar_hit by eassumption. cbn [bind fst snd]. reflexivity.
  Qed.

  (** ** KeyBlock *)
  Lemma rt_key_block f : Q f -> forall fc st d tag fs items st' sc,
    find_tdef S (t_name d) = Some d -> t_custom_dec d = true ->
    t_name d = "kmip.KeyBlock"%string ->
    enc_ty (Datatypes.S f) st (TNamed (t_name d)) tag (VStruct (t_name d) fs) = Ok (items, st') ->
    conf_key_block S (conf_ty fc) st d tag fs = Some sc ->
    RT_concl (Datatypes.S f) st (TNamed (t_name d)) tag (VStruct (t_name d) fs) items st' sc.
  Proof.
    intros HQ fc st d tag fs items st' sc Ed Hcd Hname He Hc.
    assert (EV : String.eqb (t_name d) "ttlv.Value" = false) by (rewrite Hname; reflexivity).
    assert (ES : String.eqb (t_name d) "ttlv.Struct" = false) by (rewrite Hname; reflexivity).
    unfold conf_key_block in Hc.
    destruct (t_fields d) as [|f0 [|f1 [|f2 [|f3 [|f4 [|f5 [|? ?]]]]]]] eqn:Efl; try discriminate.
    destruct fs as [|[kft| | | | | | | | |] [|kct [|kv [|alg [|ln [|kwd [|? ?]]]]]]]; try discriminate.
    destruct (find_tdef S "kmip.KeyValue") as [kvd|] eqn:Ekvd; [|discriminate].
    match type of Hc with (if ?c then _ else _) = _ => destruct c eqn:Hcond; [|discriminate] end.
    injection Hc as <-.
    rewrite !andb_true_iff in Hcond.
    destruct Hcond as ((((((((((((((((((((((((Hce & Hpos) & Ho0) & Ho1) & Ho2) & Ho3) & Ho4) & Ho5) & Ht0) & Ht134) & Ht2) & Ht5) & Hdist) & Hkve) & Hkl) & Hk0) & Hk1) & Hc1) & Hc3) & Hc4) & Hz1) & Hz3) & Hz4) & Hkv) & Hc5).
    apply negb_true_iff in Hce, Ho0, Ho2, Ho5. apply ty_eqb_eq in Ht2, Hk0, Hk1. apply Nat.eqb_eq in Hkl.
    apply keeps_some in Hc1, Hc3, Hc4, Hc5.
    pose proof (omit_zero_eq S _ _ Hz1) as Hz1'. pose proof (omit_zero_eq S _ _ Hz3) as Hz3'. pose proof (omit_zero_eq S _ _ Hz4) as Hz4'.
    clear Hz1 Hz3 Hz4.
    destruct (f_ty f0) as [k0| | | |] eqn:Et0; try discriminate.
    destruct k0 as [| | | | | | | | | | | | | |r0|]; try discriminate. clear Ht0.
    destruct (f_ty f1) as [k1| | | |] eqn:Et1; try discriminate.
    destruct (f_ty f3) as [k3| | | |] eqn:Et3; try discriminate.
    destruct (f_ty f4) as [k4| | | |] eqn:Et4; try discriminate. clear Ht134.
    destruct (f_ty f5) as [|t5| | |] eqn:Et5; try discriminate. clear Ht5.
    cbn [forallb] in Hpos. rewrite !andb_true_iff in Hpos. destruct Hpos as (Hp0 & Hp1 & Hp2 & Hp3 & Hp4 & Hp5 & _).
    cbn [map] in Hdist.
    destruct (tags_distinct_cons _ _ Hdist) as (Hn0 & _ & Hd1).
    destruct (tags_distinct_cons _ _ Hd1) as (Hn1 & Hni1 & Hd2).
    destruct (tags_distinct_cons _ _ Hd2) as (Hn2 & Hni2 & Hd3).
    destruct (tags_distinct_cons _ _ Hd3) as (Hn3 & Hni3 & Hd4).
    destruct (tags_distinct_cons _ _ Hd4) as (Hn4 & Hni4 & Hd5).
    destruct (tags_distinct_cons _ _ Hd5) as (Hn5 & _ & _).
    clear Hdist Hd1 Hd2 Hd3 Hd4 Hd5.
    (* the encoder: six fields *)
    rewrite enc_ty_eq, EV, ES, Ed, Hce in He. rewrite Efl in He.
    destruct f as [|g1]; [discriminate|]. rewrite (enc_field_req S) in He by assumption. rewrite Et0 in He.
    destruct (enc_ty g1 st (TScalar (KEnum r0)) (f_tag f0) (VInt kft)) as [[i0 s0]| | |] eqn:E0; cbn [bind fst snd] in He; try discriminate.
    assert (Hc0 : conf_ty 1 st (TScalar (KEnum r0)) (f_tag f0) (VInt kft) = Some st).
    { rewrite conf_ty_eq. reflexivity. }
    destruct (Q_ty S OPS ATTRS OBJS F _ g1 HQ ltac:(lia) _ _ _ _ _ _ _ _ E0 Hc0) as (<- & Hta0 & Hone0 & _ & Hd0).
    destruct (Hone0 eq_refl) as [it0 ->]. clear Hone0.
    destruct g1 as [|g2]; [discriminate|]. rewrite (enc_field_omit S) in He by assumption. rewrite Et1 in He.
    destruct (if is_zero kct then Ok ([], st) else enc_ty g2 st (TScalar k1) (f_tag f1) kct) as [[i1 s1]| | |] eqn:E1;
      cbn [bind fst snd] in He; try discriminate.
    destruct (dopt_omit S OPS ATTRS OBJS F g2 fc st _ _ _ _ _ (Q_ty S OPS ATTRS OBJS F _ g2 HQ ltac:(lia)) E1 Hc1 eq_refl Hz1')
      as (-> & Hta1 & Hd1).
    destruct g2 as [|g3]; [discriminate|]. rewrite (enc_field_req S) in He by assumption. rewrite Ht2 in He.
    destruct (enc_ty g3 st (TPtr (TNamed "kmip.KeyValue")) (f_tag f2) kv) as [[i2 s2]| | |] eqn:E2; cbn [bind fst snd] in He; try discriminate.
    assert (HQ3 : Q g3) by (intros g Hg; apply HQ; lia).
    destruct (key_value_rt g3 HQ3 fc st kft (f_tag f2) kv i2 s2 kvd Ekvd Hkve Hkl Hk0 Hk1 E2 Hkv) as (-> & Hkvcase).
    assert (Hta2 : tags_all (f_tag f2) i2).
    { destruct Hkvcase as [[_ ->]|(i & -> & Hi & _)]; [constructor | constructor; [exact Hi | constructor]]. }
    destruct g3 as [|g4]; [discriminate|]. rewrite (enc_field_omit S) in He by assumption. rewrite Et3 in He.
    destruct (if is_zero alg then Ok ([], st) else enc_ty g4 st (TScalar k3) (f_tag f3) alg) as [[i3 s3]| | |] eqn:E3;
      cbn [bind fst snd] in He; try discriminate.
    destruct (dopt_omit S OPS ATTRS OBJS F g4 fc st _ _ _ _ _ (Q_ty S OPS ATTRS OBJS F _ g4 HQ ltac:(lia)) E3 Hc3 eq_refl Hz3')
      as (-> & Hta3 & Hd3).
    destruct g4 as [|g5]; [discriminate|]. rewrite (enc_field_omit S) in He by assumption. rewrite Et4 in He.
    destruct (if is_zero ln then Ok ([], st) else enc_ty g5 st (TScalar k4) (f_tag f4) ln) as [[i4 s4]| | |] eqn:E4;
      cbn [bind fst snd] in He; try discriminate.
    destruct (dopt_omit S OPS ATTRS OBJS F g5 fc st _ _ _ _ _ (Q_ty S OPS ATTRS OBJS F _ g5 HQ ltac:(lia)) E4 Hc4 eq_refl Hz4')
      as (-> & Hta4 & Hd4).
    destruct g5 as [|g6]; [discriminate|]. rewrite (enc_field_req S) in He by assumption. rewrite Et5 in He.
    destruct (enc_ty g6 st (TPtr t5) (f_tag f5) kwd) as [[i5 s5]| | |] eqn:E5; cbn [bind fst snd] in He; try discriminate.
    destruct (Q_ty S OPS ATTRS OBJS F _ g6 HQ ltac:(lia) _ _ _ _ _ _ _ _ E5 Hc5) as (<- & Hta5 & _ & _ & Hd5).
    destruct g6 as [|g7]; [discriminate|]. rewrite (enc_fields_nil S) in He. cbn [bind fst snd] in He.
    injection He as <- <-.
    split; [reflexivity|]. split; [constructor; [reflexivity | constructor]|]. split; [eauto|]. split; [intros; discriminate|].
    intros es rest fd Hf _ Hfd. apply faithful_one_inv in Hf. destruct Hf as (e & -> & He1).
    inversion He1 as [tag0 kids0 raw eks Hk| | | | | | | | | |]; subst tag0 kids0 e.
    unfold items_size at 1 in Hfd. cbn [fold_right] in Hfd. rewrite item_size_struct in Hfd.
    change ([it0] ++ i1 ++ i2 ++ i3 ++ i4 ++ i5 ++ [])%list with (it0 :: i1 ++ i2 ++ i3 ++ i4 ++ i5 ++ [])%list in Hk, Hfd.
    rewrite items_size_cons, !items_size_app in Hfd. change (items_size []) with 0%nat in Hfd.
    (* the children, one group per field; what follows an element that may be absent *)
    assert (Hh5 : hd_in (i5 ++ []) [f_tag f5]) by (apply hd_in_app; [assumption | apply hd_in_nil]).
    assert (Hh4 : hd_in (i4 ++ i5 ++ []) [f_tag f4; f_tag f5]) by (apply hd_in_app; assumption).
    assert (Hh3 : hd_in (i3 ++ i4 ++ i5 ++ []) [f_tag f3; f_tag f4; f_tag f5]) by (apply hd_in_app; assumption).
    assert (Hh2 : hd_in (i2 ++ i3 ++ i4 ++ i5 ++ []) [f_tag f2; f_tag f3; f_tag f4; f_tag f5]) by (apply hd_in_app; assumption).
    apply faithful_cons_inv in Hk. destruct Hk as (e0 & ek1 & -> & Hf0 & Hr1).
    apply faithful_app_inv in Hr1. destruct Hr1 as (e1 & ek2 & -> & Hf1 & Hr2).
    pose proof (hd_in_neq F _ _ (f_tag f1) _ Hh2 Hr2 Hn1 Hni1) as Hnx1.
    apply faithful_app_inv in Hr2. destruct Hr2 as (e2 & ek3 & -> & Hf2 & Hr3).
    pose proof (hd_in_neq F _ _ (f_tag f2) _ Hh3 Hr3 Hn2 Hni2) as Hnx2.
    apply faithful_app_inv in Hr3. destruct Hr3 as (e3 & ek4 & -> & Hf3 & Hr4).
    pose proof (hd_in_neq F _ _ (f_tag f3) _ Hh4 Hr4 Hn3 Hni3) as Hnx3.
    apply faithful_app_inv in Hr4. destruct Hr4 as (e4 & ek5 & -> & Hf4 & Hr5).
    pose proof (hd_in_neq F _ _ (f_tag f4) _ Hh5 Hr5 Hn4 Hni4) as Hnx4.
    apply faithful_app_inv in Hr5. destruct Hr5 as (e5 & enil & -> & Hf5 & Hknil).
    apply faithful_nil_inv in Hknil. subst enil.
    destruct fd as [|fd1]; [lia|]. destruct fd1 as [|fd2]; [lia|]. cbn [app].
    rewrite (dec_ty_custom S OPS ATTRS OBJS F (Datatypes.S fd2) st d tag _ Ed Hcd EV ES).
    unfold dec_custom_of. rewrite Hname.
    change (String.eqb "kmip.KeyBlock" "kmip.RequestBatchItem") with false.
    change (String.eqb "kmip.KeyBlock" "kmip.ResponseBatchItem") with false.
    change (String.eqb "kmip.KeyBlock" "kmip.Credential") with false.
    change (String.eqb "kmip.KeyBlock" "kmip.KeyBlock") with true. cbv iota.
    unfold dec_key_block. rewrite Hname.
    apply wrap_struct_ok with (l := []).
    rewrite !fty_nth, !ftag_nth, Efl. cbn [nth]. rewrite Et0, Et1, Et3, Et4, Et5.
    pose proof (Hd0 [e0] (e1 ++ e2 ++ e3 ++ e4 ++ e5 ++ []) (Datatypes.S fd2)) as Hd0'. cbn [app] in Hd0'.
    rewrite Hd0'; [| constructor; [assumption | constructor] | discriminate | unfold items_size; cbn [fold_right]; lia].
    cbn [bind fst snd int_of].
    rewrite (Hd1 e1 _ fd2 Hf1 Hnx1) by lia. cbn [bind fst snd].
    (* KeyValue: absent, or one element whose type selects wrapped / plain *)
    match goal with |- bind ?m _ = _ =>
      assert (Hdkv : m = Ok (kv, (e3 ++ e4 ++ e5 ++ [], false), st)) end.
    { destruct Hkvcase as [[-> ->]|(i & -> & Hi & Hdi)].
      - apply faithful_nil_inv in Hf2. subst e2. cbn [app].
        destruct (Z.eqb_spec (c_tag (e3 ++ e4 ++ e5 ++ [], false)) (f_tag f2)); [contradiction | reflexivity].
      - apply faithful_one_inv in Hf2. destruct Hf2 as (e & -> & Hfe). cbn [app].
        rewrite (faithful1_tag F _ _ _ _ Hfe), Hi, Z.eqb_refl.
        apply Hdi; [assumption|]. rewrite items_size_cons in Hfd. lia. }
    rewrite Hdkv. cbn [bind fst snd].
    rewrite (Hd3 e3 _ fd2 Hf3 Hnx3) by lia. cbn [bind fst snd].
    rewrite (Hd4 e4 _ fd2 Hf4 Hnx4) by lia. cbn [bind fst snd].
    rewrite (Hd5 e5 [] (Datatypes.S fd2) Hf5); [reflexivity | intros _; rewrite c_tag_nil; congruence | lia].
  Qed.
End KB.

(** Non-vacuity at the schema regenerated from /repo: real key blocks (plain with transparent
    key material and every optional element present, wrapped with key wrapping data, raw bytes,
    the last KeyMaterial alternative, metadata only) conform, and their binary encoding decodes
    back to them. *)
From KV Require Import BinCursorProofs KmipCodec.
From KVGen Require Import KmipSchema.

Definition ex_kb_symmetric : value :=
  VStruct "kmip.KeyBlock" [VInt 7; VInt 1;
    VPtr (VStruct "kmip.KeyValue" [VNil; VPtr (VStruct "kmip.PlainKeyValue"
      [VStruct "kmip.KeyMaterial" [VNil; VPtr (VStruct "kmip.TransparentSymmetricKey" [VStr [1; 2; 3; 4; 5; 6; 7; 8]]); VNil; VNil; VNil; VNil; VNil; VNil];
       VList []])]);
    VInt 3; VInt 256; VNil].
Definition ex_kb_wrapped : value :=
  VStruct "kmip.KeyBlock" [VInt 1; VInt 0;
    VPtr (VStruct "kmip.KeyValue" [VPtr (VStr [222; 173; 190; 239]); VNil]);
    VInt 3; VInt 0;
    VPtr (VStruct "kmip.KeyWrappingData" [VInt 1;
      VPtr (VStruct "kmip.EncryptionKeyInformation" [VStr [107; 101; 121; 45; 49]; VNil]); VNil; VStr []; VStr [1; 2; 3]; VInt 1])].
Definition ex_kb_raw : value :=
  VStruct "kmip.KeyBlock" [VInt 1; VInt 0;
    VPtr (VStruct "kmip.KeyValue" [VNil; VPtr (VStruct "kmip.PlainKeyValue"
      [VStruct "kmip.KeyMaterial" [VPtr (VStr [9; 8; 7; 6]); VNil; VNil; VNil; VNil; VNil; VNil; VNil]; VList []])]);
    VInt 0; VInt 128; VNil].
Definition ex_kb_ec_public : value :=
  VStruct "kmip.KeyBlock" [VInt 21; VInt 0;
    VPtr (VStruct "kmip.KeyValue" [VNil; VPtr (VStruct "kmip.PlainKeyValue"
      [VStruct "kmip.KeyMaterial" [VNil; VNil; VNil; VNil; VNil; VNil; VNil;
         VPtr (VStruct "kmip.TransparentECPublicKey" [VInt 1; VStr [4; 1; 2]])]; VList []])]);
    VInt 6; VInt 256; VNil].
Definition ex_kb_metadata : value :=
  VStruct "kmip.KeyBlock" [VInt 2; VInt 0; VNil; VInt 4; VInt 2048; VNil].

Definition kb_example_ok (v : value) : Prop :=
  (exists sc, conf_ty kmip_schema kmip_ops kmip_attrs kmip_objs 40 (Some (1, 4)) (TNamed "kmip.KeyBlock") 4325440 v = Some sc) /\
  (do r <- enc_ty kmip_schema 30 (Some (1, 4)) (TNamed "kmip.KeyBlock") 4325440 v ;;
   do c <- bin_cursor (wire_enc_list (fst r)) ;;
   do d <- dec_ty kmip_schema kmip_ops kmip_attrs kmip_objs bin_fmt 120 (Some (1, 4)) (TNamed "kmip.KeyBlock") 4325440 c ;;
   Ok (value_eqb (fst (fst d)) v && match fst (snd (fst d)) with [] => true | _ => false end)) = Ok true.

Example rt_key_block_example :
  kb_example_ok ex_kb_symmetric /\ kb_example_ok ex_kb_wrapped /\ kb_example_ok ex_kb_raw /\
  kb_example_ok ex_kb_ec_public /\ kb_example_ok ex_kb_metadata.
Proof. repeat split; try (eexists; vm_compute; reflexivity); vm_compute; reflexivity. Qed.
