(** Round trip of kmip.KeyBlock with kmip.KeyValue / kmip.PlainKeyValue / kmip.KeyMaterial
    (objects.go).  KeyBlock and PlainKeyValue are written reflectively; KeyValue and KeyMaterial
    by their TagEncodeTTLV (every alternative under the same tag).  KeyBlock.TagDecodeTTLV reads
    the key format first and hands it down: KeyValue.decode looks at the TYPE of the element
    (byte string = wrapped, structure = plain), KeyMaterial.decode lets the key format select
    the alternative to read. *)
From Coq Require Import ZArith List Bool String Lia PeanoNat.
From KV Require Import Base BaseProofs Wire WireProofs Cursor CursorProofs Schema SchemaSem SchemaSemEq FaithfulProofs
  Roundtrip RoundtripEq RoundtripProofs RtCustomLib RtSameTag.
Import ListNotations.
Open Scope Z_scope.

(** ** the alternatives of KeyMaterial *)
Lemma conf_slots_nils cty st km tag k : forall slots i, (k < i)%nat ->
  conf_slots cty st km tag k i slots = true -> slots = repeat VNil (List.length slots).
Proof.
  induction slots as [|x r IH]; intros i Hi H; [reflexivity|].
  cbn [conf_slots] in H. apply andb_true_iff in H. destruct H as [H1 H2].
  destruct (Nat.eqb_spec i k); [lia|]. destruct x; try discriminate.
  cbn [List.length repeat]. f_equal. apply (IH (Datatypes.S i)); [lia | exact H2].
Qed.

(** exactly the slot the key format designates may be set *)
Lemma conf_slots_shape cty st km tag k : forall slots i, (i <= k)%nat -> (k < i + List.length slots)%nat ->
  conf_slots cty st km tag k i slots = true ->
  exists x m, slots = (repeat VNil (k - i) ++ x :: repeat VNil m)%list /\ cty st (fty km k) tag x = Some st.
Proof.
  induction slots as [|y r IH]; intros i Hi Hk H; cbn [List.length] in Hk; [lia|].
  cbn [conf_slots] in H. apply andb_true_iff in H. destruct H as [H1 H2].
  destruct (Nat.eqb_spec i k) as [->|Hne].
  - exists y, (List.length r). rewrite Nat.sub_diag. cbn [repeat app]. split.
    + f_equal. apply (conf_slots_nils cty st km tag k r (Datatypes.S k)); [lia | exact H2].
    + apply keeps_some, H1.
  - destruct y; try discriminate. destruct (IH (Datatypes.S i)) as (x & m & Hx & Hcx); [lia | lia | exact H2 |].
    exists x, m. split; [|exact Hcx]. replace (k - i)%nat with (Datatypes.S (k - Datatypes.S i)) by lia.
    cbn [repeat app]. f_equal. exact Hx.
Qed.

Lemma key_slot_lt fmtv k : key_slot fmtv = Some k -> (k < 8)%nat.
Proof.
  unfold key_slot.
  repeat match goal with |- (if ?c then _ else _) = _ -> _ => destruct c end;
    intros H; inversion H; lia.
Qed.

Section KB.
  Variable S : schema.
  Variables (OPS : op_table) (ATTRS : attr_table) (OBJS : obj_table).
  Context {R : Type}.
  Variable F : rawfmt R.

  Local Notation enc_ty := (enc_ty S).
  Local Notation dec_ty := (dec_ty S OPS ATTRS OBJS F).
  Local Notation dec_opt := (dec_opt S OPS ATTRS OBJS F).
  Local Notation conf_ty := (conf_ty S OPS ATTRS OBJS).
  Local Notation Q := (Q S OPS ATTRS OBJS F).
  Local Notation RT_concl := (RT_concl S OPS ATTRS OBJS F).

  (** ** KeyValue held in the pointer field of a key block: nil, wrapped (a byte string) or
      plain (a structure: key material, then attributes) *)
  Lemma key_value_rt g : Q g -> forall fc st fmtv tag kv items st' kvd,
    find_tdef S "kmip.KeyValue" = Some kvd -> t_custom_enc kvd = true ->
    List.length (t_fields kvd) = 2%nat ->
    fty kvd 0 = TPtr (TScalar KBytes) -> fty kvd 1 = TPtr (TNamed "kmip.PlainKeyValue") ->
    enc_ty g st (TPtr (TNamed "kmip.KeyValue")) tag kv = Ok (items, st') ->
    conf_key_value S (conf_ty fc) st fmtv tag kv = true ->
    st' = st /\
    ((kv = VNil /\ items = []) \/
     exists i, items = [i] /\ itag i = tag /\
       forall (e : relem R) rest fd, faithful1 F i e -> (g + 2 * item_size i + 2 <= fd)%nat ->
         dec_key_value S F (dec_ty fd) st fmtv tag (e :: rest, false) = Ok (kv, (rest, false), st)).
  Proof.
    intros HQ fc st fmtv tag kv items st' kvd Ekvd Hkve Hlen Hk0 Hk1 He Hc.
    assert (Hkptr : forallb is_ptr_field (t_fields kvd) = true).
    { rewrite !fty_nth in Hk0, Hk1. destruct (t_fields kvd) as [|h0 [|h1 [|? ?]]]; try discriminate Hlen.
      cbn [nth] in Hk0, Hk1. cbn [forallb]. unfold is_ptr_field. rewrite Hk0, Hk1. reflexivity. }
    unfold conf_key_value in Hc.
    destruct kv as [| | | | |w| | | |]; try discriminate.
    { (* nil *)
      destruct g as [|g1]; [discriminate|]. rewrite enc_ty_eq in He. injection He as <- <-. split; [reflexivity|]. left. auto. }
    destruct w as [| | | | | | |n' l| |]; try discriminate.
    destruct l as [|x0 l]; try discriminate.
    destruct g as [|g1]; [discriminate|]. rewrite enc_ty_eq in He.
    apply (enc_ty_same_tag_inv S _ _ _ kvd) in He; try assumption; try reflexivity.
    destruct He as (g3 & -> & He).
    destruct x0 as [| | | | |wb| | | |]; try discriminate.
    - (* plain *)
      destruct l as [|x1 l0]; try discriminate.
      destruct x1 as [| | | | |pl| | | |]; try discriminate.
      destruct pl as [| | | | | | |n2 l2| |]; try discriminate.
      destruct l2 as [|y0 l1]; try discriminate.
      destruct y0 as [| | | | | | |n3 slots| |]; try discriminate.
      destruct l1 as [|attrs l2]; try discriminate.
      destruct l2; try discriminate. destruct l0; try discriminate.
      destruct (find_tdef S "kmip.PlainKeyValue") as [pkv|] eqn:Epkv; [|rewrite andb_false_r in Hc; discriminate].
      destruct (find_tdef S "kmip.KeyMaterial") as [km|] eqn:Ekm; [|rewrite andb_false_r in Hc; discriminate].
      destruct (key_slot fmtv) as [k|] eqn:Ek; [|rewrite andb_false_r in Hc; discriminate].
      rewrite !andb_true_iff in Hc.
      destruct Hc as (((Hn' & Hn2) & Hn3) & (((((((((((((Hpe & Hpd) & Hkme) & Hlp) & Hlk) & Hls) & Hpp) & Hpo) & Hp0) & Hp1) & Hp01) & Hkmptr) & Hsl) & Hat)).
      apply String.eqb_eq in Hn', Hn2, Hn3. subst n' n2 n3.
      apply negb_true_iff in Hpe, Hpd, Hp01. apply Z.eqb_neq in Hp01. apply ty_eqb_eq in Hp0.
      apply Nat.eqb_eq in Hlp, Hlk, Hls. apply keeps_some in Hat.
      pose proof (key_slot_lt _ _ Ek) as Hk8.
      assert (Hkl : (k < 0 + List.length slots)%nat) by lia.
      destruct (conf_slots_shape _ _ _ _ k slots 0%nat (Nat.le_0_l k) Hkl Hsl) as (x & m & Hslots & Hcx).
      rewrite Nat.sub_0_r in Hslots.
      assert (Hm : m = (8 - k - 1)%nat).
      { rewrite Hslots, app_length, repeat_length in Hls. cbn [List.length] in Hls. rewrite repeat_length in Hls. lia. }
      (* the two fields of PlainKeyValue *)
      rewrite (ftag_nth pkv 0), (ftag_nth pkv 1) in Hp01. rewrite (ftag_nth pkv 0) in Hsl, Hcx.
      rewrite (fty_nth pkv 0) in Hp0. rewrite (fty_nth pkv 1) in Hp1. rewrite (fty_nth pkv 1), (ftag_nth pkv 1) in Hat.
      destruct (t_fields pkv) as [|p0 [|p1 [|? ?]]] eqn:Epf; try discriminate Hlp.
      cbn [nth] in Hp0, Hp1, Hp01, Hat, Hcx.
      cbn [forallb] in Hpp, Hpo. rewrite !andb_true_iff in Hpp, Hpo.
      destruct Hpp as (Hpp0 & Hpp1 & _). destruct Hpo as (Hpo0 & Hpo1 & _). apply negb_true_iff in Hpo0, Hpo1.
      destruct (pos_field_facts _ Hpp0) as (Hpt0 & _ & _). destruct (pos_field_facts _ Hpp1) as (Hpt1 & _ & _).
      destruct (f_ty p1) as [| |ta| |] eqn:Etp1; try discriminate. clear Hp1.
      (* the encoder: KeyValue -> Plain -> PlainKeyValue -> KeyMaterial, attributes *)
      change [VNil; VPtr (VStruct "kmip.PlainKeyValue" [VStruct "kmip.KeyMaterial" slots; attrs])]
        with (repeat VNil 1 ++ VPtr (VStruct "kmip.PlainKeyValue" [VStruct "kmip.KeyMaterial" slots; attrs]) :: repeat VNil 0)%list in He.
      destruct (enc_same_tag_slot S 1 _ _ _ _ _ _ _ _ Hkptr He) as (g4 & Hg4 & E4). rewrite <- fty_nth, Hk1 in E4.
      destruct g4 as [|g5]; [discriminate|]. rewrite enc_ty_eq in E4.
      destruct g5 as [|g6]; [discriminate|]. rewrite enc_ty_eq in E4.
      change (String.eqb "kmip.PlainKeyValue" "ttlv.Value") with false in E4.
      change (String.eqb "kmip.PlainKeyValue" "ttlv.Struct") with false in E4. cbv iota in E4.
      rewrite Epkv, Hpe, Epf in E4.
      destruct g6 as [|g7]; [discriminate|]. rewrite (enc_field_req S) in E4 by assumption. rewrite Hp0 in E4.
      destruct (enc_ty g7 st (TNamed "kmip.KeyMaterial") (f_tag p0) (VStruct "kmip.KeyMaterial" slots)) as [[ikm skm]| | |] eqn:Em;
        cbn [bind fst snd] in E4; try discriminate.
      apply (enc_ty_same_tag_inv S _ _ _ km) in Em; try assumption; try reflexivity.
      destruct Em as (g9 & -> & Em). rewrite Hslots in Em.
      destruct (enc_same_tag_slot S k _ _ _ _ _ _ _ _ Hkmptr Em) as (g10 & Hg10 & Ex). rewrite <- fty_nth in Ex.
      destruct (Q_ty S OPS ATTRS OBJS F _ g10 HQ ltac:(lia) _ _ _ _ _ _ _ _ Ex Hcx) as (<- & Htkm & _ & _ & Hdx).
      rewrite (enc_field_req S) in E4 by assumption. rewrite Etp1 in E4.
      destruct (enc_ty (Datatypes.S g9) st (TSlice ta) (f_tag p1) attrs) as [[iat sat]| | |] eqn:Ea; cbn [bind fst snd] in E4; try discriminate.
      rewrite (enc_fields_nil S) in E4. cbn [bind fst snd] in E4.
      injection E4 as <- <-.
      destruct (Q_ty S OPS ATTRS OBJS F _ (Datatypes.S g9) HQ ltac:(lia) _ _ _ _ _ _ _ _ Ea Hat) as (<- & Htat & _ & _ & Hda).
      split; [reflexivity|]. right. eexists. split; [reflexivity|]. split; [reflexivity|].
      intros e rest fd He1 Hfd.
      inversion He1 as [tag0 kids0 raw eks Hks| | | | | | | | | |]; subst tag0 kids0 e.
      rewrite app_nil_r in Hks, Hfd. rewrite item_size_struct, items_size_app in Hfd.
      pose proof (faithful_hd_tag F _ _ Hks) as Hhd.
      apply faithful_app_inv in Hks. destruct Hks as (ekm & eat & -> & Hfkm & Hfat).
      unfold dec_key_value. rewrite c_type_head.
      change (T_STRUCT =? T_BYTES) with false. change (T_STRUCT =? T_STRUCT) with true. cbv iota.
      rewrite Epkv, Ekm.
      unfold c_struct. rewrite c_expect_hit. cbn [bind]. rewrite c_open_good. cbn [bind].
      rewrite Ek. rewrite !fty_nth, !ftag_nth, Epf. cbn [nth]. rewrite <- !fty_nth.
      rewrite (Hdx ekm eat fd Hfkm).
      2:{ intros _. rewrite (faithful_hd_tag F _ _ Hfat). destruct iat as [|ia iat']; [cbn [hd_tag]; congruence|].
          cbn [hd_tag]. inversion Htat; subst. congruence. }
      2:{ lia. }
      cbn [bind fst snd]. rewrite Etp1.
      pose proof (Hda eat [] fd Hfat) as Hda'. rewrite app_nil_r in Hda'. rewrite Hda'.
      2:{ intros _. rewrite c_tag_nil. congruence. }
      2:{ lia. }
      cbn [bind fst snd]. rewrite andb_false_r. rewrite c_next_cons. cbn [bind fst snd].
      rewrite (map_slot_repeat x VNil k 8 0) by lia. rewrite Nat.sub_0_r, Hslots, Hm. reflexivity.
    - (* wrapped *)
      destruct l as [|x1 l0]; try discriminate.
      destruct x1; try discriminate. destruct l0; try discriminate.
      apply andb_true_iff in Hc. destruct Hc as [Hn' Hwb]. apply String.eqb_eq in Hn'. subst n'.
      change [VPtr wb; VNil] with (repeat VNil 0 ++ VPtr wb :: repeat VNil 1)%list in He.
      destruct (enc_same_tag_slot S 0 _ _ _ _ _ _ _ _ Hkptr He) as (g4 & Hg4 & E4). rewrite <- fty_nth, Hk0 in E4.
      destruct g4 as [|g5]; [discriminate|]. rewrite enc_ty_eq in E4.
      destruct g5 as [|g6]; [discriminate|]. rewrite enc_ty_eq in E4.
      assert (Hb : exists s, enc_scalar KBytes tag wb = Ok [IBytes tag s] /\ vbytes s = wb).
      { destruct wb as [| |[|z s']| | | | | | |]; try discriminate Hwb; eexists; split; reflexivity. }
      destruct Hb as (s & Es & Hvb). rewrite Es in E4. cbn [bind] in E4. injection E4 as <- <-.
      split; [reflexivity|]. right. eexists. split; [reflexivity|]. split; [reflexivity|].
      intros e rest fd He1 Hfd. inversion He1; subst.
      unfold dec_key_value. rewrite c_type_head. rewrite Z.eqb_refl.
      unfold c_bytes. erewrite c_scalar_hit by eassumption. cbn [bind fst snd]. reflexivity.
  Qed.
End KB.
