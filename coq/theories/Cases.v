(** Helpers shared by the generated cases_*.v files of the correspondence check.
    Indices are [Z]: a [nat] index would be printed in unary. *)
From Coq Require Import ZArith List Bool.
Import ListNotations.
Open Scope Z_scope.

Fixpoint bad_idx {A} (ok : A -> bool) (l : list A) (i : Z) : list Z :=
  match l with
  | [] => []
  | x :: xs => if ok x then bad_idx ok xs (i + 1) else i :: bad_idx ok xs (i + 1)
  end.

Fixpoint list_eqb {A} (eqb : A -> A -> bool) (a b : list A) : bool :=
  match a, b with
  | [], [] => true
  | x :: xs, y :: ys => eqb x y && list_eqb eqb xs ys
  | _, _ => false
  end.

Definition option_eqb {A} (eqb : A -> A -> bool) (a b : option A) : bool :=
  match a, b with
  | None, None => true
  | Some x, Some y => eqb x y
  | _, _ => false
  end.

Definition zlist_eqb := list_eqb Z.eqb.

(** Dense byte-string literals for cases files: [hb n 0x...] is the [n]-byte big-endian
    string of the hexadecimal numeral (one pass over the bits of the numeral; a list of
    [Z] literals costs about twice as much to parse). *)
Fixpoint hb_pos (p : positive) (bit cur : Z) (acc : list Z) : list Z :=
  match p with
  | xH => (cur + bit) :: acc
  | xO q => if bit =? 128 then hb_pos q 1 0 (cur :: acc) else hb_pos q (2 * bit) cur acc
  | xI q => if bit =? 128 then hb_pos q 1 0 ((cur + bit) :: acc) else hb_pos q (2 * bit) (cur + bit) acc
  end.

Definition hb (n : Z) (v : Z) : list Z :=
  let l := match v with Zpos p => hb_pos p 1 0 [] | _ => [] end in
  repeat 0 (Z.to_nat n - length l) ++ l.

(** Densest byte-string literals: [ub n [i1; i2; ...]%uint63] - primitive 63-bit integers
    each carrying 7 bytes (big-endian, the last one right-aligned with the remaining bytes).
    Primitive integer literals are single term nodes, so a cases file parses about ten times
    faster than with lists of [Z] (measured: 190 KB/s against 20 KB/s). *)
From Coq Require Export Uint63.

Definition byte_of_int (b : int) : Z :=
  let bit (k : int) (w : Z) : Z := if Uint63.eqb (Uint63.land (Uint63.lsr b k) 1%uint63) 1%uint63 then w else 0 in
  bit 0%uint63 1 + bit 1%uint63 2 + bit 2%uint63 4 + bit 3%uint63 8 + bit 4%uint63 16 + bit 5%uint63 32 + bit 6%uint63 64 + bit 7%uint63 128.

(** the [k] low-order bytes of [w], most significant first *)
Fixpoint bytes_of_int (k : nat) (w : int) (acc : list Z) : list Z :=
  match k with
  | O => acc
  | S k' => bytes_of_int k' (Uint63.lsr w 8%uint63) (byte_of_int (Uint63.land w 255%uint63) :: acc)
  end.

Fixpoint ub_go (n : nat) (ws : list int) : list Z :=
  match ws with
  | [] => []
  | w :: rest =>
    if Nat.leb n 7 then bytes_of_int n w []
    else bytes_of_int 7 w [] ++ ub_go (n - 7) rest
  end.

Definition ub (n : Z) (ws : list int) : list Z := ub_go (Z.to_nat n) ws.

(** big integers as sign and magnitude bytes: [zb neg n ws] *)
Definition zb (neg : bool) (n : Z) (ws : list int) : Z :=
  let m := fold_left (fun a b => a * 256 + b) (ub n ws) 0 in if neg then - m else m.
