(** Helpers shared by the generated cases_*.v files of the correspondence check.
    Indices are [Z]: a [nat] index would be printed in unary. *)
From Coq Require Import ZArith List Bool.
Import ListNotations.
Open Scope Z_scope.

Fixpoint bad_idx {A} (ok : A -> bool) (l : list A) (i : Z) : list Z :=
  match l with
  | [] => []
  | x :: xs => if ok x then bad_idx ok xs (i + 1) else i :: bad_idx ok xs (i + 1)
  end.

Fixpoint list_eqb {A} (eqb : A -> A -> bool) (a b : list A) : bool :=
  match a, b with
  | [], [] => true
  | x :: xs, y :: ys => eqb x y && list_eqb eqb xs ys
  | _, _ => false
  end.

Definition option_eqb {A} (eqb : A -> A -> bool) (a b : option A) : bool :=
  match a, b with
  | None, None => true
  | Some x, Some y => eqb x y
  | _, _ => false
  end.

Definition zlist_eqb := list_eqb Z.eqb.

(** Dense byte-string literals for cases files: [hb n 0x...] is the [n]-byte big-endian
    string of the hexadecimal numeral (one pass over the bits of the numeral; a list of
    [Z] literals costs about twice as much to parse). *)
Fixpoint hb_pos (p : positive) (bit cur : Z) (acc : list Z) : list Z :=
  match p with
  | xH => (cur + bit) :: acc
  | xO q => if bit =? 128 then hb_pos q 1 0 (cur :: acc) else hb_pos q (2 * bit) cur acc
  | xI q => if bit =? 128 then hb_pos q 1 0 ((cur + bit) :: acc) else hb_pos q (2 * bit) (cur + bit) acc
  end.

Definition hb (n : Z) (v : Z) : list Z :=
  let l := match v with Zpos p => hb_pos p 1 0 [] | _ => [] end in
  repeat 0 (Z.to_nat n - length l) ++ l.
