(** Helpers shared by the generated cases_*.v files of the correspondence check.
    Indices are [Z]: a [nat] index would be printed in unary. *)
From Coq Require Import ZArith List Bool.
Import ListNotations.
Open Scope Z_scope.

Fixpoint bad_idx {A} (ok : A -> bool) (l : list A) (i : Z) : list Z :=
  match l with
  | [] => []
  | x :: xs => if ok x then bad_idx ok xs (i + 1) else i :: bad_idx ok xs (i + 1)
  end.

Fixpoint list_eqb {A} (eqb : A -> A -> bool) (a b : list A) : bool :=
  match a, b with
  | [], [] => true
  | x :: xs, y :: ys => eqb x y && list_eqb eqb xs ys
  | _, _ => false
  end.

Definition option_eqb {A} (eqb : A -> A -> bool) (a b : option A) : bool :=
  match a, b with
  | None, None => true
  | Some x, Some y => eqb x y
  | _, _ => false
  end.

Definition zlist_eqb := list_eqb Z.eqb.
