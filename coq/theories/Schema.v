(** Data types of the struct-level codec model: the schema (what the reflective codec of
    ttlv/encoder.go / decoder.go derives from Go struct definitions and tags - REGENERATED
    from /repo on every check into gen/KmipSchema.v by harness/cmd/dump) and the universe of Go
    values the codec handles.  No functions beyond lookups, no proofs. *)
From Coq Require Import ZArith List Bool String.
From KV Require Import Base Wire.
Import ListNotations.
Open Scope Z_scope.

(** Go kinds the codec treats as scalars, with the TTLV item they map to.
    [KEnum rtag]/[KMask rtag]: registered enumeration / bit-mask type and its default tag. *)
Inductive kind : Type :=
| KInt8 | KInt16 | KInt32 | KInt64 | KUint8 | KUint16 | KUint32 | KUint64
| KBool | KString | KBytes | KTime | KDuration | KBigInt
| KEnum (rtag : Z) | KMask (rtag : Z).

Inductive ty : Type :=
| TScalar (k : kind)
| TPtr (t : ty)
| TSlice (t : ty)                 (* non-byte slices; []byte is TScalar KBytes *)
| TNamed (name : string)          (* struct type (reflective or with custom codec), by Go name "pkg.Type" *)
| TIface (name : string).         (* interface type: "kmip.OperationPayload", "kmip.Object", "any" *)

(** protocol versions as (major, minor) *)
Definition ver : Type := (Z * Z)%type.

Record field : Type := {
  f_name : string;
  f_tag : Z;                      (* resolved numeric tag (the library's getFieldTag); 0 = dynamic (interface field without tag) *)
  f_ty : ty;
  f_omit : bool;                  (* omitempty *)
  f_range : option (option ver * option ver);   (* version=START..END *)
  f_setver : bool;                (* set-version *)
}.

Record tdef : Type := {
  t_name : string;
  t_fields : list field;          (* exported fields not tagged "-", in declaration order *)
  t_custom_enc : bool;            (* T or *T implements ttlv.TagEncodable *)
  t_custom_dec : bool;            (* T or *T implements ttlv.TagDecodable *)
  t_deftag : Z;                   (* the library's getTagForType(T), 0 if none *)
}.

Definition schema : Type := list tdef.

Fixpoint find_tdef (S : schema) (name : string) : option tdef :=
  match S with
  | [] => None
  | d :: r => if String.eqb (t_name d) name then Some d else find_tdef r name
  end.

(** Go values.  Integers of every width, enumerations, masks, big integers, times (Unix
    seconds) and durations (whole seconds) are [VInt]; string and []byte are [VStr];
    a nil slice and an empty slice are both [VList []]. *)
Inductive value : Type :=
| VInt (z : Z)
| VBool (b : bool)
| VStr (s : list Z)
| VEmptyBytes                               (* a non-nil []byte of length 0 (what decoding a present, empty Byte String yields); a nil []byte is [VStr []] *)
| VNil                                      (* nil pointer, nil interface *)
| VPtr (v : value)                          (* non-nil pointer *)
| VList (l : list value)
| VStruct (name : string) (fs : list value) (* one value per [t_fields] entry, in order *)
| VIface (dyn : ty) (v : value)             (* non-nil interface: dynamic type and value *)
| VTree (i : item).                         (* ttlv.Value (generic tree); ttlv.Struct is a VList of VTree *)

(** operation code -> (request payload type name, response payload type name), from
    kmip.operationRegistry; attribute name -> value type; object type code -> struct name *)
Definition op_table : Type := list (Z * (string * string)).
Definition attr_table : Type := list (list Z * ty).        (* attribute name as bytes *)
Definition obj_table : Type := list (Z * string).

(** boolean equalities (lookups, correspondence rows) *)
Fixpoint zlist_eqb_s (a b : list Z) : bool :=
  match a, b with
  | [], [] => true
  | x :: xs, y :: ys => (x =? y) && zlist_eqb_s xs ys
  | _, _ => false
  end.

Definition kind_eqb (a b : kind) : bool :=
  match a, b with
  | KInt8, KInt8 | KInt16, KInt16 | KInt32, KInt32 | KInt64, KInt64
  | KUint8, KUint8 | KUint16, KUint16 | KUint32, KUint32 | KUint64, KUint64
  | KBool, KBool | KString, KString | KBytes, KBytes | KTime, KTime
  | KDuration, KDuration | KBigInt, KBigInt => true
  | KEnum x, KEnum y | KMask x, KMask y => x =? y
  | _, _ => false
  end.

Fixpoint ty_eqb (a b : ty) : bool :=
  match a, b with
  | TScalar x, TScalar y => kind_eqb x y
  | TPtr x, TPtr y | TSlice x, TSlice y => ty_eqb x y
  | TNamed x, TNamed y | TIface x, TIface y => String.eqb x y
  | _, _ => false
  end.

Fixpoint value_eqb (a b : value) : bool :=
  let go := (fix go (x y : list value) : bool :=
               match x, y with
               | [], [] => true
               | p :: ps, q :: qs => value_eqb p q && go ps qs
               | _, _ => false
               end) in
  match a, b with
  | VInt x, VInt y => x =? y
  | VBool x, VBool y => Bool.eqb x y
  | VStr x, VStr y => zlist_eqb_s x y
  | VEmptyBytes, VEmptyBytes => true
  | VNil, VNil => true
  | VPtr x, VPtr y => value_eqb x y
  | VList x, VList y => go x y
  | VStruct n x, VStruct m y => String.eqb n m && go x y
  | VIface t x, VIface u y => ty_eqb t u && value_eqb x y
  | VTree x, VTree y => item_eqb x y
  | _, _ => false
  end.
