(** Data types of the struct-level codec model: the schema (what the reflective codec of
    ttlv/encoder.go / decoder.go derives from Go struct definitions and tags - REGENERATED
    from /repo on every check into gen/KmipSchema.v by harness/cmd/dump) and the universe of Go
    values the codec handles.  No functions beyond lookups, no proofs. *)
From Coq Require Import ZArith List Bool String.
From KV Require Import Base Wire.
Import ListNotations.
Open Scope Z_scope.

(** Go kinds the codec treats as scalars, with the TTLV item they map to.
    [KEnum rtag]/[KMask rtag]: registered enumeration / bit-mask type and its default tag. *)
Inductive kind : Type :=
| KInt8 | KInt16 | KInt32 | KInt64 | KUint8 | KUint16 | KUint32 | KUint64
| KBool | KString | KBytes | KTime | KDuration | KBigInt
| KEnum (rtag : Z) | KMask (rtag : Z).

Inductive ty : Type :=
| TScalar (k : kind)
| TPtr (t : ty)
| TSlice (t : ty)                 (* non-byte slices; []byte is TScalar KBytes *)
| TNamed (name : string)          (* struct type (reflective or with custom codec), by Go name "pkg.Type" *)
| TIface (name : string).         (* interface type: "kmip.OperationPayload", "kmip.Object", "any" *)

(** protocol versions as (major, minor) *)
Definition ver : Type := (Z * Z)%type.

Record field : Type := {
  f_name : string;
  f_tag : Z;                      (* resolved numeric tag (the library's getFieldTag); 0 = dynamic (interface field without tag) *)
  f_ty : ty;
  f_omit : bool;                  (* omitempty *)
  f_range : option (option ver * option ver);   (* version=START..END *)
  f_setver : bool;                (* set-version *)
}.

Record tdef : Type := {
  t_name : string;
  t_fields : list field;          (* exported fields not tagged "-", in declaration order *)
  t_custom_enc : bool;            (* T or *T implements ttlv.TagEncodable *)
  t_custom_dec : bool;            (* T or *T implements ttlv.TagDecodable *)
  t_deftag : Z;                   (* the library's getTagForType(T), 0 if none *)
}.

Definition schema : Type := list tdef.

Fixpoint find_tdef (S : schema) (name : string) : option tdef :=
  match S with
  | [] => None
  | d :: r => if String.eqb (t_name d) name then Some d else find_tdef r name
  end.

(** Go values.  Integers of every width, enumerations, masks, big integers, times (Unix
    seconds) and durations (whole seconds) are [VInt]; string and []byte are [VStr];
    a nil slice and an empty slice are both [VList []]. *)
Inductive value : Type :=
| VInt (z : Z)
| VBool (b : bool)
| VStr (s : list Z)
| VNil                                      (* nil pointer, nil interface *)
| VPtr (v : value)                          (* non-nil pointer *)
| VList (l : list value)
| VStruct (name : string) (fs : list value) (* one value per [t_fields] entry, in order *)
| VIface (dyn : ty) (v : value)             (* non-nil interface: dynamic type and value *)
| VTree (i : item).                         (* ttlv.Value (generic tree); ttlv.Struct is a VList of VTree *)

(** operation code -> (request payload type name, response payload type name), from
    kmip.operationRegistry; attribute name -> value type; object type code -> struct name *)
Definition op_table : Type := list (Z * (string * string)).
Definition attr_table : Type := list (list Z * ty).        (* attribute name as bytes *)
Definition obj_table : Type := list (Z * string).
