(** Decoder side of payloads.ImportRequestPayload (payloads/import_export.go): reflective
    encoder; the hand-written decoder reads optional elements, the attributes, then the managed
    object whose type the attributes name.  The object type is looked up in the DECODED
    attributes and conformance looks it up in the NORMALISED ones: normalisation keeps the name
    of an attribute and an enumeration value, so both find the same. *)
From Coq Require Import ZArith List Bool String Lia PeanoNat.
From KV Require Import Base BaseProofs Wire WireProofs Cursor CursorProofs Schema SchemaSem SchemaSemEq FaithfulProofs
  Roundtrip RoundtripEq RoundtripProofs RtCustomLib Normalize NormalizeEq DecConfDefs NormProofs DecConfLib DecConfProofs DecConfCustomLib
  DecConfTypedObject.
Import ListNotations.
Open Scope Z_scope.

(** what ImportRequestPayload.TagDecodeTTLV looks at in an attribute *)
Definition attr_proj (x : value) : option (list Z * Z * Z) :=
  match x with
  | VStruct _ [VStr name; _; VIface (TScalar (KEnum r)) (VInt ot)] => Some (name, r, ot)
  | _ => None
  end.

Lemma iot_cons objtag x rest :
  import_object_type objtag (x :: rest) =
  match attr_proj x with
  | Some (name, r, ot) => if zlist_eqb_s name OBJECT_TYPE_NAME && (r =? objtag) then Some ot else import_object_type objtag rest
  | None => import_object_type objtag rest
  end.
Proof.
  destruct x as [| | | | | | |n fs| |]; try reflexivity.
  destruct fs as [|a [|b [|c [|? ?]]]]; try reflexivity.
  - destruct a; reflexivity.
  - destruct a; reflexivity.
  - destruct a; try reflexivity. destruct c as [| | | | | | | |dyn w|]; try reflexivity.
    destruct dyn as [k| | | |]; try reflexivity. destruct k; try reflexivity. destruct w; reflexivity.
  - destruct a; try reflexivity. destruct c as [| | | | | | | |dyn w|]; try reflexivity.
    destruct dyn as [k| | | |]; try reflexivity. destruct k; try reflexivity. destruct w; reflexivity.
Qed.

Lemma attr_proj_long n a b c e rest : attr_proj (VStruct n (a :: b :: c :: e :: rest)) = None.
Proof.
  destruct a; try reflexivity. destruct c as [| | | | | | | |dyn w|]; try reflexivity.
  destruct dyn as [k| | | |]; try reflexivity. destruct k; try reflexivity. destruct w; reflexivity.
Qed.

Section IR.
  Variable S : schema.
  Variables (OPS : op_table) (ATTRS : attr_table) (OBJS : obj_table).
  Context {R : Type}.
  Variable F : rawfmt R.
  Variable eok : relem R -> bool.
  Hypothesis HR : fmt_ranged F eok.
  Hypothesis HS : schema_ok S OPS ATTRS OBJS = true.

  Local Notation enc_ty := (enc_ty S).
  Local Notation norm_ty := (norm_ty S).
  Local Notation norm_list := (norm_list S).
  Local Notation norm_fields := (norm_fields S).
  Local Notation dec_ty := (dec_ty S OPS ATTRS OBJS F).
  Local Notation dec_opt := (dec_opt S OPS ATTRS OBJS F).
  Local Notation dec_object := (dec_object S OPS ATTRS OBJS F).
  Local Notation conf_ty := (conf_ty S OPS ATTRS OBJS).
  Local Notation c_ok := (c_ok eok).
  Local Notation Good := (Good S OPS ATTRS OBJS).
  Local Notation Rng := (Rng eok).
  Local Notation DQ := (DQ S OPS ATTRS OBJS F eok).
  Local Notation lib x := (x S OPS ATTRS OBJS _ F eok HR HS) (only parsing).

  Lemma norm_fields_pos g st fd fl' x vl' : pos_field fd = true -> f_omit fd = false ->
    norm_fields (Datatypes.S g) st (fd :: fl') (x :: vl') =
    (fst (norm_ty g st (f_ty fd) x) :: fst (norm_fields g (snd (norm_ty g st (f_ty fd) x)) fl' vl'),
     snd (norm_fields g (snd (norm_ty g st (f_ty fd) x)) fl' vl')).
  Proof.
    intros Hp Ho. destruct (lib pos_facts fd Hp) as (Ht0 & Hsv & Hr).
    rewrite norm_fields_eq. cbv zeta. rewrite Ht0, Hsv, Hr, Ho, version_in_none. reflexivity.
  Qed.

  (** normalisation of an Attribute keeps what the import decoder looks at *)
  Lemma attr_proj_norm da : find_tdef S "kmip.Attribute" = Some da -> attribute_ok S ATTRS da = true ->
    forall g st x, (5 <= g)%nat -> attr_proj (fst (norm_ty g st (TNamed "kmip.Attribute") x)) = attr_proj x.
  Proof.
    intros Ed Hok g st x Hg. unfold attribute_ok in Hok.
    destruct (t_fields da) as [|a0 [|a1 [|a2 [|? ?]]]] eqn:Hfl; try discriminate.
    rewrite !andb_true_iff in Hok.
    destruct Hok as ((((((((((((Hce & Hp0) & Hp1) & Hp2) & Ho0) & Ho1) & Ho2) & Ht0) & Ht1) & Hm2) & H12) & Hattrs) & Hval).
    apply negb_true_iff in Hce, Ho0, Ho1, Ho2. apply ty_eqb_eq in Ht0, Ht1.
    assert (Et2 : exists nm, f_ty a2 = TIface nm) by (destruct (f_ty a2); try discriminate; eauto). destruct Et2 as [nm Et2].
    destruct g as [|[|[|[|[|g]]]]]; try lia.
    rewrite norm_ty_eq.
    change (String.eqb "kmip.Attribute" "ttlv.Value") with false. change (String.eqb "kmip.Attribute" "ttlv.Struct") with false. cbv iota.
    rewrite Ed. destruct x as [| | | | | | |n' fs| |]; try reflexivity. rewrite Hce, Hfl. cbv zeta. cbn [fst].
    destruct fs as [|a [|b [|c [|e rest]]]].
    - rewrite norm_fields_eq. reflexivity.
    - rewrite (norm_fields_pos _ _ _ _ _ _ Hp0 Ho0). cbn [fst]. rewrite norm_fields_eq. cbn [fst].
      rewrite Ht0, norm_ty_eq. cbn [fst]. destruct a; reflexivity.
    - rewrite (norm_fields_pos _ _ _ _ _ _ Hp0 Ho0). cbn [fst]. rewrite (norm_fields_pos _ _ _ _ _ _ Hp1 Ho1). cbn [fst].
      rewrite norm_fields_eq. cbn [fst]. rewrite Ht0, norm_ty_eq. cbn [fst]. destruct a; reflexivity.
    - rewrite (norm_fields_pos _ _ _ _ _ _ Hp0 Ho0). cbn [fst snd]. rewrite (norm_fields_pos _ _ _ _ _ _ Hp1 Ho1). cbn [fst snd].
      rewrite (norm_fields_pos _ _ _ _ _ _ Hp2 Ho2). cbn [fst snd]. rewrite norm_fields_eq. cbn [fst].
      rewrite Ht0, norm_ty_eq. cbn [fst snd].
      destruct a; try reflexivity. rewrite Et2.
      match goal with |- context [norm_ty ?ff ?s (TIface nm) c] => generalize s end. intros s2.
      rewrite norm_ty_eq. destruct c as [| | | | | | | |dyn w|]; try reflexivity. cbn [fst].
      destruct dyn as [k| | | |]; try reflexivity. destruct g; reflexivity.
    - rewrite (norm_fields_pos _ _ _ _ _ _ Hp0 Ho0). cbn [fst snd]. rewrite (norm_fields_pos _ _ _ _ _ _ Hp1 Ho1). cbn [fst snd].
      rewrite (norm_fields_pos _ _ _ _ _ _ Hp2 Ho2). cbn [fst snd]. rewrite norm_fields_eq. cbn [fst].
      rewrite !attr_proj_long. reflexivity.
  Qed.
  Lemma iot_norm da objtag : find_tdef S "kmip.Attribute" = Some da -> attribute_ok S ATTRS da = true ->
    forall l g st, (List.length l + 6 <= g)%nat ->
      import_object_type objtag (fst (norm_list g st (TNamed "kmip.Attribute") l)) = import_object_type objtag l.
  Proof.
    intros Ed Hok. induction l as [|x r IH]; intros g st Hg; destruct g as [|g]; cbn [List.length] in Hg; try lia; rewrite norm_list_eq.
    - reflexivity.
    - cbv zeta. cbn [fst]. rewrite !iot_cons, (attr_proj_norm da Ed Hok) by lia. rewrite IH by lia. reflexivity.
  Qed.

  Lemma dc_import_request f : DQ f -> forall st d tag (c : cur R) v c' st',
    find_tdef S (t_name d) = Some d -> t_custom_dec d = true ->
    t_name d = "payloads.ImportRequestPayload"%string -> import_request_ok S ATTRS OBJS d = true ->
    dec_import_request S F (dec_ty f) (dec_opt f) (dec_object f) st d tag c = Ok (v, c', st') ->
    exists items, Good st (TNamed (t_name d)) tag v st' items /\ Rng c c' items.
  Proof.
    intros HQ st d tag c v c' st' Ed Hcd Hname Hok H.
    assert (EV : String.eqb (t_name d) "ttlv.Value" = false) by (rewrite Hname; reflexivity).
    assert (ES : String.eqb (t_name d) "ttlv.Struct" = false) by (rewrite Hname; reflexivity).
    unfold import_request_ok in Hok. destruct (t_fields d) as [|f0 [|f1 [|f2 [|f3 [|f4 [|? ?]]]]]] eqn:Hfl; try discriminate.
    destruct (find_tdef S "kmip.Attribute") as [da|] eqn:Eda; [|discriminate].
    rewrite !andb_true_iff in Hok.
    destruct Hok as ((((((((((((((Hda & Ht3) & Hce) & Hp0) & Hp1) & Hp2) & Hp3) & Ho0) & Ho1) & Ho2) & Ho3) & Hot4) & Hm4) & Htys) & Hdist).
    pose proof Hce as Hce'. apply negb_true_iff in Hce'. pose proof Ho0 as Ho0'. pose proof Ho3 as Ho3'. apply negb_true_iff in Ho0', Ho3'.
    pose proof (ty_eqb_eq _ _ Ht3) as Et3.
    assert (Hk : exists k0 k1 k2, f_ty f0 = TScalar k0 /\ f_ty f1 = TScalar k1 /\ f_ty f2 = TScalar k2 /\
                 enc_kind_ok k0 = true /\ omit_scalar_ok S (f_ty f1) = true /\ omit_scalar_ok S (f_ty f2) = true /\ elem_ok S (f_ty f3) = true).
    { destruct (f_ty f0) as [k0| | | |]; try discriminate. destruct (f_ty f1) as [k1| | | |] eqn:E1; try discriminate.
      destruct (f_ty f2) as [k2| | | |] eqn:E2; try discriminate. destruct (f_ty f3) as [| |t3| |]; try discriminate.
      rewrite !andb_true_iff in Htys. destruct Htys as (((A & B) & C) & D). exists k0, k1, k2. auto 10. }
    destruct Hk as (k0 & k1 & k2 & Et0 & Et1 & Et2 & Hk0 & Hos1 & Hos2 & Hel3).
    assert (Hel0 : elem_ok S (f_ty f0) = true) by (rewrite Et0; unfold elem_ok; cbn [ty_ok quiet_ty QN]; rewrite Hk0; reflexivity).
    assert (Hg0 : ftag d 0 = f_tag f0) by (unfold ftag, nth_field; rewrite Hfl; reflexivity).
    assert (Hg1 : ftag d 1 = f_tag f1) by (unfold ftag, nth_field; rewrite Hfl; reflexivity).
    assert (Hg2 : ftag d 2 = f_tag f2) by (unfold ftag, nth_field; rewrite Hfl; reflexivity).
    assert (Hg3 : ftag d 3 = f_tag f3) by (unfold ftag, nth_field; rewrite Hfl; reflexivity).
    assert (Hy0 : fty d 0 = f_ty f0) by (unfold fty, nth_field; rewrite Hfl; reflexivity).
    assert (Hy1 : fty d 1 = f_ty f1) by (unfold fty, nth_field; rewrite Hfl; reflexivity).
    assert (Hy2 : fty d 2 = f_ty f2) by (unfold fty, nth_field; rewrite Hfl; reflexivity).
    assert (Hy3 : fty d 3 = f_ty f3) by (unfold fty, nth_field; rewrite Hfl; reflexivity).
    unfold dec_import_request in H. rewrite Hg0, Hg1, Hg2, Hg3, Hy0, Hy1, Hy2, Hy3 in H.
    destruct (lib wrap_struct_inv _ _ _ _ _ _ _ H) as (sub & vals & c2 & Hb & -> & Hw). clear H.
    set (objtag := match find_tdef S "payloads.GetResponsePayload" with Some g => ftag g 0 | None => 0 end) in *.
    destruct (SchemaSem.dec_ty S OPS ATTRS OBJS F f st (f_ty f0) (f_tag f0) sub) as [[[x0 c_1] s_1]| | |] eqn:E0; cbn [bind fst snd] in Hb; try discriminate.
    destruct (lib elem_good _ _ _ _ _ _ _ _ HQ Hel0 E0) as (-> & i0 & G0 & R0).
    destruct (lib head_of_good _ _ _ _ Ho0' G0) as (x0' & Hd0 & (fc0 & Hc0)).
    destruct (SchemaSem.dec_opt S OPS ATTRS OBJS F f st (f_ty f1) (f_tag f1) c_1) as [[[x1 c_2] s_2]| | |] eqn:E1; cbn [bind fst snd] in Hb; try discriminate.
    destruct (lib dopt_omit_scalar _ _ _ _ _ _ _ _ Hos1 Ho1 eq_refl E1) as (-> & i1 & x1' & Hd1 & Hc1 & Hz1 & R1).
    destruct (SchemaSem.dec_opt S OPS ATTRS OBJS F f st (f_ty f2) (f_tag f2) c_2) as [[[x2 c_3] s_3]| | |] eqn:E2; cbn [bind fst snd] in Hb; try discriminate.
    destruct (lib dopt_omit_scalar _ _ _ _ _ _ _ _ Hos2 Ho2 eq_refl E2) as (-> & i2 & x2' & Hd2 & Hc2 & Hz2 & R2).
    destruct (SchemaSem.dec_ty S OPS ATTRS OBJS F f st (f_ty f3) (f_tag f3) c_3) as [[[x3 c_4] s_4]| | |] eqn:E3; cbn [bind fst snd] in Hb; try discriminate.
    destruct (lib elem_good _ _ _ _ _ _ _ _ HQ Hel3 E3) as (-> & i3 & G3 & R3).
    destruct (lib head_of_good _ _ _ _ Ho3' G3) as (x3' & Hd3 & (fc3 & Hc3)).
    destruct x3 as [| | | | | |l| | |]; try discriminate.
    destruct (import_object_type objtag l) as [otv|] eqn:Eot; [|discriminate].
    destruct (SchemaSem.dec_object S OPS ATTRS OBJS F f st otv c_4) as [[[ob c_5] s_5]| | |] eqn:Eo; cbn [bind fst snd] in Hb; try discriminate.
    destruct (lib object_good _ _ _ _ _ _ _ HQ Eo) as (-> & n & w & io & Hlo & -> & (w' & fo' & Ho) & Ro).
    injection Hb as <- <- <-.
    (* the normalised attributes name the same object type *)
    assert (Hx3 : exists l', x3' = VList l' /\ import_object_type objtag l' = Some otv).
    { destruct Hd3 as (fh & Hh). set (G := Nat.max fh (List.length l + 7)).
      destruct (Hh (Datatypes.S G) ltac:(lia)) as [_ Hn]. rewrite Ho3', Et3 in Hn. cbn [andb] in Hn. rewrite norm_ty_eq in Hn.
      injection Hn as Hn _. exists (fst (norm_list G st (TNamed "kmip.Attribute") l)). split; [symmetry; exact Hn|].
      rewrite (iot_norm da objtag Eda Hda) by lia. exact Eot. }
    destruct Hx3 as (l' & -> & Eot').
    assert (Hoen : exists f0', forall g, (f0' <= g)%nat ->
              enc_ty g st (TPtr (TNamed n)) (deftag_of S (TPtr (TNamed n))) (VPtr w) = Ok (io, st) /\ norm_ty g st (TPtr (TNamed n)) (VPtr w) = (VPtr w', st)).
    { exists fo'. intros g Hg. destruct (Ho g Hg) as (O1 & O2 & _). split; [exact O1 | exact O2]. }
    pose proof (lib tail_cons_pos _ _ _ _ _ _ _ _ _ _ Hp0 Hd0 (lib tail_cons_pos _ _ _ _ _ _ _ _ _ _ Hp1 Hd1
                  (lib tail_cons_pos _ _ _ _ _ _ _ _ _ _ Hp2 Hd2 (lib tail_cons_pos _ _ _ _ _ _ _ _ _ _ Hp3 Hd3
                  (lib tail_cons_obj _ _ _ _ _ _ _ _ _ _ _ Hot4 Hoen (lib tail_nil st)))))) as (ft & Htl).
    exists [IStruct tag (i0 ++ i1 ++ i2 ++ i3 ++ io ++ [])].
    split.
    - exists (VStruct (t_name d) [x0'; x1'; x2'; VList l'; VIface (TPtr (TNamed n)) (VPtr w')]),
             (Datatypes.S (Datatypes.S (Nat.max (Nat.max ft fo') (Nat.max fc0 fc3)))).
      intros g Hge. destruct g as [|[|g]]; try lia.
      destruct (Htl (Datatypes.S g) ltac:(lia)) as [T1 T2]. destruct (Ho (Datatypes.S g) ltac:(lia)) as (_ & _ & O3).
      rewrite enc_ty_eq, norm_ty_eq, conf_ty_eq, EV, ES, Ed, Hce', Hcd, Hfl, T1, T2, String.eqb_refl. cbn [bind fst snd negb andb].
      split; [reflexivity|]. split; [reflexivity|].
      unfold conf_custom_of. cbv zeta. rewrite Hname.
      change (String.eqb "payloads.ImportRequestPayload" "kmip.RequestBatchItem") with false.
      change (String.eqb "payloads.ImportRequestPayload" "kmip.ResponseBatchItem") with false.
      change (String.eqb "payloads.ImportRequestPayload" "kmip.Attribute") with false.
      change (String.eqb "payloads.ImportRequestPayload" "kmip.Credential") with false.
      change (String.eqb "payloads.ImportRequestPayload" "kmip.KeyBlock") with false.
      change (String.eqb "payloads.ImportRequestPayload" "payloads.GetResponsePayload") with false.
      change (String.eqb "payloads.ImportRequestPayload" "payloads.RegisterRequestPayload") with false.
      change (String.eqb "payloads.ImportRequestPayload" "payloads.ExportResponsePayload") with false.
      change (String.eqb "payloads.ImportRequestPayload" "payloads.ImportRequestPayload") with true. cbv iota.
      unfold conf_import_request. rewrite Hfl. fold objtag. rewrite Eot'.
      rewrite Hce, Hp0, Hp1, Hp2, Hp3, Ho0, Ho1, Ho2, Ho3, Hot4, Hm4.
      rewrite (keeps_of_conf _ _ _ _ _ (Hc0 (Datatypes.S g) ltac:(lia))), (keeps_of_conf _ _ _ _ _ (Hc1 (Datatypes.S g) ltac:(lia))),
              (keeps_of_conf _ _ _ _ _ (Hc2 (Datatypes.S g) ltac:(lia))), (keeps_of_conf _ _ _ _ _ (Hc3 (Datatypes.S g) ltac:(lia))), O3.
      unfold omit_zero in Hz1, Hz2. rewrite Hz1, Hz2.
      assert (Hd : tags_distinct [f_tag f0; f_tag f1; f_tag f2; f_tag f3; object_tag S (VIface (TPtr (TNamed n)) (VPtr w'))] = true).
      { destruct (lib lookup_obj_in _ _ Hlo) as [k Hin]. rewrite forallb_forall in Hdist. exact (Hdist _ Hin). }
      rewrite Hd, Et0, Et1, Et2, Et3. reflexivity.
    - intros Hc. destruct (Hw Hc) as (Hsub & Hc' & Ht). split; [exact Hc'|].
      destruct (R0 Hsub) as [Hc1' I0]. destruct (R1 Hc1') as [Hc2' I1]. destruct (R2 Hc2') as [Hc3' I2]. destruct (R3 Hc3') as [Hc4' I3]. destruct (Ro Hc4') as [_ Io].
      cbn [forallb item_ok]. unfold tag_rng in Ht. rewrite Ht. cbn [andb]. rewrite andb_true_r.
      rewrite !forallb_app, I0, I1, I2, I3, Io. reflexivity.
  Qed.
End IR.
