(** Non-vacuity of the round-trip theorem on the hand-written codecs together, at the schema
    regenerated from /repo: values with key blocks, attributes, credentials and a whole
    request message conform ([conf_ty] = Some _) and come back from encode -> binary ->
    decode (vm_compute). *)
From Coq Require Import ZArith List Bool String.
From KV Require Import Base Wire Cursor BinCursorProofs Schema SchemaSem FaithfulProofs Roundtrip KmipCodec
  RtCredential RtKeyBlock RtAttribute RtResponseItem RtTypedObject RtImportRequest.
From KVGen Require Import KmipSchema.
Import ListNotations.
Open Scope Z_scope.

Definition ex_attr_object_group : value :=
  VStruct "kmip.Attribute" [VStr [79; 98; 106; 101; 99; 116; 32; 71; 114; 111; 117; 112]; VPtr (VInt 0); VIface (TScalar KString) (VStr [103; 49])].
Definition ex_symmetric_key : value :=
  VIface (TPtr (TNamed "kmip.SymmetricKey")) (VPtr (VStruct "kmip.SymmetricKey" [VStruct "kmip.KeyBlock"
    [VInt 7; VInt 0; VPtr (VStruct "kmip.KeyValue" [VNil; VPtr (VStruct "kmip.PlainKeyValue"
       [VStruct "kmip.KeyMaterial" [VNil; VPtr (VStruct "kmip.TransparentSymmetricKey" [VStr [1; 2; 3; 4]]); VNil; VNil; VNil; VNil; VNil; VNil];
        VList [ex_attr_object_group]])]); VInt 3; VInt 32; VNil]])).

Definition ex_get_response_key : value :=
  VStruct "payloads.GetResponsePayload" [VInt 2; VStr [105; 100; 45; 49]; ex_symmetric_key].
Example rt_get_response_example_key :
  (exists sc, conf_ty kmip_schema kmip_ops kmip_attrs kmip_objs 40 (Some (1, 4)) (TNamed "payloads.GetResponsePayload") 4325500 ex_get_response_key = Some sc) /\
  ex_roundtrip (Some (1, 4)) "payloads.GetResponsePayload" 4325500 ex_get_response_key = Ok true.
Proof. split; [eexists; vm_compute; reflexivity | vm_compute; reflexivity]. Qed.

Definition ex_register_request_key : value :=
  VStruct "payloads.RegisterRequestPayload"
    [VInt 2; VStruct "kmip.TemplateAttribute" [VList [VStruct "kmip.Name" [VStr [107; 49]; VInt 1]]; VList [ex_attr_object_group]]; ex_symmetric_key].
Example rt_register_request_example_key :
  (exists sc, conf_ty kmip_schema kmip_ops kmip_attrs kmip_objs 40 (Some (1, 4)) (TNamed "payloads.RegisterRequestPayload") 4325497 ex_register_request_key = Some sc) /\
  ex_roundtrip (Some (1, 4)) "payloads.RegisterRequestPayload" 4325497 ex_register_request_key = Ok true.
Proof. split; [eexists; vm_compute; reflexivity | vm_compute; reflexivity]. Qed.

Definition ex_export_response_key : value :=
  VStruct "payloads.ExportResponsePayload" [VInt 2; VStr [105; 100; 45; 49]; VList [ex_attr_object_group]; ex_symmetric_key].
Example rt_export_response_example_key :
  (exists sc, conf_ty kmip_schema kmip_ops kmip_attrs kmip_objs 40 (Some (1, 4)) (TNamed "payloads.ExportResponsePayload") 4325500 ex_export_response_key = Some sc) /\
  ex_roundtrip (Some (1, 4)) "payloads.ExportResponsePayload" 4325500 ex_export_response_key = Ok true.
Proof. split; [eexists; vm_compute; reflexivity | vm_compute; reflexivity]. Qed.

Example rt_import_request_example_full :
  exists sc, conf_ty kmip_schema kmip_ops kmip_attrs kmip_objs 40 (Some (1, 4))
               (TNamed "payloads.ImportRequestPayload") 4325497 ex_import_request = Some sc.
Proof. eexists; vm_compute; reflexivity. Qed.

Definition ex_import_request_key : value :=
  VStruct "payloads.ImportRequestPayload"
    [VStr [105; 100; 45; 49]; VBool true; VInt 2; VList [ex_attr_object_group; ex_attr_object_type 2]; ex_symmetric_key].
Example rt_import_request_example_key :
  exists sc, conf_ty kmip_schema kmip_ops kmip_attrs kmip_objs 40 (Some (1, 4))
               (TNamed "payloads.ImportRequestPayload") 4325497 ex_import_request_key = Some sc.
Proof. eexists; vm_compute; reflexivity. Qed.

(** a whole request message: header with a credential, one Import batch item carrying a
    symmetric key with attributes, and a message extension *)
Definition ex_message : value :=
  VStruct "kmip.RequestMessage"
    [VStruct "kmip.RequestHeader" [VStruct "kmip.ProtocolVersion" [VInt 1; VInt 4]; VInt 1024; VStr [99; 118]; VStr [];
       VPtr (VBool true); VNil; VList [VInt 1; VInt 2];
       VPtr (VStruct "kmip.Authentication" [ex_cred_password; VList [ex_cred_device]]);
       VInt 2; VNil; VPtr (VInt 1700000000); VInt 1];
     VList [VStruct "kmip.RequestBatchItem"
       [VInt 42; VStr [7]; VIface (TPtr (TNamed "payloads.ImportRequestPayload")) (VPtr ex_import_request_key);
        VPtr (VStruct "kmip.MessageExtension" [VStr [118]; VBool true; VList [VTree (IInt 5 6)]])]]].

Example ex_message_roundtrip :
  (exists sc, conf_ty kmip_schema kmip_ops kmip_attrs kmip_objs 60 None (TNamed "kmip.RequestMessage") 4325496 ex_message = Some sc) /\
  (do b <- kmip_marshal "kmip.RequestMessage" ex_message ;; do v <- kmip_unmarshal "kmip.RequestMessage" b ;; Ok (value_eqb v ex_message)) = Ok true.
Proof. split; [eexists; vm_compute; reflexivity | vm_compute; reflexivity]. Qed.
