(** Re-encoding an accepted input reaches a fixed point (C18): what the binary generic-tree
    decoder returns for ANY byte string it accepts satisfies the encoder's preconditions and
    is read back from its own encoding. *)
From Coq Require Import ZArith List Bool Lia.
From KV Require Import Base BaseProofs Wire WireProofs Cursor CursorProofs ReaderProofs BinCursorProofs FaithfulProofs RoundtripProofs.
Import ListNotations.
Open Scope Z_scope.

(** what validate() guarantees of every raw element of the binary forest *)
Fixpoint relem_wf (e : relem (list Z)) : bool :=
  match e with
  | RE tag ty raw kids _ =>
    (0 <=? tag) && (tag <? 2 ^ 24) && (1 <=? ty) && (ty <=? 10) && bytes_ok raw && bin_width_ok ty (len raw) &&
    forallb relem_wf kids
  end.

Lemma unbe_take3_range bs : bytes_ok bs = true -> 0 <= unbe (take 3 bs) < 2 ^ 24.
Proof.
  intros Hb. pose proof (unbe_bound (take 3 bs) (bytes_ok_take 3 bs Hb)) as H.
  assert (len (take 3 bs) <= 3).
  { unfold len, take. rewrite firstn_length. lia. }
  assert (256 ^ len (take 3 bs) <= 256 ^ 3) by (apply Z.pow_le_mono_r; [lia | assumption]).
  change (256 ^ 3) with (2 ^ 24) in *. lia.
Qed.

Lemma nth_byte_range (bs : list Z) n : bytes_ok bs = true -> 0 <= nth n bs 0 < 256.
Proof.
  intros Hb. destruct (nth_in_or_default n bs 0) as [Hin|Hd]; [|rewrite Hd; lia].
  unfold bytes_ok in Hb. rewrite forallb_forall in Hb. specialize (Hb _ Hin). unfold byte_ok in Hb.
  apply andb_true_iff in Hb. destruct Hb as [H0 H1]. apply Z.leb_le in H0. apply Z.ltb_lt in H1. lia.
Qed.

Lemma bin_forest_wf fuel : forall bs, bytes_ok bs = true -> forallb relem_wf (fst (bin_forest fuel bs)) = true.
Proof.
  induction fuel as [|f IH]; intros bs Hb; cbn [bin_forest]; [reflexivity|].
  destruct bs as [|b0 bs'] eqn:E; [reflexivity|]. rewrite <- E in *.
  destruct (bin_head_ok bs) eqn:Hh; cbn [negb]; [|reflexivity].
  cbn [fst forallb relem_wf].
  pose proof (bin_head_ok_facts bs Hh) as [H8 Hpl].
  set (l := unbe (take 4 (drop 4 bs))) in *.
  assert (Hl0 : 0 <= l) by (apply unbe_nonneg, bytes_ok_take, bytes_ok_drop, Hb).
  pose proof (pad8_range l) as Hp.
  pose proof (unbe_take3_range bs Hb) as Htag.
  unfold bin_head_ok in Hh. fold l in Hh.
  destruct (Z.ltb_spec (len bs) 8); [discriminate|].
  destruct (Z.ltb_spec (len bs - 8) (l + pad8 l)); [discriminate|].
  destruct (Z.ltb_spec 10 (nth 3 bs 0)); cbn [orb] in Hh; [discriminate|].
  destruct (Z.eqb_spec (nth 3 bs 0) 0); [discriminate|].
  pose proof (nth_byte_range bs 3 Hb) as Hty.
  assert (Hlen : len (take l (drop 8 bs)) = l) by (rewrite len_take; [reflexivity | rewrite len_drop by lia; lia]).
  rewrite Hlen, Hh.
  rewrite (bytes_ok_take l _ (bytes_ok_drop 8 _ Hb)).
  destruct (Z.leb_spec 0 (unbe (take 3 bs))); [|lia]. destruct (Z.ltb_spec (unbe (take 3 bs)) (2 ^ 24)); [|lia].
  destruct (Z.leb_spec 1 (nth 3 bs 0)); [|lia]. destruct (Z.leb_spec (nth 3 bs 0) 10); [|lia].
  cbn [andb]. rewrite IH by (apply bytes_ok_drop, Hb). rewrite andb_true_r.
  destruct (nth 3 bs 0 =? T_STRUCT); [apply IH; apply bytes_ok_take, bytes_ok_drop, Hb | reflexivity].
Qed.

Lemma to_i32_range v : in_i32 (to_i32 v) = true.
Proof.
  unfold to_i32, in_i32. pose proof (Z.mod_pos_bound v (2 ^ 32) ltac:(lia)) as H.
  change (2 ^ 32) with 4294967296 in *. change (2 ^ 31) with 2147483648 in *.
  destruct (Z.ltb_spec (v mod 4294967296) 2147483648); apply andb_true_iff; split; try apply Z.leb_le; try apply Z.ltb_lt; lia.
Qed.
Lemma to_i64_range v : in_i64 (to_i64 v) = true.
Proof.
  unfold to_i64, in_i64. pose proof (Z.mod_pos_bound v (2 ^ 64) ltac:(lia)) as H.
  change (2 ^ 64) with 18446744073709551616 in *. change (2 ^ 63) with 9223372036854775808 in *.
  destruct (Z.ltb_spec (v mod 18446744073709551616) 9223372036854775808); apply andb_true_iff; split; try apply Z.leb_le; try apply Z.ltb_lt; lia.
Qed.
Lemma unbe4_u32 raw : bytes_ok raw = true -> len raw = 4 -> in_u32 (unbe raw) = true.
Proof.
  intros Hb Hl. pose proof (unbe_bound raw Hb) as H. rewrite Hl in H. change (256 ^ 4) with (2 ^ 32) in H.
  unfold in_u32. apply andb_true_iff. split; [apply Z.leb_le | apply Z.ltb_lt]; lia.
Qed.

(** the decoder's output is something the encoder accepts, and tree-shaped *)
Definition out_ok (i : item) : Prop := item_ok i = true /\ tree_shaped i = true.

Lemma tag_ok_b tag : 0 <= tag < 2 ^ 24 -> (0 <=? tag) && (tag <? 2 ^ 24) = true.
Proof. intros H. apply andb_true_iff. split; [apply Z.leb_le | apply Z.ltb_lt]; lia. Qed.

Lemma c_open_wf (l : list (relem (list Z))) b c : c_open l b = Ok c -> forallb relem_wf l = true -> forallb relem_wf (fst c) = true.
Proof. destruct l; cbn [c_open]; [destruct b; [discriminate|]; intros H; injection H as <-; reflexivity | intros H; injection H as <-; auto]. Qed.

Lemma c_next_wf (c c' : cur (list Z)) : c_next c = Ok c' -> forallb relem_wf (fst c) = true -> forallb relem_wf (fst c') = true.
Proof.
  destruct c as [[|e rest] b]; cbn [c_next fst snd]; [discriminate|]. intros H Hw. cbn [forallb] in Hw.
  apply andb_true_iff in Hw. destruct Hw as [_ Hw]. eapply c_open_wf; eassumption.
Qed.

Lemma dec_value_out fuel :
  (forall tag (c : cur (list Z)) i c', forallb relem_wf (fst c) = true -> 0 <= tag < 2 ^ 24 ->
     dec_value bin_fmt fuel tag c = Ok (i, c') -> out_ok i /\ itag i = tag /\ forallb relem_wf (fst c') = true) /\
  (forall (c : cur (list Z)) l c', forallb relem_wf (fst c) = true ->
     dec_fields bin_fmt fuel c = Ok (l, c') ->
     Forall out_ok l /\ forallb (fun k => negb (itag k =? 0)) l = true /\ forallb relem_wf (fst c') = true).
Proof.
  induction fuel as [|f [IHv IHf]]; [split; intros; discriminate|].
  split.
  - intros tag c i c' Hw Htag H. cbn [dec_value] in H.
    assert (Hsc : forall A (ty : Z) (parse : list Z -> res A) (mk : A -> item) r,
              c_scalar ty parse tag c = Ok r ->
              exists raw kids kb rest, fst c = RE tag ty raw kids kb :: rest /\ parse raw = Ok (fst r) /\ c_next c = Ok (snd r)).
    { intros A ty parse mk r Hr. unfold c_scalar, c_expect in Hr. destruct c as [[|[t y raw kids kb] rest] b]; cbn [fst bind] in Hr; [discriminate|].
      destruct (Z.eqb_spec t tag); cbn [negb] in Hr; [|discriminate]. destruct (Z.eqb_spec y ty); cbn [negb bind] in Hr; [|discriminate].
      destruct (parse raw) eqn:Ep; cbn [bind] in Hr; try discriminate. destruct (c_next _) eqn:En; cbn [bind] in Hr; try discriminate.
      injection Hr as <-. subst. cbn [fst snd]. eauto 10. }
    unfold c_integer, c_long, c_big, c_enum, c_bool, c_text, c_bytes, c_date, c_intv in H.
    repeat match type of H with (if ?b then _ else _) = _ => destruct b eqn:? end; try discriminate;
      try (match type of H with bind ?x _ = _ => destruct x as [r| | |] eqn:Er; cbn [bind] in H; try discriminate end;
           injection H as <- <-;
           destruct (Hsc _ _ _ (fun _ => IInt 0 0) _ Er) as (raw & kids & kb & rest & Ec & Ep & En);
           assert (Hwe : relem_wf (RE tag _ raw kids kb) = true) by (rewrite Ec in Hw; cbn [forallb] in Hw; apply andb_true_iff in Hw; apply Hw);
           cbn [relem_wf] in Hwe; rewrite !andb_true_iff in Hwe; destruct Hwe as ((((((_ & _) & _) & _) & Hraw) & Hwid) & _);
           cbn [p_int p_long p_big p_enum p_bool p_text p_bytes p_date p_intv bin_fmt] in Ep; injection Ep as Ep;
           split; [split; [cbn [item_ok]; rewrite tag_ok_b by assumption; cbn [andb]; try rewrite <- Ep;
                           first [apply to_i32_range | apply to_i64_range | reflexivity | exact Hraw
                                 | apply unbe4_u32; [exact Hraw | unfold bin_width_ok, T_INT, T_ENUM, T_INTV, T_LONG, T_BOOL, T_DATE, T_BIG in Hwid; cbn in Hwid; apply Z.eqb_eq; exact Hwid]]
                          | reflexivity]
                 | split; [reflexivity | eapply c_next_wf; eassumption]]).
    (* structure *)
    match type of H with bind ?x _ = _ => destruct x as [r| | |] eqn:Er; cbn [bind] in H; try discriminate end.
    injection H as <- <-. unfold c_struct, c_expect in Er.
    destruct c as [[|[t y raw kids kb] rest] b]; cbn [fst bind] in Er; [discriminate|].
    destruct (Z.eqb_spec t tag); cbn [negb] in Er; [|discriminate]. destruct (Z.eqb_spec y T_STRUCT); cbn [negb bind] in Er; [|discriminate].
    destruct (c_open kids kb) as [sub| | |] eqn:Eo; cbn [bind] in Er; try discriminate.
    match type of Er with bind ?x _ = _ => destruct x as [[l cs]| | |] eqn:Ef; cbn [bind fst snd] in Er; try discriminate end.
    cbn [strict_close bin_fmt andb] in Er. destruct (c_next _) as [cn| | |] eqn:En; cbn [bind] in Er; try discriminate.
    injection Er as <-. cbn [fst snd].
    pose proof Hw as Hw0.
    cbn [fst forallb relem_wf] in Hw. rewrite !andb_true_iff in Hw. destruct Hw as ((_ & Hkids) & Hrest).
    destruct (IHf sub l cs (c_open_wf _ _ _ Eo Hkids) Ef) as (Hall & Htags & _).
    split; [split|].
    + change (item_ok (IStruct tag l)) with ((0 <=? tag) && (tag <? 2 ^ 24) && forallb item_ok l).
      rewrite tag_ok_b by assumption. cbn [andb]. apply forallb_forall. rewrite Forall_forall in Hall.
      intros x Hx. apply (Hall x Hx).
    + change (tree_shaped (IStruct tag l)) with (forallb tree_shaped l && forallb (fun k => negb (itag k =? 0)) l).
      rewrite Htags, andb_true_r. apply forallb_forall. rewrite Forall_forall in Hall.
      intros x Hx. apply (Hall x Hx).
    + split; [reflexivity|]. eapply c_next_wf; [exact En | exact Hw0].
  - intros c l c' Hw H. cbn [dec_fields] in H.
    destruct (Z.eqb_spec (c_tag c) 0) as [E0|Hne].
    + injection H as <- <-. repeat split; [constructor | exact Hw].
    + match type of H with bind ?x _ = _ => destruct x as [[i ci]| | |] eqn:Ev; cbn [bind fst snd] in H; try discriminate end.
      match type of H with bind ?x _ = _ => destruct x as [[l' cl]| | |] eqn:El; cbn [bind fst snd] in H; try discriminate end.
      injection H as <- <-.
      assert (Htag : 0 <= c_tag c < 2 ^ 24).
      { destruct c as [[|[t y raw kids kb] rest] b]; cbn [c_tag fst] in *; [lia|].
        cbn [forallb relem_wf] in Hw. rewrite !andb_true_iff in Hw. destruct Hw as (((((((H0 & H1) & _) & _) & _) & _) & _) & _).
        apply Z.leb_le in H0. apply Z.ltb_lt in H1. lia. }
      destruct (IHv _ _ _ _ Hw Htag Ev) as (Hi & Hit & Hwi).
      destruct (IHf _ _ _ Hwi El) as (Hl & Htl & Hwl).
      split; [constructor; assumption|]. split; [|exact Hwl].
      cbn [forallb]. rewrite Htl, andb_true_r. rewrite Hit. apply negb_true_iff. apply Z.eqb_neq. exact Hne.
Qed.

Lemma item_size_bytes i : (8 * item_size i <= length (wire_enc i))%nat.
Proof.
  induction i as [tag kids IH|tag v|tag v|tag v|tag r v|tag b|tag s|tag s|tag v|tag v|tag r v] using item_ind';
    try (cbn [item_size]; pose proof (wire_enc_length_pos (IInt 0 0)); 
         match goal with |- (8 * 1 <= length (wire_enc ?x))%nat => pose proof (wire_enc_length_pos x); lia end).
  cbn [item_size wire_enc]. rewrite app_length. unfold hdr. rewrite !app_length, !be_length. cbn [length].
  assert (H : (8 * fold_right (fun k n => item_size k + n) 0 kids <= length (flat_map wire_enc kids))%nat).
  { induction IH as [|k ks Hk _ IHks]; cbn [fold_right flat_map]; [lia|]. rewrite app_length. lia. }
  lia.
Qed.

(** C18, generic trees in binary: whatever byte string the decoder accepts, the decoded tree
    is accepted by the encoder, its encoding decodes to the same tree, and re-encoding that
    gives the identical bytes (the first re-encoding is already the fixed point). *)
Theorem value_fixed_point bs i :
  bytes_ok bs = true -> unmarshal_value bs = Ok i -> item_small i = true ->
  item_ok i = true /\ enc_panics i = false /\
  unmarshal_value (wire_enc i) = Ok i.
Proof.
  intros Hb Hu Hsm. unfold unmarshal_value in Hu.
  destruct (bin_cursor bs) as [c| | |] eqn:Ec; cbn [bind] in Hu; try discriminate.
  destruct (dec_value bin_fmt _ (c_tag c) c) as [[i0 c0]| | |] eqn:Ed; cbn [bind fst] in Hu; try discriminate.
  injection Hu as ->.
  assert (Hwf : forallb relem_wf (fst c) = true).
  { unfold bin_cursor in Ec. eapply c_open_wf; [exact Ec | apply bin_forest_wf, Hb]. }
  assert (Htag : 0 <= c_tag c < 2 ^ 24).
  { destruct c as [[|[t y raw kids kb] rest] b]; cbn [c_tag fst] in *; [lia|].
    cbn [forallb relem_wf] in Hwf. rewrite !andb_true_iff in Hwf. destruct Hwf as (((((((H0 & H1) & _) & _) & _) & _) & _) & _).
    apply Z.leb_le in H0. apply Z.ltb_lt in H1. lia. }
  destruct (dec_value_out (Datatypes.S (Datatypes.S (length bs)))) as [Hv _].
  destruct (Hv _ _ _ _ Hwf Htag Ed) as ((Hok & Hsh) & Hit & _).
  split; [exact Hok|]. split.
  { (* intervals read from 4 bytes are never negative *)
    clear - Hok. induction i as [tag kids IH|tag v|tag v|tag v|tag r v|tag b|tag s|tag s|tag v|tag v|tag r v] using item_ind'; try reflexivity.
    - cbn [enc_panics]. cbn [item_ok] in Hok. apply andb_true_iff in Hok. destruct Hok as [_ Hk].
      induction IH as [|k ks Hk' _ IHks]; [reflexivity|]. cbn [forallb] in Hk. apply andb_true_iff in Hk. destruct Hk as [H1 H2].
      cbn [existsb]. rewrite (Hk' H1), (IHks H2). reflexivity.
    - cbn [enc_panics]. cbn [item_ok] in Hok. apply andb_true_iff in Hok. destruct Hok as [_ Hv]. apply in_u32_range in Hv.
      destruct (Z.ltb_spec v 0); [lia | reflexivity]. }
  destruct (bin_faithful [i]) as (forest & Hcur & Hf).
  { cbn [forallb]. rewrite Hok. reflexivity. } { cbn [forallb]. rewrite Hsm. reflexivity. }
  unfold wire_enc_list in Hcur. cbn [flat_map] in Hcur. rewrite app_nil_r in Hcur.
  unfold unmarshal_value. rewrite Hcur. cbn [bind].
  apply faithful_one_inv in Hf. destruct Hf as (e & -> & He1).
  rewrite (faithful1_tag bin_fmt _ _ _ _ He1).
  destruct (dec_value_faithful bin_fmt (Datatypes.S (Datatypes.S (length (wire_enc i))))) as [Hrd _].
  rewrite (Hrd i e [] Hsh He1). { reflexivity. }
  pose proof (item_size_bytes i). lia.
Qed.
