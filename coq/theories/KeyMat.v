(** C14 — key material through registration, transport and extraction.

    Three stages.
    - Build: the Register builders of kmipclient/register.go as pure functions
      (key, KeyFormat selector bits, negotiated version) -> Register request payload.
    - Transport: the wire.  Not modelled here (C01/C04); theorems take it as a Section
      hypothesis on [wire_stable] objects; the correspondence run uses the real codecs.
    - Extract: the accessors of objects.go and the payloads/get.go wrappers, every Go pointer
      dereference / slice index being an explicit [Panic] point.

    Go's crypto packages (x509 marshal/parse, elliptic Marshal/Unmarshal, ScalarBaseMult,
    rsa Precompute, pem) are fields of a record [crypto] over which everything is
    parametrised; theorems assume the inverse laws [crypto_laws].

    No proofs in this file (KeyMatProofs.v). *)
From Coq Require Import ZArith List Bool.
From KV Require Import Base Cases.
Import ListNotations.
Open Scope Z_scope.

Definition bytes := list Z.

(** * Go side: keys *)

(** elliptic.Curve values the code distinguishes (anything else: [OtherCurve]). *)
Inductive gocurve := P224 | P256 | P384 | P521 | OtherCurve.

(** rsa.PublicKey{N, E} *)
Record rsa_pub := mk_rsa_pub { rp_n : Z; rp_e : Z }.

(** rsa.PrivateKey{PublicKey{N,E}, D, Primes []*big.Int, Precomputed{Dp,Dq,Qinv}}.
    Elements of Primes and the precomputed values are pointers that may be nil. *)
Record rsa_priv := mk_rsa_priv {
  rk_n : Z; rk_e : Z; rk_d : Z;
  rk_primes : list (option Z);
  rk_dp : option Z; rk_dq : option Z; rk_qinv : option Z }.

(** ecdsa.PublicKey{Curve, X, Y} / ecdsa.PrivateKey{PublicKey, D} *)
Record ec_pub := mk_ec_pub { ep_curve : gocurve; ep_x : Z; ep_y : Z }.
Record ec_priv := mk_ec_priv { ek_curve : gocurve; ek_d : Z; ek_x : Z; ek_y : Z }.

(** crypto.PublicKey / crypto.PrivateKey as returned by x509.ParsePKIXPublicKey /
    x509.ParsePKCS8PrivateKey: RSA, ECDSA, or some other algorithm (ed25519, ecdh...). *)
Inductive pub_key := PubRsa (k : rsa_pub) | PubEc (k : ec_pub) | PubOther.
Inductive priv_key := PrivRsa (k : rsa_priv) | PrivEc (k : ec_priv) | PrivOther.

(** The part of an RSA private key that rsa.PrivateKey.Equal compares. *)
Definition rsa_core (k : rsa_priv) : Z * Z * Z * list (option Z) :=
  (rk_n k, rk_e k, rk_d k, rk_primes k).

(** * Go crypto as parameters *)
Record crypto := mk_crypto {
  marshal_pkcs1_priv : rsa_priv -> bytes;                 (* x509.MarshalPKCS1PrivateKey *)
  parse_pkcs1_priv : bytes -> option rsa_priv;            (* x509.ParsePKCS1PrivateKey *)
  marshal_pkcs1_pub : rsa_pub -> bytes;                   (* x509.MarshalPKCS1PublicKey *)
  parse_pkcs1_pub : bytes -> option rsa_pub;              (* x509.ParsePKCS1PublicKey *)
  marshal_pkcs8 : priv_key -> res bytes;                  (* x509.MarshalPKCS8PrivateKey; it panics
                                                             (big.Int.FillBytes) on an EC scalar wider than the curve *)
  parse_pkcs8 : bytes -> option priv_key;                 (* x509.ParsePKCS8PrivateKey *)
  marshal_pkix : pub_key -> option bytes;                 (* x509.MarshalPKIXPublicKey *)
  parse_pkix : bytes -> option pub_key;                   (* x509.ParsePKIXPublicKey *)
  marshal_sec1 : ec_priv -> option bytes;                 (* x509.MarshalECPrivateKey *)
  parse_sec1 : bytes -> option ec_priv;                   (* x509.ParseECPrivateKey *)
  ec_marshal : gocurve -> Z -> Z -> option bytes;         (* elliptic.Marshal; None: it panics (point not on curve) *)
  ec_unmarshal : gocurve -> bytes -> option (Z * Z);      (* elliptic.Unmarshal; None: X == nil *)
  ec_unmarshal_compressed : gocurve -> bytes -> option (Z * Z);  (* elliptic.UnmarshalCompressed *)
  scalar_base_mult : gocurve -> Z -> Z * Z;               (* curve.ScalarBaseMult(|D| as bytes) *)
  curve_order : gocurve -> Z;                             (* curve.Params().N *)
  precompute : rsa_priv -> rsa_priv;                      (* rsa.PrivateKey.Precompute (in place) *)
  pem_encode : bytes -> bytes -> bytes;                   (* pem.EncodeToMemory(&pem.Block{Type, Bytes}) *)
  parse_cert : bytes -> option bytes                      (* x509.ParseCertificate, projected to cert.Raw *)
}.

(** * KMIP constants (enums.go, kmipclient/register.go) *)
Definition KFT_Raw := 1.            Definition KFT_Opaque := 2.
Definition KFT_PKCS1 := 3.          Definition KFT_PKCS8 := 4.
Definition KFT_X509 := 5.           Definition KFT_ECPrivateKey := 6.
Definition KFT_TSymmetricKey := 7.
Definition KFT_TRSAPrivateKey := 10. Definition KFT_TRSAPublicKey := 11.
Definition KFT_TECDSAPrivateKey := 14. Definition KFT_TECDSAPublicKey := 15.
Definition KFT_TECPrivateKey := 20. Definition KFT_TECPublicKey := 21.

Definition OT_Certificate := 1.  Definition OT_SymmetricKey := 2. Definition OT_PublicKey := 3.
Definition OT_PrivateKey := 4.   Definition OT_SplitKey := 5.     Definition OT_Template := 6.
Definition OT_SecretData := 7.   Definition OT_OpaqueObject := 8. Definition OT_PGPKey := 9.

Definition ALG_RSA := 4. Definition ALG_ECDSA := 6.
Definition RC_P224 := 4. Definition RC_P256 := 7. Definition RC_P384 := 10. Definition RC_P521 := 13.
Definition KCT_Uncompressed := 1. Definition KCT_CompressedPrime := 2.
Definition CT_X509 := 1.

(** kmipclient.KeyFormat bits *)
Definition KF_Transparent := 1. Definition KF_X509 := 2. Definition KF_PKCS8 := 4.
Definition KF_PKCS1 := 8.       Definition KF_SEC1 := 16. Definition KF_RAW := 32.

Definition max_i32 : Z := 2 ^ 31 - 1.

(** * KMIP objects (objects.go); every Go pointer is an [option] *)

(** TransparentRSAPrivateKey: Modulus is a value, the other seven are *big.Int *)
Record t_rsa_priv := mk_t_rsa_priv {
  tr_mod : Z; tr_d : option Z; tr_e : option Z; tr_p : option Z; tr_q : option Z;
  tr_dp : option Z; tr_dq : option Z; tr_qinv : option Z }.

(** KeyMaterial: eight pointer slots *)
Record key_material := mk_km {
  km_bytes : option bytes;
  km_sym : option bytes;                 (* TransparentSymmetricKey{Key} *)
  km_rsa_priv : option t_rsa_priv;
  km_rsa_pub : option (Z * Z);           (* TransparentRSAPublicKey{Modulus, PublicExponent} *)
  km_ecdsa_priv : option (Z * Z);        (* TransparentECDSAPrivateKey{RecommendedCurve, D} *)
  km_ecdsa_pub : option (Z * bytes);     (* TransparentECDSAPublicKey{RecommendedCurve, QString} *)
  km_ec_priv : option (Z * Z);           (* TransparentECPrivateKey *)
  km_ec_pub : option (Z * bytes) }.      (* TransparentECPublicKey *)

Definition km_empty : key_material := mk_km None None None None None None None None.

(** PlainKeyValue{KeyMaterial, Attribute}; attributes are opaque identifiers here *)
Record plain_key_value := mk_pkv { pk_material : key_material; pk_attrs : list Z }.
(** KeyValue{Wrapped *[]byte, Plain *PlainKeyValue} *)
Record key_value := mk_kv { kv_wrapped : option bytes; kv_plain : option plain_key_value }.
(** KeyBlock; [kb_wrapping]: KeyWrappingData != nil *)
Record key_block := mk_kb {
  kb_format : Z; kb_compression : Z; kb_value : option key_value;
  kb_alg : Z; kb_len : Z; kb_wrapping : bool }.

Inductive object :=
| OSecretData (sdt : Z) (kb : key_block)
| OCertificate (ct : Z) (v : bytes)
| OSymmetricKey (kb : key_block)
| OPublicKey (kb : key_block)
| OPrivateKey (kb : key_block)
| OSplitKey (kb : key_block)
| OOpaque (v : bytes)
| OTemplate
| OPGPKey (kb : key_block).

(** Object.ObjectType() *)
Definition object_type (o : object) : Z :=
  match o with
  | OSecretData _ _ => OT_SecretData | OCertificate _ _ => OT_Certificate
  | OSymmetricKey _ => OT_SymmetricKey | OPublicKey _ => OT_PublicKey
  | OPrivateKey _ => OT_PrivateKey | OSplitKey _ => OT_SplitKey
  | OOpaque _ => OT_OpaqueObject | OTemplate => OT_Template | OPGPKey _ => OT_PGPKey
  end.

(** payloads.RegisterRequestPayload{ObjectType, TemplateAttribute, Object}: the only attribute
    the builders add is the Cryptographic Usage Mask. *)
Record reg_req := mk_req { rq_type : Z; rq_obj : object; rq_usage : option Z }.

(** payloads.GetResponsePayload{ObjectType, UniqueIdentifier, Object}; Object is an interface
    (nil = None; a non-nil interface holds a non-nil pointer, as the decoder produces). *)
Record get_resp := mk_get { gr_type : Z; gr_obj : option object }.

(** * Stage 1: Build (kmipclient/register.go) *)

Definition has (kf b : Z) : bool := Z.land kf b =? b.

(** KeyFormat.rsaPubFormat *)
Definition rsa_pub_format (kf : Z) : Z :=
  if (kf =? 0) || has kf KF_PKCS1 then KF_PKCS1
  else if has kf KF_X509 then KF_X509
  else if has kf KF_Transparent then KF_Transparent
  else KF_PKCS1.

(** KeyFormat.rsaPrivFormat *)
Definition rsa_priv_format (kf : Z) : Z :=
  if (kf =? 0) || has kf KF_PKCS1 then KF_PKCS1
  else if has kf KF_PKCS8 then KF_PKCS8
  else if has kf KF_Transparent then KF_Transparent
  else KF_PKCS1.

(** KeyFormat.ecdsaPubFormat *)
Definition ecdsa_pub_format (kf : Z) : Z :=
  if (kf =? 0) || has kf KF_X509 then KF_X509
  else if has kf KF_Transparent then KF_Transparent
  else KF_X509.

(** KeyFormat.ecdsaPrivFormat *)
Definition ecdsa_priv_format (kf : Z) : Z :=
  if (kf =? 0) || has kf KF_SEC1 then KF_SEC1
  else if has kf KF_PKCS8 then KF_PKCS8
  else if has kf KF_Transparent then KF_Transparent
  else KF_SEC1.

(** KeyFormat.symmetricFormat *)
Definition symmetric_format (kf : Z) : Z :=
  if (kf =? 0) || has kf KF_RAW then KF_RAW
  else if has kf KF_Transparent then KF_Transparent
  else KF_RAW.

(** big.Int.BitLen *)
Definition bitlen (n : Z) : Z := if n =? 0 then 0 else Z.log2 (Z.abs n) + 1.

(** ttlv.CompareVersions(v, w) >= 0 *)
Definition ver_ge (v w : Z * Z) : bool :=
  match fst v ?= fst w with
  | Lt => false
  | Gt => true
  | Eq => snd w <=? snd v
  end.
Definition V1_3 : Z * Z := (1, 3).

(** RecommendedCurve.Bitlen, on the four values curveToKMIP can produce *)
Definition rc_bitlen (crv : Z) : Z :=
  if crv =? RC_P224 then 224 else if crv =? RC_P256 then 256
  else if crv =? RC_P384 then 384 else if crv =? RC_P521 then 521 else 0.

(** curveToKMIP: (bit length, RecommendedCurve) or an error *)
Definition curve_to_kmip (c : gocurve) : option (Z * Z) :=
  match c with
  | P224 => Some (rc_bitlen RC_P224, RC_P224)
  | P256 => Some (rc_bitlen RC_P256, RC_P256)
  | P384 => Some (rc_bitlen RC_P384, RC_P384)
  | P521 => Some (rc_bitlen RC_P521, RC_P521)
  | OtherCurve => None
  end.

(** Go slice indexing l[i]: out of range panics *)
Definition index {A} (l : list A) (i : nat) : res A :=
  match nth_error l i with Some a => Ok a | None => Panic end.

Definition plain_value (m : key_material) : option key_value :=
  Some (mk_kv None (Some (mk_pkv m []))).

Definition km_of_bytes (b : bytes) : key_material :=
  mk_km (Some b) None None None None None None None.

(** ExecRegisterWantType.rawKeyBytes *)
Definition raw_key_bytes (private : bool) (der : bytes) (alg bl format usage : Z) : reg_req :=
  let kb := mk_kb format 0 (plain_value (km_of_bytes der)) alg bl false in
  if private then mk_req OT_PrivateKey (OPrivateKey kb) (Some usage)
  else mk_req OT_PublicKey (OPublicKey kb) (Some usage).

Section Build.
Variable C : crypto.

(** ExecRegisterWantType.Secret *)
Definition reg_secret (kind : Z) (value : bytes) : res reg_req :=
  Ok (mk_req OT_SecretData
        (OSecretData kind (mk_kb KFT_Raw 0 (plain_value (km_of_bytes value)) 0 0 false)) None).

(** ExecRegisterWantType.SymmetricKey *)
Definition reg_symmetric (kf alg usage : Z) (value : bytes) : res reg_req :=
  let bl := len value * 8 in
  if bl >? max_i32 then Err else
  let f := symmetric_format kf in
  if f =? KF_RAW then
    Ok (mk_req OT_SymmetricKey
          (OSymmetricKey (mk_kb KFT_Raw 0 (plain_value (km_of_bytes value)) alg bl false)) (Some usage))
  else if f =? KF_Transparent then
    Ok (mk_req OT_SymmetricKey
          (OSymmetricKey (mk_kb KFT_TSymmetricKey 0
             (plain_value (mk_km None (Some value) None None None None None None)) alg bl false)) (Some usage))
  else Panic.  (* panic("Unexpected key format") *)

(** ExecRegisterWantType.RsaPrivateKey *)
Definition reg_rsa_priv (kf usage : Z) (k : rsa_priv) : res reg_req :=
  let bl := bitlen (rk_n k) in
  if (bl <? 0) || (bl >? max_i32) then Err else
  let f := rsa_priv_format kf in
  if f =? KF_PKCS1 then
    Ok (raw_key_bytes true (marshal_pkcs1_priv C k) ALG_RSA bl KFT_PKCS1 usage)
  else if f =? KF_PKCS8 then
    do b <- marshal_pkcs8 C (PrivRsa k) ;;
    Ok (raw_key_bytes true b ALG_RSA bl KFT_PKCS8 usage)
  else if f =? KF_Transparent then
    do p <- index (rk_primes k) 0 ;;     (* key.Primes[0] *)
    do q <- index (rk_primes k) 1 ;;     (* key.Primes[1] *)
    let t := mk_t_rsa_priv (rk_n k) (Some (rk_d k)) (Some (rk_e k)) p q (rk_dp k) (rk_dq k) (rk_qinv k) in
    Ok (mk_req OT_PrivateKey
          (OPrivateKey (mk_kb KFT_TRSAPrivateKey 0
             (plain_value (mk_km None None (Some t) None None None None None)) ALG_RSA bl false)) (Some usage))
  else Panic.

(** ExecRegisterWantType.RsaPublicKey *)
Definition reg_rsa_pub (kf usage : Z) (k : rsa_pub) : res reg_req :=
  let bl := bitlen (rp_n k) in
  if (bl <? 0) || (bl >? max_i32) then Err else
  let f := rsa_pub_format kf in
  if f =? KF_PKCS1 then
    Ok (raw_key_bytes false (marshal_pkcs1_pub C k) ALG_RSA bl KFT_PKCS1 usage)
  else if f =? KF_X509 then
    match marshal_pkix C (PubRsa k) with
    | None => Err
    | Some b => Ok (raw_key_bytes false b ALG_RSA bl KFT_X509 usage)
    end
  else if f =? KF_Transparent then
    Ok (mk_req OT_PublicKey
          (OPublicKey (mk_kb KFT_TRSAPublicKey 0
             (plain_value (mk_km None None None (Some (rp_n k, rp_e k)) None None None None)) ALG_RSA bl false)) (Some usage))
  else Panic.

(** ExecRegisterWantType.EcdsaPrivateKey *)
Definition reg_ec_priv (kf : Z) (ver : Z * Z) (usage : Z) (k : ec_priv) : res reg_req :=
  match curve_to_kmip (ek_curve k) with
  | None => Err
  | Some (bl, crv) =>
    let f := ecdsa_priv_format kf in
    if f =? KF_SEC1 then
      match marshal_sec1 C k with
      | None => Err
      | Some b => Ok (raw_key_bytes true b ALG_ECDSA bl KFT_ECPrivateKey usage)
      end
    else if f =? KF_PKCS8 then
      do b <- marshal_pkcs8 C (PrivEc k) ;;
      Ok (raw_key_bytes true b ALG_ECDSA bl KFT_PKCS8 usage)
    else if f =? KF_Transparent then
      let '(fmt, m) :=
        if ver_ge ver V1_3
        then (KFT_TECPrivateKey, mk_km None None None None None None (Some (crv, ek_d k)) None)
        else (KFT_TECDSAPrivateKey, mk_km None None None None (Some (crv, ek_d k)) None None None) in
      Ok (mk_req OT_PrivateKey
            (OPrivateKey (mk_kb fmt 0 (plain_value m) ALG_ECDSA bl false)) (Some usage))
    else Panic
  end.

(** ExecRegisterWantType.EcdsaPublicKey *)
Definition reg_ec_pub (kf : Z) (ver : Z * Z) (usage : Z) (k : ec_pub) : res reg_req :=
  match curve_to_kmip (ep_curve k) with
  | None => Err
  | Some (bl, crv) =>
    let f := ecdsa_pub_format kf in
    if f =? KF_X509 then
      match marshal_pkix C (PubEc k) with
      | None => Err
      | Some b => Ok (raw_key_bytes false b ALG_ECDSA bl KFT_X509 usage)
      end
    else if f =? KF_Transparent then
      match ec_marshal C (ep_curve k) (ep_x k) (ep_y k) with
      | None => Panic                       (* elliptic.Marshal panics on an invalid point *)
      | Some q =>
        let '(fmt, m) :=
          if ver_ge ver V1_3
          then (KFT_TECPublicKey, mk_km None None None None None None None (Some (crv, q)))
          else (KFT_TECDSAPublicKey, mk_km None None None None None (Some (crv, q)) None None) in
        Ok (mk_req OT_PublicKey
              (OPublicKey (mk_kb fmt KCT_Uncompressed (plain_value m) ALG_ECDSA bl false)) (Some usage))
      end
    else Panic
  end.

(** The six key-carrying builders behind one entry point. *)
Inductive reg_input :=
| RegRsaPriv (k : rsa_priv)
| RegRsaPub (k : rsa_pub)
| RegEcPriv (k : ec_priv)
| RegEcPub (k : ec_pub)
| RegSym (alg : Z) (v : bytes)
| RegSecret (kind : Z) (v : bytes).

Definition build (kf : Z) (ver : Z * Z) (usage : Z) (i : reg_input) : res reg_req :=
  match i with
  | RegRsaPriv k => reg_rsa_priv kf usage k
  | RegRsaPub k => reg_rsa_pub kf usage k
  | RegEcPriv k => reg_ec_priv kf ver usage k
  | RegEcPub k => reg_ec_pub kf ver usage k
  | RegSym alg v => reg_symmetric kf alg usage v
  | RegSecret kind v => reg_secret kind v
  end.

(** ExecRegisterWantType.PrivateKey / PublicKey: type switch on crypto.PrivateKey/PublicKey *)
Definition reg_private_key (kf : Z) (ver : Z * Z) (usage : Z) (k : priv_key) : res reg_req :=
  match k with
  | PrivRsa r => reg_rsa_priv kf usage r
  | PrivEc e => reg_ec_priv kf ver usage e
  | PrivOther => Err
  end.
Definition reg_public_key (kf : Z) (ver : Z * Z) (usage : Z) (k : pub_key) : res reg_req :=
  match k with
  | PubRsa r => reg_rsa_pub kf usage r
  | PubEc e => reg_ec_pub kf ver usage e
  | PubOther => Err
  end.

(** Pkcs1PrivateKey / Pkcs1PublicKey / Pkcs8PrivateKey / Sec1PrivateKey / X509PublicKey:
    parse the DER, then the typed builder. *)
Definition reg_pkcs1_priv_der (kf usage : Z) (der : bytes) : res reg_req :=
  match parse_pkcs1_priv C der with None => Err | Some k => reg_rsa_priv kf usage k end.
Definition reg_pkcs1_pub_der (kf usage : Z) (der : bytes) : res reg_req :=
  match parse_pkcs1_pub C der with None => Err | Some k => reg_rsa_pub kf usage k end.
Definition reg_pkcs8_der (kf : Z) (ver : Z * Z) (usage : Z) (der : bytes) : res reg_req :=
  match parse_pkcs8 C der with None => Err | Some k => reg_private_key kf ver usage k end.
Definition reg_sec1_der (kf : Z) (ver : Z * Z) (usage : Z) (der : bytes) : res reg_req :=
  match parse_sec1 C der with None => Err | Some k => reg_ec_priv kf ver usage k end.
Definition reg_x509_der (kf : Z) (ver : Z * Z) (usage : Z) (der : bytes) : res reg_req :=
  match parse_pkix C der with None => Err | Some k => reg_public_key kf ver usage k end.

End Build.

(** * Slots: which KeyMaterial pointer a KeyFormatType designates *)
Inductive slot := SBytes | SSym | SRsaPriv | SRsaPub | SEcdsaPriv | SEcdsaPub | SEcPriv | SEcPub.

Definition slot_eqb (a b : slot) : bool :=
  match a, b with
  | SBytes, SBytes | SSym, SSym | SRsaPriv, SRsaPriv | SRsaPub, SRsaPub
  | SEcdsaPriv, SEcdsaPriv | SEcdsaPub, SEcdsaPub | SEcPriv, SEcPriv | SEcPub, SEcPub => true
  | _, _ => false
  end.

(** KeyMaterial.decode: the slot the decoder stores into for a KeyFormatType (None: error) *)
Definition decode_slot (f : Z) : option slot :=
  if (f =? KFT_Raw) || (f =? KFT_ECPrivateKey) || (f =? KFT_PKCS1) || (f =? KFT_PKCS8)
     || (f =? KFT_X509) || (f =? KFT_Opaque) then Some SBytes
  else if f =? KFT_TSymmetricKey then Some SSym
  else if f =? KFT_TECDSAPrivateKey then Some SEcdsaPriv
  else if f =? KFT_TECDSAPublicKey then Some SEcdsaPub
  else if f =? KFT_TRSAPrivateKey then Some SRsaPriv
  else if f =? KFT_TRSAPublicKey then Some SRsaPub
  else if f =? KFT_TECPrivateKey then Some SEcPriv
  else if f =? KFT_TECPublicKey then Some SEcPub
  else None.

Definition opt_slot {A} (o : option A) (s : slot) : list slot :=
  match o with Some _ => [s] | None => [] end.

(** KeyMaterial.TagEncodeTTLV: the slots that are emitted, in order *)
Definition populated_slots (m : key_material) : list slot :=
  opt_slot (km_bytes m) SBytes ++ opt_slot (km_sym m) SSym ++ opt_slot (km_rsa_priv m) SRsaPriv
  ++ opt_slot (km_rsa_pub m) SRsaPub ++ opt_slot (km_ecdsa_priv m) SEcdsaPriv
  ++ opt_slot (km_ecdsa_pub m) SEcdsaPub ++ opt_slot (km_ec_priv m) SEcPriv
  ++ opt_slot (km_ec_pub m) SEcPub.

Definition slot_filled (m : key_material) (s : slot) : bool :=
  match s with
  | SBytes => match km_bytes m with Some _ => true | None => false end
  | SSym => match km_sym m with Some _ => true | None => false end
  | SRsaPriv => match km_rsa_priv m with Some _ => true | None => false end
  | SRsaPub => match km_rsa_pub m with Some _ => true | None => false end
  | SEcdsaPriv => match km_ecdsa_priv m with Some _ => true | None => false end
  | SEcdsaPub => match km_ecdsa_pub m with Some _ => true | None => false end
  | SEcPriv => match km_ec_priv m with Some _ => true | None => false end
  | SEcPub => match km_ec_pub m with Some _ => true | None => false end
  end.

Definition object_key_block (o : object) : option key_block :=
  match o with
  | OSecretData _ kb | OSymmetricKey kb | OPublicKey kb | OPrivateKey kb | OSplitKey kb | OPGPKey kb => Some kb
  | OCertificate _ _ | OOpaque _ | OTemplate => None
  end.

(** Shape a key block must have for the wire to give it back unchanged (KeyValue.TagEncodeTTLV
    emits whichever of Wrapped/Plain is set, KeyMaterial.TagEncodeTTLV emits every set slot,
    KeyMaterial.decode reads one item into the slot chosen by the KeyFormatType). *)
Definition wire_stable_kb (kb : key_block) : bool :=
  match kb_value kb with
  | None => true
  | Some kv =>
    match kv_wrapped kv, kv_plain kv with
    | Some _, None => true
    | None, Some p =>
      match populated_slots (pk_material p), decode_slot (kb_format kb) with
      | [s], Some s' => slot_eqb s s'
      | _, _ => false
      end
    | _, _ => false
    end
  end.
Definition wire_stable (o : object) : bool :=
  match object_key_block o with Some kb => wire_stable_kb kb | None => true end.

(** Shapes KeyBlock.TagDecodeTTLV / KeyValue.decode / KeyMaterial.decode can produce: KeyValue
    absent, or wrapped bytes, or a plain value whose material is absent or sits in the slot the
    KeyFormatType designates.  This is what "decodable object" means for the accessors. *)
Definition decodable_kb (kb : key_block) : bool :=
  match kb_value kb with
  | None => true
  | Some kv =>
    match kv_wrapped kv, kv_plain kv with
    | Some _, None => true
    | None, Some p =>
      match populated_slots (pk_material p), decode_slot (kb_format kb) with
      | [], Some _ => true
      | [s], Some s' => slot_eqb s s'
      | _, _ => false
      end
    | _, _ => false
    end
  end.
Definition decodable (o : object) : bool :=
  match object_key_block o with Some kb => decodable_kb kb | None => true end.

(** * Stage 3: Extract (objects.go) *)

(** KeyBlock.GetMaterial (with the nil check on KeyValue) *)
Definition get_material (kb : key_block) : res key_material :=
  match kb_value kb with
  | None => Err                                  (* kb.KeyValue == nil *)
  | Some kv =>
    match kv_plain kv with
    | None => Err                                (* kb.KeyValue.Plain == nil *)
    | Some p => Ok (pk_material p)
    end
  end.

(** KeyBlock.GetBytes *)
Definition get_bytes (kb : key_block) : res bytes :=
  do mat <- get_material kb ;;
  match km_bytes mat with
  | None => Err
  | Some b => Ok b                               (* *mat.Bytes, guarded *)
  end.

(** KeyBlock.GetAttributes (no error result) *)
Definition get_attributes (kb : key_block) : res (list Z) :=
  match kb_value kb with
  | None => Ok []
  | Some kv =>
    match kv_plain kv with
    | None => Ok []
    | Some p => Ok (pk_attrs p)
    end
  end.

(** SecretData.Data *)
Definition secret_data (kb : key_block) : res bytes :=
  let f := kb_format kb in
  if (f =? KFT_Raw) || (f =? KFT_Opaque) then get_bytes kb else Err.

(** SymmetricKey.KeyMaterial *)
Definition symmetric_key_material (kb : key_block) : res bytes :=
  let f := kb_format kb in
  if f =? KFT_Raw then get_bytes kb
  else if f =? KFT_TSymmetricKey then
    do mat <- get_material kb ;;
    match km_sym mat with
    | None => Err
    | Some k => Ok k
    end
  else Err.

(** the switch on tkey.RecommendedCurve in PublicKey.ECDSA / PrivateKey.ECDSA *)
Definition curve_of_kmip (crv : Z) : option gocurve :=
  if crv =? RC_P224 then Some P224
  else if crv =? RC_P256 then Some P256
  else if crv =? RC_P384 then Some P384
  else if crv =? RC_P521 then Some P521
  else None.

Section Extract.
Variable C : crypto.

(** Certificate.X509Certificate (projected to cert.Raw) *)
Definition cert_x509 (ct : Z) (v : bytes) : res bytes :=
  if negb (ct =? CT_X509) then Err
  else match parse_cert C v with None => Err | Some raw => Ok raw end.

(** "CERTIFICATE", "PUBLIC KEY", "PRIVATE KEY" *)
Definition str_CERTIFICATE : bytes := [67;69;82;84;73;70;73;67;65;84;69].
Definition str_PUBLIC_KEY : bytes := [80;85;66;76;73;67;32;75;69;89].
Definition str_PRIVATE_KEY : bytes := [80;82;73;86;65;84;69;32;75;69;89].

(** Certificate.PemCertificate *)
Definition cert_pem (ct : Z) (v : bytes) : res bytes :=
  do raw <- cert_x509 ct v ;;
  Ok (pem_encode C str_CERTIFICATE raw).

(** PublicKey.RSA *)
Definition pub_rsa (kb : key_block) : res rsa_pub :=
  let f := kb_format kb in
  if f =? KFT_PKCS1 then
    do raw <- get_bytes kb ;;
    match parse_pkcs1_pub C raw with None => Err | Some k => Ok k end
  else if f =? KFT_X509 then
    do raw <- get_bytes kb ;;
    match parse_pkix C raw with
    | None => Err
    | Some (PubRsa k) => Ok k
    | Some _ => Err                               (* checked type assertion *)
    end
  else if f =? KFT_TRSAPublicKey then
    do mat <- get_material kb ;;
    match km_rsa_pub mat with
    | None => Err
    | Some (n, e) => if in_i64 e then Ok (mk_rsa_pub n e) else Err
    end
  else Err.

(** the transparent branch shared by PublicKey.ECDSA for both format types *)
Definition pub_ecdsa_transparent (kb : key_block) (tkey : option (Z * bytes)) : res ec_pub :=
  match tkey with
  | None => Err                                   (* tkey == nil *)
  | Some (crv, q) =>
    match curve_of_kmip crv with
    | None => Err
    | Some c =>
      let ct := if kb_compression kb >? 0 then kb_compression kb else KCT_Uncompressed in
      if ct =? KCT_Uncompressed then
        match ec_unmarshal C c q with None => Err | Some (x, y) => Ok (mk_ec_pub c x y) end
      else if ct =? KCT_CompressedPrime then
        match ec_unmarshal_compressed C c q with None => Err | Some (x, y) => Ok (mk_ec_pub c x y) end
      else Err
    end
  end.

(** PublicKey.ECDSA *)
Definition pub_ecdsa (kb : key_block) : res ec_pub :=
  let f := kb_format kb in
  if f =? KFT_X509 then
    do raw <- get_bytes kb ;;
    match parse_pkix C raw with
    | None => Err
    | Some (PubEc k) => Ok k
    | Some _ => Err
    end
  else if (f =? KFT_TECDSAPublicKey) || (f =? KFT_TECPublicKey) then
    do mat <- get_material kb ;;
    let tkey := if f =? KFT_TECPublicKey then km_ec_pub mat else km_ecdsa_pub mat in
    pub_ecdsa_transparent kb tkey
  else Err.

(** PublicKey.CryptoPublicKey *)
Definition pub_crypto (kb : key_block) : res pub_key :=
  let f := kb_format kb in
  if (f =? KFT_TECPublicKey) || (f =? KFT_TECDSAPublicKey) then
    do k <- pub_ecdsa kb ;; Ok (PubEc k)
  else if (f =? KFT_PKCS1) || (f =? KFT_TRSAPublicKey) then
    do k <- pub_rsa kb ;; Ok (PubRsa k)
  else if f =? KFT_X509 then
    do raw <- get_bytes kb ;;
    match parse_pkix C raw with None => Err | Some k => Ok k end
  else Err.

(** PublicKey.PkixPem *)
Definition pub_pem (kb : key_block) : res bytes :=
  do k <- pub_crypto kb ;;
  match marshal_pkix C k with
  | None => Err
  | Some b => Ok (pem_encode C str_PUBLIC_KEY b)
  end.

(** PrivateKey.RSA *)
Definition priv_rsa (kb : key_block) : res rsa_priv :=
  let f := kb_format kb in
  if f =? KFT_PKCS1 then
    do raw <- get_bytes kb ;;
    match parse_pkcs1_priv C raw with None => Err | Some k => Ok k end
  else if f =? KFT_PKCS8 then
    do raw <- get_bytes kb ;;
    match parse_pkcs8 C raw with
    | None => Err
    | Some (PrivRsa k) => Ok k
    | Some _ => Err
    end
  else if f =? KFT_TRSAPrivateKey then
    do mat <- get_material kb ;;
    match km_rsa_priv mat with
    | None => Err
    | Some t =>
      match tr_e t with
      | None => Err                               (* Missing public exponent *)
      | Some e =>
        match tr_d t with
        | None => Err                             (* Missing private exponent *)
        | Some d =>
          if negb (in_i64 e) then Err
          else Ok (precompute C (mk_rsa_priv (tr_mod t) e d [tr_p t; tr_q t] (tr_dp t) (tr_dq t) (tr_qinv t)))
        end
      end
    end
  else Err.

(** PrivateKey.ECDSA *)
Definition priv_ecdsa (kb : key_block) : res ec_priv :=
  let f := kb_format kb in
  if f =? KFT_ECPrivateKey then
    do raw <- get_bytes kb ;;
    match parse_sec1 C raw with None => Err | Some k => Ok k end
  else if f =? KFT_PKCS8 then
    do raw <- get_bytes kb ;;
    match parse_pkcs8 C raw with
    | None => Err
    | Some (PrivEc k) => Ok k
    | Some _ => Err
    end
  else if (f =? KFT_TECDSAPrivateKey) || (f =? KFT_TECPrivateKey) then
    do mat <- get_material kb ;;
    let tkey := if f =? KFT_TECPrivateKey then km_ec_priv mat else km_ecdsa_priv mat in
    match tkey with
    | None => Err                                 (* tkey == nil *)
    | Some (crv, d) =>
      match curve_of_kmip crv with
      | None => Err
      | Some c =>
        if (d <=? 0) || (curve_order C c <=? d) then Err   (* D outside [1, N-1] *)
        else
          let '(x, y) := scalar_base_mult C c (Z.abs d) in   (* ScalarBaseMult(rkey.D.Bytes()) *)
          Ok (mk_ec_priv c d x y)
      end
    end
  else Err.

(** PrivateKey.CryptoPrivateKey *)
Definition priv_crypto (kb : key_block) : res priv_key :=
  let f := kb_format kb in
  if (f =? KFT_ECPrivateKey) || (f =? KFT_TECPrivateKey) || (f =? KFT_TECDSAPrivateKey) then
    do k <- priv_ecdsa kb ;; Ok (PrivEc k)
  else if (f =? KFT_PKCS1) || (f =? KFT_TRSAPrivateKey) then
    do k <- priv_rsa kb ;; Ok (PrivRsa k)
  else if f =? KFT_PKCS8 then
    do raw <- get_bytes kb ;;
    match parse_pkcs8 C raw with None => Err | Some k => Ok k end
  else Err.

(** PrivateKey.Pkcs8Pem *)
Definition priv_pem (kb : key_block) : res bytes :=
  do k <- priv_crypto kb ;;
  do b <- marshal_pkcs8 C k ;;
  Ok (pem_encode C str_PRIVATE_KEY b).

(** ** payloads/get.go: GetResponsePayload accessors.  Each checks ObjectType, then asserts (with
    ", ok") that the object has the method, which only one object type does. *)

(** Secret / SecretString *)
Definition pl_secret (g : get_resp) : res bytes :=
  if negb (gr_type g =? OT_SecretData) then Err
  else match gr_obj g with Some (OSecretData _ kb) => secret_data kb | _ => Err end.

(** SymmetricKey *)
Definition pl_symmetric_key (g : get_resp) : res bytes :=
  if negb (gr_type g =? OT_SymmetricKey) then Err
  else match gr_obj g with Some (OSymmetricKey kb) => symmetric_key_material kb | _ => Err end.

(** X509Certificate *)
Definition pl_x509_certificate (g : get_resp) : res bytes :=
  if negb (gr_type g =? OT_Certificate) then Err
  else match gr_obj g with Some (OCertificate ct v) => cert_x509 ct v | _ => Err end.

(** PemCertificate *)
Definition pl_pem_certificate (g : get_resp) : res bytes :=
  if negb (gr_type g =? OT_Certificate) then Err
  else match gr_obj g with Some (OCertificate ct v) => cert_pem ct v | _ => Err end.

(** RsaPrivateKey *)
Definition pl_rsa_private_key (g : get_resp) : res rsa_priv :=
  if negb (gr_type g =? OT_PrivateKey) then Err
  else match gr_obj g with Some (OPrivateKey kb) => priv_rsa kb | _ => Err end.

(** EcdsaPrivateKey *)
Definition pl_ecdsa_private_key (g : get_resp) : res ec_priv :=
  if negb (gr_type g =? OT_PrivateKey) then Err
  else match gr_obj g with Some (OPrivateKey kb) => priv_ecdsa kb | _ => Err end.

(** PrivateKey *)
Definition pl_private_key (g : get_resp) : res priv_key :=
  if negb (gr_type g =? OT_PrivateKey) then Err
  else match gr_obj g with Some (OPrivateKey kb) => priv_crypto kb | _ => Err end.

(** PemPrivateKey *)
Definition pl_pem_private_key (g : get_resp) : res bytes :=
  if negb (gr_type g =? OT_PrivateKey) then Err
  else match gr_obj g with Some (OPrivateKey kb) => priv_pem kb | _ => Err end.

(** RsaPublicKey *)
Definition pl_rsa_public_key (g : get_resp) : res rsa_pub :=
  if negb (gr_type g =? OT_PublicKey) then Err
  else match gr_obj g with Some (OPublicKey kb) => pub_rsa kb | _ => Err end.

(** EcdsaPublicKey *)
Definition pl_ecdsa_public_key (g : get_resp) : res ec_pub :=
  if negb (gr_type g =? OT_PublicKey) then Err
  else match gr_obj g with Some (OPublicKey kb) => pub_ecdsa kb | _ => Err end.

(** PublicKey *)
Definition pl_public_key (g : get_resp) : res pub_key :=
  if negb (gr_type g =? OT_PublicKey) then Err
  else match gr_obj g with Some (OPublicKey kb) => pub_crypto kb | _ => Err end.

(** PemPublicKey *)
Definition pl_pem_public_key (g : get_resp) : res bytes :=
  if negb (gr_type g =? OT_PublicKey) then Err
  else match gr_obj g with Some (OPublicKey kb) => pub_pem kb | _ => Err end.

(** ** All accessors behind one result type *)
Inductive value :=
| VBytes (b : bytes) | VMaterial (m : key_material) | VAttrs (l : list Z)
| VRsaPub (k : rsa_pub) | VRsaPriv (k : rsa_priv) | VEcPub (k : ec_pub) | VEcPriv (k : ec_priv)
| VPub (k : pub_key) | VPriv (k : priv_key).

Definition rmap {A B} (f : A -> B) (r : res A) : res B := do a <- r ;; Ok (f a).

Inductive kb_acc := AGetMaterial | AGetBytes | AGetAttributes.
Definition run_kb_acc (a : kb_acc) (kb : key_block) : res value :=
  match a with
  | AGetMaterial => rmap VMaterial (get_material kb)
  | AGetBytes => rmap VBytes (get_bytes kb)
  | AGetAttributes => rmap VAttrs (get_attributes kb)
  end.

(** Methods of the object types; a method applied to an object type that does not have it
    is not a Go program, the model answers [Err]. *)
Inductive obj_acc :=
| ASecretData | ASymKeyMaterial | ACertX509 | ACertPem
| APubRSA | APubECDSA | APubCrypto | APubPem
| APrivRSA | APrivECDSA | APrivCrypto | APrivPem.
Definition run_obj_acc (a : obj_acc) (o : object) : res value :=
  match a, o with
  | ASecretData, OSecretData _ kb => rmap VBytes (secret_data kb)
  | ASymKeyMaterial, OSymmetricKey kb => rmap VBytes (symmetric_key_material kb)
  | ACertX509, OCertificate ct v => rmap VBytes (cert_x509 ct v)
  | ACertPem, OCertificate ct v => rmap VBytes (cert_pem ct v)
  | APubRSA, OPublicKey kb => rmap VRsaPub (pub_rsa kb)
  | APubECDSA, OPublicKey kb => rmap VEcPub (pub_ecdsa kb)
  | APubCrypto, OPublicKey kb => rmap VPub (pub_crypto kb)
  | APubPem, OPublicKey kb => rmap VBytes (pub_pem kb)
  | APrivRSA, OPrivateKey kb => rmap VRsaPriv (priv_rsa kb)
  | APrivECDSA, OPrivateKey kb => rmap VEcPriv (priv_ecdsa kb)
  | APrivCrypto, OPrivateKey kb => rmap VPriv (priv_crypto kb)
  | APrivPem, OPrivateKey kb => rmap VBytes (priv_pem kb)
  | _, _ => Err
  end.

Inductive pl_acc :=
| PSecretString | PSecret | PSymmetricKey | PX509Certificate | PPemCertificate
| PRsaPrivateKey | PEcdsaPrivateKey | PPrivateKey | PPemPrivateKey
| PRsaPublicKey | PEcdsaPublicKey | PPublicKey | PPemPublicKey.
Definition run_pl_acc (a : pl_acc) (g : get_resp) : res value :=
  match a with
  | PSecretString => rmap VBytes (pl_secret g)
  | PSecret => rmap VBytes (pl_secret g)
  | PSymmetricKey => rmap VBytes (pl_symmetric_key g)
  | PX509Certificate => rmap VBytes (pl_x509_certificate g)
  | PPemCertificate => rmap VBytes (pl_pem_certificate g)
  | PRsaPrivateKey => rmap VRsaPriv (pl_rsa_private_key g)
  | PEcdsaPrivateKey => rmap VEcPriv (pl_ecdsa_private_key g)
  | PPrivateKey => rmap VPriv (pl_private_key g)
  | PPemPrivateKey => rmap VBytes (pl_pem_private_key g)
  | PRsaPublicKey => rmap VRsaPub (pl_rsa_public_key g)
  | PEcdsaPublicKey => rmap VEcPub (pl_ecdsa_public_key g)
  | PPublicKey => rmap VPub (pl_public_key g)
  | PPemPublicKey => rmap VBytes (pl_pem_public_key g)
  end.

(** Extraction of what was registered, by kind of input (the typed get.go accessor). *)
Definition extract (i : reg_input) (g : get_resp) : res reg_input :=
  match i with
  | RegRsaPriv _ => rmap RegRsaPriv (pl_rsa_private_key g)
  | RegRsaPub _ => rmap RegRsaPub (pl_rsa_public_key g)
  | RegEcPriv _ => rmap RegEcPriv (pl_ecdsa_private_key g)
  | RegEcPub _ => rmap RegEcPub (pl_ecdsa_public_key g)
  | RegSym alg _ => rmap (RegSym alg) (pl_symmetric_key g)
  | RegSecret kind _ => rmap (RegSecret kind) (pl_secret g)
  end.

End Extract.

(** The slot an accessor reads for a KeyFormatType (None: the accessor rejects the format). *)
Definition accessor_slot (a : obj_acc) (f : Z) : option slot :=
  match a with
  | ASecretData => if (f =? KFT_Raw) || (f =? KFT_Opaque) then Some SBytes else None
  | ASymKeyMaterial =>
      if f =? KFT_Raw then Some SBytes else if f =? KFT_TSymmetricKey then Some SSym else None
  | APubRSA =>
      if (f =? KFT_PKCS1) || (f =? KFT_X509) then Some SBytes
      else if f =? KFT_TRSAPublicKey then Some SRsaPub else None
  | APubECDSA =>
      if f =? KFT_X509 then Some SBytes
      else if f =? KFT_TECDSAPublicKey then Some SEcdsaPub
      else if f =? KFT_TECPublicKey then Some SEcPub else None
  | APubCrypto | APubPem =>
      if (f =? KFT_PKCS1) || (f =? KFT_X509) then Some SBytes
      else if f =? KFT_TRSAPublicKey then Some SRsaPub
      else if f =? KFT_TECDSAPublicKey then Some SEcdsaPub
      else if f =? KFT_TECPublicKey then Some SEcPub else None
  | APrivRSA =>
      if (f =? KFT_PKCS1) || (f =? KFT_PKCS8) then Some SBytes
      else if f =? KFT_TRSAPrivateKey then Some SRsaPriv else None
  | APrivECDSA =>
      if (f =? KFT_ECPrivateKey) || (f =? KFT_PKCS8) then Some SBytes
      else if f =? KFT_TECDSAPrivateKey then Some SEcdsaPriv
      else if f =? KFT_TECPrivateKey then Some SEcPriv else None
  | APrivCrypto | APrivPem =>
      if (f =? KFT_PKCS1) || (f =? KFT_PKCS8) || (f =? KFT_ECPrivateKey) then Some SBytes
      else if f =? KFT_TRSAPrivateKey then Some SRsaPriv
      else if f =? KFT_TECDSAPrivateKey then Some SEcdsaPriv
      else if f =? KFT_TECPrivateKey then Some SEcPriv else None
  | ACertX509 | ACertPem => None
  end.

(** The typed accessor that recovers each kind of registered input. *)
Definition input_accessor (i : reg_input) : obj_acc :=
  match i with
  | RegRsaPriv _ => APrivRSA | RegRsaPub _ => APubRSA
  | RegEcPriv _ => APrivECDSA | RegEcPub _ => APubECDSA
  | RegSym _ _ => ASymKeyMaterial | RegSecret _ _ => ASecretData
  end.

(** GetResponsePayload a server builds from a registered object *)
Definition get_of (o : object) : get_resp := mk_get (object_type o) (Some o).

(** * Boolean equalities and a table-driven [crypto] for the correspondence run *)

Definition oz_eqb := option_eqb Z.eqb.
Definition obytes_eqb := option_eqb zlist_eqb.
Definition pair_eqb {A B} (ea : A -> A -> bool) (eb : B -> B -> bool) (x y : A * B) : bool :=
  ea (fst x) (fst y) && eb (snd x) (snd y).

Definition gocurve_eqb (a b : gocurve) : bool :=
  match a, b with
  | P224, P224 | P256, P256 | P384, P384 | P521, P521 | OtherCurve, OtherCurve => true
  | _, _ => false
  end.
Definition rsa_pub_eqb (a b : rsa_pub) : bool := (rp_n a =? rp_n b) && (rp_e a =? rp_e b).
Definition rsa_priv_eqb (a b : rsa_priv) : bool :=
  (rk_n a =? rk_n b) && (rk_e a =? rk_e b) && (rk_d a =? rk_d b)
  && list_eqb oz_eqb (rk_primes a) (rk_primes b)
  && oz_eqb (rk_dp a) (rk_dp b) && oz_eqb (rk_dq a) (rk_dq b) && oz_eqb (rk_qinv a) (rk_qinv b).
Definition ec_pub_eqb (a b : ec_pub) : bool :=
  gocurve_eqb (ep_curve a) (ep_curve b) && (ep_x a =? ep_x b) && (ep_y a =? ep_y b).
Definition ec_priv_eqb (a b : ec_priv) : bool :=
  gocurve_eqb (ek_curve a) (ek_curve b) && (ek_d a =? ek_d b) && (ek_x a =? ek_x b) && (ek_y a =? ek_y b).
Definition pub_key_eqb (a b : pub_key) : bool :=
  match a, b with
  | PubRsa x, PubRsa y => rsa_pub_eqb x y
  | PubEc x, PubEc y => ec_pub_eqb x y
  | PubOther, PubOther => true
  | _, _ => false
  end.
Definition priv_key_eqb (a b : priv_key) : bool :=
  match a, b with
  | PrivRsa x, PrivRsa y => rsa_priv_eqb x y
  | PrivEc x, PrivEc y => ec_priv_eqb x y
  | PrivOther, PrivOther => true
  | _, _ => false
  end.

Definition t_rsa_priv_eqb (a b : t_rsa_priv) : bool :=
  (tr_mod a =? tr_mod b) && oz_eqb (tr_d a) (tr_d b) && oz_eqb (tr_e a) (tr_e b)
  && oz_eqb (tr_p a) (tr_p b) && oz_eqb (tr_q a) (tr_q b) && oz_eqb (tr_dp a) (tr_dp b)
  && oz_eqb (tr_dq a) (tr_dq b) && oz_eqb (tr_qinv a) (tr_qinv b).
Definition key_material_eqb (a b : key_material) : bool :=
  obytes_eqb (km_bytes a) (km_bytes b) && obytes_eqb (km_sym a) (km_sym b)
  && option_eqb t_rsa_priv_eqb (km_rsa_priv a) (km_rsa_priv b)
  && option_eqb (pair_eqb Z.eqb Z.eqb) (km_rsa_pub a) (km_rsa_pub b)
  && option_eqb (pair_eqb Z.eqb Z.eqb) (km_ecdsa_priv a) (km_ecdsa_priv b)
  && option_eqb (pair_eqb Z.eqb zlist_eqb) (km_ecdsa_pub a) (km_ecdsa_pub b)
  && option_eqb (pair_eqb Z.eqb Z.eqb) (km_ec_priv a) (km_ec_priv b)
  && option_eqb (pair_eqb Z.eqb zlist_eqb) (km_ec_pub a) (km_ec_pub b).
Definition plain_eqb (a b : plain_key_value) : bool :=
  key_material_eqb (pk_material a) (pk_material b) && zlist_eqb (pk_attrs a) (pk_attrs b).
Definition key_value_eqb (a b : key_value) : bool :=
  obytes_eqb (kv_wrapped a) (kv_wrapped b) && option_eqb plain_eqb (kv_plain a) (kv_plain b).
Definition key_block_eqb (a b : key_block) : bool :=
  (kb_format a =? kb_format b) && (kb_compression a =? kb_compression b)
  && option_eqb key_value_eqb (kb_value a) (kb_value b)
  && (kb_alg a =? kb_alg b) && (kb_len a =? kb_len b) && Bool.eqb (kb_wrapping a) (kb_wrapping b).
Definition object_eqb (a b : object) : bool :=
  match a, b with
  | OSecretData s x, OSecretData t y => (s =? t) && key_block_eqb x y
  | OCertificate s x, OCertificate t y => (s =? t) && zlist_eqb x y
  | OSymmetricKey x, OSymmetricKey y | OPublicKey x, OPublicKey y | OPrivateKey x, OPrivateKey y
  | OSplitKey x, OSplitKey y | OPGPKey x, OPGPKey y => key_block_eqb x y
  | OOpaque x, OOpaque y => zlist_eqb x y
  | OTemplate, OTemplate => true
  | _, _ => false
  end.
Definition reg_req_eqb (a b : reg_req) : bool :=
  (rq_type a =? rq_type b) && object_eqb (rq_obj a) (rq_obj b) && oz_eqb (rq_usage a) (rq_usage b).

Definition res_eqb {A} (e : A -> A -> bool) (a b : res A) : bool :=
  match a, b with
  | Ok x, Ok y => e x y
  | Err, Err | Panic, Panic | OutOfFuel, OutOfFuel => true
  | _, _ => false
  end.

Definition value_eqb (a b : value) : bool :=
  match a, b with
  | VBytes x, VBytes y => zlist_eqb x y
  | VMaterial x, VMaterial y => key_material_eqb x y
  | VAttrs x, VAttrs y => zlist_eqb x y
  | VRsaPub x, VRsaPub y => rsa_pub_eqb x y
  | VRsaPriv x, VRsaPriv y => rsa_priv_eqb x y
  | VEcPub x, VEcPub y => ec_pub_eqb x y
  | VEcPriv x, VEcPriv y => ec_priv_eqb x y
  | VPub x, VPub y => pub_key_eqb x y
  | VPriv x, VPriv y => priv_key_eqb x y
  | _, _ => false
  end.

Definition reg_input_eqb (a b : reg_input) : bool :=
  match a, b with
  | RegRsaPriv x, RegRsaPriv y => rsa_priv_eqb x y
  | RegRsaPub x, RegRsaPub y => rsa_pub_eqb x y
  | RegEcPriv x, RegEcPriv y => ec_priv_eqb x y
  | RegEcPub x, RegEcPub y => ec_pub_eqb x y
  | RegSym s x, RegSym t y => (s =? t) && zlist_eqb x y
  | RegSecret s x, RegSecret t y => (s =? t) && zlist_eqb x y
  | _, _ => false
  end.

(** association-list lookup *)
Fixpoint assoc {K V} (e : K -> K -> bool) (k : K) (l : list (K * V)) : option V :=
  match l with
  | [] => None
  | (k', v) :: r => if e k k' then Some v else assoc e k r
  end.

(** What the real crypto functions answered on the inputs of one case (filled in by the
    driver); a missing entry means "error" for the partial functions. *)
Record tables := mk_tables {
  tb_m_pkcs1_priv : list (rsa_priv * bytes);
  tb_p_pkcs1_priv : list (bytes * rsa_priv);
  tb_m_pkcs1_pub : list (rsa_pub * bytes);
  tb_p_pkcs1_pub : list (bytes * rsa_pub);
  tb_m_pkcs8 : list (priv_key * res bytes);
  tb_p_pkcs8 : list (bytes * priv_key);
  tb_m_pkix : list (pub_key * bytes);
  tb_p_pkix : list (bytes * pub_key);
  tb_m_sec1 : list (ec_priv * bytes);
  tb_p_sec1 : list (bytes * ec_priv);
  tb_ec_marshal : list (ec_pub * bytes);
  tb_ec_unmarshal : list ((gocurve * bytes) * (Z * Z));
  tb_ec_unmarshal_c : list ((gocurve * bytes) * (Z * Z));
  tb_sbm : list ((gocurve * Z) * (Z * Z));
  tb_order : list (gocurve * Z);
  tb_precompute : list (rsa_priv * rsa_priv);
  tb_cert : list (bytes * bytes) }.

Definition odflt {A} (d : A) (o : option A) : A := match o with Some a => a | None => d end.

Definition crypto_of_tables (t : tables) : crypto :=
  mk_crypto
    (fun k => odflt [] (assoc rsa_priv_eqb k (tb_m_pkcs1_priv t)))
    (fun b => assoc zlist_eqb b (tb_p_pkcs1_priv t))
    (fun k => odflt [] (assoc rsa_pub_eqb k (tb_m_pkcs1_pub t)))
    (fun b => assoc zlist_eqb b (tb_p_pkcs1_pub t))
    (fun k => odflt Err (assoc priv_key_eqb k (tb_m_pkcs8 t)))
    (fun b => assoc zlist_eqb b (tb_p_pkcs8 t))
    (fun k => assoc pub_key_eqb k (tb_m_pkix t))
    (fun b => assoc zlist_eqb b (tb_p_pkix t))
    (fun k => assoc ec_priv_eqb k (tb_m_sec1 t))
    (fun b => assoc zlist_eqb b (tb_p_sec1 t))
    (fun c x y => assoc ec_pub_eqb (mk_ec_pub c x y) (tb_ec_marshal t))
    (fun c b => assoc (pair_eqb gocurve_eqb zlist_eqb) (c, b) (tb_ec_unmarshal t))
    (fun c b => assoc (pair_eqb gocurve_eqb zlist_eqb) (c, b) (tb_ec_unmarshal_c t))
    (fun c d => odflt (0, 0) (assoc (pair_eqb gocurve_eqb Z.eqb) (c, d) (tb_sbm t)))
    (fun c => odflt 0 (assoc gocurve_eqb c (tb_order t)))
    (fun k => odflt k (assoc rsa_priv_eqb k (tb_precompute t)))
    (fun ty b => ty ++ 0 :: b)          (* the driver reports a PEM block as type, NUL, DER *)
    (fun b => assoc zlist_eqb b (tb_cert t)).

(** [hexb n z]: the [n]-byte big-endian string of [z >= 0] (compact byte strings in cases
    files).  Walks the bits of the literal: linear, unlike repeated division. *)
Fixpoint pos_bytes_le (p : positive) (cur w : Z) (k : nat) : bytes :=
  match p with
  | xH => [cur + w]
  | xO q => if Nat.eqb k 7 then cur :: pos_bytes_le q 0 1 O else pos_bytes_le q cur (2 * w) (S k)
  | xI q => if Nat.eqb k 7 then (cur + w) :: pos_bytes_le q 0 1 O else pos_bytes_le q (cur + w) (2 * w) (S k)
  end.
Definition hexb (n z : Z) : bytes :=
  let le := match z with Zpos p => pos_bytes_le p 0 1 O | _ => [] end in
  repeat 0 (Z.to_nat n - length le) ++ rev' le.
