(** The one-hop fixed point for typed inputs (C18), reflective part: for EVERY input the
    reflective decoder accepts, the decoded value is encodable, and its normal form
    (Normalize.norm_ty) conforms (Roundtrip.conf_ty) - by induction on the decoder, with the
    hand-written decoders as a hypothesis [D_custom] discharged in DecConfCustoms.v. *)
From Coq Require Import ZArith List Bool String Lia PeanoNat.
From KV Require Import Base BaseProofs Wire WireProofs Cursor CursorProofs Schema SchemaSem SchemaSemEq FaithfulProofs
  Roundtrip RoundtripEq RoundtripProofs Normalize NormalizeEq DecConfDefs NormProofs DecConfLib.
Import ListNotations.
Open Scope Z_scope.

(** peel the successive binds / tests of a decoder body down to its final [Ok] *)
Ltac peel H := repeat first
  [ match type of H with bind ?m _ = Ok _ => let E := fresh "E" in destruct m as [?| | |] eqn:E; cbn [bind] in H; [|discriminate H|discriminate H|discriminate H] end
  | match type of H with (if ?b then _ else _) = Ok _ => destruct b end
  | match type of H with match ?x with _ => _ end = Ok _ => destruct x end
  | discriminate H ].

Section DC.
  Variable S : schema.
  Variables (OPS : op_table) (ATTRS : attr_table) (OBJS : obj_table).
  Context {R : Type}.
  Variable F : rawfmt R.
  Variable eok : relem R -> bool.
  Hypothesis HR : fmt_ranged F eok.
  Hypothesis HS : schema_ok S OPS ATTRS OBJS = true.

  Local Notation enc_ty := (enc_ty S).
  Local Notation enc_list := (enc_list S).
  Local Notation enc_fields := (enc_fields S).
  Local Notation norm_ty := (norm_ty S).
  Local Notation norm_list := (norm_list S).
  Local Notation norm_fields := (norm_fields S).
  Local Notation dec_ty := (dec_ty S OPS ATTRS OBJS F).
  Local Notation dec_slice := (dec_slice S OPS ATTRS OBJS F).
  Local Notation dec_fields_s := (dec_fields_s S OPS ATTRS OBJS F).
  Local Notation dec_opt := (dec_opt S OPS ATTRS OBJS F).
  Local Notation dec_object := (dec_object S OPS ATTRS OBJS F).
  Local Notation conf_ty := (conf_ty S OPS ATTRS OBJS).
  Local Notation conf_list := (conf_list S OPS ATTRS OBJS).
  Local Notation conf_fields := (conf_fields S OPS ATTRS OBJS).
  Local Notation c_ok := (c_ok eok).

  (** ** the hand-written decoders return the version state they were given *)
  Lemma wrap_struct_state n tag (c : cur R) body v c' st' st :
    (forall sub vals c2 st2, body sub = Ok (vals, c2, st2) -> st2 = st) ->
    wrap_struct F n tag c body = Ok (v, c', st') -> st' = st.
  Proof.
    intros Hb H. unfold wrap_struct in H.
    match type of H with bind ?m _ = _ => destruct m as [[[vals s2] c2]| | |] eqn:E; cbn [bind fst snd] in H; try discriminate end.
    injection H as <- <- <-.
    destruct (c_struct_inv F _ _ _ _ _ E) as (raw & kids & kb & rest & sub & r & _ & _ & Ef & _).
    destruct (body sub) as [[[vals' c3] s3]| | |] eqn:Eb; cbn [bind fst snd] in Ef; try discriminate.
    injection Ef as <- <- <-. eapply Hb. exact Eb.
  Qed.

  Lemma dec_custom_state dty dopt dobj dtrees st d tag (c : cur R) v c' st' :
    dec_custom_of S OPS ATTRS F dty dopt dobj dtrees st d tag c = Ok (v, c', st') -> st' = st.
  Proof.
    unfold dec_custom_of. intros H.
    repeat match type of H with (if ?b then _ else _) = _ => destruct b end; try discriminate H;
      (eapply wrap_struct_state; [|exact H]); clear H; intros sub vals c2 st2 H; cbv beta zeta in H; peel H;
      injection H as _ _ <-; reflexivity.
  Qed.

  (** ** quiet types: decoding does not change the version state *)
  Definition Qt_ty (fd : nat) : Prop := forall n st t tag (c : cur R) v c' st',
    quiet_ty S n t = true -> dec_ty fd st t tag c = Ok (v, c', st') -> st' = st.
  Definition Qt_slice (fd : nat) : Prop := forall n st t tag (c : cur R) l c' st',
    quiet_ty S n t = true -> dec_slice fd st t tag c = Ok (l, c', st') -> st' = st.
  Definition Qt_fields (fd : nat) : Prop := forall n st fl (c : cur R) vl c' st',
    forallb (fun g => negb (f_setver g) && quiet_ty S n (f_ty g)) fl = true ->
    dec_fields_s fd st fl c = Ok (vl, c', st') -> st' = st.

  Lemma quiet_all fd : Qt_ty fd /\ Qt_slice fd /\ Qt_fields fd.
  Proof.
    induction fd as [|f (IHt & IHl & IHf)]; [repeat split; intros; discriminate|].
    split; [|split].
    - intros n st t tag c v c' st' Hq H. destruct n as [|n']; [discriminate|]. cbn [quiet_ty] in Hq.
      rewrite dec_ty_eq in H. destruct t as [k|t'|t'|nm|nm].
      + peel H. injection H as _ _ <-. reflexivity.
      + destruct (negb (c_tag c =? tag)); [injection H as _ _ <-; reflexivity|].
        destruct (SchemaSem.dec_ty S OPS ATTRS OBJS F f st t' tag c) as [[[w c1] s1]| | |] eqn:E; cbn [bind fst snd] in H; try discriminate.
        injection H as _ _ <-. eapply IHt; eassumption.
      + destruct (SchemaSem.dec_slice S OPS ATTRS OBJS F f st t' tag c) as [[[w c1] s1]| | |] eqn:E; cbn [bind fst snd] in H; try discriminate.
        injection H as _ _ <-. eapply IHl; eassumption.
      + destruct (String.eqb nm "ttlv.Value"); [peel H; injection H as _ _ <-; reflexivity|].
        destruct (String.eqb nm "ttlv.Struct"); [peel H; injection H as _ _ <-; reflexivity|].
        destruct (find_tdef S nm) as [d|]; [|discriminate].
        destruct (t_custom_dec d); [eapply dec_custom_state; exact H|]. cbn [orb] in Hq.
        match type of H with bind ?m _ = _ => destruct m as [[[vals s2] c2]| | |] eqn:E; cbn [bind fst snd] in H; try discriminate end.
        injection H as _ _ <-.
        destruct (c_struct_inv F _ _ _ _ _ E) as (raw & kids & kb & rest & sub & r & _ & _ & Ef & _).
        destruct (SchemaSem.dec_fields_s S OPS ATTRS OBJS F f st (t_fields d) sub) as [[[vals' c3] s3]| | |] eqn:Eb; cbn [bind fst snd] in Ef; try discriminate.
        injection Ef as _ <- _. eapply IHf; eassumption.
      + discriminate.
    - intros n st t tag c l c' st' Hq H. rewrite dec_slice_eq in H.
      destruct (negb (c_tag c =? tag)); [injection H as _ _ <-; reflexivity|].
      destruct (SchemaSem.dec_ty S OPS ATTRS OBJS F f st t tag c) as [[[w c1] s1]| | |] eqn:E; cbn [bind fst snd] in H; try discriminate.
      destruct (SchemaSem.dec_slice S OPS ATTRS OBJS F f s1 t tag c1) as [[[l2 c2] s2]| | |] eqn:E2; cbn [bind fst snd] in H; try discriminate.
      injection H as _ _ <-. pose proof (IHt _ _ _ _ _ _ _ _ Hq E). subst s1. eapply IHl; eassumption.
    - intros n st fl c vl c' st' Hq H. rewrite dec_fields_s_eq in H.
      destruct fl as [|g fl']; [injection H as _ _ <-; reflexivity|].
      cbn [forallb] in Hq. rewrite !andb_true_iff in Hq. destruct Hq as ((Hsv & Hqg) & Hq'). apply negb_true_iff in Hsv.
      match type of H with bind ?m _ = _ => destruct m as [[[x c1] s1]| | |] eqn:E; cbn [bind fst snd] in H; try discriminate end.
      rewrite Hsv in H.
      destruct (SchemaSem.dec_fields_s S OPS ATTRS OBJS F f s1 fl' c1) as [[[vl2 c2] s2]| | |] eqn:E2; cbn [bind fst snd] in H; try discriminate.
      injection H as _ _ <-.
      assert (s1 = st).
      { destruct (f_tag g =? 0); [discriminate|].
        destruct (negb (version_in st (f_range g)) && negb (c_tag c =? f_tag g)); [injection E as _ _ <-; reflexivity|].
        destruct (f_omit g && negb (c_tag c =? f_tag g)); [injection E as _ _ <-; reflexivity|].
        eapply IHt; eassumption. }
      subst s1. eapply IHf; eassumption.
  Qed.

  Lemma quiet_dec fd n st t tag (c : cur R) v c' st' :
    quiet_ty S n t = true -> dec_ty fd st t tag c = Ok (v, c', st') -> st' = st.
  Proof. destruct (quiet_all fd) as (H & _). apply H. Qed.

  (** ** what is proved of every accepted input *)
  Definition Good (st : vstate) (t : ty) (tag : Z) (v : value) (st' : vstate) (items : list item) : Prop :=
    exists v' f0, forall f, (f0 <= f)%nat ->
      enc_ty f st t tag v = Ok (items, st') /\ norm_ty f st t v = (v', st') /\ conf_ty f st t tag v' = Some st'.
  Definition GoodList (st : vstate) (t : ty) (tag : Z) (l : list value) (st' : vstate) (items : list item) : Prop :=
    exists l' f0, forall f, (f0 <= f)%nat ->
      enc_list f st t tag l = Ok (items, st') /\ norm_list f st t l = (l', st') /\ conf_list f st t tag l' = Some st'.
  Definition GoodFields (st : vstate) (fl : list field) (vl : list value) (st' : vstate) (items : list item) : Prop :=
    exists vl' f0, forall f, (f0 <= f)%nat ->
      enc_fields f st fl vl = Ok (items, st') /\ norm_fields f st fl vl = (vl', st') /\ conf_fields f st fl vl' = Some st'.

  (** the cursor stays well-formed and what is written is in range *)
  Definition Rng (c c' : cur R) (items : list item) : Prop := c_ok c -> c_ok c' /\ forallb item_ok items = true.

  Definition D_ty (fd : nat) : Prop := forall st t tag (c : cur R) v c' st',
    ty_ok S t tag = true -> dec_ty fd st t tag c = Ok (v, c', st') ->
    exists items, Good st t tag v st' items /\ Rng c c' items.
  Definition D_slice (fd : nat) : Prop := forall st t tag (c : cur R) l c' st',
    one_item t = true -> ty_ok S t tag = true -> dec_slice fd st t tag c = Ok (l, c', st') ->
    exists items, GoodList st t tag l st' items /\ Rng c c' items.
  Definition D_fields (fd : nat) : Prop := forall st fl (c : cur R) vl c' st',
    forallb (field_ok S) fl = true -> dec_fields_s fd st fl c = Ok (vl, c', st') ->
    exists items, GoodFields st fl vl st' items /\ Rng c c' items.
  Definition D_custom (fd : nat) : Prop := forall st d tag (c : cur R) v c' st',
    find_tdef S (t_name d) = Some d -> t_custom_dec d = true ->
    String.eqb (t_name d) "ttlv.Value" = false -> String.eqb (t_name d) "ttlv.Struct" = false ->
    custom_ok S ATTRS OBJS d = true ->
    (if String.eqb (t_name d) "kmip.ResponseBatchItem" then tag =? TAG_BATCH_ITEM else true) = true ->
    dec_custom_of S OPS ATTRS F (dec_ty fd) (dec_opt fd) (dec_object fd) (dec_fields F fd) st d tag c = Ok (v, c', st') ->
    exists items, Good st (TNamed (t_name d)) tag v st' items /\ Rng c c' items.

  Lemma schema_tdef n d : find_tdef S n = Some d -> tdef_ok S ATTRS OBJS d = true.
  Proof.
    intros Ed. unfold schema_ok in HS. rewrite !andb_true_iff in HS. destruct HS as ((H & _) & _).
    rewrite forallb_forall in H. apply H. eapply find_tdef_in. exact Ed.
  Qed.

  Lemma item_ok_app a b : forallb item_ok a = true -> forallb item_ok b = true -> forallb item_ok (a ++ b) = true.
  Proof. intros Ha Hb. rewrite forallb_app, Ha, Hb. reflexivity. Qed.

  (** ** one value *)
  Lemma step_ty f : D_ty f -> D_slice f -> D_fields f -> D_custom f -> D_ty (Datatypes.S f).
  Proof.
    intros IHt IHl IHf IHc st t tag c v c' st' Hok H. rewrite dec_ty_eq in H.
    destruct t as [k|t'|t'|n|n].
    - (* scalar *)
      destruct (dec_scalar F k tag c) as [[x cx]| | |] eqn:Es; cbn [bind fst snd] in H; try discriminate. injection H as <- <- <-.
      cbn [ty_ok] in Hok. destruct (dec_scalar_good F eok HR k tag c x cx Es Hok) as (i & He & Hsc & Hr).
      exists [i]. split.
      + exists x, 1%nat. intros g Hg. destruct g as [|g]; [lia|]. rewrite enc_ty_eq, norm_ty_eq, conf_ty_eq, He, Hsc. repeat split.
      + intros Hc. destruct (Hr Hc) as [H1 H2]. split; [exact H1|]. cbn [forallb]. rewrite H2. reflexivity.
    - (* pointer *)
      cbn [ty_ok] in Hok. apply andb_true_iff in Hok. destruct Hok as [Hone Hok].
      destruct (negb (c_tag c =? tag)).
      + injection H as <- <- <-. exists []. split.
        * exists VNil, 1%nat. intros g Hg. destruct g as [|g]; [lia|]. rewrite enc_ty_eq, norm_ty_eq, conf_ty_eq. repeat split.
        * intros Hc. split; [exact Hc | reflexivity].
      + destruct (SchemaSem.dec_ty S OPS ATTRS OBJS F f st t' tag c) as [[[w c1] s1]| | |] eqn:E; cbn [bind fst snd] in H; try discriminate.
        injection H as <- <- <-.
        destruct (IHt _ _ _ _ _ _ _ Hok E) as (items & (w' & f0 & Hg) & Hr).
        exists items. split; [|exact Hr].
        exists (VPtr w'), (Datatypes.S f0). intros g Hge. destruct g as [|g]; [lia|].
        destruct (Hg g ltac:(lia)) as (H1 & H2 & H3).
        rewrite enc_ty_eq, norm_ty_eq, conf_ty_eq, H1, H2, Hone, H3. repeat split.
    - (* slice *)
      cbn [ty_ok] in Hok. apply andb_true_iff in Hok. destruct Hok as [Hone Hok].
      destruct (SchemaSem.dec_slice S OPS ATTRS OBJS F f st t' tag c) as [[[l c1] s1]| | |] eqn:E; cbn [bind fst snd] in H; try discriminate.
      injection H as <- <- <-.
      destruct (IHl _ _ _ _ _ _ _ Hone Hok E) as (items & (l' & f0 & Hg) & Hr).
      exists items. split; [|exact Hr].
      exists (VList l'), (Datatypes.S f0). intros g Hge. destruct g as [|g]; [lia|].
      destruct (Hg g ltac:(lia)) as (H1 & H2 & H3).
      rewrite enc_ty_eq, norm_ty_eq, conf_ty_eq, H1, H2, Hone, H3. repeat split.
    - (* named *)
      cbn [ty_ok] in Hok.
      destruct (String.eqb n "ttlv.Value") eqn:EV.
      { destruct (dec_value F f tag c) as [[i ci]| | |] eqn:Ev; cbn [bind fst snd] in H; try discriminate. injection H as <- <- <-.
        destruct (dec_value_good F eok HR f) as [Hv _]. destruct (Hv _ _ _ _ Ev) as (Hsh & Hit & Hr).
        exists [i]. split.
        - exists (VTree i), 1%nat. intros g Hg. destruct g as [|g]; [lia|].
          rewrite enc_ty_eq, norm_ty_eq, conf_ty_eq, EV, (retag_same i tag Hit), Hsh, Hit, Z.eqb_refl. repeat split.
        - intros Hc. destruct (Hr Hc) as [H1 H2]. split; [exact H1|]. cbn [forallb]. rewrite H2. reflexivity. }
      destruct (String.eqb n "ttlv.Struct") eqn:ES.
      { destruct (c_struct F tag (dec_fields F f) c) as [[is ci]| | |] eqn:Ev; cbn [bind fst snd] in H; try discriminate. injection H as <- <- <-.
        destruct (c_struct_ok F eok HR _ _ _ _ _ Ev) as (sub & r & Ef & Hcs).
        destruct (dec_value_good F eok HR f) as [_ Hfs]. destruct (Hfs _ _ _ Ef) as (Hsh & Htags & Hr).
        exists [IStruct tag is]. split.
        - exists (VList (map VTree is)), 1%nat. intros g Hg. destruct g as [|g]; [lia|].
          rewrite enc_ty_eq, norm_ty_eq, conf_ty_eq, EV, ES, trees_of_map, Hsh, Htags. repeat split.
        - intros Hc. destruct (Hcs Hc) as (Hsub & Hc' & Ht). destruct (Hr Hsub) as [_ Hl]. split; [exact Hc'|].
          cbn [forallb item_ok]. rewrite Ht, Hl. reflexivity. }
      destruct (find_tdef S n) as [d|] eqn:Ed; [|discriminate].
      pose proof (find_tdef_name S n d Ed) as Hnm.
      pose proof (schema_tdef n d Ed) as Htd. unfold tdef_ok in Htd.
      apply andb_true_iff in Hok. destruct Hok as [Hcust Hresp].
      destruct (t_custom_dec d) eqn:Hcd.
      { (* hand-written decoder *)
        subst n. exact (IHc _ _ _ _ _ _ _ Ed Hcd EV ES Htd Hresp H). }
      cbn [orb] in Hcust. apply andb_true_iff in Hcust. destruct Hcust as [Hce Hsh]. apply negb_true_iff in Hce.
      rewrite Hce, Hsh in Htd. cbn [negb orb] in Htd. apply andb_true_iff in Htd. destruct Htd as [Hwf Hfl].
      match type of H with bind ?m _ = _ => destruct m as [[[vals s2] c2]| | |] eqn:E; cbn [bind fst snd] in H; try discriminate end.
      injection H as <- <- <-.
      destruct (c_struct_ok F eok HR _ _ _ _ _ E) as (sub & r & Ef & Hcs).
      destruct (SchemaSem.dec_fields_s S OPS ATTRS OBJS F f st (t_fields d) sub) as [[[vals' c3] s3]| | |] eqn:Eb; cbn [bind fst snd] in Ef; try discriminate.
      injection Ef as <- <- <-.
      destruct (IHf _ _ _ _ _ _ Hfl Eb) as (kids & (vl' & f0 & Hg) & Hr).
      exists [IStruct tag kids]. split.
      + exists (VStruct n vl'), (Datatypes.S f0). intros g Hge. destruct g as [|g]; [lia|].
        destruct (Hg g ltac:(lia)) as (H1 & H2 & H3).
        rewrite enc_ty_eq, norm_ty_eq, conf_ty_eq, EV, ES, Ed, Hce, Hcd, H1, H2, String.eqb_refl, Hwf. cbn [bind fst snd negb andb].
        repeat split. exact H3.
      + intros Hc. destruct (Hcs Hc) as (Hsub & Hc' & Ht). destruct (Hr Hsub) as [_ Hl]. split; [exact Hc'|].
        cbn [forallb item_ok]. rewrite Ht, Hl. reflexivity.
    - (* interface *) discriminate.
  Qed.

  (** ** slices *)
  Lemma step_slice f : D_ty f -> D_slice f -> D_slice (Datatypes.S f).
  Proof.
    intros IHt IHl st t tag c l c' st' Hone Hok H. rewrite dec_slice_eq in H.
    destruct (negb (c_tag c =? tag)).
    - injection H as <- <- <-. exists []. split.
      + exists [], 1%nat. intros g Hg. destruct g as [|g]; [lia|]. rewrite enc_list_eq, norm_list_eq, conf_list_eq. repeat split.
      + intros Hc. split; [exact Hc | reflexivity].
    - destruct (SchemaSem.dec_ty S OPS ATTRS OBJS F f st t tag c) as [[[x c1] s1]| | |] eqn:E; cbn [bind fst snd] in H; try discriminate.
      destruct (SchemaSem.dec_slice S OPS ATTRS OBJS F f s1 t tag c1) as [[[l2 c2] s2]| | |] eqn:E2; cbn [bind fst snd] in H; try discriminate.
      injection H as <- <- <-.
      destruct (IHt _ _ _ _ _ _ _ Hok E) as (ia & (x' & fa & Ha) & Hra).
      destruct (IHl _ _ _ _ _ _ _ Hone Hok E2) as (ib & (l' & fb & Hb) & Hrb).
      exists (ia ++ ib)%list. split.
      + exists (x' :: l'), (Datatypes.S (Nat.max fa fb)). intros g Hge. destruct g as [|g]; [lia|].
        destruct (Ha g ltac:(lia)) as (A1 & A2 & A3). destruct (Hb g ltac:(lia)) as (B1 & B2 & B3).
        rewrite enc_list_eq, norm_list_eq, conf_list_eq, A1. cbn [bind fst snd]. rewrite B1. cbv zeta. rewrite A2. cbn [fst snd]. rewrite B2, A3. repeat split. exact B3.
      + intros Hc. destruct (Hra Hc) as [Hc1 Hia]. destruct (Hrb Hc1) as [Hc2 Hib]. split; [exact Hc2 | apply item_ok_app; assumption].
  Qed.

  (** ** the fields of a reflectively coded structure *)
  Lemma field_ok_facts fd : field_ok S fd = true ->
    (f_tag fd =? 0) = false /\ ty_ok S (f_ty fd) (f_tag fd) = true /\
    (f_setver fd = true -> plain_struct S (f_ty fd) = true /\ f_omit fd = false /\ f_range fd = None) /\
    (f_omit fd = true -> omit_ty_ok (f_ty fd) = true /\ quiet_ty S QN (f_ty fd) = true) /\
    (f_range fd <> None -> quiet_ty S QN (f_ty fd) = true).
  Proof.
    unfold field_ok. rewrite !andb_true_iff. intros ((((H0 & H1) & H2) & H3) & H4).
    apply negb_true_iff in H0. split; [exact H0|]. split; [exact H1|]. split; [|split].
    - intros E. rewrite E in H2. rewrite !andb_true_iff in H2. destruct H2 as ((Hp & Ho) & Hr).
      apply negb_true_iff in Ho, Hr. unfold has_range in Hr. destruct (f_range fd); [discriminate|]. auto.
    - intros E. rewrite E in H3. apply andb_true_iff in H3. exact H3.
    - intros E. unfold has_range in H4. destruct (f_range fd); [exact H4 | contradiction].
  Qed.

  (** a field the encoder does not write: out of the version range, or empty and omitempty *)
  Lemma fields_skip st fd fl' x vl' vl'' ib st' f0 :
    (f_tag fd =? 0) = false -> f_setver fd = false ->
    (negb (version_in st (f_range fd)) = true \/
     (negb (version_in st (f_range fd)) = false /\ f_omit fd = true /\ is_zero x = true /\ omit_ty_ok (f_ty fd) = true)) ->
    (forall f, (f0 <= f)%nat -> enc_fields f st fl' vl' = Ok (ib, st') /\ norm_fields f st fl' vl' = (vl'', st') /\ conf_fields f st fl' vl'' = Some st') ->
    forall f, (Datatypes.S f0 <= f)%nat ->
      enc_fields f st (fd :: fl') (x :: vl') = Ok (ib, st') /\
      norm_fields f st (fd :: fl') (x :: vl') = (zero_of S 8 (f_ty fd) :: vl'', st') /\
      conf_fields f st (fd :: fl') (zero_of S 8 (f_ty fd) :: vl'') = Some st'.
  Proof.
    intros Ht0 Hsv Hcase Hrest g Hge. destruct g as [|g]; [lia|]. destruct (Hrest g ltac:(lia)) as (B1 & B2 & B3).
    rewrite enc_fields_eq, norm_fields_eq, conf_fields_eq. cbv zeta. rewrite Ht0, Hsv. cbn [andb].
    destruct Hcase as [Hv|(Hv & Ho & Hz & Hot)]; rewrite Hv.
    - cbn [bind fst snd app]. rewrite B1, B2, value_eqb_refl. cbn [bind fst snd]. repeat split. exact B3.
    - rewrite Ho, Hz, (omit_zero_of S _ Hot). cbn [andb bind fst snd app]. rewrite B1, B2, value_eqb_refl. cbn [bind fst snd]. repeat split. exact B3.
  Qed.

  Lemma step_fields f : D_ty f -> D_fields f -> D_fields (Datatypes.S f).
  Proof.
    intros IHt IHf st fl c vl c' st' Hok H. rewrite dec_fields_s_eq in H.
    destruct fl as [|fd fl'].
    { injection H as <- <- <-. exists []. split; [|intros Hc; split; [exact Hc | reflexivity]].
      exists [], 1%nat. intros g Hg. destruct g as [|g]; [lia|]. rewrite enc_fields_eq, norm_fields_eq, conf_fields_eq. repeat split. }
    cbn [forallb] in Hok. apply andb_true_iff in Hok. destruct Hok as [Hfd Hok'].
    destruct (field_ok_facts fd Hfd) as (Ht0 & Hty & Hsvf & Homf & Hrgf).
    rewrite Ht0 in H.
    destruct (negb (version_in st (f_range fd)) && negb (c_tag c =? f_tag fd)) eqn:E1.
    { (* absent, outside the version range *)
      cbn [bind fst snd] in H. apply andb_true_iff in E1. destruct E1 as [Ev _].
      assert (Hsv : f_setver fd = false).
      { destruct (f_setver fd) eqn:E; [|reflexivity]. destruct (Hsvf eq_refl) as (_ & _ & Hr). rewrite Hr, version_in_none in Ev. discriminate. }
      rewrite Hsv in H.
      destruct (SchemaSem.dec_fields_s S OPS ATTRS OBJS F f st fl' c) as [[[vl2 c2] s2]| | |] eqn:E2; cbn [bind fst snd] in H; try discriminate.
      injection H as <- <- <-.
      destruct (IHf _ _ _ _ _ _ Hok' E2) as (ib & (vl'' & fb & Hb) & Hrb).
      exists ib. split; [|exact Hrb].
      exists (zero_of S 8 (f_ty fd) :: vl''), (Datatypes.S fb). apply fields_skip; auto. }
    destruct (f_omit fd && negb (c_tag c =? f_tag fd)) eqn:E2.
    { (* absent, omitempty *)
      cbn [bind fst snd] in H. apply andb_true_iff in E2. destruct E2 as [Eo Etag]. rewrite Etag, andb_true_r in E1.
      destruct (Homf Eo) as [Hot Hq].
      assert (Hsv : f_setver fd = false).
      { destruct (f_setver fd) eqn:E; [|reflexivity]. destruct (Hsvf eq_refl) as (_ & Ho & _). congruence. }
      rewrite Hsv in H.
      destruct (SchemaSem.dec_fields_s S OPS ATTRS OBJS F f st fl' c) as [[[vl2 c2] s2]| | |] eqn:E3; cbn [bind fst snd] in H; try discriminate.
      injection H as <- <- <-.
      destruct (IHf _ _ _ _ _ _ Hok' E3) as (ib & (vl'' & fb & Hb) & Hrb).
      exists ib. split; [|exact Hrb].
      exists (zero_of S 8 (f_ty fd) :: vl''), (Datatypes.S fb). apply fields_skip; auto.
      right. split; [exact E1|]. split; [exact Eo|]. split; [apply (omit_zero_of S), Hot | exact Hot]. }
    (* the element is decoded *)
    destruct (SchemaSem.dec_ty S OPS ATTRS OBJS F f st (f_ty fd) (f_tag fd) c) as [[[x c1] s1]| | |] eqn:Ea; cbn [bind fst snd] in H; try discriminate.
    destruct (IHt _ _ _ _ _ _ _ Hty Ea) as (ia & (x' & fa & Ha) & Hra).
    destruct (f_setver fd) eqn:Hsv.
    { (* the protocol version: a plain structure; the state becomes what it says *)
      destruct (Hsvf eq_refl) as (Hpl & Ho & Hr).
      destruct (SchemaSem.dec_fields_s S OPS ATTRS OBJS F f (ver_of_value x) fl' c1) as [[[vl2 c2] s2]| | |] eqn:E3; cbn [bind fst snd] in H; try discriminate.
      injection H as <- <- <-.
      destruct (IHf _ _ _ _ _ _ Hok' E3) as (ib & (vl'' & fb & Hb) & Hrb).
      exists (ia ++ ib)%list. split; [|intros Hc; destruct (Hra Hc) as [Hc1 Hia]; destruct (Hrb Hc1) as [Hc2 Hib]; split; [exact Hc2 | apply item_ok_app; assumption]].
      exists (x :: vl''), (Datatypes.S (Nat.max fa fb)). intros g Hge. destruct g as [|g]; [lia|].
      destruct (Ha g ltac:(lia)) as (A1 & A2 & A3). destruct (Hb g ltac:(lia)) as (B1 & B2 & B3).
      destruct (plain_enc_ty S _ Hpl _ _ _ _ _ _ A1) as [Hs1 Hany]. subst s1.
      pose proof (norm_plain S _ Hpl _ _ _ _ _ A1 g st) as Hn. rewrite Hn in A2. injection A2 as <-.
      destruct (plain_conf_ty S OPS ATTRS OBJS _ Hpl _ _ _ _ _ A3) as [_ Hcany].
      rewrite enc_fields_eq, norm_fields_eq, conf_fields_eq. cbv zeta. rewrite Ht0, Hsv, Ho, Hr, Hpl, version_in_none. cbn [negb andb].
      rewrite (Hany (ver_of_value x)). cbn [bind fst snd]. rewrite B1. cbn [bind fst snd].
      rewrite (norm_plain S _ Hpl _ _ _ _ _ A1 g (ver_of_value x)). cbn [fst snd]. rewrite B2.
      rewrite (Hcany (ver_of_value x)). repeat split. exact B3. }
    (* an ordinary field *)
    destruct (negb (version_in st (f_range fd))) eqn:Ever.
    { (* present although outside the version range: decoded, not written *)
      assert (Hq : quiet_ty S QN (f_ty fd) = true).
      { apply Hrgf. intros Hr. rewrite Hr, version_in_none in Ever. discriminate. }
      pose proof (quiet_dec _ _ _ _ _ _ _ _ _ Hq Ea). subst s1.
      destruct (SchemaSem.dec_fields_s S OPS ATTRS OBJS F f st fl' c1) as [[[vl2 c2] s2]| | |] eqn:E3; cbn [bind fst snd] in H; try discriminate.
      injection H as <- <- <-.
      destruct (IHf _ _ _ _ _ _ Hok' E3) as (ib & (vl'' & fb & Hb) & Hrb).
      exists ib. split; [|intros Hc; destruct (Hra Hc) as [Hc1 _]; exact (Hrb Hc1)].
      exists (zero_of S 8 (f_ty fd) :: vl''), (Datatypes.S fb). apply fields_skip; auto. }
    destruct (f_omit fd && is_zero x) eqn:Eom.
    { (* present and empty: decoded, not written *)
      apply andb_true_iff in Eom. destruct Eom as [Eo Ez]. destruct (Homf Eo) as [Hot Hq].
      pose proof (quiet_dec _ _ _ _ _ _ _ _ _ Hq Ea). subst s1.
      destruct (SchemaSem.dec_fields_s S OPS ATTRS OBJS F f st fl' c1) as [[[vl2 c2] s2]| | |] eqn:E3; cbn [bind fst snd] in H; try discriminate.
      injection H as <- <- <-.
      destruct (IHf _ _ _ _ _ _ Hok' E3) as (ib & (vl'' & fb & Hb) & Hrb).
      exists ib. split; [|intros Hc; destruct (Hra Hc) as [Hc1 _]; exact (Hrb Hc1)].
      exists (zero_of S 8 (f_ty fd) :: vl''), (Datatypes.S fb). apply fields_skip; auto. }
    (* written *)
    destruct (SchemaSem.dec_fields_s S OPS ATTRS OBJS F f s1 fl' c1) as [[[vl2 c2] s2]| | |] eqn:E3; cbn [bind fst snd] in H; try discriminate.
    injection H as <- <- <-.
    destruct (IHf _ _ _ _ _ _ Hok' E3) as (ib & (vl'' & fb & Hb) & Hrb).
    exists (ia ++ ib)%list. split; [|intros Hc; destruct (Hra Hc) as [Hc1 Hia]; destruct (Hrb Hc1) as [Hc2 Hib]; split; [exact Hc2 | apply item_ok_app; assumption]].
    exists (x' :: vl''), (Datatypes.S (Nat.max fa fb)). intros g Hge. destruct g as [|g]; [lia|].
    destruct (Ha g ltac:(lia)) as (A1 & A2 & A3). destruct (Hb g ltac:(lia)) as (B1 & B2 & B3).
    assert (Ez' : f_omit fd && is_zero x' = false).
    { destruct (f_omit fd) eqn:Eo; [|reflexivity]. cbn [andb] in Eom |- *. destruct (Homf eq_refl) as [Hot _].
      pose proof (omit_norm_zero S _ Hot g st x) as Hz. rewrite A2 in Hz. cbn [fst] in Hz. rewrite Hz. exact Eom. }
    rewrite enc_fields_eq, norm_fields_eq, conf_fields_eq. cbv zeta. rewrite Ht0, Hsv, Ever, Eom. cbn [andb].
    rewrite A1. cbn [bind fst snd]. rewrite B1. cbn [bind fst snd]. rewrite A2. cbn [fst snd]. rewrite B2, Ez', A3. repeat split. exact B3.
  Qed.

  (** everything below a fuel level (the hand-written decoders reach several levels down) *)
  Definition DQ (f : nat) : Prop := forall g, (g <= f)%nat -> D_ty g.

  Theorem dec_all_with : (forall f, DQ f -> D_custom f) ->
    forall fd, D_ty fd /\ D_slice fd /\ D_fields fd.
  Proof.
    intros Hcust.
    assert (HQ : forall fd, forall g, (g <= fd)%nat -> D_ty g /\ D_slice g /\ D_fields g).
    { induction fd as [|f IH]; intros g Hg.
      - assert (g = O) by lia. subst g. repeat split; unfold D_ty, D_slice, D_fields; intros; discriminate.
      - destruct (Nat.eq_dec g (Datatypes.S f)) as [->|Hne]; [|apply IH; lia].
        destruct (IH f (Nat.le_refl f)) as (IHt & IHl & IHf).
        assert (Hc : D_custom f) by (apply Hcust; intros g Hg'; apply IH, Hg').
        split; [apply step_ty; assumption | split; [apply step_slice; assumption | apply step_fields; assumption]]. }
    intros fd. exact (HQ fd fd (Nat.le_refl fd)).
  Qed.
End DC.
