(** Proofs about Batch.v (C09: batch semantics; C15: placeholder scoping). *)
From Coq Require Import ZArith List Bool Lia Sorted.
From KV Require Import Negotiate Batch.
Import ListNotations.
Open Scope Z_scope.

(** * Generic facts about [run], [pbind], [try_catch] *)

Lemma prepend_nil {R} (o : outcome R) : prepend [] o = o.
Proof. destruct o; reflexivity. Qed.

Lemma prepend_app {R} a b (o : outcome R) : prepend a (prepend b o) = prepend (a ++ b) o.
Proof. destruct o; cbn [prepend]; rewrite app_assoc; reflexivity. Qed.

Lemma run_bind {A B} (p : prog A) (f : A -> prog B) : forall h,
  run (pbind p f) h =
  match run p h with
  | Done a h' log => prepend log (run (f a) h')
  | Panicked pv h' log => Panicked pv h' log
  end.
Proof.
  induction p as [a|k IH|l k IH|l v k IH|e k IH|pv]; intros h; cbn [pbind run].
  - rewrite prepend_nil. reflexivity.
  - apply IH.
  - apply IH.
  - apply IH.
  - rewrite IH. destruct (run k h) as [a h' log|pv h' log]; cbn [prepend].
    + rewrite prepend_app. reflexivity.
    + reflexivity.
  - reflexivity.
Qed.

Lemma run_try_catch {A} (p : prog A) (hd : panicval -> prog A) : forall h,
  run (try_catch p hd) h =
  match run p h with
  | Done a h' log => Done a h' log
  | Panicked pv h' log => prepend log (run (hd pv) h')
  end.
Proof.
  induction p as [a|k IH|l k IH|l v k IH|e k IH|pv]; intros h; cbn [try_catch run].
  - reflexivity.
  - apply IH.
  - apply IH.
  - apply IH.
  - rewrite IH. destruct (run k h) as [a h' log|pv h' log]; cbn [prepend].
    + reflexivity.
    + rewrite prepend_app. reflexivity.
  - rewrite prepend_nil. reflexivity.
Qed.

Lemma calls_app a b : calls (a ++ b) = calls a ++ calls b.
Proof. unfold calls. apply flat_map_app. Qed.
Lemma rets_app a b : rets (a ++ b) = rets a ++ rets b.
Proof. unfold rets. apply flat_map_app. Qed.

(** * The accessors never emit handler events *)

Lemma run_id_placeholder c h :
  run (id_placeholder c) h = Done (match ctx_batch c with Some l => cell h l | None => [] end) h [].
Proof. unfold id_placeholder. destruct (ctx_batch c); reflexivity. Qed.

Lemma run_clear c h :
  run (clear_id_placeholder c) h = Done tt (match ctx_batch c with Some l => upd h l [] | None => h end) [].
Proof. unfold clear_id_placeholder. destruct (ctx_batch c); reflexivity. Qed.

Lemma run_set c s h :
  run (set_id_placeholder c s) h =
  match ctx_batch c with Some l => Done tt (upd h l s) [] | None => Panicked PvStr h [] end.
Proof. unfold set_id_placeholder. destruct (ctx_batch c); reflexivity. Qed.

Lemma run_get_or c q h :
  run (get_id_or_placeholder c q) h =
  Done (if negb (str_is_empty q) then Some q
        else let idp := match ctx_batch c with Some l => cell h l | None => [] end in
             if negb (str_is_empty idp) then Some idp else None) h [].
Proof.
  unfold get_id_or_placeholder. destruct (negb (str_is_empty q)); [reflexivity|].
  rewrite run_bind, run_id_placeholder. cbn [prepend app].
  destruct (negb (str_is_empty _)); reflexivity.
Qed.

(* handleBatchItemError *)
Definition failed_item (bi : ritem) (e : gerr) : ritem :=
  {| o_op := o_op bi; o_id := o_id bi; o_status := StatusFailed; o_reason := reason_of_err e; o_pl := o_pl bi |}.

Lemma run_hbie_some c bi e h :
  run (handle_batch_item_error c bi (Some e)) h =
  Done (failed_item bi e) (match ctx_batch c with Some l => upd h l [] | None => h end) [EvFailClear].
Proof.
  unfold handle_batch_item_error. rewrite run_bind, run_clear. cbn [prepend run app]. reflexivity.
Qed.

Lemma run_hbie_none c bi h : run (handle_batch_item_error c bi None) h = Done bi h [].
Proof. reflexivity. Qed.

(** * One handler invocation *)

Definition resolve_cell (c : ctx) (hc : hctx) (h : heap) : str :=
  match ctx_batch (resolve c hc) with Some l => cell h l | None => [] end.

(* what a handler's program produces: no invocation event, and exactly one return event when
   it returns or panics by itself, none when an accessor panicked under it *)
Lemma hprog_spec c idx : forall hp h,
  match run (run_hprog c idx hp) h with
  | Done (rp, oe) _ log =>
    calls log = [] /\
    ((oe = None /\ rets log = [(idx, HOk rp)]) \/ (exists e, oe = Some e /\ rets log = [(idx, HErr rp e)]))
  | Panicked pv _ log =>
    calls log = [] /\ (rets log = [(idx, HPanic pv)] \/ (rets log = [] /\ pv = PvStr))
  end.
Proof.
  induction hp as [o|hc k IH|hc q k IH|hc s k IH|hc k IH]; intros h; cbn [run_hprog].
  - destruct o as [rp|rp e|pv]; cbn; (split; [reflexivity|]).
    + left. split; reflexivity.
    + right. exists e. split; reflexivity.
    + left. reflexivity.
  - rewrite run_bind, run_id_placeholder. cbn [prepend app run].
    specialize (IH (match ctx_batch (resolve c hc) with Some l => cell h l | None => [] end) h).
    destruct (run (run_hprog c idx (k _)) h) as [[rp oe] h' log|pv h' log]; cbn [prepend app calls rets flat_map];
      exact IH.
  - rewrite run_bind, run_get_or. cbn [prepend app run].
    match goal with |- context [run (run_hprog c idx (k ?r)) h] => specialize (IH r h) end.
    destruct (run (run_hprog c idx (k _)) h) as [[rp oe] h' log|pv h' log]; cbn [prepend app calls rets flat_map];
      exact IH.
  - rewrite run_bind, run_set. destruct (ctx_batch (resolve c hc)) as [l|].
    + cbn [prepend app run]. specialize (IH (upd h l s)).
      destruct (run (run_hprog c idx k) (upd h l s)) as [[rp oe] h' log|pv h' log]; cbn [prepend app calls rets flat_map];
        exact IH.
    + cbn. split; [reflexivity|]. right. split; reflexivity.
  - rewrite run_bind, run_clear. cbn [prepend app run].
    match goal with |- context [run (run_hprog c idx k) ?hh] => specialize (IH hh) end.
    destruct (run (run_hprog c idx k) _) as [[rp oe] h' log|pv h' log]; cbn [prepend app calls rets flat_map];
      exact IH.
Qed.

(** * One batch item *)

Definition init_resp (bi : item) : ritem :=
  {| o_op := i_op bi; o_id := i_id bi; o_status := 0; o_reason := 0; o_pl := RNil |}.

Lemma call_spec cfg c i bi resp h :
  match run (dop x <- call_handler cfg c i bi ;; Ret (set_pl resp (fst x), snd x)) h with
  | Done (r, oe) _ log =>
    calls log = [i] /\
    ((oe = None /\ exists rp, rets log = [(i, HOk rp)] /\ r = set_pl resp rp) \/
     (exists e rp, oe = Some e /\ rets log = [(i, HErr rp e)] /\ r = set_pl resp rp))
  | Panicked pv _ log =>
    calls log = [i] /\ (rets log = [(i, HPanic pv)] \/ (rets log = [] /\ pv = PvStr))
  end.
Proof.
  rewrite run_bind. unfold call_handler. cbn [run].
  pose proof (hprog_spec c i (handler cfg i (i_op bi) (i_pl bi)) h) as H.
  destruct (run (run_hprog c i _) h) as [[rp oe] h' log|pv h' log]; cbn [prepend run app fst snd].
  - destruct H as [Hc Hr]. rewrite app_nil_r. cbn [calls flat_map app]. fold (calls log). rewrite Hc.
    split; [reflexivity|]. cbn [rets flat_map app]. fold (rets log).
    destruct Hr as [[-> Hr]|[e [-> Hr]]].
    + left. split; [reflexivity|]. exists rp. split; [exact Hr|reflexivity].
    + right. exists e, rp. repeat split; assumption.
  - destruct H as [Hc Hr]. cbn [calls flat_map app]. fold (calls log). rewrite Hc.
    split; [reflexivity|]. cbn [rets flat_map app]. fold (rets log). exact Hr.
Qed.

(* the result of an item: echo, at most one invocation, and the mapping from what the handler
   did (or from the reason no handler ran) to status / reason / payload *)
Definition item_post (cfg : config) (i : Z) (bi : item) (r : ritem) (log : list event) : Prop :=
  o_op r = i_op bi /\ o_id r = i_id bi /\
  calls log = (if dispatches cfg bi then [i] else []) /\
  ((exists o, rets log = [(i, o)] /\ dispatches cfg bi = true /\
              o_status r = status_of o /\ o_reason r = reason_of o /\ o_pl r = payload_of o)
   \/ (rets log = [] /\ dispatches cfg bi = true /\
       o_status r = StatusFailed /\ o_reason r = ReasonGeneralFailure /\ o_pl r = RNil)
   \/ (rets log = [] /\ dispatches cfg bi = false /\
       ((i_ext bi = Some true /\ o_status r = StatusFailed /\ o_reason r = ReasonFeatureNotSupported /\ o_pl r = RNil)
        \/ (i_ext bi <> Some true /\ exists vs, i_pl bi = PDiscover vs /\ o_status r = StatusSuccess /\
              o_reason r = 0 /\ o_pl r = RDiscover (handle_discover (supported cfg) vs))
        \/ (i_ext bi <> Some true /\ (forall vs, i_pl bi <> PDiscover vs) /\ o_status r = StatusFailed /\
              o_reason r = ReasonOperationNotSupported /\ o_pl r = RNil)))).

Lemma calls_failclear log : calls (log ++ [EvFailClear]) = calls log.
Proof. rewrite calls_app. cbn. apply app_nil_r. Qed.
Lemma rets_failclear log : rets (log ++ [EvFailClear]) = rets log.
Proof. rewrite rets_app. cbn. apply app_nil_r. Qed.

Lemma item_routed cfg c i bi h :
  dispatches cfg bi = true ->
  exists r h' log,
    run (dop x <- try_catch (dop x <- call_handler cfg c i bi ;; Ret (set_pl (init_resp bi) (fst x), snd x))
               (fun pv => dop r <- handle_batch_item_error c (init_resp bi) (Some (panic_to_err pv)) ;; Ret (r, None)) ;;
         handle_batch_item_error c (fst x) (snd x)) h = Done r h' log /\ item_post cfg i bi r log.
Proof.
  intros Hd. rewrite run_bind, run_try_catch.
  pose proof (call_spec cfg c i bi (init_resp bi) h) as H.
  destruct (run (dop x <- call_handler cfg c i bi ;; Ret (set_pl (init_resp bi) (fst x), snd x)) h)
    as [[r0 oe] h1 log1|pv h1 log1].
  - destruct H as [Hc [[-> [rp [Hr ->]]]|[e [rp [-> [Hr ->]]]]]]; cbn [fst snd].
    + rewrite run_hbie_none. cbn [prepend]. rewrite app_nil_r.
      eexists _, _, _. split; [reflexivity|].
      unfold item_post. rewrite Hd, Hc. repeat split; try reflexivity.
      left. exists (HOk rp). repeat split; try assumption; reflexivity.
    + rewrite run_hbie_some. cbn [prepend].
      eexists _, _, _. split; [reflexivity|].
      unfold item_post. rewrite Hd, calls_failclear, rets_failclear, Hc. repeat split; try reflexivity.
      left. exists (HErr rp e). repeat split; try assumption; reflexivity.
  - destruct H as [Hc Hr]. rewrite run_bind, run_hbie_some. cbn [prepend run app fst snd].
    rewrite run_hbie_none. cbn [prepend]. rewrite app_nil_r.
    eexists _, _, _. split; [reflexivity|].
    unfold item_post. rewrite Hd, calls_failclear, rets_failclear, Hc. repeat split; try reflexivity.
    destruct Hr as [Hr|[Hr ->]].
    + left. exists (HPanic pv). repeat split; try assumption; reflexivity.
    + right. left. repeat split; try assumption; reflexivity.
Qed.

Ltac item_fin := repeat split; try reflexivity; try congruence; try (intros ?; congruence).

Lemma item_spec cfg c i bi h :
  exists r h' log, run (execute_item_mw cfg c i bi) h = Done r h' log /\ item_post cfg i bi r log.
Proof.
  unfold execute_item_mw, execute_item. fold (init_resp bi).
  destruct (i_ext bi) as [[|]|] eqn:Hext.
  1: { (* critical extension *)
    rewrite run_bind. cbn [try_catch run prepend fst snd]. rewrite run_hbie_some. cbn [app].
    eexists _, _, _. split; [reflexivity|].
    unfold item_post, dispatches. rewrite Hext. cbn. repeat split.
    right. right. repeat split. left. repeat split. }
  all: destruct (routed cfg (i_op bi)) eqn:Hr.
  1,3: assert (Hd : dispatches cfg bi = true) by (unfold dispatches; rewrite Hext; exact Hr);
       destruct (i_pl bi); apply item_routed; exact Hd.
  all: assert (Hd : dispatches cfg bi = false) by (unfold dispatches; rewrite Hext; exact Hr).
  all: destruct (i_pl bi) as [|vs|k] eqn:Hpl; rewrite run_bind; cbn [try_catch run prepend fst snd].
  all: try rewrite run_hbie_some; try rewrite run_hbie_none; cbn [app].
  all: eexists _, _, _; (split; [reflexivity|]); unfold item_post; rewrite Hd; cbn; repeat split.
  all: right; right; repeat split.
  1,3,4,6: right; right; item_fin.
  all: right; left; split; [congruence|]; exists vs; item_fin.
Qed.

(** * The item loop *)

Definition stopflag (eco : Z) (r : ritem) : bool := (o_status r =? StatusFailed) && (eco =? OptStop).

(* the shape of every execution of the loop, with the monad gone *)
Inductive loop_rel (cfg : config) (eco : Z) : Z -> bool -> list item -> list ritem -> list event -> Prop :=
| lr_nil i st : loop_rel cfg eco i st [] [] []
| lr_skip i bi rest rs log :
    loop_rel cfg eco (i + 1) true rest rs log ->
    loop_rel cfg eco i true (bi :: rest) (canceled bi :: rs) log
| lr_exec i bi rest r log1 rs log2 :
    item_post cfg i bi r log1 ->
    loop_rel cfg eco (i + 1) (stopflag eco r) rest rs log2 ->
    loop_rel cfg eco i false (bi :: rest) (r :: rs) (log1 ++ log2).

Lemma loop_run cfg c eco : forall items i st h,
  exists rs h' log, run (item_loop cfg c eco i st items) h = Done rs h' log /\ loop_rel cfg eco i st items rs log.
Proof.
  induction items as [|bi rest IH]; intros i st h; cbn [item_loop].
  - eexists _, _, _. split; [reflexivity|constructor].
  - destruct st.
    + rewrite run_bind. destruct (IH (i + 1) true h) as [rs [h' [log [Hrun Hrel]]]]. rewrite Hrun.
      cbn [prepend run]. rewrite app_nil_r. eexists _, _, _. split; [reflexivity|]. constructor. exact Hrel.
    + rewrite run_bind. destruct (item_spec cfg c i bi h) as [r [h1 [log1 [Hrun1 Hpost]]]]. rewrite Hrun1.
      rewrite run_bind. fold (stopflag eco r).
      destruct (IH (i + 1) (stopflag eco r) h1) as [rs [h2 [log2 [Hrun2 Hrel]]]]. rewrite Hrun2.
      cbn [prepend run]. rewrite app_nil_r. eexists _, _, _. split; [reflexivity|].
      constructor; assumption.
Qed.

Definition echoes (bi : item) (r : ritem) : Prop := o_op r = i_op bi /\ o_id r = i_id bi.

Lemma loop_echo cfg eco i st items rs log :
  loop_rel cfg eco i st items rs log -> Forall2 echoes items rs.
Proof.
  induction 1 as [| |i bi rest r log1 rs log2 Hpost _ IH]; constructor; try assumption.
  - split; reflexivity.
  - destruct Hpost as [Ho [Hi _]]. split; assumption.
Qed.

Lemma item_calls cfg i bi r log : item_post cfg i bi r log -> calls log = if dispatches cfg bi then [i] else [].
Proof. intros [_ [_ [H _]]]. exact H. Qed.

(* a stopped loop executes nothing and cancels everything *)
Lemma loop_stopped cfg eco i items rs log :
  loop_rel cfg eco i true items rs log -> log = [] /\ rs = map canceled items.
Proof.
  remember true as st eqn:Hst. induction 1 as [| i bi rest rs log _ IH |]; try discriminate.
  - split; reflexivity.
  - destruct (IH Hst) as [-> ->]. split; reflexivity.
Qed.

Lemma loop_calls_range cfg eco i st items rs log :
  loop_rel cfg eco i st items rs log ->
  Forall (fun x => i <= x < i + Z.of_nat (length items)) (calls log) /\ StronglySorted Z.lt (calls log).
Proof.
  induction 1 as [i st|i bi rest rs log _ IH|i bi rest r log1 rs log2 Hpost _ IH].
  - split; constructor.
  - destruct IH as [IH1 IH2]. split; [|exact IH2].
    eapply Forall_impl; [|exact IH1]. cbn [length]. intros x Hx. lia.
  - destruct IH as [IH1 IH2]. rewrite calls_app, (item_calls _ _ _ _ _ Hpost).
    assert (Hrest : Forall (fun x => i <= x < i + Z.of_nat (length (bi :: rest))) (calls log2)).
    { eapply Forall_impl; [|exact IH1]. cbn [length]. intros x Hx. lia. }
    destruct (dispatches cfg bi); cbn [app].
    + split.
      * constructor; [cbn [length]; lia|exact Hrest].
      * constructor; [exact IH2|]. eapply Forall_impl; [|exact IH1]. intros x Hx. cbv beta in Hx. lia.
    + split; assumption.
Qed.

Lemma in_calls_item cfg i bi r log x :
  item_post cfg i bi r log -> In x (calls log) -> x = i /\ dispatches cfg bi = true.
Proof.
  intros Hpost Hin. rewrite (item_calls _ _ _ _ _ Hpost) in Hin.
  destruct (dispatches cfg bi); cbn in Hin; [|contradiction].
  destruct Hin as [<-|[]]. split; reflexivity.
Qed.

(* Stop: once an item is reported failed, nothing after it runs and everything after it is failed *)
Lemma loop_stop cfg i st items rs log :
  loop_rel cfg OptStop i st items rs log ->
  forall a ra, nth_error rs a = Some ra -> o_status ra = StatusFailed ->
  forall b, (a < b)%nat ->
    ~ In (i + Z.of_nat b) (calls log) /\
    (forall rb, nth_error rs b = Some rb -> o_status rb = StatusFailed).
Proof.
  induction 1 as [i st|i bi rest rs log Hrel IH|i bi rest r log1 rs log2 Hpost Hrel IH]; intros a ra Ha Hfa b Hab.
  - destruct a; discriminate.
  - destruct (loop_stopped _ _ _ _ _ _ Hrel) as [-> ->]. split; [intros []|].
    intros rb Hb. destruct b as [|b]; [lia|]. cbn [nth_error] in Hb.
    rewrite nth_error_map in Hb. destruct (nth_error rest b); [|discriminate].
    cbn in Hb. injection Hb as <-. reflexivity.
  - destruct b as [|b]; [lia|]. destruct a as [|a].
    + cbn [nth_error] in Ha. injection Ha as ->.
      assert (Hsf : stopflag OptStop ra = true).
      { unfold stopflag. rewrite Hfa. reflexivity. }
      rewrite Hsf in Hrel. destruct (loop_stopped _ _ _ _ _ _ Hrel) as [-> ->]. rewrite app_nil_r. split.
      * intros Hin. destruct (in_calls_item _ _ _ _ _ _ Hpost Hin) as [Hx _]. lia.
      * intros rb Hb. cbn [nth_error] in Hb. rewrite nth_error_map in Hb.
        destruct (nth_error rest b); [|discriminate]. cbn in Hb. injection Hb as <-. reflexivity.
    + cbn [nth_error] in Ha. assert (Hab' : (a < b)%nat) by lia.
      destruct (IH a ra Ha Hfa b Hab') as [H1 H2]. split.
      * rewrite calls_app. intros Hin. apply in_app_or in Hin. destruct Hin as [Hin|Hin].
        -- destruct (in_calls_item _ _ _ _ _ _ Hpost Hin) as [Hx _]. lia.
        -- apply H1. replace (i + 1 + Z.of_nat b) with (i + Z.of_nat (S b)) by lia. exact Hin.
      * intros rb Hb. cbn [nth_error] in Hb. apply H2. exact Hb.
Qed.

(* an item is executed iff it can reach a handler, as long as the loop has not been stopped before it *)
Lemma loop_exec_iff cfg eco i items rs log :
  loop_rel cfg eco i false items rs log ->
  forall j bj, nth_error items j = Some bj ->
  (eco <> OptStop \/ forall a ra, (a < j)%nat -> nth_error rs a = Some ra -> o_status ra <> StatusFailed) ->
  (In (i + Z.of_nat j) (calls log) <-> dispatches cfg bj = true).
Proof.
  remember false as st eqn:Hst. intros Hrel. revert Hst.
  induction Hrel as [i st|i bi rest rs log Hrel IH|i bi rest r log1 rs log2 Hpost Hrel IH]; intros Hst j bj Hj Hpre.
  - destruct j; discriminate.
  - discriminate.
  - destruct (loop_calls_range _ _ _ _ _ _ _ Hrel) as [Hrange _]. rewrite Forall_forall in Hrange.
    destruct j as [|j].
    + cbn [nth_error] in Hj. injection Hj as ->. rewrite calls_app, (item_calls _ _ _ _ _ Hpost).
      replace (i + Z.of_nat 0) with i by lia. split.
      * intros Hin. apply in_app_or in Hin. destruct Hin as [Hin|Hin].
        -- destruct (dispatches cfg bj); [reflexivity|destruct Hin].
        -- specialize (Hrange _ Hin). lia.
      * intros ->. left. reflexivity.
    + cbn [nth_error] in Hj.
      assert (Hsf : stopflag eco r = false).
      { unfold stopflag. destruct Hpre as [Hne|Hall].
        - destruct (eco =? OptStop) eqn:E; [apply Z.eqb_eq in E; contradiction|apply andb_false_r].
        - specialize (Hall O r (Nat.lt_0_succ j) eq_refl).
          destruct (o_status r =? StatusFailed) eqn:E; [apply Z.eqb_eq in E; contradiction|reflexivity]. }
      rewrite Hsf in Hrel, IH. specialize (IH eq_refl j bj Hj).
      assert (Hpre' : eco <> OptStop \/ forall a ra, (a < j)%nat -> nth_error rs a = Some ra -> o_status ra <> StatusFailed).
      { destruct Hpre as [Hne|Hall]; [left; exact Hne|right].
        intros a ra Ha Hn. apply (Hall (S a) ra); [lia|exact Hn]. }
      specialize (IH Hpre'). rewrite <- IH. rewrite calls_app.
      replace (i + 1 + Z.of_nat j) with (i + Z.of_nat (S j)) by lia. split.
      * intros Hin. apply in_app_or in Hin. destruct Hin as [Hin|Hin]; [|exact Hin].
        destruct (in_calls_item _ _ _ _ _ _ Hpost Hin) as [Hx _]. lia.
      * intros Hin. apply in_or_app. right. exact Hin.
Qed.

(* what each invoked handler did is what its item reports *)
Lemma loop_rets cfg eco i st items rs log :
  loop_rel cfg eco i st items rs log ->
  forall j o, In (j, o) (rets log) ->
  exists k r, j = i + Z.of_nat k /\ nth_error rs k = Some r /\
              o_status r = status_of o /\ o_reason r = reason_of o /\ o_pl r = payload_of o.
Proof.
  induction 1 as [i st|i bi rest rs log Hrel IH|i bi rest r log1 rs log2 Hpost Hrel IH]; intros j o Hin.
  - destruct Hin.
  - destruct (IH j o Hin) as [k [r [Hj [Hn Hr]]]]. exists (S k), r. repeat split; try apply Hr; [lia|exact Hn].
  - rewrite rets_app in Hin. apply in_app_or in Hin. destruct Hin as [Hin|Hin].
    + destruct Hpost as [_ [_ [_ [[o' [Hr [_ Hres]]]|[[Hr _]|[Hr _]]]]]]; rewrite Hr in Hin; try destruct Hin.
      * injection H as <- <-. exists O, r. split; [lia|]. split; [reflexivity|exact Hres].
      * destruct H.
    + destruct (IH j o Hin) as [k [r' [Hj [Hn Hr]]]]. exists (S k), r'. repeat split; try apply Hr; [lia|exact Hn].
Qed.

(* an item that no handler ran for is never reported successful, except the built-in version discovery *)
Lemma loop_unexecuted cfg eco i st items rs log :
  loop_rel cfg eco i st items rs log ->
  forall j bj rj, nth_error items j = Some bj -> nth_error rs j = Some rj ->
  ~ In (i + Z.of_nat j) (calls log) ->
  (o_status rj = StatusFailed /\ o_pl rj = RNil) \/
  (exists vs, i_pl bj = PDiscover vs /\ routed cfg (i_op bj) = false /\ o_status rj = StatusSuccess /\
              o_pl rj = RDiscover (handle_discover (supported cfg) vs)).
Proof.
  induction 1 as [i st|i bi rest rs log Hrel IH|i bi rest r log1 rs log2 Hpost Hrel IH]; intros j bj rj Hj Hr Hnin.
  - destruct j; discriminate.
  - destruct j as [|j]; cbn [nth_error] in Hj, Hr.
    + injection Hr as <-. left. split; reflexivity.
    + apply (IH j bj rj Hj Hr). replace (i + 1 + Z.of_nat j) with (i + Z.of_nat (S j)) by lia. exact Hnin.
  - rewrite calls_app in Hnin. destruct j as [|j]; cbn [nth_error] in Hj, Hr.
    + injection Hj as ->. injection Hr as ->.
      destruct Hpost as [_ [_ [Hc Hcase]]].
      assert (Hd : dispatches cfg bj = false).
      { destruct (dispatches cfg bj); [|reflexivity]. exfalso. apply Hnin. apply in_or_app. left.
        rewrite Hc. left. lia. }
      destruct Hcase as [[o [_ [Hd' _]]]|[[_ [Hd' _]]|[_ [_ Hcase]]]]; try congruence.
      destruct Hcase as [[_ [Hs [_ Hp]]]|[[Hne [vs [Hpl [Hs [_ Hp]]]]]|[_ [_ [Hs [_ Hp]]]]]].
      * left. split; assumption.
      * right. exists vs. repeat split; try assumption.
        unfold dispatches in Hd. destruct (i_ext bj) as [[|]|]; congruence.
      * left. split; assumption.
    + apply (IH j bj rj Hj Hr). intros Hin. apply Hnin. apply in_or_app. right.
      replace (i + Z.of_nat (S j)) with (i + 1 + Z.of_nat j) by lia. exact Hin.
Qed.

(** * The whole request *)

Definition accepted (cfg : config) (req : request) : Prop :=
  vmem (h_ver (r_hdr req)) (supported cfg) = true /\
  h_opt (r_hdr req) <> OptUndo /\
  h_count (r_hdr req) = Z.of_nat (length (r_items req)).

Definition rejected (cfg : config) (req : request) : Prop :=
  vmem (h_ver (r_hdr req)) (supported cfg) = false \/
  h_opt (r_hdr req) = OptUndo \/
  h_count (r_hdr req) <> Z.of_nat (length (r_items req)).

Definition eco_of (req : request) : Z :=
  if h_opt (r_hdr req) >? 0 then h_opt (r_hdr req) else OptContinue.

Lemma run_handle_request cfg parent req h :
  run (handle_request cfg parent (Some req)) h =
  match run (handle_request_inner cfg (CBatch (length h) :: parent) req) (h ++ [[]]) with
  | Done (inl resp) h' log => Done resp h' log
  | Done (inr e) h' log => prepend log (run (handle_message_error (CBatch (length h) :: parent) (Some req) e) h')
  | Panicked pv h' log => Panicked pv h' log
  end.
Proof.
  unfold handle_request, new_batch_context. cbn [pbind run]. rewrite run_bind.
  destruct (run (handle_request_inner _ _ _) _) as [[resp|e] h' log|pv h' log]; cbn [prepend run].
  - rewrite app_nil_r. reflexivity.
  - reflexivity.
  - reflexivity.
Qed.

Lemma inner_accepted cfg c req h :
  accepted cfg req ->
  exists rs h' log,
    run (handle_request_inner cfg c req) h =
      Done (inl {| rs_ver := h_ver (r_hdr req); rs_count := h_count (r_hdr req); rs_items := rs |}) h' log /\
    loop_rel cfg (eco_of req) 0 false (r_items req) rs log.
Proof.
  intros [Hv [Hu Hc]]. unfold handle_request_inner. rewrite Hv. cbn [negb].
  assert (Hundo : (h_opt (r_hdr req) >? 0) && (h_opt (r_hdr req) =? OptUndo) = false).
  { destruct (h_opt (r_hdr req) =? OptUndo) eqn:E; [apply Z.eqb_eq in E; contradiction|apply andb_false_r]. }
  rewrite Hundo. rewrite Hc, Z.eqb_refl. cbn [negb]. rewrite run_bind. fold (eco_of req).
  destruct (loop_run cfg c (eco_of req) (r_items req) 0 false h) as [rs [h' [log [Hrun Hrel]]]].
  rewrite Hrun. cbn [prepend run]. rewrite app_nil_r, <- Hc.
  eexists _, _, _. split; [reflexivity|exact Hrel].
Qed.

Lemma inner_rejected cfg c req h :
  rejected cfg req ->
  exists reason, run (handle_request_inner cfg c req) h = Done (inr (EKmip reason)) h [] /\
                 (reason = ReasonInvalidMessage \/ reason = ReasonFeatureNotSupported).
Proof.
  intros Hrej. unfold handle_request_inner.
  destruct (vmem (h_ver (r_hdr req)) (supported cfg)) eqn:Hv; cbn [negb].
  2: { eexists. split; [reflexivity|left; reflexivity]. }
  destruct ((h_opt (r_hdr req) >? 0) && (h_opt (r_hdr req) =? OptUndo)) eqn:Hu.
  { eexists. split; [reflexivity|right; reflexivity]. }
  destruct (h_count (r_hdr req) =? Z.of_nat (length (r_items req))) eqn:Hc; cbn [negb].
  2: { eexists. split; [reflexivity|left; reflexivity]. }
  exfalso. destruct Hrej as [H|[H|H]].
  - congruence.
  - rewrite H in Hu. discriminate.
  - apply Z.eqb_eq in Hc. contradiction.
Qed.

Lemma accepted_or_rejected cfg req : accepted cfg req \/ rejected cfg req.
Proof.
  unfold accepted, rejected.
  destruct (vmem (h_ver (r_hdr req)) (supported cfg)); [|right; left; reflexivity].
  destruct (Z.eq_dec (h_opt (r_hdr req)) OptUndo) as [E|E]; [right; right; left; exact E|].
  destruct (Z.eq_dec (h_count (r_hdr req)) (Z.of_nat (length (r_items req)))) as [E2|E2].
  - left. repeat split; assumption.
  - right. right. right. exact E2.
Qed.

(* master lemmas *)
Lemma request_accepted cfg parent req h :
  accepted cfg req ->
  exists rs h' log,
    run (handle_request cfg parent (Some req)) h =
      Done {| rs_ver := h_ver (r_hdr req); rs_count := h_count (r_hdr req); rs_items := rs |} h' log /\
    loop_rel cfg (eco_of req) 0 false (r_items req) rs log.
Proof.
  intros Hacc. rewrite run_handle_request.
  destruct (inner_accepted cfg (CBatch (length h) :: parent) req (h ++ [[]]) Hacc) as [rs [h' [log [Hrun Hrel]]]].
  rewrite Hrun. eexists _, _, _. split; [reflexivity|exact Hrel].
Qed.

Lemma request_rejected cfg parent req h :
  rejected cfg req ->
  exists reason h',
    run (handle_request cfg parent (Some req)) h =
      Done {| rs_ver := if ver_eqb (h_ver (r_hdr req)) ver_zero then v1_0 else h_ver (r_hdr req);
              rs_count := 1;
              rs_items := [{| o_op := 0; o_id := None; o_status := StatusFailed; o_reason := reason; o_pl := RNil |}] |}
           h' [EvFailClear] /\
    (reason = ReasonInvalidMessage \/ reason = ReasonFeatureNotSupported).
Proof.
  intros Hrej. rewrite run_handle_request.
  destruct (inner_rejected cfg (CBatch (length h) :: parent) req (h ++ [[]]) Hrej) as [reason [Hrun Hreason]].
  rewrite Hrun. unfold handle_message_error. rewrite prepend_nil, run_bind, run_hbie_some.
  cbn [prepend run app]. exists reason. eexists. split; [reflexivity|exact Hreason].
Qed.

Lemma forall2_len {A B} (P : A -> B -> Prop) l1 l2 : Forall2 P l1 l2 -> length l1 = length l2.
Proof. induction 1; cbn [length]; congruence. Qed.

(** * C09 theorems *)

Theorem batch_total cfg parent req h :
  exists resp h' log, run (handle_request cfg parent (Some req)) h = Done resp h' log.
Proof.
  destruct (accepted_or_rejected cfg req) as [Ha|Hr].
  - destruct (request_accepted cfg parent req h Ha) as [rs [h' [log [Hrun _]]]]. eexists _, _, _. exact Hrun.
  - destruct (request_rejected cfg parent req h Hr) as [reason [h' [Hrun _]]]. eexists _, _, _. exact Hrun.
Qed.

Ltac use_accepted cfg parent req h Hacc Hrun rs Hrel :=
  let h1 := fresh "h1" in let log1 := fresh "log1" in let Hrun1 := fresh "Hrun1" in
  destruct (request_accepted cfg parent req h Hacc) as [rs [h1 [log1 [Hrun1 Hrel]]]];
  rewrite Hrun1 in Hrun; injection Hrun as <- <- <-.

Theorem batch_shape cfg parent req h resp h' log :
  vmem (h_ver (r_hdr req)) (supported cfg) = true ->
  h_opt (r_hdr req) <> OptUndo ->
  h_count (r_hdr req) = Z.of_nat (length (r_items req)) ->
  run (handle_request cfg parent (Some req)) h = Done resp h' log ->
  rs_ver resp = h_ver (r_hdr req) /\
  rs_count resp = Z.of_nat (length (r_items req)) /\
  length (rs_items resp) = length (r_items req) /\
  Forall2 (fun bi r => o_op r = i_op bi /\ o_id r = i_id bi) (r_items req) (rs_items resp).
Proof.
  intros Hv Hu Hc Hrun. assert (Hacc : accepted cfg req) by (repeat split; assumption).
  use_accepted cfg parent req h Hacc Hrun rs Hrel. cbn [rs_ver rs_count rs_items].
  pose proof (loop_echo _ _ _ _ _ _ _ Hrel) as He.
  repeat split; try assumption.
  symmetry. eapply forall2_len. exact He.
Qed.

Theorem batch_once_in_order cfg parent req h resp h' log :
  run (handle_request cfg parent (Some req)) h = Done resp h' log ->
  StronglySorted Z.lt (calls log) /\
  forall x, In x (calls log) -> 0 <= x < Z.of_nat (length (r_items req)).
Proof.
  intros Hrun. destruct (accepted_or_rejected cfg req) as [Hacc|Hrej].
  - use_accepted cfg parent req h Hacc Hrun rs Hrel.
    destruct (loop_calls_range _ _ _ _ _ _ _ Hrel) as [Hrange Hsorted]. split; [exact Hsorted|].
    rewrite Forall_forall in Hrange. intros x Hx. specialize (Hrange x Hx). lia.
  - destruct (request_rejected cfg parent req h Hrej) as [reason [h1 [Hrun1 _]]].
    rewrite Hrun1 in Hrun. injection Hrun as <- <- <-. cbn. split; [constructor|intros x []].
Qed.

Theorem batch_stop cfg parent req h resp h' log :
  vmem (h_ver (r_hdr req)) (supported cfg) = true ->
  h_count (r_hdr req) = Z.of_nat (length (r_items req)) ->
  h_opt (r_hdr req) = OptStop ->
  run (handle_request cfg parent (Some req)) h = Done resp h' log ->
  forall a ra, nth_error (rs_items resp) a = Some ra -> o_status ra = StatusFailed ->
  forall b, (a < b)%nat ->
    ~ In (Z.of_nat b) (calls log) /\
    (forall rb, nth_error (rs_items resp) b = Some rb -> o_status rb = StatusFailed).
Proof.
  intros Hv Hc Hs Hrun. assert (Hacc : accepted cfg req).
  { repeat split; try assumption. rewrite Hs. discriminate. }
  use_accepted cfg parent req h Hacc Hrun rs Hrel. cbn [rs_items].
  assert (He : eco_of req = OptStop) by (unfold eco_of; rewrite Hs; reflexivity).
  rewrite He in Hrel. intros a ra Ha Hf b Hab.
  exact (loop_stop _ _ _ _ _ _ Hrel a ra Ha Hf b Hab).
Qed.

Theorem batch_stop_prefix cfg parent req h resp h' log :
  vmem (h_ver (r_hdr req)) (supported cfg) = true ->
  h_count (r_hdr req) = Z.of_nat (length (r_items req)) ->
  h_opt (r_hdr req) = OptStop ->
  run (handle_request cfg parent (Some req)) h = Done resp h' log ->
  forall j bj, nth_error (r_items req) j = Some bj ->
  (forall a ra, (a < j)%nat -> nth_error (rs_items resp) a = Some ra -> o_status ra <> StatusFailed) ->
  (In (Z.of_nat j) (calls log) <-> dispatches cfg bj = true).
Proof.
  intros Hv Hc Hs Hrun. assert (Hacc : accepted cfg req).
  { repeat split; try assumption. rewrite Hs. discriminate. }
  use_accepted cfg parent req h Hacc Hrun rs Hrel. cbn [rs_items].
  intros j bj Hj Hpre.
  exact (loop_exec_iff _ _ _ _ _ _ Hrel j bj Hj (or_intror Hpre)).
Qed.

Theorem batch_continue cfg parent req h resp h' log :
  vmem (h_ver (r_hdr req)) (supported cfg) = true ->
  h_count (r_hdr req) = Z.of_nat (length (r_items req)) ->
  h_opt (r_hdr req) <> OptUndo -> h_opt (r_hdr req) <> OptStop ->
  run (handle_request cfg parent (Some req)) h = Done resp h' log ->
  forall j bj, nth_error (r_items req) j = Some bj ->
  (In (Z.of_nat j) (calls log) <-> dispatches cfg bj = true).
Proof.
  intros Hv Hc Hu Hs Hrun. assert (Hacc : accepted cfg req) by (repeat split; assumption).
  use_accepted cfg parent req h Hacc Hrun rs Hrel.
  assert (He : eco_of req <> OptStop).
  { unfold eco_of. destruct (h_opt (r_hdr req) >? 0); [exact Hs|discriminate]. }
  intros j bj Hj.
  exact (loop_exec_iff _ _ _ _ _ _ Hrel j bj Hj (or_introl He)).
Qed.

Theorem batch_reject cfg parent req h resp h' log :
  (vmem (h_ver (r_hdr req)) (supported cfg) = false \/
   h_opt (r_hdr req) = OptUndo \/
   h_count (r_hdr req) <> Z.of_nat (length (r_items req))) ->
  run (handle_request cfg parent (Some req)) h = Done resp h' log ->
  (exists r, rs_items resp = [r] /\ o_status r = StatusFailed /\
             (o_reason r = ReasonInvalidMessage \/ o_reason r = ReasonFeatureNotSupported)) /\
  rs_count resp = 1 /\ calls log = [] /\ rets log = [].
Proof.
  intros Hrej Hrun. destruct (request_rejected cfg parent req h Hrej) as [reason [h1 [Hrun1 Hreason]]].
  rewrite Hrun1 in Hrun. injection Hrun as <- <- <-. cbn [rs_items rs_count]. repeat split.
  eexists. split; [reflexivity|]. split; [reflexivity|exact Hreason].
Qed.

Theorem batch_results cfg parent req h resp h' log :
  vmem (h_ver (r_hdr req)) (supported cfg) = true ->
  h_opt (r_hdr req) <> OptUndo ->
  h_count (r_hdr req) = Z.of_nat (length (r_items req)) ->
  run (handle_request cfg parent (Some req)) h = Done resp h' log ->
  forall j o, In (j, o) (rets log) ->
  exists k r, j = Z.of_nat k /\ nth_error (rs_items resp) k = Some r /\
              o_status r = status_of o /\ o_reason r = reason_of o /\ o_pl r = payload_of o.
Proof.
  intros Hv Hu Hc Hrun. assert (Hacc : accepted cfg req) by (repeat split; assumption).
  use_accepted cfg parent req h Hacc Hrun rs Hrel. cbn [rs_items]. intros j o Hin.
  destruct (loop_rets _ _ _ _ _ _ _ Hrel j o Hin) as [k [r [Hj Hrest]]].
  exists k, r. split; [lia|exact Hrest].
Qed.

Theorem batch_unexecuted cfg parent req h resp h' log :
  vmem (h_ver (r_hdr req)) (supported cfg) = true ->
  h_opt (r_hdr req) <> OptUndo ->
  h_count (r_hdr req) = Z.of_nat (length (r_items req)) ->
  run (handle_request cfg parent (Some req)) h = Done resp h' log ->
  forall j bj rj, nth_error (r_items req) j = Some bj -> nth_error (rs_items resp) j = Some rj ->
  ~ In (Z.of_nat j) (calls log) ->
  (o_status rj = StatusFailed /\ o_pl rj = RNil) \/
  (exists vs, i_pl bj = PDiscover vs /\ routed cfg (i_op bj) = false /\ o_status rj = StatusSuccess /\
              o_pl rj = RDiscover (handle_discover (supported cfg) vs)).
Proof.
  intros Hv Hu Hc Hrun. assert (Hacc : accepted cfg req) by (repeat split; assumption).
  use_accepted cfg parent req h Hacc Hrun rs Hrel. cbn [rs_items]. intros j bj rj Hj Hr Hnin.
  exact (loop_unexecuted _ _ _ _ _ _ _ Hrel j bj rj Hj Hr Hnin).
Qed.

(** Non-vacuity: a Stop batch whose second item fails, and a rejected Undo batch. *)
Definition ex_cfg : config :=
  scripted_config [(1,4); (1,3)] [10]
    [(0, ([SSet HOwn [97]], HOk (RKey 0))); (1, ([SRead HOwn], HErr RNil (EWrap (EKmip 1)))); (2, ([], HOk RNil))].
Definition ex_items : list item :=
  [ {| i_op := 10; i_id := Some [1]; i_ext := None; i_pl := POther 0 |};
    {| i_op := 10; i_id := None; i_ext := None; i_pl := POther 1 |};
    {| i_op := 10; i_id := Some [3]; i_ext := None; i_pl := POther 2 |} ].
Definition ex_req (opt : Z) : request :=
  {| r_hdr := {| h_ver := (1,3); h_opt := opt; h_count := 3 |}; r_items := ex_items |}.

Lemma batch_example :
  vmem (h_ver (r_hdr (ex_req OptStop))) (supported ex_cfg) = true /\
  h_count (r_hdr (ex_req OptStop)) = Z.of_nat (length (r_items (ex_req OptStop))) /\
  (exists resp h' log,
     run (handle_request ex_cfg [CConn 7] (Some (ex_req OptStop))) [] = Done resp h' log /\
     calls log = [0; 1] /\ rets log = [(0, HOk (RKey 0)); (1, HErr RNil (EWrap (EKmip 1)))] /\
     map o_status (rs_items resp) = [StatusSuccess; StatusFailed; StatusFailed] /\
     map o_reason (rs_items resp) = [0; 1; ReasonCanceledByRequester]) /\
  (exists resp h' log,
     run (handle_request ex_cfg [CConn 7] (Some (ex_req OptContinue))) [] = Done resp h' log /\
     calls log = [0; 1; 2] /\
     map o_status (rs_items resp) = [StatusSuccess; StatusFailed; StatusSuccess]) /\
  (exists resp h' log,
     run (handle_request ex_cfg [CConn 7] (Some (ex_req OptUndo))) [] = Done resp h' log /\
     calls log = [] /\ map o_status (rs_items resp) = [StatusFailed] /\
     map o_reason (rs_items resp) = [ReasonFeatureNotSupported]).
Proof.
  split; [reflexivity|]. split; [reflexivity|]. repeat split.
  - eexists _, _, _. split; [vm_compute; reflexivity|]. repeat split.
  - eexists _, _, _. split; [vm_compute; reflexivity|]. repeat split.
  - eexists _, _, _. split; [vm_compute; reflexivity|]. repeat split.
Qed.

(** * C15, one request alone: the placeholder flows from item to item *)

Definition out_heap {R} (o : outcome R) : heap :=
  match o with Done _ h _ => h | Panicked _ h _ => h end.

Lemma out_log_prepend {R} pre (o : outcome R) : out_log (prepend pre o) = pre ++ out_log o.
Proof. destruct o; reflexivity. Qed.
Lemma out_heap_prepend {R} pre (o : outcome R) : out_heap (prepend pre o) = out_heap o.
Proof. destruct o; reflexivity. Qed.

Lemma str_eqb_refl s : str_eqb s s = true.
Proof. induction s as [|x s IH]; cbn [str_eqb]; [reflexivity|]. rewrite Z.eqb_refl. exact IH. Qed.

Lemma str_eqb_eq a : forall b, str_eqb a b = true -> a = b.
Proof.
  induction a as [|x a IH]; intros [|y b] H; cbn [str_eqb] in H; try discriminate; [reflexivity|].
  apply andb_prop in H. destruct H as [H1 H2]. apply Z.eqb_eq in H1. apply IH in H2. congruence.
Qed.

Lemma length_upd h : forall l v, length (upd h l v) = length h.
Proof. induction h as [|x h IH]; intros [|l] v; cbn [upd length]; try reflexivity. rewrite IH. reflexivity. Qed.

Lemma cell_upd_same h : forall l v, (l < length h)%nat -> cell (upd h l v) l = v.
Proof.
  unfold cell. induction h as [|x h IH]; intros [|l] v Hl; cbn [length] in Hl; try lia; cbn [upd nth].
  - reflexivity.
  - apply IH. lia.
Qed.

Lemma cell_upd_other h : forall l l' v, l <> l' -> cell (upd h l v) l' = cell h l'.
Proof.
  unfold cell. induction h as [|x h IH]; intros [|l] [|l'] v Hne; cbn [upd nth]; try reflexivity; try congruence.
  apply IH. congruence.
Qed.

Lemma cell_app_lt h t l : (l < length h)%nat -> cell (h ++ t) l = cell h l.
Proof. intros Hl. unfold cell. apply app_nth1. exact Hl. Qed.

Lemma cell_app_new h : cell (h ++ [[]]) (length h) = [].
Proof. unfold cell. rewrite app_nth2; [|lia]. rewrite Nat.sub_diag. reflexivity. Qed.

Lemma flow_app a : forall v b,
  flow v (a ++ b) = match flow v a with Some v' => flow v' b | None => None end.
Proof.
  induction a as [|e a IH]; intros v b; [reflexivity|].
  cbn [app]. destruct e as [i|i hc x|i hc q r|i hc s|i hc|i o|]; cbn [flow].
  - apply IH.
  - destruct hc.
    + destruct (str_eqb x v); [apply IH|reflexivity].
    + destruct (str_is_empty x); [apply IH|reflexivity].
  - destruct r as [a0|], (if negb (str_is_empty q) then Some q else _) as [b0|]; try reflexivity.
    + destruct (str_eqb a0 b0); [apply IH|reflexivity].
    + apply IH.
  - destruct hc; apply IH.
  - destruct hc; apply IH.
  - apply IH.
  - apply IH.
Qed.

(* [tracks l p]: run on a heap where cell [l] exists, [p]'s log is a consistent account of what
   happens to that cell *)
Definition tracks {R} (l : nat) (p : prog R) : Prop :=
  forall h, (l < length h)%nat ->
    flow (cell h l) (out_log (run p h)) = Some (cell (out_heap (run p h)) l) /\
    length (out_heap (run p h)) = length h.

Lemma tracks_ret {R} l (r : R) : tracks l (Ret r).
Proof. intros h Hl. split; reflexivity. Qed.

Lemma tracks_throw {R} l pv : tracks l (@Throw R pv).
Proof. intros h Hl. split; reflexivity. Qed.

Lemma tracks_bind {A B} l (p : prog A) (f : A -> prog B) :
  tracks l p -> (forall a, tracks l (f a)) -> tracks l (pbind p f).
Proof.
  intros Hp Hf h Hl. rewrite run_bind. specialize (Hp h Hl).
  destruct (run p h) as [a h1 log1|pv h1 log1]; cbn [out_log out_heap] in Hp; destruct Hp as [Hp1 Hp2].
  - rewrite out_log_prepend, out_heap_prepend, flow_app, Hp1.
    assert (Hl1 : (l < length h1)%nat) by lia.
    destruct (Hf a h1 Hl1) as [Hf1 Hf2]. split; [exact Hf1|lia].
  - split; assumption.
Qed.

Lemma tracks_try_catch {A} l (p : prog A) hd :
  tracks l p -> (forall pv, tracks l (hd pv)) -> tracks l (try_catch p hd).
Proof.
  intros Hp Hh h Hl. rewrite run_try_catch. specialize (Hp h Hl).
  destruct (run p h) as [a h1 log1|pv h1 log1]; cbn [out_log out_heap] in Hp; destruct Hp as [Hp1 Hp2].
  - split; assumption.
  - rewrite out_log_prepend, out_heap_prepend, flow_app, Hp1.
    assert (Hl1 : (l < length h1)%nat) by lia.
    destruct (Hh pv h1 Hl1) as [Hf1 Hf2]. split; [exact Hf1|lia].
Qed.

Definition neutral (e : event) : Prop :=
  match e with EvCall _ | EvRet _ _ | EvSet _ HBare _ | EvClear _ HBare => True | _ => False end.

Lemma tracks_emit {R} l e (k : prog R) : neutral e -> tracks l k -> tracks l (Emit e k).
Proof.
  intros Hn Hk h Hl. cbn [run]. rewrite out_log_prepend, out_heap_prepend. specialize (Hk h Hl).
  destruct e as [i|i hc x|i hc q r|i hc s|i hc|i o|]; cbn in Hn; try contradiction;
    try (destruct hc; try contradiction); cbn [app flow]; exact Hk.
Qed.

Section Tracks.
  Variable cfg : config.
  Variable c : ctx.
  Variable l : nat.
  Hypothesis Hc : ctx_batch c = Some l.

  Lemma ctx_batch_resolve hc :
    ctx_batch (resolve c hc) = match hc with HOwn => Some l | HBare => None end.
  Proof. destruct hc; [exact Hc|reflexivity]. Qed.

  Lemma tracks_hprog idx : forall hp, tracks l (run_hprog c idx hp).
  Proof.
    induction hp as [o|hc k IH|hc q k IH|hc s k IH|hc k IH]; cbn [run_hprog].
    - apply tracks_emit; [exact I|]. destruct o; [apply tracks_ret|apply tracks_ret|apply tracks_throw].
    - intros h Hl. rewrite run_bind, run_id_placeholder, ctx_batch_resolve. cbn [prepend app run].
      rewrite prepend_nil, out_log_prepend, out_heap_prepend. cbn [app flow].
      destruct hc.
      + rewrite str_eqb_refl. apply IH. exact Hl.
      + cbn [str_is_empty]. apply IH. exact Hl.
    - intros h Hl. rewrite run_bind, run_get_or, ctx_batch_resolve. cbn [prepend app run].
      rewrite prepend_nil, out_log_prepend, out_heap_prepend. cbn [app flow].
      assert (Hseen : match hc with HOwn => cell h l | HBare => [] end =
                      match match hc with HOwn => Some l | HBare => None end with Some l0 => cell h l0 | None => [] end)
        by (destruct hc; reflexivity).
      rewrite <- Hseen.
      destruct (negb (str_is_empty q)).
      + rewrite str_eqb_refl. apply IH. exact Hl.
      + cbv zeta. destruct (negb (str_is_empty (match hc with HOwn => cell h l | HBare => [] end))).
        * rewrite str_eqb_refl. apply IH. exact Hl.
        * apply IH. exact Hl.
    - intros h Hl. rewrite run_bind, run_set, ctx_batch_resolve. destruct hc.
      + cbn [prepend app run]. rewrite prepend_nil, out_log_prepend, out_heap_prepend. cbn [app flow].
        assert (Hl' : (l < length (upd h l s))%nat) by (rewrite length_upd; exact Hl).
        destruct (IH (upd h l s) Hl') as [H1 H2]. rewrite cell_upd_same in H1 by exact Hl.
        split; [exact H1|]. rewrite H2. apply length_upd.
      + cbn. split; reflexivity.
    - intros h Hl. rewrite run_bind, run_clear, ctx_batch_resolve. cbn [prepend app run].
      rewrite prepend_nil, out_log_prepend, out_heap_prepend. cbn [app flow]. destruct hc.
      + assert (Hl' : (l < length (upd h l []))%nat) by (rewrite length_upd; exact Hl).
        destruct (IH (upd h l []) Hl') as [H1 H2]. rewrite cell_upd_same in H1 by exact Hl.
        split; [exact H1|]. rewrite H2. apply length_upd.
      + apply IH. exact Hl.
  Qed.

  Lemma tracks_hbie bi err : tracks l (handle_batch_item_error c bi err).
  Proof.
    destruct err as [e|]; [|apply tracks_ret].
    intros h Hl. rewrite run_hbie_some, Hc. cbn [out_log out_heap flow].
    rewrite cell_upd_same by exact Hl. split; [reflexivity|apply length_upd].
  Qed.

  Lemma tracks_call idx bi : tracks l (call_handler cfg c idx bi).
  Proof. unfold call_handler. apply tracks_emit; [exact I|apply tracks_hprog]. Qed.

  Lemma tracks_item idx bi : tracks l (execute_item_mw cfg c idx bi).
  Proof.
    unfold execute_item_mw. apply tracks_bind; [|intros x; apply tracks_hbie].
    unfold execute_item. apply tracks_try_catch.
    - destruct (i_ext bi) as [[|]|]; [apply tracks_ret| |];
        (destruct (i_pl bi); destruct (routed cfg (i_op bi)); try apply tracks_ret;
         (apply tracks_bind; [apply tracks_call|intros x; apply tracks_ret])).
    - intros pv. apply tracks_bind; [apply tracks_hbie|intros r; apply tracks_ret].
  Qed.

  Lemma tracks_loop eco : forall items i st, tracks l (item_loop cfg c eco i st items).
  Proof.
    induction items as [|bi rest IH]; intros i st; cbn [item_loop]; [apply tracks_ret|].
    destruct st.
    - apply tracks_bind; [apply IH|intros rs; apply tracks_ret].
    - apply tracks_bind; [apply tracks_item|intros r].
      apply tracks_bind; [apply IH|intros rs; apply tracks_ret].
  Qed.

  Lemma tracks_inner req : tracks l (handle_request_inner cfg c req).
  Proof.
    unfold handle_request_inner.
    destruct (negb (vmem _ _)); [apply tracks_ret|].
    destruct (_ && _); [apply tracks_ret|].
    destruct (negb (_ =? _)); [apply tracks_ret|].
    apply tracks_bind; [apply tracks_loop|intros rs; apply tracks_ret].
  Qed.

  Lemma tracks_message_error req e : tracks l (handle_message_error c req e).
  Proof. unfold handle_message_error. apply tracks_bind; [apply tracks_hbie|intros bi; apply tracks_ret]. Qed.
End Tracks.

(* C15, sequential half: whatever the shared heap holds and whatever context the request
   arrives in, the log of a request is consistent with a placeholder that starts empty *)
Theorem placeholder_flow cfg parent req h :
  exists v, flow [] (out_log (run (handle_request cfg parent req) h)) = Some v.
Proof.
  destruct req as [r|]; [|exists []; reflexivity].
  unfold handle_request, new_batch_context. cbn [pbind run].
  set (c := CBatch (length h) :: parent).
  assert (Hc : ctx_batch c = Some (length h)) by reflexivity.
  assert (Ht : tracks (length h)
                 (dop x <- handle_request_inner cfg c r ;;
                  match x with inl resp => Ret resp | inr e => handle_message_error c (Some r) e end)).
  { apply tracks_bind; [apply tracks_inner; exact Hc|].
    intros [resp|e]; [apply tracks_ret|apply tracks_message_error; exact Hc]. }
  assert (Hl : (length h < length (h ++ [[]]))%nat) by (rewrite app_length; cbn; lia).
  destruct (Ht (h ++ [[]]) Hl) as [H1 _]. rewrite cell_app_new in H1.
  eexists. exact H1.
Qed.

(* a read that no SetIdPlaceholder of the same request precedes returns the empty string *)
Definition is_set (e : event) : bool := match e with EvSet _ HOwn _ => true | _ => false end.

Lemma flow_no_set pre : forall v v', flow v pre = Some v' -> forallb (fun e => negb (is_set e)) pre = true -> v = [] -> v' = [].
Proof.
  induction pre as [|e pre IH]; intros v v' Hf Hns Hv; cbn [flow] in Hf.
  - congruence.
  - cbn [forallb] in Hns. apply andb_prop in Hns. destruct Hns as [He Hns].
    destruct e as [i|i hc x|i hc q r|i hc s|i hc|i o|]; cbn [flow] in Hf.
    + eapply IH; eassumption.
    + destruct hc; [destruct (str_eqb x v)|destruct (str_is_empty x)]; try discriminate; eapply IH; eassumption.
    + destruct r as [a0|], (if negb (str_is_empty q) then Some q else _) as [b0|]; try discriminate.
      * destruct (str_eqb a0 b0); [|discriminate]. eapply IH; eassumption.
      * eapply IH; eassumption.
    + destruct hc; [discriminate He|]. eapply IH; eassumption.
    + destruct hc; eapply IH; try eassumption. reflexivity.
    + eapply IH; eassumption.
    + eapply IH; try eassumption. reflexivity.
Qed.

Theorem placeholder_fresh cfg parent req h pre i hc v post :
  out_log (run (handle_request cfg parent req) h) = pre ++ EvRead i hc v :: post ->
  forallb (fun e => negb (is_set e)) pre = true ->
  v = [].
Proof.
  intros Hlog Hns. destruct (placeholder_flow cfg parent req h) as [vf Hf].
  rewrite Hlog, flow_app in Hf.
  destruct (flow [] pre) as [v'|] eqn:Hpre; [|discriminate].
  assert (Hv' : v' = []) by (eapply flow_no_set; [exact Hpre|exact Hns|reflexivity]).
  subst v'. cbn [flow] in Hf. destruct hc.
  - destruct (str_eqb v []) eqn:E; [|discriminate]. apply str_eqb_eq in E. exact E.
  - destruct v; [reflexivity|discriminate].
Qed.

(** * C15, concurrent half: requests interleaved on one heap do not see each other *)

(* [sim l1 l2 p1 p2]: the same program up to the name of the one cell it uses *)
Inductive sim {R} (l1 l2 : nat) : prog R -> prog R -> Prop :=
| sim_ret r : sim l1 l2 (Ret r) (Ret r)
| sim_throw pv : sim l1 l2 (Throw pv) (Throw pv)
| sim_load k1 k2 : (forall v, sim l1 l2 (k1 v) (k2 v)) -> sim l1 l2 (Load l1 k1) (Load l2 k2)
| sim_store v k1 k2 : sim l1 l2 k1 k2 -> sim l1 l2 (Store l1 v k1) (Store l2 v k2)
| sim_emit e k1 k2 : sim l1 l2 k1 k2 -> sim l1 l2 (Emit e k1) (Emit e k2).

Lemma sim_bind {A B} l1 l2 (p1 p2 : prog A) (f1 f2 : A -> prog B) :
  sim l1 l2 p1 p2 -> (forall a, sim l1 l2 (f1 a) (f2 a)) -> sim l1 l2 (pbind p1 f1) (pbind p2 f2).
Proof.
  intros Hp Hf. induction Hp as [r|pv|k1 k2 _ IH|v k1 k2 _ IH|e k1 k2 _ IH]; cbn [pbind].
  - apply Hf.
  - constructor.
  - constructor. exact IH.
  - constructor. exact IH.
  - constructor. exact IH.
Qed.

Lemma sim_try_catch {A} l1 l2 (p1 p2 : prog A) hd1 hd2 :
  sim l1 l2 p1 p2 -> (forall pv, sim l1 l2 (hd1 pv) (hd2 pv)) -> sim l1 l2 (try_catch p1 hd1) (try_catch p2 hd2).
Proof.
  intros Hp Hh. induction Hp as [r|pv|k1 k2 _ IH|v k1 k2 _ IH|e k1 k2 _ IH]; cbn [try_catch].
  - constructor.
  - apply Hh.
  - constructor. exact IH.
  - constructor. exact IH.
  - constructor. exact IH.
Qed.

(* two contexts that differ only in which cell their innermost batch entry points to *)
Definition csim (l1 l2 : nat) (c1 c2 : ctx) : Prop :=
  (ctx_batch c1 = Some l1 /\ ctx_batch c2 = Some l2) \/ (ctx_batch c1 = None /\ ctx_batch c2 = None).

Lemma csim_resolve l1 l2 c1 c2 hc : csim l1 l2 c1 c2 -> csim l1 l2 (resolve c1 hc) (resolve c2 hc).
Proof. intros H. destruct hc; [exact H|right; split; reflexivity]. Qed.

Section Sim.
  Variable cfg : config.
  Variables l1 l2 : nat.

  Lemma sim_idp c1 c2 : csim l1 l2 c1 c2 -> sim l1 l2 (id_placeholder c1) (id_placeholder c2).
  Proof.
    unfold id_placeholder. intros [[-> ->]|[-> ->]]; [|constructor].
    constructor. intros v. constructor.
  Qed.

  Lemma sim_get_or c1 c2 q : csim l1 l2 c1 c2 -> sim l1 l2 (get_id_or_placeholder c1 q) (get_id_or_placeholder c2 q).
  Proof.
    intros H. unfold get_id_or_placeholder. destruct (negb (str_is_empty q)); [constructor|].
    apply sim_bind; [apply sim_idp; exact H|]. intros idp. destruct (negb (str_is_empty idp)); constructor.
  Qed.

  Lemma sim_set c1 c2 s : csim l1 l2 c1 c2 -> sim l1 l2 (set_id_placeholder c1 s) (set_id_placeholder c2 s).
  Proof.
    unfold set_id_placeholder. intros [[-> ->]|[-> ->]]; [|constructor]. constructor. constructor.
  Qed.

  Lemma sim_clear c1 c2 : csim l1 l2 c1 c2 -> sim l1 l2 (clear_id_placeholder c1) (clear_id_placeholder c2).
  Proof.
    unfold clear_id_placeholder. intros [[-> ->]|[-> ->]]; [|constructor]. constructor. constructor.
  Qed.

  Variables c1 c2 : ctx.
  Hypothesis Hc : csim l1 l2 c1 c2.

  Lemma sim_hprog idx : forall hp, sim l1 l2 (run_hprog c1 idx hp) (run_hprog c2 idx hp).
  Proof.
    induction hp as [o|hc k IH|hc q k IH|hc s k IH|hc k IH]; cbn [run_hprog].
    - constructor. destruct o; constructor.
    - apply sim_bind; [apply sim_idp, csim_resolve, Hc|]. intros v. constructor. apply IH.
    - apply sim_bind; [apply sim_get_or, csim_resolve, Hc|]. intros r. constructor. apply IH.
    - apply sim_bind; [apply sim_set, csim_resolve, Hc|]. intros u. constructor. apply IH.
    - apply sim_bind; [apply sim_clear, csim_resolve, Hc|]. intros u. constructor. apply IH.
  Qed.

  Lemma sim_hbie bi err : sim l1 l2 (handle_batch_item_error c1 bi err) (handle_batch_item_error c2 bi err).
  Proof.
    destruct err as [e|]; [|constructor]. unfold handle_batch_item_error.
    apply sim_bind; [apply sim_clear, Hc|]. intros u. constructor. constructor.
  Qed.

  Lemma sim_call idx bi : sim l1 l2 (call_handler cfg c1 idx bi) (call_handler cfg c2 idx bi).
  Proof. unfold call_handler. constructor. apply sim_hprog. Qed.

  Lemma sim_item idx bi : sim l1 l2 (execute_item_mw cfg c1 idx bi) (execute_item_mw cfg c2 idx bi).
  Proof.
    unfold execute_item_mw. apply sim_bind; [|intros x; apply sim_hbie].
    unfold execute_item. apply sim_try_catch.
    - destruct (i_ext bi) as [[|]|]; [apply sim_ret| |];
        (destruct (i_pl bi); destruct (routed cfg (i_op bi)); try apply sim_ret;
         (apply sim_bind; [apply sim_call|intros x; apply sim_ret])).
    - intros pv. apply sim_bind; [apply sim_hbie|intros r; constructor].
  Qed.

  Lemma sim_loop eco : forall items i st, sim l1 l2 (item_loop cfg c1 eco i st items) (item_loop cfg c2 eco i st items).
  Proof.
    induction items as [|bi rest IH]; intros i st; cbn [item_loop]; [constructor|].
    destruct st.
    - apply sim_bind; [apply IH|intros rs; constructor].
    - apply sim_bind; [apply sim_item|intros r].
      apply sim_bind; [apply IH|intros rs; constructor].
  Qed.

  Lemma sim_inner req : sim l1 l2 (handle_request_inner cfg c1 req) (handle_request_inner cfg c2 req).
  Proof.
    unfold handle_request_inner.
    destruct (negb (vmem _ _)); [constructor|].
    destruct (_ && _); [constructor|].
    destruct (negb (_ =? _)); [constructor|].
    apply sim_bind; [apply sim_loop|intros rs; constructor].
  Qed.

  Lemma sim_message_error req e : sim l1 l2 (handle_message_error c1 req e) (handle_message_error c2 req e).
  Proof. unfold handle_message_error. apply sim_bind; [apply sim_hbie|intros bi; constructor]. Qed.
End Sim.

(* a program that allocates its one cell first and then only ever touches that cell *)
Definition scoped {R} (p : prog R) : Prop :=
  match p with
  | Alloc k => forall l1 l2, sim l1 l2 (k l1) (k l2)
  | Ret _ => True
  | Throw _ => True
  | _ => False
  end.

Lemma handle_request_scoped cfg parent req : scoped (handle_request cfg parent req).
Proof.
  destruct req as [r|]; [|exact I]. unfold handle_request, new_batch_context. cbn [pbind scoped].
  intros l1 l2.
  assert (Hc : csim l1 l2 (CBatch l1 :: parent) (CBatch l2 :: parent)) by (left; split; reflexivity).
  apply sim_bind; [apply sim_inner; exact Hc|].
  intros [resp|e]; [constructor|apply sim_message_error; exact Hc].
Qed.

Lemma length_set_nth {A} (l : list A) : forall i x, length (set_nth l i x) = length l.
Proof. induction l as [|y l IH]; intros [|i] x; cbn [set_nth length]; try reflexivity. rewrite IH. reflexivity. Qed.

Lemma nth_error_set_nth_same {A} (l : list A) : forall i x y, nth_error l i = Some y -> nth_error (set_nth l i x) i = Some x.
Proof.
  induction l as [|z l IH]; intros [|i] x y H; cbn [set_nth nth_error] in *; try discriminate; [reflexivity|].
  eapply IH. exact H.
Qed.

Lemma nth_error_set_nth_other {A} (l : list A) : forall i j x, j <> i -> nth_error (set_nth l i x) j = nth_error l j.
Proof.
  induction l as [|z l IH]; intros [|i] [|j] x H; cbn [set_nth nth_error]; try reflexivity; try congruence.
  apply IH. congruence.
Qed.

Lemma set_nth_id {A} (l : list A) : forall i x, nth_error l i = Some x -> set_nth l i x = l.
Proof.
  induction l as [|z l IH]; intros [|i] x H; cbn [set_nth nth_error] in *; try discriminate.
  - congruence.
  - rewrite IH by exact H. reflexivity.
Qed.

Section Pool.
  Context {R : Type}.
  Variable ps : list (prog R).                      (* the requests, as programs *)
  Hypothesis Hscoped : forall p, In p ps -> scoped p.
  Variable h1 : heap.                               (* the heap each is run alone on, for comparison *)

  (* thread [t], which started as [p0], is in step with the solo run of [p0] on [h1] *)
  Definition tinv (h : heap) (p0 : prog R) (t : thread R) : Prop :=
    match t_loc t with
    | None => t_prog t = p0 /\ t_log t = []
    | Some l =>
      (l < length h)%nat /\
      exists l' p' h', (l' < length h')%nat /\ sim l l' (t_prog t) p' /\ cell h l = cell h' l' /\
                       run p0 h1 = prepend (t_log t) (run p' h')
    end.

  Definition pinv (st : heap * list (thread R)) : Prop :=
    length (snd st) = length ps /\
    (forall j t, nth_error (snd st) j = Some t -> exists p0, nth_error ps j = Some p0 /\ tinv (fst st) p0 t) /\
    (forall i j ti tj l, nth_error (snd st) i = Some ti -> nth_error (snd st) j = Some tj ->
                         t_loc ti = Some l -> t_loc tj = Some l -> i = j).

  Lemma tinv_frame h h2 p0 t :
    tinv h p0 t ->
    (forall l, t_loc t = Some l -> (l < length h)%nat -> (l < length h2)%nat /\ cell h2 l = cell h l) ->
    tinv h2 p0 t.
  Proof.
    unfold tinv. intros Ht Hfr. destruct (t_loc t) as [l|]; [|exact Ht].
    destruct Ht as [Hl [l' [p' [h' [Hl' [Hsim [Hcell Hrun]]]]]]].
    destruct (Hfr l eq_refl Hl) as [Hl2 Hc2]. split; [exact Hl2|].
    exists l', p', h'. repeat split; try assumption. congruence.
  Qed.

  Lemma pinv_update h ts i t h2 t2 p0 :
    pinv (h, ts) -> nth_error ts i = Some t -> nth_error ps i = Some p0 ->
    tinv h2 p0 t2 ->
    (forall l, t_loc t2 = Some l -> t_loc t = Some l \/ (length h <= l)%nat) ->
    (forall j tj lj, j <> i -> nth_error ts j = Some tj -> t_loc tj = Some lj -> (lj < length h)%nat ->
                     (lj < length h2)%nat /\ cell h2 lj = cell h lj) ->
    pinv (h2, set_nth ts i t2).
  Proof.
    intros [Hlen [Hall Huniq]] Ht Hp0 Ht2 Hloc Hfr. cbn [fst snd] in *.
    assert (Hbound : forall j tj lj, nth_error ts j = Some tj -> t_loc tj = Some lj -> (lj < length h)%nat).
    { intros j tj lj Hj Hlj. destruct (Hall j tj Hj) as [pj [_ Hinv]]. unfold tinv in Hinv. rewrite Hlj in Hinv.
      destruct Hinv as [H _]. exact H. }
    split; [|split]; cbn [fst snd].
    - rewrite length_set_nth. exact Hlen.
    - intros j t' Hj. destruct (Nat.eq_dec j i) as [->|Hne].
      + rewrite (nth_error_set_nth_same _ _ _ _ Ht) in Hj. injection Hj as <-. exists p0. split; assumption.
      + rewrite nth_error_set_nth_other in Hj by exact Hne.
        destruct (Hall j t' Hj) as [pj [Hpj Hinv]]. exists pj. split; [exact Hpj|].
        eapply tinv_frame; [exact Hinv|]. intros l Hl Hlt. eapply Hfr; eassumption.
    - intros a b ta tb l Ha Hb Hla Hlb.
      destruct (Nat.eq_dec a i) as [->|Hai]; destruct (Nat.eq_dec b i) as [->|Hbi]; try reflexivity.
      + rewrite (nth_error_set_nth_same _ _ _ _ Ht) in Ha. injection Ha as <-.
        rewrite nth_error_set_nth_other in Hb by exact Hbi.
        destruct (Hloc l Hla) as [Hold|Hfresh].
        * exact (Huniq i b t tb l Ht Hb Hold Hlb).
        * pose proof (Hbound b tb l Hb Hlb). lia.
      + rewrite (nth_error_set_nth_same _ _ _ _ Ht) in Hb. injection Hb as <-.
        rewrite nth_error_set_nth_other in Ha by exact Hai.
        destruct (Hloc l Hlb) as [Hold|Hfresh].
        * exact (Huniq a i ta t l Ha Ht Hla Hold).
        * pose proof (Hbound a ta l Ha Hla). lia.
      + rewrite nth_error_set_nth_other in Ha by exact Hai.
        rewrite nth_error_set_nth_other in Hb by exact Hbi.
        exact (Huniq a b ta tb l Ha Hb Hla Hlb).
  Qed.

  Lemma pinv_step i st : pinv st -> pinv (step_pool i st).
  Proof.
    destruct st as [h ts]. intros Hinv. unfold step_pool. cbn [fst snd].
    destruct (nth_error ts i) as [t|] eqn:Ht; [|exact Hinv].
    pose proof Hinv as [Hlen [Hall Huniq]]. cbn [fst snd] in *.
    destruct (Hall i t Ht) as [p0 [Hp0 Htinv]].
    assert (Hsc : scoped p0) by (apply Hscoped; eapply nth_error_In; exact Hp0).
    unfold step_thread. unfold tinv in Htinv.
    destruct (t_loc t) as [l|] eqn:Hloc.
    - (* running on its own cell [l] *)
      destruct Htinv as [Hl [l' [p' [h' [Hl' [Hsim [Hcell Hrun]]]]]]].
      destruct (t_prog t) as [r|k|l0 k|l0 v k|e k|pv] eqn:Hp.
      + rewrite (set_nth_id _ _ _ Ht). exact Hinv.
      + inversion Hsim.
      + inversion Hsim as [| |k1 k2 Hk| |]; subst.
        eapply pinv_update; try eassumption.
        * unfold tinv. cbn [t_loc t_prog t_log]. split; [exact Hl|].
          exists l', (k2 (cell h l0)), h'. repeat split; try assumption; [apply Hk|].
          rewrite Hrun. cbn [run]. rewrite Hcell. reflexivity.
        * intros l1 Hl1. cbn [t_loc] in Hl1. left. congruence.
        * intros j tj lj _ _ _ Hlt. split; [exact Hlt|reflexivity].
      + inversion Hsim as [| | |v0 k1 k2 Hk|]; subst.
        eapply pinv_update; try eassumption.
        * unfold tinv. cbn [t_loc t_prog t_log]. split; [rewrite length_upd; exact Hl|].
          exists l', k2, (upd h' l' v). repeat split; try assumption.
          -- rewrite length_upd. exact Hl'.
          -- rewrite !cell_upd_same by assumption. reflexivity.
        * intros l1 Hl1. cbn [t_loc] in Hl1. left. congruence.
        * intros j tj lj Hji Hj Hlj Hlt. split; [rewrite length_upd; exact Hlt|].
          apply cell_upd_other. intros ->. apply Hji. exact (Huniq j i tj t lj Hj Ht Hlj Hloc).
      + inversion Hsim as [| | | |e0 k1 k2 Hk]; subst.
        eapply pinv_update; try eassumption.
        * unfold tinv. cbn [t_loc t_prog t_log]. split; [exact Hl|].
          exists l', k2, h'. repeat split; try assumption.
          rewrite Hrun. cbn [run]. rewrite prepend_app. reflexivity.
        * intros l1 Hl1. cbn [t_loc] in Hl1. left. congruence.
        * intros j tj lj _ _ _ Hlt. split; [exact Hlt|reflexivity].
      + rewrite (set_nth_id _ _ _ Ht). exact Hinv.
    - (* not started yet *)
      destruct Htinv as [Hp Hlog]. rewrite Hp.
      destruct p0 as [r|k|l0 k|l0 v k|e k|pv]; cbn [scoped] in Hsc; try contradiction.
      + rewrite (set_nth_id _ _ _ Ht). exact Hinv.
      + eapply pinv_update; try eassumption.
        * unfold tinv. cbn [t_loc t_prog t_log]. split; [rewrite app_length; cbn [length]; lia|].
          exists (length h1), (k (length h1)), (h1 ++ [[]]). repeat split.
          -- rewrite app_length. cbn [length]. lia.
          -- apply Hsc.
          -- rewrite !cell_app_new. reflexivity.
          -- rewrite Hlog, prepend_nil. reflexivity.
        * intros l1 Hl1. cbn [t_loc] in Hl1. right. injection Hl1 as <-. lia.
        * intros j tj lj _ _ _ Hlt. split; [rewrite app_length; lia|apply cell_app_lt; exact Hlt].
      + rewrite (set_nth_id _ _ _ Ht). exact Hinv.
  Qed.

  Lemma pinv_run sched : forall st, pinv st -> pinv (run_pool sched st).
  Proof.
    unfold run_pool. induction sched as [|i sched IH]; intros st Hinv; cbn [fold_left]; [exact Hinv|].
    apply IH. apply pinv_step. exact Hinv.
  Qed.

  Lemma pinv_init h0 : pinv (h0, map spawn ps).
  Proof.
    split; [|split]; cbn [fst snd].
    - apply map_length.
    - intros j t Hj. rewrite nth_error_map in Hj. destruct (nth_error ps j) as [p0|]; [|discriminate].
      cbn in Hj. injection Hj as <-. exists p0. split; [reflexivity|]. split; reflexivity.
    - intros i j ti tj l Hi _ Hli _. rewrite nth_error_map in Hi. destruct (nth_error ps i); [|discriminate].
      cbn in Hi. injection Hi as <-. discriminate.
  Qed.

  (* isolation: under any schedule, what a request has logged so far is a prefix of what it
     logs when run alone, and a finished request has exactly its solo result and log *)
  Theorem pool_isolated sched h0 i t p0 :
    nth_error (snd (run_pool sched (h0, map spawn ps))) i = Some t ->
    nth_error ps i = Some p0 ->
    (exists rest, out_log (run p0 h1) = t_log t ++ rest) /\
    (forall r, t_prog t = Ret r -> exists h', run p0 h1 = Done r h' (t_log t)) /\
    (forall pv, t_prog t = Throw pv -> exists h', run p0 h1 = Panicked pv h' (t_log t)).
  Proof.
    intros Ht Hp0. pose proof (pinv_run sched _ (pinv_init h0)) as [_ [Hall _]].
    destruct (Hall i t Ht) as [p0' [Hp0' Hinv]]. rewrite Hp0 in Hp0'. injection Hp0' as <-.
    unfold tinv in Hinv. destruct (t_loc t) as [l|].
    - destruct Hinv as [_ [l' [p' [h' [_ [Hsim [_ Hrun]]]]]]]. rewrite Hrun. split; [|split].
      + rewrite out_log_prepend. eexists. reflexivity.
      + intros r Hr. rewrite Hr in Hsim. inversion Hsim; subst. cbn [run prepend]. rewrite app_nil_r.
        eexists. reflexivity.
      + intros pv Hr. rewrite Hr in Hsim. inversion Hsim; subst. cbn [run prepend]. rewrite app_nil_r.
        eexists. reflexivity.
    - destruct Hinv as [Hp Hlog]. rewrite Hlog, Hp. split; [|split].
      + eexists. reflexivity.
      + intros r ->. eexists. reflexivity.
      + intros pv ->. eexists. reflexivity.
  Qed.
End Pool.

(* data-race freedom: in every reachable state of every schedule, the next memory operation of a
   thread is on the cell that thread allocated itself, and no two threads own the same cell; this
   is what justifies treating Load / Store as atomic steps *)
Theorem pool_race_free {R} (ps : list (prog R)) :
  (forall p, In p ps -> scoped p) ->
  forall sched h0,
  (forall i t, nth_error (snd (run_pool sched (h0, map spawn ps))) i = Some t ->
     match t_prog t with
     | Load l _ => t_loc t = Some l
     | Store l _ _ => t_loc t = Some l
     | _ => True
     end) /\
  (forall i j ti tj l,
     nth_error (snd (run_pool sched (h0, map spawn ps))) i = Some ti ->
     nth_error (snd (run_pool sched (h0, map spawn ps))) j = Some tj ->
     t_loc ti = Some l -> t_loc tj = Some l -> i = j).
Proof.
  intros Hsc sched h0.
  destruct (pinv_run ps Hsc [] sched _ (pinv_init ps [] h0)) as [_ [Hall Huniq]].
  split; [|exact Huniq].
  intros i t Ht. destruct (Hall i t Ht) as [p0 [Hp0 Hinv]]. unfold tinv in Hinv.
  destruct (t_loc t) as [l|].
  - destruct Hinv as [_ [l' [p' [h' [_ [Hsim _]]]]]].
    destruct (t_prog t); try exact I; inversion Hsim; reflexivity.
  - destruct Hinv as [Hp _]. rewrite Hp.
    assert (Hs : scoped p0) by (apply Hsc; eapply nth_error_In; exact Hp0).
    destruct p0; try exact I; destruct Hs.
Qed.

(** * C15 theorems about [handle_request] *)

Definition reqspec := (config * ctx * option request)%type.
Definition request_prog (r : reqspec) : prog response :=
  match r with (cfg, parent, req) => handle_request cfg parent req end.

Theorem placeholder_isolated reqs sched h0 h1 i t cfg parent req :
  nth_error (snd (run_pool sched (h0, map spawn (map request_prog reqs)))) i = Some t ->
  nth_error reqs i = Some (cfg, parent, req) ->
  (exists rest, out_log (run (handle_request cfg parent req) h1) = t_log t ++ rest) /\
  (forall resp, t_prog t = Ret resp ->
     exists h', run (handle_request cfg parent req) h1 = Done resp h' (t_log t)) /\
  (forall pv, t_prog t = Throw pv ->
     exists h', run (handle_request cfg parent req) h1 = Panicked pv h' (t_log t)).
Proof.
  intros Ht Hr.
  assert (Hsc : forall p, In p (map request_prog reqs) -> scoped p).
  { intros p Hin. apply in_map_iff in Hin. destruct Hin as [[[cfg' parent'] req'] [<- _]].
    apply handle_request_scoped. }
  assert (Hp : nth_error (map request_prog reqs) i = Some (handle_request cfg parent req)).
  { rewrite nth_error_map, Hr. reflexivity. }
  exact (pool_isolated (map request_prog reqs) Hsc h1 sched h0 i t _ Ht Hp).
Qed.

Lemma flow_prefix a : forall v b w, flow v (a ++ b) = Some w -> exists v', flow v a = Some v'.
Proof.
  intros v b w H. rewrite flow_app in H. destruct (flow v a) as [v'|]; [exists v'; reflexivity|discriminate].
Qed.

(* under any interleaving, what a request observes is explained by its own actions alone,
   starting from an empty placeholder *)
Theorem placeholder_concurrent_flow reqs sched h0 i t :
  nth_error (snd (run_pool sched (h0, map spawn (map request_prog reqs)))) i = Some t ->
  exists v, flow [] (t_log t) = Some v.
Proof.
  intros Ht.
  assert (Hlen : length (snd (run_pool sched (h0, map spawn (map request_prog reqs)))) = length reqs).
  { assert (Hsc : forall p, In p (map request_prog reqs) -> scoped p).
    { intros p Hin. apply in_map_iff in Hin. destruct Hin as [[[cfg' parent'] req'] [<- _]].
      apply handle_request_scoped. }
    destruct (pinv_run (map request_prog reqs) Hsc [] sched _ (pinv_init (map request_prog reqs) [] h0)) as [Hl _].
    rewrite Hl. apply map_length. }
  destruct (nth_error reqs i) as [[[cfg parent] req]|] eqn:Hr.
  - destruct (placeholder_isolated reqs sched h0 [] i t cfg parent req Ht Hr) as [[rest Hpre] _].
    destruct (placeholder_flow cfg parent req []) as [w Hw]. rewrite Hpre in Hw.
    eapply flow_prefix. exact Hw.
  - exfalso. apply nth_error_None in Hr. assert (Hi : (i < length reqs)%nat).
    { rewrite <- Hlen. apply nth_error_Some. congruence. }
    lia.
Qed.

(** Non-vacuity: two requests interleaved so that A stores before B reads, on a heap that
    already holds a foreign value, B arriving in a context that still carries A's batch entry. *)
Definition ex15_cfg (s : str) : config :=
  scripted_config [(1,4)] [10]
    [(0, ([SRead HOwn; SSet HOwn s; SRead HOwn], HOk RNil)); (1, ([SCopy [33]; SRead HOwn], HOk RNil))].
Definition ex15_req : option request :=
  Some {| r_hdr := {| h_ver := (1,4); h_opt := 0; h_count := 2 |};
          r_items := [ {| i_op := 10; i_id := None; i_ext := None; i_pl := POther 0 |};
                       {| i_op := 10; i_id := None; i_ext := None; i_pl := POther 1 |} ] |}.
Definition ex15_pool : list reqspec :=
  [ (ex15_cfg [97], [CConn 1], ex15_req); (ex15_cfg [98], [CBatch 1; CConn 2], ex15_req) ].
Definition ex15_sched : list nat :=
  [0;1;0;1;0;1;0;0;0;1;1;1;0;1;0;1;0;1;0;1;0;1;0;1;0;1;0;1;0;1;0;1;0;1;0;1;0;1;0;1]%nat.

Lemma placeholder_example :
  map (fun t => (enc_log (req_items ex15_req) (t_log t), match t_prog t with Ret _ => true | _ => false end))
      (snd (run_pool ex15_sched ([[120]], map spawn (map request_prog ex15_pool)))) =
  [ ([1;0; 2;0;0;0; 4;0;0;1;97; 2;0;0;1;97; 6;0;1;0; 1;1; 2;1;0;1;97; 4;1;0;2;97;33; 2;1;0;2;97;33; 6;1;1;0], true);
    ([1;0; 2;0;0;0; 4;0;0;1;98; 2;0;0;1;98; 6;0;1;0; 1;1; 2;1;0;1;98; 4;1;0;2;98;33; 2;1;0;2;98;33; 6;1;1;0], true) ].
Proof. vm_compute. reflexivity. Qed.
