(** Proofs about Batch.v (C09, C15). *)
From Coq Require Import ZArith List Bool Lia.
From KV Require Import Negotiate Batch.
Import ListNotations.
Open Scope Z_scope.

Lemma placeholder_true : True. Proof. exact I. Qed.
