(** Bytes, big-endian numbers, padding, and the result type with Go panics as values. *)
From Coq Require Import ZArith List Bool Lia.
Import ListNotations.
Open Scope Z_scope.

(** A byte string is a [list Z] whose elements are in [0,256). *)
Definition byte_ok (b : Z) : bool := (0 <=? b) && (b <? 256).
Definition bytes_ok (l : list Z) : bool := forallb byte_ok l.

Definition len {A} (l : list A) : Z := Z.of_nat (length l).

(** Result of a Go call: normal return with a value, an [error], a panic, or the model
    ran out of fuel (excluded by theorems). *)
Inductive res (A : Type) : Type :=
| Ok (a : A)
| Err
| Panic
| OutOfFuel.
Arguments Ok {A}. Arguments Err {A}. Arguments Panic {A}. Arguments OutOfFuel {A}.

Definition bind {A B} (r : res A) (f : A -> res B) : res B :=
  match r with
  | Ok a => f a
  | Err => Err
  | Panic => Panic
  | OutOfFuel => OutOfFuel
  end.
Notation "'do' x <- r ;; k" := (bind r (fun x => k)) (at level 200, x pattern, r at level 100, k at level 200, right associativity).

Definition is_panic {A} (r : res A) : bool := match r with Panic => true | _ => false end.
Definition is_ok {A} (r : res A) : bool := match r with Ok _ => true | _ => false end.

(** [be n v]: the [n] low-order bytes of [v], most significant first
    (binary.BigEndian.AppendUintNN after the Go conversion to an unsigned type).
    [be_spec] is the defining equation; [be] computes the same list from the least
    significant end (linear in the size of [v] per byte, so that 2048-bit numbers are cheap
    under vm_compute); BaseProofs.be_eq proves them equal. *)
Fixpoint be_spec (n : nat) (v : Z) : list Z :=
  match n with
  | O => []
  | S k => (v / 256 ^ Z.of_nat k) mod 256 :: be_spec k v
  end.

Fixpoint be_go (n : nat) (v : Z) (acc : list Z) : list Z :=
  match n with
  | O => acc
  | S k => be_go k (v / 256) (v mod 256 :: acc)
  end.

Definition be (n : nat) (v : Z) : list Z := be_go n v [].

(** binary.BigEndian.UintNN *)
Definition unbe (l : list Z) : Z := fold_left (fun acc b => acc * 256 + b) l 0.

(** padForLen(l, 8) *)
Definition pad8 (l : Z) : Z := (8 - l mod 8) mod 8.

Definition zeros (n : Z) : list Z := repeat 0 (Z.to_nat n).

(** Go conversions between fixed-width integer types (wrap-around made explicit). *)
Definition to_u32 (v : Z) : Z := v mod 2 ^ 32.
Definition to_u64 (v : Z) : Z := v mod 2 ^ 64.
Definition to_i32 (v : Z) : Z := let u := v mod 2 ^ 32 in if u <? 2 ^ 31 then u else u - 2 ^ 32.
Definition to_i64 (v : Z) : Z := let u := v mod 2 ^ 64 in if u <? 2 ^ 63 then u else u - 2 ^ 64.

Definition in_i32 (v : Z) : bool := (- 2 ^ 31 <=? v) && (v <? 2 ^ 31).
Definition in_i64 (v : Z) : bool := (- 2 ^ 63 <=? v) && (v <? 2 ^ 63).
Definition in_u32 (v : Z) : bool := (0 <=? v) && (v <? 2 ^ 32).

(** Go slice expressions: [take n l] = l[:n], [drop n l] = l[n:] (used only after the
    bounds have been established by the code's own checks; see Reader.v for the points
    where the bound is part of the model). *)
Definition take {A} (n : Z) (l : list A) : list A := firstn (Z.to_nat n) l.
Definition drop {A} (n : Z) (l : list A) : list A := skipn (Z.to_nat n) l.
