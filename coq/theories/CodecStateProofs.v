(** Proofs about CodecState.v (property C20). *)
From Coq Require Import ZArith List Bool Lia Arith.
From KV Require Import Base CodecState.
Import ListNotations.
Open Scope Z_scope.

(* ------------------------------------------------------------------------------------ *)
(** * Induction over values (nested through lists) *)

Section ValueInd.
  Variable Q : value -> Prop.
  Hypothesis Hleaf : forall l, Q (VLeaf l).
  Hypothesis Hnil : Q VNil.
  Hypothesis Hptr : forall v, Q v -> Q (VPtr v).
  Hypothesis Hlist : forall vs, Forall Q vs -> Q (VList vs).
  Hypothesis Hstruct : forall fs, Forall Q fs -> Q (VStruct fs).
  Hypothesis Hiface : forall ty v, Q v -> Q (VIface ty v).

  Fixpoint value_ind' (v : value) : Q v :=
    match v with
    | VLeaf l => Hleaf l
    | VNil => Hnil
    | VPtr v' => Hptr v' (value_ind' v')
    | VList vs =>
        Hlist vs ((fix go (l : list value) : Forall Q l :=
                     match l with
                     | [] => Forall_nil Q
                     | x :: xs => Forall_cons x (value_ind' x) (go xs)
                     end) vs)
    | VStruct fs =>
        Hstruct fs ((fix go (l : list value) : Forall Q l :=
                       match l with
                       | [] => Forall_nil Q
                       | x :: xs => Forall_cons x (value_ind' x) (go xs)
                       end) fs)
    | VIface ty v' => Hiface ty v' (value_ind' v')
    end.
End ValueInd.

Section ProgInd.
  Variable Q : prog -> Prop.
  Hypothesis Hleaf : forall tag l, Q (PLeaf tag l).
  Hypothesis Hstruct : forall tag body, Forall Q body -> Q (PStruct tag body).
  Hypothesis Habort : Q PAbort.

  Fixpoint prog_ind' (p : prog) : Q p :=
    match p with
    | PLeaf tag l => Hleaf tag l
    | PStruct tag body =>
        Hstruct tag body ((fix go (l : list prog) : Forall Q l :=
                             match l with
                             | [] => Forall_nil Q
                             | x :: xs => Forall_cons x (prog_ind' x) (go xs)
                             end) body)
    | PAbort => Habort
    end.
End ProgInd.

(* ------------------------------------------------------------------------------------ *)
(** * Clear *)

Lemma w_clear_new : forall w, w_clear w = w_new (w_kind w).
Proof. intros [buf|k done stack]; reflexivity. Qed.

(** Clear puts every writer, in whatever state (complete document, structures left open
    by an aborted call, any version), back into the state of a new encoder of that kind. *)
Lemma enc_clear_new : forall e, enc_clear e = enc_new (w_kind (e_w e)).
Proof. intros e. unfold enc_clear, enc_new. rewrite w_clear_new. reflexivity. Qed.

Lemma clear_resets_all : forall e,
  e_ext (enc_clear e) = None /\
  e_w (enc_clear e) = w_new (w_kind (e_w e)) /\
  w_view (e_w (enc_clear e)) = w_view (w_new (w_kind (e_w e))).
Proof.
  intros e. rewrite enc_clear_new. cbn [enc_new e_ext e_w]. repeat split; reflexivity.
Qed.

Lemma clear_view_empty : forall e,
  w_view (e_w (enc_clear e)) = match w_kind (e_w e) with KBin => VwBytes [] | KTok _ => VwItems [] end.
Proof.
  intros e. rewrite enc_clear_new. cbn [enc_new e_w].
  destruct (w_kind (e_w e)) as [|[| |]]; reflexivity.
Qed.

(** The defect that was repaired: with structures left open by an aborted message the
    XML writer's Clear panicked (and the other three did not). *)
Lemma xml_clear_before_fix_refuted :
  exists w, w_kind w = KTok KXml /\ w_clear_before_fix w = None.
Proof. exists (WTok KXml [] [(1, [])]). split; reflexivity. Qed.

Lemma clear_before_fix_only_xml : forall w,
  w_kind w <> KTok KXml -> w_clear_before_fix w = Some (w_clear w).
Proof.
  intros [buf|k done stack] H; [reflexivity|].
  destruct k; try reflexivity. exfalso. apply H. reflexivity.
Qed.

(* ------------------------------------------------------------------------------------ *)
(** * Invariants of one call *)

Section ExecInv.
  Variable lk : Z -> option plan.
  Variable tag_of : Z -> option Z.
  Variable I : enc -> Prop.
  Hypothesis I_w : forall e w, I e -> w_kind w = w_kind (e_w e) -> I (set_w e w).
  Hypothesis I_ext : forall e x, I e -> I (set_ext e x).
  Hypothesis I_log : forall e ty, I e -> I (add_log e ty).

  Lemma w_leaf_kind : forall w tag l, w_kind (w_leaf w tag l) = w_kind w.
  Proof.
    intros [buf|k done stack] tag l; cbn [w_leaf w_kind]; [reflexivity|].
    destruct (tok_emit (IPrim tag l) done stack); reflexivity.
  Qed.

  Lemma w_open_kind : forall w tag, w_kind (fst (w_open w tag)) = w_kind w.
  Proof. intros [buf|k done stack] tag; reflexivity. Qed.

  Lemma w_close_kind : forall w off, w_kind (w_close w off) = w_kind w.
  Proof.
    intros [buf|k done stack] off; cbn [w_close w_kind]; [reflexivity|].
    destruct stack as [|[t ch] rest]; [reflexivity|].
    destruct (tok_emit (IStruct t ch) done rest); reflexivity.
  Qed.

  Lemma put_leaf_inv : forall tag l e, I e -> I (fst (put_leaf tag l e)).
  Proof.
    intros tag l e H. unfold put_leaf. destruct (leaf_panics l); cbn [fst]; [exact H|].
    apply I_w; [exact H|apply w_leaf_kind].
  Qed.

  Lemma andthen_inv : forall r k,
    I (fst r) -> (forall e, I e -> I (fst (k e))) -> I (fst (andthen r k)).
  Proof.
    intros [e s] k H Hk. destruct s; cbn [andthen fst] in *; auto.
  Qed.

  Lemma in_struct_inv : forall tag body e,
    I e -> (forall e', I e' -> I (fst (body e'))) -> I (fst (in_struct tag body e)).
  Proof.
    intros tag body e H Hb. unfold in_struct.
    destruct (w_open (e_w e) tag) as [w1 off] eqn:Ho.
    apply andthen_inv.
    - apply Hb. apply I_w; [exact H|]. change w1 with (fst (w1, off)). rewrite <- Ho. apply w_open_kind.
    - intros e2 H2. cbn [fst]. apply I_w; [exact H2|apply w_close_kind].
  Qed.

  Lemma run_seq_inv : forall (f : prog -> enc -> enc * status) ps,
    Forall (fun p => forall e, I e -> I (fst (f p e))) ps ->
    forall e, I e -> I (fst (run_seq f ps e)).
  Proof.
    intros f ps Hps. induction Hps as [|p ps Hp _ IH]; intros e He; cbn [run_seq]; [exact He|].
    apply andthen_inv; [apply Hp; exact He|exact IH].
  Qed.

  Lemma run_prog_inv : forall p e, I e -> I (fst (run_prog p e)).
  Proof.
    induction p as [tag l|tag body IH|] using prog_ind'; intros e He; cbn [run_prog].
    - apply put_leaf_inv; exact He.
    - apply in_struct_inv; [exact He|]. intros e' He'. apply run_seq_inv; assumption.
    - exact He.
  Qed.

  Lemma exec_seq_inv : forall (f : value -> enc -> enc * status) vs,
    Forall (fun v => forall e, I e -> I (fst (f v e))) vs ->
    forall e, I e -> I (fst (exec_seq f vs e)).
  Proof.
    intros f vs Hvs. induction Hvs as [|v vs Hv _ IH]; intros e He; cbn [exec_seq]; [exact He|].
    apply andthen_inv; [apply Hv; exact He|exact IH].
  Qed.

  Lemma exec_fields_inv : forall (g : fplan -> value -> enc -> enc * status) vs,
    Forall (fun v => forall f e, I e -> I (fst (g f v e))) vs ->
    forall fs e, I e -> I (fst (exec_fields g fs vs e)).
  Proof.
    intros g vs Hvs. induction Hvs as [|v vs Hv _ IH]; intros fs e He; destruct fs as [|f fs];
      cbn [exec_fields fst]; try exact He.
    apply andthen_inv; [apply Hv; exact He|intros e' He'; apply IH; exact He'].
  Qed.

  Lemma dyn_inv : forall (rec : plan -> Z -> value -> enc -> enc * status) ty tag v e,
    (forall q t e', I e' -> I (fst (rec q t v e'))) -> I e -> I (fst (dyn lk rec ty tag v e)).
  Proof.
    intros rec ty tag v e Hrec He. unfold dyn. destruct (lk ty); cbn [fst].
    - apply Hrec. apply I_log. exact He.
    - apply I_log. exact He.
  Qed.

  Lemma field_setver_inv : forall o x e e1, I e -> field_setver o x e = Some e1 -> I e1.
  Proof.
    intros o x e e1 He H. unfold field_setver in H. destruct (f_setver o).
    - destruct (value_version x); inversion H; subst. apply I_ext. exact He.
    - inversion H; subst. exact He.
  Qed.

  Definition under_iface (Q : value -> Prop) (v : value) : Prop :=
    match v with VIface _ v' => Q v' | _ => True end.

  Lemma exec_inv_strong : forall v,
    (forall p tag e, I e -> I (fst (exec lk tag_of p tag v e))) /\
    under_iface (fun v' => forall p tag e, I e -> I (fst (exec lk tag_of p tag v' e))) v.
  Proof.
    induction v as [l| |v IH|vs IH|vs IH|ty v IH] using value_ind'; (split; [|try exact Logic.I]).
    - intros p tag e He. destruct p; cbn [exec fst]; try exact He.
      destruct (leaf_matches k l); [apply put_leaf_inv; exact He|exact He].
    - intros p tag e He. destruct p; cbn [exec fst]; exact He.
    - intros p tag e He. destruct p; cbn [exec fst]; try exact He. apply IH; exact He.
    - intros p tag e He. destruct p; cbn [exec fst]; try exact He.
      apply exec_seq_inv; [|exact He].
      eapply Forall_impl; [|exact IH]. intros v [Hv _] e' He'. apply Hv. exact He'.
    - intros p tag e He. destruct p; cbn [exec fst]; try exact He.
      apply in_struct_inv; [exact He|]. intros e' He'. apply exec_fields_inv; [|exact He'].
      eapply Forall_impl; [|exact IH]. intros v [Hv Hu] f e0 He0. cbn beta.
      unfold exec_field. destruct f as [o q|].
      + destruct (field_setver o v e0) as [e1|] eqn:Hs; [|exact He0].
        pose proof (field_setver_inv _ _ _ _ He0 Hs) as He1.
        destruct (field_skipped o v e1); [exact He1|]. apply Hv. exact He1.
      + destruct v; try exact He0. destruct (tag_of ty); [|exact He0].
        apply dyn_inv; [|exact He0]. intros q t e3 He3. apply Hu. exact He3.
    - intros p tag e He. destruct p; cbn [exec fst]; try exact He.
      apply dyn_inv; [|exact He]. intros q t e' He'. apply IH. exact He'.
    - cbn [under_iface]. apply IH.
  Qed.

  Lemma exec_inv : forall v p tag e, I e -> I (fst (exec lk tag_of p tag v e)).
  Proof. intros v. apply exec_inv_strong. Qed.

  Lemma encode_top_inv : forall ty tag v e, I e -> I (fst (encode_top lk tag_of ty tag v e)).
  Proof.
    intros ty tag v e He. unfold encode_top. apply dyn_inv; [|exact He].
    intros q t e' He'. apply exec_inv. exact He'.
  Qed.
End ExecInv.

(* ------------------------------------------------------------------------------------ *)
(** * History independence on one encoder *)

Section History.
  Variable lk : Z -> option plan.
  Variable tag_of : Z -> option Z.

  Definition kind_is (k : wkind) (e : enc) : Prop := w_kind (e_w e) = k.

  Lemma w_unwind_kind : forall w, w_kind (w_unwind w) = w_kind w.
  Proof. intros [buf|[| |] done stack]; reflexivity. Qed.

  Lemma settle_kind : forall k e s, kind_is k e -> kind_is k (settle e s).
  Proof.
    intros k e s H. unfold settle. destruct s; try exact H;
      unfold kind_is in *; cbn [set_w e_w]; rewrite w_unwind_kind; exact H.
  Qed.

  Lemma kind_is_w : forall k e w, kind_is k e -> w_kind w = w_kind (e_w e) -> kind_is k (set_w e w).
  Proof. intros k e w H Hw. unfold kind_is in *. cbn [set_w e_w]. congruence. Qed.

  Lemma do_call_kind : forall k c e, kind_is k e -> kind_is k (fst (do_call lk tag_of c e)).
  Proof.
    intros k c e H. destruct c as [p|ty tag v| |]; cbn [do_call].
    - destruct (run_prog p e) as [e' s] eqn:Hr. cbn [fst]. apply settle_kind.
      change e' with (fst (e', s)). rewrite <- Hr.
      apply (run_prog_inv (kind_is k)); [apply kind_is_w|exact H].
    - destruct (encode_top lk tag_of ty tag v e) as [e' s] eqn:Hr. cbn [fst]. apply settle_kind.
      change e' with (fst (e', s)). rewrite <- Hr.
      apply (encode_top_inv lk tag_of (kind_is k)); [apply kind_is_w| | |exact H].
      + intros e0 x H0. exact H0.
      + intros e0 t H0. exact H0.
    - cbn [fst]. unfold kind_is in *. cbn [enc_clear e_w]. rewrite w_clear_new. rewrite H.
      destruct k; reflexivity.
    - exact H.
  Qed.

  Lemma run_calls_kind : forall k cs e, kind_is k e -> kind_is k (fst (run_calls lk tag_of cs e)).
  Proof.
    intros k cs. induction cs as [|c cs IH]; intros e H; cbn [run_calls fst]; [exact H|].
    destruct (do_call lk tag_of c e) as [e1 o] eqn:Hd.
    destruct (run_calls lk tag_of cs e1) as [e2 os] eqn:Hr. cbn [fst].
    change e2 with (fst (e2, os)). rewrite <- Hr. apply IH.
    change e1 with (fst (e1, o)). rewrite <- Hd. apply do_call_kind. exact H.
  Qed.

  Lemma run_calls_app : forall cs1 cs2 e,
    run_calls lk tag_of (cs1 ++ cs2) e =
    let '(e1, o1) := run_calls lk tag_of cs1 e in
    let '(e2, o2) := run_calls lk tag_of cs2 e1 in (e2, o1 ++ o2).
  Proof.
    induction cs1 as [|c cs1 IH]; intros cs2 e; cbn [app run_calls].
    - destruct (run_calls lk tag_of cs2 e); reflexivity.
    - destruct (do_call lk tag_of c e) as [e1 o]. rewrite IH.
      destruct (run_calls lk tag_of cs1 e1) as [e2 os].
      destruct (run_calls lk tag_of cs2 e2) as [e3 os']. reflexivity.
  Qed.

  (** After any history whatsoever (calls that returned, calls that panicked half way and
      were recovered, any versions, earlier Clears), Clear makes the encoder
      indistinguishable from a new one: everything observed afterwards is what a fresh
      encoder of that kind would show. *)
  Theorem history_independent : forall k (h cs : list call),
    run_calls lk tag_of (h ++ CClear :: cs) (enc_new k) =
    (fst (run_calls lk tag_of cs (enc_new k)),
     snd (run_calls lk tag_of h (enc_new k)) ++ OOk :: snd (run_calls lk tag_of cs (enc_new k))).
  Proof.
    intros k h cs. rewrite run_calls_app.
    pose proof (run_calls_kind k h (enc_new k)) as Hk.
    destruct (run_calls lk tag_of h (enc_new k)) as [e1 o1]. cbn [fst snd] in *.
    cbn [run_calls do_call]. rewrite enc_clear_new. rewrite Hk.
    - destruct (run_calls lk tag_of cs (enc_new k)) as [e2 o2]. reflexivity.
    - unfold kind_is. destruct k; reflexivity.
  Qed.

  (** The version held by the encoder is irrelevant to a message that sets its own first. *)
  Lemma sets_first_ext_irrelevant : forall v p tag e x1 x2,
    sets_first p v = true ->
    exec lk tag_of p tag v (set_ext e x1) = exec lk tag_of p tag v (set_ext e x2).
  Proof.
    induction v as [l| |v IH|vs IH|vs IH|ty v IH] using value_ind'; intros p tag e x1 x2 H;
      cbn [sets_first] in H; try discriminate.
    - destruct p; try discriminate. cbn [exec]. apply IH. exact H.
    - destruct vs as [|x xs]; try discriminate.
      destruct p as [| | |fs|]; try discriminate.
      destruct fs as [|[o q|] fps]; try discriminate.
      cbn [exec]. unfold in_struct. cbn [set_ext e_w].
      destruct (w_open (e_w e) tag) as [w1 off].
      cbn [exec_fields]. f_equal. f_equal.
      unfold exec_field.
      destruct (f_setver o) eqn:Hsv.
      + unfold field_setver. rewrite Hsv. destruct (value_version x); [|discriminate]. reflexivity.
      + unfold field_setver. rewrite Hsv.
        destruct (f_range o) eqn:Hr; [discriminate|].
        apply andb_prop in H. destruct H as [Ho Hq].
        unfold field_skipped. rewrite Hr. apply negb_true_iff in Ho. rewrite Ho. cbn [negb orb andb].
        inversion IH as [|? ? Hx _]; subst.
        apply (Hx q (f_tag o) (set_w e w1) x1 x2 Hq).
  Qed.
End History.

(* ------------------------------------------------------------------------------------ *)
(** * The plan cache under every schedule *)

Lemma Forall_replace_nth {A} (Q : A -> Prop) : forall l n x,
  Forall Q l -> Q x -> Forall Q (replace_nth n x l).
Proof.
  induction l as [|y l IH]; intros n x Hl Hx; destruct n; cbn [replace_nth]; try constructor;
    inversion Hl; subst; auto.
Qed.

Lemma nth_error_replace_nth_same {A} : forall (l : list A) n x y,
  nth_error l n = Some y -> nth_error (replace_nth n x l) n = Some x.
Proof.
  induction l as [|z l IH]; intros n x y H; destruct n; cbn in *; try discriminate; [reflexivity|].
  eapply IH; exact H.
Qed.

Lemma nth_error_replace_nth_other {A} : forall (l : list A) n m x,
  n <> m -> nth_error (replace_nth n x l) m = nth_error l m.
Proof.
  induction l as [|z l IH]; intros n m x H; destruct n, m; cbn; try reflexivity; try congruence.
  apply IH. congruence.
Qed.

Lemma length_replace_nth {A} : forall (l : list A) n x, length (replace_nth n x l) = length l.
Proof. induction l as [|z l IH]; intros n x; destruct n; cbn; auto. Qed.

Section CacheProofs.
  Variable P : Type.
  Variable deps : Z -> list Z.
  Variable mk : Z -> list P -> option P.

  (** [pure ty]: the plan of [ty] computed without any cache ([None]: building it panics).
      The only thing assumed: building [ty] from the pure plans of its dependencies gives
      the pure plan of [ty] (the builder is a function of the type alone: registries are
      constant after init). *)
  Variable pure : Z -> option P.
  Hypothesis pure_mk : forall ty subs,
    Forall2 (fun d p => pure d = Some p) (deps ty) subs -> mk ty subs = pure ty.

  Notation frame := (frame P).
  Notation tstate := (tstate P).
  Notation sys := (sys P).
  Notation step_thread := (step_thread P deps mk).
  Notation step_sys := (step_sys P deps mk).
  Notation run_sched := (run_sched P deps mk).
  Notation resume := (resume P mk).
  Notation deliver := (deliver P mk).
  Notation next_msg := (next_msg P).

  Definition is_pure (d : Z) (p : P) : Prop := pure d = Some p.

  Definition cache_ok (c : list (Z * P)) : Prop := forall ty p, clookup c ty = Some p -> is_pure ty p.

  (** A frame that waits for the plan of [waiting]: the dependencies before it have been
      answered with their pure plans, the ones after it are still to do. *)
  Definition frame_ok (waiting : Z) (fr : frame) : Prop :=
    exists done, deps (fr_ty fr) = done ++ waiting :: fr_todo fr /\ Forall2 is_pure done (fr_got fr).

  Fixpoint stack_ok (waiting : Z) (st : list frame) : Prop :=
    match st with
    | [] => True
    | fr :: rest => frame_ok waiting fr /\ stack_ok (fr_ty fr) rest
    end.

  Definition res_ok (res : list (Z * P)) : Prop := Forall (fun r => is_pure (fst r) (snd r)) res.

  Definition thread_ok (t : tstate) : Prop :=
    match t with
    | TRun (AtLoad ty) st _ _ res => stack_ok ty st /\ res_ok res
    | TRun (AtStore ty p) st _ _ res => is_pure ty p /\ stack_ok ty st /\ res_ok res
    | TDone res => res_ok res
    end.

  Definition sys_ok (s : sys) : Prop := cache_ok (fst s) /\ Forall thread_ok (snd s).

  Lemma next_msg_ok : forall later res, res_ok res -> thread_ok (next_msg later res).
  Proof.
    induction later as [|g gs IH]; intros res H; cbn [next_msg]; [exact H|].
    destruct g as [|j js]; [apply IH; exact H|]. cbn [thread_ok stack_ok]. split; [exact Logic.I|exact H].
  Qed.

  (** A frame that is not waiting for anything. *)
  Definition frame_ready (fr : frame) : Prop :=
    exists done, deps (fr_ty fr) = done ++ fr_todo fr /\ Forall2 is_pure done (fr_got fr).

  Lemma resume_ok : forall fr st cur later res,
    frame_ready fr -> stack_ok (fr_ty fr) st -> res_ok res -> thread_ok (resume fr st cur later res).
  Proof.
    intros [ty todo got] st cur later res [done [Hd Hg]] Hst Hres. unfold CodecState.resume.
    cbn [fr_ty fr_todo fr_got] in *. destruct todo as [|d ds].
    - rewrite app_nil_r in Hd. rewrite (pure_mk ty got) by (rewrite Hd; exact Hg).
      destruct (pure ty) as [p|] eqn:Hp.
      + cbn [thread_ok]. repeat split; assumption.
      + apply next_msg_ok. exact Hres.
    - cbn [thread_ok stack_ok]. repeat split; try assumption.
      exists done. cbn [fr_ty fr_todo fr_got]. split; assumption.
  Qed.

  Lemma deliver_ok : forall ty p st cur later res,
    is_pure ty p -> stack_ok ty st -> res_ok res -> thread_ok (deliver ty p st cur later res).
  Proof.
    intros ty p st cur later res Hp Hst Hres. unfold CodecState.deliver. destruct st as [|fr rest].
    - assert (Hres' : res_ok (res ++ [(ty, p)])).
      { apply Forall_app. split; [exact Hres|]. constructor; [exact Hp|constructor]. }
      destruct cur as [|j js].
      + apply next_msg_ok. exact Hres'.
      + cbn [thread_ok stack_ok]. split; [exact Logic.I|exact Hres'].
    - destruct Hst as [[done [Hd Hg]] Hrest]. apply resume_ok; cbn [fr_ty fr_todo fr_got]; try assumption.
      exists (done ++ [ty]). split.
      + rewrite <- app_assoc. exact Hd.
      + apply Forall2_app; [exact Hg|]. constructor; [exact Hp|constructor].
  Qed.

  Lemma step_thread_ok : forall c t,
    cache_ok c -> thread_ok t -> cache_ok (fst (step_thread c t)) /\ thread_ok (snd (step_thread c t)).
  Proof.
    intros c t Hc Ht. destruct t as [[ty|ty p] st cur later res|res]; cbn [CodecState.step_thread].
    - destruct Ht as [Hst Hres]. destruct (clookup c ty) as [p|] eqn:Hl; cbn [fst snd].
      + split; [exact Hc|]. apply deliver_ok; try assumption. apply Hc. exact Hl.
      + split; [exact Hc|]. apply resume_ok; cbn [fr_ty]; try assumption.
        exists []. cbn [fr_ty fr_todo fr_got app]. split; [reflexivity|constructor].
    - destruct Ht as [Hp [Hst Hres]]. cbn [fst snd]. split.
      + intros ty' p' H. cbn [clookup] in H. destruct (ty =? ty') eqn:He.
        * apply Z.eqb_eq in He. subst. inversion H; subst. exact Hp.
        * apply Hc. exact H.
      + apply deliver_ok; assumption.
    - cbn [fst snd]. split; assumption.
  Qed.

  Lemma step_sys_ok : forall s i, sys_ok s -> sys_ok (step_sys s i).
  Proof.
    intros [c ts] i [Hc Hts]. unfold CodecState.step_sys. cbn [fst snd] in *.
    destruct (nth_error ts i) as [t|] eqn:Hn; [|split; assumption].
    assert (Ht : thread_ok t).
    { rewrite Forall_forall in Hts. apply Hts. eapply nth_error_In. exact Hn. }
    destruct (step_thread_ok c t Hc Ht) as [Hc' Ht'].
    destruct (step_thread c t) as [c' t']. cbn [fst snd] in *. split; [exact Hc'|].
    apply Forall_replace_nth; assumption.
  Qed.

  (** Every state reached under any schedule, of any length, with any number of threads:
      every cached plan is the pure plan of its type, and so is everything any thread has
      been handed or is about to store. *)
  Theorem run_sched_ok : forall sched s, sys_ok s -> sys_ok (run_sched sched s).
  Proof.
    induction sched as [|i sched IH]; intros s H; cbn [CodecState.run_sched fold_left]; [exact H|].
    apply IH. apply step_sys_ok. exact H.
  Qed.

  Lemma init_sys_ok : forall c jobs, cache_ok c -> sys_ok (init_sys c jobs).
  Proof.
    intros c jobs Hc. split; [exact Hc|]. cbn [init_sys snd]. apply Forall_forall. intros t Ht.
    apply in_map_iff in Ht. destruct Ht as [j [<- _]]. apply next_msg_ok. constructor.
  Qed.

  Lemma cache_ok_nil : cache_ok [].
  Proof. intros ty p H. discriminate. Qed.

  Theorem cache_sound_any_schedule : forall jobs sched,
    let s := run_sched sched (init_sys [] jobs) in
    (forall ty p, clookup (fst s) ty = Some p -> pure ty = Some p) /\
    (forall t, In t (snd s) -> forall ty p, In (ty, p) (t_results t) -> pure ty = Some p).
  Proof.
    intros jobs sched s.
    assert (H : sys_ok s) by (apply run_sched_ok; apply init_sys_ok; apply cache_ok_nil).
    destruct H as [Hc Hts]. split; [exact Hc|].
    intros t Ht ty p Hin. rewrite Forall_forall in Hts. specialize (Hts t Ht).
    assert (Hr : res_ok (t_results t)).
    { destruct t as [[ty'|ty' p'] st cur later res|res]; cbn [thread_ok t_results] in *; tauto. }
    unfold res_ok in Hr. rewrite Forall_forall in Hr. apply (Hr (ty, p)). exact Hin.
  Qed.

  (* ---------------------------------------------------------------------------------- *)
  (** ** No spurious panic: lookups of buildable types succeed with the pure plan *)

  Hypothesis pure_deps : forall ty p, pure ty = Some p ->
    forall d, In d (deps ty) -> exists q, pure d = Some q.

  Definition has_pure (ty : Z) : Prop := exists p, pure ty = Some p.

  Definition pend_ty (pd : pend P) : Z := match pd with AtLoad ty => ty | AtStore ty _ => ty end.

  (** The type of the top-level lookup in progress. *)
  Definition bottom (pd : pend P) (st : list frame) : Z := last (map (@fr_ty P) st) (pend_ty pd).

  Definition thread_good (orig : list (list Z)) (t : tstate) : Prop :=
    match t with
    | TRun pd st cur later res =>
        has_pure (pend_ty pd) /\ Forall (fun fr => has_pure (fr_ty fr)) st /\
        map fst res ++ bottom pd st :: cur ++ concat later = concat orig
    | TDone res => map fst res = concat orig
    end.

  Lemma last_cons {A} : forall (l : list A) a d, last (a :: l) d = last l a.
  Proof. induction l as [|b l IH]; intros a d; [reflexivity|]. cbn [last] in *. destruct l; [reflexivity|]. apply IH. Qed.

  Section Good.
    Variable orig : list (list Z).
    Hypothesis good : forall ty, In ty (concat orig) -> has_pure ty.

    Lemma next_msg_good : forall later res,
      map fst res ++ concat later = concat orig -> thread_good orig (next_msg later res).
    Proof.
      induction later as [|g gs IH]; intros res H; cbn [next_msg].
      - cbn [concat] in H. rewrite app_nil_r in H. exact H.
      - destruct g as [|j js]; [apply IH; exact H|].
        cbn [thread_good]. unfold bottom. cbn [pend_ty map last]. split; [|split; [constructor|]].
        + apply good. rewrite <- H. apply in_or_app. right. cbn [concat app]. left. reflexivity.
        + cbn [concat app] in H. rewrite <- H. reflexivity.
    Qed.

    Lemma resume_good : forall fr st cur later res,
      frame_ready fr -> has_pure (fr_ty fr) -> Forall (fun fr => has_pure (fr_ty fr)) st ->
      map fst res ++ last (map (@fr_ty P) st) (fr_ty fr) :: cur ++ concat later = concat orig ->
      thread_good orig (resume fr st cur later res).
    Proof.
      intros [ty todo got] st cur later res [done [Hd Hg]] Hp Hst Hprog. unfold CodecState.resume.
      cbn [fr_ty fr_todo fr_got] in *. destruct todo as [|d ds].
      - rewrite app_nil_r in Hd. rewrite (pure_mk ty got) by (rewrite Hd; exact Hg).
        destruct Hp as [p Hp]. rewrite Hp. cbn [thread_good]. unfold bottom. cbn [pend_ty].
        split; [exists p; exact Hp|]. split; [exact Hst|exact Hprog].
      - cbn [thread_good]. unfold bottom. cbn [pend_ty map fr_ty]. split; [|split].
        + destruct Hp as [p Hp]. apply (pure_deps ty p Hp). rewrite Hd. apply in_or_app. right. left. reflexivity.
        + constructor; [exact Hp|exact Hst].
        + rewrite last_cons. exact Hprog.
    Qed.

    Lemma deliver_good : forall pd p st cur later res,
      is_pure (pend_ty pd) p -> stack_ok (pend_ty pd) st ->
      Forall (fun fr => has_pure (fr_ty fr)) st ->
      map fst res ++ bottom pd st :: cur ++ concat later = concat orig ->
      thread_good orig (deliver (pend_ty pd) p st cur later res).
    Proof.
      intros pd p st cur later res Hp Hok Hst Hprog. unfold CodecState.deliver. destruct st as [|fr rest].
      - unfold bottom in Hprog. cbn [map last] in Hprog. destruct cur as [|j js].
        + apply next_msg_good. rewrite map_app. cbn [map fst]. rewrite <- app_assoc. exact Hprog.
        + cbn [thread_good]. unfold bottom. cbn [pend_ty map last]. split; [|split; [constructor|]].
          * apply good. rewrite <- Hprog. apply in_or_app. right. right. left. reflexivity.
          * rewrite map_app. cbn [map fst]. rewrite <- app_assoc. exact Hprog.
      - destruct Hok as [[done [Hd Hg]] Hrest]. inversion Hst as [|? ? Hfr Hrs]; subst.
        apply resume_good; cbn [fr_ty fr_todo fr_got]; try assumption.
        + exists (done ++ [pend_ty pd]). split; [rewrite <- app_assoc; exact Hd|].
          apply Forall2_app; [exact Hg|]. constructor; [exact Hp|constructor].
        + unfold bottom in Hprog. cbn [map] in Hprog. rewrite last_cons in Hprog. exact Hprog.
    Qed.

    Lemma step_thread_good : forall c t,
      cache_ok c -> thread_ok t -> thread_good orig t -> thread_good orig (snd (step_thread c t)).
    Proof.
      intros c t Hc Ht Hg. destruct t as [[ty|ty p] st cur later res|res]; cbn [CodecState.step_thread].
      - destruct Ht as [Hst Hres]. destruct Hg as [Hp [Hfs Hprog]].
        destruct (clookup c ty) as [p|] eqn:Hl; cbn [snd].
        + apply (deliver_good (AtLoad ty)); try assumption. apply Hc. exact Hl.
        + apply resume_good; cbn [fr_ty]; try assumption.
          exists []. cbn [fr_ty fr_todo fr_got app]. split; [reflexivity|constructor].
      - destruct Ht as [Hp [Hst Hres]]. destruct Hg as [Hp' [Hfs Hprog]]. cbn [snd].
        apply (deliver_good (AtStore ty p)); assumption.
      - exact Hg.
    Qed.
  End Good.

  Definition sys_good (origs : list (list (list Z))) (s : sys) : Prop :=
    Forall2 thread_good origs (snd s).

  Lemma Forall2_replace_nth {A B} (R : A -> B -> Prop) : forall la lb n y,
    Forall2 R la lb -> (forall a, nth_error la n = Some a -> R a y) -> Forall2 R la (replace_nth n y lb).
  Proof.
    induction la as [|a la IH]; intros lb n y H Hy; inversion H; subst; destruct n; cbn [replace_nth];
      try constructor; auto.
  Qed.

  Lemma Forall2_nth_error {A B} (R : A -> B -> Prop) : forall la lb n b,
    Forall2 R la lb -> nth_error lb n = Some b -> exists a, nth_error la n = Some a /\ R a b.
  Proof.
    induction la as [|a la IH]; intros lb n b H Hn; inversion H; subst.
    - destruct n; discriminate.
    - destruct n; cbn in *.
      + inversion Hn; subst. exists a. split; [reflexivity|assumption].
      + eapply IH; eassumption.
  Qed.

  Lemma step_sys_good : forall origs s i,
    (forall orig, In orig origs -> forall ty, In ty (concat orig) -> has_pure ty) ->
    sys_ok s -> sys_good origs s -> sys_good origs (step_sys s i).
  Proof.
    intros origs [c ts] i Hgood [Hc Hts] Hg. unfold sys_good, CodecState.step_sys in *. cbn [fst snd] in *.
    destruct (nth_error ts i) as [t|] eqn:Hn; [|exact Hg].
    destruct (Forall2_nth_error _ _ _ _ _ Hg Hn) as [orig [Ho Hgt]].
    assert (Ht : thread_ok t).
    { rewrite Forall_forall in Hts. apply Hts. eapply nth_error_In. exact Hn. }
    pose proof (step_thread_good orig (Hgood orig (nth_error_In _ _ Ho)) c t Hc Ht Hgt) as Hg'.
    destruct (step_thread c t) as [c' t']. cbn [fst snd] in *.
    apply Forall2_replace_nth; [exact Hg|]. intros a Ha. rewrite Ho in Ha. inversion Ha; subst. exact Hg'.
  Qed.

  Lemma run_sched_good : forall origs,
    (forall orig, In orig origs -> forall ty, In ty (concat orig) -> has_pure ty) ->
    forall sched s, sys_ok s -> sys_good origs s ->
    sys_ok (run_sched sched s) /\ sys_good origs (run_sched sched s).
  Proof.
    intros origs Hgood. induction sched as [|i sched IH]; intros s Hok Hg;
      cbn [CodecState.run_sched fold_left]; [split; assumption|].
    apply IH; [apply step_sys_ok; exact Hok|apply step_sys_good; assumption].
  Qed.

  Lemma init_sys_good : forall c jobs,
    (forall orig, In orig jobs -> forall ty, In ty (concat orig) -> has_pure ty) ->
    sys_good jobs (init_sys c jobs).
  Proof.
    intros c jobs Hgood. unfold sys_good, init_sys. cbn [snd].
    induction jobs as [|j jobs IH]; cbn [map]; constructor.
    - apply next_msg_good; [apply Hgood; left; reflexivity|reflexivity].
    - apply IH. intros orig Ho. apply Hgood. right. exact Ho.
  Qed.

  (** A thread that has finished, under whatever schedule, has been handed for each of its
      lookups, in order, exactly the pure plan of the type it asked for. *)
  Theorem finished_thread_results : forall jobs sched i orig res,
    (forall orig, In orig jobs -> forall ty, In ty (concat orig) -> has_pure ty) ->
    nth_error jobs i = Some orig ->
    nth_error (snd (run_sched sched (init_sys [] jobs))) i = Some (TDone res) ->
    map (fun r => (fst r, Some (snd r))) res = map (fun ty => (ty, pure ty)) (concat orig).
  Proof.
    intros jobs sched i orig res Hgood Ho Hn.
    destruct (run_sched_good jobs Hgood sched (init_sys [] jobs)) as [[Hc Hts] Hg].
    { apply init_sys_ok. apply cache_ok_nil. }
    { apply init_sys_good. exact Hgood. }
    destruct (Forall2_nth_error _ _ _ _ _ Hg Hn) as [orig' [Ho' Hgt]].
    rewrite Ho in Ho'. inversion Ho'; subst orig'. cbn [thread_good] in Hgt.
    rewrite Forall_forall in Hts. pose proof (Hts _ (nth_error_In _ _ Hn)) as Hr. cbn [thread_ok] in Hr.
    rewrite <- Hgt. clear - Hr. induction Hr as [|[ty p] res Hp _ IH]; [reflexivity|].
    cbn [map fst snd]. rewrite IH. unfold is_pure in Hp. cbn [fst snd] in Hp. rewrite Hp. reflexivity.
  Qed.

  (* ---------------------------------------------------------------------------------- *)
  (** ** Termination: a thread stops after a bounded number of its own steps *)

  (** [cost ty]: an upper bound of the cache accesses of one lookup of [ty].  Such a
      function exists exactly when the dependency graph has no cycle (the codec stores no
      placeholder while a plan is being built: a type that contains itself would make
      [encodeFunc] recurse for ever, with or without concurrency). *)
  Variable cost : Z -> nat.
  Hypothesis cost_eq : forall ty, cost ty = (2 + list_sum (map cost (deps ty)))%nat.

  Lemma list_sum_cons : forall a l, list_sum (a :: l) = (a + list_sum l)%nat.
  Proof. reflexivity. Qed.

  Lemma in_le_sum : forall x l, In x l -> (cost x <= list_sum (map cost l))%nat.
  Proof.
    intros x l. induction l as [|d ds IH]; intros Hin; [destruct Hin|].
    cbn [map]. rewrite list_sum_cons. destruct Hin as [Hd|Hin]; [subst; lia|]. specialize (IH Hin). lia.
  Qed.

  Lemma cost_excludes_cycles : forall ty, ~ In ty (deps ty).
  Proof.
    intros ty Hin. pose proof (cost_eq ty) as H. pose proof (in_le_sum ty (deps ty) Hin). lia.
  Qed.

  Definition sumc (l : list Z) : nat := list_sum (map cost l).
  Definition mu_frame (fr : frame) : nat := (1 + sumc (fr_todo fr))%nat.
  Definition mu_pend (pd : pend P) : nat := match pd with AtLoad ty => cost ty | AtStore _ _ => 1%nat end.
  Definition mu (t : tstate) : nat :=
    match t with
    | TRun pd st cur later _ =>
        (mu_pend pd + list_sum (map mu_frame st) + sumc cur + list_sum (map sumc later))%nat
    | TDone _ => 0%nat
    end.

  Ltac norm_sum := unfold mu_frame in *; unfold sumc in *; unfold list_sum in *; cbn [map fold_right fr_todo] in *.

  Lemma mu_next_msg : forall later res, mu (next_msg later res) = list_sum (map sumc later).
  Proof.
    induction later as [|g gs IH]; intros res; cbn [next_msg]; [reflexivity|].
    destruct g as [|j js].
    - rewrite IH. norm_sum. reflexivity.
    - cbn [mu mu_pend]. norm_sum. lia.
  Qed.

  Lemma mu_resume : forall fr st cur later res,
    (mu (resume fr st cur later res) <=
     mu_frame fr + list_sum (map mu_frame st) + sumc cur + list_sum (map sumc later))%nat.
  Proof.
    intros [ty todo got] st cur later res. unfold CodecState.resume. cbn [fr_ty fr_todo fr_got].
    destruct todo as [|d ds].
    - destruct (mk ty got).
      + cbn [mu mu_pend]. norm_sum. lia.
      + rewrite mu_next_msg. norm_sum. lia.
    - cbn [mu mu_pend]. norm_sum. lia.
  Qed.

  Lemma mu_deliver : forall ty p st cur later res,
    (mu (deliver ty p st cur later res) <=
     list_sum (map mu_frame st) + sumc cur + list_sum (map sumc later))%nat.
  Proof.
    intros ty p st cur later res. unfold CodecState.deliver. destruct st as [|fr rest].
    - destruct cur as [|j js].
      + rewrite mu_next_msg. norm_sum. lia.
      + cbn [mu mu_pend]. norm_sum. lia.
    - eapply Nat.le_trans; [apply mu_resume|]. norm_sum. lia.
  Qed.

  Lemma cost_pos : forall ty, (2 <= cost ty)%nat.
  Proof. intros ty. rewrite cost_eq. lia. Qed.

  Lemma mu_step : forall c t, t_running t = true -> (mu (snd (step_thread c t)) + 1 <= mu t)%nat.
  Proof.
    intros c t Hr. destruct t as [[ty|ty p] st cur later res|res]; [| |discriminate];
      cbn [CodecState.step_thread].
    - destruct (clookup c ty); cbn [snd].
      + pose proof (mu_deliver ty p st cur later res). pose proof (cost_pos ty). cbn [mu mu_pend]. lia.
      + pose proof (mu_resume (Frame ty (deps ty) []) st cur later res) as H.
        pose proof (cost_eq ty). cbn [mu mu_pend]. norm_sum. lia.
    - cbn [snd]. pose proof (mu_deliver ty p st cur later res). cbn [mu mu_pend]. lia.
  Qed.

  Lemma mu_zero_done : forall t, mu t = 0%nat -> t_running t = false.
  Proof.
    intros [[ty|ty p] st cur later res|res] H; [| |reflexivity]; cbn [mu mu_pend] in H.
    - pose proof (cost_pos ty). lia.
    - lia.
  Qed.

  Lemma step_sys_other : forall s i j, i <> j -> nth_error (snd (step_sys s i)) j = nth_error (snd s) j.
  Proof.
    intros [c ts] i j Hij. unfold CodecState.step_sys. cbn [fst snd].
    destruct (nth_error ts i) as [t|]; [|reflexivity].
    destruct (step_thread c t) as [c' t']. cbn [snd]. apply nth_error_replace_nth_other. exact Hij.
  Qed.

  Lemma step_sys_same : forall s i t,
    nth_error (snd s) i = Some t ->
    nth_error (snd (step_sys s i)) i = Some (snd (step_thread (fst s) t)).
  Proof.
    intros [c ts] i t Hn. unfold CodecState.step_sys. cbn [fst snd] in *. rewrite Hn.
    destruct (step_thread c t) as [c' t'] eqn:Hs. cbn [snd].
    eapply nth_error_replace_nth_same. exact Hn.
  Qed.

  Lemma step_thread_done : forall c t, t_running t = false -> snd (step_thread c t) = t.
  Proof. intros c [pd st cur later res|res] H; [discriminate|reflexivity]. Qed.

  (** Under any schedule, thread [i]'s remaining work shrinks by one with each of its turns. *)
  Theorem mu_run_sched : forall sched s i t,
    nth_error (snd s) i = Some t ->
    exists t', nth_error (snd (run_sched sched s)) i = Some t' /\
               (mu t' <= mu t - count_occ Nat.eq_dec sched i)%nat.
  Proof.
    induction sched as [|j sched IH]; intros s i t Hn; cbn [CodecState.run_sched fold_left count_occ].
    - exists t. split; [exact Hn|lia].
    - destruct (Nat.eq_dec j i) as [->|Hji].
      + pose proof (step_sys_same s i t Hn) as Hs.
        destruct (IH _ _ _ Hs) as [t' [Hn' Hle]]. exists t'. split; [exact Hn'|].
        destruct (t_running t) eqn:Hr.
        * pose proof (mu_step (fst s) t Hr). lia.
        * rewrite step_thread_done in Hle by exact Hr.
          assert (Hz : mu t = 0%nat) by (destruct t; [discriminate|reflexivity]). lia.
      + assert (Hs : nth_error (snd (step_sys s j)) i = Some t) by (rewrite step_sys_other; assumption).
        destruct (IH _ _ _ Hs) as [t' [Hn' Hle]]. exists t'. split; assumption.
  Qed.

  (** Hence: in every schedule that gives thread [i] at least [mu] turns, thread [i] has
      finished - whatever the other threads did in between. *)
  Theorem thread_terminates : forall jobs sched i orig,
    nth_error jobs i = Some orig ->
    (list_sum (map sumc orig) <= count_occ Nat.eq_dec sched i)%nat ->
    exists res, nth_error (snd (run_sched sched (init_sys [] jobs))) i = Some (TDone res).
  Proof.
    intros jobs sched i orig Ho Hc.
    assert (Hn : nth_error (snd (init_sys (P:=P) [] jobs)) i = Some (init_thread orig)).
    { cbn [init_sys snd]. rewrite nth_error_map. rewrite Ho. reflexivity. }
    destruct (mu_run_sched sched _ _ _ Hn) as [t' [Hn' Hle]].
    unfold init_thread in Hle. rewrite mu_next_msg in Hle.
    assert (Hz : mu t' = 0%nat) by lia.
    apply mu_zero_done in Hz. destruct t' as [pd st cur later res|res]; [discriminate|].
    exists res. exact Hn'.
  Qed.
End CacheProofs.

(* ------------------------------------------------------------------------------------ *)
(** * The encode-plan builder over a table of types is an instance *)

Lemma all_some_Forall2 {A B} (f : A -> option B) : forall l subs,
  all_some (map f l) = Some subs <-> Forall2 (fun d p => f d = Some p) l subs.
Proof.
  induction l as [|d l IH]; intros subs; cbn [map all_some].
  - split; intros H; [inversion H; constructor|inversion H; reflexivity].
  - destruct (f d) as [b|] eqn:Hf.
    + destruct (all_some (map f l)) as [r|] eqn:Ha; cbn [option_map]; split; intros H.
      * inversion H; subst. constructor; [exact Hf|]. apply IH. reflexivity.
      * inversion H as [|? ? ? ? Hd Hr]; subst. rewrite Hf in Hd. inversion Hd; subst.
        apply IH in Hr. inversion Hr; subst. reflexivity.
      * discriminate.
      * inversion H as [|? ? ? ? Hd Hr]; subst. apply IH in Hr. discriminate.
    + split; intros H; [discriminate|]. inversion H as [|? ? ? ? Hd Hr]; subst. rewrite Hf in Hd. discriminate.
Qed.

Lemma all_some_none {A B} (f : A -> option B) : forall l,
  all_some (map f l) = None -> exists d, In d l /\ f d = None.
Proof.
  induction l as [|d l IH]; cbn [map all_some]; intros H; [discriminate|].
  destruct (f d) as [b|] eqn:Hf.
  - destruct (all_some (map f l)) as [r|] eqn:Ha; [discriminate|].
    destruct (IH eq_refl) as [d' [Hin Hd']]. exists d'. split; [right; exact Hin|exact Hd'].
  - exists d. split; [left; reflexivity|exact Hf].
Qed.

Section Concrete.
  Variable tbl : ttable.
  (** The table of types has no cycle: a rank decreases along dependencies.  [N] bounds it. *)
  Variable rank : Z -> nat.
  Variable N : nat.
  Hypothesis rank_dec : forall ty d, In d (deps_of tbl ty) -> (rank d < rank ty)%nat.
  Hypothesis rank_bound : forall ty, (rank ty < N)%nat.

  Lemma pure_plan_stable : forall n m ty,
    (rank ty < n)%nat -> (rank ty < m)%nat -> pure_plan tbl n ty = pure_plan tbl m ty.
  Proof.
    induction n as [|n IH]; intros m ty Hn Hm; [lia|]. destruct m as [|m]; [lia|]. cbn [pure_plan].
    assert (H : map (pure_plan tbl n) (deps_of tbl ty) = map (pure_plan tbl m) (deps_of tbl ty)).
    { apply map_ext_in. intros d Hd. pose proof (rank_dec ty d Hd). apply IH; lia. }
    rewrite H. reflexivity.
  Qed.

  Definition purec : Z -> option plan := pure_plan tbl N.

  Lemma purec_unfold : forall ty,
    purec ty = match all_some (map purec (deps_of tbl ty)) with
               | Some subs => mk_of tbl ty subs
               | None => None
               end.
  Proof.
    intros ty. unfold purec. pose proof (rank_bound ty).
    rewrite (pure_plan_stable N (S N) ty) by lia. reflexivity.
  Qed.

  Lemma purec_mk : forall ty subs,
    Forall2 (fun d p => purec d = Some p) (deps_of tbl ty) subs -> mk_of tbl ty subs = purec ty.
  Proof.
    intros ty subs H. rewrite (purec_unfold ty). apply all_some_Forall2 in H. rewrite H. reflexivity.
  Qed.

  Lemma purec_deps : forall ty p, purec ty = Some p ->
    forall d, In d (deps_of tbl ty) -> exists q, purec d = Some q.
  Proof.
    intros ty p H d Hd. rewrite purec_unfold in H.
    destruct (all_some (map purec (deps_of tbl ty))) as [subs|] eqn:Ha; [|discriminate].
    apply all_some_Forall2 in Ha. clear H. induction Ha as [|d' q l subs Hq _ IH]; [destruct Hd|].
    destruct Hd as [->|Hd]; [exists q; exact Hq|apply IH; exact Hd].
  Qed.

  (** Upper bound of the cache accesses of one lookup. *)
  Fixpoint cost_f (n : nat) (ty : Z) : nat :=
    match n with
    | O => 2%nat
    | S k => (2 + list_sum (map (cost_f k) (deps_of tbl ty)))%nat
    end.

  Lemma cost_f_stable : forall n m ty,
    (rank ty < n)%nat -> (rank ty < m)%nat -> cost_f n ty = cost_f m ty.
  Proof.
    induction n as [|n IH]; intros m ty Hn Hm; [lia|]. destruct m as [|m]; [lia|]. cbn [cost_f].
    assert (H : map (cost_f n) (deps_of tbl ty) = map (cost_f m) (deps_of tbl ty)).
    { apply map_ext_in. intros d Hd. pose proof (rank_dec ty d Hd). apply IH; lia. }
    rewrite H. reflexivity.
  Qed.

  Definition costc : Z -> nat := cost_f N.

  Lemma costc_eq : forall ty, costc ty = (2 + list_sum (map costc (deps_of tbl ty)))%nat.
  Proof.
    intros ty. unfold costc. pose proof (rank_bound ty).
    rewrite (cost_f_stable N (S N) ty) by lia. reflexivity.
  Qed.
End Concrete.

(** A boolean check of the rank conditions for a concrete table (types outside the table
    have no dependencies). *)
Definition rank_of (ranks : list (Z * nat)) (ty : Z) : nat :=
  match clookup ranks ty with Some r => r | None => O end.

Definition check_ranks (tbl : ttable) (ranks : list (Z * nat)) (N : nat) : bool :=
  forallb (fun r : Z * tydef =>
             forallb (fun d => Nat.ltb (rank_of ranks d) (rank_of ranks (fst r))) (deps_of tbl (fst r))) tbl
  && forallb (fun r : Z * nat => Nat.ltb (snd r) N) ranks && Nat.ltb 0 N.

Lemma clookup_in {A} : forall (l : list (Z * A)) k a, clookup l k = Some a -> In (k, a) l.
Proof.
  induction l as [|[k' a'] l IH]; intros k a H; cbn [clookup] in H; [discriminate|].
  destruct (k' =? k) eqn:He.
  - apply Z.eqb_eq in He. subst. inversion H; subst. left. reflexivity.
  - right. apply IH. exact H.
Qed.

Lemma check_ranks_sound : forall tbl ranks N,
  check_ranks tbl ranks N = true ->
  (forall ty d, In d (deps_of tbl ty) -> (rank_of ranks d < rank_of ranks ty)%nat) /\
  (forall ty, (rank_of ranks ty < N)%nat).
Proof.
  intros tbl ranks N H. unfold check_ranks in H.
  apply andb_prop in H. destruct H as [H HN]. apply andb_prop in H. destruct H as [Hd Hb].
  apply Nat.ltb_lt in HN. rewrite forallb_forall in Hd, Hb. split.
  - intros ty d Hin. unfold deps_of, tdef in Hin.
    destruct (clookup tbl ty) as [def|] eqn:Hl; [|destruct Hin].
    pose proof (clookup_in _ _ _ Hl) as Hl2. specialize (Hd (ty, def) Hl2). cbn [fst] in Hd.
    rewrite forallb_forall in Hd. apply Nat.ltb_lt. apply Hd.
    unfold deps_of, tdef. rewrite Hl. exact Hin.
  - intros ty. unfold rank_of. destruct (clookup ranks ty) as [r|] eqn:Hl; [|exact HN].
    apply clookup_in in Hl. specialize (Hb (ty, r) Hl). cbn [snd] in Hb. apply Nat.ltb_lt. exact Hb.
Qed.

(* ------------------------------------------------------------------------------------ *)
(** * Encoding only depends on the plans of the types it looks up *)

Section LkAgree.
  Variable lk1 lk2 : Z -> option plan.
  Variable tag_of : Z -> option Z.

  Definition agree_on (L : list Z) : Prop := forall ty, In ty L -> lk1 ty = lk2 ty.

  Definition comp := enc -> enc * status.

  (** The ghost log only grows, by appending. *)
  Definition ext_log (c : comp) : Prop := forall e, exists L, e_log (fst (c e)) = e_log e ++ L.

  (** [c2] (run with [lk2]) does what [c1] (run with [lk1]) does, provided the two agree on
      the types [c1] looks up. *)
  Definition sim (c1 c2 : comp) : Prop :=
    forall e, (forall L, e_log (fst (c1 e)) = e_log e ++ L -> agree_on L) -> c2 e = c1 e.

  Lemma agree_app : forall L1 L2, agree_on (L1 ++ L2) -> agree_on L1 /\ agree_on L2.
  Proof.
    intros L1 L2 H. split; intros ty Hin; apply H; apply in_or_app; [left|right]; exact Hin.
  Qed.

  Lemma sim_andthen : forall (c1 c2 k1 k2 : comp),
    ext_log c1 -> ext_log k1 -> sim c1 c2 -> sim k1 k2 ->
    sim (fun e => andthen (c1 e) k1) (fun e => andthen (c2 e) k2).
  Proof.
    intros c1 c2 k1 k2 Hec Hek Hc Hk e H.
    destruct (Hec e) as [L1 HL1].
    destruct (c1 e) as [e1 s] eqn:Hc1. cbn [fst] in HL1.
    destruct s.
    - destruct (Hek e1) as [L2 HL2]. cbn [andthen] in H.
      assert (Ha : agree_on (L1 ++ L2)).
      { apply H. rewrite HL2, HL1. rewrite app_assoc. reflexivity. }
      apply agree_app in Ha. destruct Ha as [Ha1 Ha2].
      rewrite (Hc e).
      + rewrite Hc1. cbn [andthen]. apply Hk. intros L HL. rewrite HL2 in HL.
        apply app_inv_head in HL. subst. exact Ha2.
      + intros L HL. rewrite Hc1 in HL. cbn [fst] in HL. rewrite HL1 in HL.
        apply app_inv_head in HL. subst. exact Ha1.
    - cbn [andthen fst] in H. rewrite (Hc e); [rewrite Hc1; reflexivity|].
      intros L HL. rewrite Hc1 in HL. cbn [fst] in HL. apply H. exact HL.
    - cbn [andthen fst] in H. rewrite (Hc e); [rewrite Hc1; reflexivity|].
      intros L HL. rewrite Hc1 in HL. cbn [fst] in HL. apply H. exact HL.
  Qed.

  Lemma ext_andthen : forall (c k : comp), ext_log c -> ext_log k -> ext_log (fun e => andthen (c e) k).
  Proof.
    intros c k Hc Hk e. destruct (Hc e) as [L1 HL1]. destruct (c e) as [e1 s]. cbn [fst] in HL1.
    destruct s; cbn [andthen fst]; try (exists L1; exact HL1).
    destruct (Hk e1) as [L2 HL2]. exists (L1 ++ L2). rewrite HL2, HL1. rewrite app_assoc. reflexivity.
  Qed.

  Lemma ext_ret : forall s, ext_log (fun e => (e, s)).
  Proof. intros s e. exists []. cbn [fst]. rewrite app_nil_r. reflexivity. Qed.

  Lemma sim_refl_nolk : forall c : comp, sim c c.
  Proof. intros c e _. reflexivity. Qed.

  Lemma ext_exec_seq : forall (f : value -> comp) vs,
    Forall (fun v => ext_log (f v)) vs -> ext_log (exec_seq f vs).
  Proof.
    intros f vs H. induction H as [|v vs Hv _ IH]; cbn [exec_seq]; [apply ext_ret|].
    apply (ext_andthen (f v) (exec_seq f vs)); assumption.
  Qed.

  Lemma sim_exec_seq : forall (f1 f2 : value -> comp) vs,
    Forall (fun v => ext_log (f1 v) /\ sim (f1 v) (f2 v)) vs -> sim (exec_seq f1 vs) (exec_seq f2 vs).
  Proof.
    intros f1 f2 vs H. induction H as [|v vs [Hev Hsv] Hr IH]; cbn [exec_seq]; [apply sim_refl_nolk|].
    apply (sim_andthen (f1 v) (f2 v) (exec_seq f1 vs) (exec_seq f2 vs)); try assumption.
    apply ext_exec_seq. eapply Forall_impl; [|exact Hr]. intros a [Ha _]. exact Ha.
  Qed.

  Lemma ext_exec_fields : forall (g : fplan -> value -> comp) vs,
    Forall (fun v => forall f, ext_log (g f v)) vs -> forall fs, ext_log (exec_fields g fs vs).
  Proof.
    intros g vs H. induction H as [|v vs Hv _ IH]; intros fs; destruct fs as [|f fs]; cbn [exec_fields];
      try apply ext_ret.
    apply (ext_andthen (g f v) (exec_fields g fs vs)); [apply Hv|apply IH].
  Qed.

  Lemma sim_exec_fields : forall (g1 g2 : fplan -> value -> comp) vs,
    Forall (fun v => forall f, ext_log (g1 f v) /\ sim (g1 f v) (g2 f v)) vs ->
    forall fs, sim (exec_fields g1 fs vs) (exec_fields g2 fs vs).
  Proof.
    intros g1 g2 vs H. induction H as [|v vs Hv Hr IH]; intros fs; destruct fs as [|f fs]; cbn [exec_fields];
      try apply sim_refl_nolk.
    destruct (Hv f) as [He Hs].
    apply (sim_andthen (g1 f v) (g2 f v) (exec_fields g1 fs vs) (exec_fields g2 fs vs)); try assumption.
    - apply ext_exec_fields. eapply Forall_impl; [|exact Hr]. intros a Ha f'. apply Ha.
    - apply IH.
  Qed.

  Lemma ext_in_struct : forall tag (body : comp), ext_log body -> ext_log (in_struct tag body).
  Proof.
    intros tag body Hb e. unfold in_struct. destruct (w_open (e_w e) tag) as [w1 off].
    destruct (Hb (set_w e w1)) as [L HL]. destruct (body (set_w e w1)) as [e1 s]. cbn [fst] in HL.
    exists L. destruct s; cbn [andthen fst]; exact HL.
  Qed.

  Lemma sim_in_struct : forall tag (b1 b2 : comp), sim b1 b2 -> sim (in_struct tag b1) (in_struct tag b2).
  Proof.
    intros tag b1 b2 Hb e H. unfold in_struct in *. destruct (w_open (e_w e) tag) as [w1 off].
    rewrite (Hb (set_w e w1)); [reflexivity|].
    intros L HL. apply H. destruct (b1 (set_w e w1)) as [e1 s]. cbn [fst] in HL.
    destruct s; cbn [andthen fst]; exact HL.
  Qed.

  Lemma ext_dyn : forall lk (rec : plan -> Z -> value -> comp) ty tag v,
    (forall q t, ext_log (rec q t v)) -> ext_log (dyn lk rec ty tag v).
  Proof.
    intros lk rec ty tag v Hr e. unfold dyn. destruct (lk ty) as [q|].
    - destruct (Hr q tag (add_log e ty)) as [L HL]. exists (ty :: L). rewrite HL. cbn [add_log e_log].
      rewrite <- app_assoc. reflexivity.
    - exists [ty]. reflexivity.
  Qed.

  Lemma sim_dyn : forall (r1 r2 : plan -> Z -> value -> comp) ty tag v,
    (forall q t, ext_log (r1 q t v) /\ sim (r1 q t v) (r2 q t v)) ->
    sim (dyn lk1 r1 ty tag v) (dyn lk2 r2 ty tag v).
  Proof.
    intros r1 r2 ty tag v Hr e H. unfold dyn in *.
    assert (Hty : lk1 ty = lk2 ty).
    { destruct (lk1 ty) as [q|] eqn:Hq.
      - destruct (Hr q tag) as [He _]. destruct (He (add_log e ty)) as [L HL].
        rewrite <- Hq. apply (H (ty :: L)); [|left; reflexivity].
        rewrite HL. cbn [add_log e_log]. rewrite <- app_assoc. reflexivity.
      - rewrite <- Hq. apply (H [ty]); [reflexivity|left; reflexivity]. }
    rewrite <- Hty. destruct (lk1 ty) as [q|]; [|reflexivity].
    destruct (Hr q tag) as [He Hs]. apply Hs. intros L HL. intros ty' Hin.
    apply (H (ty :: L)); [|right; exact Hin].
    rewrite HL. cbn [add_log e_log]. rewrite <- app_assoc. reflexivity.
  Qed.

  Lemma ext_exec_field : forall lk (rec : plan -> Z -> value -> comp) f x,
    (forall q t, ext_log (rec q t x)) ->
    (forall ty v', x = VIface ty v' -> forall q t, ext_log (rec q t v')) ->
    ext_log (exec_field lk tag_of rec f x).
  Proof.
    intros lk rec f x Hx Hu e. unfold exec_field. destruct f as [o q|].
    - unfold field_setver. destruct (f_setver o).
      + destruct (value_version x) as [vv|]; [|apply ext_ret].
        destruct (field_skipped o x (set_ext e (Some vv))); [exists []; cbn [fst set_ext e_log]; rewrite app_nil_r; reflexivity|].
        destruct (Hx q (f_tag o) (set_ext e (Some vv))) as [L HL]. exists L. exact HL.
      + destruct (field_skipped o x e); [apply ext_ret|]. apply Hx.
    - destruct x; try apply ext_ret. destruct (tag_of ty); [|apply ext_ret].
      apply ext_dyn. intros q t. eapply Hu. reflexivity.
  Qed.

  Lemma sim_exec_field : forall (r1 r2 : plan -> Z -> value -> comp) f x,
    (forall q t, ext_log (r1 q t x) /\ sim (r1 q t x) (r2 q t x)) ->
    (forall ty v', x = VIface ty v' -> forall q t, ext_log (r1 q t v') /\ sim (r1 q t v') (r2 q t v')) ->
    sim (exec_field lk1 tag_of r1 f x) (exec_field lk2 tag_of r2 f x).
  Proof.
    intros r1 r2 f x Hx Hu e H. unfold exec_field in *. destruct f as [o q|].
    - destruct (field_setver o x e) as [e1|] eqn:Hs; [|reflexivity].
      destruct (field_skipped o x e1); [reflexivity|].
      destruct (Hx q (f_tag o)) as [_ Hsim]. apply Hsim. intros L HL. apply H.
      assert (Hlog : e_log e1 = e_log e).
      { unfold field_setver in Hs. destruct (f_setver o).
        - destruct (value_version x); inversion Hs; reflexivity.
        - inversion Hs; reflexivity. }
      rewrite HL, Hlog. reflexivity.
    - destruct x; try reflexivity. destruct (tag_of ty); [|reflexivity].
      apply sim_dyn; [|exact H]. intros q t. eapply Hu. reflexivity.
  Qed.

  Lemma exec_sim_strong : forall v,
    (forall p tag, ext_log (exec lk1 tag_of p tag v) /\ sim (exec lk1 tag_of p tag v) (exec lk2 tag_of p tag v)) /\
    under_iface (fun v' => forall p tag, ext_log (exec lk1 tag_of p tag v') /\
                                         sim (exec lk1 tag_of p tag v') (exec lk2 tag_of p tag v')) v.
  Proof.
    induction v as [l| |v IH|vs IH|vs IH|ty v IH] using value_ind'; (split; [|try exact Logic.I]).
    - intros p tag. destruct p; cbn [exec]; try (split; [apply ext_ret|apply sim_refl_nolk]).
      destruct (leaf_matches k l); [|split; [apply ext_ret|apply sim_refl_nolk]].
      split; [|apply sim_refl_nolk]. intros e. exists []. rewrite app_nil_r.
      unfold put_leaf. destruct (leaf_panics l); reflexivity.
    - intros p tag. destruct p; cbn [exec]; split; try apply ext_ret; apply sim_refl_nolk.
    - intros p tag. destruct p; cbn [exec]; try (split; [apply ext_ret|apply sim_refl_nolk]).
      apply IH.
    - intros p tag. destruct p; cbn [exec]; try (split; [apply ext_ret|apply sim_refl_nolk]). split.
      + apply ext_exec_seq. eapply Forall_impl; [|exact IH]. intros a [Ha _]. apply Ha.
      + apply sim_exec_seq. eapply Forall_impl; [|exact IH]. intros a [Ha _]. apply Ha.
    - intros p tag. destruct p; cbn [exec]; try (split; [apply ext_ret|apply sim_refl_nolk]). split.
      + apply ext_in_struct. apply ext_exec_fields. eapply Forall_impl; [|exact IH].
        intros a [Ha Hu] f. apply ext_exec_field.
        * intros q t. apply Ha.
        * intros ty v' -> q t. apply Hu.
      + apply sim_in_struct. apply sim_exec_fields. eapply Forall_impl; [|exact IH].
        intros a [Ha Hu] f. split.
        * apply ext_exec_field; [intros q t; apply Ha|intros ty v' -> q t; apply Hu].
        * apply sim_exec_field; [intros q t; apply Ha|intros ty v' -> q t; apply Hu].
    - intros p tag. destruct p; cbn [exec]; try (split; [apply ext_ret|apply sim_refl_nolk]). split.
      + apply ext_dyn. intros q t. apply IH.
      + apply sim_dyn. intros q t. apply IH.
    - cbn [under_iface]. apply IH.
  Qed.

  (** If [lk2] answers like [lk1] for every type that encoding the message with [lk1] looks
      up, encoding it with [lk2] gives the same result. *)
  Theorem encode_top_agree : forall ty tag v e,
    (forall L, e_log (fst (encode_top lk1 tag_of ty tag v e)) = e_log e ++ L -> agree_on L) ->
    encode_top lk2 tag_of ty tag v e = encode_top lk1 tag_of ty tag v e.
  Proof.
    intros ty tag v e H. unfold encode_top in *.
    apply (sim_dyn (exec lk1 tag_of) (exec lk2 tag_of) ty tag v); [|exact H].
    intros q t. apply exec_sim_strong.
  Qed.
End LkAgree.

(* ------------------------------------------------------------------------------------ *)
(** * Threads encoding through the shared cache produce the pure result *)

Lemma length_step_sys {P} deps mk : forall (s : sys P) i,
  length (snd (step_sys P deps mk s i)) = length (snd s).
Proof.
  intros [c ts] i. unfold step_sys. cbn [fst snd]. destruct (nth_error ts i) as [t|]; [|reflexivity].
  destruct (step_thread P deps mk c t). cbn [snd]. apply length_replace_nth.
Qed.

Lemma length_run_sched {P} deps mk : forall sched (s : sys P),
  length (snd (run_sched P deps mk sched s)) = length (snd s).
Proof.
  induction sched as [|i sched IH]; intros s; cbn [run_sched fold_left]; [reflexivity|].
  unfold run_sched in IH. rewrite IH. apply length_step_sys.
Qed.

Lemma map_combine_nth {A B C} (f : A * B -> C) (g : A -> C) : forall (la : list A) (lb : list B),
  length lb = length la ->
  (forall i a b, nth_error la i = Some a -> nth_error lb i = Some b -> f (a, b) = g a) ->
  map f (combine la lb) = map g la.
Proof.
  induction la as [|a la IH]; intros lb Hlen H; destruct lb as [|b lb]; try discriminate; [reflexivity|].
  cbn [combine map]. f_equal.
  - apply (H O); reflexivity.
  - apply IH; [cbn in Hlen; lia|]. intros i a' b' Ha Hb. apply (H (S i)); assumption.
Qed.

Lemma count_occ_repeat_same : forall i n, count_occ Nat.eq_dec (repeat i n) i = n.
Proof.
  intros i n. induction n as [|n IH]; [reflexivity|]. cbn [repeat count_occ].
  destruct (Nat.eq_dec i i); [rewrite IH; reflexivity|congruence].
Qed.

Lemma count_occ_drain : forall l i n, In i l ->
  (n <= count_occ Nat.eq_dec (concat (map (fun j => repeat j n) l)) i)%nat.
Proof.
  induction l as [|j l IH]; intros i n Hin; [destruct Hin|]. cbn [map concat]. rewrite count_occ_app.
  destruct Hin as [->|Hin].
  - rewrite count_occ_repeat_same. lia.
  - specialize (IH i n Hin). lia.
Qed.

Lemma clookup_results {P} (pure : Z -> option P) : forall (L : list Z) (res : list (Z * P)),
  map (fun r => (fst r, Some (snd r))) res = map (fun ty => (ty, pure ty)) L ->
  forall ty, In ty L -> clookup res ty = pure ty.
Proof.
  induction L as [|ty0 L IH]; intros res H ty Hin; [destruct Hin|].
  destruct res as [|[k p] res]; [discriminate|]. cbn [map fst snd] in H. inversion H; subst.
  cbn [clookup]. destruct (ty0 =? ty) eqn:He.
  - apply Z.eqb_eq in He. subst. congruence.
  - destruct Hin as [->|Hin]; [rewrite Z.eqb_refl in He; discriminate|]. apply IH; assumption.
Qed.

Section Threads.
  Variable tbl : ttable.
  Variable rank : Z -> nat.
  Variable N : nat.
  Hypothesis rank_dec : forall ty d, In d (deps_of tbl ty) -> (rank d < rank ty)%nat.
  Hypothesis rank_bound : forall ty, (rank ty < N)%nat.
  Variable tag_of : Z -> option Z.

  Notation pc := (purec tbl N).

  (** The cache lookups of one message (top-level type, then the dynamic types met). *)
  Definition msg_log (m : msg) : list Z :=
    match m with (ty, tag, v) => e_log (fst (encode_top pc tag_of ty tag v (enc_new KBin))) end.

  (** No lookup of the thread's messages hits a type whose plan cannot be built. *)
  Definition msgs_good (ms : list msg) : Prop :=
    forall m, In m ms -> forall ty, In ty (msg_log m) -> exists p, pc ty = Some p.

  Definition thread_cost (ms : list msg) : nat := list_sum (map (sumc (costc tbl N)) (map msg_log ms)).

  Lemma lookups_of_log : forall ms, lookups_of pc tag_of ms = map msg_log ms.
  Proof. intros ms. unfold lookups_of. apply map_ext. intros [[ty tag] v]. reflexivity. Qed.

  (** Any number of threads, any schedule (then every thread is given [dfuel] more turns,
      enough to finish): each thread's encodings, made with whatever the cache handed it,
      are exactly the encodings computed with the pure plans - the sequential result. *)
  Theorem threads_encode_pure : forall (work : list (list msg)) (sched : list nat) (dfuel : nat),
    (forall ms, In ms work -> msgs_good ms) ->
    (forall ms, In ms work -> (thread_cost ms <= dfuel)%nat) ->
    run_threads tbl tag_of N dfuel work sched = map (map (marshal pc tag_of)) work.
  Proof.
    intros work sched dfuel Hgood Hcost. unfold run_threads.
    set (jobs := map (lookups_of (pure_plan tbl N) tag_of) work).
    set (sch := sched ++ drain_sched (length work) dfuel).
    apply map_combine_nth.
    - rewrite length_run_sched. cbn [init_sys snd]. rewrite map_length. unfold jobs. rewrite map_length. reflexivity.
    - intros i ms t Hms Ht.
      assert (Hjob : nth_error jobs i = Some (map msg_log ms)).
      { unfold jobs. rewrite nth_error_map. rewrite Hms. cbn [option_map]. rewrite <- lookups_of_log. reflexivity. }
      assert (Hin : In ms work) by (eapply nth_error_In; exact Hms).
      assert (Hi : (i < length work)%nat) by (apply nth_error_Some; congruence).
      destruct (thread_terminates plan (deps_of tbl) (mk_of tbl) (costc tbl N)
                  (costc_eq tbl rank N rank_dec rank_bound) jobs sch i (map msg_log ms) Hjob) as [res Hres].
      { eapply Nat.le_trans; [apply (Hcost ms Hin)|]. unfold sch. rewrite count_occ_app.
        pose proof (count_occ_drain (seq 0 (length work)) i dfuel) as Hd.
        unfold drain_sched. assert (Hs : In i (seq 0 (length work))) by (apply in_seq; lia).
        specialize (Hd Hs). lia. }
      fold sch in Ht. rewrite Hres in Ht. inversion Ht; subst t. cbn [t_results].
      assert (Hjobs_good : forall orig, In orig jobs -> forall ty, In ty (concat orig) -> has_pure plan pc ty).
      { intros orig Ho ty Hty. unfold jobs in Ho. apply in_map_iff in Ho. destruct Ho as [ms' [<- Hms']].
        rewrite lookups_of_log in Hty. apply in_concat in Hty. destruct Hty as [L [HL Hty]].
        apply in_map_iff in HL. destruct HL as [m [<- Hm]]. apply (Hgood ms' Hms' m Hm ty Hty). }
      pose proof (finished_thread_results plan (deps_of tbl) (mk_of tbl) pc
                    (purec_mk tbl rank N rank_dec rank_bound) (purec_deps tbl rank N rank_dec rank_bound)
                    jobs sch i (map msg_log ms) res Hjobs_good Hjob Hres) as Hmap.
      apply map_ext_in. intros [[ty tag] v] Hm. unfold marshal.
      rewrite (encode_top_agree pc (lk_of_results res) tag_of ty tag v (enc_new KBin)); [reflexivity|].
      intros L HL ty' Hty'. cbn [enc_new e_log app] in HL. unfold lk_of_results. symmetry.
      apply (clookup_results pc (concat (map msg_log ms)) res Hmap).
      apply in_concat. exists (msg_log (ty, tag, v)). split; [apply in_map; exact Hm|].
      unfold msg_log. rewrite HL. exact Hty'.
  Qed.
End Threads.

(* ------------------------------------------------------------------------------------ *)
(** * Decoder: the version does not flow into a value that carries its own *)

Definition with_ext {A} (x : ext) (r : dr A) : dr A :=
  match r with
  | ROk a _ c => ROk a x c
  | RErr => RErr
  | RPanic => RPanic
  | RBad => RBad
  end.

Lemma with_ext_map {A B} (g : A -> B) x (r : dr A) : with_ext x (dr_map g r) = dr_map g (with_ext x r).
Proof. destruct r; reflexivity. Qed.

(** [elem] neither reads nor changes the version. *)
Definition passthrough {A} (elem : ext -> cursor -> dr A) : Prop :=
  forall x c, elem x c = with_ext x (elem None c).

Lemma passthrough_none {A} (elem : ext -> cursor -> dr A) : passthrough elem ->
  forall c a x' c', elem None c = ROk a x' c' -> x' = None.
Proof.
  intros H c a x' c' He. pose proof (H None c) as Hn. rewrite He in Hn. cbn [with_ext] in Hn. congruence.
Qed.

Lemma dec_loop_passthrough : forall elem isptr tag,
  passthrough elem -> forall n acc, passthrough (fun x c => dec_loop elem isptr tag n x c acc).
Proof.
  intros elem isptr tag He. induction n as [|n IH]; intros acc x c; cbn [dec_loop]; [reflexivity|].
  destruct (c_tag c =? tag); [|reflexivity].
  rewrite (He x c). destruct (elem None c) as [v x' c'| | |] eqn:Hn; cbn [with_ext]; try reflexivity.
  apply (passthrough_none elem He) in Hn. subst x'. apply IH.
Qed.

Lemma dec_fields_passthrough : forall (g : dfield -> ext -> cursor -> dr value) fs,
  Forall (fun fd => passthrough (g fd)) fs -> passthrough (dec_fields g fs).
Proof.
  intros g fs H. induction H as [|fd fs Hfd _ IH]; intros x c; cbn [dec_fields]; [reflexivity|].
  rewrite (Hfd x c). destruct (g fd None c) as [v x' c'| | |] eqn:Hn; cbn [with_ext]; try reflexivity.
  apply (passthrough_none (g fd) Hfd) in Hn. subst x'.
  rewrite (IH x c'). rewrite <- with_ext_map. reflexivity.
Qed.

Lemma no_query_passthrough : forall f p tag, no_query p = true -> passthrough (dec f p tag).
Proof.
  induction f as [|f IH]; intros p tag Hq x c; cbn [dec]; [reflexivity|].
  destruct p as [k|q|isptr q|fs|]; cbn [no_query] in Hq.
  - destruct c as [|[t l|t ch] rest]; try reflexivity.
    destruct ((t =? tag) && leaf_matches k l); reflexivity.
  - destruct (c_tag c =? tag); [|reflexivity].
    rewrite (IH q tag Hq x c). rewrite with_ext_map. reflexivity.
  - apply (dec_loop_passthrough (dec f q tag) isptr tag (IH q tag Hq) (S (length c)) [] x c).
  - destruct c as [|[t l|t ch] rest]; try reflexivity.
    destruct (t =? tag); [|reflexivity].
    assert (Hp : passthrough (dec_fields (dec_field (dec f)) fs)).
    { apply dec_fields_passthrough. rewrite forallb_forall in Hq. apply Forall_forall.
      intros [o q] Hin. specialize (Hq _ Hin). cbn beta iota in Hq.
      apply andb_prop in Hq. destruct Hq as [Hq Hnq]. apply andb_prop in Hq. destruct Hq as [Hsv Hr].
      apply negb_true_iff in Hsv. intros x0 c0. unfold dec_field, after_setver, field_absent.
      rewrite Hsv. destruct (f_range o); [discriminate|]. cbn [orb].
      destruct (f_omit o && negb (c_tag c0 =? f_tag o)); [reflexivity|].
      apply (IH q (f_tag o) Hnq). }
    rewrite (Hp x ch). destruct (dec_fields (dec_field (dec f)) fs None ch); reflexivity.
  - reflexivity.
Qed.

(** A value that carries its own version first is decoded identically whatever version an
    earlier value left in the Decoder. *)
Theorem dsets_first_ext_irrelevant : forall f p tag c x1 x2,
  dsets_first p = true -> dec f p tag x1 c = dec f p tag x2 c.
Proof.
  induction f as [|f IH]; intros p tag c x1 x2 H; cbn [dec]; [reflexivity|].
  destruct p as [k|q|isptr q|fs|]; cbn [dsets_first] in H; try discriminate.
  destruct fs as [|[o q] fs]; [discriminate|].
  destruct c as [|[t l|t ch] rest]; try reflexivity.
  destruct (t =? tag); [|reflexivity].
  cbn [dec_fields]. destruct (f_range o) eqn:Hr; [discriminate|].
  assert (Hfirst : dec_field (dec f) (DField o q) x1 ch = dec_field (dec f) (DField o q) x2 ch).
  { unfold dec_field, field_absent. rewrite Hr. cbn [orb].
    destruct (f_setver o) eqn:Hsv.
    - unfold after_setver. rewrite Hsv.
      destruct (f_omit o && negb (c_tag ch =? f_tag o)); [reflexivity|].
      rewrite (no_query_passthrough f q (f_tag o) H x1 ch), (no_query_passthrough f q (f_tag o) H x2 ch).
      destruct (dec f q (f_tag o) None ch); reflexivity.
    - apply andb_prop in H. destruct H as [Ho Hq]. apply negb_true_iff in Ho. rewrite Ho. cbn [andb].
      unfold after_setver. rewrite Hsv. apply IH. exact Hq. }
  rewrite Hfirst. reflexivity.
Qed.
