(** Proofs about CodecState.v (property C20). *)
From Coq Require Import ZArith List Bool Lia Arith.
From KV Require Import Base CodecState.
Import ListNotations.
Open Scope Z_scope.

(* ------------------------------------------------------------------------------------ *)
(** * Induction over values (nested through lists) *)

Section ValueInd.
  Variable Q : value -> Prop.
  Hypothesis Hleaf : forall l, Q (VLeaf l).
  Hypothesis Hnil : Q VNil.
  Hypothesis Hptr : forall v, Q v -> Q (VPtr v).
  Hypothesis Hlist : forall vs, Forall Q vs -> Q (VList vs).
  Hypothesis Hstruct : forall fs, Forall Q fs -> Q (VStruct fs).
  Hypothesis Hiface : forall ty v, Q v -> Q (VIface ty v).

  Fixpoint value_ind' (v : value) : Q v :=
    match v with
    | VLeaf l => Hleaf l
    | VNil => Hnil
    | VPtr v' => Hptr v' (value_ind' v')
    | VList vs =>
        Hlist vs ((fix go (l : list value) : Forall Q l :=
                     match l with
                     | [] => Forall_nil Q
                     | x :: xs => Forall_cons x (value_ind' x) (go xs)
                     end) vs)
    | VStruct fs =>
        Hstruct fs ((fix go (l : list value) : Forall Q l :=
                       match l with
                       | [] => Forall_nil Q
                       | x :: xs => Forall_cons x (value_ind' x) (go xs)
                       end) fs)
    | VIface ty v' => Hiface ty v' (value_ind' v')
    end.
End ValueInd.

Section ProgInd.
  Variable Q : prog -> Prop.
  Hypothesis Hleaf : forall tag l, Q (PLeaf tag l).
  Hypothesis Hstruct : forall tag body, Forall Q body -> Q (PStruct tag body).
  Hypothesis Habort : Q PAbort.

  Fixpoint prog_ind' (p : prog) : Q p :=
    match p with
    | PLeaf tag l => Hleaf tag l
    | PStruct tag body =>
        Hstruct tag body ((fix go (l : list prog) : Forall Q l :=
                             match l with
                             | [] => Forall_nil Q
                             | x :: xs => Forall_cons x (prog_ind' x) (go xs)
                             end) body)
    | PAbort => Habort
    end.
End ProgInd.

(* ------------------------------------------------------------------------------------ *)
(** * Clear *)

Lemma w_clear_new : forall w, w_clear w = w_new (w_kind w).
Proof. intros [buf|k done stack]; reflexivity. Qed.

(** Clear puts every writer, in whatever state (complete document, structures left open
    by an aborted call, any version), back into the state of a new encoder of that kind. *)
Lemma enc_clear_new : forall e, enc_clear e = enc_new (w_kind (e_w e)).
Proof. intros e. unfold enc_clear, enc_new. rewrite w_clear_new. reflexivity. Qed.

Lemma clear_resets_all : forall e,
  e_ext (enc_clear e) = None /\
  e_w (enc_clear e) = w_new (w_kind (e_w e)) /\
  w_view (e_w (enc_clear e)) = w_view (w_new (w_kind (e_w e))).
Proof.
  intros e. rewrite enc_clear_new. cbn [enc_new e_ext e_w]. repeat split; reflexivity.
Qed.

Lemma clear_view_empty : forall e,
  w_view (e_w (enc_clear e)) = match w_kind (e_w e) with KBin => VwBytes [] | KTok _ => VwItems [] end.
Proof.
  intros e. rewrite enc_clear_new. cbn [enc_new e_w].
  destruct (w_kind (e_w e)) as [|[| |]]; reflexivity.
Qed.

(** The defect that was repaired: with structures left open by an aborted message the
    XML writer's Clear panicked (and the other three did not). *)
Lemma xml_clear_before_fix_refuted :
  exists w, w_kind w = KTok KXml /\ w_clear_before_fix w = None.
Proof. exists (WTok KXml [] [(1, [])]). split; reflexivity. Qed.

Lemma clear_before_fix_only_xml : forall w,
  w_kind w <> KTok KXml -> w_clear_before_fix w = Some (w_clear w).
Proof.
  intros [buf|k done stack] H; [reflexivity|].
  destruct k; try reflexivity. exfalso. apply H. reflexivity.
Qed.

(* ------------------------------------------------------------------------------------ *)
(** * Invariants of one call *)

Section ExecInv.
  Variable lk : Z -> option plan.
  Variable tag_of : Z -> option Z.
  Variable I : enc -> Prop.
  Hypothesis I_w : forall e w, I e -> w_kind w = w_kind (e_w e) -> I (set_w e w).
  Hypothesis I_ext : forall e x, I e -> I (set_ext e x).
  Hypothesis I_log : forall e ty, I e -> I (add_log e ty).

  Lemma w_leaf_kind : forall w tag l, w_kind (w_leaf w tag l) = w_kind w.
  Proof.
    intros [buf|k done stack] tag l; cbn [w_leaf w_kind]; [reflexivity|].
    destruct (tok_emit (IPrim tag l) done stack); reflexivity.
  Qed.

  Lemma w_open_kind : forall w tag, w_kind (fst (w_open w tag)) = w_kind w.
  Proof. intros [buf|k done stack] tag; reflexivity. Qed.

  Lemma w_close_kind : forall w off, w_kind (w_close w off) = w_kind w.
  Proof.
    intros [buf|k done stack] off; cbn [w_close w_kind]; [reflexivity|].
    destruct stack as [|[t ch] rest]; [reflexivity|].
    destruct (tok_emit (IStruct t ch) done rest); reflexivity.
  Qed.

  Lemma put_leaf_inv : forall tag l e, I e -> I (fst (put_leaf tag l e)).
  Proof.
    intros tag l e H. unfold put_leaf. destruct (leaf_panics l); cbn [fst]; [exact H|].
    apply I_w; [exact H|apply w_leaf_kind].
  Qed.

  Lemma andthen_inv : forall r k,
    I (fst r) -> (forall e, I e -> I (fst (k e))) -> I (fst (andthen r k)).
  Proof.
    intros [e s] k H Hk. destruct s; cbn [andthen fst] in *; auto.
  Qed.

  Lemma in_struct_inv : forall tag body e,
    I e -> (forall e', I e' -> I (fst (body e'))) -> I (fst (in_struct tag body e)).
  Proof.
    intros tag body e H Hb. unfold in_struct.
    destruct (w_open (e_w e) tag) as [w1 off] eqn:Ho.
    apply andthen_inv.
    - apply Hb. apply I_w; [exact H|]. change w1 with (fst (w1, off)). rewrite <- Ho. apply w_open_kind.
    - intros e2 H2. cbn [fst]. apply I_w; [exact H2|apply w_close_kind].
  Qed.

  Lemma run_seq_inv : forall (f : prog -> enc -> enc * status) ps,
    Forall (fun p => forall e, I e -> I (fst (f p e))) ps ->
    forall e, I e -> I (fst (run_seq f ps e)).
  Proof.
    intros f ps Hps. induction Hps as [|p ps Hp _ IH]; intros e He; cbn [run_seq]; [exact He|].
    apply andthen_inv; [apply Hp; exact He|exact IH].
  Qed.

  Lemma run_prog_inv : forall p e, I e -> I (fst (run_prog p e)).
  Proof.
    induction p as [tag l|tag body IH|] using prog_ind'; intros e He; cbn [run_prog].
    - apply put_leaf_inv; exact He.
    - apply in_struct_inv; [exact He|]. intros e' He'. apply run_seq_inv; assumption.
    - exact He.
  Qed.

  Lemma exec_seq_inv : forall (f : value -> enc -> enc * status) vs,
    Forall (fun v => forall e, I e -> I (fst (f v e))) vs ->
    forall e, I e -> I (fst (exec_seq f vs e)).
  Proof.
    intros f vs Hvs. induction Hvs as [|v vs Hv _ IH]; intros e He; cbn [exec_seq]; [exact He|].
    apply andthen_inv; [apply Hv; exact He|exact IH].
  Qed.

  Lemma exec_fields_inv : forall (g : fplan -> value -> enc -> enc * status) vs,
    Forall (fun v => forall f e, I e -> I (fst (g f v e))) vs ->
    forall fs e, I e -> I (fst (exec_fields g fs vs e)).
  Proof.
    intros g vs Hvs. induction Hvs as [|v vs Hv _ IH]; intros fs e He; destruct fs as [|f fs];
      cbn [exec_fields fst]; try exact He.
    apply andthen_inv; [apply Hv; exact He|intros e' He'; apply IH; exact He'].
  Qed.

  Lemma dyn_inv : forall (rec : plan -> Z -> value -> enc -> enc * status) ty tag v e,
    (forall q t e', I e' -> I (fst (rec q t v e'))) -> I e -> I (fst (dyn lk rec ty tag v e)).
  Proof.
    intros rec ty tag v e Hrec He. unfold dyn. destruct (lk ty); cbn [fst].
    - apply Hrec. apply I_log. exact He.
    - apply I_log. exact He.
  Qed.

  Lemma field_setver_inv : forall o x e e1, I e -> field_setver o x e = Some e1 -> I e1.
  Proof.
    intros o x e e1 He H. unfold field_setver in H. destruct (f_setver o).
    - destruct (value_version x); inversion H; subst. apply I_ext. exact He.
    - inversion H; subst. exact He.
  Qed.

  Definition under_iface (Q : value -> Prop) (v : value) : Prop :=
    match v with VIface _ v' => Q v' | _ => True end.

  Lemma exec_inv_strong : forall v,
    (forall p tag e, I e -> I (fst (exec lk tag_of p tag v e))) /\
    under_iface (fun v' => forall p tag e, I e -> I (fst (exec lk tag_of p tag v' e))) v.
  Proof.
    induction v as [l| |v IH|vs IH|vs IH|ty v IH] using value_ind'; (split; [|try exact Logic.I]).
    - intros p tag e He. destruct p; cbn [exec fst]; try exact He.
      destruct (leaf_matches k l); [apply put_leaf_inv; exact He|exact He].
    - intros p tag e He. destruct p; cbn [exec fst]; exact He.
    - intros p tag e He. destruct p; cbn [exec fst]; try exact He. apply IH; exact He.
    - intros p tag e He. destruct p; cbn [exec fst]; try exact He.
      apply exec_seq_inv; [|exact He].
      eapply Forall_impl; [|exact IH]. intros v [Hv _] e' He'. apply Hv. exact He'.
    - intros p tag e He. destruct p; cbn [exec fst]; try exact He.
      apply in_struct_inv; [exact He|]. intros e' He'. apply exec_fields_inv; [|exact He'].
      eapply Forall_impl; [|exact IH]. intros v [Hv Hu] f e0 He0. cbn beta.
      unfold exec_field. destruct f as [o q|].
      + destruct (field_setver o v e0) as [e1|] eqn:Hs; [|exact He0].
        pose proof (field_setver_inv _ _ _ _ He0 Hs) as He1.
        destruct (field_skipped o v e1); [exact He1|]. apply Hv. exact He1.
      + destruct v; try exact He0. destruct (tag_of ty); [|exact He0].
        apply dyn_inv; [|exact He0]. intros q t e3 He3. apply Hu. exact He3.
    - intros p tag e He. destruct p; cbn [exec fst]; try exact He.
      apply dyn_inv; [|exact He]. intros q t e' He'. apply IH. exact He'.
    - cbn [under_iface]. apply IH.
  Qed.

  Lemma exec_inv : forall v p tag e, I e -> I (fst (exec lk tag_of p tag v e)).
  Proof. intros v. apply exec_inv_strong. Qed.

  Lemma encode_top_inv : forall ty tag v e, I e -> I (fst (encode_top lk tag_of ty tag v e)).
  Proof.
    intros ty tag v e He. unfold encode_top. apply dyn_inv; [|exact He].
    intros q t e' He'. apply exec_inv. exact He'.
  Qed.
End ExecInv.

(* ------------------------------------------------------------------------------------ *)
(** * History independence on one encoder *)

Section History.
  Variable lk : Z -> option plan.
  Variable tag_of : Z -> option Z.

  Definition kind_is (k : wkind) (e : enc) : Prop := w_kind (e_w e) = k.

  Lemma w_unwind_kind : forall w, w_kind (w_unwind w) = w_kind w.
  Proof. intros [buf|[| |] done stack]; reflexivity. Qed.

  Lemma settle_kind : forall k e s, kind_is k e -> kind_is k (settle e s).
  Proof.
    intros k e s H. unfold settle. destruct s; try exact H;
      unfold kind_is in *; cbn [set_w e_w]; rewrite w_unwind_kind; exact H.
  Qed.

  Lemma kind_is_w : forall k e w, kind_is k e -> w_kind w = w_kind (e_w e) -> kind_is k (set_w e w).
  Proof. intros k e w H Hw. unfold kind_is in *. cbn [set_w e_w]. congruence. Qed.

  Lemma do_call_kind : forall k c e, kind_is k e -> kind_is k (fst (do_call lk tag_of c e)).
  Proof.
    intros k c e H. destruct c as [p|ty tag v| |]; cbn [do_call].
    - destruct (run_prog p e) as [e' s] eqn:Hr. cbn [fst]. apply settle_kind.
      change e' with (fst (e', s)). rewrite <- Hr.
      apply (run_prog_inv (kind_is k)); [apply kind_is_w|exact H].
    - destruct (encode_top lk tag_of ty tag v e) as [e' s] eqn:Hr. cbn [fst]. apply settle_kind.
      change e' with (fst (e', s)). rewrite <- Hr.
      apply (encode_top_inv lk tag_of (kind_is k)); [apply kind_is_w| | |exact H].
      + intros e0 x H0. exact H0.
      + intros e0 t H0. exact H0.
    - cbn [fst]. unfold kind_is in *. cbn [enc_clear e_w]. rewrite w_clear_new. rewrite H.
      destruct k; reflexivity.
    - exact H.
  Qed.

  Lemma run_calls_kind : forall k cs e, kind_is k e -> kind_is k (fst (run_calls lk tag_of cs e)).
  Proof.
    intros k cs. induction cs as [|c cs IH]; intros e H; cbn [run_calls fst]; [exact H|].
    destruct (do_call lk tag_of c e) as [e1 o] eqn:Hd.
    destruct (run_calls lk tag_of cs e1) as [e2 os] eqn:Hr. cbn [fst].
    change e2 with (fst (e2, os)). rewrite <- Hr. apply IH.
    change e1 with (fst (e1, o)). rewrite <- Hd. apply do_call_kind. exact H.
  Qed.

  Lemma run_calls_app : forall cs1 cs2 e,
    run_calls lk tag_of (cs1 ++ cs2) e =
    let '(e1, o1) := run_calls lk tag_of cs1 e in
    let '(e2, o2) := run_calls lk tag_of cs2 e1 in (e2, o1 ++ o2).
  Proof.
    induction cs1 as [|c cs1 IH]; intros cs2 e; cbn [app run_calls].
    - destruct (run_calls lk tag_of cs2 e); reflexivity.
    - destruct (do_call lk tag_of c e) as [e1 o]. rewrite IH.
      destruct (run_calls lk tag_of cs1 e1) as [e2 os].
      destruct (run_calls lk tag_of cs2 e2) as [e3 os']. reflexivity.
  Qed.

  (** After any history whatsoever (calls that returned, calls that panicked half way and
      were recovered, any versions, earlier Clears), Clear makes the encoder
      indistinguishable from a new one: everything observed afterwards is what a fresh
      encoder of that kind would show. *)
  Theorem history_independent : forall k (h cs : list call),
    run_calls lk tag_of (h ++ CClear :: cs) (enc_new k) =
    (fst (run_calls lk tag_of cs (enc_new k)),
     snd (run_calls lk tag_of h (enc_new k)) ++ OOk :: snd (run_calls lk tag_of cs (enc_new k))).
  Proof.
    intros k h cs. rewrite run_calls_app.
    pose proof (run_calls_kind k h (enc_new k)) as Hk.
    destruct (run_calls lk tag_of h (enc_new k)) as [e1 o1]. cbn [fst snd] in *.
    cbn [run_calls do_call]. rewrite enc_clear_new. rewrite Hk.
    - destruct (run_calls lk tag_of cs (enc_new k)) as [e2 o2]. reflexivity.
    - unfold kind_is. destruct k; reflexivity.
  Qed.

  (** The version held by the encoder is irrelevant to a message that sets its own first. *)
  Lemma sets_first_ext_irrelevant : forall v p tag e x1 x2,
    sets_first p v = true ->
    exec lk tag_of p tag v (set_ext e x1) = exec lk tag_of p tag v (set_ext e x2).
  Proof.
    induction v as [l| |v IH|vs IH|vs IH|ty v IH] using value_ind'; intros p tag e x1 x2 H;
      cbn [sets_first] in H; try discriminate.
    - destruct p; try discriminate. cbn [exec]. apply IH. exact H.
    - destruct vs as [|x xs]; try discriminate.
      destruct p as [| | |fs|]; try discriminate.
      destruct fs as [|[o q|] fps]; try discriminate.
      cbn [exec]. unfold in_struct. cbn [set_ext e_w].
      destruct (w_open (e_w e) tag) as [w1 off].
      cbn [exec_fields]. f_equal. f_equal.
      unfold exec_field.
      destruct (f_setver o) eqn:Hsv.
      + unfold field_setver. rewrite Hsv. destruct (value_version x); [|discriminate]. reflexivity.
      + unfold field_setver. rewrite Hsv.
        destruct (f_range o) eqn:Hr; [discriminate|].
        apply andb_prop in H. destruct H as [Ho Hq].
        unfold field_skipped. rewrite Hr. apply negb_true_iff in Ho. rewrite Ho. cbn [negb orb andb].
        inversion IH as [|? ? Hx _]; subst.
        apply (Hx q (f_tag o) (set_w e w1) x1 x2 Hq).
  Qed.
End History.
