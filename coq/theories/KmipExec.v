(** The whole-message round trip stated on the EXECUTABLE marshal / unmarshal of the
    correspondence (KmipCodec.kmip_marshal / kmip_unmarshal, both at the fixed fuel FUEL), with
    hypotheses on the MESSAGE only: conformance (conf_ty), ranges (val_ranged) and size. *)
From Coq Require Import ZArith List Bool String Lia PeanoNat.
From KV Require Import Base BaseProofs Wire WireProofs Cursor Schema SchemaSem FaithfulProofs Roundtrip RoundtripProofs
  FixpointProofs KmipCodec KmipRoundtrip EncFuel EncFuelProofs EncRangeProofs.
From KVGen Require Import KmipSchema.
Import ListNotations.
Open Scope Z_scope.

Lemma FUEL_Z : Z.of_nat FUEL = 3000.
Proof. reflexivity. Qed.

(** the static range conditions hold of the schema regenerated from /repo *)
Lemma kmip_schema_rng_ok : schema_rng_ok kmip_schema = true.
Proof. vm_compute. reflexivity. Qed.

(** every writer call is at least 8 bytes on the wire *)
Lemma items_size_bytes l : (8 * items_size l <= List.length (wire_enc_list l))%nat.
Proof.
  unfold items_size, wire_enc_list. induction l as [|i l IH]; cbn [fold_right flat_map]; [lia|].
  rewrite app_length. pose proof (item_size_bytes i). lia.
Qed.

(** what [kmip_marshal = Ok] says *)
Lemma kmip_marshal_inv root d v bytes : find_tdef kmip_schema root = Some d -> kmip_marshal root v = Ok bytes ->
  exists items st', enc_ty kmip_schema FUEL None (TNamed root) (t_deftag d) v = Ok (items, st') /\
    existsb enc_panics items = false /\ bytes = wire_enc_list items.
Proof.
  intros Ed Hm. unfold kmip_marshal, kmip_items in Hm. rewrite Ed in Hm.
  destruct (enc_ty kmip_schema FUEL None (TNamed root) (t_deftag d) v) as [[items st']| | |]; cbn [bind fst] in Hm; try discriminate.
  destruct (existsb enc_panics items) eqn:Hp; [discriminate|]. injection Hm as <-.
  exists items, st'. auto.
Qed.

Theorem kmip_marshal_unmarshal : forall root d v bytes sc fc,
  find_tdef kmip_schema root = Some d ->
  kmip_marshal root v = Ok bytes ->
  conf_ty kmip_schema kmip_ops kmip_attrs kmip_objs fc None (TNamed root) (t_deftag d) v = Some sc ->
  val_ranged kmip_schema (TNamed root) v = true ->
  (4 * vdepth v + List.length bytes + 8 <= 4 * FUEL)%nat ->
  kmip_unmarshal root bytes = Ok v.
Proof.
  intros root d v bytes sc fc Ed Hm Hc Hr Hsz.
  destruct (kmip_marshal_inv _ _ _ _ Ed Hm) as (items & st' & He & _ & ->).
  pose proof FUEL_Z as HF. revert He Hsz HF. generalize FUEL. intros N He Hsz HF.
  rewrite enc_ty_at_depth in He by lia.
  assert (Hok : forallb item_ok items = true).
  { eapply (enc_ty_ranged kmip_schema kmip_schema_rng_ok); [|exact He | exact Hr].
    eapply deftag_ok; [exact kmip_schema_rng_ok | exact Ed]. }
  assert (Hsm : forallb item_small items = true).
  { apply items_small_of_len. unfold len. lia. }
  pose proof (items_size_bytes items) as Hb.
  eapply kmip_message_roundtrip; [exact Ed | exact He | exact Hc | exact Hok | exact Hsm |].
  assert (HN : Z.of_nat FUEL = Z.of_nat N) by (rewrite FUEL_Z; lia). apply Nat2Z.inj in HN. rewrite HN. lia.
Qed.

(** the same with the decidable size test [fits] *)
Corollary kmip_marshal_unmarshal_fits root d v bytes sc fc :
  find_tdef kmip_schema root = Some d ->
  kmip_marshal root v = Ok bytes ->
  conf_ty kmip_schema kmip_ops kmip_attrs kmip_objs fc None (TNamed root) (t_deftag d) v = Some sc ->
  val_ranged kmip_schema (TNamed root) v = true ->
  fits FUEL v (List.length bytes) = true ->
  kmip_unmarshal root bytes = Ok v.
Proof. intros Ed Hm Hc Hr Hf. eapply kmip_marshal_unmarshal; try eassumption. unfold fits in Hf. apply Nat.leb_le in Hf. exact Hf. Qed.

(** a value in range never makes the writer panic: when the encoder accepts a ranged value
    whose chain fits the fuel, [kmip_marshal] returns bytes *)
Theorem kmip_marshal_defined root d v items st' f :
  find_tdef kmip_schema root = Some d ->
  enc_ty kmip_schema f None (TNamed root) (t_deftag d) v = Ok (items, st') ->
  val_ranged kmip_schema (TNamed root) v = true ->
  (vdepth v <= FUEL)%nat ->
  kmip_marshal root v = Ok (wire_enc_list items).
Proof.
  intros Ed He Hr Hd.
  assert (Hok : forallb item_ok items = true).
  { eapply (enc_ty_ranged kmip_schema kmip_schema_rng_ok); [|exact He | exact Hr].
    eapply deftag_ok; [exact kmip_schema_rng_ok | exact Ed]. }
  assert (He2 : enc_ty kmip_schema FUEL None (TNamed root) (t_deftag d) v = Ok (items, st')).
  { destruct (Nat.le_ge_cases f FUEL) as [Hle | Hge].
    - eapply enc_ty_mono; [exact Hle | exact He].
    - rewrite enc_ty_at_depth by exact Hd. rewrite <- (enc_ty_at_depth kmip_schema f) by lia. exact He. }
  unfold kmip_marshal, kmip_items. rewrite Ed, He2. cbn [bind fst]. rewrite (items_ok_quiet _ Hok). reflexivity.
Qed.
