(** The whole-message round trip stated on the EXECUTABLE marshal / unmarshal of the
    correspondence (KmipCodec.kmip_marshal / kmip_unmarshal, both at the fixed fuel FUEL), with
    hypotheses on the MESSAGE only: conformance (conf_ty), ranges (val_ranged) and size. *)
From Coq Require Import ZArith List Bool String Lia PeanoNat.
From KV Require Import Base BaseProofs Wire WireProofs Cursor CursorProofs BinCursorProofs Schema SchemaSem FaithfulProofs Roundtrip RoundtripProofs
  FixpointProofs KmipCodec KmipRoundtrip DecSafe DecSafeProofs DecTerm DecTermProofs EncFuel EncFuelProofs EncRangeProofs DecFuelProofs.
From KVGen Require Import KmipSchema.
Import ListNotations.
Open Scope Z_scope.

Lemma FUEL_Z : Z.of_nat FUEL = 3000.
Proof. reflexivity. Qed.

(** the static range conditions hold of the schema regenerated from /repo *)
Lemma kmip_schema_rng_ok : schema_rng_ok kmip_schema = true.
Proof. vm_compute. reflexivity. Qed.

(** every writer call is at least 8 bytes on the wire *)
Lemma items_size_bytes l : (8 * items_size l <= List.length (wire_enc_list l))%nat.
Proof.
  unfold items_size, wire_enc_list. induction l as [|i l IH]; cbn [fold_right flat_map]; [lia|].
  rewrite app_length. pose proof (item_size_bytes i). lia.
Qed.

(** what [kmip_marshal = Ok] says *)
Lemma kmip_marshal_inv root d v bytes : find_tdef kmip_schema root = Some d -> kmip_marshal root v = Ok bytes ->
  exists items st', enc_ty kmip_schema FUEL None (TNamed root) (t_deftag d) v = Ok (items, st') /\
    existsb enc_panics items = false /\ bytes = wire_enc_list items.
Proof.
  intros Ed Hm. unfold kmip_marshal, kmip_items in Hm. rewrite Ed in Hm.
  destruct (enc_ty kmip_schema FUEL None (TNamed root) (t_deftag d) v) as [[items st']| | |]; cbn [bind fst] in Hm; try discriminate.
  destruct (existsb enc_panics items) eqn:Hp; [discriminate|]. injection Hm as <-.
  exists items, st'. auto.
Qed.

Theorem kmip_marshal_unmarshal : forall root d v bytes sc fc,
  find_tdef kmip_schema root = Some d ->
  kmip_marshal root v = Ok bytes ->
  conf_ty kmip_schema kmip_ops kmip_attrs kmip_objs fc None (TNamed root) (t_deftag d) v = Some sc ->
  val_ranged kmip_schema (TNamed root) v = true ->
  (4 * vdepth v + List.length bytes + 8 <= 4 * FUEL)%nat ->
  kmip_unmarshal root bytes = Ok v.
Proof.
  intros root d v bytes sc fc Ed Hm Hc Hr Hsz.
  destruct (kmip_marshal_inv _ _ _ _ Ed Hm) as (items & st' & He & _ & ->).
  pose proof FUEL_Z as HF. revert He Hsz HF. generalize FUEL. intros N He Hsz HF.
  rewrite enc_ty_at_depth in He by lia.
  assert (Hok : forallb item_ok items = true).
  { eapply (enc_ty_ranged kmip_schema kmip_schema_rng_ok); [|exact He | exact Hr].
    eapply deftag_ok; [exact kmip_schema_rng_ok | exact Ed]. }
  assert (Hsm : forallb item_small items = true).
  { apply items_small_of_len. unfold len. lia. }
  pose proof (items_size_bytes items) as Hb.
  eapply kmip_message_roundtrip; [exact Ed | exact He | exact Hc | exact Hok | exact Hsm |].
  assert (HN : Z.of_nat FUEL = Z.of_nat N) by (rewrite FUEL_Z; lia). apply Nat2Z.inj in HN. rewrite HN. lia.
Qed.

(** the same with the decidable size test [fits] *)
Corollary kmip_marshal_unmarshal_fits root d v bytes sc fc :
  find_tdef kmip_schema root = Some d ->
  kmip_marshal root v = Ok bytes ->
  conf_ty kmip_schema kmip_ops kmip_attrs kmip_objs fc None (TNamed root) (t_deftag d) v = Some sc ->
  val_ranged kmip_schema (TNamed root) v = true ->
  fits FUEL v (List.length bytes) = true ->
  kmip_unmarshal root bytes = Ok v.
Proof. intros Ed Hm Hc Hr Hf. eapply kmip_marshal_unmarshal; try eassumption. unfold fits in Hf. apply Nat.leb_le in Hf. exact Hf. Qed.

(** a value in range never makes the writer panic: when the encoder accepts a ranged value
    whose chain fits the fuel, [kmip_marshal] returns bytes *)
Theorem kmip_marshal_defined root d v items st' f :
  find_tdef kmip_schema root = Some d ->
  enc_ty kmip_schema f None (TNamed root) (t_deftag d) v = Ok (items, st') ->
  val_ranged kmip_schema (TNamed root) v = true ->
  (vdepth v <= FUEL)%nat ->
  kmip_marshal root v = Ok (wire_enc_list items).
Proof.
  intros Ed He Hr Hd.
  assert (Hok : forallb item_ok items = true).
  { eapply (enc_ty_ranged kmip_schema kmip_schema_rng_ok); [|exact He | exact Hr].
    eapply deftag_ok; [exact kmip_schema_rng_ok | exact Ed]. }
  assert (He2 : enc_ty kmip_schema FUEL None (TNamed root) (t_deftag d) v = Ok (items, st')).
  { destruct (Nat.le_ge_cases f FUEL) as [Hle | Hge].
    - eapply enc_ty_mono; [exact Hle | exact He].
    - rewrite enc_ty_at_depth by exact Hd. rewrite <- (enc_ty_at_depth kmip_schema f) by lia. exact He. }
  unfold kmip_marshal, kmip_items. rewrite Ed, He2. cbn [bind fst]. rewrite (items_ok_quiet _ Hok). reflexivity.
Qed.

(** ---------------------------------------------------------------------------------------
    With the fuel stability of the DECODER (DecFuelProofs.v) and its termination bound
    (DecTermProofs.v) the size hypothesis is on the BYTES alone: the struct-level round trip
    gives the value back at some large decoder fuel; the decoder does not exhaust FUEL on
    these bytes; so its result at FUEL is that value.  ([kmip_marshal = Ok] already says that
    the encoder had enough fuel.) *)
Lemma items_bytes_ok l : forallb item_ok l = true -> bytes_ok (wire_enc_list l) = true.
Proof.
  intros H. unfold wire_enc_list. apply bytes_ok_flat_map. apply (forallb_Forall_impl item_ok); [|exact H].
  apply Forall_forall. intros i _. apply bytes_ok_wire_enc.
Qed.

(** items written by the encoder at ANY fuel, decoded by the executable unmarshal: the value,
    unless the decoder runs out of fuel *)
Lemma kmip_items_roundtrip_unless_fuel root d v items st' fe sc fc :
  find_tdef kmip_schema root = Some d ->
  enc_ty kmip_schema fe None (TNamed root) (t_deftag d) v = Ok (items, st') ->
  conf_ty kmip_schema kmip_ops kmip_attrs kmip_objs fc None (TNamed root) (t_deftag d) v = Some sc ->
  forallb item_ok items = true -> len (wire_enc_list items) < 2 ^ 32 ->
  kmip_unmarshal root (wire_enc_list items) <> OutOfFuel -> kmip_unmarshal root (wire_enc_list items) = Ok v.
Proof.
  intros Ed He Hc Hok Hlen.
  assert (Hsm : forallb item_small items = true) by (apply items_small_of_len, Hlen).
  destruct (bin_roundtrip kmip_schema kmip_ops kmip_attrs kmip_objs fe fc None (TNamed root) (t_deftag d) v items st' sc He Hc Hok Hsm eq_refl)
    as (c & Hcur & Hdec).
  unfold kmip_unmarshal. rewrite Hcur. cbn [bind]. unfold kmip_dec. rewrite Ed. intros Hn.
  specialize (Hdec (FUEL + (fe + 2 * items_size items + 2))%nat ltac:(lia)).
  rewrite (dec_ty_stable kmip_schema kmip_ops kmip_attrs kmip_objs bin_fmt FUEL (FUEL + (fe + 2 * items_size items + 2))) in Hdec.
  - rewrite Hdec. reflexivity.
  - lia.
  - intros E. apply Hn. rewrite E. reflexivity.
Qed.

Lemma kmip_roundtrip_unless_fuel root d v bytes sc fc :
  find_tdef kmip_schema root = Some d ->
  kmip_marshal root v = Ok bytes ->
  conf_ty kmip_schema kmip_ops kmip_attrs kmip_objs fc None (TNamed root) (t_deftag d) v = Some sc ->
  val_ranged kmip_schema (TNamed root) v = true ->
  len bytes < 2 ^ 32 ->
  bytes_ok bytes = true /\ (kmip_unmarshal root bytes <> OutOfFuel -> kmip_unmarshal root bytes = Ok v).
Proof.
  intros Ed Hm Hc Hr Hlen.
  destruct (kmip_marshal_inv _ _ _ _ Ed Hm) as (items & st' & He & _ & ->).
  assert (Hok : forallb item_ok items = true).
  { eapply (enc_ty_ranged kmip_schema kmip_schema_rng_ok); [|exact He | exact Hr].
    eapply deftag_ok; [exact kmip_schema_rng_ok | exact Ed]. }
  split; [apply items_bytes_ok, Hok|].
  eapply kmip_items_roundtrip_unless_fuel; eassumption.
Qed.

(** any root structure of the schema: static depth of the type (DecTerm.bound) plus two units
    per 8 bytes within FUEL *)
Theorem kmip_marshal_unmarshal_bytes root d v bytes sc fc :
  find_tdef kmip_schema root = Some d ->
  kmip_marshal root v = Ok bytes ->
  conf_ty kmip_schema kmip_ops kmip_attrs kmip_objs fc None (TNamed root) (t_deftag d) v = Some sc ->
  val_ranged kmip_schema (TNamed root) v = true ->
  decodable kmip_schema (TNamed root) = true ->
  (bound kmip_schema kmip_ops kmip_attrs kmip_objs (TNamed root) + 2 * (List.length bytes / 8) <= FUEL)%nat ->
  kmip_unmarshal root bytes = Ok v.
Proof.
  intros Ed Hm Hc Hr Hdec Hsz.
  assert (Hlen : len bytes < 2 ^ 32).
  { pose proof FUEL_Z as HF. pose proof (Nat.div_mod_eq (List.length bytes) 8) as Hdm.
    pose proof (Nat.mod_upper_bound (List.length bytes) 8 ltac:(discriminate)) as Hmod.
    unfold len. set (q := (List.length bytes / 8)%nat) in *. set (r := (List.length bytes mod 8)%nat) in *. lia. }
  destruct (kmip_roundtrip_unless_fuel _ _ _ _ _ _ Ed Hm Hc Hr Hlen) as [Hb Hrt]. apply Hrt.
  unfold kmip_unmarshal.
  destruct (bin_cursor bytes) as [c| | |] eqn:E; cbn [bind]; try discriminate.
  - unfold kmip_dec. rewrite Ed. apply bind_neq_oof; [|intros; discriminate].
    apply dec_ty_terminates; [exact bin_fmt_total | exact kmip_schema_acyclic | exact Hdec|].
    pose proof (bin_cursor_size bytes c Hb E) as Hcs. unfold K_ELEM. lia.
  - unfold bin_cursor in E.
    pose proof (c_open_safe (fst (bin_forest (Datatypes.S (List.length bytes)) bytes)) (snd (bin_forest (Datatypes.S (List.length bytes)) bytes))) as Ho.
    rewrite E in Ho. destruct Ho.
Qed.

(** request and response messages: up to 11775 bytes *)
Theorem kmip_message_marshal_unmarshal root d v bytes sc fc :
  (root = "kmip.RequestMessage" \/ root = "kmip.ResponseMessage")%string ->
  find_tdef kmip_schema root = Some d ->
  kmip_marshal root v = Ok bytes ->
  conf_ty kmip_schema kmip_ops kmip_attrs kmip_objs fc None (TNamed root) (t_deftag d) v = Some sc ->
  val_ranged kmip_schema (TNamed root) v = true ->
  len bytes <= 11775 ->
  kmip_unmarshal root bytes = Ok v.
Proof.
  intros Hroot Ed Hm Hc Hr Hlen.
  destruct (kmip_roundtrip_unless_fuel _ _ _ _ _ _ Ed Hm Hc Hr ltac:(lia)) as [Hb Hrt]. apply Hrt.
  apply kmip_unmarshal_terminates_11k; assumption.
Qed.
