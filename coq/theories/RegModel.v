(** Model of the name registry of package ttlv (tags, enumerations, bit masks, type names)
    and of every conversion between numbers and names that is built on it:
      ttlv/registry.go   TagString getTagName getTagByName EnumName EnumStr EnumByName
                         AppendBitmaskString bitmaskString BitmaskStr BitmaskByStr
      ttlv/encoding_xml.go   xmlWriter.startElement/.Enum/.Bitmask, xmlReader.rawTag/.Tag/.Enum/.Bitmask
      ttlv/encoding_json.go  jsonWriter.startElem/.Enum/.Bitmask, jsonReader.Tag/.Enum/.Bitmask
      ttlv/encoding_text.go  textWriter.startElem/.Enum/.Bitmask
      enums.go     marshalText unmarshalText        bitmasks.go  MarshalText maskUnmarshalText
    plus the parts of strconv / strings / fmt they call (ParseInt, ParseUint, HasPrefix,
    Fields, Split, TrimSpace, ContainsRune, ReplaceAll, "0x%08X", "0x%06X").

    A Go string is modelled as the list of its bytes ([str]); the registry maps are
    association lists (first match = map lookup; key uniqueness is part of [registry_ok]).
    The model is generic in the registry [R]; the live registry of the library under check
    is generated into gen/Registry.v and converted by [mk_registry].
    Scope: byte strings without multi-byte UTF-8 white space (U+0085, U+00A0, ...) - for
    those strings.Fields/TrimSpace look at runes, the model at bytes.
    No proofs in this file (RegModelProofs.v). *)
From Coq Require Import ZArith List Bool String Ascii.
From KV Require Import Base.
Import ListNotations.
Open Scope Z_scope.

Definition str := list Z.

(** Coq string literal (generated files, names) -> bytes. *)
Fixpoint s2b (s : string) : str :=
  match s with
  | EmptyString => []
  | String c s' => Z.of_N (N_of_ascii c) :: s2b s'
  end.

Fixpoint str_eqb (a b : str) : bool :=
  match a, b with
  | [], [] => true
  | x :: a', y :: b' => (x =? y) && str_eqb a' b'
  | _, _ => false
  end.

Definition is_nil {A} (l : list A) : bool := match l with [] => true | _ => false end.

(* ------------------------------------------------------------------ *)
(** * The registry (ttlv/registry.go, ttlv/types.go package variables) *)

Record registry := {
  tagNames      : list (Z * str);               (* tagNames  map[int]string *)
  tagByName     : list (str * Z);               (* tagByName map[string]int *)
  enumNames     : list (Z * list (Z * str));    (* enumNames   map[int]map[uint32]string *)
  enumsByName   : list (Z * list (str * Z));    (* enumsByName map[int]map[string]uint32 *)
  bitmaskNames  : list (Z * list str);          (* bitmaskNames  map[int][]string *)
  bitmaskByName : list (Z * list (str * Z));    (* bitmaskByName map[int]map[string]int32 *)
  typesName     : list (Z * str);               (* typesName map[Type]string *)
  nameTypes     : list (str * Z)                (* nameTypes map[string]Type *)
}.

Definition conv_ns (l : list (Z * string)) : list (Z * str) := map (fun p => (fst p, s2b (snd p))) l.
Definition conv_sn (l : list (string * Z)) : list (str * Z) := map (fun p => (s2b (fst p), snd p)) l.

(** From the data of gen/Registry.v (or PinnedRegistry.v). *)
Definition mk_registry
    (tn : list (Z * string)) (tbn : list (string * Z))
    (en : list (Z * list (Z * string))) (ebn : list (Z * list (string * Z)))
    (bn : list (Z * list string)) (bbn : list (Z * list (string * Z)))
    (ty : list (Z * string)) (nty : list (string * Z)) : registry :=
  {| tagNames := conv_ns tn;
     tagByName := conv_sn tbn;
     enumNames := map (fun p => (fst p, conv_ns (snd p))) en;
     enumsByName := map (fun p => (fst p, conv_sn (snd p))) ebn;
     bitmaskNames := map (fun p => (fst p, map s2b (snd p))) bn;
     bitmaskByName := map (fun p => (fst p, conv_sn (snd p))) bbn;
     typesName := conv_ns ty;
     nameTypes := conv_sn nty |}.

(** Go map lookup [v, ok := m[k]]. *)
Fixpoint zfind {A} (k : Z) (l : list (Z * A)) : option A :=
  match l with
  | [] => None
  | (k', a) :: r => if k' =? k then Some a else zfind k r
  end.

Fixpoint sfind {A} (k : str) (l : list (str * A)) : option A :=
  match l with
  | [] => None
  | (k', a) :: r => if str_eqb k' k then Some a else sfind k r
  end.

(* ------------------------------------------------------------------ *)
(** * strings / strconv / fmt *)

(** strings.HasPrefix *)
Fixpoint has_prefix (p s : str) : bool :=
  match p, s with
  | [], _ => true
  | a :: p', b :: s' => (a =? b) && has_prefix p' s'
  | _ :: _, [] => false
  end.

Definition s_0x : str := [48; 120].      (* "0x" *)
Definition s_0X : str := [48; 88].       (* "0X" *)
Definition s_TTLV : str := [84; 84; 76; 86].
Definition sep_space : str := [32].           (* " "   xmlWriter.Bitmask *)
Definition sep_bar : str := [124].            (* "|"   jsonWriter.Bitmask *)
Definition sep_sbs : str := [32; 124; 32].    (* " | " textWriter.Bitmask, MarshalText *)

(** unicode.IsSpace restricted to one-byte characters: '\t' '\n' '\v' '\f' '\r' ' ' *)
Definition is_space (c : Z) : bool := (c =? 32) || ((9 <=? c) && (c <=? 13)).
Definition is_bar (c : Z) : bool := c =? 124.

(** All pieces between separator characters, empty ones included:
    strings.Split(s, "|") is [split_by is_bar s] (never the empty list). *)
Fixpoint split_by (p : Z -> bool) (s : str) : list str :=
  match s with
  | [] => [[]]
  | c :: s' =>
    if p c then [] :: split_by p s'
    else match split_by p s' with
         | [] => [[c]]
         | x :: xs => (c :: x) :: xs
         end
  end.

(** strings.Fields: the non-empty pieces between white space. *)
Definition fields (s : str) : list str := filter (fun x => negb (is_nil x)) (split_by is_space s).

Fixpoint drop_while (p : Z -> bool) (s : str) : str :=
  match s with
  | [] => []
  | c :: s' => if p c then drop_while p s' else s
  end.

(** strings.TrimSpace *)
Definition trim_space (s : str) : str := rev (drop_while is_space (rev (drop_while is_space s))).

(** strings.ContainsRune(s, c) for a one-byte c *)
Definition contains (c : Z) (s : str) : bool := existsb (Z.eqb c) s.

(** strings.ReplaceAll(s, " ", "") *)
Definition remove_spaces (s : str) : str := filter (fun x => negb (x =? 32)) s.

(** Digit value as in strconv.ParseUint: '0'-'9', 'a'-'z', 'A'-'Z' (lower(c) = c|0x20). *)
Definition digit_val (c : Z) : option Z :=
  if (48 <=? c) && (c <=? 57) then Some (c - 48)
  else if (97 <=? c) && (c <=? 122) then Some (c - 97 + 10)
  else if (65 <=? c) && (c <=? 90) then Some (c - 65 + 10)
  else None.

Fixpoint parse_digits (base : Z) (s : str) (acc : Z) : option Z :=
  match s with
  | [] => Some acc
  | c :: s' =>
    match digit_val c with
    | Some d => if d <? base then parse_digits base s' (acc * base + d) else None
    | None => None
    end
  end.

(** strconv.ParseUint(s, base, bits) with an explicit base (10 or 16): [None] = any error
    (syntax or range; Go stops at the first overflow, which only changes which error). *)
Definition parse_uint (base bits : Z) (s : str) : option Z :=
  match s with
  | [] => None
  | _ => match parse_digits base s 0 with
         | Some n => if n <? 2 ^ bits then Some n else None
         | None => None
         end
  end.

(** strconv.ParseInt(s, base, bits): optional sign, then ParseUint, then the signed range. *)
Definition parse_int (base bits : Z) (s : str) : option Z :=
  match s with
  | [] => None
  | c :: s' =>
    let neg := c =? 45 in
    let body := if (c =? 43) || (c =? 45) then s' else s in
    match body with
    | [] => None
    | _ => match parse_digits base body 0 with
           | Some un =>
             if neg then (if un <=? 2 ^ (bits - 1) then Some (- un) else None)
             else (if un <? 2 ^ (bits - 1) then Some un else None)
           | None => None
           end
    end
  end.

Definition hexdigit (d : Z) : Z := if d <? 10 then 48 + d else 55 + d.   (* upper case *)

(** the [n] low-order hex digits of v, most significant first *)
Fixpoint hexN (n : nat) (v : Z) : str :=
  match n with
  | O => []
  | S k => hexdigit ((v / 16 ^ Z.of_nat k) mod 16) :: hexN k v
  end.

Definition hex_width (v : Z) : nat := if v <=? 0 then 1%nat else Z.to_nat (Z.log2 v / 4 + 1).

(** fmt.Sprintf("0x%08X", uint32(v)) *)
Definition fmt_0x08X (v : Z) : str := s_0x ++ hexN 8 (to_u32 v).
(** fmt.Sprintf("0x%06X", uint(tag)) on a 64-bit platform: at least six digits *)
Definition fmt_0x06X (tag : Z) : str :=
  let u := to_u64 tag in s_0x ++ hexN (Nat.max 6 (hex_width u)) u.

(* ------------------------------------------------------------------ *)
(** * Tags *)

(** getTagName: "" when unknown *)
Definition getTagName (R : registry) (tag : Z) : str :=
  match zfind tag (tagNames R) with Some n => n | None => [] end.

(** getTagByName: [None] = error *)
Definition getTagByName (R : registry) (name : str) : option Z := sfind name (tagByName R).

(** TagString (jsonWriter.startElem and textWriter.startElem print exactly this) *)
Definition TagString (R : registry) (tag : Z) : str :=
  match zfind tag (tagNames R) with Some n => n | None => fmt_0x06X tag end.

(** xmlWriter.startElement: element name and the optional [tag] attribute *)
Definition xml_start (R : registry) (tag : Z) : str * option str :=
  match getTagName R tag with
  | [] => (s_TTLV, Some (fmt_0x06X tag))
  | n => (n, None)
  end.

(** xmlReader.rawTag on (element name, [tag] attribute if present) *)
Definition xml_raw_tag (e : str * option str) : str :=
  if str_eqb (fst e) s_TTLV then match snd e with Some a => a | None => [] end else fst e.

(** xmlReader.Tag / jsonReader.Tag, given the raw tag string (0 = unknown) *)
Definition read_tag (R : registry) (raw : str) : Z :=
  match raw with
  | [] => 0
  | _ =>
    if has_prefix s_0x raw then
      match parse_int 16 32 (skipn 2 raw) with Some n => n | None => 0 end
    else
      match getTagByName R raw with Some n => n | None => 0 end
  end.

(** ttlv.Type.String / typeFromName *)
Definition type_string (R : registry) (ty : Z) : option str := zfind ty (typesName R).
Definition type_from_name (R : registry) (n : str) : option Z := sfind n (nameTypes R).

(* ------------------------------------------------------------------ *)
(** * Enumerations *)

(** EnumName: "" when the enumeration or the value is unknown *)
Definition EnumName (R : registry) (tag value : Z) : str :=
  match zfind tag (enumNames R) with
  | Some reg => match zfind value reg with Some n => n | None => [] end
  | None => []
  end.

(** EnumByName: [None] = error *)
Definition EnumByName (R : registry) (tag : Z) (name : str) : option Z :=
  match zfind tag (enumsByName R) with
  | Some reg => sfind name reg
  | None => None
  end.

(** [if realtag <= 0 { realtag = tag }] *)
Definition eff_tag (realtag tag : Z) : Z := if realtag <=? 0 then tag else realtag.

(** xmlWriter.Enum, jsonWriter.Enum (the JSON string before quoting), textWriter.Enum *)
Definition write_enum (R : registry) (enumtag tag value : Z) : str :=
  match EnumName R (eff_tag enumtag tag) value with
  | [] => fmt_0x08X value
  | n => n
  end.

(** xmlReader.Enum on the [value] attribute; jsonReader.Enum on a JSON string *)
Definition read_enum (R : registry) (realtag tag : Z) (val : str) : res Z :=
  if has_prefix s_0x val then
    match parse_uint 16 32 (skipn 2 val) with Some n => Ok n | None => Err end
  else
    match parse_uint 10 32 val with
    | Some n => Ok n
    | None => match EnumByName R (eff_tag realtag tag) val with Some n => Ok n | None => Err end
    end.

(** A JSON value as json.Decoder with UseNumber hands it over: an integral number in the
    int64 range, a string, or anything else. *)
Inductive jval := JNum (n : Z) | JStr (s : str) | JOther.

(** jsonReader.Enum *)
Definition read_enum_json (R : registry) (realtag tag : Z) (v : jval) : res Z :=
  match v with
  | JNum n => if (n >? 4294967295) || (n <? 0) then Err else Ok n
  | JStr s => read_enum R realtag tag s
  | JOther => Err
  end.

(** enums.go marshalText after EnumStr: [t] is the tag the Go type is registered under
    (0 when it is not) *)
Definition marshal_text (R : registry) (t value : Z) : str :=
  let s := if t =? 0 then fmt_0x08X value else EnumName R t value in
  match s with [] => fmt_0x08X value | _ => s end.

(** enums.go unmarshalText *)
Definition unmarshal_text (R : registry) (tag : Z) (text : str) : res Z :=
  let text := if contains 32 text then remove_spaces text else text in
  let num := if has_prefix s_0x text || has_prefix s_0X text
             then parse_uint 16 32 (skipn 2 text) else parse_uint 10 32 text in
  match num with
  | Some n => Ok n
  | None => match EnumByName R tag text with Some n => Ok n | None => Err end
  end.

(* ------------------------------------------------------------------ *)
(** * Bit masks *)

(** [T(1) << i] on an int32-based type, i in 0..31 *)
Definition shl32 (i : nat) : Z := to_i32 (2 ^ Z.of_nat i).

(** one iteration of the loop of AppendBitmaskString; state = (dst, wrote) *)
Definition mask_step (mapper : list str) (sep : str) (value : Z) (st : str * bool) (i : nat) : str * bool :=
  let v := Z.land value (shl32 i) in
  if v =? 0 then st
  else match nth_error mapper i with
       | Some [] => st
       | Some name => ((fst st ++ (if snd st then sep else [])) ++ name, true)
       | None => ((fst st ++ (if snd st then sep else [])) ++ fmt_0x08X v, true)
       end.

(** AppendBitmaskString(nil, tag, value, sep) = bitmaskString(tag, value, sep) *)
Definition AppendBitmaskString (R : registry) (tag value : Z) (sep : str) : str :=
  if value =? 0 then []
  else
    let mapper := match zfind tag (bitmaskNames R) with Some l => l | None => [] end in
    fst (fold_left (mask_step mapper sep value) (seq 0 32) ([], false)).

(** bitmaskNames[tag][i]: the name of flag i ("" when there is none) *)
Definition mask_flag_name (R : registry) (tag : Z) (i : nat) : str :=
  match zfind tag (bitmaskNames R) with
  | Some l => nth i l []
  | None => []
  end.

(** BitmaskByStr: [None] = error *)
Definition BitmaskByStr (R : registry) (tag : Z) (name : str) : option Z :=
  match zfind tag (bitmaskByName R) with
  | Some reg => sfind name reg
  | None => None
  end.

(** Body shared by the loops of xmlReader.Bitmask, jsonReader.Bitmask and
    maskUnmarshalText: the int64 [parsed] of one part ([None] = error).
    [upper]: maskUnmarshalText also accepts the prefix "0X". *)
Definition mask_part (R : registry) (realtag : Z) (upper : bool) (part : str) : option Z :=
  if has_prefix s_0x part || (upper && has_prefix s_0X part) then parse_uint 16 32 (skipn 2 part)
  else match parse_int 10 32 part with
       | Some n => Some n
       | None => BitmaskByStr R realtag part
       end.

(** [result |= int32(parsed)] over the parts; an error ends the call *)
Definition mask_parts (R : registry) (realtag : Z) (upper : bool) (parts : list str) : res Z :=
  fold_left (fun acc part =>
               do r <- acc ;;
               match mask_part R realtag upper part with
               | Some p => Ok (Z.lor r (to_i32 p))
               | None => Err
               end) parts (Ok 0).

Definition skip_empty (l : list str) : list str := filter (fun x => negb (is_nil x)) l.

(** xmlWriter.Bitmask *)
Definition write_mask_xml (R : registry) (bitmasktag tag value : Z) : str :=
  AppendBitmaskString R (eff_tag bitmasktag tag) value sep_space.
(** xmlReader.Bitmask on the [value] attribute *)
Definition read_mask_xml (R : registry) (realtag tag : Z) (val : str) : res Z :=
  mask_parts R (eff_tag realtag tag) false (map trim_space (fields val)).

(** jsonWriter.Bitmask (the JSON string) *)
Definition write_mask_json (R : registry) (bitmasktag tag value : Z) : str :=
  AppendBitmaskString R (eff_tag bitmasktag tag) value sep_bar.
(** jsonReader.Bitmask *)
Definition read_mask_json (R : registry) (realtag tag : Z) (v : jval) : res Z :=
  match v with
  | JNum n => if (n >? 2147483647) || (n <? -2147483648) then Err else Ok n
  | JStr s => mask_parts R (eff_tag realtag tag) false (skip_empty (map trim_space (split_by is_bar s)))
  | JOther => Err
  end.

(** textWriter.Bitmask; CryptographicUsageMask.MarshalText / StorageStatusMask.MarshalText
    (BitmaskStr(mask, " | "); [t] = tag the Go type is registered under) *)
Definition write_mask_text (R : registry) (t value : Z) : str := AppendBitmaskString R t value sep_sbs.
(** bitmasks.go maskUnmarshalText *)
Definition mask_unmarshal_text (R : registry) (tag : Z) (text : str) : res Z :=
  let parts := if contains 124 text then split_by is_bar text else fields text in
  mask_parts R tag true (skip_empty (map trim_space parts)).

(* ------------------------------------------------------------------ *)
(** * Decidable well-formedness of a registry (the checkers of C17) *)

Definition is_letter (c : Z) : bool := ((65 <=? c) && (c <=? 90)) || ((97 <=? c) && (c <=? 122)).
Definition is_digit (c : Z) : bool := (48 <=? c) && (c <=? 57).
Definition name_char (c : Z) : bool := is_letter c || is_digit c || (c =? 95).

(** Lexical hygiene of a registered name: [A-Za-z][A-Za-z0-9_]* *)
Definition name_ok (s : str) : bool :=
  match s with
  | [] => false
  | c :: _ => is_letter c && forallb name_char s
  end.

Fixpoint znodup (l : list Z) : bool :=
  match l with [] => true | x :: r => negb (existsb (Z.eqb x) r) && znodup r end.
Fixpoint snodup (l : list str) : bool :=
  match l with [] => true | x :: r => negb (existsb (str_eqb x) r) && snodup r end.

(** forward and reverse association lists are maps (unique keys) and mutually inverse *)
Definition bij_check (f : list (Z * str)) (g : list (str * Z)) : bool :=
  znodup (map fst f) && snodup (map fst g) &&
  forallb (fun p => match sfind (snd p) g with Some n => n =? fst p | None => false end) f &&
  forallb (fun p => match zfind (snd p) f with Some s => str_eqb s (fst p) | None => false end) g.

Definition names_check (f : list (Z * str)) : bool := forallb (fun p => name_ok (snd p)) f.

(** per-scope tables: same scopes on both sides, each scope a bijection *)
Definition scoped_bij_check (f : list (Z * list (Z * str))) (g : list (Z * list (str * Z))) : bool :=
  znodup (map fst f) && znodup (map fst g) &&
  forallb (fun p => match zfind (fst p) g with Some gl => bij_check (snd p) gl | None => false end) f &&
  forallb (fun p => match zfind (fst p) f with Some _ => true | None => false end) g.

(** the reverse table of a bit mask is exactly { names[i] -> 1 << i } *)
Fixpoint mask_fwd (names : list str) (i : nat) : list (Z * str) :=
  match names with [] => [] | n :: r => (shl32 i, n) :: mask_fwd r (S i) end.

Definition mask_check (names : list str) (g : list (str * Z)) : bool :=
  (Nat.leb (List.length names) 32) && forallb name_ok names && bij_check (mask_fwd names 0) g.

Definition masks_check (f : list (Z * list str)) (g : list (Z * list (str * Z))) : bool :=
  znodup (map fst f) && znodup (map fst g) &&
  forallb (fun p => match zfind (fst p) g with Some gl => mask_check (snd p) gl | None => false end) f &&
  forallb (fun p => match zfind (fst p) f with Some _ => true | None => false end) g.

Definition in_u32_all (f : list (Z * str)) : bool := forallb (fun p => in_u32 (fst p)) f.

Definition registry_ok (R : registry) : bool :=
  bij_check (tagNames R) (tagByName R) && names_check (tagNames R) &&
  negb (existsb (fun p => str_eqb (snd p) s_TTLV) (tagNames R)) &&
  scoped_bij_check (enumNames R) (enumsByName R) &&
  forallb (fun p => names_check (snd p) && in_u32_all (snd p)) (enumNames R) &&
  masks_check (bitmaskNames R) (bitmaskByName R) &&
  bij_check (typesName R) (nameTypes R) && names_check (typesName R) &&
  forallb (fun p => (0 <? fst p) && (fst p <? 16777216)) (tagNames R).

(** every name of the registry (for the hygiene statement) *)
Definition all_names (R : registry) : list str :=
  map snd (tagNames R) ++ flat_map (fun p => map snd (snd p)) (enumNames R) ++
  flat_map snd (bitmaskNames R) ++ map snd (typesName R).
