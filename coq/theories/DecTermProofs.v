(** C02, typed targets, "decoders never hang": the typed decoder of SchemaSem.v does not
    exhaust its fuel as soon as the fuel exceeds the static depth of the target type
    (DecTerm.ty_depth) plus twice the number of raw elements under the cursor.  Together with
    the fact that every call of the model consumes fuel, this is termination with an explicit
    bound.  The induction carries the reason the slice loop `for d.Tag() == tag { ... }`
    stops: an element decoded under the tag the cursor shows is CONSUMED (the remaining cursor
    is strictly smaller), and no decoder ever makes the cursor larger. *)
From Coq Require Import ZArith List Bool String Lia.
From KV Require Import Base BaseProofs Wire Cursor CursorProofs BinCursorProofs Schema SchemaSem SchemaSemEq
  KmipCodec DecSafe DecSafeProofs DecTerm.
From KVGen Require Import KmipSchema.
Import ListNotations.
Open Scope Z_scope.

(** the result is not fuel exhaustion, and satisfies [P] when it is a value (errors and the
    panic points, excluded separately by DecSafeProofs, are results) *)
Definition tr {A} (P : A -> Prop) (r : res A) : Prop :=
  match r with Ok a => P a | OutOfFuel => False | _ => True end.

Lemma tr_neq {A} (P : A -> Prop) (r : res A) : tr P r -> r <> OutOfFuel.
Proof. destruct r; cbn [tr]; intros H; try discriminate. contradiction. Qed.

Lemma bind_neq_oof {A B} (r : res A) (f : A -> res B) :
  r <> OutOfFuel -> (forall a, f a <> OutOfFuel) -> bind r f <> OutOfFuel.
Proof. destruct r; cbn [bind]; intros H Hf; try discriminate; [apply Hf | contradiction H; reflexivity]. Qed.

Lemma tr_bind {A B} (P : A -> Prop) (Q : B -> Prop) (r : res A) (f : A -> res B) :
  tr P r -> (forall a, P a -> tr Q (f a)) -> tr Q (bind r f).
Proof. destruct r; cbn [tr bind]; intros H Hf; try exact H. apply Hf, H. Qed.

Lemma tr_impl {A} (P Q : A -> Prop) (r : res A) : (forall a, P a -> Q a) -> tr P r -> tr Q r.
Proof. intros H. destruct r; cbn [tr]; auto. Qed.

Lemma tr_safe {A} (P : A -> Prop) (r : res A) : safe_res P r -> tr P r.
Proof. destruct r; cbn [safe_res tr]; auto. Qed.

(** ---- dmax *)
Lemma dmax_cons g t l m : dmax g (t :: l) = Some m ->
  exists x y, g t = Some x /\ dmax g l = Some y /\ m = Nat.max x y.
Proof.
  unfold dmax. cbn [fold_right]. fold (dmax g l).
  destruct (g t) as [x|]; [|discriminate]. destruct (dmax g l) as [y|]; [|discriminate].
  intros [= <-]. exists x, y. repeat split.
Qed.

Lemma dmax_in g l : forall m, dmax g l = Some m -> forall t, In t l -> exists d, g t = Some d /\ (d <= m)%nat.
Proof.
  induction l as [|a l IH]; intros m Hm t Hin; [destruct Hin|].
  destruct (dmax_cons _ _ _ _ Hm) as (x & y & Hx & Hy & ->).
  destruct Hin as [<-|Hin].
  - exists x. split; [exact Hx | lia].
  - destruct (IH y Hy t Hin) as (d & Hd & Hle). exists d. split; [exact Hd | lia].
Qed.

Lemma dmax_ext g g' l : (forall t d, g t = Some d -> g' t = Some d) ->
  forall m, dmax g l = Some m -> dmax g' l = Some m.
Proof.
  intros H. induction l as [|a l IH]; intros m Hm; [exact Hm|].
  destruct (dmax_cons _ _ _ _ Hm) as (x & y & Hx & Hy & ->).
  unfold dmax. cbn [fold_right]. fold (dmax g' l). rewrite (H _ _ Hx), (IH _ Hy). reflexivity.
Qed.

Section Cursor.
  Context {R : Type}.
  Variable F : rawfmt R.
  Hypothesis HF : fmt_total F.

  Lemma c_struct_tr {A} tag (f : cur R -> res (A * cur R)) c :
    (forall sub, (csize sub < csize c)%nat -> tr (fun _ => True) (f sub)) ->
    tr (fun p => (csize (snd p) < csize c)%nat) (c_struct F tag f c).
  Proof.
    intros Hf. unfold c_struct, c_expect. destruct c as [[|e rest] bad]; cbn [fst snd bind]; [exact I|].
    destruct e as [t y raw kids kb]. destruct (negb (t =? tag)); [exact I|]. destruct (negb (y =? T_STRUCT)); [exact I|].
    cbn [bind]. eapply tr_bind; [apply tr_safe, c_open_safe|]. intros sub Hsub.
    eapply tr_bind with (P := fun _ => True).
    - apply Hf. unfold csize in *. rewrite Hsub. cbn [fst]. rewrite forest_size_cons, relem_size_kids. lia.
    - intros r _. destruct (strict_close F && snd (snd r))%bool; [exact I|].
      eapply tr_bind; [apply tr_safe, (c_next_safe (RE t y raw kids kb :: rest, bad))|]. intros c' Hc'. exact Hc'.
  Qed.

  Lemma c_scalar_tr {A} ty (parse : R -> res A) tag c :
    (forall raw, nopanic (parse raw)) ->
    tr (fun p => (csize (snd p) < csize c)%nat) (c_scalar ty parse tag c).
  Proof. intros Hp. apply tr_safe, c_scalar_safe, Hp. Qed.

  Lemma dec_scalar_tr k tag c : tr (fun p => (csize (snd p) < csize c)%nat) (dec_scalar F k tag c).
  Proof.
    destruct k; cbn [dec_scalar]; unfold c_integer, c_long, c_big, c_enum, c_bool, c_text, c_bytes, c_date, c_intv, c_mask;
      (eapply tr_bind; [apply c_scalar_tr; intros; apply HF|]); intros r Hr; try destruct (fst r <? 0); cbn [tr snd]; auto.
  Qed.

  Lemma dec_value_tr f tag c : (1 <= f)%nat -> (2 * csize c <= f)%nat ->
    tr (fun p => (csize (snd p) < csize c)%nat) (dec_value F f tag c).
  Proof. intros H1 H2. apply tr_safe. apply (proj1 (dec_value_total F HF f)); assumption. Qed.

  Lemma dec_fields_tr f c : (2 * csize c + 1 <= f)%nat ->
    tr (fun p => (csize (snd p) <= csize c)%nat) (dec_fields F f c).
  Proof. intros H. apply tr_safe. apply (proj2 (dec_value_total F HF f)); assumption. Qed.

  Lemma wrap_struct_tr n tag c body :
    (forall sub, (csize sub < csize c)%nat -> tr (fun _ => True) (body sub)) ->
    tr (fun x => (csize (snd (fst x)) < csize c)%nat) (wrap_struct F n tag c body).
  Proof.
    intros Hb. unfold wrap_struct. eapply tr_bind.
    - apply c_struct_tr. intros sub Hsub. eapply tr_bind; [apply Hb, Hsub|]. intros; exact I.
    - intros r Hr. exact Hr.
  Qed.
End Cursor.

Section Term.
  Variable S : schema.
  Variable OPS : op_table.
  Variable ATTRS : attr_table.
  Variable OBJS : obj_table.
  Context {R : Type}.
  Variable F : rawfmt R.
  Hypothesis HF : fmt_total F.

  (** ---- the hand-written decoders, over any recursive decoders that return (without
      enlarging the cursor) on every type whose depth [g] is at most [m], on every cursor of
      at most [lim] raw elements *)
  Section CustomsTerm.
    Variable dty : vstate -> ty -> Z -> cur R -> @dres R.
    Variable dopt : vstate -> ty -> Z -> cur R -> @dres R.
    Variable dobj : vstate -> Z -> cur R -> @dres R.
    Variable dtrees : cur R -> res (list item * cur R).
    Variable g : ty -> option nat.
    Variable m lim : nat.

    Definition okt (t : ty) : Prop := exists d, g t = Some d /\ (d <= m)%nat.

    Hypothesis Hdty : forall st t tag c, okt t -> (csize c <= lim)%nat ->
      tr (fun x => (csize (snd (fst x)) <= csize c)%nat) (dty st t tag c).
    Hypothesis Hdopt : forall st t tag c, okt t -> (csize c <= lim)%nat ->
      tr (fun x => (csize (snd (fst x)) <= csize c)%nat) (dopt st t tag c).
    Hypothesis Hdobj : forall st ot c, (forall t, In t (obj_types OBJS) -> okt t) -> (csize c <= lim)%nat ->
      tr (fun x => (csize (snd (fst x)) <= csize c)%nat) (dobj st ot c).
    Hypothesis Hdtrees : forall c, (csize c <= lim)%nat -> tr (fun _ => True) (dtrees c).

    Ltac sz := cbv beta in *; cbn [fst snd] in *; lia.
    Ltac step :=
      eapply tr_bind;
      [ first [ apply Hdty; [assumption | sz]
              | apply Hdopt; [assumption | sz]
              | apply Hdobj; [assumption | sz] ]
      | intros ? ? ].
    Ltac done := cbn [tr]; first [exact I | sz].

    Lemma dec_payload_tr st side opv tag c :
      (forall t, In t (op_types OPS) -> okt t) -> (csize c <= lim)%nat ->
      tr (fun x => (csize (snd (fst x)) <= csize c)%nat) (dec_payload OPS F dty dtrees st side opv tag c).
    Proof.
      intros Hops Hc. unfold dec_payload. destruct (lookup_op OPS opv) as [[rq rs]|] eqn:E.
      - assert (Hq : okt (TNamed rq) /\ okt (TNamed rs)).
        { unfold lookup_op in E. destruct (find _ OPS) as [e|] eqn:Ef; [|discriminate]. injection E as E.
          apply find_some in Ef. destruct Ef as [Hin _].
          split; apply Hops; unfold op_types; apply in_flat_map; exists e; (split; [exact Hin|]);
            rewrite E; cbn [fst snd In]; auto. }
        destruct Hq as [Hq Hs]. cbv zeta.
        assert (Hn : okt (TNamed (if side then rs else rq))) by (destruct side; assumption).
        step. done.
      - eapply tr_bind.
        + apply c_struct_tr. intros sub Hsub. apply Hdtrees. lia.
        + intros r Hr. done.
    Qed.

    Lemma dec_request_item_tr st d tag c :
      okt (fty d 0) -> okt (fty d 1) -> okt (fty d 3) ->
      (forall t, In t (op_types OPS) -> okt t) -> (csize c <= lim)%nat ->
      tr (fun x => (csize (snd (fst x)) < csize c)%nat) (dec_request_item OPS F dty dopt dtrees st d tag c).
    Proof.
      intros H0 H1 H3 Hops Hc. unfold dec_request_item. apply wrap_struct_tr. intros c0 Hc0.
      step. step.
      eapply tr_bind; [apply dec_payload_tr; [exact Hops | sz]|]. intros ? ?.
      step. done.
    Qed.

    Lemma dec_response_item_tr st d tag c :
      okt (fty d 0) -> okt (fty d 1) -> okt (fty d 2) -> okt (fty d 3) -> okt (fty d 4) -> okt (fty d 5) -> okt (fty d 7) ->
      (forall t, In t (op_types OPS) -> okt t) -> (csize c <= lim)%nat ->
      tr (fun x => (csize (snd (fst x)) < csize c)%nat) (dec_response_item OPS F dty dopt dtrees st d tag c).
    Proof.
      intros H0 H1 H2 H3 H4 H5 H7 Hops Hc. unfold dec_response_item. apply wrap_struct_tr. intros c0 Hc0.
      step. step. step. step. step. step. cbv zeta.
      eapply tr_bind.
      { destruct (_ && _)%bool; [apply dec_payload_tr; [exact Hops | sz] | cbn [tr fst snd]; lia]. }
      intros ? ?. step. done.
    Qed.

    Lemma dec_credential_tr st d tag c cv :
      find_tdef S "kmip.CredentialValue" = Some cv ->
      okt (fty d 0) -> okt (fty cv 0) -> okt (fty cv 1) -> okt (fty cv 2) -> (csize c <= lim)%nat ->
      tr (fun x => (csize (snd (fst x)) < csize c)%nat) (dec_credential S F dty st d tag c).
    Proof.
      intros Ecv H0 Hc0 Hc1 Hc2 Hc. unfold dec_credential. apply wrap_struct_tr. intros c0 Hsub.
      step. cbv zeta. rewrite Ecv.
      destruct (_ =? 1); [step; done|].
      destruct (_ =? 2); [step; done|].
      destruct (_ =? 3); [step; done|]. done.
    Qed.

    Lemma key_slot_lt v k : key_slot v = Some k -> (k < 8)%nat.
    Proof.
      unfold key_slot.
      repeat match goal with |- (if ?b then _ else _) = _ -> _ => destruct b end; intros [= <-]; lia.
    Qed.

    Lemma dec_key_value_tr st fmtv tag c pkv km :
      find_tdef S "kmip.PlainKeyValue" = Some pkv -> find_tdef S "kmip.KeyMaterial" = Some km ->
      okt (fty pkv 1) -> (forall k, (k < 8)%nat -> okt (fty km k)) -> (csize c <= lim)%nat ->
      tr (fun x => (csize (snd (fst x)) <= csize c)%nat) (dec_key_value S F dty st fmtv tag c).
    Proof.
      intros Epkv Ekm Hp Hk Hc. unfold dec_key_value.
      destruct (c_type c =? T_BYTES).
      { eapply tr_bind; [apply c_scalar_tr, HF|]. intros ? ?. done. }
      destruct (c_type c =? T_STRUCT); [|done].
      rewrite Epkv, Ekm. eapply tr_bind.
      - apply c_struct_tr. intros sub Hsub.
        destruct (key_slot fmtv) as [k|] eqn:Ek; [|done].
        pose proof (Hk k (key_slot_lt _ _ Ek)) as Hkk.
        step. cbv zeta. step. done.
      - intros ? ?. done.
    Qed.

    Lemma dec_key_block_tr st d tag c pkv km :
      find_tdef S "kmip.PlainKeyValue" = Some pkv -> find_tdef S "kmip.KeyMaterial" = Some km ->
      okt (fty d 0) -> okt (fty d 1) -> okt (fty d 3) -> okt (fty d 4) -> okt (fty d 5) ->
      okt (fty pkv 1) -> (forall k, (k < 8)%nat -> okt (fty km k)) -> (csize c <= lim)%nat ->
      tr (fun x => (csize (snd (fst x)) < csize c)%nat) (dec_key_block S F dty dopt st d tag c).
    Proof.
      intros Epkv Ekm H0 H1 H3 H4 H5 Hp Hk Hc. unfold dec_key_block. apply wrap_struct_tr. intros c0 Hsub.
      step. step. cbv zeta.
      eapply tr_bind.
      { destruct (_ =? _); [eapply dec_key_value_tr; try eassumption; sz | cbn [tr fst snd]; lia]. }
      intros ? ?. step. step. step. done.
    Qed.

    Lemma attr_ty_okt name : (forall t, In t (attr_types ATTRS) -> okt t) -> okt (attr_ty ATTRS name).
    Proof.
      intros Hat. unfold attr_ty. destruct (attr_is_custom name); [apply Hat; left; reflexivity|].
      unfold lookup_attr. destruct (find _ ATTRS) as [e|] eqn:E; [|apply Hat; left; reflexivity].
      apply find_some in E. destruct E as [Hin _]. apply Hat. right. apply in_map. exact Hin.
    Qed.

    Lemma dec_attribute_tr st d tag c :
      (forall t, In t (attr_types ATTRS) -> okt t) -> (csize c <= lim)%nat ->
      tr (fun x => (csize (snd (fst x)) < csize c)%nat) (dec_attribute ATTRS F dty st d tag c).
    Proof.
      intros Hat Hc. unfold dec_attribute. apply wrap_struct_tr. intros c0 Hsub.
      eapply tr_bind; [apply c_scalar_tr, HF|]. intros nm Hnm.
      eapply tr_bind with (P := fun x => (csize (snd x) <= csize (snd nm))%nat).
      { destruct (_ =? _); [|cbn [tr snd]; lia].
        eapply tr_bind; [apply c_scalar_tr, HF|]. intros ? ?. done. }
      intros idx Hidx. cbv zeta.
      pose proof (attr_ty_okt (fst nm) Hat) as Hty.
      step. done.
    Qed.

    Lemma dec_get_response_tr st d tag c :
      okt (fty d 0) -> okt (fty d 1) -> (forall t, In t (obj_types OBJS) -> okt t) -> (csize c <= lim)%nat ->
      tr (fun x => (csize (snd (fst x)) < csize c)%nat) (dec_get_response F dty dobj st d tag c).
    Proof.
      intros H0 H1 Hob Hc. unfold dec_get_response. apply wrap_struct_tr. intros c0 Hsub.
      step. step. step. done.
    Qed.

    Lemma dec_register_request_tr st d tag c :
      okt (fty d 0) -> okt (fty d 1) -> (forall t, In t (obj_types OBJS) -> okt t) -> (csize c <= lim)%nat ->
      tr (fun x => (csize (snd (fst x)) < csize c)%nat) (dec_register_request F dty dobj st d tag c).
    Proof.
      intros H0 H1 Hob Hc. unfold dec_register_request. apply wrap_struct_tr. intros c0 Hsub.
      step. step. step. done.
    Qed.

    Lemma dec_export_response_tr st d tag c :
      okt (fty d 0) -> okt (fty d 1) -> okt (fty d 2) -> (forall t, In t (obj_types OBJS) -> okt t) -> (csize c <= lim)%nat ->
      tr (fun x => (csize (snd (fst x)) < csize c)%nat) (dec_export_response F dty dobj st d tag c).
    Proof.
      intros H0 H1 H2 Hob Hc. unfold dec_export_response. apply wrap_struct_tr. intros c0 Hsub.
      step. step. step. step. done.
    Qed.

    Lemma dec_import_request_tr st d tag c :
      okt (fty d 0) -> okt (fty d 1) -> okt (fty d 2) -> okt (fty d 3) ->
      (forall t, In t (obj_types OBJS) -> okt t) -> (csize c <= lim)%nat ->
      tr (fun x => (csize (snd (fst x)) < csize c)%nat) (dec_import_request S F dty dopt dobj st d tag c).
    Proof.
      intros H0 H1 H2 H3 Hob Hc. unfold dec_import_request. apply wrap_struct_tr. intros c0 Hsub.
      step. step. step. step. cbv zeta.
      match goal with |- tr _ (match ?x with _ => _ end) => destruct x end; [|done].
      step. done.
    Qed.

    Lemma dec_custom_tr st d tag c l :
      custom_types S d = Some l ->
      (forall t, In t (l ++ table_types OPS ATTRS OBJS (t_name d))%list -> okt t) -> (csize c <= lim)%nat ->
      tr (fun x => (csize (snd (fst x)) < csize c)%nat)
         (dec_custom_of S OPS ATTRS F dty dopt dobj dtrees st d tag c).
    Proof.
      unfold custom_types, table_types, dec_custom_of. cbv zeta.
      assert (Hin : forall (t : ty) l1 l2, In t l1 -> In t (l1 ++ l2)%list) by (intros; apply in_or_app; left; assumption).
      assert (Hinr : forall (t : ty) l1 l2, In t l2 -> In t (l1 ++ l2)%list) by (intros; apply in_or_app; right; assumption).
      destruct (String.eqb (t_name d) "kmip.RequestBatchItem").
      { intros [= <-] Hall Hc. apply dec_request_item_tr; try assumption;
          try (apply Hall, Hin; cbn [In]; tauto). intros t Ht. apply Hall, Hinr, Ht. }
      destruct (String.eqb (t_name d) "kmip.ResponseBatchItem").
      { intros [= <-] Hall Hc. apply dec_response_item_tr; try assumption;
          try (apply Hall, Hin; cbn [In]; tauto). intros t Ht. apply Hall, Hinr, Ht. }
      destruct (String.eqb (t_name d) "kmip.Credential").
      { unfold cred_types. destruct (find_tdef S "kmip.CredentialValue") as [cv|] eqn:Ecv; [|discriminate].
        intros [= <-] Hall Hc. eapply dec_credential_tr; try eassumption;
          apply Hall, Hin; cbn [In]; tauto. }
      destruct (String.eqb (t_name d) "kmip.KeyBlock").
      { unfold keyval_types.
        destruct (find_tdef S "kmip.PlainKeyValue") as [pkv|] eqn:Epkv; [|discriminate].
        destruct (find_tdef S "kmip.KeyMaterial") as [km|] eqn:Ekm; [|discriminate].
        intros [= <-] Hall Hc. eapply dec_key_block_tr; try eassumption;
          try (apply Hall, Hin; cbn [In app]; tauto).
        intros k Hk. apply Hall, Hin.
        do 8 (destruct k as [|k]; [cbn [In]; tauto|]). lia. }
      destruct (String.eqb (t_name d) "kmip.Attribute").
      { intros [= <-] Hall Hc. apply dec_attribute_tr; assumption. }
      destruct (String.eqb (t_name d) "payloads.GetResponsePayload").
      { intros [= <-] Hall Hc. apply dec_get_response_tr; try assumption;
          try (apply Hall, Hin; cbn [In]; tauto). intros t Ht. apply Hall, Hinr, Ht. }
      destruct (String.eqb (t_name d) "payloads.RegisterRequestPayload").
      { intros [= <-] Hall Hc. apply dec_register_request_tr; try assumption;
          try (apply Hall, Hin; cbn [In]; tauto). intros t Ht. apply Hall, Hinr, Ht. }
      destruct (String.eqb (t_name d) "payloads.ExportResponsePayload").
      { intros [= <-] Hall Hc. apply dec_export_response_tr; try assumption;
          try (apply Hall, Hin; cbn [In]; tauto). intros t Ht. apply Hall, Hinr, Ht. }
      destruct (String.eqb (t_name d) "payloads.ImportRequestPayload").
      { intros [= <-] Hall Hc. apply dec_import_request_tr; try assumption;
          try (apply Hall, Hin; cbn [In]; tauto). intros t Ht. apply Hall, Hinr, Ht. }
      discriminate.
    Qed.
  End CustomsTerm.

  Local Notation dec_ty := (SchemaSem.dec_ty S OPS ATTRS OBJS F).
  Local Notation dec_slice := (SchemaSem.dec_slice S OPS ATTRS OBJS F).
  Local Notation dec_fields_s := (SchemaSem.dec_fields_s S OPS ATTRS OBJS F).
  Local Notation dec_opt := (SchemaSem.dec_opt S OPS ATTRS OBJS F).
  Local Notation dec_object := (SchemaSem.dec_object S OPS ATTRS OBJS F).
  Local Notation dep := (ty_depth S OPS ATTRS OBJS).

  Lemma ty_depth_eq n t : dep (Datatypes.S n) t =
    match t with
    | TScalar _ => Some 1%nat
    | TIface _ => Some 1%nat
    | TPtr t' => option_map Datatypes.S (dep n t')
    | TSlice t' => option_map (fun d => Datatypes.S (Datatypes.S d)) (dep n t')
    | TNamed name =>
      if String.eqb name "ttlv.Value" then Some 2%nat
      else if String.eqb name "ttlv.Struct" then Some 2%nat
      else
        match find_tdef S name with
        | None => Some 1%nat
        | Some d =>
          match callees S OPS ATTRS OBJS d with
          | None => None
          | Some l => option_map (fun m => (m + own_cost d)%nat) (dmax (dep n) l)
          end
        end
    end.
  Proof. reflexivity. Qed.

  Lemma ty_depth_pos N t d : dep N t = Some d -> (1 <= d)%nat.
  Proof.
    destruct N as [|N]; [discriminate|]. rewrite ty_depth_eq. destruct t as [k|t'|t'|n|n].
    - intros [= <-]. lia.
    - destruct (dep N t'); [|discriminate]. intros [= <-]. lia.
    - destruct (dep N t'); [|discriminate]. intros [= <-]. lia.
    - destruct (String.eqb n "ttlv.Value"); [intros [= <-]; lia|].
      destruct (String.eqb n "ttlv.Struct"); [intros [= <-]; lia|].
      destruct (find_tdef S n) as [dd|]; [|intros [= <-]; lia].
      destruct (callees S OPS ATTRS OBJS dd); [|discriminate].
      destruct (dmax _ _); [|discriminate]. intros [= <-]. unfold own_cost. destruct (t_custom_dec dd); lia.
    - intros [= <-]. lia.
  Qed.

  (** what a decoder leaves: never more than it was given, and strictly less when the
      cursor stood on an element with the tag asked for *)
  Definition adv (tag : Z) (c : cur R) {A B} (x : A * cur R * B) : Prop :=
    (csize (snd (fst x)) <= csize c)%nat /\ (c_tag c = tag -> (csize (snd (fst x)) < csize c)%nat).
  Definition noinc (c : cur R) {A B} (x : A * cur R * B) : Prop := (csize (snd (fst x)) <= csize c)%nat.

  Lemma adv_of_lt tag c {A B} (r : res (A * cur R * B)) :
    tr (fun x => (csize (snd (fst x)) < csize c)%nat) r -> tr (adv tag c) r.
  Proof. apply tr_impl. intros a H. unfold adv. split; [lia | intros _; exact H]. Qed.

  Lemma noinc_of_adv tag c {A B} (r : res (A * cur R * B)) : tr (adv tag c) r -> tr (noinc c) r.
  Proof. apply tr_impl. intros a [H _]. exact H. Qed.

  (** the mutual induction on fuel *)
  Lemma dec_all_tr fuel :
    (forall N d st t tag c, dep N t = Some d -> (d + 2 * csize c <= fuel)%nat ->
       tr (adv tag c) (dec_ty fuel st t tag c)) /\
    (forall N d st t tag c, dep N t = Some d -> (d + 1 + 2 * csize c <= fuel)%nat ->
       tr (adv tag c) (dec_slice fuel st t tag c)) /\
    (forall N m st fl c, (forall fd, In fd fl -> exists d, dep N (f_ty fd) = Some d /\ (d <= m)%nat) ->
       (m + List.length fl + 1 + 2 * csize c <= fuel)%nat ->
       tr (noinc c) (dec_fields_s fuel st fl c)) /\
    (forall N d st t tag c, dep N t = Some d -> (d + 1 + 2 * csize c <= fuel)%nat ->
       tr (noinc c) (dec_opt fuel st t tag c)) /\
    (forall N m st ot c, (forall t, In t (obj_types OBJS) -> exists d, dep N t = Some d /\ (d <= m)%nat) ->
       (m + 1 + 2 * csize c <= fuel)%nat ->
       tr (noinc c) (dec_object fuel st ot c)).
  Proof.
    induction fuel as [|f (IHty & IHsl & IHfs & IHopt & IHobj)].
    { split; [|repeat split; intros; lia]. intros N d st t tag c Hd Hfuel. pose proof (ty_depth_pos _ _ _ Hd). lia. }
    split; [|split; [|split; [|split]]].
    - intros N d st t tag c Hd Hfuel. destruct N as [|N]; [discriminate|].
      rewrite ty_depth_eq in Hd. rewrite dec_ty_eq. destruct t as [k|t'|t'|n|n].
      + injection Hd as <-. apply adv_of_lt.
        eapply tr_bind; [apply dec_scalar_tr, HF|]. intros r Hr. exact Hr.
      + destruct (dep N t') as [d'|] eqn:E; [|discriminate]. injection Hd as <-.
        destruct (negb (c_tag c =? tag)) eqn:Et.
        * cbn [tr]. unfold adv. cbn [fst snd]. split; [lia|]. intros Heq.
          apply negb_true_iff, Z.eqb_neq in Et. contradiction.
        * eapply tr_bind; [apply (IHty N d' st t' tag c E); lia|]. intros r Hr. exact Hr.
      + destruct (dep N t') as [d'|] eqn:E; [|discriminate]. injection Hd as <-.
        eapply tr_bind; [apply (IHsl N d' st t' tag c E); lia|]. intros r Hr. exact Hr.
      + destruct (String.eqb n "ttlv.Value").
        { injection Hd as <-. apply adv_of_lt.
          eapply tr_bind; [apply dec_value_tr; [exact HF | lia | lia]|]. intros r Hr. exact Hr. }
        destruct (String.eqb n "ttlv.Struct").
        { injection Hd as <-. apply adv_of_lt. eapply tr_bind.
          - apply c_struct_tr. intros sub Hsub. eapply tr_impl; [|apply dec_fields_tr; [exact HF | lia]].
            intros; exact I.
          - intros r Hr. exact Hr. }
        destruct (find_tdef S n) as [dd|]; [|exact I].
        unfold callees, own_cost in Hd. destruct (t_custom_dec dd).
        * destruct (custom_types S dd) as [l|] eqn:El; [|discriminate].
          destruct (dmax (dep N) _) as [m|] eqn:Em; [|discriminate]. injection Hd as <-.
          apply adv_of_lt.
          apply (dec_custom_tr (dec_ty f) (dec_opt f) (dec_object f) (dec_fields F f) (dep N) m (csize c)) with (l := l).
          -- intros st0 t0 tag0 c0 (d0 & Hd0 & Hle) Hc0. eapply noinc_of_adv. apply (IHty N d0); [exact Hd0 | lia].
          -- intros st0 t0 tag0 c0 (d0 & Hd0 & Hle) Hc0. apply (IHopt N d0); [exact Hd0 | lia].
          -- intros st0 ot c0 Hob Hc0. apply (IHobj N m); [exact Hob | lia].
          -- intros c0 Hc0. eapply tr_impl; [|apply dec_fields_tr; [exact HF | lia]]. intros; exact I.
          -- exact El.
          -- intros t0 Ht0. exact (dmax_in _ _ _ Em t0 Ht0).
          -- lia.
        * destruct (dmax (dep N) _) as [m|] eqn:Em; [|discriminate]. injection Hd as <-.
          apply adv_of_lt. eapply tr_bind.
          -- apply c_struct_tr. intros sub Hsub. eapply tr_bind.
             ++ apply (IHfs N m st (t_fields dd) sub).
                ** intros fd Hfd. apply (dmax_in _ _ _ Em). apply in_map. exact Hfd.
                ** lia.
             ++ intros; exact I.
          -- intros r Hr. exact Hr.
      + exact I.
    - intros N d st t tag c Hd Hfuel. rewrite dec_slice_eq.
      destruct (negb (c_tag c =? tag)) eqn:Et.
      + cbn [tr]. unfold adv. cbn [fst snd]. split; [lia|]. intros Heq.
        apply negb_true_iff, Z.eqb_neq in Et. contradiction.
      + apply negb_false_iff, Z.eqb_eq in Et.
        eapply tr_bind; [apply (IHty N d st t tag c Hd); lia|]. intros a [Ha1 Ha2]. specialize (Ha2 Et).
        eapply tr_bind; [apply (IHsl N d (snd a) t tag (snd (fst a)) Hd); lia|]. intros b [Hb1 _].
        cbn [tr]. unfold adv. cbn [fst snd]. split; [lia | intros _; lia].
    - intros N m st fl c Hall Hfuel. rewrite dec_fields_s_eq. destruct fl as [|fd fl']; [cbn [tr]; unfold noinc; cbn [fst snd]; lia|].
      cbn [List.length] in Hfuel.
      eapply tr_bind with (P := noinc c).
      + destruct (f_tag fd =? 0); [exact I|].
        destruct (_ && _)%bool; [cbn [tr]; unfold noinc; cbn [fst snd]; lia|].
        destruct (_ && _)%bool; [cbn [tr]; unfold noinc; cbn [fst snd]; lia|].
        destruct (Hall fd (or_introl eq_refl)) as (d0 & Hd0 & Hle).
        eapply noinc_of_adv. apply (IHty N d0); [exact Hd0 | lia].
      + intros a Ha. unfold noinc in Ha. cbv zeta. eapply tr_bind.
        * apply (IHfs N m _ fl' (snd (fst a))); [intros fd' Hfd'; apply Hall; right; exact Hfd' | lia].
        * intros b Hb. unfold noinc in *. cbn [tr fst snd]. lia.
    - intros N d st t tag c Hd Hfuel. rewrite dec_opt_eq. destruct (c_tag c =? tag).
      + eapply noinc_of_adv. apply (IHty N d); [exact Hd | lia].
      + cbn [tr]. unfold noinc. cbn [fst snd]. lia.
    - intros N m st ot c Hall Hfuel. rewrite dec_object_eq. destruct (lookup_obj OBJS ot) as [n|] eqn:E; [|exact I].
      assert (Hin : In (TNamed n) (obj_types OBJS)).
      { unfold lookup_obj in E. destruct (find _ OBJS) as [e|] eqn:Ef; [|discriminate]. injection E as <-.
        apply find_some in Ef. destruct Ef as [Hin _]. unfold obj_types.
        apply (in_map (fun e => TNamed (snd e))). exact Hin. }
      destruct (Hall _ Hin) as (d0 & Hd0 & Hle).
      eapply tr_bind; [apply (IHty N d0); [exact Hd0 | lia]|]. intros r [Hr _].
      cbn [tr]. unfold noinc. cbn [fst snd]. exact Hr.
  Qed.

  (** ---- the depth does not depend on the budget once it is defined *)
  Lemma ty_depth_mono N : forall t d, dep N t = Some d -> dep (Datatypes.S N) t = Some d.
  Proof.
    induction N as [|N IH]; intros t d Hd; [discriminate|].
    rewrite ty_depth_eq in Hd. rewrite (ty_depth_eq (Datatypes.S N)). destruct t as [k|t'|t'|n|n]; try exact Hd.
    - destruct (dep N t') as [d'|] eqn:E; [|discriminate]. rewrite (IH _ _ E). exact Hd.
    - destruct (dep N t') as [d'|] eqn:E; [|discriminate]. rewrite (IH _ _ E). exact Hd.
    - destruct (String.eqb n "ttlv.Value"); [exact Hd|].
      destruct (String.eqb n "ttlv.Struct"); [exact Hd|].
      destruct (find_tdef S n) as [dd|]; [|exact Hd].
      destruct (callees S OPS ATTRS OBJS dd) as [l|]; [|discriminate].
      destruct (dmax (dep N) l) as [m|] eqn:Em; [|discriminate].
      rewrite (dmax_ext _ _ l IH _ Em). exact Hd.
  Qed.

  Lemma ty_depth_mono_le N N' t d : (N <= N')%nat -> dep N t = Some d -> dep N' t = Some d.
  Proof. intros Hle Hd. induction Hle as [|N' _ IH]; [exact Hd | apply ty_depth_mono, IH]. Qed.

  (** under the acyclicity check, [bound] is the depth of every decodable type *)
  Lemma bound_depth : acyclic_schema S OPS ATTRS OBJS = true ->
    forall t, decodable S t = true -> exists N, dep N t = Some (bound S OPS ATTRS OBJS t).
  Proof.
    intros Hac. induction t as [k|t' IH|t' IH|n|n]; intros Hdec.
    - exists 1%nat. reflexivity.
    - cbn [decodable] in Hdec. destruct (IH Hdec) as [N HN]. exists (Datatypes.S N).
      rewrite ty_depth_eq, HN. reflexivity.
    - cbn [decodable] in Hdec. destruct (IH Hdec) as [N HN]. exists (Datatypes.S N).
      rewrite ty_depth_eq, HN. reflexivity.
    - cbn [bound]. destruct (dep (depth_budget S) (TNamed n)) as [d|] eqn:E; [exists (depth_budget S); exact E|].
      exfalso. cbn [decodable] in Hdec.
      assert (Hk : exists k, depth_budget S = Datatypes.S k).
      { unfold depth_budget. exists (4 * List.length S + 3)%nat. lia. }
      destruct Hk as [k Hk].
      destruct (String.eqb n "ttlv.Value") eqn:E1.
      { rewrite Hk, ty_depth_eq, E1 in E. discriminate. }
      destruct (String.eqb n "ttlv.Struct") eqn:E2.
      { rewrite Hk, ty_depth_eq, E1, E2 in E. discriminate. }
      cbn [orb] in Hdec. apply andb_true_iff in Hdec. destruct Hdec as [Hh Hf].
      destruct (find_tdef S n) as [dd|] eqn:Efind; [|discriminate].
      destruct (find_tdef_some _ _ _ Efind) as [Hin Hn].
      unfold acyclic_schema in Hac. rewrite forallb_forall in Hac. specialize (Hac dd Hin).
      rewrite Hn in Hac. apply negb_true_iff in Hh. rewrite Hh, E in Hac. discriminate.
    - discriminate.
  Qed.
End Term.

(** ---- the statements *)

(** general form: ANY schema and tables, any total reader format, any type whose static depth
    is defined (with whatever budget), any cursor: fuel above depth + 2 * (raw elements under
    the cursor) is never exhausted *)
Theorem dec_ty_terminates_depth : forall S OPS ATTRS OBJS {R} (F : rawfmt R), fmt_total F ->
  forall N d fuel st t tag c, ty_depth S OPS ATTRS OBJS N t = Some d ->
    (d + K_ELEM * csize c <= fuel)%nat ->
    dec_ty S OPS ATTRS OBJS F fuel st t tag c <> OutOfFuel.
Proof.
  intros S OPS ATTRS OBJS R F HF N d fuel st t tag c Hd Hfuel. eapply tr_neq.
  exact (proj1 (dec_all_tr S OPS ATTRS OBJS F HF fuel) N d st t tag c Hd Hfuel).
Qed.

(** ... and what it leaves is no larger, strictly smaller when the cursor stood on the tag *)
Theorem dec_ty_consumes : forall S OPS ATTRS OBJS {R} (F : rawfmt R), fmt_total F ->
  forall N d fuel st t tag c v c' st', ty_depth S OPS ATTRS OBJS N t = Some d ->
    (d + K_ELEM * csize c <= fuel)%nat ->
    dec_ty S OPS ATTRS OBJS F fuel st t tag c = Ok (v, c', st') ->
    (csize c' <= csize c)%nat /\ (c_tag c = tag -> (csize c' < csize c)%nat).
Proof.
  intros S OPS ATTRS OBJS R F HF N d fuel st t tag c v c' st' Hd Hfuel E.
  pose proof (proj1 (dec_all_tr S OPS ATTRS OBJS F HF fuel) N d st t tag c Hd Hfuel) as H.
  rewrite E in H. exact H.
Qed.

(** the slice loop `for d.Tag() == tag { decode one element }` *)
Theorem dec_slice_terminates_depth : forall S OPS ATTRS OBJS {R} (F : rawfmt R), fmt_total F ->
  forall N d fuel st t tag c, ty_depth S OPS ATTRS OBJS N t = Some d ->
    (d + 1 + K_ELEM * csize c <= fuel)%nat ->
    dec_slice S OPS ATTRS OBJS F fuel st t tag c <> OutOfFuel.
Proof.
  intros S OPS ATTRS OBJS R F HF N d fuel st t tag c Hd Hfuel. eapply tr_neq.
  exact (proj1 (proj2 (dec_all_tr S OPS ATTRS OBJS F HF fuel)) N d st t tag c Hd Hfuel).
Qed.

(** a struct body: [m] bounds the depth of every field type *)
Theorem dec_fields_s_terminates_depth : forall S OPS ATTRS OBJS {R} (F : rawfmt R), fmt_total F ->
  forall N m fuel st fl c, dmax (ty_depth S OPS ATTRS OBJS N) (map f_ty fl) = Some m ->
    (m + List.length fl + 1 + K_ELEM * csize c <= fuel)%nat ->
    dec_fields_s S OPS ATTRS OBJS F fuel st fl c <> OutOfFuel.
Proof.
  intros S OPS ATTRS OBJS R F HF N m fuel st fl c Hm Hfuel. eapply tr_neq.
  apply (proj1 (proj2 (proj2 (dec_all_tr S OPS ATTRS OBJS F HF fuel))) N m st fl c); [|exact Hfuel].
  intros fd Hfd. apply (dmax_in _ _ _ Hm). apply in_map. exact Hfd.
Qed.

Theorem dec_opt_terminates_depth : forall S OPS ATTRS OBJS {R} (F : rawfmt R), fmt_total F ->
  forall N d fuel st t tag c, ty_depth S OPS ATTRS OBJS N t = Some d ->
    (d + 1 + K_ELEM * csize c <= fuel)%nat ->
    dec_opt S OPS ATTRS OBJS F fuel st t tag c <> OutOfFuel.
Proof.
  intros S OPS ATTRS OBJS R F HF N d fuel st t tag c Hd Hfuel. eapply tr_neq.
  exact (proj1 (proj2 (proj2 (proj2 (dec_all_tr S OPS ATTRS OBJS F HF fuel)))) N d st t tag c Hd Hfuel).
Qed.

(** NewObjectForType + d.Any: [m] bounds the depth of every object type *)
Theorem dec_object_terminates_depth : forall S OPS ATTRS OBJS {R} (F : rawfmt R), fmt_total F ->
  forall N m fuel st ot c, dmax (ty_depth S OPS ATTRS OBJS N) (obj_types OBJS) = Some m ->
    (m + 1 + K_ELEM * csize c <= fuel)%nat ->
    dec_object S OPS ATTRS OBJS F fuel st ot c <> OutOfFuel.
Proof.
  intros S OPS ATTRS OBJS R F HF N m fuel st ot c Hm Hfuel. eapply tr_neq.
  apply (proj2 (proj2 (proj2 (proj2 (dec_all_tr S OPS ATTRS OBJS F HF fuel)))) N m st ot c); [|exact Hfuel].
  exact (dmax_in _ _ _ Hm).
Qed.

(** every hand-written decoder, started (as dec_ty does) on the typed decoder one fuel unit
    down: [m] bounds the depth of every type it may start the decoder on *)
Theorem dec_custom_terminates_depth : forall S OPS ATTRS OBJS {R} (F : rawfmt R), fmt_total F ->
  forall N m l f st d tag c, t_custom_dec d = true ->
    callees S OPS ATTRS OBJS d = Some l -> dmax (ty_depth S OPS ATTRS OBJS N) l = Some m ->
    (m + 1 + K_ELEM * csize c <= f)%nat ->
    dec_custom_of S OPS ATTRS F (dec_ty S OPS ATTRS OBJS F f) (dec_opt S OPS ATTRS OBJS F f)
      (dec_object S OPS ATTRS OBJS F f) (dec_fields F f) st d tag c <> OutOfFuel.
Proof.
  intros S OPS ATTRS OBJS R F HF N m l f st d tag c Hcd Hl Hm Hfuel. unfold K_ELEM in Hfuel.
  unfold callees in Hl. rewrite Hcd in Hl. destruct (custom_types S d) as [l0|] eqn:El; [|discriminate].
  injection Hl as <-.
  destruct (dec_all_tr S OPS ATTRS OBJS F HF f) as (IHty & _ & _ & IHopt & IHobj).
  eapply tr_neq.
  apply (dec_custom_tr S OPS ATTRS OBJS F HF (dec_ty S OPS ATTRS OBJS F f) (dec_opt S OPS ATTRS OBJS F f)
           (dec_object S OPS ATTRS OBJS F f) (dec_fields F f) (ty_depth S OPS ATTRS OBJS N) m (csize c)) with (l := l0).
  - intros st0 t0 tag0 c0 (d0 & Hd0 & Hle) Hc0. eapply noinc_of_adv. apply (IHty N d0); [exact Hd0 | lia].
  - intros st0 t0 tag0 c0 (d0 & Hd0 & Hle) Hc0. apply (IHopt N d0); [exact Hd0 | lia].
  - intros st0 ot c0 Hob Hc0. apply (IHobj N m); [exact Hob | lia].
  - intros c0 Hc0. eapply tr_impl; [|apply dec_fields_tr; [exact HF | lia]]. intros; exact I.
  - exact El.
  - intros t0 Ht0. exact (dmax_in _ _ _ Hm t0 Ht0).
  - lia.
Qed.

(** the form asked for: a decidable acyclicity check on the schema, and [bound] as the static
    part.  (The safety check dec_safe_schema is NOT needed for this half: the panic points
    of the model are results.) *)
Theorem dec_ty_terminates : forall S OPS ATTRS OBJS {R} (F : rawfmt R), fmt_total F ->
  acyclic_schema S OPS ATTRS OBJS = true ->
  forall fuel st t tag c, decodable S t = true ->
    (bound S OPS ATTRS OBJS t + K_ELEM * csize c <= fuel)%nat ->
    dec_ty S OPS ATTRS OBJS F fuel st t tag c <> OutOfFuel.
Proof.
  intros S OPS ATTRS OBJS R F HF Hac fuel st t tag c Hdec Hfuel.
  destruct (bound_depth S OPS ATTRS OBJS Hac t Hdec) as [N HN].
  exact (dec_ty_terminates_depth S OPS ATTRS OBJS F HF N _ fuel st t tag c HN Hfuel).
Qed.

(** with the safety check: the typed decoder RETURNS (a value or an error) *)
Theorem dec_ty_returns : forall S OPS ATTRS OBJS {R} (F : rawfmt R), fmt_total F ->
  dec_safe_schema S OPS ATTRS OBJS = true -> acyclic_schema S OPS ATTRS OBJS = true ->
  forall fuel st t tag c, decodable S t = true ->
    (bound S OPS ATTRS OBJS t + K_ELEM * csize c <= fuel)%nat ->
    (exists r, dec_ty S OPS ATTRS OBJS F fuel st t tag c = Ok r) \/
    dec_ty S OPS ATTRS OBJS F fuel st t tag c = Err.
Proof.
  intros S OPS ATTRS OBJS R F HF HS Hac fuel st t tag c Hdec Hfuel.
  pose proof (dec_ty_terminates S OPS ATTRS OBJS F HF Hac fuel st t tag c Hdec Hfuel) as H1.
  pose proof (dec_ty_never_panics S OPS ATTRS OBJS F HF HS fuel st t tag c Hdec) as H2.
  destruct (dec_ty S OPS ATTRS OBJS F fuel st t tag c) as [r| | |].
  - left. exists r. reflexivity.
  - right. reflexivity.
  - contradiction H2; reflexivity.
  - contradiction H1; reflexivity.
Qed.

(** ---- the real schema *)
Lemma kmip_schema_acyclic : acyclic_schema kmip_schema kmip_ops kmip_attrs kmip_objs = true.
Proof. vm_compute. reflexivity. Qed.

Lemma kmip_cyclic_names : cyclic_names kmip_schema kmip_ops kmip_attrs kmip_objs = [].
Proof. vm_compute. reflexivity. Qed.

(** the static depth of a KMIP message *)
Definition B_kmip : nat := 57%nat.

Lemma kmip_roots_bound :
  bound kmip_schema kmip_ops kmip_attrs kmip_objs (TNamed "kmip.RequestMessage") = B_kmip /\
  bound kmip_schema kmip_ops kmip_attrs kmip_objs (TNamed "kmip.ResponseMessage") = B_kmip.
Proof. vm_compute. split; reflexivity. Qed.

(** ttlv.Unmarshal{TTLV,XML,JSON}(…, &msg) over any total reader format *)
Theorem kmip_dec_terminates : forall {R} (F : rawfmt R), fmt_total F ->
  forall root c, (root = "kmip.RequestMessage" \/ root = "kmip.ResponseMessage")%string ->
  (B_kmip + K_ELEM * csize c <= FUEL)%nat ->
  kmip_dec F root c <> OutOfFuel.
Proof.
  intros R F HF root c Hroot Hfuel. unfold kmip_dec.
  destruct kmip_roots_decodable as [Hq Hs]. destruct kmip_roots_bound as [Bq Bs].
  assert (H : forall tag, dec_ty kmip_schema kmip_ops kmip_attrs kmip_objs F FUEL None (TNamed root) tag c <> OutOfFuel).
  { intros tag. apply dec_ty_terminates; [exact HF | exact kmip_schema_acyclic | |].
    - destruct Hroot as [-> | ->]; assumption.
    - destruct Hroot as [-> | ->]; [rewrite Bq | rewrite Bs]; exact Hfuel. }
  destruct (find_tdef kmip_schema root) as [d|]; [|discriminate].
  apply bind_neq_oof; [apply H | intros; discriminate].
Qed.

(** the binary reader: every raw element stands for at least 8 bytes *)
Lemma bin_cursor_size bs c : bytes_ok bs = true -> bin_cursor bs = Ok c -> (csize c <= List.length bs / 8)%nat.
Proof.
  intros Hb E. unfold bin_cursor in E.
  pose proof (bin_forest_size (Datatypes.S (List.length bs)) bs Hb) as Hsz.
  pose proof (c_open_safe (fst (bin_forest (Datatypes.S (List.length bs)) bs)) (snd (bin_forest (Datatypes.S (List.length bs)) bs))) as Ho.
  rewrite E in Ho. cbn [safe_res] in Ho. rewrite Ho.
  apply Nat.div_le_lower_bound; [discriminate | exact Hsz].
Qed.

Theorem kmip_unmarshal_terminates : forall root bs,
  (root = "kmip.RequestMessage" \/ root = "kmip.ResponseMessage")%string ->
  bytes_ok bs = true ->
  (B_kmip + K_ELEM * (List.length bs / 8) <= FUEL)%nat ->
  kmip_unmarshal root bs <> OutOfFuel.
Proof.
  intros root bs Hroot Hb Hfuel. unfold kmip_unmarshal.
  destruct (bin_cursor bs) as [c| | |] eqn:E; cbn [bind]; try discriminate.
  - apply kmip_dec_terminates; [exact bin_fmt_total | exact Hroot|].
    pose proof (bin_cursor_size bs c Hb E) as Hc. unfold K_ELEM in *. lia.
  - unfold bin_cursor in E.
    pose proof (c_open_safe (fst (bin_forest (Datatypes.S (List.length bs)) bs)) (snd (bin_forest (Datatypes.S (List.length bs)) bs))) as Ho.
    rewrite E in Ho. destruct Ho.
Qed.

(** in bytes: 57 + 2 * (n / 8) <= 3000 as soon as n <= 11775 *)
Theorem kmip_unmarshal_terminates_11k : forall root bs,
  (root = "kmip.RequestMessage" \/ root = "kmip.ResponseMessage")%string ->
  bytes_ok bs = true -> len bs <= 11775 ->
  kmip_unmarshal root bs <> OutOfFuel.
Proof.
  intros root bs Hroot Hb Hlen. apply kmip_unmarshal_terminates; try assumption.
  assert (H : (List.length bs / 8 <= Z.to_nat 1471)%nat).
  { apply Nat2Z.inj_le. rewrite Nat2Z.inj_div. rewrite Z2Nat.id by lia. change (Z.of_nat 8) with 8.
    unfold len in Hlen. apply Z.lt_succ_r. apply Z.div_lt_upper_bound; lia. }
  unfold B_kmip, K_ELEM, FUEL. set (x := (List.length bs / 8)%nat) in *. lia.
Qed.

(** with kmip_unmarshal_never_panics: a value or an error *)
Theorem kmip_unmarshal_returns : forall root bs,
  (root = "kmip.RequestMessage" \/ root = "kmip.ResponseMessage")%string ->
  bytes_ok bs = true ->
  (B_kmip + K_ELEM * (List.length bs / 8) <= FUEL)%nat ->
  (exists v, kmip_unmarshal root bs = Ok v) \/ kmip_unmarshal root bs = Err.
Proof.
  intros root bs Hroot Hb Hfuel.
  pose proof (kmip_unmarshal_terminates root bs Hroot Hb Hfuel) as H1.
  pose proof (kmip_unmarshal_never_panics root bs Hroot Hb) as H2.
  destruct (kmip_unmarshal root bs) as [v| | |].
  - left. exists v. reflexivity.
  - right. reflexivity.
  - contradiction H2; reflexivity.
  - contradiction H1; reflexivity.
Qed.

(** ---- the same typed decoder over the XML and JSON readers (TextFmt.v), in terms of the
    number of raw elements of the cursor the reader builds from the document *)
From KV Require TextLex TextFmt TextFmtProofs.

Theorem kmip_unmarshal_xml_terminates : forall G root doc cut,
  (root = "kmip.RequestMessage" \/ root = "kmip.ResponseMessage")%string ->
  (forall c, TextFmt.xml_cursor G doc cut = Ok c -> (B_kmip + K_ELEM * csize c <= FUEL)%nat) ->
  kmip_unmarshal_xml G root doc cut <> OutOfFuel.
Proof.
  intros G root doc cut Hroot Hsz. unfold kmip_unmarshal_xml.
  destruct (TextFmt.xml_cursor G doc cut) as [c| | |] eqn:E; cbn [bind]; try discriminate.
  - apply kmip_dec_terminates; [apply text_fmt_total, TextFmtProofs.xml_fmt_total | exact Hroot | apply Hsz; reflexivity].
  - exfalso. unfold TextFmt.xml_cursor in E. destruct doc; [discriminate|].
    match type of E with c_open ?a ?b = _ => pose proof (c_open_safe a b) as Ho end.
    rewrite E in Ho. exact Ho.
Qed.

Theorem kmip_unmarshal_json_terminates : forall G root doc,
  (root = "kmip.RequestMessage" \/ root = "kmip.ResponseMessage")%string ->
  (forall c, TextFmt.json_cursor G doc = Ok c -> (B_kmip + K_ELEM * csize c <= FUEL)%nat) ->
  kmip_unmarshal_json G root doc <> OutOfFuel.
Proof.
  intros G root doc Hroot Hsz. unfold kmip_unmarshal_json.
  destruct (TextFmt.json_cursor G doc) as [c| | |] eqn:E; cbn [bind]; try discriminate.
  apply kmip_dec_terminates; [apply text_fmt_total, TextFmtProofs.json_fmt_total | exact Hroot | apply Hsz; reflexivity].
Qed.
