(** Pinned dispatch tables (operation -> payload types, object type -> struct, attribute
    name -> value type) of the pinned tree, KMIP 1.0-1.4.  Trusted data (C06). *)
From Coq Require Import ZArith List Bool String.
From KV Require Import Base Wire Schema.
Import ListNotations.
Open Scope Z_scope.
Open Scope string_scope.

Definition pinned_ops : op_table :=
  [(1, ("payloads.CreateRequestPayload", "payloads.CreateResponsePayload"));
   (2, ("payloads.CreateKeyPairRequestPayload", "payloads.CreateKeyPairResponsePayload"));
   (3, ("payloads.RegisterRequestPayload", "payloads.RegisterResponsePayload"));
   (4, ("payloads.RekeyRequestPayload", "payloads.RekeyResponsePayload"));
   (8, ("payloads.LocateRequestPayload", "payloads.LocateResponsePayload"));
   (10, ("payloads.GetRequestPayload", "payloads.GetResponsePayload"));
   (11, ("payloads.GetAttributesRequestPayload", "payloads.GetAttributesResponsePayload"));
   (12, ("payloads.GetAttributeListRequestPayload", "payloads.GetAttributeListResponsePayload"));
   (13, ("payloads.AddAttributeRequestPayload", "payloads.AddAttributeResponsePayload"));
   (14, ("payloads.ModifyAttributeRequestPayload", "payloads.ModifyAttributeResponsePayload"));
   (15, ("payloads.DeleteAttributeRequestPayload", "payloads.DeleteAttributeResponsePayload"));
   (16, ("payloads.ObtainLeaseRequestPayload", "payloads.ObtainLeaseResponsePayload"));
   (17, ("payloads.GetUsageAllocationRequestPayload", "payloads.GetUsageAllocationResponsePayload"));
   (18, ("payloads.ActivateRequestPayload", "payloads.ActivateResponsePayload"));
   (19, ("payloads.RevokeRequestPayload", "payloads.RevokeResponsePayload"));
   (20, ("payloads.DestroyRequestPayload", "payloads.DestroyResponsePayload"));
   (21, ("payloads.ArchiveRequestPayload", "payloads.ArchiveResponsePayload"));
   (22, ("payloads.RecoverRequestPayload", "payloads.RecoverResponsePayload"));
   (24, ("payloads.QueryRequestPayload", "payloads.QueryResponsePayload"));
   (29, ("payloads.RekeyKeyPairRequestPayload", "payloads.RekeyKeyPairResponsePayload"));
   (30, ("payloads.DiscoverVersionsRequestPayload", "payloads.DiscoverVersionsResponsePayload"));
   (31, ("payloads.EncryptRequestPayload", "payloads.EncryptResponsePayload"));
   (32, ("payloads.DecryptRequestPayload", "payloads.DecryptResponsePayload"));
   (33, ("payloads.SignRequestPayload", "payloads.SignResponsePayload"));
   (34, ("payloads.SignatureVerifyRequestPayload", "payloads.SignatureVerifyResponsePayload"));
   (42, ("payloads.ImportRequestPayload", "payloads.ImportResponsePayload"));
   (43, ("payloads.ExportRequestPayload", "payloads.ExportResponsePayload"))].

Definition pinned_attrs : attr_table :=
  [([65; 99; 116; 105; 118; 97; 116; 105; 111; 110; 32; 68; 97; 116; 101] (* Activation Date *), TScalar KTime);
   ([65; 108; 116; 101; 114; 110; 97; 116; 105; 118; 101; 32; 78; 97; 109; 101] (* Alternative Name *), TNamed "kmip.AlternativeName");
   ([65; 108; 119; 97; 121; 115; 32; 83; 101; 110; 115; 105; 116; 105; 118; 101] (* Always Sensitive *), TScalar KBool);
   ([65; 112; 112; 108; 105; 99; 97; 116; 105; 111; 110; 32; 83; 112; 101; 99; 105; 102; 105; 99; 32; 73; 110; 102; 111; 114; 109; 97; 116; 105; 111; 110] (* Application Specific Information *), TNamed "kmip.ApplicationSpecificInformation");
   ([65; 114; 99; 104; 105; 118; 101; 32; 68; 97; 116; 101] (* Archive Date *), TScalar KTime);
   ([67; 101; 114; 116; 105; 102; 105; 99; 97; 116; 101; 32; 73; 100; 101; 110; 116; 105; 102; 105; 101; 114] (* Certificate Identifier *), TNamed "kmip.CertificateIdentifier");
   ([67; 101; 114; 116; 105; 102; 105; 99; 97; 116; 101; 32; 73; 115; 115; 117; 101; 114] (* Certificate Issuer *), TNamed "kmip.CertificateIssuer");
   ([67; 101; 114; 116; 105; 102; 105; 99; 97; 116; 101; 32; 76; 101; 110; 103; 116; 104] (* Certificate Length *), TScalar KInt32);
   ([67; 101; 114; 116; 105; 102; 105; 99; 97; 116; 101; 32; 83; 117; 98; 106; 101; 99; 116] (* Certificate Subject *), TNamed "kmip.CertificateSubject");
   ([67; 101; 114; 116; 105; 102; 105; 99; 97; 116; 101; 32; 84; 121; 112; 101] (* Certificate Type *), TScalar (KEnum 4325405));
   ([67; 111; 109; 109; 101; 110; 116] (* Comment *), TScalar KString);
   ([67; 111; 109; 112; 114; 111; 109; 105; 115; 101; 32; 68; 97; 116; 101] (* Compromise Date *), TScalar KTime);
   ([67; 111; 109; 112; 114; 111; 109; 105; 115; 101; 32; 79; 99; 99; 117; 114; 114; 101; 110; 99; 101; 32; 68; 97; 116; 101] (* Compromise Occurrence Date *), TScalar KTime);
   ([67; 111; 110; 116; 97; 99; 116; 32; 73; 110; 102; 111; 114; 109; 97; 116; 105; 111; 110] (* Contact Information *), TScalar KString);
   ([67; 114; 121; 112; 116; 111; 103; 114; 97; 112; 104; 105; 99; 32; 65; 108; 103; 111; 114; 105; 116; 104; 109] (* Cryptographic Algorithm *), TScalar (KEnum 4325416));
   ([67; 114; 121; 112; 116; 111; 103; 114; 97; 112; 104; 105; 99; 32; 68; 111; 109; 97; 105; 110; 32; 80; 97; 114; 97; 109; 101; 116; 101; 114; 115] (* Cryptographic Domain Parameters *), TNamed "kmip.CryptographicDomainParameters");
   ([67; 114; 121; 112; 116; 111; 103; 114; 97; 112; 104; 105; 99; 32; 76; 101; 110; 103; 116; 104] (* Cryptographic Length *), TScalar KInt32);
   ([67; 114; 121; 112; 116; 111; 103; 114; 97; 112; 104; 105; 99; 32; 80; 97; 114; 97; 109; 101; 116; 101; 114; 115] (* Cryptographic Parameters *), TNamed "kmip.CryptographicParameters");
   ([67; 114; 121; 112; 116; 111; 103; 114; 97; 112; 104; 105; 99; 32; 85; 115; 97; 103; 101; 32; 77; 97; 115; 107] (* Cryptographic Usage Mask *), TScalar (KMask 4325420));
   ([68; 101; 97; 99; 116; 105; 118; 97; 116; 105; 111; 110; 32; 68; 97; 116; 101] (* Deactivation Date *), TScalar KTime);
   ([68; 101; 115; 99; 114; 105; 112; 116; 105; 111; 110] (* Description *), TScalar KString);
   ([68; 101; 115; 116; 114; 111; 121; 32; 68; 97; 116; 101] (* Destroy Date *), TScalar KTime);
   ([68; 105; 103; 101; 115; 116] (* Digest *), TNamed "kmip.Digest");
   ([68; 105; 103; 105; 116; 97; 108; 32; 83; 105; 103; 110; 97; 116; 117; 114; 101; 32; 65; 108; 103; 111; 114; 105; 116; 104; 109] (* Digital Signature Algorithm *), TScalar (KEnum 4325550));
   ([69; 120; 116; 114; 97; 99; 116; 97; 98; 108; 101] (* Extractable *), TScalar KBool);
   ([70; 114; 101; 115; 104] (* Fresh *), TScalar KBool);
   ([73; 110; 105; 116; 105; 97; 108; 32; 68; 97; 116; 101] (* Initial Date *), TScalar KTime);
   ([75; 101; 121; 32; 86; 97; 108; 117; 101; 32; 76; 111; 99; 97; 116; 105; 111; 110] (* Key Value Location *), TNamed "kmip.KeyValueLocation");
   ([75; 101; 121; 32; 86; 97; 108; 117; 101; 32; 80; 114; 101; 115; 101; 110; 116] (* Key Value Present *), TScalar KBool);
   ([76; 97; 115; 116; 32; 67; 104; 97; 110; 103; 101; 32; 68; 97; 116; 101] (* Last Change Date *), TScalar KTime);
   ([76; 101; 97; 115; 101; 32; 84; 105; 109; 101] (* Lease Time *), TScalar KDuration);
   ([76; 105; 110; 107] (* Link *), TNamed "kmip.Link");
   ([78; 97; 109; 101] (* Name *), TNamed "kmip.Name");
   ([78; 101; 118; 101; 114; 32; 69; 120; 116; 114; 97; 99; 116; 97; 98; 108; 101] (* Never Extractable *), TScalar KBool);
   ([79; 98; 106; 101; 99; 116; 32; 71; 114; 111; 117; 112] (* Object Group *), TScalar KString);
   ([79; 98; 106; 101; 99; 116; 32; 84; 121; 112; 101] (* Object Type *), TScalar (KEnum 4325463));
   ([79; 112; 101; 114; 97; 116; 105; 111; 110; 32; 80; 111; 108; 105; 99; 121; 32; 78; 97; 109; 101] (* Operation Policy Name *), TScalar KString);
   ([79; 114; 105; 103; 105; 110; 97; 108; 32; 67; 114; 101; 97; 116; 105; 111; 110; 32; 68; 97; 116; 101] (* Original Creation Date *), TScalar KTime);
   ([80; 75; 67; 83; 35; 49; 50; 32; 70; 114; 105; 101; 110; 100; 108; 121; 32; 78; 97; 109; 101] (* PKCS#12 Friendly Name *), TScalar KString);
   ([80; 114; 111; 99; 101; 115; 115; 32; 83; 116; 97; 114; 116; 32; 68; 97; 116; 101] (* Process Start Date *), TScalar KTime);
   ([80; 114; 111; 116; 101; 99; 116; 32; 83; 116; 111; 112; 32; 68; 97; 116; 101] (* Protect Stop Date *), TScalar KTime);
   ([82; 97; 110; 100; 111; 109; 32; 78; 117; 109; 98; 101; 114; 32; 71; 101; 110; 101; 114; 97; 116; 111; 114] (* Random Number Generator *), TNamed "kmip.RNGParameters");
   ([82; 101; 118; 111; 99; 97; 116; 105; 111; 110; 32; 82; 101; 97; 115; 111; 110] (* Revocation Reason *), TNamed "kmip.RevocationReason");
   ([83; 101; 110; 115; 105; 116; 105; 118; 101] (* Sensitive *), TScalar KBool);
   ([83; 116; 97; 116; 101] (* State *), TScalar (KEnum 4325517));
   ([85; 110; 105; 113; 117; 101; 32; 73; 100; 101; 110; 116; 105; 102; 105; 101; 114] (* Unique Identifier *), TScalar KString);
   ([85; 115; 97; 103; 101; 32; 76; 105; 109; 105; 116; 115] (* Usage Limits *), TNamed "kmip.UsageLimits");
   ([88; 46; 53; 48; 57; 32; 67; 101; 114; 116; 105; 102; 105; 99; 97; 116; 101; 32; 73; 100; 101; 110; 116; 105; 102; 105; 101; 114] (* X.509 Certificate Identifier *), TNamed "kmip.X_509CertificateIdentifier");
   ([88; 46; 53; 48; 57; 32; 67; 101; 114; 116; 105; 102; 105; 99; 97; 116; 101; 32; 73; 115; 115; 117; 101; 114] (* X.509 Certificate Issuer *), TNamed "kmip.X_509CertificateIssuer");
   ([88; 46; 53; 48; 57; 32; 67; 101; 114; 116; 105; 102; 105; 99; 97; 116; 101; 32; 83; 117; 98; 106; 101; 99; 116] (* X.509 Certificate Subject *), TNamed "kmip.X_509CertificateSubject")].

Definition pinned_objs : obj_table :=
  [(1, "kmip.Certificate");
   (2, "kmip.SymmetricKey");
   (3, "kmip.PublicKey");
   (4, "kmip.PrivateKey");
   (5, "kmip.SplitKey");
   (6, "kmip.Template");
   (7, "kmip.SecretData");
   (8, "kmip.OpaqueObject");
   (9, "kmip.PGPKey")].

