(** Fuel of the typed encoder: a result other than OutOfFuel is stable under more fuel (A),
    and [vdepth v] units are enough for the value [v] (B).  Together: the encoder run with any
    fuel >= vdepth v gives the result of the run with exactly vdepth v. *)
From Coq Require Import ZArith List Bool String Lia PeanoNat.
From KV Require Import Base Wire Schema SchemaSem SchemaSemEq EncFuel.
Import ListNotations.
Open Scope Z_scope.

(** ---- [bind] and OutOfFuel *)
Lemma bind_stable {A B} (x x' : res A) (k k' : A -> res B) :
  (x <> OutOfFuel -> x' = x) ->
  (forall a, x = Ok a -> k a <> OutOfFuel -> k' a = k a) ->
  bind x k <> OutOfFuel -> bind x' k' = bind x k.
Proof.
  intros Hx Hk H. destruct x as [a| | |]; cbn [bind] in H.
  - rewrite Hx by discriminate. cbn [bind]. apply Hk; [reflexivity | exact H].
  - rewrite Hx by discriminate. reflexivity.
  - rewrite Hx by discriminate. reflexivity.
  - exfalso. apply H. reflexivity.
Qed.

Lemma bind_fueled {A B} (x : res A) (k : A -> res B) :
  x <> OutOfFuel -> (forall a, x = Ok a -> k a <> OutOfFuel) -> bind x k <> OutOfFuel.
Proof.
  intros Hx Hk. destruct x as [a| | |]; cbn [bind]; try discriminate.
  - apply Hk. reflexivity.
  - exfalso. apply Hx. reflexivity.
Qed.

Lemma vdepth_list l : vdepth (VList l) = Datatypes.S (ldepth l).
Proof. reflexivity. Qed.
Lemma vdepth_struct n fs : vdepth (VStruct n fs) = Datatypes.S (Datatypes.S (ldepth fs)).
Proof. reflexivity. Qed.
Lemma vdepth_pos v : (1 <= vdepth v)%nat.
Proof. destruct v; cbn [vdepth]; lia. Qed.
Lemma ldepth_pos l : (1 <= ldepth l)%nat.
Proof. destruct l; cbn [ldepth]; lia. Qed.

Lemma enc_scalar_fueled k tag v : enc_scalar k tag v <> OutOfFuel.
Proof. destruct k, v; discriminate. Qed.

Section EF.
  Variable S : schema.

  Local Notation enc_ty := (enc_ty S).
  Local Notation enc_list := (enc_list S).
  Local Notation enc_fields := (enc_fields S).
  Local Notation enc_same_tag := (enc_same_tag S).
  Local Notation enc_custom := (enc_custom S).

  (** ------------------------------------------------------------------------------------
      A. stability under more fuel *)
  Definition M_ty (f : nat) : Prop := forall g st t tag v, (f <= g)%nat ->
    enc_ty f st t tag v <> OutOfFuel -> enc_ty g st t tag v = enc_ty f st t tag v.
  Definition M_list (f : nat) : Prop := forall g st t tag l, (f <= g)%nat ->
    enc_list f st t tag l <> OutOfFuel -> enc_list g st t tag l = enc_list f st t tag l.
  Definition M_fields (f : nat) : Prop := forall g st fl vl, (f <= g)%nat ->
    enc_fields f st fl vl <> OutOfFuel -> enc_fields g st fl vl = enc_fields f st fl vl.
  Definition M_same (f : nat) : Prop := forall g st fl tag vl, (f <= g)%nat ->
    enc_same_tag f st fl tag vl <> OutOfFuel -> enc_same_tag g st fl tag vl = enc_same_tag f st fl tag vl.
  Definition M_custom (f : nat) : Prop := forall g st d tag fs, (f <= g)%nat ->
    enc_custom f st d tag fs <> OutOfFuel -> enc_custom g st d tag fs = enc_custom f st d tag fs.
  Definition M_all (f : nat) : Prop := M_ty f /\ M_list f /\ M_fields f /\ M_same f /\ M_custom f.

  Lemma M_step_ty f : M_all f -> M_ty (Datatypes.S f).
  Proof.
    intros (IHt & IHl & IHf & IHs & IHc) g st t tag v Hg H.
    destruct g as [|g]; [lia|]. assert (Hfg : (f <= g)%nat) by lia.
    rewrite enc_ty_eq in H |- *. rewrite enc_ty_eq.
    destruct t as [k|t'|t'|n|nm].
    - reflexivity.
    - destruct v; try reflexivity. apply IHt; assumption.
    - destruct v; try reflexivity. apply IHl; assumption.
    - destruct (String.eqb n "ttlv.Value"); [reflexivity|].
      destruct (String.eqb n "ttlv.Struct"); [reflexivity|].
      destruct (find_tdef S n) as [d|]; [|reflexivity].
      destruct v; try reflexivity.
      destruct (t_custom_enc d).
      + apply IHc; assumption.
      + apply bind_stable; [intros Hx; apply IHf; assumption | intros; reflexivity | exact H].
    - destruct v; try reflexivity. apply IHt; assumption.
  Qed.

  Lemma M_step_list f : M_all f -> M_list (Datatypes.S f).
  Proof.
    intros (IHt & IHl & IHf & IHs & IHc) g st t tag l Hg H.
    destruct g as [|g]; [lia|]. assert (Hfg : (f <= g)%nat) by lia.
    rewrite enc_list_eq in H |- *. rewrite enc_list_eq.
    destruct l as [|x r]; [reflexivity|].
    apply bind_stable; [intros Hx; apply IHt; assumption | | exact H].
    intros a _ Ha. apply bind_stable; [intros Hx; apply IHl; assumption | intros; reflexivity | exact Ha].
  Qed.

  Lemma M_step_same f : M_all f -> M_same (Datatypes.S f).
  Proof.
    intros (IHt & IHl & IHf & IHs & IHc) g st fl tag vl Hg H.
    destruct g as [|g]; [lia|]. assert (Hfg : (f <= g)%nat) by lia.
    rewrite enc_same_tag_eq in H |- *. rewrite enc_same_tag_eq.
    destruct fl as [|fd fl']; [reflexivity|]. destruct vl as [|x vl']; [reflexivity|].
    apply bind_stable; [intros Hx; apply IHt; assumption | | exact H].
    intros a _ Ha. apply bind_stable; [intros Hx; apply IHs; assumption | intros; reflexivity | exact Ha].
  Qed.

  Lemma M_step_fields f : M_all f -> M_fields (Datatypes.S f).
  Proof.
    intros (IHt & IHl & IHf & IHs & IHc) g st fl vl Hg H.
    destruct g as [|g]; [lia|]. assert (Hfg : (f <= g)%nat) by lia.
    rewrite enc_fields_eq in H |- *. rewrite enc_fields_eq.
    destruct fl as [|fd fl']; [reflexivity|]. destruct vl as [|x vl']; [reflexivity|].
    cbv zeta in H |- *.
    apply bind_stable; [ | | exact H].
    - destruct (f_tag fd =? 0).
      + destruct x; try reflexivity. intros Hx. apply IHt; assumption.
      + destruct (negb (version_in (if f_setver fd then ver_of_value x else st) (f_range fd))); [reflexivity|].
        destruct (f_omit fd && is_zero x); [reflexivity|]. intros Hx. apply IHt; assumption.
    - intros a _ Ha. apply bind_stable; [intros Hx; apply IHf; assumption | intros; reflexivity | exact Ha].
  Qed.

  Lemma M_step_custom f : M_all f -> M_custom (Datatypes.S f).
  Proof.
    intros (IHt & IHl & IHf & IHs & IHc) g st d tag fs Hg H.
    destruct g as [|g]; [lia|]. assert (Hfg : (f <= g)%nat) by lia.
    rewrite enc_custom_eq in H |- *. rewrite enc_custom_eq. cbv zeta in H |- *.
    destruct (String.eqb (t_name d) "kmip.RequestBatchItem").
    { destruct fs as [|x0 fs]; [reflexivity|]. destruct x0 as [op| | | | | | | | |]; try reflexivity.
      destruct fs as [|idv fs]; [reflexivity|]. destruct fs as [|payload fs]; [reflexivity|]. destruct fs as [|ext fs]; [reflexivity|].
      destruct fs as [|? ?]; [|reflexivity].
      destruct (bytes_of idv) as [id|]; [|reflexivity].
      apply bind_stable; [intros Hx; apply IHt; assumption | | exact H].
      intros a _ Ha. apply bind_stable; [intros Hx; apply IHt; assumption | intros; reflexivity | exact Ha]. }
    destruct (String.eqb (t_name d) "kmip.ResponseBatchItem").
    { destruct fs as [|x0 fs]; [reflexivity|]. destruct x0 as [op| | | | | | | | |]; try reflexivity.
      destruct fs as [|idv fs]; [reflexivity|]. destruct fs as [|x2 fs]; [reflexivity|]. destruct x2 as [status| | | | | | | | |]; try reflexivity.
      destruct fs as [|x3 fs]; [reflexivity|]. destruct x3 as [reason| | | | | | | | |]; try reflexivity.
      destruct fs as [|x4 fs]; [reflexivity|]. destruct x4 as [| |msg| | | | | | |]; try reflexivity.
      destruct fs as [|acvv fs]; [reflexivity|]. destruct fs as [|payload fs]; [reflexivity|]. destruct fs as [|ext fs]; [reflexivity|].
      destruct fs as [|? ?]; [|reflexivity].
      destruct (bytes_of idv) as [id|]; [|reflexivity].
      destruct (bytes_of acvv) as [acv|]; [|reflexivity].
      apply bind_stable; [intros Hx; apply IHt; assumption | | exact H].
      intros a _ Ha. apply bind_stable; [intros Hx; apply IHt; assumption | intros; reflexivity | exact Ha]. }
    destruct (String.eqb (t_name d) "kmip.UnknownPayload"); [reflexivity|].
    apply IHs; assumption.
  Qed.

  Theorem enc_stable_all f : M_all f.
  Proof.
    induction f as [|f IH].
    - repeat split; intros g; intros; exfalso; match goal with H : _ <> OutOfFuel |- _ => apply H; reflexivity end.
    - split; [apply M_step_ty, IH|]. split; [apply M_step_list, IH|]. split; [apply M_step_fields, IH|].
      split; [apply M_step_same, IH | apply M_step_custom, IH].
  Qed.

  (** A result other than OutOfFuel is the result at every larger fuel (Ok, Err, Panic alike). *)
  Theorem enc_ty_stable f g st t tag v : (f <= g)%nat ->
    enc_ty f st t tag v <> OutOfFuel -> enc_ty g st t tag v = enc_ty f st t tag v.
  Proof. destruct (enc_stable_all f) as (H & _). apply H. Qed.

  Theorem enc_ty_mono f g st t tag v r : (f <= g)%nat ->
    enc_ty f st t tag v = Ok r -> enc_ty g st t tag v = Ok r.
  Proof. intros Hg H. rewrite (enc_ty_stable f g) by (try rewrite H; try discriminate; assumption). exact H. Qed.
  Theorem enc_list_mono f g st t tag l r : (f <= g)%nat ->
    enc_list f st t tag l = Ok r -> enc_list g st t tag l = Ok r.
  Proof. intros Hg H. destruct (enc_stable_all f) as (_ & Hl & _). rewrite (Hl g) by (try rewrite H; try discriminate; assumption). exact H. Qed.
  Theorem enc_fields_mono f g st fl vl r : (f <= g)%nat ->
    enc_fields f st fl vl = Ok r -> enc_fields g st fl vl = Ok r.
  Proof. intros Hg H. destruct (enc_stable_all f) as (_ & _ & Hf & _). rewrite (Hf g) by (try rewrite H; try discriminate; assumption). exact H. Qed.
  Theorem enc_same_tag_mono f g st fl tag vl r : (f <= g)%nat ->
    enc_same_tag f st fl tag vl = Ok r -> enc_same_tag g st fl tag vl = Ok r.
  Proof. intros Hg H. destruct (enc_stable_all f) as (_ & _ & _ & Hs & _). rewrite (Hs g) by (try rewrite H; try discriminate; assumption). exact H. Qed.
  Theorem enc_custom_mono f g st d tag fs r : (f <= g)%nat ->
    enc_custom f st d tag fs = Ok r -> enc_custom g st d tag fs = Ok r.
  Proof. intros Hg H. destruct (enc_stable_all f) as (_ & _ & _ & _ & Hc). rewrite (Hc g) by (try rewrite H; try discriminate; assumption). exact H. Qed.

  (** ------------------------------------------------------------------------------------
      B. [vdepth v] units are enough *)
  Definition N_ty (f : nat) : Prop := forall st t tag v, (vdepth v <= f)%nat -> enc_ty f st t tag v <> OutOfFuel.
  Definition N_list (f : nat) : Prop := forall st t tag l, (ldepth l <= f)%nat -> enc_list f st t tag l <> OutOfFuel.
  Definition N_fields (f : nat) : Prop := forall st fl vl, (ldepth vl <= f)%nat -> enc_fields f st fl vl <> OutOfFuel.
  Definition N_same (f : nat) : Prop := forall st fl tag vl, (ldepth vl <= f)%nat -> enc_same_tag f st fl tag vl <> OutOfFuel.
  Definition N_custom (f : nat) : Prop := forall st d tag fs, (Datatypes.S (ldepth fs) <= f)%nat -> enc_custom f st d tag fs <> OutOfFuel.
  Definition N_all (f : nat) : Prop := N_ty f /\ N_list f /\ N_fields f /\ N_same f /\ N_custom f.

  Lemma N_step_ty f : N_all f -> N_ty (Datatypes.S f).
  Proof.
    intros (IHt & IHl & IHf & IHs & IHc) st t tag v Hd. rewrite enc_ty_eq.
    destruct t as [k|t'|t'|n|nm].
    - apply bind_fueled; [apply enc_scalar_fueled | intros; discriminate].
    - destruct v; try discriminate. apply IHt. cbn [vdepth] in Hd. lia.
    - destruct v; try discriminate. apply IHl. rewrite vdepth_list in Hd. lia.
    - destruct (String.eqb n "ttlv.Value"); [destruct v; discriminate|].
      destruct (String.eqb n "ttlv.Struct"); [destruct v as [| | | | | |l| | |]; try discriminate; destruct (trees_of l); discriminate|].
      destruct (find_tdef S n) as [d|]; [|discriminate].
      destruct v as [| | | | | | |n' fs| |]; try discriminate. rewrite vdepth_struct in Hd.
      destruct (t_custom_enc d).
      + apply IHc. lia.
      + apply bind_fueled; [apply IHf; lia | intros; discriminate].
    - destruct v; try discriminate. apply IHt. cbn [vdepth] in Hd. lia.
  Qed.

  Lemma N_step_list f : N_all f -> N_list (Datatypes.S f).
  Proof.
    intros (IHt & IHl & IHf & IHs & IHc) st t tag l Hd. rewrite enc_list_eq.
    destruct l as [|x r]; [discriminate|]. cbn [ldepth] in Hd.
    apply bind_fueled; [apply IHt; lia|]. intros a _.
    apply bind_fueled; [apply IHl; lia | intros; discriminate].
  Qed.

  Lemma N_step_same f : N_all f -> N_same (Datatypes.S f).
  Proof.
    intros (IHt & IHl & IHf & IHs & IHc) st fl tag vl Hd. rewrite enc_same_tag_eq.
    destruct fl as [|fd fl']; [destruct vl; discriminate|]. destruct vl as [|x vl']; [discriminate|]. cbn [ldepth] in Hd.
    apply bind_fueled; [apply IHt; lia|]. intros a _.
    apply bind_fueled; [apply IHs; lia | intros; discriminate].
  Qed.

  Lemma N_step_fields f : N_all f -> N_fields (Datatypes.S f).
  Proof.
    intros (IHt & IHl & IHf & IHs & IHc) st fl vl Hd. rewrite enc_fields_eq.
    destruct fl as [|fd fl']; [destruct vl; discriminate|]. destruct vl as [|x vl']; [discriminate|]. cbn [ldepth] in Hd.
    cbv zeta. apply bind_fueled.
    - destruct (f_tag fd =? 0).
      + destruct x; try discriminate. apply IHt. cbn [vdepth] in Hd. lia.
      + destruct (negb (version_in (if f_setver fd then ver_of_value x else st) (f_range fd))); [discriminate|].
        destruct (f_omit fd && is_zero x); [discriminate|]. apply IHt. lia.
    - intros a _. apply bind_fueled; [apply IHf; lia | intros; discriminate].
  Qed.

  Lemma N_step_custom f : N_all f -> N_custom (Datatypes.S f).
  Proof.
    intros (IHt & IHl & IHf & IHs & IHc) st d tag fs Hd. rewrite enc_custom_eq. cbv zeta.
    destruct (String.eqb (t_name d) "kmip.RequestBatchItem").
    { destruct fs as [|x0 fs]; [discriminate|]. destruct x0 as [op| | | | | | | | |]; try discriminate.
      destruct fs as [|idv fs]; [discriminate|]. destruct fs as [|payload fs]; [discriminate|]. destruct fs as [|ext fs]; [discriminate|].
      destruct fs as [|? ?]; [|discriminate].
      destruct (bytes_of idv) as [id|]; [|discriminate]. cbn [ldepth] in Hd.
      apply bind_fueled; [apply IHt; lia|]. intros a _.
      apply bind_fueled; [apply IHt; lia | intros; discriminate]. }
    destruct (String.eqb (t_name d) "kmip.ResponseBatchItem").
    { destruct fs as [|x0 fs]; [discriminate|]. destruct x0 as [op| | | | | | | | |]; try discriminate.
      destruct fs as [|idv fs]; [discriminate|]. destruct fs as [|x2 fs]; [discriminate|]. destruct x2 as [status| | | | | | | | |]; try discriminate.
      destruct fs as [|x3 fs]; [discriminate|]. destruct x3 as [reason| | | | | | | | |]; try discriminate.
      destruct fs as [|x4 fs]; [discriminate|]. destruct x4 as [| |msg| | | | | | |]; try discriminate.
      destruct fs as [|acvv fs]; [discriminate|]. destruct fs as [|payload fs]; [discriminate|]. destruct fs as [|ext fs]; [discriminate|].
      destruct fs as [|? ?]; [|discriminate].
      destruct (bytes_of idv) as [id|]; [|discriminate].
      destruct (bytes_of acvv) as [acv|]; [|discriminate]. cbn [ldepth] in Hd.
      apply bind_fueled; [apply IHt; lia|]. intros a _.
      apply bind_fueled; [apply IHt; lia | intros; discriminate]. }
    destruct (String.eqb (t_name d) "kmip.UnknownPayload").
    { destruct fs as [|[?| | | | | | | | |] [|[| | | | | |l| | |] [|? ?]]]; try discriminate. destruct (trees_of l); discriminate. }
    apply IHs. lia.
  Qed.

  Theorem enc_fueled_all f : N_all f.
  Proof.
    induction f as [|f IH].
    - split; [intros st t tag v H; pose proof (vdepth_pos v); lia|].
      split; [intros st t tag l H; pose proof (ldepth_pos l); lia|].
      split; [intros st fl vl H; pose proof (ldepth_pos vl); lia|].
      split; [intros st fl tag vl H; pose proof (ldepth_pos vl); lia|].
      intros st d tag fs H; lia.
    - split; [apply N_step_ty, IH|]. split; [apply N_step_list, IH|]. split; [apply N_step_fields, IH|].
      split; [apply N_step_same, IH | apply N_step_custom, IH].
  Qed.

  (** with at least [vdepth v] units the encoder does not run out of fuel ... *)
  Theorem enc_ty_fueled f st t tag v : (vdepth v <= f)%nat -> enc_ty f st t tag v <> OutOfFuel.
  Proof. destruct (enc_fueled_all f) as (H & _). apply H. Qed.

  (** ... so every such run is the run with exactly [vdepth v] units *)
  Theorem enc_ty_at_depth f st t tag v : (vdepth v <= f)%nat ->
    enc_ty f st t tag v = enc_ty (vdepth v) st t tag v.
  Proof. intros Hf. apply enc_ty_stable; [exact Hf | apply enc_ty_fueled; lia]. Qed.
End EF.
