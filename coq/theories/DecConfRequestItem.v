(** Decoder side of kmip.RequestBatchItem (requests.go): whatever the hand-written decoder
    accepts is encodable, and its normal form conforms. *)
From Coq Require Import ZArith List Bool String Lia PeanoNat.
From KV Require Import Base BaseProofs Wire WireProofs Cursor CursorProofs Schema SchemaSem SchemaSemEq FaithfulProofs
  Roundtrip RoundtripEq RoundtripProofs RtCustomLib Normalize NormalizeEq DecConfDefs NormProofs DecConfLib DecConfProofs DecConfCustomLib.
Import ListNotations.
Open Scope Z_scope.

Section RI.
  Variable S : schema.
  Variables (OPS : op_table) (ATTRS : attr_table) (OBJS : obj_table).
  Context {R : Type}.
  Variable F : rawfmt R.
  Variable eok : relem R -> bool.
  Hypothesis HR : fmt_ranged F eok.
  Hypothesis HS : schema_ok S OPS ATTRS OBJS = true.

  Local Notation enc_ty := (enc_ty S).
  Local Notation norm_ty := (norm_ty S).
  Local Notation dec_ty := (dec_ty S OPS ATTRS OBJS F).
  Local Notation dec_opt := (dec_opt S OPS ATTRS OBJS F).
  Local Notation conf_ty := (conf_ty S OPS ATTRS OBJS).
  Local Notation c_ok := (c_ok eok).
  Local Notation Good := (Good S OPS ATTRS OBJS).
  Local Notation Rng := (Rng eok).
  Local Notation DQ := (DQ S OPS ATTRS OBJS F eok).
  Local Notation lib x := (x S OPS ATTRS OBJS _ F eok HR HS) (only parsing).

  Lemma dc_request_item f : DQ f -> forall st d tag (c : cur R) v c' st',
    find_tdef S (t_name d) = Some d -> t_custom_dec d = true ->
    t_name d = "kmip.RequestBatchItem"%string -> request_item_ok S d = true ->
    dec_request_item OPS F (dec_ty f) (dec_opt f) (dec_fields F f) st d tag c = Ok (v, c', st') ->
    exists items, Good st (TNamed (t_name d)) tag v st' items /\ Rng c c' items.
  Proof.
    intros HQ st d tag c v c' st' Ed Hcd Hname Hok H.
    assert (EV : String.eqb (t_name d) "ttlv.Value" = false) by (rewrite Hname; reflexivity).
    assert (ES : String.eqb (t_name d) "ttlv.Struct" = false) by (rewrite Hname; reflexivity).
    unfold request_item_ok in Hok. rewrite !andb_true_iff in Hok.
    destruct Hok as ((((((((((Hce & Ht0) & Ht1) & Hm2) & Hext) & Hz0) & Hz1) & Hz2) & Hz3) & H12) & Hlen).
    pose proof (ty_eqb_eq _ _ Ht0) as Et0. pose proof (ty_eqb_eq _ _ Ht1) as Et1.
    assert (Et2 : exists nm, fty d 2 = TIface nm) by (destruct (fty d 2); try discriminate; eauto). destruct Et2 as [nm Et2].
    unfold dec_request_item in H.
    destruct (lib wrap_struct_inv _ _ _ _ _ _ _ H) as (sub & vals & c2 & Hb & -> & Hw). clear H.
    rewrite Et0, Et1 in Hb.
    destruct (SchemaSem.dec_ty S OPS ATTRS OBJS F f st (TScalar (KEnum (ftag d 0))) (ftag d 0) sub) as [[[opv c_1] s_1]| | |] eqn:Eop; cbn [bind fst snd] in Hb; try discriminate.
    destruct (lib dreq_enum_inv _ _ _ _ _ _ _ _ Eop) as (-> & op & -> & Rop). cbn [int_of] in Hb.
    destruct (SchemaSem.dec_opt S OPS ATTRS OBJS F f st (TScalar KBytes) (ftag d 1) c_1) as [[[idv c_2] s_2]| | |] eqn:Eid; cbn [bind fst snd] in Hb; try discriminate.
    destruct (lib dopt_bytes_inv _ _ _ _ _ _ _ Eid) as (-> & id & Hid & Rid).
    destruct (dec_payload OPS F (SchemaSem.dec_ty S OPS ATTRS OBJS F f) (dec_fields F f) st false op (ftag d 2) c_2) as [[[pl c_3] s_3]| | |] eqn:Epl; cbn [bind fst snd] in Hb; try discriminate.
    destruct (lib payload_good _ _ _ _ _ _ _ _ _ nm HQ Epl) as (ip & (pl' & fp & Hp) & Rpl).
    destruct (SchemaSem.dec_opt S OPS ATTRS OBJS F f st (fty d 3) (ftag d 3) c_3) as [[[ext c_4] s_4]| | |] eqn:Eext; cbn [bind fst snd] in Hb; try discriminate.
    destruct (lib dopt_ptr_good _ _ _ _ _ _ _ _ HQ Hext Eext) as (-> & t3 & Et3 & Hone3 & ie & (ext' & fe & He) & Rext).
    injection Hb as <- <- <-.
    exists [IStruct tag ([IEnum (ftag d 0) (ftag d 0) op] ++ (match id with [] => [] | _ => [IBytes (ftag d 1) id] end) ++ ip ++ ie)].
    split.
    - exists (VStruct (t_name d) [VInt op; VStr id; pl'; ext']), (Datatypes.S (Datatypes.S (Nat.max fp fe))).
      intros g Hge. destruct g as [|[|g]]; try lia.
      destruct (Hp g ltac:(lia)) as (P1 & P2 & _). destruct (Hp (Datatypes.S g) ltac:(lia)) as (_ & _ & P3).
      destruct (He g ltac:(lia)) as (E1 & E2 & _). destruct (He (Datatypes.S g) ltac:(lia)) as (_ & _ & E3).
      split.
      { rewrite enc_ty_eq, EV, ES, Ed, Hce, enc_custom_eq. cbv zeta. rewrite Hname.
        change (String.eqb "kmip.RequestBatchItem" "kmip.RequestBatchItem") with true. cbv iota.
        rewrite Hid, Et2, P1. cbn [bind fst snd]. rewrite E1. reflexivity. }
      split.
      { rewrite norm_ty_eq, EV, ES, Ed, Hce, norm_custom_eq. cbv zeta. rewrite Hname.
        change (String.eqb "kmip.RequestBatchItem" "kmip.RequestBatchItem") with true. cbv iota.
        rewrite Hid, Et2, P2. cbn [fst snd]. rewrite E2. reflexivity. }
      rewrite conf_ty_eq, EV, ES, Ed, String.eqb_refl, Hce, Hcd. cbn [negb andb].
      unfold conf_custom_of. cbv zeta. rewrite Hname.
      change (String.eqb "kmip.RequestBatchItem" "kmip.RequestBatchItem") with true. cbv iota.
      unfold conf_request_item. rewrite Hce, Ht0, Ht1, Hm2, Hz0, Hz1, Hz2, Hz3, H12, P3, (keeps_of_conf _ _ _ _ _ E3), Et3. reflexivity.
    - intros Hc. destruct (Hw Hc) as (Hsub & Hc' & Ht). split; [exact Hc'|].
      destruct (Rop Hsub) as [Hc1 Iop]. destruct (Rid Hc1) as [Hc2 Iid]. destruct (Rpl Hc2) as [Hc3 Ipl]. destruct (Rext Hc3) as [_ Iext].
      cbn [forallb item_ok]. unfold tag_rng in Ht. rewrite Ht. cbn [andb]. rewrite andb_true_r.
      cbn [app forallb]. rewrite Iop. cbn [andb]. rewrite !forallb_app, Iid, Ipl, Iext. reflexivity.
  Qed.
End RI.
