(** C02, typed targets: the typed decoder of SchemaSem.v never returns [Panic], for every
    schema accepted by the decidable check of DecSafe.v, every reader format whose scalar
    parsers are total, every cursor, every fuel and every version state.  The real schema
    passes the check (vm_compute), hence kmip_dec / kmip_unmarshal never panic. *)
From Coq Require Import ZArith List Bool String Lia.
From KV Require Import Base BaseProofs Wire Cursor CursorProofs BinCursorProofs Schema SchemaSem SchemaSemEq KmipCodec DecSafe.
From KVGen Require Import KmipSchema.
Import ListNotations.
Open Scope Z_scope.

(** not a panic ([OutOfFuel] allowed: the statement holds for EVERY fuel) *)
Definition np {A} (r : res A) : Prop := match r with Panic => False | _ => True end.

Lemma np_neq {A} (r : res A) : np r <-> r <> Panic.
Proof. destruct r; cbn [np]; split; intros H; try exact I; try discriminate; try contradiction; try (apply H; reflexivity). Qed.

Lemma np_cases {A} (r : res A) : np r <-> ((exists a, r = Ok a) \/ r = Err \/ r = OutOfFuel).
Proof.
  destruct r; cbn [np]; split; intros H; try exact I; try contradiction.
  - left. eexists. reflexivity.
  - right. left. reflexivity.
  - destruct H as [[a H]|[H|H]]; discriminate.
  - right. right. reflexivity.
Qed.

Lemma np_bind {A B} (r : res A) (f : A -> res B) : np r -> (forall a, np (f a)) -> np (bind r f).
Proof. destruct r; cbn [np bind]; intros H Hf; try exact H. apply Hf. Qed.

Lemma np_safe {A} (P : A -> Prop) (r : res A) : safe_res P r -> np r.
Proof. destruct r; cbn [safe_res np]; auto. Qed.

Lemma find_tdef_some S n d : find_tdef S n = Some d -> In d S /\ t_name d = n.
Proof.
  induction S as [|x r IH]; cbn [find_tdef]; [discriminate|].
  destruct (String.eqb (t_name x) n) eqn:E.
  - intros [= <-]. split; [left; reflexivity | apply String.eqb_eq, E].
  - intros H. destruct (IH H) as [Hin Hn]. split; [right; exact Hin | exact Hn].
Qed.

Ltac split_andb :=
  repeat match goal with
  | H : (_ && _)%bool = true |- _ => apply andb_true_iff in H; destruct H
  end.

Section Cursor.
  Context {R : Type}.
  Variable F : rawfmt R.
  Hypothesis HF : fmt_total F.

  Lemma c_scalar_np {A} ty (parse : R -> res A) tag (c : cur R) :
    (forall raw, nopanic (parse raw)) -> np (c_scalar ty parse tag c).
  Proof. intros Hp. eapply np_safe. apply c_scalar_safe. exact Hp. Qed.

  Lemma c_struct_np {A} tag (f : cur R -> res (A * cur R)) c :
    (forall sub, np (f sub)) -> np (c_struct F tag f c).
  Proof.
    intros Hf. unfold c_struct, c_expect. destruct c as [[|e rest] bad]; cbn [fst snd bind]; [exact I|].
    destruct e as [t y raw kids kb]. destruct (negb (t =? tag)); [exact I|]. destruct (negb (y =? T_STRUCT)); [exact I|].
    cbn [bind]. apply np_bind; [eapply np_safe; apply c_open_safe|]. intros sub.
    apply np_bind; [apply Hf|]. intros r. destruct (strict_close F && snd (snd r))%bool; [exact I|].
    apply np_bind; [eapply np_safe; apply (c_next_safe (RE t y raw kids kb :: rest, bad))|]. intros c'. exact I.
  Qed.

  Lemma c_text_np tag c : np (c_text F tag c).
  Proof. apply c_scalar_np, HF. Qed.
  Lemma c_integer_np tag c : np (c_integer F tag c).
  Proof. apply c_scalar_np, HF. Qed.
  Lemma c_bytes_np tag c : np (c_bytes F tag c).
  Proof. apply c_scalar_np, HF. Qed.

  Lemma dec_scalar_np k tag c : np (dec_scalar F k tag c).
  Proof.
    destruct k; cbn [dec_scalar]; unfold c_integer, c_long, c_big, c_enum, c_bool, c_text, c_bytes, c_date, c_intv, c_mask;
      (apply np_bind; [apply c_scalar_np; intros; apply HF|]); intros r; try destruct (fst r <? 0); exact I.
  Qed.

  (** the generic tree decoder (ttlv.Value / ttlv.Struct), for every fuel *)
  Lemma dec_value_np fuel :
    (forall tag c, np (dec_value F fuel tag c)) /\ (forall c, np (dec_fields F fuel c)).
  Proof.
    induction fuel as [|f [IHv IHf]]; [split; intros; exact I|].
    split.
    - intros tag c. cbn [dec_value].
      unfold c_integer, c_long, c_big, c_enum, c_bool, c_text, c_bytes, c_date, c_intv, c_mask.
      repeat match goal with |- np (if ?b then _ else _) => destruct b end; try exact I;
        (apply np_bind; [|intros; exact I]); try (apply c_scalar_np; intros; apply HF).
      apply c_struct_np. exact IHf.
    - intros c. cbn [dec_fields]. destruct (c_tag c =? 0); [exact I|].
      apply np_bind; [apply IHv|]. intros r. apply np_bind; [apply IHf|]. intros rs. exact I.
  Qed.

  Lemma wrap_struct_np n tag c body : (forall sub, np (body sub)) -> np (wrap_struct F n tag c body).
  Proof.
    intros Hb. unfold wrap_struct. apply np_bind; [|intros; exact I].
    apply c_struct_np. intros sub. apply np_bind; [apply Hb|]. intros; exact I.
  Qed.
End Cursor.

Section Safe.
  Variable S : schema.
  Variable OPS : op_table.
  Variable ATTRS : attr_table.
  Variable OBJS : obj_table.
  Context {R : Type}.
  Variable F : rawfmt R.
  Hypothesis HF : fmt_total F.
  Hypothesis HS : dec_safe_schema S OPS ATTRS OBJS = true.

  Local Notation decodable := (DecSafe.decodable S).

  Lemma HS_all : forall d, In d S -> td_safe S d = true.
  Proof. unfold dec_safe_schema in HS. split_andb. apply forallb_forall. assumption. Qed.

  Lemma HS_ops : forall op rq rs, lookup_op OPS op = Some (rq, rs) ->
    decodable (TNamed rq) = true /\ decodable (TNamed rs) = true.
  Proof.
    unfold dec_safe_schema in HS. split_andb. intros op rq rs. unfold lookup_op.
    destruct (find _ OPS) as [e|] eqn:E; [|discriminate]. intros [= He].
    apply find_some in E. destruct E as [Hin _].
    match goal with H : forallb _ OPS = true |- _ => rewrite forallb_forall in H; specialize (H e Hin) end.
    rewrite He in *. cbn [fst snd] in *. split_andb. split; assumption.
  Qed.

  Lemma HS_objs : forall ot n, lookup_obj OBJS ot = Some n -> decodable (TNamed n) = true.
  Proof.
    unfold dec_safe_schema in HS. split_andb. intros ot n. unfold lookup_obj.
    destruct (find _ OBJS) as [e|] eqn:E; [|discriminate]. intros [= He].
    apply find_some in E. destruct E as [Hin _].
    match goal with H : forallb _ OBJS = true |- _ => rewrite forallb_forall in H; specialize (H e Hin) end.
    rewrite He in *. assumption.
  Qed.

  Lemma attr_ty_decodable name : decodable (attr_ty ATTRS name) = true.
  Proof.
    unfold attr_ty. destruct (attr_is_custom name); [reflexivity|].
    unfold lookup_attr. destruct (find _ ATTRS) as [e|] eqn:E; [|reflexivity].
    apply find_some in E. destruct E as [Hin _].
    unfold dec_safe_schema in HS. split_andb.
    match goal with H : forallb _ ATTRS = true |- _ => rewrite forallb_forall in H; exact (H e Hin) end.
  Qed.

  (** a decodable struct name resolves to a definition that passes the per-definition check *)
  Lemma decodable_named n :
    String.eqb n "ttlv.Value" = false -> String.eqb n "ttlv.Struct" = false ->
    decodable (TNamed n) = true ->
    exists d l, find_tdef S n = Some d /\ td_types S d = Some l /\ forallb decodable l = true.
  Proof.
    intros E1 E2 H. cbn [DecSafe.decodable] in H. rewrite E1, E2 in H. cbn [orb] in H.
    apply andb_true_iff in H. destruct H as [Hh Hf].
    destruct (find_tdef S n) as [d|] eqn:Efind; [|discriminate].
    destruct (find_tdef_some _ _ _ Efind) as [Hin Hn].
    pose proof (HS_all d Hin) as Hsafe. unfold td_safe in Hsafe. rewrite Hn in Hsafe.
    apply negb_true_iff in Hh. rewrite Hh in Hsafe. cbn [orb] in Hsafe.
    destruct (td_types S d) as [l|] eqn:Et; [|discriminate].
    exists d, l. split; [reflexivity|]. split; [exact Et | exact Hsafe].
  Qed.

  (** ---- the hand-written decoders, over any recursive decoders that do not panic on
      decodable types *)
  Section CustomsSafe.
    Variable dty : vstate -> ty -> Z -> cur R -> @dres R.
    Variable dopt : vstate -> ty -> Z -> cur R -> @dres R.
    Variable dobj : vstate -> Z -> cur R -> @dres R.
    Variable dtrees : cur R -> res (list item * cur R).
    Hypothesis Hdty : forall st t tag c, decodable t = true -> np (dty st t tag c).
    Hypothesis Hdopt : forall st t tag c, decodable t = true -> np (dopt st t tag c).
    Hypothesis Hdobj : forall st ot c, np (dobj st ot c).
    Hypothesis Hdtrees : forall c, np (dtrees c).

    Ltac step :=
      first [ exact I
            | apply Hdty; assumption
            | apply Hdopt; assumption
            | apply Hdobj
            | apply np_bind; [|intros ?] ].

    Lemma dec_payload_np st side opv tag c : np (dec_payload OPS F dty dtrees st side opv tag c).
    Proof.
      unfold dec_payload. destruct (lookup_op OPS opv) as [[rq rs]|] eqn:E.
      - destruct (HS_ops _ _ _ E) as [Hq Hs]. apply np_bind; [|intros; exact I].
        apply Hdty. destruct side; assumption.
      - apply np_bind; [|intros; exact I]. apply c_struct_np. exact Hdtrees.
    Qed.

    Lemma dec_request_item_np st d tag c :
      forallb decodable [fty d 0; fty d 1; fty d 3] = true ->
      np (dec_request_item OPS F dty dopt dtrees st d tag c).
    Proof.
      intros H. cbn [forallb] in H. split_andb.
      unfold dec_request_item. apply wrap_struct_np. intros c0.
      step; [step|]. step; [step|]. step; [apply dec_payload_np|]. step; [step|]. step.
    Qed.

    Lemma dec_response_item_np st d tag c :
      forallb decodable [fty d 0; fty d 1; fty d 2; fty d 3; fty d 4; fty d 5; fty d 7] = true ->
      np (dec_response_item OPS F dty dopt dtrees st d tag c).
    Proof.
      intros H. cbn [forallb] in H. split_andb.
      unfold dec_response_item. apply wrap_struct_np. intros c0.
      step; [step|]. step; [step|]. step; [step|]. step; [step|]. step; [step|]. step; [step|].
      cbv zeta. step.
      { destruct (_ && _)%bool; [apply dec_payload_np | exact I]. }
      step; [step|]. step.
    Qed.

    Lemma dec_credential_np st d tag c l :
      cred_types S = Some l -> forallb decodable (fty d 0 :: l) = true ->
      np (dec_credential S F dty st d tag c).
    Proof.
      unfold cred_types. destruct (find_tdef S "kmip.CredentialValue") as [cv|] eqn:Ecv; [|discriminate].
      intros [= <-] H. cbn [forallb] in H. split_andb.
      unfold dec_credential. apply wrap_struct_np. intros c0.
      step; [step|]. cbv zeta. rewrite Ecv.
      destruct (_ =? 1); [step; [step|step]|].
      destruct (_ =? 2); [step; [step|step]|].
      destruct (_ =? 3); [step; [step|step]|]. exact I.
    Qed.

    Lemma dec_key_value_np st fmtv tag c l :
      keyval_types S = Some l -> forallb decodable l = true ->
      np (dec_key_value S F dty st fmtv tag c).
    Proof.
      unfold keyval_types.
      destruct (find_tdef S "kmip.PlainKeyValue") as [pkv|] eqn:Epkv; [|discriminate].
      destruct (find_tdef S "kmip.KeyMaterial") as [km|] eqn:Ekm; [|discriminate].
      intros [= <-] H. cbn [forallb map seq] in H. split_andb.
      unfold dec_key_value.
      destruct (c_type c =? T_BYTES); [step; [apply c_bytes_np, HF | exact I]|].
      destruct (c_type c =? T_STRUCT); [|exact I].
      rewrite Epkv, Ekm. step; [|exact I]. apply c_struct_np. intros sub.
      unfold key_slot.
      repeat match goal with |- np (match (if ?b then _ else _) with _ => _ end) => destruct b end;
        try exact I; (step; [step|]; cbv zeta; step; [step|]; step).
    Qed.

    Lemma dec_key_block_np st d tag c l :
      keyval_types S = Some l ->
      forallb decodable ([fty d 0; fty d 1; fty d 3; fty d 4; fty d 5] ++ l) = true ->
      np (dec_key_block S F dty dopt st d tag c).
    Proof.
      intros Hl H. cbn [app forallb] in H. split_andb.
      unfold dec_key_block. apply wrap_struct_np. intros c0.
      step; [step|]. step; [step|]. cbv zeta. step.
      { destruct (_ =? _); [eapply dec_key_value_np; eassumption | exact I]. }
      step; [step|]. step; [step|]. step; [step|]. step.
    Qed.

    Lemma dec_attribute_np st d tag c : np (dec_attribute ATTRS F dty st d tag c).
    Proof.
      unfold dec_attribute. apply wrap_struct_np. intros c0.
      step; [apply c_text_np, HF|]. step.
      { destruct (_ =? _); [|exact I]. step; [apply c_integer_np, HF | exact I]. }
      cbv zeta. step; [apply Hdty, attr_ty_decodable|]. step.
    Qed.

    Lemma dec_get_response_np st d tag c :
      forallb decodable [fty d 0; fty d 1] = true -> np (dec_get_response F dty dobj st d tag c).
    Proof.
      intros H. cbn [forallb] in H. split_andb.
      unfold dec_get_response. apply wrap_struct_np. intros c0.
      step; [step|]. step; [step|]. step; [step|]. step.
    Qed.

    Lemma dec_register_request_np st d tag c :
      forallb decodable [fty d 0; fty d 1] = true -> np (dec_register_request F dty dobj st d tag c).
    Proof.
      intros H. cbn [forallb] in H. split_andb.
      unfold dec_register_request. apply wrap_struct_np. intros c0.
      step; [step|]. step; [step|]. step; [step|]. step.
    Qed.

    Lemma dec_export_response_np st d tag c :
      forallb decodable [fty d 0; fty d 1; fty d 2] = true -> np (dec_export_response F dty dobj st d tag c).
    Proof.
      intros H. cbn [forallb] in H. split_andb.
      unfold dec_export_response. apply wrap_struct_np. intros c0.
      step; [step|]. step; [step|]. step; [step|]. step; [step|]. step.
    Qed.

    Lemma dec_import_request_np st d tag c :
      forallb decodable [fty d 0; fty d 1; fty d 2; fty d 3] = true ->
      np (dec_import_request S F dty dopt dobj st d tag c).
    Proof.
      intros H. cbn [forallb] in H. split_andb.
      unfold dec_import_request. apply wrap_struct_np. intros c0.
      step; [step|]. step; [step|]. step; [step|]. step; [step|]. cbv zeta.
      match goal with |- np (match ?x with _ => _ end) => destruct x end; [|exact I].
      step; [step|]. step.
    Qed.

    Lemma dec_custom_np st d tag c l :
      custom_types S d = Some l -> forallb decodable l = true ->
      np (dec_custom_of S OPS ATTRS F dty dopt dobj dtrees st d tag c).
    Proof.
      unfold custom_types, dec_custom_of. cbv zeta.
      destruct (String.eqb (t_name d) "kmip.RequestBatchItem"); [intros [= <-]; apply dec_request_item_np|].
      destruct (String.eqb (t_name d) "kmip.ResponseBatchItem"); [intros [= <-]; apply dec_response_item_np|].
      destruct (String.eqb (t_name d) "kmip.Credential").
      { destruct (cred_types S) as [l'|] eqn:E; [|discriminate]. intros [= <-]. eapply dec_credential_np; exact E. }
      destruct (String.eqb (t_name d) "kmip.KeyBlock").
      { destruct (keyval_types S) as [l'|] eqn:E; [|discriminate]. intros [= <-]. eapply dec_key_block_np; exact E. }
      destruct (String.eqb (t_name d) "kmip.Attribute"); [intros _ _; apply dec_attribute_np|].
      destruct (String.eqb (t_name d) "payloads.GetResponsePayload"); [intros [= <-]; apply dec_get_response_np|].
      destruct (String.eqb (t_name d) "payloads.RegisterRequestPayload"); [intros [= <-]; apply dec_register_request_np|].
      destruct (String.eqb (t_name d) "payloads.ExportResponsePayload"); [intros [= <-]; apply dec_export_response_np|].
      destruct (String.eqb (t_name d) "payloads.ImportRequestPayload"); [intros [= <-]; apply dec_import_request_np|].
      discriminate.
    Qed.
  End CustomsSafe.

  Local Notation dec_ty := (SchemaSem.dec_ty S OPS ATTRS OBJS F).
  Local Notation dec_slice := (SchemaSem.dec_slice S OPS ATTRS OBJS F).
  Local Notation dec_fields_s := (SchemaSem.dec_fields_s S OPS ATTRS OBJS F).
  Local Notation dec_opt := (SchemaSem.dec_opt S OPS ATTRS OBJS F).
  Local Notation dec_object := (SchemaSem.dec_object S OPS ATTRS OBJS F).

  (** the mutual induction on fuel *)
  Lemma dec_all_np fuel :
    (forall st t tag c, decodable t = true -> np (dec_ty fuel st t tag c)) /\
    (forall st t tag c, decodable t = true -> np (dec_slice fuel st t tag c)) /\
    (forall st fl c, fields_ok S fl = true -> np (dec_fields_s fuel st fl c)) /\
    (forall st t tag c, decodable t = true -> np (dec_opt fuel st t tag c)) /\
    (forall st ot c, np (dec_object fuel st ot c)).
  Proof.
    induction fuel as [|f (IHty & IHsl & IHfs & IHopt & IHobj)].
    { repeat split; intros; exact I. }
    pose proof (dec_value_np F HF f) as [Hval Htrees].
    split; [|split; [|split; [|split]]].
    - intros st t tag c Ht. rewrite dec_ty_eq. destruct t as [k|t'|t'|n|n].
      + apply np_bind; [apply dec_scalar_np, HF | intros; exact I].
      + cbn [DecSafe.decodable] in Ht. destruct (negb (c_tag c =? tag)); [exact I|].
        apply np_bind; [apply IHty, Ht | intros; exact I].
      + cbn [DecSafe.decodable] in Ht. apply np_bind; [apply IHsl, Ht | intros; exact I].
      + destruct (String.eqb n "ttlv.Value") eqn:E1; [apply np_bind; [apply Hval | intros; exact I]|].
        destruct (String.eqb n "ttlv.Struct") eqn:E2.
        { apply np_bind; [apply c_struct_np, Htrees | intros; exact I]. }
        destruct (decodable_named n E1 E2 Ht) as (d & l & Efind & Etypes & Hl).
        rewrite Efind. unfold td_types in Etypes. destruct (t_custom_dec d).
        * eapply dec_custom_np; eauto.
        * destruct (tags_ok (t_fields d)) eqn:Etags; [|discriminate]. injection Etypes as <-.
          apply np_bind; [|intros; exact I]. apply c_struct_np. intros sub.
          apply np_bind; [|intros; exact I]. apply IHfs. unfold fields_ok. rewrite Etags, Hl. reflexivity.
      + discriminate Ht.
    - intros st t tag c Ht. rewrite dec_slice_eq. destruct (negb (c_tag c =? tag)); [exact I|].
      apply np_bind; [apply IHty, Ht|]. intros a. apply np_bind; [apply IHsl, Ht|]. intros; exact I.
    - intros st fl c Hfl. rewrite dec_fields_s_eq. destruct fl as [|fd fl']; [exact I|].
      unfold fields_ok, tags_ok in Hfl. cbn [forallb map] in Hfl. split_andb.
      apply np_bind.
      + destruct (f_tag fd =? 0); [discriminate|].
        destruct (_ && _)%bool; [exact I|]. destruct (_ && _)%bool; [exact I|]. apply IHty. assumption.
      + intros a. cbv zeta. apply np_bind; [|intros; exact I]. apply IHfs.
        unfold fields_ok, tags_ok. apply andb_true_iff. split; assumption.
    - intros st t tag c Ht. rewrite dec_opt_eq. destruct (c_tag c =? tag); [apply IHty, Ht | exact I].
    - intros st ot c. rewrite dec_object_eq. destruct (lookup_obj OBJS ot) as [n|] eqn:E; [|exact I].
      apply np_bind; [|intros; exact I]. apply IHty. exact (HS_objs _ _ E).
  Qed.

  Theorem dec_ty_np : forall fuel st t tag c, decodable t = true -> np (dec_ty fuel st t tag c).
  Proof. intros fuel. exact (proj1 (dec_all_np fuel)). Qed.
  Theorem dec_slice_np : forall fuel st t tag c, decodable t = true -> np (dec_slice fuel st t tag c).
  Proof. intros fuel. exact (proj1 (proj2 (dec_all_np fuel))). Qed.
  Theorem dec_fields_s_np : forall fuel st fl c, fields_ok S fl = true -> np (dec_fields_s fuel st fl c).
  Proof. intros fuel. exact (proj1 (proj2 (proj2 (dec_all_np fuel)))). Qed.
  Theorem dec_opt_np : forall fuel st t tag c, decodable t = true -> np (dec_opt fuel st t tag c).
  Proof. intros fuel. exact (proj1 (proj2 (proj2 (proj2 (dec_all_np fuel))))). Qed.
  Theorem dec_object_np : forall fuel st ot c, np (dec_object fuel st ot c).
  Proof. intros fuel. exact (proj2 (proj2 (proj2 (proj2 (dec_all_np fuel))))). Qed.

End Safe.

(** ---- the statements in the form asked for *)
Theorem dec_ty_never_panics : forall S OPS ATTRS OBJS {R} (F : rawfmt R), fmt_total F ->
  dec_safe_schema S OPS ATTRS OBJS = true ->
  forall fuel st t tag c, decodable S t = true -> dec_ty S OPS ATTRS OBJS F fuel st t tag c <> Panic.
Proof. intros. apply np_neq. eapply dec_ty_np; eassumption. Qed.

Theorem dec_slice_never_panics : forall S OPS ATTRS OBJS {R} (F : rawfmt R), fmt_total F ->
  dec_safe_schema S OPS ATTRS OBJS = true ->
  forall fuel st t tag c, decodable S t = true -> dec_slice S OPS ATTRS OBJS F fuel st t tag c <> Panic.
Proof. intros. apply np_neq. eapply dec_slice_np; eassumption. Qed.

Theorem dec_fields_s_never_panics : forall S OPS ATTRS OBJS {R} (F : rawfmt R), fmt_total F ->
  dec_safe_schema S OPS ATTRS OBJS = true ->
  forall fuel st fl c, fields_ok S fl = true -> dec_fields_s S OPS ATTRS OBJS F fuel st fl c <> Panic.
Proof. intros. apply np_neq. eapply dec_fields_s_np; eassumption. Qed.

Theorem dec_opt_never_panics : forall S OPS ATTRS OBJS {R} (F : rawfmt R), fmt_total F ->
  dec_safe_schema S OPS ATTRS OBJS = true ->
  forall fuel st t tag c, decodable S t = true -> dec_opt S OPS ATTRS OBJS F fuel st t tag c <> Panic.
Proof. intros. apply np_neq. eapply dec_opt_np; eassumption. Qed.

Theorem dec_object_never_panics : forall S OPS ATTRS OBJS {R} (F : rawfmt R), fmt_total F ->
  dec_safe_schema S OPS ATTRS OBJS = true ->
  forall fuel st ot c, dec_object S OPS ATTRS OBJS F fuel st ot c <> Panic.
Proof. intros. apply np_neq. eapply dec_object_np; eassumption. Qed.

(** every hand-written decoder, started (as dec_ty does) on the typed decoder one fuel unit
    down, on a definition that passes the check *)
Theorem dec_custom_never_panics : forall S OPS ATTRS OBJS {R} (F : rawfmt R), fmt_total F ->
  dec_safe_schema S OPS ATTRS OBJS = true ->
  forall f st d tag c, In d S -> t_custom_dec d = true -> is_hand_only (t_name d) = false ->
  dec_custom_of S OPS ATTRS F (dec_ty S OPS ATTRS OBJS F f) (dec_opt S OPS ATTRS OBJS F f)
    (dec_object S OPS ATTRS OBJS F f) (dec_fields F f) st d tag c <> Panic.
Proof.
  intros S OPS ATTRS OBJS R F HF HS f st d tag c Hin Hc Hh. apply np_neq.
  pose proof (HS_all S OPS ATTRS OBJS HS d Hin) as Hsafe. unfold td_safe, td_types in Hsafe.
  rewrite Hh, Hc in Hsafe. cbn [orb] in Hsafe.
  destruct (custom_types S d) as [l|] eqn:E; [|discriminate].
  eapply dec_custom_np; try eassumption.
  - intros. eapply dec_ty_np; eassumption.
  - intros. eapply dec_opt_np; eassumption.
  - intros. eapply dec_object_np; eassumption.
  - apply (dec_value_np F HF f).
Qed.

(** termination in the model's terms: a value, an error, or not enough fuel *)
Theorem dec_ty_outcomes : forall S OPS ATTRS OBJS {R} (F : rawfmt R), fmt_total F ->
  dec_safe_schema S OPS ATTRS OBJS = true ->
  forall fuel st t tag c, decodable S t = true ->
  (exists r, dec_ty S OPS ATTRS OBJS F fuel st t tag c = Ok r) \/
  dec_ty S OPS ATTRS OBJS F fuel st t tag c = Err \/
  dec_ty S OPS ATTRS OBJS F fuel st t tag c = OutOfFuel.
Proof. intros. apply np_cases. eapply dec_ty_np; eassumption. Qed.

(** ---- the real schema *)
Lemma kmip_schema_dec_safe : dec_safe_schema kmip_schema kmip_ops kmip_attrs kmip_objs = true.
Proof. vm_compute. reflexivity. Qed.

Lemma kmip_roots_decodable :
  decodable kmip_schema (TNamed "kmip.RequestMessage") = true /\
  decodable kmip_schema (TNamed "kmip.ResponseMessage") = true.
Proof. vm_compute. split; reflexivity. Qed.

(** the definitions exempted from the per-definition check, and nothing else fails it *)
Lemma kmip_schema_exempt :
  map t_name (filter (fun d => is_hand_only (t_name d)) kmip_schema) =
    ["kmip.CredentialValue"; "kmip.KeyMaterial"; "kmip.KeyValue"; "kmip.PlainKeyValue"; "kmip.UnknownPayload"]%string
  /\ unsafe_names kmip_schema = [].
Proof. vm_compute. split; reflexivity. Qed.

(** ttlv.Unmarshal{TTLV,XML,JSON}(…, &msg) for any type of the schema, over any total format *)
Theorem kmip_dec_never_panics : forall {R} (F : rawfmt R), fmt_total F ->
  forall root c, decodable kmip_schema (TNamed root) = true ->
  String.eqb root "ttlv.Value" = false -> String.eqb root "ttlv.Struct" = false ->
  kmip_dec F root c <> Panic.
Proof.
  intros R F HF root c Hd E1 E2. apply np_neq. unfold kmip_dec.
  destruct (decodable_named kmip_schema kmip_ops kmip_attrs kmip_objs kmip_schema_dec_safe root E1 E2 Hd)
    as (d & l & Efind & _). rewrite Efind.
  apply np_bind; [|intros; exact I].
  eapply dec_ty_np; [exact HF | exact kmip_schema_dec_safe | exact Hd].
Qed.

Theorem kmip_unmarshal_never_panics : forall root bs,
  (root = "kmip.RequestMessage" \/ root = "kmip.ResponseMessage")%string ->
  bytes_ok bs = true -> kmip_unmarshal root bs <> Panic.
Proof.
  intros root bs Hroot _. apply np_neq. unfold kmip_unmarshal.
  apply np_bind; [unfold bin_cursor; eapply np_safe; apply c_open_safe|]. intros c.
  apply np_neq. destruct kmip_roots_decodable as [Hq Hs].
  destruct Hroot as [-> | ->]; apply kmip_dec_never_panics; try exact bin_fmt_total; try assumption; reflexivity.
Qed.

Theorem kmip_unmarshal_outcomes : forall root bs,
  (root = "kmip.RequestMessage" \/ root = "kmip.ResponseMessage")%string ->
  bytes_ok bs = true ->
  (exists v, kmip_unmarshal root bs = Ok v) \/ kmip_unmarshal root bs = Err \/ kmip_unmarshal root bs = OutOfFuel.
Proof. intros root bs Hr Hb. apply np_cases, np_neq. exact (kmip_unmarshal_never_panics root bs Hr Hb). Qed.

(** ---- the same typed decoder over the XML and JSON readers (TextFmt.v): their scalar
    parsers return on every raw value (TextFmtProofs.xml_fmt_total / json_fmt_total), so
    ttlv.UnmarshalXML / UnmarshalJSON into a message never panic on any document, for any
    enumeration / tag registry [G]. *)
From KV Require TextLex TextFmt TextFmtProofs.

Lemma returns_nopanic {A} (r : res A) : TextLex.returns r -> nopanic r.
Proof. destruct r; cbn; auto. Qed.

Lemma text_fmt_total {R} (F : rawfmt R) : TextFmtProofs.fmt_total F -> fmt_total F.
Proof. intros [a b c d e f g h i j]. constructor; intros; apply returns_nopanic; auto. Qed.

Theorem kmip_unmarshal_xml_never_panics : forall G root doc cut,
  (root = "kmip.RequestMessage" \/ root = "kmip.ResponseMessage")%string ->
  kmip_unmarshal_xml G root doc cut <> Panic.
Proof.
  intros G root doc cut Hroot. apply np_neq. unfold kmip_unmarshal_xml.
  apply np_bind.
  { unfold TextFmt.xml_cursor. destruct doc; [exact I|]. eapply np_safe; apply c_open_safe. }
  intros c. apply np_neq. destruct kmip_roots_decodable as [Hq Hs].
  destruct Hroot as [-> | ->]; apply kmip_dec_never_panics;
    try (apply text_fmt_total, TextFmtProofs.xml_fmt_total); try assumption; reflexivity.
Qed.

Theorem kmip_unmarshal_json_never_panics : forall G root doc,
  (root = "kmip.RequestMessage" \/ root = "kmip.ResponseMessage")%string ->
  kmip_unmarshal_json G root doc <> Panic.
Proof.
  intros G root doc Hroot. apply np_neq. unfold kmip_unmarshal_json.
  apply np_bind; [unfold TextFmt.json_cursor; eapply np_safe; apply c_open_safe|].
  intros c. apply np_neq. destruct kmip_roots_decodable as [Hq Hs].
  destruct Hroot as [-> | ->]; apply kmip_dec_never_panics;
    try (apply text_fmt_total, TextFmtProofs.json_fmt_total); try assumption; reflexivity.
Qed.
