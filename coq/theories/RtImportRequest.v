(** Round trip of payloads.ImportRequestPayload (payloads/import_export.go): reflective
    encoder; the hand-written decoder reads the identifier, two optional scalars with d.Opt,
    the attributes, and then the managed object whose type it finds in the "Object Type"
    attribute it has just decoded. *)
From Coq Require Import ZArith List Bool String Lia PeanoNat.
From KV Require Import Base BaseProofs Wire WireProofs Cursor CursorProofs Schema SchemaSem SchemaSemEq FaithfulProofs
  Roundtrip RoundtripEq RoundtripProofs RtCustomLib RtObject.
Import ListNotations.
Open Scope Z_scope.

Section IR.
  Variable S : schema.
  Variables (OPS : op_table) (ATTRS : attr_table) (OBJS : obj_table).
  Context {R : Type}.
  Variable F : rawfmt R.

  Local Notation enc_ty := (enc_ty S).
  Local Notation enc_fields := (enc_fields S).
  Local Notation dec_ty := (dec_ty S OPS ATTRS OBJS F).
  Local Notation dec_opt := (dec_opt S OPS ATTRS OBJS F).
  Local Notation dec_object := (dec_object S OPS ATTRS OBJS F).
  Local Notation conf_ty := (conf_ty S OPS ATTRS OBJS).
  Local Notation Q := (Q S OPS ATTRS OBJS F).
  Local Notation RT_concl := (RT_concl S OPS ATTRS OBJS F).

  (** the reflective encoder at a field with a real tag and no version wrapper *)
  Lemma enc_field_pos g st fd x fl vl : pos_field fd = true ->
    enc_fields (Datatypes.S g) st (fd :: fl) (x :: vl) =
    do a <- (if f_omit fd && is_zero x then Ok ([], st) else enc_ty g st (f_ty fd) (f_tag fd) x) ;;
    do b <- enc_fields g (snd a) fl vl ;;
    Ok ((fst a ++ fst b)%list, snd b).
  Proof.
    intros Hp. destruct (pos_field_facts fd Hp) as (Ht0 & Hsv & Hr).
    rewrite enc_fields_eq. cbv zeta. rewrite Ht0, Hsv, Hr, version_in_none. reflexivity.
  Qed.

  (** an omitempty scalar read with d.Opt *)
  Lemma opt_scalar_rt g fc st k tag x items st' : Q g ->
    (if is_zero x then Ok ([], st) else enc_ty g st (TScalar k) tag x) = Ok (items, st') ->
    conf_ty fc st (TScalar k) tag x = Some st ->
    (if is_zero x then value_eqb x (zero_of S 8 (TScalar k)) else true) = true ->
    st' = st /\ tags_all tag items /\
    forall (es rest : list (relem R)) fd, faithful F items es -> c_tag (rest, false) <> tag ->
      (g + 2 * items_size items + 2 <= fd)%nat ->
      dec_opt (Datatypes.S fd) st (TScalar k) tag (es ++ rest, false) = Ok (x, (rest, false), st).
  Proof.
    intros HQ He Hc Hz. destruct (is_zero x) eqn:Ez.
    - injection He as <- <-. apply value_eqb_eq in Hz. split; [reflexivity|]. split; [constructor|].
      intros es rest fd Hf Hnext _. apply faithful_nil_inv in Hf. subst es. cbn [app].
      rewrite (dec_opt_absent S OPS ATTRS OBJS F) by assumption. rewrite <- Hz. reflexivity.
    - destruct (Q_ty S OPS ATTRS OBJS F _ g HQ (Nat.le_refl _) _ _ _ _ _ _ _ _ He Hc) as (<- & Hta & Hone & _ & Hdec).
      split; [reflexivity|]. split; [exact Hta|].
      destruct (Hone eq_refl) as [i ->].
      intros es rest fd Hf Hnext Hfd. pose proof Hf as Hf0. apply faithful_one_inv in Hf. destruct Hf as (e & -> & He1).
      rewrite (dec_opt_present S OPS ATTRS OBJS F).
      + apply Hdec; [exact Hf0 | discriminate | exact Hfd].
      + cbn [app]. rewrite (faithful1_tag F _ _ _ _ He1). inversion Hta; assumption.
  Qed.

  Ltac str_eqb :=
    repeat match goal with
    | |- context [String.eqb ?a ?b] =>
      let r := eval vm_compute in (String.eqb a b) in change (String.eqb a b) with r
    end.

  Lemma rt_import_request f : Q f -> forall fc st d tag fs items st' sc,
    find_tdef S (t_name d) = Some d -> t_custom_dec d = true ->
    t_name d = "payloads.ImportRequestPayload"%string ->
    enc_ty (Datatypes.S f) st (TNamed (t_name d)) tag (VStruct (t_name d) fs) = Ok (items, st') ->
    conf_import_request S OBJS (conf_ty fc) st d tag fs = Some sc ->
    RT_concl (Datatypes.S f) st (TNamed (t_name d)) tag (VStruct (t_name d) fs) items st' sc.
  Proof.
    intros HQ fc st d tag fs items st' sc Ed Hcd Hname He Hc.
    assert (EV : String.eqb (t_name d) "ttlv.Value" = false) by (rewrite Hname; reflexivity).
    assert (ES : String.eqb (t_name d) "ttlv.Struct" = false) by (rewrite Hname; reflexivity).
    unfold conf_import_request in Hc.
    destruct (t_fields d) as [|f0 [|f1 [|f2 [|f3 [|f4 [|? ?]]]]]] eqn:Et; try discriminate.
    destruct fs as [|uid [|rep [|kwt [|[| | | | | |attrs| | |] [|obj [|? ?]]]]]]; try discriminate.
    cbv zeta in Hc.
    set (objtag := match find_tdef S "payloads.GetResponsePayload" with Some g => ftag g 0 | None => 0 end) in *.
    destruct (import_object_type objtag attrs) as [ot|] eqn:Eiot; [|discriminate].
    match type of Hc with (if ?c then _ else _) = _ => destruct c eqn:Hcond; [|discriminate] end.
    injection Hc as <-.
    rewrite !andb_true_iff in Hcond.
    destruct Hcond as (((((((((((((((((((Hce & Hp0) & Hp1) & Hp2) & Hp3) & Ho0) & Ho1) & Ho2) & Ho3) & Ht4) & Hty4) & Htys) & Hdist)
                          & Hk0) & Hk1) & Hk2) & Hk3) & Hz1) & Hz2) & Hobj).
    apply negb_true_iff in Hce, Ho0, Ho3. apply keeps_some in Hk0, Hk1, Hk2, Hk3.
    destruct (f_ty f0) as [k0| | | |] eqn:Ety0; try discriminate.
    destruct (f_ty f1) as [k1| | | |] eqn:Ety1; try discriminate.
    destruct (f_ty f2) as [k2| | | |] eqn:Ety2; try discriminate.
    destruct (f_ty f3) as [| |t3| |] eqn:Ety3; try discriminate. clear Htys.
    (* tag distinctness *)
    cbn [tags_distinct forallb] in Hdist. rewrite !andb_true_iff in Hdist.
    destruct Hdist as ((_ & (D01 & D02 & D03 & D0o & _)) & (_ & (D12 & D13 & D1o & _)) & (_ & (D23 & D2o & _)) & (_ & (D3o & _)) & _).
    apply negb_true_iff in D01, D02, D03, D0o, D12, D13, D1o, D23, D2o, D3o.
    apply Z.eqb_neq in D01, D02, D03, D0o, D12, D13, D1o, D23, D2o, D3o.
    (* the encoder *)
    rewrite enc_ty_eq, EV, ES, Ed, Hce, Et in He.
    destruct f as [|g0]; [discriminate|]. rewrite (enc_field_pos _ _ _ _ _ _ Hp0), Ho0, Ety0 in He. cbn [andb] in He.
    destruct (enc_ty g0 st (TScalar k0) (f_tag f0) uid) as [[a0 s0]| | |] eqn:E0; cbn [bind fst snd] in He; try discriminate.
    destruct g0 as [|g1]; [discriminate|]. rewrite (enc_field_pos _ _ _ _ _ _ Hp1), Ho1, Ety1 in He. cbn [andb] in He.
    assert (HQ0 : Q (Datatypes.S g1)) by (intros g' Hg'; apply HQ; lia).
    destruct (Q_ty S OPS ATTRS OBJS F _ _ HQ0 (Nat.le_refl _) _ _ _ _ _ _ _ _ E0 Hk0) as (<- & Hta0 & Hone0 & _ & Hdec0).
    destruct (Hone0 eq_refl) as [i0 ->].
    destruct (if is_zero rep then Ok ([], st) else enc_ty g1 st (TScalar k1) (f_tag f1) rep) as [[a1 s1]| | |] eqn:E1; cbn [bind fst snd] in He; try discriminate.
    destruct g1 as [|g2]; [discriminate|]. rewrite (enc_field_pos _ _ _ _ _ _ Hp2), Ho2, Ety2 in He. cbn [andb] in He.
    assert (HQ1 : Q (Datatypes.S g2)) by (intros g' Hg'; apply HQ; lia).
    destruct (opt_scalar_rt _ fc st k1 (f_tag f1) rep a1 s1 HQ1 E1 Hk1 Hz1) as (-> & Hta1 & Hdec1).
    destruct (if is_zero kwt then Ok ([], st) else enc_ty g2 st (TScalar k2) (f_tag f2) kwt) as [[a2 s2]| | |] eqn:E2; cbn [bind fst snd] in He; try discriminate.
    destruct g2 as [|g3]; [discriminate|]. rewrite (enc_field_pos _ _ _ _ _ _ Hp3), Ho3, Ety3 in He. cbn [andb] in He.
    assert (HQ2 : Q (Datatypes.S g3)) by (intros g' Hg'; apply HQ; lia).
    destruct (opt_scalar_rt _ fc st k2 (f_tag f2) kwt a2 s2 HQ2 E2 Hk2 Hz2) as (-> & Hta2 & Hdec2).
    destruct (enc_ty g3 st (TSlice t3) (f_tag f3) (VList attrs)) as [[a3 s3]| | |] eqn:E3; cbn [bind fst snd] in He; try discriminate.
    assert (HQ3 : Q g3) by (intros g' Hg'; apply HQ; lia).
    destruct (Q_ty S OPS ATTRS OBJS F _ _ HQ3 (Nat.le_refl _) _ _ _ _ _ _ _ _ E3 Hk3) as (<- & Hta3 & _ & _ & Hdec3).
    destruct g3 as [|g4]; [discriminate|]. rewrite enc_fields_eq, Ht4 in He.
    match type of He with (do _ <- (do _ <- (do _ <- (do _ <- (do _ <- (do _ <- ?m ;; _) ;; _) ;; _) ;; _) ;; _) ;; _) = _ =>
      destruct m as [[io so]| | |] eqn:Eo; cbn [bind fst snd] in He; try discriminate end.
    destruct g4 as [|g5]; [discriminate|]. rewrite enc_fields_eq in He. cbn [bind fst snd] in He. injection He as <- <-.
    assert (HQ4 : Q (Datatypes.S g5)) by (intros g' Hg'; apply HQ; lia).
    destruct (object_rt S OPS ATTRS OBJS F _ fc st ot obj io so HQ4 Eo Hobj) as (-> & Htg0 & io1 & -> & Hio & Hdo).
    (* the conclusion *)
    split; [reflexivity|]. split; [constructor; [reflexivity | constructor]|]. split; [eauto|]. split; [intros; discriminate|].
    intros es rest fd Hf _ Hfd. apply faithful_one_inv in Hf. destruct Hf as (e & -> & He1).
    inversion He1 as [tag0 kids0 raw eks Hk| | | | | | | | | |]; subst tag0 kids0 e.
    cbn [app] in Hk. apply faithful_cons_inv in Hk. destruct Hk as (e0 & ek & -> & Hf0 & Hk).
    apply faithful_app_inv in Hk. destruct Hk as (e1 & ek1 & -> & Hf1 & Hk).
    apply faithful_app_inv in Hk. destruct Hk as (e2 & ek2 & -> & Hf2 & Hk).
    apply faithful_app_inv in Hk. destruct Hk as (e3 & ek3 & -> & Hf3 & Hk).
    apply faithful_one_inv in Hk. destruct Hk as (eo & -> & Hfo).
    unfold items_size at 1 in Hfd. cbn [fold_right] in Hfd. rewrite item_size_struct in Hfd.
    cbn [app] in Hfd. rewrite items_size_cons, !items_size_app, items_size_cons in Hfd.
    destruct fd as [|fd1]; [lia|]. cbn [app].
    rewrite (dec_ty_custom S OPS ATTRS OBJS F fd1 st d tag _ Ed Hcd EV ES).
    unfold dec_custom_of. rewrite Hname. str_eqb. cbv iota.
    unfold dec_import_request. rewrite Hname.
    assert (Y0 : fty d 0 = TScalar k0) by (unfold fty, nth_field; rewrite Et; exact Ety0).
    assert (Y1 : fty d 1 = TScalar k1) by (unfold fty, nth_field; rewrite Et; exact Ety1).
    assert (Y2 : fty d 2 = TScalar k2) by (unfold fty, nth_field; rewrite Et; exact Ety2).
    assert (Y3 : fty d 3 = TSlice t3) by (unfold fty, nth_field; rewrite Et; exact Ety3).
    assert (T0 : ftag d 0 = f_tag f0) by (unfold ftag, nth_field; rewrite Et; reflexivity).
    assert (T1 : ftag d 1 = f_tag f1) by (unfold ftag, nth_field; rewrite Et; reflexivity).
    assert (T2 : ftag d 2 = f_tag f2) by (unfold ftag, nth_field; rewrite Et; reflexivity).
    assert (T3 : ftag d 3 = f_tag f3) by (unfold ftag, nth_field; rewrite Et; reflexivity).
    rewrite Y0, Y1, Y2, Y3, T0, T1, T2, T3.
    apply wrap_struct_ok with (l := []).
    (* tags seen by the look-aheads *)
    assert (Htag_o : c_tag ([eo], false) = object_tag S obj) by (rewrite (faithful1_tag F _ _ _ _ Hfo); exact Hio).
    assert (Htag_3 : forall t, t <> f_tag f3 -> t <> object_tag S obj -> c_tag (e3 ++ [eo], false) <> t).
    { intros t N3 No. destruct a3 as [|i3 a3'].
      - apply faithful_nil_inv in Hf3. subst e3. cbn [app]. rewrite Htag_o. congruence.
      - apply faithful_cons_inv in Hf3. destruct Hf3 as (x3 & el3 & -> & Hx3 & _). cbn [app].
        rewrite (faithful1_tag F _ _ _ _ Hx3). inversion Hta3 as [|? ? Hi3 _]. congruence. }
    assert (Htag_2 : forall t, t <> f_tag f2 -> t <> f_tag f3 -> t <> object_tag S obj -> c_tag (e2 ++ e3 ++ [eo], false) <> t).
    { intros t N2 N3 No. destruct a2 as [|i2 a2'].
      - apply faithful_nil_inv in Hf2. subst e2. cbn [app]. apply Htag_3; assumption.
      - apply faithful_cons_inv in Hf2. destruct Hf2 as (x2 & el2 & -> & Hx2 & _). cbn [app].
        rewrite (faithful1_tag F _ _ _ _ Hx2). inversion Hta2 as [|? ? Hi2 _]. congruence. }
    (* the body, element by element *)
    assert (Hd0 : dec_ty fd1 st (TScalar k0) (f_tag f0) ([e0] ++ (e1 ++ e2 ++ e3 ++ [eo]), false)
                  = Ok (uid, (e1 ++ e2 ++ e3 ++ [eo], false), st)).
    { apply Hdec0; [constructor; [exact Hf0 | constructor] | discriminate |]. unfold items_size. cbn [fold_right]. lia. }
    cbn [app] in Hd0. rewrite Hd0. cbn [bind fst snd].
    destruct fd1 as [|fd2]; [lia|].
    rewrite (Hdec1 e1 (e2 ++ e3 ++ [eo]) fd2 Hf1) by (first [apply Htag_2; congruence | lia]). cbn [bind fst snd].
    rewrite (Hdec2 e2 (e3 ++ [eo]) fd2 Hf2) by (first [apply Htag_3; congruence | lia]). cbn [bind fst snd].
    rewrite (Hdec3 e3 [eo] (Datatypes.S fd2) Hf3) by (first [intros _; rewrite Htag_o; congruence | lia]). cbn [bind fst snd].
    cbv zeta. fold objtag. rewrite Eiot.
    rewrite (Hdo eo [] (Datatypes.S fd2) Hfo) by lia. reflexivity.
  Qed.
End IR.

(** Non-vacuity at the real schema (regenerated from /repo): an Import request with both
    optional elements present, an "Object Type" attribute and a Certificate.  Its binary
    encoding decodes back to it.  Its attribute list conforms only once the kmip.Attribute codec
    is dispatched in [conf_custom_of] (another file); until then conformance is shown for
    everything else: [conf_import_request] over a conformance function that takes the attribute
    list for granted.  The full example (and variants carrying a SymmetricKey with its KeyBlock)
    is kept in the comment below; it holds with all ten codecs dispatched. *)
From KVGen Require Import KmipSchema.
From KV Require Import KmipCodec.

Definition ex_attr_object_type (ot : Z) : value :=
  VStruct "kmip.Attribute" [VStr OBJECT_TYPE_NAME; VNil; VIface (TScalar (KEnum 4325463)) (VInt ot)].
Definition ex_attr_object_group : value :=
  VStruct "kmip.Attribute" [VStr [79; 98; 106; 101; 99; 116; 32; 71; 114; 111; 117; 112]; VPtr (VInt 0); VIface (TScalar KString) (VStr [103; 49])].
Definition ex_import_fields : list value :=
  [VStr [105; 100; 45; 49]; VBool true; VInt 2; VList [ex_attr_object_group; ex_attr_object_type 1];
   VIface (TPtr (TNamed "kmip.Certificate")) (VPtr (VStruct "kmip.Certificate" [VInt 1; VStr [48; 130; 1; 10]]))].
Definition ex_import_request : value := VStruct "payloads.ImportRequestPayload" ex_import_fields.

Definition cty_given_attributes (st : vstate) (t : ty) (tag : Z) (v : value) : option vstate :=
  match t with
  | TSlice (TNamed "kmip.Attribute") => Some st
  | _ => conf_ty kmip_schema kmip_ops kmip_attrs kmip_objs 39 st t tag v
  end.

Example rt_import_request_example :
  (exists sc, conf_import_request kmip_schema kmip_objs cty_given_attributes (Some (1, 4))
                td_payloads_ImportRequestPayload 4325497 ex_import_fields = Some sc) /\
  (do r <- enc_ty kmip_schema 40 (Some (1, 4)) (TNamed "payloads.ImportRequestPayload") 4325497 ex_import_request ;;
   do c <- bin_cursor (wire_enc_list (fst r)) ;;
   do d <- dec_ty kmip_schema kmip_ops kmip_attrs kmip_objs bin_fmt 200 (Some (1, 4)) (TNamed "payloads.ImportRequestPayload") 4325497 c ;;
   Ok (value_eqb (fst (fst d)) ex_import_request && match snd (fst d) with ([], false) => true | _ => false end)) = Ok true.
Proof. split; [eexists; vm_compute; reflexivity | vm_compute; reflexivity]. Qed.
