(** Decoder side of kmip.KeyBlock with KeyValue / PlainKeyValue / KeyMaterial (objects.go):
    reflective encoders writing each alternative under the same tag, hand-written decoder
    choosing the key material by the key format. *)
From Coq Require Import ZArith List Bool String Lia PeanoNat.
From KV Require Import Base BaseProofs Wire WireProofs Cursor CursorProofs Schema SchemaSem SchemaSemEq FaithfulProofs
  Roundtrip RoundtripEq RoundtripProofs RtCustomLib Normalize NormalizeEq DecConfDefs NormProofs DecConfLib DecConfProofs DecConfCustomLib.
Import ListNotations.
Open Scope Z_scope.

Lemma key_slot_lt fmtv k : key_slot fmtv = Some k -> (k < 8)%nat.
Proof.
  unfold key_slot. repeat match goal with |- (if ?b then _ else _) = _ -> _ => destruct b end;
    intros H; try discriminate; injection H as <-; lia.
Qed.

Section KB.
  Variable S : schema.
  Variables (OPS : op_table) (ATTRS : attr_table) (OBJS : obj_table).
  Context {R : Type}.
  Variable F : rawfmt R.
  Variable eok : relem R -> bool.
  Hypothesis HR : fmt_ranged F eok.
  Hypothesis HS : schema_ok S OPS ATTRS OBJS = true.

  Local Notation enc_ty := (enc_ty S).
  Local Notation norm_ty := (norm_ty S).
  Local Notation dec_ty := (dec_ty S OPS ATTRS OBJS F).
  Local Notation dec_opt := (dec_opt S OPS ATTRS OBJS F).
  Local Notation conf_ty := (conf_ty S OPS ATTRS OBJS).
  Local Notation c_ok := (c_ok eok).
  Local Notation Good := (Good S OPS ATTRS OBJS).
  Local Notation Rng := (Rng eok).
  Local Notation DQ := (DQ S OPS ATTRS OBJS F eok).
  Local Notation lib x := (x S OPS ATTRS OBJS _ F eok HR HS) (only parsing).

  (** the key material: one alternative set, the one the key format designates *)
  Definition slots_of (k : nat) (m : value) (i n : nat) : list value :=
    map (fun j => if Nat.eqb j k then m else VNil) (seq i n).

  Lemma conf_slots_map cty st km tagm k m' : keeps cty st (fty km k) tagm m' = true ->
    forall n i, conf_slots cty st km tagm k i (slots_of k m' i n) = true.
  Proof.
    intros Hk. unfold slots_of. induction n as [|n IH]; intros i; cbn [seq map conf_slots]; [reflexivity|].
    rewrite IH, andb_true_r. destruct (Nat.eqb_spec i k) as [->|_]; [exact Hk | reflexivity].
  Qed.

  Lemma slots_same st tagm k m m' im : forall fl i,
    (forall fd, In fd fl -> exists t', f_ty fd = TPtr t') ->
    (forall fd, (i <= k)%nat -> nth_error fl (k - i) = Some fd ->
       exists f0, forall g, (f0 <= g)%nat -> enc_ty g st (f_ty fd) tagm m = Ok (im, st) /\ norm_ty g st (f_ty fd) m = (m', st)) ->
    SameEN S st fl tagm (slots_of k m i (List.length fl))
      (if (i <=? k)%nat && (k <? i + List.length fl)%nat then im else [])
      (slots_of k m' i (List.length fl)).
  Proof.
    unfold slots_of. induction fl as [|fd fl' IH]; intros i Hptr Hen; cbn [List.length seq map].
    - assert (E : (i <=? k)%nat && (k <? i + 0)%nat = false).
      { destruct (Nat.leb_spec i k); [|reflexivity]. destruct (Nat.ltb_spec k (i + 0)); [lia | reflexivity]. }
      rewrite E. apply (lib same_nil).
    - destruct (Nat.eqb_spec i k) as [->|Hne].
      + (* the designated slot *)
        assert (E : (k <=? k)%nat && (k <? k + Datatypes.S (List.length fl'))%nat = true).
        { rewrite Nat.leb_refl. cbn [andb]. apply Nat.ltb_lt. lia. }
        rewrite E. replace im with (im ++ [])%list by apply app_nil_r.
        apply (lib same_cons).
        * apply (Hen fd (Nat.le_refl k)). rewrite Nat.sub_diag. reflexivity.
        * assert (E2 : (Datatypes.S k <=? k)%nat && (k <? Datatypes.S k + List.length fl')%nat = false).
          { destruct (Nat.leb_spec (Datatypes.S k) k); [lia | reflexivity]. }
          assert (Hih : SameEN S st fl' tagm (map (fun j => if Nat.eqb j k then m else VNil) (seq (Datatypes.S k) (List.length fl')))
                          (if (Datatypes.S k <=? k)%nat && (k <? Datatypes.S k + List.length fl')%nat then im else [])
                          (map (fun j => if Nat.eqb j k then m' else VNil) (seq (Datatypes.S k) (List.length fl'))))
            by (apply IH; [intros g Hg; apply Hptr; right; exact Hg | intros g Hle; lia]).
          rewrite E2 in Hih. exact Hih.
      + destruct (Hptr fd (or_introl eq_refl)) as [t' Et].
        assert (E : (i <=? k)%nat && (k <? i + Datatypes.S (List.length fl'))%nat =
                    (Datatypes.S i <=? k)%nat && (k <? Datatypes.S i + List.length fl')%nat).
        { destruct (Nat.leb_spec i k), (Nat.leb_spec (Datatypes.S i) k); cbn [andb]; try lia; try reflexivity.
          destruct (Nat.ltb_spec k (i + Datatypes.S (List.length fl'))), (Nat.ltb_spec k (Datatypes.S i + List.length fl')); try lia; reflexivity. }
        rewrite E. apply (lib same_cons_nil) with (t' := t'); [exact Et|].
        apply IH; [intros g Hg; apply Hptr; right; exact Hg|].
        intros g Hle Hnth. apply (Hen g ltac:(lia)).
        replace (k - i)%nat with (Datatypes.S (k - Datatypes.S i)) by lia. exact Hnth.
  Qed.
  Definition EN (st : vstate) (t : ty) (tag : Z) (x : value) (ix : list item) (x' : value) : Prop :=
    exists f0, forall g, (f0 <= g)%nat -> enc_ty g st t tag x = Ok (ix, st) /\ norm_ty g st t x = (x', st).

  (** KeyValue.decode / PlainKeyValue.decode / KeyMaterial.decode *)
  Lemma dc_key_value f st fmtv tag2 (c2 : cur R) kv c3 s3 kvd pkv km :
    DQ f ->
    find_tdef S "kmip.KeyValue" = Some kvd -> find_tdef S "kmip.PlainKeyValue" = Some pkv -> find_tdef S "kmip.KeyMaterial" = Some km ->
    t_custom_enc kvd = true -> (List.length (t_fields kvd) =? 2)%nat = true ->
    ty_eqb (fty kvd 0) (TPtr (TScalar KBytes)) = true -> ty_eqb (fty kvd 1) (TPtr (TNamed "kmip.PlainKeyValue")) = true ->
    negb (t_custom_enc pkv) = true -> negb (t_custom_dec pkv) = true -> t_custom_enc km = true ->
    (List.length (t_fields pkv) =? 2)%nat = true -> (List.length (t_fields km) =? 8)%nat = true ->
    forallb pos_field (t_fields pkv) = true -> forallb (fun g => negb (f_omit g)) (t_fields pkv) = true ->
    ty_eqb (fty pkv 0) (TNamed "kmip.KeyMaterial") = true ->
    (match fty pkv 1 with TSlice _ => elem_ok S (fty pkv 1) | _ => false end) = true ->
    negb (ftag pkv 0 =? ftag pkv 1) = true ->
    forallb (fun g => alt_ok S (f_ty g)) (t_fields km) = true ->
    dec_key_value S F (dec_ty f) st fmtv tag2 c2 = Ok (kv, c3, s3) ->
    s3 = st /\ exists ikv kv', EN st (TPtr (TNamed "kmip.KeyValue")) tag2 kv ikv kv' /\
      (exists fc, forall g, (fc <= g)%nat -> conf_key_value S (conf_ty g) st fmtv tag2 kv' = true) /\
      Rng c2 c3 ikv.
  Proof.
    intros HQ Ekvd Epkv Ekm Hkce Hklen Hk0 Hk1 Hpce Hpcd Hmce Hplen Hmlen Hppos Hpom Hp0 Hp1 Hp01 Halts H.
    pose proof (ty_eqb_eq _ _ Hk0) as Ek0. pose proof (ty_eqb_eq _ _ Hk1) as Ek1. pose proof (ty_eqb_eq _ _ Hp0) as Ep0.
    destruct (t_fields kvd) as [|q0 [|q1 [|? ?]]] eqn:Hkf; try discriminate.
    assert (Eq0 : f_ty q0 = TPtr (TScalar KBytes)) by (unfold fty, nth_field in Ek0; rewrite Hkf in Ek0; exact Ek0).
    assert (Eq1 : f_ty q1 = TPtr (TNamed "kmip.PlainKeyValue")) by (unfold fty, nth_field in Ek1; rewrite Hkf in Ek1; exact Ek1).
    unfold dec_key_value in H.
    destruct (c_type c2 =? T_BYTES).
    { (* the key value as a byte string *)
      destruct (c_bytes F tag2 c2) as [[s cs]| | |] eqn:Eb; cbn [bind fst snd] in H; try discriminate. injection H as <- <- <-.
      split; [reflexivity|]. exists [IBytes tag2 s], (VPtr (VStruct "kmip.KeyValue" [VPtr (vbytes s); VNil])).
      split.
      - apply (lib ptr_en).
        apply (lib same_named st "kmip.KeyValue"%string kvd "kmip.KeyValue"%string _ _ _ _ Ekvd Hkce eq_refl eq_refl eq_refl eq_refl eq_refl).
        rewrite Hkf. replace [IBytes tag2 s] with ([IBytes tag2 s] ++ [])%list by reflexivity.
        apply (lib same_cons).
        + exists 2%nat. intros g Hg. destruct g as [|[|g]]; try lia. rewrite Eq0, enc_ty_eq, enc_ty_eq, norm_ty_eq, norm_ty_eq.
          destruct s; split; reflexivity.
        + apply (lib same_cons_nil) with (t' := TNamed "kmip.PlainKeyValue"); [exact Eq1 | apply (lib same_nil)].
      - split.
        + exists 0%nat. intros g _. cbn [conf_key_value]. change (String.eqb "kmip.KeyValue" "kmip.KeyValue") with true. destruct s; reflexivity.
        + unfold c_bytes in Eb. destruct (c_scalar_inv _ _ _ _ _ _ Eb) as (raw & kids & kb & rest & Ec & Ep & En).
          intros Hc. pose proof (c_ok_head eok _ _ _ Ec Hc) as He. split; [eapply c_next_ok; eassumption|].
          cbn [forallb item_ok]. rewrite (r_tag _ _ HR _ _ _ _ _ He), (r_bytes _ _ HR _ _ _ _ _ He Ep). reflexivity. }
    destruct (c_type c2 =? T_STRUCT); [|discriminate].
    rewrite Epkv, Ekm in H.
    match type of H with bind ?m _ = _ => destruct m as [[pv cs]| | |] eqn:Es; cbn [bind fst snd] in H; try discriminate end.
    injection H as <- <- <-. split; [reflexivity|].
    destruct (c_struct_ok F eok HR _ _ _ _ _ Es) as (sub & rc & Ef & Hcs).
    destruct (key_slot fmtv) as [k|] eqn:Eks; [|discriminate].
    pose proof (key_slot_lt _ _ Eks) as Hk8.
    apply Nat.eqb_eq in Hmlen.
    (* the alternative the key format designates *)
    assert (Halt : exists tk, fty km k = TPtr tk /\ elem_ok S (fty km k) = true).
    { assert (Hin : In (nth_field km k) (t_fields km)) by (unfold nth_field; apply nth_In; lia).
      rewrite forallb_forall in Halts. specialize (Halts _ Hin). unfold alt_ok in Halts. unfold fty.
      destruct (f_ty (nth_field km k)); try discriminate. eauto. }
    destruct Halt as (tk & Etk & Helk).
    destruct (SchemaSem.dec_ty S OPS ATTRS OBJS F f st (fty km k) (ftag pkv 0) sub) as [[[m c_1] s_1]| | |] eqn:Em; cbn [bind fst snd] in Ef; try discriminate.
    destruct (lib elem_good _ _ _ _ _ _ _ _ HQ Helk Em) as (-> & im & Gm & Rm).
    destruct (lib good_en _ _ _ _ _ Gm) as (m' & ENm & (fcm & Hcm)).
    assert (Help : elem_ok S (fty pkv 1) = true) by (destruct (fty pkv 1); try discriminate; exact Hp1).
    destruct (SchemaSem.dec_ty S OPS ATTRS OBJS F f st (fty pkv 1) (ftag pkv 1) c_1) as [[[at_ c_2] s_2]| | |] eqn:Ea; cbn [bind fst snd] in Ef; try discriminate.
    destruct (lib elem_good _ _ _ _ _ _ _ _ HQ Help Ea) as (-> & iat & Ga & Ra).
    injection Ef as <- <-.
    destruct (t_fields pkv) as [|p0 [|p1 [|? ?]]] eqn:Hpf; try discriminate.
    cbn [forallb] in Hppos, Hpom. rewrite !andb_true_iff in Hppos, Hpom. destruct Hppos as (Hpp0 & Hpp1 & _). destruct Hpom as (Hpo0 & Hpo1 & _).
    apply negb_true_iff in Hpo0, Hpo1.
    assert (Ey0 : f_ty p0 = TNamed "kmip.KeyMaterial") by (unfold fty, nth_field in Ep0; rewrite Hpf in Ep0; exact Ep0).
    assert (Eg0 : ftag pkv 0 = f_tag p0) by (unfold ftag, nth_field; rewrite Hpf; reflexivity).
    assert (Eg1 : ftag pkv 1 = f_tag p1) by (unfold ftag, nth_field; rewrite Hpf; reflexivity).
    assert (Ey1 : fty pkv 1 = f_ty p1) by (unfold fty, nth_field; rewrite Hpf; reflexivity).
    (* the eight slots *)
    assert (Hslots : SameEN S st (t_fields km) (ftag pkv 0) (slots_of k m 0 8) im (slots_of k m' 0 8)).
    { pose proof (slots_same st (ftag pkv 0) k m m' im (t_fields km) 0) as Hss. rewrite Hmlen in Hss.
      assert (E : (0 <=? k)%nat && (k <? 0 + 8)%nat = true) by (cbn [Nat.leb andb]; apply Nat.ltb_lt; lia).
      rewrite E in Hss. apply Hss.
      - intros fd Hin. rewrite forallb_forall in Halts. specialize (Halts _ Hin). unfold alt_ok in Halts. destruct (f_ty fd); try discriminate. eauto.
      - intros fd _ Hnth. rewrite Nat.sub_0_r in Hnth.
        assert (Efd : f_ty fd = fty km k) by (unfold fty, nth_field; erewrite nth_error_nth by exact Hnth; reflexivity).
        rewrite Efd. exact ENm. }
    pose proof (lib same_named st "kmip.KeyMaterial"%string km "kmip.KeyMaterial"%string _ _ _ _ Ekm Hmce eq_refl eq_refl eq_refl eq_refl eq_refl Hslots) as ENkm.
    destruct (lib head_of_good st p1 at_ iat Hpo1) as (at' & Hd1 & (fca & Hca)); [rewrite <- Ey1, <- Eg1; exact Ga|].
    assert (Hd0 : HeadEN S st p0 (VStruct "kmip.KeyMaterial" (slots_of k m 0 8)) im (VStruct "kmip.KeyMaterial" (slots_of k m' 0 8))).
    { destruct ENkm as (f0 & Hk). exists f0. intros g Hg. rewrite Hpo0, Ey0, <- Eg0. cbn [andb]. exact (Hk g Hg). }
    pose proof (lib tail_cons_pos _ _ _ _ _ _ _ _ _ _ Hpp0 Hd0 (lib tail_cons_pos _ _ _ _ _ _ _ _ _ _ Hpp1 Hd1 (lib tail_nil st))) as Htl.
    rewrite <- Hpf in Htl. apply negb_true_iff in Hpce.
    pose proof (lib refl_named st "kmip.PlainKeyValue"%string pkv "kmip.PlainKeyValue"%string tag2 _ _ _ _ Epkv Hpce eq_refl eq_refl Htl) as ENpkv.
    pose proof (lib ptr_en _ _ _ _ _ _ ENpkv) as ENppkv.
    exists [IStruct tag2 (im ++ iat ++ [])], (VPtr (VStruct "kmip.KeyValue" [VNil; VPtr (VStruct "kmip.PlainKeyValue" [VStruct "kmip.KeyMaterial" (slots_of k m' 0 8); at'])])).
    split.
    - apply (lib ptr_en).
      apply (lib same_named st "kmip.KeyValue"%string kvd "kmip.KeyValue"%string _ _ _ _ Ekvd Hkce eq_refl eq_refl eq_refl eq_refl eq_refl).
      rewrite Hkf. apply (lib same_cons_nil) with (t' := TScalar KBytes); [exact Eq0|].
      replace [IStruct tag2 (im ++ iat ++ [])] with ([IStruct tag2 (im ++ iat ++ [])] ++ [])%list by reflexivity.
      apply (lib same_cons); [rewrite Eq1; exact ENppkv | apply (lib same_nil)].
    - split.
      + exists (Nat.max fcm fca). intros g Hg. cbn [conf_key_value].
        change (String.eqb "kmip.KeyValue" "kmip.KeyValue") with true. change (String.eqb "kmip.PlainKeyValue" "kmip.PlainKeyValue") with true.
        change (String.eqb "kmip.KeyMaterial" "kmip.KeyMaterial") with true. cbn [andb].
        rewrite Epkv, Ekm, Eks, Hpce, Hpcd, Hmce, Hpf, Hmlen. cbn [negb andb List.length Nat.eqb forallb].
        rewrite Hpp0, Hpp1, Hpo0, Hpo1. cbn [negb andb].
        unfold fty at 1. unfold nth_field at 1. rewrite Hpf. cbn [nth]. rewrite Ey0.
        change (ty_eqb (TNamed "kmip.KeyMaterial") (TNamed "kmip.KeyMaterial")) with true. cbn [andb].
        assert (Hsl : match fty pkv 1 with TSlice _ => true | _ => false end = true) by (destruct (fty pkv 1); try discriminate; reflexivity).
        assert (Halts' : forallb (fun g => match f_ty g with TPtr _ => true | _ => false end) (t_fields km) = true).
        { apply forallb_forall. intros gg Hgg. rewrite forallb_forall in Halts. specialize (Halts _ Hgg). unfold alt_ok in Halts.
          destruct (f_ty gg); try discriminate; reflexivity. }
        rewrite Hsl, Hp01, Halts'. cbn [andb].
        rewrite (conf_slots_map _ _ _ _ _ _ (keeps_of_conf _ _ _ _ _ (Hcm g ltac:(lia)))).
        rewrite Ey1, Eg1, (keeps_of_conf _ _ _ _ _ (Hca g ltac:(lia))). reflexivity.
      + intros Hc. destruct (Hcs Hc) as (Hsub & Hc3 & Ht). split; [exact Hc3|].
        destruct (Rm Hsub) as [Hc1 Im]. destruct (Ra Hc1) as [_ Ia].
        cbn [forallb item_ok]. rewrite Ht. cbn [andb]. rewrite andb_true_r, !forallb_app, Im, Ia. reflexivity.
  Qed.
  Lemma dc_key_block f : DQ f -> forall st d tag (c : cur R) v c' st',
    find_tdef S (t_name d) = Some d -> t_custom_dec d = true ->
    t_name d = "kmip.KeyBlock"%string -> key_block_ok S d = true ->
    dec_key_block S F (dec_ty f) (dec_opt f) st d tag c = Ok (v, c', st') ->
    exists items, Good st (TNamed (t_name d)) tag v st' items /\ Rng c c' items.
  Proof.
    intros HQ st d tag c v c' st' Ed Hcd Hname Hok H.
    assert (EV : String.eqb (t_name d) "ttlv.Value" = false) by (rewrite Hname; reflexivity).
    assert (ES : String.eqb (t_name d) "ttlv.Struct" = false) by (rewrite Hname; reflexivity).
    unfold key_block_ok in Hok. destruct (t_fields d) as [|f0 [|f1 [|f2 [|f3 [|f4 [|f5 [|? ?]]]]]]] eqn:Hfl; try discriminate.
    destruct (find_tdef S "kmip.KeyValue") as [kvd|] eqn:Ekvd; [|discriminate].
    destruct (find_tdef S "kmip.PlainKeyValue") as [pkv|] eqn:Epkv; [|discriminate].
    destruct (find_tdef S "kmip.KeyMaterial") as [km|] eqn:Ekm; [|discriminate].
    rewrite !andb_true_iff in Hok.
    destruct Hok as (((((((((((((((((((((((((((Hce & Hpos) & Ho0) & Ho1) & Ho2) & Ho3) & Ho4) & Ho5) & Hm0) & Hsc) & Ht2) & Hext) & Htd) &
                     Hkce) & Hklen) & Hk0) & Hk1) & Hpce) & Hpcd) & Hmce) & Hplen) & Hmlen) & Hppos) & Hpom) & Hp0) & Hp1) & Hp01) & Halts).
    pose proof Hce as Hce'. apply negb_true_iff in Hce'.
    pose proof Ho0 as Ho0'. pose proof Ho2 as Ho2'. pose proof Ho5 as Ho5'. apply negb_true_iff in Ho0', Ho2', Ho5'.
    pose proof Hpos as Hpos'. cbn [forallb] in Hpos'. rewrite !andb_true_iff in Hpos'. destruct Hpos' as (Hq0 & Hq1 & Hq2 & Hq3 & Hq4 & Hq5 & _).
    pose proof (ty_eqb_eq _ _ Ht2) as Et2.
    assert (Et0 : exists r0, f_ty f0 = TScalar (KEnum r0)) by (destruct (f_ty f0) as [[]| | | |]; try discriminate; eauto). destruct Et0 as [r0 Et0].
    assert (Hk : omit_scalar_ok S (f_ty f1) = true /\ omit_scalar_ok S (f_ty f3) = true /\ omit_scalar_ok S (f_ty f4) = true /\
                 (match f_ty f1, f_ty f3, f_ty f4 with TScalar _, TScalar _, TScalar _ => true | _, _, _ => false end) = true).
    { destruct (f_ty f1) as [k1| | | |]; try discriminate. destruct (f_ty f3) as [k3| | | |]; try discriminate.
      destruct (f_ty f4) as [k4| | | |]; try discriminate. rewrite !andb_true_iff in Hsc. destruct Hsc as ((A & B) & C). auto. }
    destruct Hk as (Hos1 & Hos3 & Hos4 & Hscm).
    assert (Et5 : exists t5, f_ty f5 = TPtr t5 /\ elem_ok S (f_ty f5) = true).
    { unfold ext_ok in Hext. destruct (f_ty f5); try discriminate. eauto. } destruct Et5 as (t5 & Et5 & Hel5).
    assert (Hm5 : match f_ty f5 with TPtr _ => true | _ => false end = true) by (rewrite Et5; reflexivity).
    assert (Hg0 : ftag d 0 = f_tag f0) by (unfold ftag, nth_field; rewrite Hfl; reflexivity).
    assert (Hg1 : ftag d 1 = f_tag f1) by (unfold ftag, nth_field; rewrite Hfl; reflexivity).
    assert (Hg2 : ftag d 2 = f_tag f2) by (unfold ftag, nth_field; rewrite Hfl; reflexivity).
    assert (Hg3 : ftag d 3 = f_tag f3) by (unfold ftag, nth_field; rewrite Hfl; reflexivity).
    assert (Hg4 : ftag d 4 = f_tag f4) by (unfold ftag, nth_field; rewrite Hfl; reflexivity).
    assert (Hg5 : ftag d 5 = f_tag f5) by (unfold ftag, nth_field; rewrite Hfl; reflexivity).
    assert (Hy0 : fty d 0 = f_ty f0) by (unfold fty, nth_field; rewrite Hfl; reflexivity).
    assert (Hy1 : fty d 1 = f_ty f1) by (unfold fty, nth_field; rewrite Hfl; reflexivity).
    assert (Hy3 : fty d 3 = f_ty f3) by (unfold fty, nth_field; rewrite Hfl; reflexivity).
    assert (Hy4 : fty d 4 = f_ty f4) by (unfold fty, nth_field; rewrite Hfl; reflexivity).
    assert (Hy5 : fty d 5 = f_ty f5) by (unfold fty, nth_field; rewrite Hfl; reflexivity).
    unfold dec_key_block in H. rewrite Hg0, Hg1, Hg2, Hg3, Hg4, Hg5, Hy0, Hy1, Hy3, Hy4, Hy5 in H.
    destruct (lib wrap_struct_inv _ _ _ _ _ _ _ H) as (sub & vals & c2 & Hb & -> & Hw). clear H.
    rewrite Et0 in Hb.
    destruct (SchemaSem.dec_ty S OPS ATTRS OBJS F f st (TScalar (KEnum r0)) (f_tag f0) sub) as [[[x0 c_1] s_1]| | |] eqn:E0; cbn [bind fst snd] in Hb; try discriminate.
    destruct (lib dreq_enum_inv _ _ _ _ _ _ _ _ E0) as (-> & kft & -> & R0). cbn [int_of] in Hb.
    destruct (SchemaSem.dec_opt S OPS ATTRS OBJS F f st (f_ty f1) (f_tag f1) c_1) as [[[x1 c_2] s_2]| | |] eqn:E1; cbn [bind fst snd] in Hb; try discriminate.
    destruct (lib dopt_omit_scalar _ _ _ _ _ _ _ _ Hos1 Ho1 eq_refl E1) as (-> & i1 & x1' & Hd1 & Hc1 & Hz1 & R1).
    match type of Hb with bind ?m _ = _ => destruct m as [[[kv c_3] s_3]| | |] eqn:Ekv; cbn [bind fst snd] in Hb; try discriminate end.
    assert (Hkv : exists ikv kv', EN st (TPtr (TNamed "kmip.KeyValue")) (f_tag f2) kv ikv kv' /\
                   (exists fc, forall g, (fc <= g)%nat -> conf_key_value S (conf_ty g) st kft (f_tag f2) kv' = true) /\ Rng c_2 c_3 ikv).
    { destruct (c_tag c_2 =? f_tag f2).
      - destruct (dc_key_value _ _ _ _ _ _ _ _ _ _ _ HQ Ekvd Epkv Ekm Hkce Hklen Hk0 Hk1 Hpce Hpcd Hmce Hplen Hmlen Hppos Hpom Hp0 Hp1 Hp01 Halts Ekv) as (_ & Rkv0).
        exact Rkv0.
      - injection Ekv as <- <- <-. exists [], VNil. split; [|split].
        + exists 1%nat. intros g Hg. destruct g as [|g]; [lia|]. rewrite enc_ty_eq, norm_ty_eq. split; reflexivity.
        + exists 0%nat. intros g _. reflexivity.
        + intros Hc. split; [exact Hc | reflexivity]. }
    destruct Hkv as (ikv & kv' & ENkv & (fck & Hck) & Rkv).
    destruct (SchemaSem.dec_opt S OPS ATTRS OBJS F f st (f_ty f3) (f_tag f3) c_3) as [[[x3 c_4] s_4]| | |] eqn:E3; cbn [bind fst snd] in Hb; try discriminate.
    destruct (lib dopt_omit_scalar _ _ _ _ _ _ _ _ Hos3 Ho3 eq_refl E3) as (-> & i3 & x3' & Hd3 & Hc3 & Hz3 & R3).
    destruct (SchemaSem.dec_opt S OPS ATTRS OBJS F f st (f_ty f4) (f_tag f4) c_4) as [[[x4 c_5] s_5]| | |] eqn:E4; cbn [bind fst snd] in Hb; try discriminate.
    destruct (lib dopt_omit_scalar _ _ _ _ _ _ _ _ Hos4 Ho4 eq_refl E4) as (-> & i4 & x4' & Hd4 & Hc4 & Hz4 & R4).
    destruct (SchemaSem.dec_ty S OPS ATTRS OBJS F f st (f_ty f5) (f_tag f5) c_5) as [[[x5 c_6] s_6]| | |] eqn:E5; cbn [bind fst snd] in Hb; try discriminate.
    destruct (lib elem_good _ _ _ _ _ _ _ _ HQ Hel5 E5) as (-> & i5 & G5 & R5).
    destruct (lib head_of_good _ _ _ _ Ho5' G5) as (x5' & Hd5 & (fc5 & Hc5)).
    injection Hb as <- <- <-.
    assert (Hd0 : HeadEN S st f0 (VInt kft) [IEnum (f_tag f0) r0 kft] (VInt kft)).
    { exists 1%nat. intros g Hg. destruct g as [|g]; [lia|]. rewrite Ho0', Et0. cbn [andb]. rewrite enc_ty_eq, norm_ty_eq. split; reflexivity. }
    assert (Hd2 : HeadEN S st f2 kv ikv kv').
    { destruct ENkv as (f0' & Hk). exists f0'. intros g Hg. rewrite Ho2', Et2. cbn [andb]. exact (Hk g Hg). }
    pose proof (lib tail_cons_pos _ _ _ _ _ _ _ _ _ _ Hq0 Hd0 (lib tail_cons_pos _ _ _ _ _ _ _ _ _ _ Hq1 Hd1
                  (lib tail_cons_pos _ _ _ _ _ _ _ _ _ _ Hq2 Hd2 (lib tail_cons_pos _ _ _ _ _ _ _ _ _ _ Hq3 Hd3
                  (lib tail_cons_pos _ _ _ _ _ _ _ _ _ _ Hq4 Hd4 (lib tail_cons_pos _ _ _ _ _ _ _ _ _ _ Hq5 Hd5 (lib tail_nil st))))))) as (ft & Htl).
    exists [IStruct tag ([IEnum (f_tag f0) r0 kft] ++ i1 ++ ikv ++ i3 ++ i4 ++ i5 ++ [])].
    split.
    - exists (VStruct (t_name d) [VInt kft; x1'; kv'; x3'; x4'; x5']), (Datatypes.S (Datatypes.S (Nat.max ft (Nat.max fck fc5)))).
      intros g Hge. destruct g as [|[|g]]; try lia.
      destruct (Htl (Datatypes.S g) ltac:(lia)) as [T1 T2].
      rewrite enc_ty_eq, norm_ty_eq, conf_ty_eq, EV, ES, Ed, Hce', Hcd, Hfl, T1, T2, String.eqb_refl. cbn [bind fst snd negb andb].
      split; [reflexivity|]. split; [reflexivity|].
      unfold conf_custom_of. cbv zeta. rewrite Hname.
      change (String.eqb "kmip.KeyBlock" "kmip.RequestBatchItem") with false.
      change (String.eqb "kmip.KeyBlock" "kmip.ResponseBatchItem") with false.
      change (String.eqb "kmip.KeyBlock" "kmip.Attribute") with false.
      change (String.eqb "kmip.KeyBlock" "kmip.Credential") with false.
      change (String.eqb "kmip.KeyBlock" "kmip.KeyBlock") with true. cbv iota.
      unfold conf_key_block. rewrite Hfl, Ekvd, Hce, Hpos, Ho0, Ho1, Ho2, Ho3, Ho4, Ho5, Hm0, Hscm, Ht2, Hm5, Htd, Hkce, Hklen, Hk0, Hk1.
      rewrite (keeps_of_conf _ _ _ _ _ (Hc1 (Datatypes.S g) ltac:(lia))), (keeps_of_conf _ _ _ _ _ (Hc3 (Datatypes.S g) ltac:(lia))),
              (keeps_of_conf _ _ _ _ _ (Hc4 (Datatypes.S g) ltac:(lia))), (keeps_of_conf _ _ _ _ _ (Hc5 (Datatypes.S g) ltac:(lia))),
              Hz1, Hz3, Hz4, (Hck (Datatypes.S g) ltac:(lia)). reflexivity.
    - intros Hc. destruct (Hw Hc) as (Hsub & Hc' & Ht). split; [exact Hc'|].
      destruct (R0 Hsub) as [Hc1' I0]. destruct (R1 Hc1') as [Hc2' I1]. destruct (Rkv Hc2') as [Hc3' Ikv]. destruct (R3 Hc3') as [Hc4' I3].
      destruct (R4 Hc4') as [Hc5' I4]. destruct (R5 Hc5') as [_ I5].
      cbn [forallb item_ok]. unfold tag_rng in Ht. rewrite Ht. cbn [andb]. rewrite andb_true_r.
      cbn [app forallb]. rewrite I0. cbn [andb]. rewrite !forallb_app, I1, Ikv, I3, I4, I5. reflexivity.
  Qed.
End KB.
