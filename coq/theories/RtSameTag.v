(** Lemmas shared by the round-trip proofs of kmip.Credential (RtCredential.v) and kmip.KeyBlock
    (RtKeyBlock.v): the "same tag" encoders of CredentialValue / KeyValue / KeyMaterial (every
    alternative is a pointer written under the tag handed in, all but one nil), positional
    fields of a reflectively encoded structure, d.Opt on an omitempty field, and the tag the
    reader sees after an element that may be absent. *)
From Coq Require Import ZArith List Bool String Lia PeanoNat.
From KV Require Import Base BaseProofs Wire WireProofs Cursor CursorProofs Schema SchemaSem SchemaSemEq FaithfulProofs
  Roundtrip RoundtripEq RoundtripProofs RtCustomLib.
Import ListNotations.
Open Scope Z_scope.

(** the default field of [nth_field] *)
Definition dflt_field : field :=
  {| f_name := ""; f_tag := 0; f_ty := TIface "any"; f_omit := false; f_range := None; f_setver := false |}.

Definition is_ptr_field (g : field) : bool := match f_ty g with TPtr _ => true | _ => false end.

Lemma fty_nth d i : fty d i = f_ty (nth i (t_fields d) dflt_field).
Proof. reflexivity. Qed.
Lemma ftag_nth d i : ftag d i = f_tag (nth i (t_fields d) dflt_field).
Proof. reflexivity. Qed.

Lemma pos_field_facts fd : pos_field fd = true -> f_tag fd <> 0 /\ f_setver fd = false /\ f_range fd = None.
Proof.
  unfold pos_field. rewrite !andb_true_iff. intros ((H1 & H2) & H3).
  apply negb_true_iff in H1, H2. apply Z.eqb_neq in H1. destruct (f_range fd); [discriminate|]. auto.
Qed.

(** a value that is nil or a pointer, and zero, is nil *)
Lemma nil_of_zero v : is_zero v = true -> (match v with VNil | VPtr _ => true | _ => false end) = true -> v = VNil.
Proof. destruct v; cbn [is_zero]; intros H1 H2; try discriminate; reflexivity. Qed.

Lemma map_slot_repeat {A} (x z : A) k : forall n s, (s <= k)%nat -> (k < s + n)%nat ->
  map (fun i => if Nat.eqb i k then x else z) (seq s n) = (repeat z (k - s) ++ x :: repeat z (s + n - k - 1))%list.
Proof.
  induction n as [|n IH]; intros s H1 H2; [lia|].
  cbn [seq map]. destruct (Nat.eqb_spec s k) as [->|Hne].
  - rewrite Nat.sub_diag. cbn [repeat app]. f_equal.
    replace (k + Datatypes.S n - k - 1)%nat with n by lia.
    clear IH H1 H2. generalize (Datatypes.S k) (Nat.lt_succ_diag_r k). induction n as [|n IH]; intros s Hs; [reflexivity|].
    cbn [seq map repeat]. destruct (Nat.eqb_spec s k); [lia|]. f_equal. apply IH. lia.
  - replace (k - s)%nat with (Datatypes.S (k - Datatypes.S s)) by lia. cbn [repeat app]. f_equal.
    rewrite IH by lia. f_equal. f_equal. f_equal. lia.
Qed.

Section SameTag.
  Variable S : schema.
  Variables (OPS : op_table) (ATTRS : attr_table) (OBJS : obj_table).
  Context {R : Type}.
  Variable F : rawfmt R.

  Local Notation enc_ty := (enc_ty S).
  Local Notation enc_fields := (enc_fields S).
  Local Notation enc_same_tag := (enc_same_tag S).
  Local Notation dec_ty := (dec_ty S OPS ATTRS OBJS F).
  Local Notation dec_opt := (dec_opt S OPS ATTRS OBJS F).
  Local Notation conf_ty := (conf_ty S OPS ATTRS OBJS).
  Local Notation P_ty := (P_ty S OPS ATTRS OBJS F).
  Local Notation Q := (Q S OPS ATTRS OBJS F).
  Local Notation RT_concl := (RT_concl S OPS ATTRS OBJS F).

  (** ** every alternative nil: nothing is written *)
  Lemma enc_same_tag_nils n : forall fl f st tag items st',
    forallb is_ptr_field fl = true ->
    enc_same_tag f st fl tag (repeat VNil n) = Ok (items, st') -> items = [] /\ st' = st.
  Proof.
    induction n as [|n IH]; intros fl f st tag items st' Hp He; (destruct f as [|f]; [discriminate|]);
      rewrite enc_same_tag_eq in He; cbn [repeat] in He.
    - destruct fl; [|discriminate]. injection He as <- <-. auto.
    - destruct fl as [|fd fl]; [discriminate|]. cbn [forallb] in Hp. apply andb_true_iff in Hp. destruct Hp as [Hp1 Hp2].
      unfold is_ptr_field in Hp1. destruct (f_ty fd) as [|t| | |] eqn:Et; try discriminate.
      destruct f as [|f']; [discriminate|]. rewrite enc_ty_eq in He. cbn [bind fst snd] in He.
      destruct (enc_same_tag (Datatypes.S f') st fl tag (repeat VNil n)) as [[b sb]| | |] eqn:Eb; cbn [bind fst snd] in He; try discriminate.
      injection He as <- <-. destruct (IH _ _ _ _ _ _ Hp2 Eb) as [-> ->]. auto.
  Qed.

  (** ** exactly alternative [n] may be set: what is written is that alternative *)
  Lemma enc_same_tag_slot n : forall m x fl f st tag items st',
    forallb is_ptr_field fl = true ->
    enc_same_tag f st fl tag (repeat VNil n ++ x :: repeat VNil m) = Ok (items, st') ->
    exists g, (g < f)%nat /\ enc_ty g st (f_ty (nth n fl dflt_field)) tag x = Ok (items, st').
  Proof.
    induction n as [|n IH]; intros m x fl f st tag items st' Hp He; (destruct f as [|f]; [discriminate|]);
      rewrite enc_same_tag_eq in He; cbn [repeat app] in He; (destruct fl as [|fd fl]; [discriminate|]);
      cbn [forallb] in Hp; apply andb_true_iff in Hp; destruct Hp as [Hp1 Hp2].
    - destruct (enc_ty f st (f_ty fd) tag x) as [[a sa]| | |] eqn:Ea; cbn [bind fst snd] in He; try discriminate.
      destruct (enc_same_tag f sa fl tag (repeat VNil m)) as [[b sb]| | |] eqn:Eb; cbn [bind fst snd] in He; try discriminate.
      injection He as <- <-. destruct (enc_same_tag_nils _ _ _ _ _ _ _ Hp2 Eb) as [-> ->].
      exists f. split; [lia|]. cbn [nth]. rewrite app_nil_r. exact Ea.
    - unfold is_ptr_field in Hp1. destruct (f_ty fd) as [|t| | |] eqn:Et; try discriminate.
      destruct f as [|f']; [discriminate|]. rewrite enc_ty_eq in He. cbn [bind fst snd] in He.
      destruct (enc_same_tag (Datatypes.S f') st fl tag (repeat VNil n ++ x :: repeat VNil m)) as [[b sb]| | |] eqn:Eb;
        cbn [bind fst snd] in He; try discriminate.
      injection He as <- <-. destruct (IH _ _ _ _ _ _ _ _ Hp2 Eb) as (g & Hg & Eg).
      exists g. split; [lia|]. cbn [nth app]. exact Eg.
  Qed.

  (** ** a structure with a "same tag" encoder (CredentialValue, KeyValue, KeyMaterial) *)
  Lemma enc_ty_same_tag f st n d tag nv fs :
    find_tdef S n = Some d -> t_custom_enc d = true ->
    String.eqb n "ttlv.Value" = false -> String.eqb n "ttlv.Struct" = false ->
    String.eqb n "kmip.RequestBatchItem" = false -> String.eqb n "kmip.ResponseBatchItem" = false ->
    String.eqb n "kmip.UnknownPayload" = false ->
    enc_ty (Datatypes.S (Datatypes.S f)) st (TNamed n) tag (VStruct nv fs) = enc_same_tag f st (t_fields d) tag fs.
  Proof.
    intros Ed Hce EV ES E1 E2 E3. rewrite enc_ty_eq, EV, ES, Ed, Hce. rewrite enc_custom_eq. cbv zeta.
    rewrite (find_tdef_name S n d Ed), E1, E2, E3. reflexivity.
  Qed.

  Lemma enc_ty_same_tag_inv f st n d tag nv fs r :
    find_tdef S n = Some d -> t_custom_enc d = true ->
    String.eqb n "ttlv.Value" = false -> String.eqb n "ttlv.Struct" = false ->
    String.eqb n "kmip.RequestBatchItem" = false -> String.eqb n "kmip.ResponseBatchItem" = false ->
    String.eqb n "kmip.UnknownPayload" = false ->
    enc_ty f st (TNamed n) tag (VStruct nv fs) = Ok r ->
    exists f', f = Datatypes.S (Datatypes.S f') /\ enc_same_tag f' st (t_fields d) tag fs = Ok r.
  Proof.
    intros Ed Hce EV ES E1 E2 E3 He. destruct f as [|f1]; [discriminate|]. destruct f1 as [|f2].
    - rewrite enc_ty_eq, EV, ES, Ed, Hce in He. discriminate.
    - exists f2. split; [reflexivity|]. rewrite <- He. symmetry. apply enc_ty_same_tag; assumption.
  Qed.

  (** ** positional fields of a reflectively encoded structure *)
  Lemma enc_field_req f st fd fl x vl : pos_field fd = true -> f_omit fd = false ->
    enc_fields (Datatypes.S f) st (fd :: fl) (x :: vl) =
    do a <- enc_ty f st (f_ty fd) (f_tag fd) x ;;
    do b <- enc_fields f (snd a) fl vl ;;
    Ok (fst a ++ fst b, snd b)%list.
  Proof.
    intros Hp Ho. destruct (pos_field_facts fd Hp) as (Ht & Hs & Hr). apply Z.eqb_neq in Ht.
    rewrite enc_fields_eq. cbv zeta. rewrite Ht, Hs, Hr, Ho. rewrite version_in_none. reflexivity.
  Qed.

  Lemma enc_field_omit f st fd fl x vl : pos_field fd = true -> f_omit fd = true ->
    enc_fields (Datatypes.S f) st (fd :: fl) (x :: vl) =
    do a <- (if is_zero x then Ok ([], st) else enc_ty f st (f_ty fd) (f_tag fd) x) ;;
    do b <- enc_fields f (snd a) fl vl ;;
    Ok (fst a ++ fst b, snd b)%list.
  Proof.
    intros Hp Ho. destruct (pos_field_facts fd Hp) as (Ht & Hs & Hr). apply Z.eqb_neq in Ht.
    rewrite enc_fields_eq. cbv zeta. rewrite Ht, Hs, Hr, Ho. rewrite version_in_none. reflexivity.
  Qed.

  Lemma enc_fields_nil f st : enc_fields (Datatypes.S f) st [] [] = Ok ([], st).
  Proof. rewrite enc_fields_eq. reflexivity. Qed.

  (** ** d.Opt on an omitempty element: written unless zero, and then the zero value is what
      the decoder leaves *)
  Lemma dopt_omit fe fc st t tag x items st' :
    P_ty fe ->
    (if is_zero x then Ok ([], st) else enc_ty fe st t tag x) = Ok (items, st') ->
    conf_ty fc st t tag x = Some st -> wf_ty t = true ->
    (is_zero x = true -> x = zero_of S 8 t) ->
    st' = st /\ tags_all tag items /\
    forall (es rest : list (relem R)) fd, faithful F items es -> c_tag (rest, false) <> tag ->
      (fe + 2 * items_size items + 2 <= fd)%nat ->
      dec_opt (Datatypes.S fd) st t tag (es ++ rest, false) = Ok (x, (rest, false), st).
  Proof.
    intros HP He Hc Hwf Hz. destruct (is_zero x) eqn:Ez.
    - injection He as <- <-. split; [reflexivity|]. split; [constructor|].
      intros es rest fd Hf Hnext Hfd. apply faithful_nil_inv in Hf. subst es.
      cbn [app]. rewrite dec_opt_absent by assumption. rewrite <- (Hz eq_refl). reflexivity.
    - destruct (HP _ _ _ _ _ _ _ _ He Hc) as (<- & Hta & _ & Hne & Hdec).
      split; [reflexivity|]. split; [exact Hta|].
      intros es rest fd Hf Hnext Hfd.
      specialize (Hne Hwf Ez).
      rewrite dec_opt_present.
      + apply Hdec; [assumption | intros _; assumption | assumption].
      + destruct items as [|i items']; [contradiction|].
        apply faithful_cons_inv in Hf. destruct Hf as (e & el & -> & He1 & _). cbn [app].
        rewrite (faithful1_tag F _ _ _ _ He1). inversion Hta; assumption.
  Qed.

  Lemma omit_zero_eq fd x : omit_zero S fd x = true -> is_zero x = true -> x = zero_of S 8 (f_ty fd).
  Proof. unfold omit_zero. intros H E. rewrite E in H. apply value_eqb_eq, H. Qed.

  (** ** the tag the reader sees next: 0 at the end, or the tag of a later element *)
  Definition hd_in (l : list item) (ts : list Z) : Prop := hd_tag l = 0 \/ In (hd_tag l) ts.

  Lemma hd_in_nil ts : hd_in [] ts.
  Proof. left. reflexivity. Qed.

  Lemma hd_in_app t a b ts : tags_all t a -> hd_in b ts -> hd_in (a ++ b) (t :: ts).
  Proof.
    intros Ha Hb. destruct a as [|i a'].
    - cbn [app]. destruct Hb as [H|H]; [left; exact H | right; right; exact H].
    - right. left. cbn [app hd_tag]. inversion Ha; subst. reflexivity.
  Qed.

  Lemma hd_in_neq l ts tag (es : list (relem R)) : hd_in l ts -> faithful F l es -> tag <> 0 -> ~ In tag ts ->
    c_tag (es, false) <> tag.
  Proof.
    intros H Hf H0 Hn. rewrite (faithful_hd_tag F _ _ Hf). destruct H as [H|H]; [congruence|].
    intros E. apply Hn. rewrite <- E. exact H.
  Qed.

  Lemma tags_distinct_cons x r : tags_distinct (x :: r) = true -> x <> 0 /\ ~ In x r /\ tags_distinct r = true.
  Proof.
    cbn [tags_distinct]. rewrite !andb_true_iff. intros ((H1 & H2) & H3).
    apply negb_true_iff, Z.eqb_neq in H1. split; [exact H1|]. split; [|exact H3].
    intros Hin. rewrite forallb_forall in H2. specialize (H2 x Hin). rewrite Z.eqb_refl in H2. discriminate.
  Qed.

  Lemma tags_distinct_not_in_earlier x r : tags_distinct (x :: r) = true -> forall y, In y r -> y <> x.
  Proof.
    intros H y Hy E. subst y. destruct (tags_distinct_cons _ _ H) as (_ & Hn & _). contradiction.
  Qed.
End SameTag.
