(** C20 - state kept by the codec between and across calls.

    Model (no proofs here; see CodecStateProofs.v) of
    - ttlv/version.go: [version], [versionRange.contains], [extension.versionIn/setVersion];
    - the four writers' buffers and their [Clear] (ttlv/encoding_ttlv.go, encoding_xml.go,
      encoding_json.go, encoding_text.go) at the level of the [writer] interface;
    - ttlv/encoder.go: the [Encoder] object (extension pointer shared with nested encoders,
      writer), its methods used directly, [Clear], the reflective plans built by
      [encodeFunc]/[buildStructEncodeFunc] and their execution;
    - ttlv/decoder.go: the [Decoder] object and the decode plans' use of the version state;
    - the two plan caches ([encodeFuncsCache], [decodeFuncsCache]: sync.Map filled lazily by
      [encodeFuncFor]/[decodeFuncFor]) as a transition system: N threads, each step is one
      atomic Load or Store, any schedule.

    Go panics are outcomes ([SPanic], [RPanic]; a builder that panics makes the thread give up
    its message); a panic leaves the partially written state behind (the caller may recover
    and keep using the encoder). *)
From Coq Require Import ZArith List Bool Lia.
From KV Require Import Base.
Import ListNotations.
Open Scope Z_scope.

(* ------------------------------------------------------------------------------------ *)
(** * ttlv/version.go *)

(** [version{major, minor}] *)
Definition ver := (Z * Z)%type.

(** [CompareVersions] *)
Definition ver_cmp (a b : ver) : comparison :=
  match fst a ?= fst b with
  | Eq => snd a ?= snd b
  | c => c
  end.

(** [versionRange{start, end *version}] *)
Definition vrange := (option ver * option ver)%type.

(** [versionRange.contains] *)
Definition contains (rng : vrange) (v : ver) : bool :=
  match fst rng with
  | Some s => match ver_cmp s v with Gt => false | _ =>
      match snd rng with
      | Some e => match ver_cmp e v with Lt => false | _ => true end
      | None => true
      end end
  | None =>
      match snd rng with
      | Some e => match ver_cmp e v with Lt => false | _ => true end
      | None => true
      end
  end.

(** [extension{version *version}]: [None] is the nil pointer. *)
Definition ext := option ver.

(** [extension.versionIn]: no version set => every range matches. *)
Definition version_in (x : ext) (rng : vrange) : bool :=
  match x with
  | None => true
  | Some v => contains rng v
  end.

(* ------------------------------------------------------------------------------------ *)
(** * Items and the four writers *)

(** The primitive values used by the model (a subset of the TTLV types: enough to carry
    the version fields, optional fields, and one writer-side panic, the negative interval). *)
Inductive leaf :=
| LInt (v : Z)            (* int32    -> Integer *)
| LLong (v : Z)           (* int64    -> Long Integer *)
| LBool (b : bool)
| LText (s : list Z)
| LBytes (s : list Z)
| LInterval (secs : Z).   (* time.Duration of a whole number of seconds *)

Inductive item :=
| IPrim (tag : Z) (l : leaf)
| IStruct (tag : Z) (ch : list item).

Inductive tkind := KXml | KJson | KText.
Inductive wkind := KBin | KTok (k : tkind).

(** Writer state.
    - [WBin buf]: [ttlvWriter.buf].
    - [WTok k done stack]: the text produced so far by xmlWriter / jsonWriter / textWriter,
      described as the completed top-level items [done] and the structures opened and not
      yet closed [stack] (innermost first, each with its tag and the children written so
      far).  For XML the stack is also the element stack of the [xml.Encoder]. *)
Inductive wstate :=
| WBin (buf : list Z)
| WTok (k : tkind) (done : list item) (stack : list (Z * list item)).

(** [newTTLVWriter] / [newXMLWriter] / [newJSONWriter] / [newTextWriter] *)
Definition w_new (k : wkind) : wstate :=
  match k with
  | KBin => WBin []
  | KTok k => WTok k [] []
  end.

Definition w_kind (w : wstate) : wkind :=
  match w with
  | WBin _ => KBin
  | WTok k _ _ => KTok k
  end.

(** All four writers [panic("interval cannot be negative")] before writing anything. *)
Definition leaf_panics (l : leaf) : bool :=
  match l with
  | LInterval s => s <? 0
  | _ => false
  end.

(** [ttlvWriter.Integer/LongInteger/Bool/TextString/ByteString/Interval]:
    tag (3 bytes), type, length, value, padding. *)
Definition bin_leaf (tag : Z) (l : leaf) : list Z :=
  be 3 tag ++
  match l with
  | LInt v => [2] ++ be 4 4 ++ be 4 (to_u32 v) ++ [0; 0; 0; 0]
  | LLong v => [3] ++ be 4 8 ++ be 8 (to_u64 v)
  | LBool b => [6] ++ be 4 8 ++ [0; 0; 0; 0; 0; 0; 0; if b then 1 else 0]
  | LText s => [7] ++ be 4 (to_u32 (len s)) ++ s ++ zeros (pad8 (len s))
  | LBytes s => [8] ++ be 4 (to_u32 (len s)) ++ s ++ zeros (pad8 (len s))
  | LInterval s => [10] ++ be 4 4 ++ be 4 (to_u32 s) ++ [0; 0; 0; 0]
  end.

(** An item is appended to the innermost open structure, or to the top level. *)
Definition tok_emit (it : item) (done : list item) (stack : list (Z * list item))
  : list item * list (Z * list item) :=
  match stack with
  | [] => (done ++ [it], [])
  | (t, ch) :: rest => (done, (t, ch ++ [it]) :: rest)
  end.

(** One primitive write (the caller has checked [leaf_panics]). *)
Definition w_leaf (w : wstate) (tag : Z) (l : leaf) : wstate :=
  match w with
  | WBin buf => WBin (buf ++ bin_leaf tag l)
  | WTok k done stack => let '(d, s) := tok_emit (IPrim tag l) done stack in WTok k d s
  end.

(** [buf[off:off+4] = bytes] (binary.BigEndian.AppendUint32(enc.buf[:off], ...)) *)
Definition patch (buf : list Z) (off : Z) (bytes : list Z) : list Z :=
  take off buf ++ bytes ++ drop (off + len bytes) buf.

(** First half of [writer.Struct]: header written, callback not yet run.
    Returns the offset of the length placeholder ([off] in ttlvWriter.Struct). *)
Definition w_open (w : wstate) (tag : Z) : wstate * Z :=
  match w with
  | WBin buf => let b1 := buf ++ be 3 tag ++ [1] in (WBin (b1 ++ be 4 0), len b1)
  | WTok k done stack => (WTok k done ((tag, []) :: stack), 0)
  end.

(** Second half of [writer.Struct], after the callback returned normally. *)
Definition w_close (w : wstate) (off : Z) : wstate :=
  match w with
  | WBin buf => WBin (patch buf off (be 4 (to_u32 (len buf - off - 4))))
  | WTok k done ((t, ch) :: rest) => let '(d, s) := tok_emit (IStruct t ch) done rest in WTok k d s
  | WTok k done [] => w
  end.

(** [ttlvWriter.Clear]: [buf = buf[:0]].
    [xmlWriter.Clear]: close the xml.Encoder (its complaint about unclosed elements is
      ignored), reset the buffer, install a new xml.Encoder (empty element stack).
    [jsonWriter.Clear], [textWriter.Clear]: [buf.Reset()]. *)
Definition w_clear (w : wstate) : wstate :=
  match w with
  | WBin _ => WBin []
  | WTok k _ _ => WTok k [] []
  end.

(** What [xmlWriter.Clear] did before the repair ([panicOnErr(enc.w.Close())]): [None] is
    the panic "unclosed tag"; kept only to state the defect that was repaired. *)
Definition w_clear_before_fix (w : wstate) : option wstate :=
  match w with
  | WTok KXml _ (_ :: _) => None
  | _ => Some (w_clear w)
  end.

(** The open structures of an interrupted document, closed from the innermost outwards. *)
Fixpoint close_all (inner : list item) (stack : list (Z * list item)) (done : list item) : list item :=
  match stack with
  | [] => done ++ inner
  | (t, ch) :: rest => close_all [IStruct t (ch ++ inner)] rest done
  end.

(** What [Bytes()] shows, as compared by the correspondence check: the exact bytes for the
    binary writer; for the others the parsed document (XML and JSON: only when it is
    complete; text: the lines written so far read as a forest). *)
Inductive view :=
| VwBytes (b : list Z)
| VwItems (its : list item)
| VwPartial.

(** State of the buffer once a panic has unwound to the caller of the encoder.  The nested
    jsonWriter / textWriter values are locals of the aborted [Struct] frames: later writes
    go to the top level of the same buffer.  For the text form (line based) the lines
    written so far then read as closed structures; the JSON text stays unbalanced (the
    model keeps the open structures, which only serves to report the document as partial);
    the xml.Encoder keeps its element stack; the binary buffer keeps the zero length
    placeholders. *)
Definition w_unwind (w : wstate) : wstate :=
  match w with
  | WTok KText done stack => WTok KText (close_all [] stack done) []
  | _ => w
  end.

Definition w_view (w : wstate) : view :=
  match w with
  | WBin buf => VwBytes buf
  | WTok KText done stack => VwItems (close_all [] stack done)
  | WTok _ done [] => VwItems done
  | WTok _ _ (_ :: _) => VwPartial
  end.

(* ------------------------------------------------------------------------------------ *)
(** * The Encoder object (ttlv/encoder.go) *)

(** [Encoder{*extension, w writer}]. Nested encoders ([Encoder.Struct]) are
    [&Encoder{enc.extension, w}]: same extension pointer, so a version set inside a nested
    structure is seen by everything encoded afterwards - modelled by threading one [enc].
    [e_log] is a ghost: the types looked up in the plan cache by [encodeValue] since the
    encoder was created or cleared. *)
Record enc := Enc { e_ext : ext; e_w : wstate; e_log : list Z }.

Definition set_w (e : enc) (w : wstate) : enc := Enc (e_ext e) w (e_log e).
Definition set_ext (e : enc) (x : ext) : enc := Enc x (e_w e) (e_log e).
Definition add_log (e : enc) (ty : Z) : enc := Enc (e_ext e) (e_w e) (e_log e ++ [ty]).

(** [newEncoder(w)] = [Encoder{new(extension), w}] *)
Definition enc_new (k : wkind) : enc := Enc None (w_new k) [].

(** [Encoder.Clear]: [enc.extension.version = nil; enc.w.Clear()] *)
Definition enc_clear (e : enc) : enc := Enc None (w_clear (e_w e)) [].

(** Outcome of a call: normal return, Go panic (state left as it was at the panic), or
    [SBad]: the model was given a value that does not have the plan's type (excluded by
    Go's typing; never produced by the driver). *)
Inductive status := SOk | SPanic | SBad.

Definition andthen (r : enc * status) (k : enc -> enc * status) : enc * status :=
  match r with
  | (e, SOk) => k e
  | _ => r
  end.

(** [Encoder.Integer], ..., [Encoder.Interval] *)
Definition put_leaf (tag : Z) (l : leaf) (e : enc) : enc * status :=
  if leaf_panics l then (e, SPanic) else (set_w e (w_leaf (e_w e) tag l), SOk).

(** Programs over the Encoder's own methods: a primitive write, [Encoder.Struct] with a
    callback made of further calls, or a callback that panics by itself. *)
Inductive prog :=
| PLeaf (tag : Z) (l : leaf)
| PStruct (tag : Z) (body : list prog)
| PAbort.

(** The callback of [Encoder.Struct]: the calls one after the other, until one panics. *)
Definition run_seq (f : prog -> enc -> enc * status) : list prog -> enc -> enc * status :=
  fix go (ps : list prog) (e : enc) : enc * status :=
    match ps with
    | [] => (e, SOk)
    | q :: qs => andthen (f q e) (go qs)
    end.

(** [Encoder.Struct(tag, f)]: [enc.w.Struct(tag, func(w) { f(&Encoder{enc.extension, w}) })] *)
Definition in_struct (tag : Z) (body : enc -> enc * status) (e : enc) : enc * status :=
  let '(w1, off) := w_open (e_w e) tag in
  andthen (body (set_w e w1)) (fun e2 => (set_w e2 (w_close (e_w e2) off), SOk)).

Fixpoint run_prog (p : prog) (e : enc) : enc * status :=
  match p with
  | PLeaf tag l => put_leaf tag l e
  | PStruct tag body => in_struct tag (run_seq run_prog body) e
  | PAbort => (e, SPanic)
  end.

(* ------------------------------------------------------------------------------------ *)
(** * Reflective plans (what [encodeFunc(ty)] returns) and their execution *)

(** Leaf encode functions chosen by [reflect.Kind]. *)
Inductive lkind := KInt | KLong | KBool | KStr | KByteSlice | KDuration.

(** [fieldInfo] + resolved numeric tag. *)
Record fopts := FOpts { f_tag : Z; f_omit : bool; f_range : option vrange; f_setver : bool }.

Inductive plan :=
| PlLeaf (k : lkind)
| PlPtr (p : plan)                  (* buildPointerEncodeFunc: all pointer levels removed *)
| PlSlice (p : plan)                (* buildSliceEncodeFunc, non-byte element *)
| PlStruct (fs : list fplan)        (* buildStructEncodeFunc *)
| PlIface                           (* reflect.Interface: e.encodeValue(tag, v.Elem()) at run time *)
with fplan :=
| FStatic (o : fopts) (p : plan)    (* ffunc = encodeFuncFor(fldT.Type), wrapped per options *)
| FDynamic.                         (* interface field without tag: tag of the dynamic type *)

(** Go values, as far as the plans look at them. *)
Inductive value :=
| VLeaf (l : leaf)
| VNil                              (* nil pointer, nil interface *)
| VPtr (v : value)                  (* non-nil pointer, all levels dereferenced *)
| VList (vs : list value)           (* slice (nil = []) *)
| VStruct (fs : list value)         (* the planned fields, in order *)
| VIface (ty : Z) (v : value).      (* non-nil interface holding a [ty] *)

Definition leaf_zero (l : leaf) : bool :=
  match l with
  | LInt v => v =? 0
  | LLong v => v =? 0
  | LBool b => negb b
  | LText s => match s with [] => true | _ => false end
  | LBytes s => match s with [] => true | _ => false end   (* the driver uses nil for empty *)
  | LInterval s => s =? 0
  end.

(** [reflect.Value.IsZero] *)
Fixpoint is_zero (v : value) : bool :=
  match v with
  | VLeaf l => leaf_zero l
  | VNil => true
  | VPtr _ => false
  | VList vs => match vs with [] => true | _ => false end
  | VStruct fs => forallb is_zero fs
  | VIface _ _ => false
  end.

Definition leaf_matches (k : lkind) (l : leaf) : bool :=
  match k, l with
  | KInt, LInt _ | KLong, LLong _ | KBool, LBool _ | KStr, LText _
  | KByteSlice, LBytes _ | KDuration, LInterval _ => true
  | _, _ => false
  end.

(** [v.Interface().(Version)]: the version-carrying struct of the harness has exactly the
    two planned fields major, minor. *)
Definition value_version (v : value) : option ver :=
  match v with
  | VStruct [VLeaf (LInt a); VLeaf (LInt b)] => Some (a, b)
  | _ => None
  end.

Section Exec.
  (** [lk ty]: the function returned by [encodeFuncFor(ty)] ([None]: [encodeFunc] panics:
      unsupported kind, missing tag).  [tag_of ty]: [getTagForType]. *)
  Variable lk : Z -> option plan.
  Variable tag_of : Z -> option Z.

  (** [e.encodeValue(tag, v)] for a value of dynamic type [ty] is [dyn ty ...] below.
      Field wrappers, outermost first: applySetVersionEncode (sets the version, always),
      applyVersionRangeEncode (skips the field), applyOmitEmptyEncode (skips zero values). *)
  (** [e.encodeValue(tag, v)] with [v] of dynamic type [ty]: cache lookup, then the plan. *)
  Definition dyn (rec : plan -> Z -> value -> enc -> enc * status) (ty : Z) (tag : Z) (v : value) (e : enc)
    : enc * status :=
    match lk ty with
    | Some q => rec q tag v (add_log e ty)
    | None => (add_log e ty, SPanic)
    end.

  (** applySetVersionEncode: [e.setVersion(v.Interface().(Version))] ([None]: ill-typed). *)
  Definition field_setver (o : fopts) (x : value) (e : enc) : option enc :=
    if f_setver o
    then match value_version x with
         | Some vv => Some (set_ext e (Some vv))
         | None => None
         end
    else Some e.

  (** applyVersionRangeEncode / applyOmitEmptyEncode: is the field skipped? *)
  Definition field_skipped (o : fopts) (x : value) (e : enc) : bool :=
    negb (match f_range o with
          | Some r => version_in (e_ext e) r
          | None => true
          end)
    || (f_omit o && is_zero x).

  (** One entry of [fieldsEncode]. *)
  Definition exec_field (rec : plan -> Z -> value -> enc -> enc * status) (f : fplan) (x : value) (e : enc)
    : enc * status :=
    match f with
    | FStatic o q =>
        match field_setver o x e with
        | None => (e, SBad)
        | Some e1 => if field_skipped o x e1 then (e1, SOk) else rec q (f_tag o) x e1
        end
    | FDynamic =>
        match x with
        | VNil => (e, SOk)
        | VIface ty v' =>
            match tag_of ty with
            | None => (e, SPanic)
            | Some t => dyn rec ty t v' e
            end
        | _ => (e, SBad)
        end
    end.

  (** [for i := range v.Len() { ff(e, tag, v.Index(i)) }] *)
  Definition exec_seq (f : value -> enc -> enc * status) : list value -> enc -> enc * status :=
    fix go (vs : list value) (e : enc) : enc * status :=
      match vs with
      | [] => (e, SOk)
      | x :: xs => andthen (f x e) (go xs)
      end.

  (** [for _, fe := range fieldsEncode { fe(e, v) }] *)
  Definition exec_fields (g : fplan -> value -> enc -> enc * status)
    : list fplan -> list value -> enc -> enc * status :=
    fix go (fs : list fplan) (vs : list value) (e : enc) {struct vs} : enc * status :=
      match fs, vs with
      | [], [] => (e, SOk)
      | f :: fs', x :: xs => andthen (g f x e) (go fs' xs)
      | _, _ => (e, SBad)
      end.

  Fixpoint exec (p : plan) (tag : Z) (v : value) (e : enc) {struct v} : enc * status :=
    match p, v with
    | PlLeaf k, VLeaf l => if leaf_matches k l then put_leaf tag l e else (e, SBad)
    | PlPtr _, VNil => (e, SOk)
    | PlPtr q, VPtr v' => exec q tag v' e
    | PlSlice q, VList vs => exec_seq (exec q tag) vs e
    | PlStruct fs, VStruct vs => in_struct tag (exec_fields (exec_field exec) fs vs) e
    | PlIface, VNil => (e, SOk)
    | PlIface, VIface ty v' => dyn exec ty tag v' e
    | _, _ => (e, SBad)
    end.

  (** [Encoder.TagAny(tag, value)] for a value whose static type [ty] takes the reflective
      path: [enc.encodeValue(tag, reflect.ValueOf(v))]. *)
  Definition encode_top (ty : Z) (tag : Z) (v : value) (e : enc) : enc * status :=
    dyn exec ty tag v e.
End Exec.

(** The message carries its own version first: following the first field of each leading
    structure (no options on the way down) reaches a set-version field before anything
    is asked about the version. KMIP messages have this shape (RequestMessage >
    RequestHeader > ProtocolVersion). *)
Fixpoint sets_first (p : plan) (v : value) {struct v} : bool :=
  match v with
  | VPtr v' => match p with PlPtr q => sets_first q v' | _ => false end
  | VStruct (x :: _) =>
      match p with
      | PlStruct (FStatic o q :: _) =>
          if f_setver o
          then match value_version x with Some _ => true | None => false end
          else match f_range o with
               | None => negb (f_omit o) && sets_first q x
               | Some _ => false
               end
      | _ => false
      end
  | _ => false
  end.

(* ------------------------------------------------------------------------------------ *)
(** * Call histories on one Encoder *)

Inductive call :=
| CProg (p : prog)                       (* direct use of the Encoder's methods *)
| CEncode (ty : Z) (tag : Z) (v : value) (* Encoder.TagAny on a reflectively encoded type *)
| CClear                                 (* Encoder.Clear *)
| CBytes.                                (* Encoder.Bytes (copied by the caller) *)

Inductive obs :=
| OOk
| OPanic
| OBad
| OView (v : view).

Definition obs_of_status (s : status) : obs :=
  match s with SOk => OOk | SPanic => OPanic | SBad => OBad end.

Definition settle (e : enc) (s : status) : enc :=
  match s with
  | SOk => e
  | _ => set_w e (w_unwind (e_w e))
  end.

Section Calls.
  Variable lk : Z -> option plan.
  Variable tag_of : Z -> option Z.

  (** One top-level call; a panic is recovered by the caller, the encoder keeps the state
      it had when the panic was raised. *)
  Definition do_call (c : call) (e : enc) : enc * obs :=
    match c with
    | CProg p => let '(e', s) := run_prog p e in (settle e' s, obs_of_status s)
    | CEncode ty tag v => let '(e', s) := encode_top lk tag_of ty tag v e in (settle e' s, obs_of_status s)
    | CClear => (enc_clear e, OOk)
    | CBytes => (e, OView (w_view (e_w e)))
    end.

  Fixpoint run_calls (cs : list call) (e : enc) : enc * list obs :=
    match cs with
    | [] => (e, [])
    | c :: cs' =>
        let '(e1, o) := do_call c e in
        let '(e2, os) := run_calls cs' e1 in
        (e2, o :: os)
    end.
End Calls.

(* ------------------------------------------------------------------------------------ *)
(** * The Decoder object (ttlv/decoder.go)

    [Decoder{*extension, r reader}]; nested decoders ([Decoder.Struct]) share the extension
    pointer, each has its own reader over the children of the structure.  The three
    readers are abstracted to a cursor over the list of items at the current level
    ([reader.Tag()] = tag of the first item, 0 at the end; a structure's unread children
    are skipped when its callback returns). *)
Definition cursor := list item.

(** [Decoder.Tag] *)
Definition c_tag (c : cursor) : Z :=
  match c with
  | [] => 0
  | IPrim t _ :: _ => t
  | IStruct t _ :: _ => t
  end.

(** What [decodeFunc(ty)] returns. *)
Inductive dplan :=
| DLeaf (k : lkind)
| DPtr (p : dplan)                      (* buildPointerDecodeFunc *)
| DSlice (elem_is_ptr : bool) (p : dplan) (* buildSliceDecodeFunc: decodeFuncFor( *elem ) in a loop *)
| DStruct (fs : list dfield)            (* buidStructDecodeFunc *)
| DIface                                (* reflect.Interface: d.decodeValue(tag, value.Elem()) *)
with dfield :=
| DField (o : fopts) (p : dplan).

(** Result of a decode call: value, the decoder's version afterwards, the rest of the
    cursor; an [error]; a panic; [RBad]: model fuel exhausted / ill-typed (never observed). *)
Inductive dr (A : Type) : Type :=
| ROk (a : A) (x : ext) (c : cursor)
| RErr
| RPanic
| RBad.
Arguments ROk {A}. Arguments RErr {A}. Arguments RPanic {A}. Arguments RBad {A}.

(** [reflect.Value.SetZero] *)
Fixpoint dzero (p : dplan) : value :=
  match p with
  | DLeaf KInt => VLeaf (LInt 0)
  | DLeaf KLong => VLeaf (LLong 0)
  | DLeaf KBool => VLeaf (LBool false)
  | DLeaf KStr => VLeaf (LText [])
  | DLeaf KByteSlice => VLeaf (LBytes [])
  | DLeaf KDuration => VLeaf (LInterval 0)
  | DPtr _ => VNil
  | DSlice _ _ => VList []
  | DStruct fs => VStruct (map (fun f => match f with DField _ q => dzero q end) fs)
  | DIface => VNil
  end.

Definition dr_map {A B} (g : A -> B) (r : dr A) : dr B :=
  match r with
  | ROk a x c => ROk (g a) x c
  | RErr => RErr
  | RPanic => RPanic
  | RBad => RBad
  end.

(** Field wrappers, outermost first: applySetVersionDecode (after a successful decode, the
    version becomes the decoded value's), applyVersionRangeDecode (a field outside the
    current version is optional), applyOmitEmptyDecode (optional). *)
Definition field_absent (o : fopts) (x : ext) (c : cursor) : bool :=
  let missing := negb (c_tag c =? f_tag o) in
  (match f_range o with
   | Some r => negb (version_in x r) && missing
   | None => false
   end)
  || (f_omit o && missing).

Definition after_setver (o : fopts) (r : dr value) : dr value :=
  if f_setver o then
    match r with
    | ROk v _ c =>
        match value_version v with
        | Some vv => ROk v (Some vv) c
        | None => RBad
        end
    | _ => r
    end
  else r.

(** [for d.Tag() == tag { elem := reflect.New(elemTy); ff(d, tag, elem); append }] *)
Definition dec_loop (elem : ext -> cursor -> dr value) (isptr : bool) (tag : Z)
  : nat -> ext -> cursor -> list value -> dr value :=
  fix loop (n : nat) (x : ext) (c : cursor) (acc : list value) : dr value :=
    match n with
    | O => RBad
    | S n' =>
        if c_tag c =? tag then
          match elem x c with
          | ROk v x' c' => loop n' x' c' (acc ++ [if isptr then VPtr v else v])
          | RErr => RErr
          | RPanic => RPanic
          | RBad => RBad
          end
        else ROk (VList acc) x c
    end.

(** One entry of [fieldsDecode]. *)
Definition dec_field (rec : dplan -> Z -> ext -> cursor -> dr value) (fd : dfield) (x : ext) (c : cursor)
  : dr value :=
  match fd with
  | DField o q =>
      after_setver o (if field_absent o x c then ROk (dzero q) x c else rec q (f_tag o) x c)
  end.

(** [for _, fd := range fieldsDecode { if err := fd(d, value); err != nil { return err } }] *)
Definition dec_fields (g : dfield -> ext -> cursor -> dr value)
  : list dfield -> ext -> cursor -> dr (list value) :=
  fix go (fs : list dfield) (x : ext) (c : cursor) : dr (list value) :=
    match fs with
    | [] => ROk [] x c
    | fd :: fs' =>
        match g fd x c with
        | ROk v x1 c1 => dr_map (cons v) (go fs' x1 c1)
        | RErr => RErr
        | RPanic => RPanic
        | RBad => RBad
        end
    end.

Fixpoint dec (fuel : nat) (p : dplan) (tag : Z) (x : ext) (c : cursor) {struct fuel} : dr value :=
  match fuel with
  | O => RBad
  | S f =>
      match p with
      | DLeaf k =>
          (* reader.Integer(tag) ...: assertType then the value *)
          match c with
          | IPrim t l :: rest => if (t =? tag) && leaf_matches k l then ROk (VLeaf l) x rest else RErr
          | _ => RErr
          end
      | DPtr q =>
          if c_tag c =? tag then dr_map VPtr (dec f q tag x c) else ROk VNil x c
      | DSlice isptr q => dec_loop (dec f q tag) isptr tag (S (length c)) x c []
      | DStruct fs =>
          (* Decoder.Struct: the fields read the children, whatever is left is skipped *)
          match c with
          | IStruct t ch :: rest =>
              if t =? tag then
                match dec_fields (dec_field (dec f)) fs x ch with
                | ROk vs x' _ => ROk (VStruct vs) x' rest
                | RErr => RErr
                | RPanic => RPanic
                | RBad => RBad
                end
              else RErr
          | _ => RErr
          end
      | DIface => RPanic
      end
  end.

(** Successive [Decoder.TagAny] calls on one Decoder (one buffer holding several values). *)
Inductive dobs := DoOk (v : value) | DoErr | DoPanic | DoBad.

Fixpoint run_decodes (fuel : nat) (calls : list (dplan * Z)) (x : ext) (c : cursor) : list dobs :=
  match calls with
  | [] => []
  | (p, tag) :: rest =>
      match dec fuel p tag x c with
      | ROk v x' c' => DoOk v :: run_decodes fuel rest x' c'
      | RErr => [DoErr]       (* the caller gives up on this decoder *)
      | RPanic => [DoPanic]
      | RBad => [DoBad]
      end
  end.

(** The plan never asks for, nor sets, the version. *)
Fixpoint no_query (p : dplan) : bool :=
  match p with
  | DLeaf _ => true
  | DPtr q => no_query q
  | DSlice _ q => no_query q
  | DStruct fs =>
      forallb (fun f => match f with
                        | DField o q =>
                            negb (f_setver o) && match f_range o with None => true | Some _ => false end
                            && no_query q
                        end) fs
  | DIface => true
  end.

(** The value carries its own version first (decode side of [sets_first]). *)
Fixpoint dsets_first (p : dplan) : bool :=
  match p with
  | DStruct (DField o q :: _) =>
      match f_range o with
      | Some _ => false
      | None =>
          if f_setver o then no_query q
          else negb (f_omit o) && dsets_first q
      end
  | _ => false
  end.

(* ------------------------------------------------------------------------------------ *)
(** * The plan caches as a transition system (encodeFuncFor / decodeFuncFor)

    [P] is the type of plans, [deps ty] the types whose plans [encodeFunc(ty)] asks for
    (through nested [encodeFuncFor] calls, in this order), [mk ty subs] the plan it
    assembles from them ([None]: it panics; the panic is recovered by whoever called the
    codec, who then goes on with his next message).  The same system describes the decode cache. *)
Fixpoint clookup {P} (c : list (Z * P)) (ty : Z) : option P :=
  match c with
  | [] => None
  | (k, p) :: r => if k =? ty then Some p else clookup r ty
  end.

Fixpoint replace_nth {A} (n : nat) (x : A) (l : list A) : list A :=
  match l, n with
  | [], _ => []
  | _ :: r, O => x :: r
  | y :: r, S n' => y :: replace_nth n' x r
  end.

Section Cache.
  Variable P : Type.
  Variable deps : Z -> list Z.
  Variable mk : Z -> list P -> option P.

  (** An activation of [encodeFunc(fr_ty)]: dependencies still to ask for, plans obtained. *)
  Record frame := Frame { fr_ty : Z; fr_todo : list Z; fr_got : list P }.

  (** The next shared-memory access of a thread. *)
  Inductive pend :=
  | AtLoad (ty : Z)              (* encodeFuncsCache.Load(ty) *)
  | AtStore (ty : Z) (p : P).    (* encodeFuncsCache.Store(ty, f) *)

  (** A thread: pending access, the activations it is nested in (innermost first), the
      lookups still to do for the message being encoded, the lookups of the later
      messages, and the (type, plan) pairs its lookups returned so far. *)
  Inductive tstate :=
  | TRun (pd : pend) (stack : list frame) (cur : list Z) (later : list (list Z)) (res : list (Z * P))
  | TDone (res : list (Z * P)).

  (** Start the next message that needs a lookup. *)
  Fixpoint next_msg (later : list (list Z)) (res : list (Z * P)) : tstate :=
    match later with
    | [] => TDone res
    | [] :: gs => next_msg gs res
    | (j :: js) :: gs => TRun (AtLoad j) [] js gs res
    end.

  (** Continue an activation up to its next cache access.  When [encodeFunc] panics the
      panic unwinds every enclosing activation (none of them stores anything) up to the
      caller of the top-level call, which recovers and goes on with its next message. *)
  Definition resume (fr : frame) (stack : list frame) (cur : list Z) (later : list (list Z))
      (res : list (Z * P)) : tstate :=
    match fr_todo fr with
    | d :: ds => TRun (AtLoad d) (Frame (fr_ty fr) ds (fr_got fr) :: stack) cur later res
    | [] =>
        match mk (fr_ty fr) (fr_got fr) with
        | Some p => TRun (AtStore (fr_ty fr) p) stack cur later res
        | None => next_msg later res
        end
    end.

  (** [encodeFuncFor(ty)] returns [p] to its caller. *)
  Definition deliver (ty : Z) (p : P) (stack : list frame) (cur : list Z) (later : list (list Z))
      (res : list (Z * P)) : tstate :=
    match stack with
    | fr :: rest => resume (Frame (fr_ty fr) (fr_todo fr) (fr_got fr ++ [p])) rest cur later res
    | [] =>
        match cur with
        | j :: js => TRun (AtLoad j) [] js later (res ++ [(ty, p)])
        | [] => next_msg later (res ++ [(ty, p)])
        end
    end.

  (** One atomic access by one thread, then its local computation up to the next access. *)
  Definition step_thread (c : list (Z * P)) (t : tstate) : list (Z * P) * tstate :=
    match t with
    | TRun (AtLoad ty) stack cur later res =>
        match clookup c ty with
        | Some p => (c, deliver ty p stack cur later res)
        | None => (c, resume (Frame ty (deps ty) []) stack cur later res)
        end
    | TRun (AtStore ty p) stack cur later res => ((ty, p) :: c, deliver ty p stack cur later res)
    | TDone _ => (c, t)
    end.

  Definition sys := (list (Z * P) * list tstate)%type.

  Definition step_sys (s : sys) (i : nat) : sys :=
    match nth_error (snd s) i with
    | Some t => let '(c', t') := step_thread (fst s) t in (c', replace_nth i t' (snd s))
    | None => s
    end.

  (** A schedule is any list of thread indices. *)
  Definition run_sched (sched : list nat) (s : sys) : sys := fold_left step_sys sched s.

  (** A thread's work: for each of its messages, the lookups encoding it performs. *)
  Definition init_thread (jobs : list (list Z)) : tstate := next_msg jobs [].

  Definition init_sys (c : list (Z * P)) (jobs : list (list (list Z))) : sys := (c, map init_thread jobs).

  Definition t_running (t : tstate) : bool := match t with TRun _ _ _ _ _ => true | _ => false end.

  (** After the schedule proper, every thread in turn gets [n] more turns (a turn of a
      thread that has finished changes nothing). *)
  Definition drain_sched (threads n : nat) : list nat :=
    concat (map (fun i => repeat i n) (seq 0 threads)).

  Definition t_results (t : tstate) : list (Z * P) :=
    match t with TRun _ _ _ _ r => r | TDone r => r end.
End Cache.

Arguments Frame {P}. Arguments fr_ty {P}. Arguments fr_todo {P}. Arguments fr_got {P}.
Arguments AtLoad {P}. Arguments AtStore {P}.
Arguments TRun {P}. Arguments TDone {P}.
Arguments t_running {P}. Arguments t_results {P}.
Arguments init_thread {P}. Arguments init_sys {P}.

(* ------------------------------------------------------------------------------------ *)
(** * The encode-plan builder as an instance ([encodeFunc] over a table of types) *)

Inductive fdef :=
| FDef (o : fopts) (ty : Z)   (* exported field with a resolved tag *)
| FDyn                        (* interface field, tag resolved to 0 *)
| FBad.                       (* "Missing tag for field" / set-version on a non-Version type: panic *)

Inductive tydef :=
| TLeaf (k : lkind)
| TPtr (base : Z)             (* pointer type; [base] = type with all pointer levels removed *)
| TSlice (elem : Z)           (* slice of a non-byte element type *)
| TStruct (fs : list fdef)
| TIface
| TBad.                       (* "Unsupported type" *)

Definition ttable := list (Z * tydef).

Definition tdef (tbl : ttable) (ty : Z) : tydef :=
  match clookup tbl ty with Some d => d | None => TBad end.

(** The nested [encodeFuncFor] calls of [buildStructEncodeFunc], in field order, up to the
    first field that makes it panic. *)
Fixpoint struct_deps (fs : list fdef) : list Z :=
  match fs with
  | [] => []
  | FDef _ ty :: r => ty :: struct_deps r
  | FDyn :: r => struct_deps r
  | FBad :: _ => []
  end.

Definition deps_of (tbl : ttable) (ty : Z) : list Z :=
  match tdef tbl ty with
  | TPtr b => [b]
  | TSlice e => [e]
  | TStruct fs => struct_deps fs
  | _ => []
  end.

Fixpoint struct_mk (fs : list fdef) (subs : list plan) : option (list fplan) :=
  match fs with
  | [] => Some []
  | FDef o _ :: r =>
      match subs with
      | p :: ps => option_map (cons (FStatic o p)) (struct_mk r ps)
      | [] => None
      end
  | FDyn :: r => option_map (cons FDynamic) (struct_mk r subs)
  | FBad :: _ => None
  end.

Definition mk_of (tbl : ttable) (ty : Z) (subs : list plan) : option plan :=
  match tdef tbl ty with
  | TLeaf k => Some (PlLeaf k)
  | TPtr _ => match subs with [p] => Some (PlPtr p) | _ => None end
  | TSlice _ => match subs with [p] => Some (PlSlice p) | _ => None end
  | TStruct fs => option_map PlStruct (struct_mk fs subs)
  | TIface => Some PlIface
  | TBad => None
  end.

(** The plan of a type computed without any cache (the pure result the caches must agree
    with); [fuel] bounds the nesting depth of types. *)
Fixpoint all_some {A} (l : list (option A)) : option (list A) :=
  match l with
  | [] => Some []
  | Some a :: r => option_map (cons a) (all_some r)
  | None :: _ => None
  end.

Fixpoint pure_plan (tbl : ttable) (fuel : nat) (ty : Z) : option plan :=
  match fuel with
  | O => None
  | S f =>
      match all_some (map (pure_plan tbl f) (deps_of tbl ty)) with
      | Some subs => mk_of tbl ty subs
      | None => None
      end
  end.

(* ------------------------------------------------------------------------------------ *)
(** * Threads that encode messages through the shared cache *)

(** A message: static type, tag, value. *)
Definition msg := (Z * Z * value)%type.

(** The cache lookups (top-level and dynamic) that encoding the messages performs, given
    the plans: the ghost log of [encode_top] on fresh encoders. *)
Definition lookups_of (lk : Z -> option plan) (tag_of : Z -> option Z) (ms : list msg) : list (list Z) :=
  map (fun m : msg => match m with
                      | (ty, tag, v) => e_log (fst (encode_top lk tag_of ty tag v (enc_new KBin)))
                      end) ms.

(** What a thread encodes with the plans its lookups returned: each message on a new
    binary encoder (ttlv.MarshalTTLV). *)
Definition lk_of_results (res : list (Z * plan)) (ty : Z) : option plan := clookup res ty.

Definition marshal (lk : Z -> option plan) (tag_of : Z -> option Z) (m : msg) : obs * view :=
  match m with
  | (ty, tag, v) =>
      let '(e, s) := encode_top lk tag_of ty tag v (enc_new KBin) in
      (obs_of_status s, w_view (e_w e))
  end.

(** N threads, one schedule, then everybody finishes; returns what each thread encoded.
    [fuel] bounds the nesting of types, [dfuel] the cache accesses of one thread. *)
Definition run_threads (tbl : ttable) (tag_of : Z -> option Z) (fuel dfuel : nat)
    (work : list (list msg)) (sched : list nat) : list (list (obs * view)) :=
  let lkp := pure_plan tbl fuel in
  let jobs := map (lookups_of lkp tag_of) work in
  let s := run_sched plan (deps_of tbl) (mk_of tbl) (sched ++ drain_sched (length work) dfuel)
             (init_sys [] jobs) in
  map (fun '(ms, t) => map (marshal (lk_of_results (t_results t)) tag_of) ms)
      (combine work (snd s)).
