(** Reflective certificates on the finite (abstract) instance of the client connection model
    (ConnClient.v): injective state encoding, reachable set closed under the step function,
    safety predicates, rankings, terminal-state checks.  Everything here is a boolean computed
    by vm_compute; ConnClientProofs.v turns these into theorems about the concrete model. *)
From Coq Require Import List Bool PArith Arith ZArith Lia FMapPositive.
From KV Require Import Lts ConnClient.
Import ListNotations.

Module PM := PositiveMap.

(** * A. The encoding of abstract states is injective *)

Lemma enc_l_inj : forall a b, enc_l a = enc_l b -> a = b.
Proof.
  induction a as [|n r IH]; intros b H.
  - destruct b as [|m r']; [reflexivity|]. cbn in H. destruct m; cbn in H; discriminate.
  - destruct b as [|m r']; cbn in H.
    + destruct n; cbn in H; discriminate.
    + revert m H. induction n as [|n IHn]; intros m H; destruct m as [|m]; cbn in H; try discriminate.
      * injection H as H. apply IH in H. subst. reflexivity.
      * injection H as H. apply IHn in H. injection H as H1 H2. subst. reflexivity.
Qed.

Ltac enum_inj := intros a b H; destruct a, b; cbn in H; try reflexivity; discriminate.
Lemma n_err_inj : forall a b, n_err a = n_err b -> a = b. Proof. enum_inj. Qed.
Lemma n_bool_inj : forall a b, n_bool a = n_bool b -> a = b. Proof. enum_inj. Qed.
Lemma n_rl_inj : forall a b, n_rl a = n_rl b -> a = b. Proof. enum_inj. Qed.
Lemma n_wl_inj : forall a b, n_wl a = n_wl b -> a = b. Proof. enum_inj. Qed.
Lemma n_cl_inj : forall a b, n_cl a = n_cl b -> a = b. Proof. enum_inj. Qed.
Lemma n_u_inj : forall a b, n_u a = n_u b -> a = b. Proof. enum_inj. Qed.
Lemma n_ob_inj : forall a b, n_ob a = n_ob b -> a = b.
Proof. intros [[|]|] [[|]|] H; cbn in H; try reflexivity; discriminate. Qed.
Lemma n_oerr_inj : forall a b, n_oerr a = n_oerr b -> a = b.
Proof. intros [[|]|] [[|]|] H; cbn in H; try reflexivity; discriminate. Qed.
Lemma n_ech_inj : forall a b, n_ech a = n_ech b -> a = b.
Proof. intros [|[|]|] [|[|]|] H; cbn in H; try reflexivity; discriminate. Qed.

Ltac inj_fields :=
  repeat match goal with
  | H : n_u _ = n_u _ |- _ => apply n_u_inj in H
  | H : n_rl _ = n_rl _ |- _ => apply n_rl_inj in H
  | H : n_wl _ = n_wl _ |- _ => apply n_wl_inj in H
  | H : n_cl _ = n_cl _ |- _ => apply n_cl_inj in H
  | H : n_err _ = n_err _ |- _ => apply n_err_inj in H
  | H : n_bool _ = n_bool _ |- _ => apply n_bool_inj in H
  | H : n_ob _ = n_ob _ |- _ => apply n_ob_inj in H
  | H : n_oerr _ = n_oerr _ |- _ => apply n_oerr_inj in H
  | H : n_ech _ = n_ech _ |- _ => apply n_ech_inj in H
  end.

Lemma conn_nats_inj : forall a b, conn_nats a = conn_nats b -> a = b.
Proof.
  intros [a1 a2 a3 a4 a5 a6 a7 a8 a9 a10 a11 a12 a13 a14] [b1 b2 b3 b4 b5 b6 b7 b8 b9 b10 b11 b12 b13 b14] H.
  unfold conn_nats in H. cbn in H. injection H. intros. inj_fields. subst. reflexivity.
Qed.

Lemma to_nats_inj : forall a b : astate, to_nats a = to_nats b -> a = b.
Proof.
  intros [a1 a2 a3 a4 a5 a6 a7 a8 a9 a10 a11 a12 a13] [b1 b2 b3 b4 b5 b6 b7 b8 b9 b10 b11 b12 b13] H.
  destruct a10, b10, a13, b13. unfold to_nats, conn_nats in H. cbn in H.
  injection H. intros. inj_fields. subst. reflexivity.
Qed.

Lemma enc_inj : forall a b : astate, enc a = enc b -> a = b.
Proof. intros a b H. apply to_nats_inj. apply enc_l_inj. exact H. Qed.

Lemma oenc_inj : forall a b : orphan bool, oenc a = oenc b -> a = b.
Proof.
  intros [c1 p1] [c2 p2] H. apply enc_l_inj in H. destruct c1, c2. unfold orphan_nats, conn_nats in H. cbn in H.
  injection H. intros. inj_fields. subst. reflexivity.
Qed.

(** * B. Certificates on the abstract (finite) instance *)


(** The reachable set, computed by the untrusted exploration of Lts.v; only its closure is used. *)
Definition RA : list astate := fst (reach_set astep' enc 3000 ainit).

Definition is_upanic (p : upc) := match p with UPanic => true | _ => false end.
Definition is_cpanic (p : clpc) := match p with CPanic => true | _ => false end.
Definition is_retok (p : upc) := match p with URetOk => true | _ => false end.
Definition is_uidle (p : upc) := match p with UIdle => true | _ => false end.

(** Safety predicates checked on every reachable abstract state. *)
Definition safe_nopanic (s : astate) : bool := negb (is_upanic (u _ _ s)) && negb (is_cpanic (cl _ _ s)).
Definition safe_own (s : astate) : bool := match got _ _ s with Some false => false | _ => true end.
Definition safe_one_outstanding (s : astate) : bool := negb (ovf _ (cn _ _ s)).
Definition safe_retry (s : astate) : bool := ntx _ _ s <=? 4.
Definition safe_closed (s : astate) : bool :=
  if after_close _ _ s then match u _ _ s with U0 | URetErr => true | _ => false end else true.
Definition safe_idle_clean (s : astate) : bool :=
  if is_uidle (u _ _ s) && hasconn _ _ s && is_none (cctx _ (cn _ _ s)) && negb (cclosed _ (cn _ _ s))
  then is_none (srv_req _ (cn _ _ s)) && is_none (cwire _ (cn _ _ s)) && is_none (rl_msg _ (cn _ _ s))
       && is_none (wl_msg _ (cn _ _ s))
  else true.
Definition safe_all (s : astate) : bool :=
  safe_nopanic s && safe_own s && safe_one_outstanding s && safe_retry s && safe_closed s && safe_idle_clean s.

Lemma cert_init : inset astate enc (set_of astate enc RA) ainit = true.
Proof. vm_compute. reflexivity. Qed.
Lemma cert_closed : closed astep' enc RA = true.
Proof. vm_compute. reflexivity. Qed.
Lemma cert_safe : forallb safe_all RA = true.
Proof. vm_compute. reflexivity. Qed.

(** ** Termination: without new calls and new Close invocations every execution is finite *)

(** Untrusted computation of a ranking: height of a state in the (acyclic) graph of [astepF]. *)
Fixpoint height (step : astate -> list astate) (fuel : nat) (s : astate) (m : PM.t nat) : PM.t nat * nat :=
  match PM.find (enc s) m with
  | Some h => (m, h)
  | None =>
    match fuel with
    | O => (m, 0)
    | S f =>
      let '(m', h) := fold_left (fun '(m, h) t => let '(m2, ht) := height step f t m in (m2, Nat.max h (S ht)))
                                (step s) (m, 0) in
      (PM.add (enc s) h m', h)
    end
  end.

Definition HF : PM.t nat := fold_left (fun m s => fst (height astepF 4000 s m)) RA (PM.empty nat).
Definition rankF (s : astate) : nat := match PM.find (enc s) HF with Some h => h | None => 0 end.

Lemma cert_term_dec : decreasing astepF rankF RA = true.
Proof. vm_compute. reflexivity. Qed.
Lemma cert_term_bound : forallb (fun s => rankF s <=? 127) RA = true.
Proof. vm_compute. reflexivity. Qed.

(** ** Quiescence: where the goroutines are when none of them can move by itself *)

Lemma cert_quiescent : forallb (fun s => match astepQ s with [] => quiescent_ok _ _ s | _ => true end) RA = true.
Proof. vm_compute. reflexivity. Qed.

(** ** Abandoned connections wind up by themselves *)

Definition is_R3 (p : upc) := match p with R3 => true | _ => false end.
Definition OI : list (orphan bool) := map (orphan_of _ _) (filter (fun s => is_R3 (u _ _ s)) RA).
Definition OI_set : PS.t := set_of _ oenc OI.
(** distinct initial orphans only *)
Definition OI1 : list (orphan bool) :=
  snd (fold_left (fun '(sn, ac) o => if PS.mem (oenc o) sn then (sn, ac) else (PS.add (oenc o) sn, o :: ac)) OI (PS.empty, [])).
Definition RO : list (orphan bool) := fst (explore _ aostep' oenc 200 OI1 (set_of _ oenc OI1) OI1).

Fixpoint oheight (fuel : nat) (o : orphan bool) (m : PM.t nat) : PM.t nat * nat :=
  match PM.find (oenc o) m with
  | Some h => (m, h)
  | None =>
    match fuel with
    | O => (m, 0)
    | S f =>
      let '(m', h) := fold_left (fun '(m, h) t => let '(m2, ht) := oheight f t m in (m2, Nat.max h (S ht)))
                                (aostep' o) (m, 0) in
      (PM.add (oenc o) h m', h)
    end
  end.
Definition HO : PM.t nat := fold_left (fun m o => fst (oheight 500 o m)) RO (PM.empty nat).
Definition rankO (o : orphan bool) : nat := match PM.find (oenc o) HO with Some h => h | None => 0 end.

Lemma cert_orphan_init : forallb (inset _ oenc (set_of _ oenc RO)) OI = true.
Proof. vm_compute. reflexivity. Qed.
Lemma cert_orphan_closed : closed aostep' oenc RO = true.
Proof. vm_compute. reflexivity. Qed.
Lemma cert_orphan_dec : decreasing aostep' rankO RO = true.
Proof. vm_compute. reflexivity. Qed.
Lemma cert_orphan_bound : forallb (fun o => rankO o <=? 40) RO = true.
Proof. vm_compute. reflexivity. Qed.
Lemma cert_orphan_final : forallb (fun o => match aostep' o with [] => orphan_gone _ o | _ => true end) RO = true.
Proof. vm_compute. reflexivity. Qed.

(** ** Recovery: a call that starts on a client at rest, in a benign environment, succeeds *)

(** A client at rest: no call in progress, no goroutine able to move by itself, not closed. *)
Definition at_rest (s : astate) : bool :=
  is_uidle (u _ _ s) && negb (ccl _ _ s) && match astepQ s with [] => true | _ => false end.
Definition anew_call (s : astate) : astate := new_call bool unit (fun _ => false) (fun k => k) s false.

Definition GI : list astate := map anew_call (filter at_rest RA).
Definition GI1 : list astate :=
  snd (fold_left (fun '(sn, ac) o => if PS.mem (enc o) sn then (sn, ac) else (PS.add (enc o) sn, o :: ac)) GI (PS.empty, [])).
Definition RG : list astate := fst (explore _ astepG enc 500 GI1 (set_of _ enc GI1) GI1).
Definition HG : PM.t nat := fold_left (fun m s => fst (height astepG 1000 s m)) RG (PM.empty nat).
Definition rankG (s : astate) : nat := match PM.find (enc s) HG with Some h => h | None => 0 end.

Lemma cert_recover_init : forallb (inset _ enc (set_of _ enc RG)) GI = true.
Proof. vm_compute. reflexivity. Qed.
Lemma cert_recover_closed : closed astepG enc RG = true.
Proof. vm_compute. reflexivity. Qed.
Lemma cert_recover_dec : decreasing astepG rankG RG = true.
Proof. vm_compute. reflexivity. Qed.
Lemma cert_recover_bound : forallb (fun s => rankG s <=? 24) RG = true.
Proof. vm_compute. reflexivity. Qed.
Lemma cert_recover_final : forallb (fun s => match astepG s with [] => is_retok (u _ _ s) | _ => true end) RG = true.
Proof. vm_compute. reflexivity. Qed.

(** The computed sets and rankings are never unfolded outside this file. *)
Global Opaque RA HF OI1 RO HO GI1 RG HG.
