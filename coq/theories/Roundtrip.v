(** Well-formedness of a schema and conformance of a value, as decidable (boolean)
    predicates: the hypotheses of the struct-level round-trip theorem (RoundtripProofs.v).

    [wf_fields] is the static condition on a struct definition under which the reflective
    decoder cannot confuse an element that may be absent (omitempty, version-gated, pointer,
    slice) with an element of a later field: its tag differs from the tag of every later
    field, and no tag is 0 (0 is what the reader answers at the end of a structure).

    [conf_ty] says that a value is what the decoder reconstructs: it has the shape of its type,
    an element that the encoder omits (empty omitempty field, field outside the message's
    version) holds exactly the zero value the decoder puts there, pointers and slices hold
    things that are written as exactly one item, generic trees carry the tag of the position
    they sit in. It threads the protocol version exactly as the encoder does. *)
From Coq Require Import ZArith List Bool String.
From KV Require Import Base Wire Cursor Schema SchemaSem FaithfulProofs.
Import ListNotations.
Open Scope Z_scope.

Definition multi_enc (n : string) : bool :=
  String.eqb n "kmip.CredentialValue" || String.eqb n "kmip.KeyValue" || String.eqb n "kmip.KeyMaterial".

(** types written as exactly one item carrying the tag they are given *)
Definition one_item (t : ty) : bool :=
  match t with
  | TScalar _ => true
  | TNamed n => negb (multi_enc n)
  | _ => false
  end.

Definition lookahead (t : ty) : bool :=
  match t with TPtr _ | TSlice _ => true | _ => false end.

Definition wf_ty (t : ty) : bool :=
  match t with
  | TPtr t' | TSlice t' => one_item t'
  | TIface _ => false
  | _ => true
  end.

(** may the field write nothing? (static over-approximation) *)
Definition opt_field (fd : field) : bool :=
  f_omit fd || (match f_range fd with Some _ => true | None => false end) || lookahead (f_ty fd).

Fixpoint wf_fields (fl : list field) : bool :=
  match fl with
  | [] => true
  | fd :: rest =>
    negb (f_tag fd =? 0) && wf_ty (f_ty fd) &&
    (if opt_field fd then forallb (fun g => negb (f_tag g =? f_tag fd)) rest else true) &&
    (if f_setver fd then negb (f_omit fd) && (match f_range fd with None => true | Some _ => false end) else true) &&
    wf_fields rest
  end.

(** structures whose coding does not look at the protocol version: only ungated, required scalars *)
Definition plain_field (fd : field) : bool :=
  negb (f_tag fd =? 0) && negb (f_omit fd) && negb (f_setver fd) &&
  (match f_range fd with None => true | Some _ => false end) &&
  (match f_ty fd with TScalar _ => true | _ => false end).
Definition plain_struct (S : schema) (t : ty) : bool :=
  match t with
  | TNamed n =>
    match find_tdef S n with
    | Some d => negb (t_custom_enc d) && negb (t_custom_dec d) && forallb plain_field (t_fields d) &&
                negb (String.eqb n "ttlv.Value") && negb (String.eqb n "ttlv.Struct")
    | None => false
    end
  | _ => false
  end.

Definition scalar_ok (k : kind) (v : value) : bool :=
  match k, v with
  | KBool, VBool _ => true
  | KString, VStr _ => true
  | KBytes, VStr s => match s with [] => false | _ => true end
  | KBytes, VEmptyBytes => true
  | (KUint8 | KUint16 | KUint32 | KUint64), VInt z => 0 <=? z
  | (KInt8 | KInt16 | KInt32 | KInt64 | KTime | KDuration | KBigInt | KEnum _ | KMask _), VInt _ => true
  | _, _ => false
  end.

Definition ver_eqb (a b : ver) : bool := (fst a =? fst b) && (snd a =? snd b).
Definition vstate_eqb (a b : vstate) : bool :=
  match a, b with
  | None, None => true
  | Some x, Some y => ver_eqb x y
  | _, _ => false
  end.

(** a field the hand-written codecs treat positionally: a real tag, no version wrapper *)
Definition pos_field (fd : field) : bool :=
  negb (f_tag fd =? 0) && negb (f_setver fd) && (match f_range fd with None => true | Some _ => false end).

Section Conf.
  Variable S : schema.
  Variable OPS : op_table.
  Variable ATTRS : attr_table.
  Variable OBJS : obj_table.

  (** ---- conformance to the hand-written codecs, with open recursion: [cty] is [conf_ty]
      one fuel unit down *)
  Section ConfCustoms.
    Variable cty : vstate -> ty -> Z -> value -> option vstate.

    (** conforms and leaves the version state where it was (the hand-written decoders hand
        the same state to every element and return it) *)
    Definition keeps (st : vstate) (t : ty) (tag : Z) (v : value) : bool :=
      match cty st t tag v with Some s => vstate_eqb s st | None => false end.

    Definition shaped_trees (l : list value) : bool :=
      match trees_of l with
      | Some is => forallb tree_shaped is && forallb (fun k => negb (itag k =? 0)) is
      | None => false
      end.

    (** an operation payload held in the OperationPayload interface: a pointer to the type
        registered for (operation, direction), or an UnknownPayload carrying the operation *)
    Definition conf_payload (st : vstate) (side : bool) (op tag : Z) (payload : value) : bool :=
      match payload with
      | VIface (TPtr (TNamed n)) (VPtr w) =>
        match lookup_op OPS op with
        | Some (rq, rs) => String.eqb n (if side then rs else rq) && negb (multi_enc n) && keeps st (TNamed n) tag w
        | None =>
          String.eqb n "kmip.UnknownPayload" &&
          match find_tdef S "kmip.UnknownPayload", w with
          | Some d', VStruct n' [VInt op'; VList l] =>
            t_custom_enc d' && String.eqb n' "kmip.UnknownPayload" && (op' =? op) && shaped_trees l
          | _, _ => false
          end
        end
      | _ => false
      end.

    (** RequestBatchItem *)
    Definition conf_request_item (st : vstate) (d : tdef) (tag : Z) (fs : list value) : option vstate :=
      match fs with
      | [VInt op; VStr id; payload; ext] =>
        if t_custom_enc d &&
           ty_eqb (fty d 0) (TScalar (KEnum (ftag d 0))) && ty_eqb (fty d 1) (TScalar KBytes) &&
           (match fty d 2 with TIface _ => true | _ => false end) &&
           (match fty d 3 with TPtr _ => true | _ => false end) &&
           negb (ftag d 0 =? 0) && negb (ftag d 1 =? 0) && negb (ftag d 2 =? 0) && negb (ftag d 3 =? 0) &&
           negb (ftag d 1 =? ftag d 2) &&
           conf_payload st false op (ftag d 2) payload &&
           keeps st (fty d 3) (ftag d 3) ext
        then Some st else None
      | _ => None
      end.

    (** all tags real and pairwise distinct *)
    Fixpoint tags_distinct (l : list Z) : bool :=
      match l with
      | [] => true
      | x :: r => negb (x =? 0) && forallb (fun y => negb (y =? x)) r && tags_distinct r
      end.

    (** ResponseBatchItem: always written under TagBatchItem *)
    Definition conf_response_item (st : vstate) (d : tdef) (tag : Z) (fs : list value) : option vstate :=
      match fs with
      | [VInt op; VStr id; VInt status; VInt reason; VStr msg; VStr acv; payload; ext] =>
        if (tag =? TAG_BATCH_ITEM) && t_custom_enc d &&
           (match fty d 6 with TIface _ => true | _ => false end) &&
           ty_eqb (fty d 0) (TScalar (KEnum (ftag d 0))) && ty_eqb (fty d 1) (TScalar KBytes) &&
           ty_eqb (fty d 2) (TScalar (KEnum (ftag d 2))) && ty_eqb (fty d 3) (TScalar (KEnum (ftag d 3))) &&
           ty_eqb (fty d 4) (TScalar KString) && ty_eqb (fty d 5) (TScalar KBytes) &&
           (match fty d 7 with TPtr _ => true | _ => false end) &&
           tags_distinct [ftag d 0; ftag d 1; ftag d 2; ftag d 3; ftag d 4; ftag d 5; ftag d 6; ftag d 7] &&
           (* a reason of 0 is written only with a failed status *)
           (match payload with
            | VNil => true
            | _ => (0 <? op) && conf_payload st true op (ftag d 6) payload
            end) &&
           keeps st (fty d 7) (ftag d 7) ext
        then Some st else None
      | _ => None
      end.

    (** Attribute: reflective encoder, hand-written decoder choosing the value type by name *)
    Definition conf_attribute (st : vstate) (d : tdef) (tag : Z) (fs : list value) : option vstate :=
      match t_fields d, fs with
      | [f0; f1; f2], [VStr name; idx; VIface dyn w] =>
        if negb (t_custom_enc d) &&
           pos_field f0 && pos_field f1 && pos_field f2 && negb (f_omit f0) && negb (f_omit f1) && negb (f_omit f2) &&
           ty_eqb (f_ty f0) (TScalar KString) && ty_eqb (f_ty f1) (TPtr (TScalar KInt32)) &&
           (match f_ty f2 with TIface _ => true | _ => false end) &&
           negb (f_tag f1 =? f_tag f2) &&
           (match idx with VNil => true | VPtr (VInt _) => true | _ => false end) &&
           ty_eqb dyn (attr_ty ATTRS name) && one_item dyn && keeps st dyn (f_tag f2) w
        then Some st else None
      | _, _ => None
      end.

    (** Credential: the credential type selects which alternative of CredentialValue is read *)
    Definition conf_credential (st : vstate) (d : tdef) (tag : Z) (fs : list value) : option vstate :=
      match t_fields d, fs, find_tdef S "kmip.CredentialValue" with
      | [f0; f1], [VInt ct; VStruct n' [a; b; c]], Some cv =>
        if negb (t_custom_enc d) && pos_field f0 && pos_field f1 && negb (f_omit f0) && negb (f_omit f1) &&
           (match f_ty f0 with TScalar (KEnum _) => true | _ => false end) &&
           ty_eqb (f_ty f1) (TNamed "kmip.CredentialValue") && String.eqb n' "kmip.CredentialValue" &&
           t_custom_enc cv && (List.length (t_fields cv) =? 3)%nat &&
           forallb (fun g => match f_ty g with TPtr _ => true | _ => false end) (t_fields cv) &&
           (if ct =? 1 then keeps st (fty cv 0) (f_tag f1) a && is_zero b && is_zero c
            else if ct =? 2 then is_zero a && keeps st (fty cv 1) (f_tag f1) b && is_zero c
            else if ct =? 3 then is_zero a && is_zero b && keeps st (fty cv 2) (f_tag f1) c
            else false) &&
           (match a, b, c with (VNil | VPtr _), (VNil | VPtr _), (VNil | VPtr _) => true | _, _, _ => false end)
        then Some st else None
      | _, _, _ => None
      end.

    (** the alternatives of KeyMaterial: exactly the slot the key format designates may be set *)
    Fixpoint conf_slots (st : vstate) (km : tdef) (tag : Z) (k : nat) (i : nat) (slots : list value) : bool :=
      match slots with
      | [] => true
      | x :: r =>
        (if Nat.eqb i k then keeps st (fty km i) tag x else match x with VNil => true | _ => false end) &&
        conf_slots st km tag k (Datatypes.S i) r
      end.

    (** KeyBlock with KeyValue / PlainKeyValue / KeyMaterial *)
    Definition conf_key_value (st : vstate) (fmtv : Z) (tag : Z) (kv : value) : bool :=
      match kv with
      | VNil => true
      | VPtr (VStruct n' [VPtr wb; VNil]) =>
        String.eqb n' "kmip.KeyValue" && (match wb with VStr (_ :: _) | VEmptyBytes => true | _ => false end)
      | VPtr (VStruct n' [VNil; VPtr (VStruct n2 [VStruct n3 slots; attrs])]) =>
        String.eqb n' "kmip.KeyValue" && String.eqb n2 "kmip.PlainKeyValue" && String.eqb n3 "kmip.KeyMaterial" &&
        match find_tdef S "kmip.PlainKeyValue", find_tdef S "kmip.KeyMaterial", key_slot fmtv with
        | Some pkv, Some km, Some k =>
          negb (t_custom_enc pkv) && negb (t_custom_dec pkv) && t_custom_enc km &&
          (List.length (t_fields pkv) =? 2)%nat && (List.length (t_fields km) =? 8)%nat && (List.length slots =? 8)%nat &&
          forallb pos_field (t_fields pkv) && forallb (fun g => negb (f_omit g)) (t_fields pkv) &&
          ty_eqb (fty pkv 0) (TNamed "kmip.KeyMaterial") &&
          (match fty pkv 1 with TSlice _ => true | _ => false end) &&
          negb (ftag pkv 0 =? ftag pkv 1) &&
          forallb (fun g => match f_ty g with TPtr _ => true | _ => false end) (t_fields km) &&
          conf_slots st km (ftag pkv 0) k 0 slots &&
          keeps st (fty pkv 1) (ftag pkv 1) attrs
        | _, _, _ => false
        end
      | _ => false
      end.

    (** an omitempty element that is not written holds exactly the zero value d.Opt leaves
        (as [conf_fields] demands of reflectively decoded structures) *)
    Definition omit_zero (fd : field) (x : value) : bool :=
      if is_zero x then value_eqb x (zero_of S 8 (f_ty fd)) else true.

    Definition conf_key_block (st : vstate) (d : tdef) (tag : Z) (fs : list value) : option vstate :=
      match t_fields d, fs, find_tdef S "kmip.KeyValue" with
      | [f0; f1; f2; f3; f4; f5], [VInt kft; kct; kv; alg; ln; kwd], Some kvd =>
        if negb (t_custom_enc d) && forallb pos_field (t_fields d) &&
           negb (f_omit f0) && f_omit f1 && negb (f_omit f2) && f_omit f3 && f_omit f4 && negb (f_omit f5) &&
           (match f_ty f0 with TScalar (KEnum _) => true | _ => false end) &&
           (match f_ty f1, f_ty f3, f_ty f4 with TScalar _, TScalar _, TScalar _ => true | _, _, _ => false end) &&
           ty_eqb (f_ty f2) (TPtr (TNamed "kmip.KeyValue")) &&
           (match f_ty f5 with TPtr _ => true | _ => false end) &&
           tags_distinct (map f_tag (t_fields d)) &&
           t_custom_enc kvd && (List.length (t_fields kvd) =? 2)%nat &&
           ty_eqb (fty kvd 0) (TPtr (TScalar KBytes)) && ty_eqb (fty kvd 1) (TPtr (TNamed "kmip.PlainKeyValue")) &&
           keeps st (f_ty f1) (f_tag f1) kct && keeps st (f_ty f3) (f_tag f3) alg && keeps st (f_ty f4) (f_tag f4) ln &&
           omit_zero f1 kct && omit_zero f3 alg && omit_zero f4 ln &&
           conf_key_value st kft (f_tag f2) kv &&
           keeps st (f_ty f5) (f_tag f5) kwd
        then Some st else None
      | _, _, _ => None
      end.

    (** a managed object held in the Object interface after its object type *)
    Definition conf_object (st : vstate) (ot : Z) (obj : value) : bool :=
      match obj with
      | VIface (TPtr (TNamed n)) (VPtr w) =>
        match lookup_obj OBJS ot with
        | Some n' => String.eqb n n' && negb (multi_enc n) && negb (deftag_of S (TNamed n) =? 0) &&
                     keeps st (TNamed n) (deftag_of S (TNamed n)) w
        | None => false
        end
      | _ => false
      end.
    Definition object_tag (obj : value) : Z :=
      match obj with VIface dyn _ => deftag_of S dyn | _ => 0 end.

    (** fields written and read one after the other, each required, none looking ahead past
        a following element with its own tag (a pointer or slice field has a tag no later field
        of the run has, as in [wf_fields]): [keeps] for each, in order *)
    Fixpoint conf_required (st : vstate) (fl : list field) (vl : list value) : bool :=
      match fl, vl with
      | [], [] => true
      | fd :: fl', x :: vl' =>
        pos_field fd && negb (f_omit fd) &&
        (if lookahead (f_ty fd) then forallb (fun g => negb (f_tag g =? f_tag fd)) fl' else true) &&
        keeps st (f_ty fd) (f_tag fd) x && conf_required st fl' vl'
      | _, _ => false
      end.

    (** Get response / Register request / Export response: required fields, then the object
        selected by the object type read first *)
    Definition conf_typed_object (nreq : nat) (st : vstate) (d : tdef) (tag : Z) (fs : list value) : option vstate :=
      let fl := firstn nreq (t_fields d) in
      let ofd := nth_field d nreq in
      match firstn nreq fs, skipn nreq fs with
      | (VInt ot :: _) as vl, [obj] =>
        if negb (t_custom_enc d) && (List.length (t_fields d) =? Datatypes.S nreq)%nat &&
           (f_tag ofd =? 0) && (match f_ty ofd with TIface _ => true | _ => false end) &&
           (match fl with f0 :: _ => match f_ty f0 with TScalar (KEnum _) => true | _ => false end | [] => false end) &&
           conf_required st fl vl &&
           forallb (fun g => negb (f_tag g =? object_tag obj)) fl &&
           conf_object st ot obj
        then Some st else None
      | _, _ => None
      end.

    (** Import request: optional elements, attributes, then the object whose type the
        attributes name *)
    Definition conf_import_request (st : vstate) (d : tdef) (tag : Z) (fs : list value) : option vstate :=
      match t_fields d, fs with
      | [f0; f1; f2; f3; f4], [uid; rep; kwt; VList attrs; obj] =>
        let objtag := match find_tdef S "payloads.GetResponsePayload" with Some g => ftag g 0 | None => 0 end in
        match import_object_type objtag attrs with
        | Some ot =>
          if negb (t_custom_enc d) && pos_field f0 && pos_field f1 && pos_field f2 && pos_field f3 &&
             negb (f_omit f0) && f_omit f1 && f_omit f2 && negb (f_omit f3) &&
             (f_tag f4 =? 0) && (match f_ty f4 with TIface _ => true | _ => false end) &&
             (match f_ty f0, f_ty f1, f_ty f2, f_ty f3 with TScalar _, TScalar _, TScalar _, TSlice _ => true | _, _, _, _ => false end) &&
             tags_distinct [f_tag f0; f_tag f1; f_tag f2; f_tag f3; object_tag obj] &&
             keeps st (f_ty f0) (f_tag f0) uid && keeps st (f_ty f1) (f_tag f1) rep &&
             keeps st (f_ty f2) (f_tag f2) kwt && keeps st (f_ty f3) (f_tag f3) (VList attrs) &&
             (* an empty omitempty element is not written: it must hold what d.Opt leaves there *)
             (if is_zero rep then value_eqb rep (zero_of S 8 (f_ty f1)) else true) &&
             (if is_zero kwt then value_eqb kwt (zero_of S 8 (f_ty f2)) else true) &&
             conf_object st ot obj
          then Some st else None
        | None => None
        end
      | _, _ => None
      end.

    (** which hand-written codec a type name selects ([None]: not covered).  A codec is listed
        here once its round-trip lemma is proved (RoundtripCustoms.customs_all); the full list is
          kmip.ResponseBatchItem  -> conf_response_item       kmip.Credential -> conf_credential
          kmip.KeyBlock           -> conf_key_block           kmip.Attribute  -> conf_attribute
          payloads.GetResponsePayload / RegisterRequestPayload -> conf_typed_object 2
          payloads.ExportResponsePayload -> conf_typed_object 3
          payloads.ImportRequestPayload  -> conf_import_request *)
    Definition conf_custom_of (st : vstate) (d : tdef) (tag : Z) (fs : list value) : option vstate :=
      let _ := (ATTRS, OBJS) in   (* used by codecs not dispatched yet: keeps the signature stable *)
      let n := t_name d in
      if String.eqb n "kmip.RequestBatchItem" then conf_request_item st d tag fs
      else if String.eqb n "kmip.ResponseBatchItem" then conf_response_item st d tag fs
      else if String.eqb n "kmip.Attribute" then conf_attribute st d tag fs
      else if String.eqb n "kmip.Credential" then conf_credential st d tag fs
      else if String.eqb n "kmip.KeyBlock" then conf_key_block st d tag fs
      else if String.eqb n "payloads.GetResponsePayload" then conf_typed_object 2 st d tag fs
      else if String.eqb n "payloads.RegisterRequestPayload" then conf_typed_object 2 st d tag fs
      else if String.eqb n "payloads.ExportResponsePayload" then conf_typed_object 3 st d tag fs
      else if String.eqb n "payloads.ImportRequestPayload" then conf_import_request st d tag fs
      else None.
  End ConfCustoms.

  (** conformance; returns the version state after the value, [None] = does not conform *)
  Fixpoint conf_ty (fuel : nat) (st : vstate) (t : ty) (tag : Z) (v : value) {struct fuel} : option vstate :=
    match fuel with
    | O => None
    | Datatypes.S f =>
      match t with
      | TScalar k => if scalar_ok k v then Some st else None
      | TPtr t' =>
        match v with
        | VNil => Some st
        | VPtr w => if one_item t' then conf_ty f st t' tag w else None
        | _ => None
        end
      | TSlice t' =>
        match v with
        | VList l => if one_item t' then conf_list f st t' tag l else None
        | _ => None
        end
      | TIface _ => None
      | TNamed n =>
        if String.eqb n "ttlv.Value" then
          match v with VTree i => if tree_shaped i && (itag i =? tag) then Some st else None | _ => None end
        else if String.eqb n "ttlv.Struct" then
          match v with
          | VList l =>
            match trees_of l with
            | Some is => if forallb tree_shaped is && forallb (fun k => negb (itag k =? 0)) is then Some st else None
            | None => None
            end
          | _ => None
          end
        else
          match find_tdef S n, v with
          | Some d, VStruct n' fs =>
            if String.eqb n n' && negb (t_custom_enc d) && negb (t_custom_dec d) && wf_fields (t_fields d)
            then conf_fields f st (t_fields d) fs
            else if String.eqb n n' && t_custom_dec d
            then conf_custom_of (conf_ty f) st d tag fs
            else None
          | _, _ => None
          end
      end
    end
  with conf_list (fuel : nat) (st : vstate) (t : ty) (tag : Z) (l : list value) {struct fuel} : option vstate :=
    match fuel with
    | O => None
    | Datatypes.S f =>
      match l with
      | [] => Some st
      | x :: r => match conf_ty f st t tag x with Some st1 => conf_list f st1 t tag r | None => None end
      end
    end
  with conf_fields (fuel : nat) (st : vstate) (fl : list field) (vl : list value) {struct fuel} : option vstate :=
    match fuel with
    | O => None
    | Datatypes.S f =>
      match fl, vl with
      | [], [] => Some st
      | fd :: fl', x :: vl' =>
        let st1 := if f_setver fd then ver_of_value x else st in
        if f_setver fd && negb (plain_struct S (f_ty fd)) then None else
        match
          (if negb (version_in st1 (f_range fd)) then (if value_eqb x (zero_of S 8 (f_ty fd)) then Some st1 else None)
           else if f_omit fd && is_zero x then (if value_eqb x (zero_of S 8 (f_ty fd)) then Some st1 else None)
           else conf_ty f st1 (f_ty fd) (f_tag fd) x)
        with
        | Some st2 => conf_fields f st2 fl' vl'
        | None => None
        end
      | _, _ => None
      end
    end.
End Conf.
