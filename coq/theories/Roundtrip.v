(** Well-formedness of a schema and conformance of a value, as decidable (boolean)
    predicates: the hypotheses of the struct-level round-trip theorem (RoundtripProofs.v).

    [wf_fields] is the static condition on a struct definition under which the reflective
    decoder cannot confuse an element that may be absent (omitempty, version-gated, pointer,
    slice) with an element of a later field: its tag differs from the tag of every later
    field, and no tag is 0 (0 is what the reader answers at the end of a structure).

    [conf_ty] says that a value is what the decoder reconstructs: it has the shape of its type,
    an element that the encoder omits (empty omitempty field, field outside the message's
    version) holds exactly the zero value the decoder puts there, pointers and slices hold
    things that are written as exactly one item, generic trees carry the tag of the position
    they sit in. It threads the protocol version exactly as the encoder does. *)
From Coq Require Import ZArith List Bool String.
From KV Require Import Base Wire Cursor Schema SchemaSem FaithfulProofs.
Import ListNotations.
Open Scope Z_scope.

Definition multi_enc (n : string) : bool :=
  String.eqb n "kmip.CredentialValue" || String.eqb n "kmip.KeyValue" || String.eqb n "kmip.KeyMaterial".

(** types written as exactly one item carrying the tag they are given *)
Definition one_item (t : ty) : bool :=
  match t with
  | TScalar _ => true
  | TNamed n => negb (multi_enc n)
  | _ => false
  end.

Definition lookahead (t : ty) : bool :=
  match t with TPtr _ | TSlice _ => true | _ => false end.

Definition wf_ty (t : ty) : bool :=
  match t with
  | TPtr t' | TSlice t' => one_item t'
  | TIface _ => false
  | _ => true
  end.

(** may the field write nothing? (static over-approximation) *)
Definition opt_field (fd : field) : bool :=
  f_omit fd || (match f_range fd with Some _ => true | None => false end) || lookahead (f_ty fd).

Fixpoint wf_fields (fl : list field) : bool :=
  match fl with
  | [] => true
  | fd :: rest =>
    negb (f_tag fd =? 0) && wf_ty (f_ty fd) &&
    (if opt_field fd then forallb (fun g => negb (f_tag g =? f_tag fd)) rest else true) &&
    (if f_setver fd then negb (f_omit fd) && (match f_range fd with None => true | Some _ => false end) else true) &&
    wf_fields rest
  end.

(** structures whose coding does not look at the protocol version: only ungated, required scalars *)
Definition plain_field (fd : field) : bool :=
  negb (f_tag fd =? 0) && negb (f_omit fd) && negb (f_setver fd) &&
  (match f_range fd with None => true | Some _ => false end) &&
  (match f_ty fd with TScalar _ => true | _ => false end).
Definition plain_struct (S : schema) (t : ty) : bool :=
  match t with
  | TNamed n =>
    match find_tdef S n with
    | Some d => negb (t_custom_enc d) && negb (t_custom_dec d) && forallb plain_field (t_fields d) &&
                negb (String.eqb n "ttlv.Value") && negb (String.eqb n "ttlv.Struct")
    | None => false
    end
  | _ => false
  end.

Definition scalar_ok (k : kind) (v : value) : bool :=
  match k, v with
  | KBool, VBool _ => true
  | KString, VStr _ => true
  | KBytes, VStr s => match s with [] => false | _ => true end
  | KBytes, VEmptyBytes => true
  | (KUint8 | KUint16 | KUint32 | KUint64), VInt z => 0 <=? z
  | (KInt8 | KInt16 | KInt32 | KInt64 | KTime | KDuration | KBigInt | KEnum _ | KMask _), VInt _ => true
  | _, _ => false
  end.

Section Conf.
  Variable S : schema.

  (** conformance; returns the version state after the value, [None] = does not conform *)
  Fixpoint conf_ty (fuel : nat) (st : vstate) (t : ty) (tag : Z) (v : value) {struct fuel} : option vstate :=
    match fuel with
    | O => None
    | Datatypes.S f =>
      match t with
      | TScalar k => if scalar_ok k v then Some st else None
      | TPtr t' =>
        match v with
        | VNil => Some st
        | VPtr w => if one_item t' then conf_ty f st t' tag w else None
        | _ => None
        end
      | TSlice t' =>
        match v with
        | VList l => if one_item t' then conf_list f st t' tag l else None
        | _ => None
        end
      | TIface _ => None
      | TNamed n =>
        if String.eqb n "ttlv.Value" then
          match v with VTree i => if tree_shaped i && (itag i =? tag) then Some st else None | _ => None end
        else if String.eqb n "ttlv.Struct" then
          match v with
          | VList l =>
            match trees_of l with
            | Some is => if forallb tree_shaped is && forallb (fun k => negb (itag k =? 0)) is then Some st else None
            | None => None
            end
          | _ => None
          end
        else
          match find_tdef S n, v with
          | Some d, VStruct n' fs =>
            if String.eqb n n' && negb (t_custom_enc d) && negb (t_custom_dec d) && wf_fields (t_fields d)
            then conf_fields f st (t_fields d) fs
            else None
          | _, _ => None
          end
      end
    end
  with conf_list (fuel : nat) (st : vstate) (t : ty) (tag : Z) (l : list value) {struct fuel} : option vstate :=
    match fuel with
    | O => None
    | Datatypes.S f =>
      match l with
      | [] => Some st
      | x :: r => match conf_ty f st t tag x with Some st1 => conf_list f st1 t tag r | None => None end
      end
    end
  with conf_fields (fuel : nat) (st : vstate) (fl : list field) (vl : list value) {struct fuel} : option vstate :=
    match fuel with
    | O => None
    | Datatypes.S f =>
      match fl, vl with
      | [], [] => Some st
      | fd :: fl', x :: vl' =>
        let st1 := if f_setver fd then ver_of_value x else st in
        if f_setver fd && negb (plain_struct S (f_ty fd)) then None else
        match
          (if negb (version_in st1 (f_range fd)) then (if value_eqb x (zero_of S 8 (f_ty fd)) then Some st1 else None)
           else if f_omit fd && is_zero x then (if value_eqb x (zero_of S 8 (f_ty fd)) then Some st1 else None)
           else conf_ty f st1 (f_ty fd) (f_tag fd) x)
        with
        | Some st2 => conf_fields f st2 fl' vl'
        | None => None
        end
      | _, _ => None
      end
    end.
End Conf.
