(** Defining equations of the mutual fixpoints of Roundtrip.v (each by [reflexivity]).
    GENERATED from Roundtrip.v by lib/gen_eq.py - do not edit. *)
From Coq Require Import ZArith List Bool String.
From KV Require Import Base Wire Cursor Schema SchemaSem FaithfulProofs Roundtrip.
Import ListNotations.
Open Scope Z_scope.

Section Eq.
  Variable S : schema.
  Variable OPS : op_table.
  Variable ATTRS : attr_table.
  Variable OBJS : obj_table.
  Local Notation conf_ty := (Roundtrip.conf_ty S OPS ATTRS OBJS).
  Local Notation conf_list := (Roundtrip.conf_list S OPS ATTRS OBJS).
  Local Notation conf_fields := (Roundtrip.conf_fields S OPS ATTRS OBJS).
  Local Notation conf_custom_of := (Roundtrip.conf_custom_of S OPS ATTRS OBJS).

  Lemma conf_ty_eq f (st : vstate) (t : ty) (tag : Z) (v : value) :
    conf_ty (Datatypes.S f) st t tag v =

      match t with
      | TScalar k => if scalar_ok k v then Some st else None
      | TPtr t' =>
        match v with
        | VNil => Some st
        | VPtr w => if one_item t' then conf_ty f st t' tag w else None
        | _ => None
        end
      | TSlice t' =>
        match v with
        | VList l => if one_item t' then conf_list f st t' tag l else None
        | _ => None
        end
      | TIface _ => None
      | TNamed n =>
        if String.eqb n "ttlv.Value" then
          match v with VTree i => if tree_shaped i && (itag i =? tag) then Some st else None | _ => None end
        else if String.eqb n "ttlv.Struct" then
          match v with
          | VList l =>
            match trees_of l with
            | Some is => if forallb tree_shaped is && forallb (fun k => negb (itag k =? 0)) is then Some st else None
            | None => None
            end
          | _ => None
          end
        else
          match find_tdef S n, v with
          | Some d, VStruct n' fs =>
            if String.eqb n n' && negb (t_custom_enc d) && negb (t_custom_dec d) && wf_fields (t_fields d)
            then conf_fields f st (t_fields d) fs
            else if String.eqb n n' && t_custom_dec d
            then conf_custom_of (conf_ty f) st d tag fs
            else None
          | _, _ => None
          end
      end.
  Proof. reflexivity. Qed.

  Lemma conf_list_eq f (st : vstate) (t : ty) (tag : Z) (l : list value) :
    conf_list (Datatypes.S f) st t tag l =

      match l with
      | [] => Some st
      | x :: r => match conf_ty f st t tag x with Some st1 => conf_list f st1 t tag r | None => None end
      end.
  Proof. reflexivity. Qed.

  Lemma conf_fields_eq f (st : vstate) (fl : list field) (vl : list value) :
    conf_fields (Datatypes.S f) st fl vl =

      match fl, vl with
      | [], [] => Some st
      | fd :: fl', x :: vl' =>
        let st1 := if f_setver fd then ver_of_value x else st in
        if f_setver fd && negb (plain_struct S (f_ty fd)) then None else
        match
          (if negb (version_in st1 (f_range fd)) then (if value_eqb x (zero_of S 8 (f_ty fd)) then Some st1 else None)
           else if f_omit fd && is_zero x then (if value_eqb x (zero_of S 8 (f_ty fd)) then Some st1 else None)
           else conf_ty f st1 (f_ty fd) (f_tag fd) x)
        with
        | Some st2 => conf_fields f st2 fl' vl'
        | None => None
        end
      | _, _ => None
      end.
  Proof. reflexivity. Qed.

End Eq.
