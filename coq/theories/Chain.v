(** Model of the three middleware chains of kmip-go (property C19).

    - kmipclient/client.go   [Client.Roundtrip]
    - kmipserver/router.go   [BatchExecutor.HandleRequest]
    - kmipserver/router.go   [BatchExecutor.executeItemWithMiddleware]

    A middleware is a *program*: it may read and write mutable state, call its
    continuation [next] any number of times with any context and message, look at what
    each call returned before deciding what to do, and finally return a result or panic.
    [run_spec] is the property: the continuation handed to the stage registered at
    position i is "the rest of the chain, from position i+1, every time".
    [run_impl_*] transcribe the Go closures.  No proofs in this file (ChainProofs.v). *)
From Coq Require Import List Bool Arith.
From KV Require Import Base.
Import ListNotations.

Section Chain.
  (** [C] context.Context, [M] the request (message or batch item), [R] what a
      continuation returns (Go: the pair (response pointer, error)), [St] mutable state
      reachable from middlewares and the innermost handler. *)
  Variables C M R St : Type.

  (** The behaviour of one invocation of a middleware. *)
  Inductive prog : Type :=
  | Ret (r : R)                               (* return r *)
  | Call (c : C) (m : M) (k : R -> prog)      (* r := next(c, m); continue with k r *)
  | Get (k : St -> prog)                      (* read the mutable state *)
  | Put (s : St) (k : prog)                   (* write the mutable state *)
  | Crash.                                    (* Go panic inside the middleware *)

  (** A middleware: [func(next, ctx, msg)]. *)
  Definition stage : Type := C -> M -> prog.

  (** Ghost call trace: what an instrumented middleware / handler can log. *)
  Inductive event : Type :=
  | EvEnter (i : nat) (c : C) (m : M)         (* the middleware registered at position i is invoked with (c, m) *)
  | EvBack (i : nat) (r : R)                  (* a call of next made by middleware i returned r *)
  | EvRet (i : nat) (r : R)                   (* middleware i returns r *)
  | EvPanic (i : nat)                         (* middleware i panics *)
  | EvCore (c : C) (m : M).                   (* the innermost handler / transport is invoked with (c, m) *)

  (** A computation: state in; outcome (with Go panics as a value), state out, events. *)
  Definition comp : Type := St -> res R * St * list event.
  (** A continuation [next]. *)
  Definition kont : Type := C -> M -> comp.

  (** Run the program [p] of the middleware at position [i] with continuation [next].
      A panic below unwinds through the middleware (none of the chains recovers). *)
  Fixpoint exec (i : nat) (p : prog) (next : kont) (s : St) {struct p} : res R * St * list event :=
    match p with
    | Ret r => (Ok r, s, [EvRet i r])
    | Call c m k =>
        match next c m s with
        | (Ok r, s1, t1) =>
            match exec i (k r) next s1 with
            | (o, s2, t2) => (o, s2, t1 ++ EvBack i r :: t2)
            end
        | (o, s1, t1) => (o, s1, t1)
        end
    | Get k => exec i (k s) next s
    | Put s' k => exec i k next s'
    | Crash => (Panic, s, [EvPanic i])
    end.

  (** [mdl(next, ctx, msg)] for the middleware [mdl] registered at position [i]. *)
  Definition invoke (i : nat) (mdl : stage) (next : kont) : kont :=
    fun c m s =>
      match exec i (mdl c m) next s with
      | (o, s', t) => (o, s', EvEnter i c m :: t)
      end.

  (** The innermost handler ([doRountrip], [handleRequest], [executeItem]) as a continuation. *)
  Definition core_kont (core : C -> M -> St -> res R * St) : kont :=
    fun c m s =>
      match core c m s with
      | (o, s') => (o, s', [EvCore c m])
      end.

  (** * Reference semantics = the property.
      Middlewares run in registration order; the continuation of the one at position
      [i] is the remainder of the chain (positions i+1 ...), then the core, and every
      invocation of it runs that remainder once, from its start. *)
  Fixpoint spec_from (i : nat) (stages : list stage) (core : kont) : kont :=
    match stages with
    | [] => core
    | st :: rest => invoke i st (spec_from (S i) rest core)
    end.

  Definition run_spec (stages : list stage) (core : C -> M -> St -> res R * St) : kont :=
    spec_from 0 stages (core_kont core).

  (** * The code (after the fix: commits): continuation per position.

      kmipclient/client.go, Client.Roundtrip:
<<
      var chain func(i int) Next
      chain = func(i int) Next {
          return func(ctx context.Context, req *kmip.RequestMessage) ( *kmip.ResponseMessage, error) {
              if i < len(c.middlewares) {
                  return c.middlewares[i](chain(i+1), ctx, req)
              }
              return c.doRountrip(ctx, req)
          }
      }
      return chain(0)(ctx, msg)
>>
      [chain] is not structurally recursive, so the model recurses on fuel; the slice
      index is [nth_error] and yields [Panic] when out of range.  That neither
      [OutOfFuel] nor this [Panic] can happen is a theorem (ChainProofs.v). *)
  Fixpoint client_chain (fuel : nat) (mws : list stage) (core : kont) (i : nat) : kont :=
    fun c m s =>
      match fuel with
      | O => (OutOfFuel, s, [])
      | S f =>
          if i <? length mws then
            match nth_error mws i with
            | Some mdl => invoke i mdl (client_chain f mws core (i + 1)) c m s
            | None => (Panic, s, [])                    (* c.middlewares[i]: index out of range *)
            end
          else core c m s
      end.

  (** Client.Roundtrip *)
  Definition run_impl_client (mws : list stage) (core : C -> M -> St -> res R * St) : kont :=
    client_chain (S (length mws)) mws (core_kont core) 0.

  (** kmipserver/router.go, BatchExecutor.HandleRequest: the same closure over
      [exec.middlewares] with [exec.handleRequest(ctx, rm)] innermost:
<<
      chain = func(i int) Next {
          return func(ctx context.Context, rm *kmip.RequestMessage) ( *kmip.ResponseMessage, error) {
              if i < len(exec.middlewares) {
                  return exec.middlewares[i](chain(i+1), ctx, rm)
              }
              return exec.handleRequest(ctx, rm)
          }
      }
>>  *)
  Fixpoint server_chain (fuel : nat) (mws : list stage) (core : kont) (i : nat) : kont :=
    fun c rm s =>
      match fuel with
      | O => (OutOfFuel, s, [])
      | S f =>
          if i <? length mws then
            match nth_error mws i with
            | Some mdl => invoke i mdl (server_chain f mws core (i + 1)) c rm s
            | None => (Panic, s, [])                    (* exec.middlewares[i] *)
            end
          else core c rm s
      end.

  (** kmipserver/router.go, BatchExecutor.executeItemWithMiddleware: the same closure
      over [exec.biMiddlewares] with [exec.executeItem(ctx, bi)] innermost:
<<
      chain = func(m int) BatchItemNext {
          return func(ctx context.Context, bi *kmip.RequestBatchItem) ( *kmip.ResponseBatchItem, error) {
              if m < len(exec.biMiddlewares) {
                  return exec.biMiddlewares[m](chain(m+1), ctx, bi)
              }
              return exec.executeItem(ctx, bi)
          }
      }
>>  *)
  Fixpoint item_chain (fuel : nat) (mws : list stage) (core : kont) (m : nat) : kont :=
    fun c bi s =>
      match fuel with
      | O => (OutOfFuel, s, [])
      | S f =>
          if m <? length mws then
            match nth_error mws m with
            | Some biMdl => invoke m biMdl (item_chain f mws core (m + 1)) c bi s
            | None => (Panic, s, [])                    (* exec.biMiddlewares[m] *)
            end
          else core c bi s
      end.

  (** * The code before the fix: commits (pinned tree 9317440), kept for the refutation
      lemmas.  One cursor shared by every invocation of the continuation:
<<
      i := 0
      next = func(ctx, req) { if i < len(mws) { mdl := mws[i]; i++; return mdl(next, ctx, req) }; return core(ctx, req) }
>>
      [fwd = false] is the server message chain, which passed the *outer* request
      ([mdl(next, ctx, req)], [exec.handleRequest(ctx, req)]) instead of [rm]. *)
  Definition ccomp : Type := St -> nat -> res R * St * nat * list event.

  Fixpoint exec_cur (i : nat) (p : prog) (next : C -> M -> ccomp) (s : St) (cur : nat) {struct p}
    : res R * St * nat * list event :=
    match p with
    | Ret r => (Ok r, s, cur, [EvRet i r])
    | Call c m k =>
        match next c m s cur with
        | (Ok r, s1, cur1, t1) =>
            match exec_cur i (k r) next s1 cur1 with
            | (o, s2, cur2, t2) => (o, s2, cur2, t1 ++ EvBack i r :: t2)
            end
        | (o, s1, cur1, t1) => (o, s1, cur1, t1)
        end
    | Get k => exec_cur i (k s) next s cur
    | Put s' k => exec_cur i k next s' cur
    | Crash => (Panic, s, cur, [EvPanic i])
    end.

  Fixpoint cursor_chain (fuel : nat) (fwd : bool) (mws : list stage) (core : kont) (m0 : M) : C -> M -> ccomp :=
    fun c m s cur =>
      match fuel with
      | O => (OutOfFuel, s, cur, [])
      | S f =>
          let m' := if fwd then m else m0 in
          if cur <? length mws then
            match nth_error mws cur with
            | Some mdl =>
                match exec_cur cur (mdl c m') (cursor_chain f fwd mws core m0) s (cur + 1) with
                | (o, s', cur', t) => (o, s', cur', EvEnter cur c m' :: t)
                end
            | None => (Panic, s, cur, [])
            end
          else
            match core c m' s with
            | (o, s', t) => (o, s', cur, t)
            end
      end.

  Definition run_cursor (fwd : bool) (mws : list stage) (core : C -> M -> St -> res R * St) : kont :=
    fun c m s =>
      match cursor_chain (S (S (length mws))) fwd mws (core_kont core) m c m s 0 with
      | (o, s', _, t) => (o, s', t)
      end.

  (** * Small-step machine of the (repaired) chain, for the interleaving theorem.
      A request in flight is a control (the middleware at position [i] executing [p], or a
      value being returned) and a stack of suspended middlewares, each remembering its own
      position: the position is part of the frame (it is captured by the closure), not a
      variable shared by the frames. *)
  Inductive ctl : Type :=
  | Run (i : nat) (p : prog)
  | Retn (r : R)
  | Dead.                                    (* panicked *)

  Record cfg : Type := { k_ctl : ctl; k_stack : list (nat * (R -> prog)); k_state : St; k_trace : list event }.

  (** Enter position [i] of the chain with (c, m): the middleware there, or the core. *)
  Definition enter (mws : list stage) (core : C -> M -> St -> res R * St) (i : nat) (c : C) (m : M)
             (stk : list (nat * (R -> prog))) (s : St) (t : list event) : cfg :=
    match nth_error mws i with
    | Some mdl => {| k_ctl := Run i (mdl c m); k_stack := stk; k_state := s; k_trace := t ++ [EvEnter i c m] |}
    | None =>
        match core c m s with
        | (Ok r, s') => {| k_ctl := Retn r; k_stack := stk; k_state := s'; k_trace := t ++ [EvCore c m] |}
        | (_, s') => {| k_ctl := Dead; k_stack := stk; k_state := s'; k_trace := t ++ [EvCore c m] |}
        end
    end.

  Definition step1 (mws : list stage) (core : C -> M -> St -> res R * St) (k : cfg) : option cfg :=
    match k_ctl k with
    | Run i (Ret r) => Some {| k_ctl := Retn r; k_stack := k_stack k; k_state := k_state k; k_trace := k_trace k ++ [EvRet i r] |}
    | Run i (Call c m kk) => Some (enter mws core (i + 1) c m ((i, kk) :: k_stack k) (k_state k) (k_trace k))
    | Run i (Get kk) => Some {| k_ctl := Run i (kk (k_state k)); k_stack := k_stack k; k_state := k_state k; k_trace := k_trace k |}
    | Run i (Put s' kk) => Some {| k_ctl := Run i kk; k_stack := k_stack k; k_state := s'; k_trace := k_trace k |}
    | Run i Crash => Some {| k_ctl := Dead; k_stack := k_stack k; k_state := k_state k; k_trace := k_trace k ++ [EvPanic i] |}
    | Retn r =>
        match k_stack k with
        | (i, kk) :: stk => Some {| k_ctl := Run i (kk r); k_stack := stk; k_state := k_state k; k_trace := k_trace k ++ [EvBack i r] |}
        | [] => None
        end
    | Dead => None
    end.

  Definition start (mws : list stage) (core : C -> M -> St -> res R * St) (c : C) (m : M) (s : St) : cfg :=
    enter mws core 0 c m [] s [].

  (** What a finished request delivers. *)
  Definition outcome_of (k : cfg) : option (res R * St * list event) :=
    match k_ctl k, k_stack k with
    | Retn r, [] => Some (Ok r, k_state k, k_trace k)
    | Dead, _ => Some (Panic, k_state k, k_trace k)
    | _, _ => None
    end.

  (** Several requests in flight over the same middleware slice: one of them steps. *)
  Fixpoint par_steps (mws : list stage) (core : C -> M -> St -> res R * St) (ks : list cfg) : list (list cfg) :=
    match ks with
    | [] => []
    | k :: rest =>
        (match step1 mws core k with Some k' => [k' :: rest] | None => [] end)
        ++ map (cons k) (par_steps mws core rest)
    end.

  Fixpoint run_steps (mws : list stage) (core : C -> M -> St -> res R * St) (n : nat) (k : cfg) : cfg :=
    match n with
    | O => k
    | S n' => match step1 mws core k with Some k' => run_steps mws core n' k' | None => k end
    end.

  (** The innermost handler returns or panics (it is Go code: no fuel, no model error). *)
  Definition returns_or_panics (core : C -> M -> St -> res R * St) : Prop :=
    forall c m s, match fst (core c m s) with Ok _ => True | Panic => True | _ => False end.

  (** * Counting executions in a trace. *)
  Definition is_enter (j : nat) (e : event) : bool := match e with EvEnter i _ _ => Nat.eqb i j | _ => false end.
  Definition is_back (j : nat) (e : event) : bool := match e with EvBack i _ => Nat.eqb i j | _ => false end.
  Definition is_ret (j : nat) (e : event) : bool := match e with EvRet i _ => Nat.eqb i j | _ => false end.
  Definition is_core (e : event) : bool := match e with EvCore _ _ => true | _ => false end.
  Definition count (f : event -> bool) (t : list event) : nat := length (filter f t).
  (** The event with which position [k] of a chain of [n] middlewares starts executing:
      middleware [k] is entered, or, for [k = n], the innermost handler is invoked. *)
  Definition starts (n k : nat) (e : event) : bool := if k <? n then is_enter k e else is_core e.
  Definition product (l : list nat) : nat := fold_right Nat.mul 1 l.

  (** Every invocation of the middleware makes exactly [n] continuation calls, whatever
      it receives, reads or gets back; it does not panic. *)
  Inductive calls_exactly : nat -> prog -> Prop :=
  | ce_ret : forall r, calls_exactly 0 (Ret r)
  | ce_call : forall n c m k, (forall r, calls_exactly n (k r)) -> calls_exactly (S n) (Call c m k)
  | ce_get : forall n k, (forall s, calls_exactly n (k s)) -> calls_exactly n (Get k)
  | ce_put : forall n s k, calls_exactly n k -> calls_exactly n (Put s k).

  (** No path of the program panics. *)
  Inductive crash_free : prog -> Prop :=
  | cf_ret : forall r, crash_free (Ret r)
  | cf_call : forall c m k, (forall r, crash_free (k r)) -> crash_free (Call c m k)
  | cf_get : forall k, (forall s, crash_free (k s)) -> crash_free (Get k)
  | cf_put : forall s k, crash_free k -> crash_free (Put s k).
End Chain.

Arguments Ret {C M R St}. Arguments Call {C M R St}. Arguments Get {C M R St}. Arguments Put {C M R St}.
Arguments Crash {C M R St}.
Arguments EvEnter {C M R}. Arguments EvBack {C M R}. Arguments EvRet {C M R}. Arguments EvPanic {C M R}.
Arguments EvCore {C M R}.
Arguments exec {C M R St}. Arguments invoke {C M R St}. Arguments core_kont {C M R St}.
Arguments spec_from {C M R St}. Arguments run_spec {C M R St}.
Arguments client_chain {C M R St}. Arguments run_impl_client {C M R St}.
Arguments server_chain {C M R St}. Arguments item_chain {C M R St}.
Arguments exec_cur {C M R St}. Arguments cursor_chain {C M R St}. Arguments run_cursor {C M R St}.
Arguments Run {C M R St}. Arguments Retn {C M R St}. Arguments Dead {C M R St}.
Arguments k_ctl {C M R St}. Arguments k_stack {C M R St}. Arguments k_state {C M R St}. Arguments k_trace {C M R St}.
Arguments Build_cfg {C M R St}.
Arguments enter {C M R St}. Arguments step1 {C M R St}. Arguments start {C M R St}.
Arguments outcome_of {C M R St}. Arguments par_steps {C M R St}.
Arguments is_enter {C M R}. Arguments is_back {C M R}. Arguments is_ret {C M R}. Arguments is_core {C M R}.
Arguments count {C M R}.
Arguments run_steps {C M R St}. Arguments returns_or_panics {C M R St}. Arguments starts {C M R}.
Arguments calls_exactly {C M R St}. Arguments crash_free {C M R St}.

(** * The wrappers around the server chains.  A continuation returns the Go pair
    (pointer, error): [(option P * option E)]. *)
Section Wrappers.
  Variables C M St : Type.
  Variables P E : Type.            (* response (message or batch item), non-nil error *)
  Definition gores : Type := (option P * option E)%type.

  (** BatchExecutor.HandleRequest:
<<
      ctx = newBatchContext(ctx, req.Header)
      resp, err := chain(0)(ctx, req)
      if err != nil { return exec.handleMessageError(ctx, req, err) }
      return resp
>>
      The result may be nil when a middleware returns (nil, nil). *)
  Section Server.
    Variable new_batch_ctx : C -> M -> C.
    Variable message_error : C -> M -> E -> P.

    Definition handle_request_result (c' : C) (req : M) (o : res gores) : res (option P) :=
      match o with
      | Ok (_, Some err) => Ok (Some (message_error c' req err))
      | Ok (resp, None) => Ok resp
      | Err => Err | Panic => Panic | OutOfFuel => OutOfFuel
      end.

    Definition run_impl_server (mws : list (stage C M gores St)) (core : C -> M -> St -> res gores * St)
               (c : C) (req : M) (s : St) : res (option P) * St * list (event C M gores) :=
      let c' := new_batch_ctx c req in
      match server_chain (S (length mws)) mws (core_kont core) 0 c' req s with
      | (o, s', t) => (handle_request_result c' req o, s', t)
      end.

    Definition run_spec_server (mws : list (stage C M gores St)) (core : C -> M -> St -> res gores * St)
               (c : C) (req : M) (s : St) : res (option P) * St * list (event C M gores) :=
      let c' := new_batch_ctx c req in
      match run_spec mws core c' req s with
      | (o, s', t) => (handle_request_result c' req o, s', t)
      end.

    (** Before the fix: shared cursor and the outer request passed on. *)
    Definition run_cursor_server (mws : list (stage C M gores St)) (core : C -> M -> St -> res gores * St)
               (c : C) (req : M) (s : St) : res (option P) * St * list (event C M gores) :=
      let c' := new_batch_ctx c req in
      match run_cursor false mws core c' req s with
      | (o, s', t) => (handle_request_result c' req o, s', t)
      end.
  End Server.

  (** BatchExecutor.executeItemWithMiddleware:
<<
      respBi, err := chain(0)(ctx, bi)
      if respBi == nil {
          respBi = &kmip.ResponseBatchItem{Operation: bi.Operation, UniqueBatchItemID: bi.UniqueBatchItemID}
          if err == nil { err = errors.New("No response for batch item") }
      }
      if err != nil { handleBatchItemError(ctx, respBi, err) }
      return *respBi
>>
      [deref] is the pointer dereference [*respBi]. *)
  Section Item.
    Variable item_for : M -> P.                (* empty response item for the request item *)
    Variable item_error : P -> E -> P.         (* handleBatchItemError *)
    Variable err_no_response : E.

    Definition deref (p : option P) : res P := match p with Some x => Ok x | None => Panic end.

    Definition execute_item_result (bi : M) (o : res gores) : res P :=
      match o with
      | Ok (respBi, err) =>
          let '(respBi, err) :=
            match respBi with
            | None => (Some (item_for bi), match err with None => Some err_no_response | Some _ => err end)
            | Some _ => (respBi, err)
            end in
          let respBi := match err, respBi with
                        | Some e, Some p => Some (item_error p e)
                        | _, _ => respBi
                        end in
          deref respBi
      | Err => Err | Panic => Panic | OutOfFuel => OutOfFuel
      end.

    (** The unrepaired tail: [if err != nil { handleBatchItemError(ctx, respBi, err) }; return *respBi]
        ([handleBatchItemError] writes through the nil pointer). *)
    Definition execute_item_result_unguarded (bi : M) (o : res gores) : res P :=
      match o with
      | Ok (respBi, Some e) => match respBi with Some p => Ok (item_error p e) | None => Panic end
      | Ok (respBi, None) => deref respBi
      | Err => Err | Panic => Panic | OutOfFuel => OutOfFuel
      end.

    Definition run_impl_item (mws : list (stage C M gores St)) (core : C -> M -> St -> res gores * St)
               (c : C) (bi : M) (s : St) : res P * St * list (event C M gores) :=
      match item_chain (S (length mws)) mws (core_kont core) 0 c bi s with
      | (o, s', t) => (execute_item_result bi o, s', t)
      end.

    Definition run_spec_item (mws : list (stage C M gores St)) (core : C -> M -> St -> res gores * St)
               (c : C) (bi : M) (s : St) : res P * St * list (event C M gores) :=
      match run_spec mws core c bi s with
      | (o, s', t) => (execute_item_result bi o, s', t)
      end.

    Definition run_cursor_item (mws : list (stage C M gores St)) (core : C -> M -> St -> res gores * St)
               (c : C) (bi : M) (s : St) : res P * St * list (event C M gores) :=
      match run_cursor true mws core c bi s with
      | (o, s', t) => (execute_item_result_unguarded bi o, s', t)
      end.

    (** The loop of [handleRequest] over the batch items (continuation option Continue):
        every item gets a fresh chain; the state is threaded; a panic aborts the batch. *)
    Fixpoint run_items (run : C -> M -> St -> res P * St * list (event C M gores))
             (c : C) (items : list M) (s : St) : res (list P) * St * list (event C M gores) :=
      match items with
      | [] => (Ok [], s, [])
      | bi :: rest =>
          match run c bi s with
          | (Ok p, s1, t1) =>
              match run_items run c rest s1 with
              | (Ok ps, s2, t2) => (Ok (p :: ps), s2, t1 ++ t2)
              | (o, s2, t2) => (o, s2, t1 ++ t2)
              end
          | (Err, s1, t1) => (Err, s1, t1)
          | (Panic, s1, t1) => (Panic, s1, t1)
          | (OutOfFuel, s1, t1) => (OutOfFuel, s1, t1)
          end
      end.
  End Item.
End Wrappers.

Arguments gores : clear implicits.
Arguments handle_request_result {C M P E}. Arguments run_impl_server {C M St P E}.
Arguments run_spec_server {C M St P E}. Arguments run_cursor_server {C M St P E}.
Arguments deref {P}. Arguments execute_item_result {M P E}. Arguments execute_item_result_unguarded {M P E}.
Arguments run_impl_item {C M St P E}. Arguments run_spec_item {C M St P E}. Arguments run_cursor_item {C M St P E}.
Arguments run_items {C M St P E}.
