(** Decoder side of kmip.Attribute (attributes.go): reflective encoder, hand-written decoder
    choosing the type of the value by the attribute name. *)
From Coq Require Import ZArith List Bool String Lia PeanoNat.
From KV Require Import Base BaseProofs Wire WireProofs Cursor CursorProofs Schema SchemaSem SchemaSemEq FaithfulProofs
  Roundtrip RoundtripEq RoundtripProofs RtCustomLib Normalize NormalizeEq DecConfDefs NormProofs DecConfLib DecConfProofs DecConfCustomLib.
Import ListNotations.
Open Scope Z_scope.

Section AT.
  Variable S : schema.
  Variables (OPS : op_table) (ATTRS : attr_table) (OBJS : obj_table).
  Context {R : Type}.
  Variable F : rawfmt R.
  Variable eok : relem R -> bool.
  Hypothesis HR : fmt_ranged F eok.
  Hypothesis HS : schema_ok S OPS ATTRS OBJS = true.

  Local Notation enc_ty := (enc_ty S).
  Local Notation enc_fields := (enc_fields S).
  Local Notation norm_ty := (norm_ty S).
  Local Notation norm_fields := (norm_fields S).
  Local Notation dec_ty := (dec_ty S OPS ATTRS OBJS F).
  Local Notation conf_ty := (conf_ty S OPS ATTRS OBJS).
  Local Notation c_ok := (c_ok eok).
  Local Notation Good := (Good S OPS ATTRS OBJS).
  Local Notation Rng := (Rng eok).
  Local Notation DQ := (DQ S OPS ATTRS OBJS F eok).
  Local Notation lib x := (x S OPS ATTRS OBJS _ F eok HR HS) (only parsing).

  Lemma attr_ty_value_ok name :
    forallb (fun e => attr_value_ok S (snd e)) ATTRS = true -> attr_value_ok S (TNamed "ttlv.Value") = true ->
    attr_value_ok S (attr_ty ATTRS name) = true.
  Proof.
    intros Hall Hv. unfold attr_ty. destruct (attr_is_custom name); [exact Hv|].
    unfold lookup_attr. destruct (find (fun e => zlist_eqb_s (fst e) name) ATTRS) as [e|] eqn:E; [|exact Hv].
    apply find_some in E. rewrite forallb_forall in Hall. apply Hall, E.
  Qed.

  Lemma dc_attribute f : DQ f -> forall st d tag (c : cur R) v c' st',
    find_tdef S (t_name d) = Some d -> t_custom_dec d = true ->
    t_name d = "kmip.Attribute"%string -> attribute_ok S ATTRS d = true ->
    dec_attribute ATTRS F (dec_ty f) st d tag c = Ok (v, c', st') ->
    exists items, Good st (TNamed (t_name d)) tag v st' items /\ Rng c c' items.
  Proof.
    intros HQ st d tag c v c' st' Ed Hcd Hname Hok H.
    assert (EV : String.eqb (t_name d) "ttlv.Value" = false) by (rewrite Hname; reflexivity).
    assert (ES : String.eqb (t_name d) "ttlv.Struct" = false) by (rewrite Hname; reflexivity).
    unfold attribute_ok in Hok. destruct (t_fields d) as [|f0 [|f1 [|f2 [|? ?]]]] eqn:Hfl; try discriminate.
    rewrite !andb_true_iff in Hok.
    destruct Hok as ((((((((((((Hce & Hp0) & Hp1) & Hp2) & Ho0) & Ho1) & Ho2) & Ht0) & Ht1) & Hm2) & H12) & Hattrs) & Hval).
    apply negb_true_iff in Hce. pose proof Ho0 as Ho0'. pose proof Ho1 as Ho1'. pose proof Ho2 as Ho2'. apply negb_true_iff in Ho0', Ho1', Ho2'.
    pose proof (ty_eqb_eq _ _ Ht0) as Et0. pose proof (ty_eqb_eq _ _ Ht1) as Et1.
    assert (Et2 : exists nm, f_ty f2 = TIface nm) by (destruct (f_ty f2); try discriminate; eauto). destruct Et2 as [nm Et2].
    assert (Hg0 : ftag d 0 = f_tag f0) by (unfold ftag, nth_field; rewrite Hfl; reflexivity).
    assert (Hg1 : ftag d 1 = f_tag f1) by (unfold ftag, nth_field; rewrite Hfl; reflexivity).
    assert (Hg2 : ftag d 2 = f_tag f2) by (unfold ftag, nth_field; rewrite Hfl; reflexivity).
    unfold dec_attribute in H. rewrite Hg0, Hg1, Hg2 in H.
    destruct (lib wrap_struct_inv _ _ _ _ _ _ _ H) as (sub & vals & c2 & Hb & -> & Hw). clear H.
    destruct (c_text F (f_tag f0) sub) as [[name c_1]| | |] eqn:Enm; cbn [bind fst snd] in Hb; try discriminate.
    match type of Hb with bind ?m _ = _ => destruct m as [[idx c_2]| | |] eqn:Eidx; cbn [bind fst snd] in Hb; try discriminate end.
    pose proof (attr_ty_value_ok name Hattrs Hval) as Hav. set (aty := attr_ty ATTRS name) in *.
    unfold attr_value_ok in Hav. apply andb_true_iff in Hav. destruct Hav as [Hone Hel].
    destruct (SchemaSem.dec_ty S OPS ATTRS OBJS F f st aty (f_tag f2) c_2) as [[[w c_3] s_3]| | |] eqn:Ev; cbn [bind fst snd] in Hb; try discriminate.
    injection Hb as <- <- <-.
    destruct (lib elem_good _ _ _ _ _ _ _ _ HQ Hel Ev) as (-> & iv & (w' & fv & Hv) & Rv).
    (* the name *)
    unfold c_text in Enm. destruct (c_scalar_inv _ _ _ _ _ _ Enm) as (raw & kids & kb & rest & Ec & Ep & En).
    (* the index *)
    assert (Hidx : exists ii, (idx = VNil /\ ii = [] \/ exists z, idx = VPtr (VInt z) /\ ii = [IInt (f_tag f1) z]) /\
                   (c_ok c_1 -> c_ok c_2 /\ forallb item_ok ii = true)).
    { destruct (c_tag c_1 =? f_tag f1).
      - destruct (c_integer F (f_tag f1) c_1) as [[z cz]| | |] eqn:Ez; cbn [bind fst snd] in Eidx; try discriminate.
        injection Eidx as <- <-. exists [IInt (f_tag f1) z]. split; [right; eauto|].
        unfold c_integer in Ez. destruct (c_scalar_inv _ _ _ _ _ _ Ez) as (raw1 & kids1 & kb1 & rest1 & Ec1 & Ep1 & En1).
        intros Hc. pose proof (c_ok_head eok _ _ _ Ec1 Hc) as He. split; [eapply c_next_ok; eassumption|].
        cbn [forallb item_ok]. rewrite (r_tag _ _ HR _ _ _ _ _ He), (r_int _ _ HR _ _ _ _ _ He Ep1). reflexivity.
      - injection Eidx as <- <-. exists []. split; [left; auto|]. intros Hc. split; [exact Hc | reflexivity]. }
    destruct Hidx as (ii & Hidx & Ridx).
    (* the reflective encoding, field by field *)
    assert (Hd0 : HeadEN S st f0 (VStr name) [IText (f_tag f0) name] (VStr name)).
    { exists 1%nat. intros g Hg. destruct g as [|g]; [lia|]. rewrite Ho0', Et0. cbn [andb]. rewrite enc_ty_eq, norm_ty_eq. split; reflexivity. }
    assert (Hd1 : HeadEN S st f1 idx ii idx).
    { exists 2%nat. intros g Hg. destruct g as [|[|g]]; try lia. rewrite Ho1', Et1. cbn [andb].
      destruct Hidx as [[-> ->]|(z & -> & ->)].
      - rewrite enc_ty_eq, norm_ty_eq. split; reflexivity.
      - rewrite enc_ty_eq, norm_ty_eq, enc_ty_eq, norm_ty_eq. split; reflexivity. }
    assert (Hd2 : HeadEN S st f2 (VIface aty w) iv (VIface aty w')).
    { exists (Datatypes.S fv). intros g Hg. destruct g as [|g]; [lia|]. rewrite Ho2', Et2. cbn [andb].
      destruct (Hv g ltac:(lia)) as (V1 & V2 & _). rewrite enc_ty_eq, norm_ty_eq, V1, V2. split; reflexivity. }
    pose proof (lib tail_cons_pos _ _ _ _ _ _ _ _ _ _ Hp0 Hd0
                  (lib tail_cons_pos _ _ _ _ _ _ _ _ _ _ Hp1 Hd1
                     (lib tail_cons_pos _ _ _ _ _ _ _ _ _ _ Hp2 Hd2 (lib tail_nil st)))) as (ft & Htl).
    exists [IStruct tag ([IText (f_tag f0) name] ++ ii ++ iv ++ [])].
    split.
    - exists (VStruct (t_name d) [VStr name; idx; VIface aty w']), (Datatypes.S (Datatypes.S (Nat.max ft fv))).
      intros g Hge. destruct g as [|g]; [lia|].
      destruct (Htl g ltac:(lia)) as [T1 T2]. destruct (Hv g ltac:(lia)) as (_ & _ & V3).
      rewrite enc_ty_eq, norm_ty_eq, conf_ty_eq, EV, ES, Ed, Hce, Hcd, Hfl, T1, T2, String.eqb_refl. cbn [bind fst snd negb andb].
      split; [reflexivity|]. split; [reflexivity|].
      unfold conf_custom_of. cbv zeta. rewrite Hname.
      change (String.eqb "kmip.Attribute" "kmip.RequestBatchItem") with false.
      change (String.eqb "kmip.Attribute" "kmip.ResponseBatchItem") with false.
      change (String.eqb "kmip.Attribute" "kmip.Attribute") with true. cbv iota.
      unfold conf_attribute. rewrite Hfl, Hce, Hp0, Hp1, Hp2, Ho0, Ho1, Ho2, Ht0, Ht1, Hm2, H12. fold aty.
      rewrite ty_eqb_refl, Hone, (keeps_of_conf _ _ _ _ _ V3). cbn [negb andb].
      destruct Hidx as [[-> _]|(z & -> & _)]; reflexivity.
    - intros Hc. destruct (Hw Hc) as (Hsub & Hc' & Ht). split; [exact Hc'|].
      pose proof (c_ok_head eok _ _ _ Ec Hsub) as He.
      assert (Hc1 : c_ok c_1) by (eapply c_next_ok; eassumption).
      destruct (Ridx Hc1) as [Hc2 Iidx]. destruct (Rv Hc2) as [_ Iv].
      cbn [forallb item_ok]. unfold tag_rng in Ht. rewrite Ht. cbn [andb]. rewrite andb_true_r.
      cbn [app forallb item_ok]. rewrite (r_tag _ _ HR _ _ _ _ _ He), (r_text _ _ HR _ _ _ _ _ He Ep). cbn [andb].
      rewrite !forallb_app, Iidx, Iv. reflexivity.
  Qed.
End AT.
