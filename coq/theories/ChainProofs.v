(** Proofs about the middleware chains (property C19). *)
From Coq Require Import List Bool Arith Lia.
From KV Require Import Base Chain ChainSyn Lts.
Import ListNotations.

Section ChainProofs.
  Variables C M R St : Type.
  Notation prog := (prog C M R St).
  Notation stage := (stage C M R St).
  Notation event := (event C M R).
  Notation kont := (kont C M R St).

  (** ** Extensionality of [exec] in the continuation. *)
  Lemma exec_ext (i : nat) (p : prog) (n1 n2 : kont) :
    (forall c m s, n1 c m s = n2 c m s) -> forall s, exec i p n1 s = exec i p n2 s.
  Proof.
    intros Hn. induction p as [r|c m k IH|k IH|s' k IH|]; intros s; cbn [exec].
    - reflexivity.
    - rewrite Hn. destruct (n2 c m s) as [[o s1] t1]. destruct o; try reflexivity.
      rewrite IH. reflexivity.
    - apply IH.
    - apply IH.
    - reflexivity.
  Qed.

  Lemma invoke_ext (i : nat) (mdl : stage) (n1 n2 : kont) :
    (forall c m s, n1 c m s = n2 c m s) -> forall c m s, invoke i mdl n1 c m s = invoke i mdl n2 c m s.
  Proof. intros Hn c m s. unfold invoke. rewrite (exec_ext i (mdl c m) n1 n2 Hn). reflexivity. Qed.

  Lemma spec_from_ext (stages : list stage) : forall i (k1 k2 : kont),
    (forall c m s, k1 c m s = k2 c m s) ->
    forall c m s, spec_from i stages k1 c m s = spec_from i stages k2 c m s.
  Proof.
    induction stages as [|st rest IH]; intros i k1 k2 Hk c m s; cbn [spec_from].
    - apply Hk.
    - apply invoke_ext. intros c' m' s'. apply IH. exact Hk.
  Qed.

  Lemma nth_error_skipn {A} (l : list A) : forall i x,
    nth_error l i = Some x -> skipn i l = x :: skipn (S i) l.
  Proof.
    induction l as [|y ys IH]; intros [|i] x H; cbn in *; try discriminate.
    - injection H as ->. reflexivity.
    - apply IH. exact H.
  Qed.

  Lemma nth_error_lt_some {A} (l : list A) i : i < length l -> exists x, nth_error l i = Some x.
  Proof.
    intros H. destruct (nth_error l i) as [x|] eqn:E; [exists x; reflexivity|].
    apply nth_error_None in E. lia.
  Qed.

  (** ** The per-position chains compute the reference semantics. *)
  Tactic Notation "chain_tac" reference(chain) :=
    let fuel := fresh "fuel" in let IH := fresh "IH" in
    intros mws core fuel; induction fuel as [|fuel IH]; intros i Hf c m s; [lia|];
    cbn [chain];
    destruct (i <? length mws) eqn:Hlt;
    [ apply Nat.ltb_lt in Hlt;
      destruct (nth_error_lt_some mws i Hlt) as [mdl Hm]; rewrite Hm;
      rewrite (nth_error_skipn mws i mdl Hm); cbn [spec_from];
      apply invoke_ext; intros c' m' s'; rewrite Nat.add_1_r; apply IH; lia
    | apply Nat.ltb_ge in Hlt; rewrite (skipn_all2 mws Hlt); reflexivity ].

  Lemma client_chain_spec : forall (mws : list stage) (core : kont) fuel i,
    length mws - i < fuel ->
    forall c m s, client_chain fuel mws core i c m s = spec_from i (skipn i mws) core c m s.
  Proof. chain_tac client_chain. Qed.

  Lemma server_chain_spec : forall (mws : list stage) (core : kont) fuel i,
    length mws - i < fuel ->
    forall c m s, server_chain fuel mws core i c m s = spec_from i (skipn i mws) core c m s.
  Proof. chain_tac server_chain. Qed.

  Lemma item_chain_spec : forall (mws : list stage) (core : kont) fuel i,
    length mws - i < fuel ->
    forall c m s, item_chain fuel mws core i c m s = spec_from i (skipn i mws) core c m s.
  Proof. chain_tac item_chain. Qed.

  Theorem client_chain_correct (stages : list stage) (core : C -> M -> St -> res R * St) c m s :
    run_impl_client stages core c m s = run_spec stages core c m s.
  Proof. unfold run_impl_client, run_spec. rewrite client_chain_spec by lia. reflexivity. Qed.

  Lemma server_chain_run (stages : list stage) (core : C -> M -> St -> res R * St) c m s :
    server_chain (S (length stages)) stages (core_kont core) 0 c m s = run_spec stages core c m s.
  Proof. unfold run_spec. rewrite server_chain_spec by lia. reflexivity. Qed.

  Lemma item_chain_run (stages : list stage) (core : C -> M -> St -> res R * St) c m s :
    item_chain (S (length stages)) stages (core_kont core) 0 c m s = run_spec stages core c m s.
  Proof. unfold run_spec. rewrite item_chain_spec by lia. reflexivity. Qed.

  (** More fuel changes nothing (the fuel is a device of the model, not of the code). *)
  Lemma client_chain_fuel (mws : list stage) (core : kont) f1 f2 i c m s :
    length mws - i < f1 -> length mws - i < f2 ->
    client_chain f1 mws core i c m s = client_chain f2 mws core i c m s.
  Proof. intros H1 H2. rewrite !client_chain_spec by assumption. reflexivity. Qed.

  (** ** Outcomes: no fuel exhaustion, no model error; panics only come from a middleware
      or the innermost handler, never from the chain's own indexing. *)
  Definition good (o : res R) : Prop := match o with Ok _ => True | Panic => True | _ => False end.
  Definition kgood (k : kont) : Prop := forall c m s, good (fst (fst (k c m s))).

  Lemma exec_good i (p : prog) (next : kont) : kgood next -> forall s, good (fst (fst (exec i p next s))).
  Proof.
    intros Hn. induction p as [r|c m k IH|k IH|s' k IH|]; intros s; cbn [exec].
    - exact I.
    - specialize (Hn c m s). destruct (next c m s) as [[o s1] t1]. cbn [fst] in Hn.
      destruct o; cbn [fst]; try exact Hn.
      specialize (IH a s1). destruct (exec i (k a) next s1) as [[o2 s2] t2]. exact IH.
    - apply IH.
    - apply IH.
    - exact I.
  Qed.

  Lemma spec_good (stages : list stage) : forall i (core : kont), kgood core -> kgood (spec_from i stages core).
  Proof.
    induction stages as [|st rest IH]; intros i core Hc; cbn [spec_from]; [exact Hc|].
    intros c m s. unfold invoke.
    pose proof (exec_good i (st c m) (spec_from (S i) rest core) (IH (S i) core Hc) s) as H.
    destruct (exec i (st c m) (spec_from (S i) rest core) s) as [[o s1] t1]. exact H.
  Qed.

  Lemma core_kont_good (core : C -> M -> St -> res R * St) : returns_or_panics core -> kgood (core_kont core).
  Proof.
    intros H c m s. unfold core_kont. specialize (H c m s). destruct (core c m s) as [o s1]. exact H.
  Qed.

  Theorem run_spec_good (stages : list stage) core c m s :
    returns_or_panics core -> good (fst (fst (run_spec stages core c m s))).
  Proof. intros H. unfold run_spec. apply spec_good. apply core_kont_good. exact H. Qed.

  Definition kok (k : kont) : Prop := forall c m s, exists r, fst (fst (k c m s)) = Ok r.

  Lemma exec_ok i (p : prog) (next : kont) :
    crash_free p -> kok next -> forall s, exists r, fst (fst (exec i p next s)) = Ok r.
  Proof.
    intros Hp Hn. induction Hp as [r|c m k Hk IH|k Hk IH|s' k Hk IH]; intros s; cbn [exec].
    - exists r. reflexivity.
    - destruct (Hn c m s) as [r1 Hr1]. destruct (next c m s) as [[o s1] t1]. cbn [fst] in Hr1. subst o.
      destruct (IH r1 s1) as [r2 Hr2]. destruct (exec i (k r1) next s1) as [[o2 s2] t2].
      exists r2. exact Hr2.
    - apply IH.
    - apply IH.
  Qed.

  Lemma spec_ok (stages : list stage) : forall i (core : kont),
    Forall (fun st : stage => forall c m, crash_free (st c m)) stages -> kok core -> kok (spec_from i stages core).
  Proof.
    induction stages as [|st rest IH]; intros i core Hs Hc; cbn [spec_from]; [exact Hc|].
    inversion Hs as [|? ? Hst Hrest]; subst.
    intros c m s. unfold invoke.
    destruct (exec_ok i (st c m) (spec_from (S i) rest core) (Hst c m) (IH (S i) core Hrest Hc) s) as [r Hr].
    destruct (exec i (st c m) (spec_from (S i) rest core) s) as [[o s1] t1]. exists r. exact Hr.
  Qed.

  Theorem run_spec_ok (stages : list stage) core c m s :
    Forall (fun st : stage => forall c m, crash_free (st c m)) stages ->
    (forall c m s, exists r, fst (core c m s) = Ok r) ->
    exists r, fst (fst (run_spec stages core c m s)) = Ok r.
  Proof.
    intros Hs Hc. unfold run_spec. apply spec_ok; [exact Hs|].
    intros c' m' s'. unfold core_kont. destruct (Hc c' m' s') as [r Hr].
    destruct (core c' m' s') as [o s1]. exists r. exact Hr.
  Qed.

  (** ** Counting. *)
  Definition b2n (b : bool) : nat := if b then 1 else 0.

  Lemma count_app (f : event -> bool) a b : count f (a ++ b) = count f a + count f b.
  Proof. unfold count. rewrite filter_app, app_length. reflexivity. Qed.

  Lemma count_cons (f : event -> bool) e t : count f (e :: t) = b2n (f e) + count f t.
  Proof. unfold count. cbn [filter]. destruct (f e); reflexivity. Qed.

  Lemma count_nil (f : event -> bool) : count f [] = 0.
  Proof. reflexivity. Qed.

  (** If every completed continuation call (its trace and the [EvBack] that follows)
      contributes equally to [f] and [g], so does the whole execution of the middleware. *)
  Lemma exec_count2 (f g : event -> bool) i (p : prog) (next : kont) :
    (forall c m s r s' t, next c m s = (Ok r, s', t) ->
       count f t + b2n (f (EvBack i r)) = count g t + b2n (g (EvBack i r))) ->
    forall s r s' t, exec i p next s = (Ok r, s', t) ->
      count f t + b2n (g (EvRet i r)) = count g t + b2n (f (EvRet i r)).
  Proof.
    intros Hcall. induction p as [r0|c m k IH|k IH|s0 k IH|]; intros s r s' t He; cbn [exec] in He.
    - injection He as <- <- <-. rewrite !count_cons, !count_nil. lia.
    - destruct (next c m s) as [[o s1] t1] eqn:En. destruct o; try discriminate.
      destruct (exec i (k a) next s1) as [[o2 s2] t2] eqn:Ek.
      injection He as -> <- <-.
      specialize (IH a s1 r s2 t2 Ek). specialize (Hcall c m s a s1 t1 En).
      rewrite !count_app, !count_cons. lia.
    - eapply IH. exact He.
    - eapply IH. exact He.
    - discriminate.
  Qed.

  Lemma starts_back n k i r : starts n k (EvBack i r : event) = false.
  Proof. unfold starts. destruct (k <? n); reflexivity. Qed.
  Lemma starts_ret n k i r : starts n k (EvRet i r : event) = false.
  Proof. unfold starts. destruct (k <? n); reflexivity. Qed.
  Lemma starts_enter n k i c m : starts n k (EvEnter i c m : event) = (k <? n) && Nat.eqb i k.
  Proof. unfold starts. destruct (k <? n); reflexivity. Qed.
  Lemma starts_core n k c m : starts n k (EvCore c m : event) = negb (k <? n).
  Proof. unfold starts. destruct (k <? n); reflexivity. Qed.

  Lemma count_ext (f g : event -> bool) t : (forall e, f e = g e) -> count f t = count g t.
  Proof.
    intros H. induction t as [|e t IH]; [reflexivity|]. rewrite !count_cons, IH, H. reflexivity.
  Qed.
  Lemma count_starts_lt n k (t : list event) : k <? n = true -> count (starts n k) t = count (is_enter k) t.
  Proof. intros H. apply count_ext. intros e. unfold starts. rewrite H. reflexivity. Qed.
  Lemma count_starts_ge n k (t : list event) : k <? n = false -> count (starts n k) t = count is_core t.
  Proof. intros H. apply count_ext. intros e. unfold starts. rewrite H. reflexivity. Qed.

  Definition never (_ : event) : bool := false.
  Lemma count_never t : count never t = 0.
  Proof. induction t as [|e t IH]; [reflexivity|]. rewrite count_cons. cbn. exact IH. Qed.

  (** The trace of a chain that returned: position [i] starts once; each completed call of
      the continuation by position [j] starts position [j+1] exactly once; every middleware
      that was entered returned; nothing outside the chain ran. *)
  Lemma spec_counts (core : C -> M -> St -> res R * St) (stages : list stage) : forall i c m s r s' t,
    spec_from i stages (core_kont core) c m s = (Ok r, s', t) ->
    count (starts (i + length stages) i) t = 1 /\
    (forall j, i <= j -> j < i + length stages -> count (starts (i + length stages) (S j)) t = count (is_back j) t) /\
    (forall j, j < i -> count (is_back j) t = 0 /\ count (is_enter j) t = 0) /\
    (forall j, count (is_enter j) t = count (is_ret j) t).
  Proof.
    induction stages as [|st rest IH]; intros i c m s r s' t Hrun; cbn [spec_from length] in *.
    - unfold core_kont in Hrun. destruct (core c m s) as [o s1]. injection Hrun as -> <- <-.
      rewrite Nat.add_0_r. refine (conj _ (conj _ (conj _ _))).
      + rewrite count_cons, count_nil, starts_core, Nat.ltb_irrefl. reflexivity.
      + intros j H1 H2. lia.
      + intros j Hj. split; reflexivity.
      + intros j. reflexivity.
    - unfold invoke in Hrun.
      destruct (exec i (st c m) (spec_from (S i) rest (core_kont core)) s) as [[o s1] t1] eqn:Ex.
      injection Hrun as -> <- <-.
      replace (i + S (length rest)) with (S i + length rest) by lia.
      set (n := S i + length rest).
      assert (Hn : i <? n = true) by (apply Nat.ltb_lt; unfold n; lia).
      (* facts about every completed inner call *)
      assert (Hin : forall c' m' s0 r0 s0' t0, spec_from (S i) rest (core_kont core) c' m' s0 = (Ok r0, s0', t0) ->
                count (starts n (S i)) t0 = 1 /\
                (forall j, S i <= j -> j < n -> count (starts n (S j)) t0 = count (is_back j) t0) /\
                (forall j, j < S i -> count (is_back j) t0 = 0 /\ count (is_enter j) t0 = 0) /\
                (forall j, count (is_enter j) t0 = count (is_ret j) t0))
        by (intros c' m' s0 r0 s0' t0 H0; exact (IH (S i) c' m' s0 r0 s0' t0 H0)).
      refine (conj _ (conj _ (conj _ _))).
      + (* position i starts once *)
        rewrite count_cons, starts_enter, Hn, Nat.eqb_refl. cbn [andb b2n].
        pose proof (exec_count2 (is_enter i) never i (st c m) _
                      (fun c' m' s0 r0 s0' t0 H0 =>
                         ltac:(destruct (Hin c' m' s0 r0 s0' t0 H0) as (_ & _ & H3 & _);
                               destruct (H3 i (Nat.lt_succ_diag_r i)) as [_ H4];
                               rewrite H4, count_never; reflexivity))
                      s r s1 t1 Ex) as H.
        rewrite count_never in H. cbn in H. rewrite (count_starts_lt n i t1 Hn). lia.
      + (* calls of position j start position j+1 *)
        intros j Hij Hjn. rewrite !count_cons, starts_enter.
        replace (Nat.eqb i (S j)) with false by (symmetry; apply Nat.eqb_neq; lia).
        rewrite andb_false_r. cbn [b2n is_back].
        destruct (Nat.eq_dec j i) as [->|Hne].
        * pose proof (exec_count2 (starts n (S i)) (is_back i) i (st c m) _
                        (fun c' m' s0 r0 s0' t0 H0 =>
                           ltac:(destruct (Hin c' m' s0 r0 s0' t0 H0) as (H1 & _ & H3 & _);
                                 destruct (H3 i (Nat.lt_succ_diag_r i)) as [H4 _];
                                 rewrite H1, H4, starts_back; cbn [is_back]; rewrite Nat.eqb_refl; reflexivity))
                        s r s1 t1 Ex) as H.
          rewrite starts_ret in H. cbn [is_back b2n] in H. lia.
        * pose proof (exec_count2 (starts n (S j)) (is_back j) i (st c m) _
                        (fun c' m' s0 r0 s0' t0 H0 =>
                           ltac:(destruct (Hin c' m' s0 r0 s0' t0 H0) as (_ & H2 & _ & _);
                                 rewrite (H2 j ltac:(lia) Hjn), starts_back; cbn [is_back];
                                 replace (Nat.eqb i j) with false by (symmetry; apply Nat.eqb_neq; lia);
                                 reflexivity))
                        s r s1 t1 Ex) as H.
          rewrite starts_ret in H. cbn [is_back b2n] in H. lia.
      + (* no event of an outer position *)
        intros j Hj. split.
        * pose proof (exec_count2 (is_back j) never i (st c m) _
                      (fun c' m' s0 r0 s0' t0 H0 =>
                         ltac:(destruct (Hin c' m' s0 r0 s0' t0 H0) as (_ & _ & H3 & _);
                               destruct (H3 j ltac:(lia)) as [H4 _];
                               rewrite H4, count_never; cbn [is_back];
                               replace (Nat.eqb i j) with false by (symmetry; apply Nat.eqb_neq; lia);
                               reflexivity))
                      s r s1 t1 Ex) as H.
          rewrite count_never in H. cbn in H. rewrite count_cons. cbn [is_back b2n]. lia.
        * pose proof (exec_count2 (is_enter j) never i (st c m) _
                      (fun c' m' s0 r0 s0' t0 H0 =>
                         ltac:(destruct (Hin c' m' s0 r0 s0' t0 H0) as (_ & _ & H3 & _);
                               destruct (H3 j ltac:(lia)) as [_ H4];
                               rewrite H4, count_never; reflexivity))
                      s r s1 t1 Ex) as H.
        rewrite count_never in H. cbn in H. rewrite count_cons. cbn [is_enter].
        replace (Nat.eqb i j) with false by (symmetry; apply Nat.eqb_neq; lia). cbn [b2n]. lia.
      + (* entered = returned *)
        intros j.
        pose proof (exec_count2 (is_enter j) (is_ret j) i (st c m) _
                      (fun c' m' s0 r0 s0' t0 H0 =>
                         ltac:(destruct (Hin c' m' s0 r0 s0' t0 H0) as (_ & _ & _ & H4);
                               rewrite (H4 j); reflexivity))
                      s r s1 t1 Ex) as H.
        cbn [is_enter is_ret] in H. rewrite !count_cons. cbn [is_enter is_ret b2n].
        destruct (Nat.eqb i j); cbn [b2n] in *; lia.
  Qed.

  (** ** Uniform middlewares: the number of executions is the product of the call counts. *)
  Lemma exec_count_uniform (f : event -> bool) i (p : prog) (next : kont) k a :
    calls_exactly k p ->
    (forall c m s, exists r s' t, next c m s = (Ok r, s', t) /\ count f t = a) ->
    (forall r, f (EvBack i r) = false) -> (forall r, f (EvRet i r) = false) ->
    forall s, exists r s' t, exec i p next s = (Ok r, s', t) /\ count f t = k * a.
  Proof.
    intros Hp Hn Hb Hr. induction Hp as [r0|k c m kk Hk IH|k kk Hk IH|k s0 kk Hk IH]; intros s; cbn [exec].
    - exists r0, s, [EvRet i r0]. split; [reflexivity|]. rewrite count_cons, count_nil, Hr. reflexivity.
    - destruct (Hn c m s) as (r1 & s1 & t1 & En & Hc). rewrite En.
      destruct (IH r1 s1) as (r2 & s2 & t2 & Ek & Hc2). rewrite Ek.
      exists r2, s2, (t1 ++ EvBack i r1 :: t2). split; [reflexivity|].
      rewrite count_app, count_cons, Hb, Hc, Hc2. cbn [b2n]. lia.
    - apply IH.
    - apply IH.
  Qed.

  Lemma spec_product (core : C -> M -> St -> res R * St) (stages : list stage) (ns : list nat) :
    Forall2 (fun (st : stage) k => forall c m, calls_exactly k (st c m)) stages ns ->
    (forall c m s, exists r, fst (core c m s) = Ok r) ->
    forall i j, j <= length stages ->
    forall c m s, exists r s' t,
      spec_from i stages (core_kont core) c m s = (Ok r, s', t) /\
      count (starts (i + length stages) (i + j)) t = product (firstn j ns).
  Proof.
    intros Hu Hcore. induction Hu as [|st k rest ns' Hst Hrest IH]; intros i j Hj c m s; cbn [spec_from length] in *.
    - assert (j = 0) by lia. subst j. unfold core_kont. destruct (Hcore c m s) as [r Hr].
      destruct (core c m s) as [o s1]. cbn [fst] in Hr. subst o.
      exists r, s1, [EvCore c m]. split; [reflexivity|].
      rewrite !Nat.add_0_r, count_cons, count_nil, starts_core, Nat.ltb_irrefl. reflexivity.
    - replace (i + S (length rest)) with (S i + length rest) by lia.
      destruct j as [|j'].
      + (* position i itself: once *)
        destruct (exec_count_uniform never i (st c m) (spec_from (S i) rest (core_kont core)) k 0 (Hst c m)) with (s := s)
          as (r & s1 & t1 & Ex & _).
        * intros c' m' s0. destruct (IH (S i) 0 ltac:(lia) c' m' s0) as (r0 & s0' & t0 & E0 & _).
          exists r0, s0', t0. split; [exact E0 | apply count_never].
        * reflexivity.
        * reflexivity.
        * unfold invoke. rewrite Ex. exists r, s1, (EvEnter i c m :: t1). split; [reflexivity|].
          assert (Hrun : spec_from i (st :: rest) (core_kont core) c m s = (Ok r, s1, EvEnter i c m :: t1))
            by (cbn [spec_from]; unfold invoke; rewrite Ex; reflexivity).
          destruct (spec_counts core (st :: rest) i c m s r s1 _ Hrun) as (H1 & _).
          cbn [length] in H1. replace (i + S (length rest)) with (S i + length rest) in H1 by lia.
          rewrite Nat.add_0_r. exact H1.
      + set (n := S i + length rest).
        destruct (exec_count_uniform (starts n (S i + j')) i (st c m) (spec_from (S i) rest (core_kont core)) k
                    (product (firstn j' ns')) (Hst c m)) with (s := s) as (r & s1 & t1 & Ex & Hc).
        * intros c' m' s0. exact (IH (S i) j' ltac:(lia) c' m' s0).
        * intros r0. apply starts_back.
        * intros r0. apply starts_ret.
        * unfold invoke. rewrite Ex. exists r, s1, (EvEnter i c m :: t1). split; [reflexivity|].
          replace (i + S j') with (S i + j') by lia.
          rewrite count_cons, starts_enter.
          replace (Nat.eqb i (S i + j')) with false by (symmetry; apply Nat.eqb_neq; lia).
          rewrite andb_false_r. cbn [b2n firstn product fold_right]. fold (product (firstn j' ns')). lia.
  Qed.

  (** ** The small-step machine computes the reference semantics. *)
  Notation cfg := (cfg C M R St).

  Definition lands (k : cfg) (o : res R) (stk : list (nat * (R -> prog))) (s : St) (t : list event) : Prop :=
    match o with
    | Ok r => k = Build_cfg (Retn r) stk s t
    | Panic => k_ctl k = Dead /\ k_state k = s /\ k_trace k = t
    | _ => False
    end.

  Lemma run_steps_stuck mws core n (k : cfg) : step1 mws core k = None -> run_steps mws core n k = k.
  Proof. intros H. destruct n; cbn [run_steps]; [reflexivity | rewrite H; reflexivity]. Qed.

  Lemma run_steps_add mws core a : forall b (k : cfg),
    run_steps mws core (a + b) k = run_steps mws core b (run_steps mws core a k).
  Proof.
    induction a as [|a IH]; intros b k; cbn [Nat.add run_steps]; [reflexivity|].
    destruct (step1 mws core k) as [k'|] eqn:E; [apply IH|].
    symmetry. apply run_steps_stuck. exact E.
  Qed.

  Lemma run_steps_one mws core (k k' : cfg) n : step1 mws core k = Some k' ->
    run_steps mws core (S n) k = run_steps mws core n k'.
  Proof. intros H. cbn [run_steps]. rewrite H. reflexivity. Qed.

  Section Machine.
    Variable mws : list stage.
    Variable core : C -> M -> St -> res R * St.
    Let corek := core_kont core.

    Definition enter_ok (i : nat) : Prop :=
      forall c m stk s t o s' tr,
        spec_from i (skipn i mws) corek c m s = (o, s', tr) -> good o ->
        exists n, lands (run_steps mws core n (enter mws core i c m stk s t)) o stk s' (t ++ tr).

    Lemma machine_exec i : enter_ok (S i) ->
      forall (p : prog) stk s t o s' tr,
        exec i p (spec_from (S i) (skipn (S i) mws) corek) s = (o, s', tr) -> good o ->
        exists n, lands (run_steps mws core n (Build_cfg (Run i p) stk s t)) o stk s' (t ++ tr).
    Proof.
      intros Hen. induction p as [r|c m k IH|k IH|s0 k IH|]; intros stk s t o s' tr He Hg; cbn [exec] in He.
      - injection He as <- <- <-. exists 1. cbn. reflexivity.
      - destruct (spec_from (S i) (skipn (S i) mws) corek c m s) as [[o1 s1] t1] eqn:En.
        assert (Hstep : step1 mws core (Build_cfg (Run i (Call c m k)) stk s t)
                        = Some (enter mws core (i + 1) c m ((i, k) :: stk) s t)) by reflexivity.
        rewrite Nat.add_1_r in Hstep.
        destruct o1 as [r1| | |].
        + destruct (exec i (k r1) (spec_from (S i) (skipn (S i) mws) corek) s1) as [[o2 s2] t2] eqn:Ek.
          injection He as <- <- <-.
          destruct (Hen c m ((i, k) :: stk) s t (Ok r1) s1 t1 En I) as [n1 H1]. cbn [lands] in H1.
          destruct (IH r1 stk s1 ((t ++ t1) ++ [EvBack i r1]) o2 s2 t2 Ek Hg) as [n2 H2].
          exists (S (n1 + 1 + n2)). rewrite (run_steps_one _ _ _ _ _ Hstep).
          rewrite !run_steps_add, H1.
          replace (run_steps mws core 1 (Build_cfg (Retn r1) ((i, k) :: stk) s1 (t ++ t1)))
            with (Build_cfg (Run i (k r1)) stk s1 ((t ++ t1) ++ [EvBack i r1])) by reflexivity.
          replace (t ++ t1 ++ EvBack i r1 :: t2) with (((t ++ t1) ++ [EvBack i r1]) ++ t2)
            by (rewrite <- !app_assoc; reflexivity).
          exact H2.
        + injection He as <- <- <-. destruct Hg.
        + injection He as <- <- <-.
          destruct (Hen c m ((i, k) :: stk) s t Panic s1 t1 En I) as [n1 H1].
          exists (S n1). rewrite (run_steps_one _ _ _ _ _ Hstep). exact H1.
        + injection He as <- <- <-. destruct Hg.
      - destruct (IH s stk s t o s' tr He Hg) as [n Hn]. exists (S n).
        rewrite (run_steps_one _ _ (Build_cfg (Run i (Get k)) stk s t) (Build_cfg (Run i (k s)) stk s t)) by reflexivity.
        exact Hn.
      - destruct (IH stk s0 t o s' tr He Hg) as [n Hn]. exists (S n).
        rewrite (run_steps_one _ _ (Build_cfg (Run i (Put s0 k)) stk s t) (Build_cfg (Run i k) stk s0 t)) by reflexivity.
        exact Hn.
      - injection He as <- <- <-. exists 1. cbn. repeat split.
    Qed.

    Lemma machine_enter : forall d i, length mws - i = d -> i <= length mws -> enter_ok i.
    Proof.
      induction d as [|d IH]; intros i Hd Hi c m stk s t o s' tr Hs Hg.
      - (* i = length mws: the innermost handler *)
        assert (i = length mws) by lia. subst i.
        rewrite skipn_all in Hs. cbn [spec_from] in Hs. unfold corek, core_kont in Hs.
        unfold enter. rewrite (proj2 (nth_error_None mws (length mws)) (le_n _)).
        destruct (core c m s) as [o1 s1]. injection Hs as <- <- <-.
        exists 0. destruct o1; cbn [good] in Hg; try destruct Hg; cbn; repeat split.
      - assert (Hlt : i < length mws) by lia.
        destruct (nth_error_lt_some mws i Hlt) as [mdl Hm].
        rewrite (nth_error_skipn mws i mdl Hm) in Hs. cbn [spec_from] in Hs. unfold invoke in Hs.
        destruct (exec i (mdl c m) (spec_from (S i) (skipn (S i) mws) corek) s) as [[o1 s1] t1] eqn:Ex.
        injection Hs as <- <- <-.
        assert (Hen : enter_ok (S i)) by (apply IH; lia).
        destruct (machine_exec i Hen (mdl c m) stk s (t ++ [EvEnter i c m]) o1 s1 t1 Ex Hg) as [n Hn].
        exists n. unfold enter. rewrite Hm.
        replace (t ++ EvEnter i c m :: t1) with ((t ++ [EvEnter i c m]) ++ t1) by (rewrite <- app_assoc; reflexivity).
        exact Hn.
    Qed.

    Lemma lands_outcome (k : cfg) o s t : lands k o [] s t -> outcome_of k = Some (o, s, t).
    Proof.
      destruct o; cbn [lands]; intros H.
      - subst k. reflexivity.
      - destruct H.
      - destruct H as (H0 & H1 & H2). unfold outcome_of. rewrite H0. subst. reflexivity.
      - destruct H.
    Qed.

    Theorem machine_correct c m s : returns_or_panics core ->
      exists n, outcome_of (run_steps mws core n (start mws core c m s)) = Some (run_spec mws core c m s).
    Proof.
      intros Hc. pose proof (run_spec_good mws core c m s Hc) as Hg.
      destruct (run_spec mws core c m s) as [[o s'] tr] eqn:Er. cbn [fst] in Hg.
      destruct (machine_enter (length mws) 0 ltac:(lia) ltac:(lia) c m [] s [] o s' tr Er Hg) as [n Hn].
      exists n. apply lands_outcome. exact Hn.
    Qed.

    Lemma outcome_stuck (k : cfg) out : outcome_of k = Some out -> step1 mws core k = None.
    Proof.
      unfold outcome_of, step1. destruct (k_ctl k) as [i p|r|]; [discriminate| |reflexivity].
      destruct (k_stack k); [reflexivity | discriminate].
    Qed.

    (** Sequential reachability of one request. *)
    Inductive sreach (k0 : cfg) : cfg -> Prop :=
    | sreach_refl : sreach k0 k0
    | sreach_step : forall k k', sreach k0 k -> step1 mws core k = Some k' -> sreach k0 k'.

    Lemma sreach_run_steps k0 k : sreach k0 k -> exists n, run_steps mws core n k0 = k.
    Proof.
      induction 1 as [|k k' Hr [n IH] Hs].
      - exists 0. reflexivity.
      - exists (n + 1). rewrite run_steps_add, IH. cbn [run_steps]. rewrite Hs. reflexivity.
    Qed.

    Lemma final_unique k0 n1 n2 out1 out2 :
      outcome_of (run_steps mws core n1 k0) = Some out1 ->
      outcome_of (run_steps mws core n2 k0) = Some out2 -> out1 = out2.
    Proof.
      intros H1 H2.
      assert (Hle : forall a b o1 o2, a <= b ->
                outcome_of (run_steps mws core a k0) = Some o1 ->
                outcome_of (run_steps mws core b k0) = Some o2 -> o1 = o2).
      { intros a b o1 o2 Hab Ha Hb. replace b with (a + (b - a)) in Hb by lia.
        rewrite run_steps_add in Hb. rewrite (run_steps_stuck _ _ _ _ (outcome_stuck _ _ Ha)) in Hb.
        congruence. }
      destruct (Nat.le_ge_cases n1 n2) as [H|H].
      - eapply Hle; eassumption.
      - symmetry. eapply Hle; eassumption.
    Qed.

    (** One step of the interleaving moves exactly one request by one of its own steps. *)
    Lemma par_steps_pointwise (ks ks' : list cfg) :
      In ks' (par_steps mws core ks) -> Forall2 (fun k k' => k' = k \/ step1 mws core k = Some k') ks ks'.
    Proof.
      revert ks'. induction ks as [|k rest IH]; intros ks' Hin; cbn [par_steps] in Hin; [destruct Hin|].
      apply in_app_or in Hin. destruct Hin as [Hin|Hin].
      - destruct (step1 mws core k) as [k'|] eqn:E; [|destruct Hin].
        destruct Hin as [<-|[]]. constructor; [right; exact E|].
        clear. induction rest; constructor; [left; reflexivity | assumption].
      - apply in_map_iff in Hin. destruct Hin as (tl & <- & Htl).
        constructor; [left; reflexivity | apply IH; exact Htl].
    Qed.

    Lemma Forall2_nth {A B} (P : A -> B -> Prop) l1 l2 : Forall2 P l1 l2 ->
      forall j a b, nth_error l1 j = Some a -> nth_error l2 j = Some b -> P a b.
    Proof.
      induction 1 as [|x y l1 l2 Hxy Hl IH]; intros [|j] a b Ha Hb; cbn in *; try discriminate.
      - injection Ha as <-. injection Hb as <-. exact Hxy.
      - eapply IH; eassumption.
    Qed.

    Lemma par_reach_sreach ks0 ks : reachable (par_steps mws core) ks0 ks -> Forall2 sreach ks0 ks.
    Proof.
      induction 1 as [|ks ks' Hr IH Hin].
      - induction ks0; constructor; [apply sreach_refl | assumption].
      - apply par_steps_pointwise in Hin. clear Hr. revert ks' Hin.
        induction IH as [|k0 k l0 l Hk Hl IHl]; intros ks' Hin; inversion Hin as [|? k' ? l' Hkk Hll]; subst; constructor.
        + destruct Hkk as [->|Hs]; [exact Hk | eapply sreach_step; eassumption].
        + apply IHl. exact Hll.
    Qed.

    (** Requests in flight over the same middleware slice, interleaved in any way: a
        request that has finished has delivered exactly what the reference semantics
        says for it alone. *)
    Theorem concurrent_requests_independent (reqs : list (C * M * St)) ks :
      returns_or_panics core ->
      reachable (par_steps mws core) (map (fun q => start mws core (fst (fst q)) (snd (fst q)) (snd q)) reqs) ks ->
      forall j q k out, nth_error reqs j = Some q -> nth_error ks j = Some k -> outcome_of k = Some out ->
        out = run_spec mws core (fst (fst q)) (snd (fst q)) (snd q).
    Proof.
      intros Hc Hr j q k out Hq Hk Ho.
      pose proof (par_reach_sreach _ _ Hr) as HF.
      pose proof (Forall2_nth _ _ _ HF j _ k (map_nth_error _ j reqs Hq) Hk) as Hs.
      destruct (sreach_run_steps _ _ Hs) as [n1 H1].
      destruct (machine_correct (fst (fst q)) (snd (fst q)) (snd q) Hc) as [n2 H2].
      rewrite <- H1 in Ho. exact (final_unique _ _ _ _ _ Ho H2).
    Qed.

    (** No deadlock: while some request is unfinished, some step is possible. *)
    Lemma unfinished_steps (k : cfg) : outcome_of k = None -> exists k', step1 mws core k = Some k'.
    Proof.
      unfold outcome_of, step1. destruct (k_ctl k) as [i p|r|]; [intros _| |discriminate].
      - destruct p; eexists; reflexivity.
      - destruct (k_stack k) as [|[i kk] stk]; [discriminate | intros _; eexists; reflexivity].
    Qed.

    Theorem concurrent_progress (ks : list cfg) j k :
      nth_error ks j = Some k -> outcome_of k = None -> par_steps mws core ks <> [].
    Proof.
      revert j. induction ks as [|k0 rest IH]; intros [|j] Hk Ho; cbn in Hk; try discriminate; cbn [par_steps].
      - injection Hk as ->. destruct (unfinished_steps k Ho) as [k' Hs]. rewrite Hs. discriminate.
      - specialize (IH j Hk Ho). destruct (par_steps mws core rest) as [|x xs]; [contradiction|].
        destruct (step1 mws core k0); discriminate.
    Qed.
  End Machine.
End ChainProofs.

(** * The wrappers of the two server chains. *)
Section WrapperProofs.
  Variables C M St P E : Type.
  Notation gstage := (stage C M (gores P E) St).

  Theorem server_chain_correct (nbc : C -> M -> C) (me : C -> M -> E -> P) (mws : list gstage) core c req s :
    run_impl_server nbc me mws core c req s = run_spec_server nbc me mws core c req s.
  Proof. unfold run_impl_server, run_spec_server. rewrite server_chain_run. reflexivity. Qed.

  Theorem item_chain_correct (itf : M -> P) (ie : P -> E -> P) (en : E) (mws : list gstage) core c bi s :
    run_impl_item itf ie en mws core c bi s = run_spec_item itf ie en mws core c bi s.
  Proof. unfold run_impl_item, run_spec_item. rewrite item_chain_run. reflexivity. Qed.

  Lemma run_items_ext (run1 run2 : C -> M -> St -> res P * St * list (event C M (gores P E))) :
    (forall c m s, run1 c m s = run2 c m s) ->
    forall c items s, run_items run1 c items s = run_items run2 c items s.
  Proof.
    intros H c items. induction items as [|bi rest IH]; intros s; cbn [run_items]; [reflexivity|].
    rewrite H. destruct (run2 c bi s) as [[o s1] t1]. destruct o; try reflexivity.
    rewrite IH. reflexivity.
  Qed.

  Theorem batch_items_correct (itf : M -> P) (ie : P -> E -> P) (en : E) (mws : list gstage) core c items s :
    run_items (run_impl_item itf ie en mws core) c items s = run_items (run_spec_item itf ie en mws core) c items s.
  Proof. apply run_items_ext. intros. apply item_chain_correct. Qed.

  (** The tail of executeItemWithMiddleware never dereferences nil, whatever pair the chain returns. *)
  Theorem execute_item_result_total (itf : M -> P) (ie : P -> E -> P) (en : E) bi (r : gores P E) :
    exists p, execute_item_result itf ie en bi (Ok r) = Ok p.
  Proof.
    destruct r as [[p|] [e|]]; cbn; eexists; reflexivity.
  Qed.

  Theorem handle_request_result_total (me : C -> M -> E -> P) c' req (r : gores P E) :
    exists x, handle_request_result me c' req (Ok r) = Ok x.
  Proof. destruct r as [p [e|]]; cbn; eexists; reflexivity. Qed.

  (** Before the fix: a middleware returning (nil, err) made the tail panic. *)
  Lemma unguarded_item_result_panics (ie : P -> E -> P) (bi : M) (e : E) :
    execute_item_result_unguarded ie bi (Ok (None, Some e)) = Panic.
  Proof. reflexivity. Qed.

  Lemma server_outcome (nbc : C -> M -> C) (me : C -> M -> E -> P) (mws : list gstage) core c req s :
    returns_or_panics core ->
    match fst (fst (run_impl_server nbc me mws core c req s)) with Ok _ => True | Panic => True | _ => False end.
  Proof.
    intros Hc. rewrite server_chain_correct. unfold run_spec_server.
    pose proof (run_spec_good _ _ _ _ mws core (nbc c req) req s Hc) as Hg.
    destruct (run_spec mws core (nbc c req) req s) as [[o s1] t1]. cbn [fst] in *.
    destruct o as [[p [e|]]| | |]; cbn; try exact I; exact Hg.
  Qed.

  Lemma item_outcome (itf : M -> P) (ie : P -> E -> P) (en : E) (mws : list gstage) core c bi s :
    returns_or_panics core ->
    match fst (fst (run_impl_item itf ie en mws core c bi s)) with Ok _ => True | Panic => True | _ => False end.
  Proof.
    intros Hc. rewrite item_chain_correct. unfold run_spec_item.
    pose proof (run_spec_good _ _ _ _ mws core c bi s Hc) as Hg.
    destruct (run_spec mws core c bi s) as [[o s1] t1]. cbn [fst] in *.
    destruct o as [r| | |]; try exact Hg.
    destruct (execute_item_result_total itf ie en bi r) as [p Hp]. rewrite Hp. exact I.
  Qed.

  Lemma server_ok (nbc : C -> M -> C) (me : C -> M -> E -> P) (mws : list gstage) core c req s :
    Forall (fun st : gstage => forall c m, crash_free (st c m)) mws ->
    (forall c m s, exists r, fst (core c m s) = Ok r) ->
    exists x, fst (fst (run_impl_server nbc me mws core c req s)) = Ok x.
  Proof.
    intros Hs Hc. rewrite server_chain_correct. unfold run_spec_server.
    destruct (run_spec_ok _ _ _ _ mws core (nbc c req) req s Hs Hc) as [r Hr].
    destruct (run_spec mws core (nbc c req) req s) as [[o s1] t1]. cbn [fst] in *. subst o.
    apply handle_request_result_total.
  Qed.

  Lemma item_ok (itf : M -> P) (ie : P -> E -> P) (en : E) (mws : list gstage) core c bi s :
    Forall (fun st : gstage => forall c m, crash_free (st c m)) mws ->
    (forall c m s, exists r, fst (core c m s) = Ok r) ->
    exists p, fst (fst (run_impl_item itf ie en mws core c bi s)) = Ok p.
  Proof.
    intros Hs Hc. rewrite item_chain_correct. unfold run_spec_item.
    destruct (run_spec_ok _ _ _ _ mws core c bi s Hs Hc) as [r Hr].
    destruct (run_spec mws core c bi s) as [[o s1] t1]. cbn [fst] in *. subst o.
    apply execute_item_result_total.
  Qed.
End WrapperProofs.

(** * Refutation of the unrepaired code (pinned tree): concrete witnesses. *)
Definition w_retry : stage unit nat nat unit := fun c m => Call c m (fun _ => Call c m (fun r => Ret r)).
Definition w_pass : stage unit nat nat unit := fun c m => Call c m (fun r => Ret r).
Definition w_subst : stage unit nat nat unit := fun c m => Call c (m + 100) (fun r => Ret r).
Definition w_core : unit -> nat -> unit -> res nat * unit := fun _ m s => (Ok m, s).

(** [retry; pass] under the shared cursor: the second call of next by the retry
    middleware goes straight to the innermost handler. *)
Lemma shared_cursor_refuted :
  let t_cursor := snd (run_cursor true [w_retry; w_pass] w_core tt 5 tt) in
  let t_spec := snd (run_spec [w_retry; w_pass] w_core tt 5 tt) in
  count (is_back 0) t_cursor = 2 /\ count (is_enter 1) t_cursor = 1 /\
  count (is_back 0) t_spec = 2 /\ count (is_enter 1) t_spec = 2 /\
  run_cursor true [w_retry; w_pass] w_core tt 5 tt <> run_spec [w_retry; w_pass] w_core tt 5 tt.
Proof. vm_compute. repeat split; discriminate. Qed.

(** The server message chain dropped the message passed to the continuation. *)
Lemma server_message_refuted :
  snd (run_cursor false [w_subst] w_core tt 5 tt) = [EvEnter 0 tt 5; EvCore tt 5; EvBack 0 5; EvRet 0 5] /\
  snd (run_spec [w_subst] w_core tt 5 tt) = [EvEnter 0 tt 5; EvCore tt 105; EvBack 0 105; EvRet 0 105].
Proof. vm_compute. split; reflexivity. Qed.

(** The programs of the stage syntax are programs: the generated cases are instances. *)
Lemma nested_core_agree ichain script c m s :
  nested_core true ichain script c m s = nested_core false ichain script c m s.
Proof. unfold nested_core. rewrite item_chain_correct. reflexivity. Qed.

Theorem generated_cases_agree :
  (forall chain c m, c_run_client true chain c m = c_run_client false chain c m) /\
  (forall chain script c m, c_run_server true chain script c m = c_run_server false chain script c m) /\
  (forall chain script c items, c_run_items true chain script c items = c_run_items false chain script c items) /\
  (forall mchain ichain script c m, c_run_nested true mchain ichain script c m = c_run_nested false mchain ichain script c m).
Proof.
  split; [|split; [|split]].
  - intros. apply client_chain_correct.
  - intros. apply server_chain_correct.
  - intros. apply batch_items_correct.
  - intros. unfold c_run_nested. cbv beta iota zeta.
    rewrite server_chain_spec by (apply Nat.lt_succ_r, Nat.le_sub_l). cbn [skipn].
    rewrite (spec_from_ext _ _ _ _ (compile_all 0 mchain) 0 _ _ (nested_core_agree ichain script)). reflexivity.
Qed.

Lemma retry_example :
  run_impl_client [w_retry; w_pass] w_core tt 5 tt =
  (Ok 5, tt, [EvEnter 0 tt 5; EvEnter 1 tt 5; EvCore tt 5; EvBack 1 5; EvRet 1 5; EvBack 0 5;
              EvEnter 1 tt 5; EvCore tt 5; EvBack 1 5; EvRet 1 5; EvBack 0 5; EvRet 0 5]).
Proof. vm_compute. reflexivity. Qed.

(** * Statements in the form used by Props/C19.v. *)
Lemma chains_total :
  forall (C M St P E : Type) (nbc : C -> M -> C) (me : C -> M -> E -> P)
         (itf : M -> P) (ie : P -> E -> P) (en : E)
         (stages : list (stage C M (gores P E) St)) (core : C -> M -> St -> res (gores P E) * St)
         (ctx : C) (msg : M) (s : St),
    returns_or_panics core ->
    match fst (fst (run_impl_client stages core ctx msg s)) with Ok _ => True | Panic => True | _ => False end /\
    match fst (fst (run_impl_server nbc me stages core ctx msg s)) with Ok _ => True | Panic => True | _ => False end /\
    match fst (fst (run_impl_item itf ie en stages core ctx msg s)) with Ok _ => True | Panic => True | _ => False end.
Proof.
  intros C M St P E nbc me itf ie en stages core ctx msg s H. split; [|split].
  - rewrite client_chain_correct. exact (run_spec_good _ _ _ _ stages core ctx msg s H).
  - exact (server_outcome _ _ _ _ _ nbc me stages core ctx msg s H).
  - exact (item_outcome _ _ _ _ _ itf ie en stages core ctx msg s H).
Qed.

Lemma chains_never_panic_by_themselves :
  forall (C M St P E : Type) (nbc : C -> M -> C) (me : C -> M -> E -> P)
         (itf : M -> P) (ie : P -> E -> P) (en : E)
         (stages : list (stage C M (gores P E) St)) (core : C -> M -> St -> res (gores P E) * St)
         (ctx : C) (msg : M) (s : St),
    Forall (fun st => forall c m, crash_free (st c m)) stages ->
    (forall c m s, exists r, fst (core c m s) = Ok r) ->
    (exists r, fst (fst (run_impl_client stages core ctx msg s)) = Ok r) /\
    (exists r, fst (fst (run_impl_server nbc me stages core ctx msg s)) = Ok r) /\
    (exists r, fst (fst (run_impl_item itf ie en stages core ctx msg s)) = Ok r).
Proof.
  intros C M St P E nbc me itf ie en stages core ctx msg s Hs Hc. split; [|split].
  - rewrite client_chain_correct. exact (run_spec_ok _ _ _ _ stages core ctx msg s Hs Hc).
  - exact (server_ok _ _ _ _ _ nbc me stages core ctx msg s Hs Hc).
  - exact (item_ok _ _ _ _ _ itf ie en stages core ctx msg s Hs Hc).
Qed.

Lemma each_call_runs_the_rest_once :
  forall (C M R St : Type) (stages : list (stage C M R St)) (core : C -> M -> St -> res R * St)
         (ctx : C) (msg : M) (s : St) (r : R) (s' : St) (t : list (event C M R)),
    run_impl_client stages core ctx msg s = (Ok r, s', t) ->
    let n := length stages in
    count (starts n 0) t = 1 /\
    (forall j, j < n -> count (starts n (S j)) t = count (is_back j) t) /\
    (forall j, count (is_enter j) t = count (is_ret j) t).
Proof.
  intros C M R St stages core ctx msg s r s' t H. rewrite client_chain_correct in H.
  destruct (spec_counts C M R St core stages 0 ctx msg s r s' t H) as (H1 & H2 & _ & H4).
  cbn [Nat.add] in *. split; [exact H1|]. split; [|exact H4].
  intros j Hj. apply H2; [apply Nat.le_0_l | exact Hj].
Qed.

Lemma executions_are_the_product_of_call_counts :
  forall (C M R St : Type) (stages : list (stage C M R St)) (ns : list nat)
         (core : C -> M -> St -> res R * St),
    Forall2 (fun st k => forall c m, calls_exactly k (st c m)) stages ns ->
    (forall c m s, exists r, fst (core c m s) = Ok r) ->
    forall j, j <= length stages ->
    forall ctx msg s, exists r s' t,
      run_impl_client stages core ctx msg s = (Ok r, s', t) /\
      count (starts (length stages) j) t = product (firstn j ns).
Proof.
  intros C M R St stages ns core Hu Hc j Hj ctx msg s.
  destruct (spec_product C M R St core stages ns Hu Hc 0 j Hj ctx msg s) as (r & s' & t & H1 & H2).
  exists r, s', t. split; [rewrite client_chain_correct; exact H1 | exact H2].
Qed.

Lemma requests_terminate_and_never_block :
  forall (C M R St : Type) (stages : list (stage C M R St)) (core : C -> M -> St -> res R * St),
    returns_or_panics core ->
    (forall ctx msg s, exists n,
        outcome_of (run_steps stages core n (start stages core ctx msg s)) = Some (run_spec stages core ctx msg s)) /\
    (forall (ks : list (cfg C M R St)) j k,
        nth_error ks j = Some k -> outcome_of k = None -> par_steps stages core ks <> []).
Proof.
  intros C M R St stages core H. split.
  - intros ctx msg s. exact (machine_correct C M R St stages core ctx msg s H).
  - exact (concurrent_progress C M R St stages core).
Qed.

Lemma product_example :
  Forall2 (fun st k => forall c m, calls_exactly k (st c m)) [w_retry; w_pass] [2; 1] /\
  (forall c m s, exists r, fst (w_core c m s) = Ok r) /\ returns_or_panics w_core /\
  product (firstn 2 [2; 1]) = 2.
Proof.
  split; [|split; [|split]].
  - repeat constructor.
  - intros c m s. exists m. reflexivity.
  - intros c m s. exact I.
  - reflexivity.
Qed.

Lemma each_call_runs_the_rest_once_server :
  forall (C M St P E : Type) (nbc : C -> M -> C) (me : C -> M -> E -> P)
         (itf : M -> P) (ie : P -> E -> P) (en : E)
         (stages : list (stage C M (gores P E) St)) (core : C -> M -> St -> res (gores P E) * St)
         (ctx : C) (msg : M) (s : St),
    let n := length stages in
    let balanced (t : list (event C M (gores P E))) :=
      count (starts n 0) t = 1 /\
      (forall j, j < n -> count (starts n (S j)) t = count (is_back j) t) /\
      (forall j, count (is_enter j) t = count (is_ret j) t) in
    (forall x, fst (fst (run_impl_server nbc me stages core ctx msg s)) = Ok x ->
       balanced (snd (run_impl_server nbc me stages core ctx msg s))) /\
    (forall x, fst (fst (run_impl_item itf ie en stages core ctx msg s)) = Ok x ->
       balanced (snd (run_impl_item itf ie en stages core ctx msg s))).
Proof.
  intros C M St P E nbc me itf ie en stages core ctx msg s n balanced.
  assert (Hb : forall c m r s' t, run_spec stages core c m s = (Ok r, s', t) -> balanced t).
  { intros c m r s' t H.
    destruct (spec_counts C M (gores P E) St core stages 0 c m s r s' t H) as (H1 & H2 & _ & H4).
    cbn [Nat.add] in *. split; [exact H1|]. split; [|exact H4].
    intros j Hj. apply H2; [apply Nat.le_0_l | exact Hj]. }
  split; intros x Hx.
  - rewrite server_chain_correct in *. unfold run_spec_server in *.
    destruct (run_spec stages core (nbc ctx msg) msg s) as [[o s1] t1] eqn:Er. cbn [fst snd] in *.
    destruct o as [r| | |]; cbn in Hx; try discriminate. eapply Hb. exact Er.
  - rewrite item_chain_correct in *. unfold run_spec_item in *.
    destruct (run_spec stages core ctx msg s) as [[o s1] t1] eqn:Er. cbn [fst snd] in *.
    destruct o as [r| | |]; cbn in Hx; try discriminate. eapply Hb. exact Er.
Qed.
