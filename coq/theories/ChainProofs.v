From KV Require Import Base Chain.
