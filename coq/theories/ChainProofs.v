(** Proofs about the middleware chains (property C19). *)
From Coq Require Import List Bool Arith Lia.
From KV Require Import Base Chain.
Import ListNotations.

Section ChainProofs.
  Variables C M R St : Type.
  Notation prog := (prog C M R St).
  Notation stage := (stage C M R St).
  Notation event := (event C M R).
  Notation kont := (kont C M R St).

  (** ** Extensionality of [exec] in the continuation. *)
  Lemma exec_ext (i : nat) (p : prog) (n1 n2 : kont) :
    (forall c m s, n1 c m s = n2 c m s) -> forall s, exec i p n1 s = exec i p n2 s.
  Proof.
    intros Hn. induction p as [r|c m k IH|k IH|s' k IH|]; intros s; cbn [exec].
    - reflexivity.
    - rewrite Hn. destruct (n2 c m s) as [[o s1] t1]. destruct o; try reflexivity.
      rewrite IH. reflexivity.
    - apply IH.
    - apply IH.
    - reflexivity.
  Qed.

  Lemma invoke_ext (i : nat) (mdl : stage) (n1 n2 : kont) :
    (forall c m s, n1 c m s = n2 c m s) -> forall c m s, invoke i mdl n1 c m s = invoke i mdl n2 c m s.
  Proof. intros Hn c m s. unfold invoke. rewrite (exec_ext i (mdl c m) n1 n2 Hn). reflexivity. Qed.

  Lemma spec_from_ext (stages : list stage) : forall i (k1 k2 : kont),
    (forall c m s, k1 c m s = k2 c m s) ->
    forall c m s, spec_from i stages k1 c m s = spec_from i stages k2 c m s.
  Proof.
    induction stages as [|st rest IH]; intros i k1 k2 Hk c m s; cbn [spec_from].
    - apply Hk.
    - apply invoke_ext. intros c' m' s'. apply IH. exact Hk.
  Qed.

  Lemma nth_error_skipn {A} (l : list A) : forall i x,
    nth_error l i = Some x -> skipn i l = x :: skipn (S i) l.
  Proof.
    induction l as [|y ys IH]; intros [|i] x H; cbn in *; try discriminate.
    - injection H as ->. reflexivity.
    - apply IH. exact H.
  Qed.

  Lemma nth_error_lt_some {A} (l : list A) i : i < length l -> exists x, nth_error l i = Some x.
  Proof.
    intros H. destruct (nth_error l i) as [x|] eqn:E; [exists x; reflexivity|].
    apply nth_error_None in E. lia.
  Qed.

  (** ** The per-position chains compute the reference semantics. *)
  Tactic Notation "chain_tac" reference(chain) :=
    let fuel := fresh "fuel" in let IH := fresh "IH" in
    intros mws core fuel; induction fuel as [|fuel IH]; intros i Hf c m s; [lia|];
    cbn [chain];
    destruct (i <? length mws) eqn:Hlt;
    [ apply Nat.ltb_lt in Hlt;
      destruct (nth_error_lt_some mws i Hlt) as [mdl Hm]; rewrite Hm;
      rewrite (nth_error_skipn mws i mdl Hm); cbn [spec_from];
      apply invoke_ext; intros c' m' s'; rewrite Nat.add_1_r; apply IH; lia
    | apply Nat.ltb_ge in Hlt; rewrite (skipn_all2 mws Hlt); reflexivity ].

  Lemma client_chain_spec : forall (mws : list stage) (core : kont) fuel i,
    length mws - i < fuel ->
    forall c m s, client_chain fuel mws core i c m s = spec_from i (skipn i mws) core c m s.
  Proof. chain_tac client_chain. Qed.

  Lemma server_chain_spec : forall (mws : list stage) (core : kont) fuel i,
    length mws - i < fuel ->
    forall c m s, server_chain fuel mws core i c m s = spec_from i (skipn i mws) core c m s.
  Proof. chain_tac server_chain. Qed.

  Lemma item_chain_spec : forall (mws : list stage) (core : kont) fuel i,
    length mws - i < fuel ->
    forall c m s, item_chain fuel mws core i c m s = spec_from i (skipn i mws) core c m s.
  Proof. chain_tac item_chain. Qed.

  Theorem client_chain_correct (stages : list stage) (core : C -> M -> St -> res R * St) c m s :
    run_impl_client stages core c m s = run_spec stages core c m s.
  Proof. unfold run_impl_client, run_spec. rewrite client_chain_spec by lia. reflexivity. Qed.

  Lemma server_chain_run (stages : list stage) (core : C -> M -> St -> res R * St) c m s :
    server_chain (S (length stages)) stages (core_kont core) 0 c m s = run_spec stages core c m s.
  Proof. unfold run_spec. rewrite server_chain_spec by lia. reflexivity. Qed.

  Lemma item_chain_run (stages : list stage) (core : C -> M -> St -> res R * St) c m s :
    item_chain (S (length stages)) stages (core_kont core) 0 c m s = run_spec stages core c m s.
  Proof. unfold run_spec. rewrite item_chain_spec by lia. reflexivity. Qed.

  (** More fuel changes nothing (the fuel is a device of the model, not of the code). *)
  Lemma client_chain_fuel (mws : list stage) (core : kont) f1 f2 i c m s :
    length mws - i < f1 -> length mws - i < f2 ->
    client_chain f1 mws core i c m s = client_chain f2 mws core i c m s.
  Proof. intros H1 H2. rewrite !client_chain_spec by assumption. reflexivity. Qed.

  (** ** Outcomes: no fuel exhaustion, no model error; panics only come from a middleware
      or the innermost handler, never from the chain's own indexing. *)
  Definition good (o : res R) : Prop := match o with Ok _ => True | Panic => True | _ => False end.
  Definition kgood (k : kont) : Prop := forall c m s, good (fst (fst (k c m s))).

  Lemma exec_good i (p : prog) (next : kont) : kgood next -> forall s, good (fst (fst (exec i p next s))).
  Proof.
    intros Hn. induction p as [r|c m k IH|k IH|s' k IH|]; intros s; cbn [exec].
    - exact I.
    - specialize (Hn c m s). destruct (next c m s) as [[o s1] t1]. cbn [fst] in Hn.
      destruct o; cbn [fst]; try exact Hn.
      specialize (IH a s1). destruct (exec i (k a) next s1) as [[o2 s2] t2]. exact IH.
    - apply IH.
    - apply IH.
    - exact I.
  Qed.

  Lemma spec_good (stages : list stage) : forall i (core : kont), kgood core -> kgood (spec_from i stages core).
  Proof.
    induction stages as [|st rest IH]; intros i core Hc; cbn [spec_from]; [exact Hc|].
    intros c m s. unfold invoke.
    pose proof (exec_good i (st c m) (spec_from (S i) rest core) (IH (S i) core Hc) s) as H.
    destruct (exec i (st c m) (spec_from (S i) rest core) s) as [[o s1] t1]. exact H.
  Qed.

  Lemma core_kont_good (core : C -> M -> St -> res R * St) : returns_or_panics core -> kgood (core_kont core).
  Proof.
    intros H c m s. unfold core_kont. specialize (H c m s). destruct (core c m s) as [o s1]. exact H.
  Qed.

  Theorem run_spec_good (stages : list stage) core c m s :
    returns_or_panics core -> good (fst (fst (run_spec stages core c m s))).
  Proof. intros H. unfold run_spec. apply spec_good. apply core_kont_good. exact H. Qed.

  Definition kok (k : kont) : Prop := forall c m s, exists r, fst (fst (k c m s)) = Ok r.

  Lemma exec_ok i (p : prog) (next : kont) :
    crash_free p -> kok next -> forall s, exists r, fst (fst (exec i p next s)) = Ok r.
  Proof.
    intros Hp Hn. induction Hp as [r|c m k Hk IH|k Hk IH|s' k Hk IH]; intros s; cbn [exec].
    - exists r. reflexivity.
    - destruct (Hn c m s) as [r1 Hr1]. destruct (next c m s) as [[o s1] t1]. cbn [fst] in Hr1. subst o.
      destruct (IH r1 s1) as [r2 Hr2]. destruct (exec i (k r1) next s1) as [[o2 s2] t2].
      exists r2. exact Hr2.
    - apply IH.
    - apply IH.
  Qed.

  Lemma spec_ok (stages : list stage) : forall i (core : kont),
    Forall (fun st : stage => forall c m, crash_free (st c m)) stages -> kok core -> kok (spec_from i stages core).
  Proof.
    induction stages as [|st rest IH]; intros i core Hs Hc; cbn [spec_from]; [exact Hc|].
    inversion Hs as [|? ? Hst Hrest]; subst.
    intros c m s. unfold invoke.
    destruct (exec_ok i (st c m) (spec_from (S i) rest core) (Hst c m) (IH (S i) core Hrest Hc) s) as [r Hr].
    destruct (exec i (st c m) (spec_from (S i) rest core) s) as [[o s1] t1]. exists r. exact Hr.
  Qed.

  Theorem run_spec_ok (stages : list stage) core c m s :
    Forall (fun st : stage => forall c m, crash_free (st c m)) stages ->
    (forall c m s, exists r, fst (core c m s) = Ok r) ->
    exists r, fst (fst (run_spec stages core c m s)) = Ok r.
  Proof.
    intros Hs Hc. unfold run_spec. apply spec_ok; [exact Hs|].
    intros c' m' s'. unfold core_kont. destruct (Hc c' m' s') as [r Hr].
    destruct (core c' m' s') as [o s1]. exists r. exact Hr.
  Qed.

  (** ** Counting. *)
  Definition b2n (b : bool) : nat := if b then 1 else 0.

  Lemma count_app (f : event -> bool) a b : count f (a ++ b) = count f a + count f b.
  Proof. unfold count. rewrite filter_app, app_length. reflexivity. Qed.

  Lemma count_cons (f : event -> bool) e t : count f (e :: t) = b2n (f e) + count f t.
  Proof. unfold count. cbn [filter]. destruct (f e); reflexivity. Qed.

  Lemma count_nil (f : event -> bool) : count f [] = 0.
  Proof. reflexivity. Qed.

  (** If every completed continuation call (its trace and the [EvBack] that follows)
      contributes equally to [f] and [g], so does the whole execution of the middleware. *)
  Lemma exec_count2 (f g : event -> bool) i (p : prog) (next : kont) :
    (forall c m s r s' t, next c m s = (Ok r, s', t) ->
       count f t + b2n (f (EvBack i r)) = count g t + b2n (g (EvBack i r))) ->
    forall s r s' t, exec i p next s = (Ok r, s', t) ->
      count f t + b2n (g (EvRet i r)) = count g t + b2n (f (EvRet i r)).
  Proof.
    intros Hcall. induction p as [r0|c m k IH|k IH|s0 k IH|]; intros s r s' t He; cbn [exec] in He.
    - injection He as <- <- <-. rewrite !count_cons, !count_nil. lia.
    - destruct (next c m s) as [[o s1] t1] eqn:En. destruct o; try discriminate.
      destruct (exec i (k a) next s1) as [[o2 s2] t2] eqn:Ek.
      injection He as -> <- <-.
      specialize (IH a s1 r s2 t2 Ek). specialize (Hcall c m s a s1 t1 En).
      rewrite !count_app, !count_cons. lia.
    - eapply IH. exact He.
    - eapply IH. exact He.
    - discriminate.
  Qed.

  Lemma starts_back n k i r : starts n k (EvBack i r : event) = false.
  Proof. unfold starts. destruct (k <? n); reflexivity. Qed.
  Lemma starts_ret n k i r : starts n k (EvRet i r : event) = false.
  Proof. unfold starts. destruct (k <? n); reflexivity. Qed.
  Lemma starts_enter n k i c m : starts n k (EvEnter i c m : event) = (k <? n) && Nat.eqb i k.
  Proof. unfold starts. destruct (k <? n); reflexivity. Qed.
  Lemma starts_core n k c m : starts n k (EvCore c m : event) = negb (k <? n).
  Proof. unfold starts. destruct (k <? n); reflexivity. Qed.

  Lemma count_ext (f g : event -> bool) t : (forall e, f e = g e) -> count f t = count g t.
  Proof.
    intros H. induction t as [|e t IH]; [reflexivity|]. rewrite !count_cons, IH, H. reflexivity.
  Qed.
  Lemma count_starts_lt n k (t : list event) : k <? n = true -> count (starts n k) t = count (is_enter k) t.
  Proof. intros H. apply count_ext. intros e. unfold starts. rewrite H. reflexivity. Qed.
  Lemma count_starts_ge n k (t : list event) : k <? n = false -> count (starts n k) t = count is_core t.
  Proof. intros H. apply count_ext. intros e. unfold starts. rewrite H. reflexivity. Qed.

  Definition never (_ : event) : bool := false.
  Lemma count_never t : count never t = 0.
  Proof. induction t as [|e t IH]; [reflexivity|]. rewrite count_cons. cbn. exact IH. Qed.

  (** The trace of a chain that returned: position [i] starts once; each completed call of
      the continuation by position [j] starts position [j+1] exactly once; every middleware
      that was entered returned; nothing outside the chain ran. *)
  Lemma spec_counts (core : C -> M -> St -> res R * St) (stages : list stage) : forall i c m s r s' t,
    spec_from i stages (core_kont core) c m s = (Ok r, s', t) ->
    count (starts (i + length stages) i) t = 1 /\
    (forall j, i <= j -> j < i + length stages -> count (starts (i + length stages) (S j)) t = count (is_back j) t) /\
    (forall j, j < i -> count (is_back j) t = 0 /\ count (is_enter j) t = 0) /\
    (forall j, count (is_enter j) t = count (is_ret j) t).
  Proof.
    induction stages as [|st rest IH]; intros i c m s r s' t Hrun; cbn [spec_from length] in *.
    - unfold core_kont in Hrun. destruct (core c m s) as [o s1]. injection Hrun as -> <- <-.
      rewrite Nat.add_0_r. refine (conj _ (conj _ (conj _ _))).
      + rewrite count_cons, count_nil, starts_core, Nat.ltb_irrefl. reflexivity.
      + intros j H1 H2. lia.
      + intros j Hj. split; reflexivity.
      + intros j. reflexivity.
    - unfold invoke in Hrun.
      destruct (exec i (st c m) (spec_from (S i) rest (core_kont core)) s) as [[o s1] t1] eqn:Ex.
      injection Hrun as -> <- <-.
      replace (i + S (length rest)) with (S i + length rest) by lia.
      set (n := S i + length rest).
      assert (Hn : i <? n = true) by (apply Nat.ltb_lt; unfold n; lia).
      (* facts about every completed inner call *)
      assert (Hin : forall c' m' s0 r0 s0' t0, spec_from (S i) rest (core_kont core) c' m' s0 = (Ok r0, s0', t0) ->
                count (starts n (S i)) t0 = 1 /\
                (forall j, S i <= j -> j < n -> count (starts n (S j)) t0 = count (is_back j) t0) /\
                (forall j, j < S i -> count (is_back j) t0 = 0 /\ count (is_enter j) t0 = 0) /\
                (forall j, count (is_enter j) t0 = count (is_ret j) t0))
        by (intros c' m' s0 r0 s0' t0 H0; exact (IH (S i) c' m' s0 r0 s0' t0 H0)).
      refine (conj _ (conj _ (conj _ _))).
      + (* position i starts once *)
        rewrite count_cons, starts_enter, Hn, Nat.eqb_refl. cbn [andb b2n].
        pose proof (exec_count2 (is_enter i) never i (st c m) _
                      (fun c' m' s0 r0 s0' t0 H0 =>
                         ltac:(destruct (Hin c' m' s0 r0 s0' t0 H0) as (_ & _ & H3 & _);
                               destruct (H3 i (Nat.lt_succ_diag_r i)) as [_ H4];
                               rewrite H4, count_never; reflexivity))
                      s r s1 t1 Ex) as H.
        rewrite count_never in H. cbn in H. rewrite (count_starts_lt n i t1 Hn). lia.
      + (* calls of position j start position j+1 *)
        intros j Hij Hjn. rewrite !count_cons, starts_enter.
        replace (Nat.eqb i (S j)) with false by (symmetry; apply Nat.eqb_neq; lia).
        rewrite andb_false_r. cbn [b2n is_back].
        destruct (Nat.eq_dec j i) as [->|Hne].
        * pose proof (exec_count2 (starts n (S i)) (is_back i) i (st c m) _
                        (fun c' m' s0 r0 s0' t0 H0 =>
                           ltac:(destruct (Hin c' m' s0 r0 s0' t0 H0) as (H1 & _ & H3 & _);
                                 destruct (H3 i (Nat.lt_succ_diag_r i)) as [H4 _];
                                 rewrite H1, H4, starts_back; cbn [is_back]; rewrite Nat.eqb_refl; reflexivity))
                        s r s1 t1 Ex) as H.
          rewrite starts_ret in H. cbn [is_back b2n] in H. lia.
        * pose proof (exec_count2 (starts n (S j)) (is_back j) i (st c m) _
                        (fun c' m' s0 r0 s0' t0 H0 =>
                           ltac:(destruct (Hin c' m' s0 r0 s0' t0 H0) as (_ & H2 & _ & _);
                                 rewrite (H2 j ltac:(lia) Hjn), starts_back; cbn [is_back];
                                 replace (Nat.eqb i j) with false by (symmetry; apply Nat.eqb_neq; lia);
                                 reflexivity))
                        s r s1 t1 Ex) as H.
          rewrite starts_ret in H. cbn [is_back b2n] in H. lia.
      + (* no event of an outer position *)
        intros j Hj. split.
        * pose proof (exec_count2 (is_back j) never i (st c m) _
                      (fun c' m' s0 r0 s0' t0 H0 =>
                         ltac:(destruct (Hin c' m' s0 r0 s0' t0 H0) as (_ & _ & H3 & _);
                               destruct (H3 j ltac:(lia)) as [H4 _];
                               rewrite H4, count_never; cbn [is_back];
                               replace (Nat.eqb i j) with false by (symmetry; apply Nat.eqb_neq; lia);
                               reflexivity))
                      s r s1 t1 Ex) as H.
          rewrite count_never in H. cbn in H. rewrite count_cons. cbn [is_back b2n]. lia.
        * pose proof (exec_count2 (is_enter j) never i (st c m) _
                      (fun c' m' s0 r0 s0' t0 H0 =>
                         ltac:(destruct (Hin c' m' s0 r0 s0' t0 H0) as (_ & _ & H3 & _);
                               destruct (H3 j ltac:(lia)) as [_ H4];
                               rewrite H4, count_never; reflexivity))
                      s r s1 t1 Ex) as H.
        rewrite count_never in H. cbn in H. rewrite count_cons. cbn [is_enter].
        replace (Nat.eqb i j) with false by (symmetry; apply Nat.eqb_neq; lia). cbn [b2n]. lia.
      + (* entered = returned *)
        intros j.
        pose proof (exec_count2 (is_enter j) (is_ret j) i (st c m) _
                      (fun c' m' s0 r0 s0' t0 H0 =>
                         ltac:(destruct (Hin c' m' s0 r0 s0' t0 H0) as (_ & _ & _ & H4);
                               rewrite (H4 j); reflexivity))
                      s r s1 t1 Ex) as H.
        cbn [is_enter is_ret] in H. rewrite !count_cons. cbn [is_enter is_ret b2n].
        destruct (Nat.eqb i j); cbn [b2n] in *; lia.
  Qed.
End ChainProofs.
