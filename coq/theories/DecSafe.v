(** C02, typed targets: the DECIDABLE well-formedness check on a schema under which the typed
    decoder of SchemaSem.v (dec_ty and its mutual companions, the hand-written decoders of
    Section Customs) never reaches one of its explicit [Panic] points.  Definitions only; the
    proofs are in DecSafeProofs.v, the statements in Props/C02Typed.v.

    The panic points of the model are: a nil interface handed to the reflective decoder
    ([TIface] in dec_ty), a reflectively decoded struct field without tag ([f_tag = 0] in
    dec_fields_s), a type name the schema does not know ([find_tdef = None] in dec_ty), a type
    that declares a hand-written decoder the model does not know ([dec_custom_of]), and the
    auxiliary type definitions the hand-written decoders of Credential / KeyBlock look up
    (kmip.CredentialValue, kmip.PlainKeyValue, kmip.KeyMaterial) being absent.

    [td_types S d] lists the types on which the decoder of the type definition [d] starts
    dec_ty / dec_opt (None when [d] cannot be decoded at all: a reflective struct with a
    tag-less field, an unknown hand-written decoder, a missing auxiliary definition).  Five
    definitions of the library are never decoded by dec_ty: they are read by un-exported
    `decode` methods called from the hand-written decoders of Credential and KeyBlock, or
    built directly by the batch items ([hand_only]); a type is [decodable] when every struct
    name in it is ttlv.Value, ttlv.Struct, or resolves to a definition of the schema that is
    not one of those five; the schema is safe when EVERY other definition can be decoded and
    only starts the decoder on decodable types, and the payload / attribute / object tables
    only name decodable types. *)
From Coq Require Import ZArith List Bool String.
From KV Require Import Base Wire Cursor Schema SchemaSem KmipCodec.
From KV Require TextFmt.
Import ListNotations.
Open Scope Z_scope.

Section DecSafe.
  Variable S : schema.

  (** types the hand-written decoder of Credential starts dec_ty on, beside its own fields:
      the three alternatives of kmip.CredentialValue *)
  Definition cred_types : option (list ty) :=
    match find_tdef S "kmip.CredentialValue" with
    | Some cv => Some [fty cv 0; fty cv 1; fty cv 2]
    | None => None
    end.

  (** ... of KeyBlock (dec_key_value): the attribute list of kmip.PlainKeyValue and the eight
      alternatives of kmip.KeyMaterial *)
  Definition keyval_types : option (list ty) :=
    match find_tdef S "kmip.PlainKeyValue", find_tdef S "kmip.KeyMaterial" with
    | Some pkv, Some km => Some (fty pkv 1 :: map (fty km) (seq 0 8))
    | _, _ => None
    end.

  (** the positional fields each hand-written decoder hands to dty / dopt ([fty d i] is the
      interface type "any" - not decodable - when the definition has no field [i]); None for a
      name dec_custom_of does not know *)
  Definition custom_types (d : tdef) : option (list ty) :=
    let n := t_name d in
    if String.eqb n "kmip.RequestBatchItem" then Some [fty d 0; fty d 1; fty d 3]
    else if String.eqb n "kmip.ResponseBatchItem" then Some [fty d 0; fty d 1; fty d 2; fty d 3; fty d 4; fty d 5; fty d 7]
    else if String.eqb n "kmip.Credential" then
      match cred_types with Some l => Some (fty d 0 :: l) | None => None end
    else if String.eqb n "kmip.KeyBlock" then
      match keyval_types with Some l => Some ([fty d 0; fty d 1; fty d 3; fty d 4; fty d 5] ++ l) | None => None end
    else if String.eqb n "kmip.Attribute" then Some []
    else if String.eqb n "payloads.GetResponsePayload" then Some [fty d 0; fty d 1]
    else if String.eqb n "payloads.RegisterRequestPayload" then Some [fty d 0; fty d 1]
    else if String.eqb n "payloads.ExportResponsePayload" then Some [fty d 0; fty d 1; fty d 2]
    else if String.eqb n "payloads.ImportRequestPayload" then Some [fty d 0; fty d 1; fty d 2; fty d 3]
    else None.

  Definition tags_ok (fl : list field) : bool := forallb (fun fd => negb (f_tag fd =? 0)) fl.

  (** the types the decoder of [d] is started on; None: [d] cannot be decoded *)
  Definition td_types (d : tdef) : option (list ty) :=
    if t_custom_dec d then custom_types d
    else if tags_ok (t_fields d) then Some (map f_ty (t_fields d))
    else None.

  (** read only by CredentialValue.decode / KeyValue.decode / PlainKeyValue.decode /
      KeyMaterial.decode (called from Credential.TagDecodeTTLV and KeyBlock.TagDecodeTTLV) or
      built by the batch items for an unknown operation: never handed to dec_ty *)
  Definition hand_only : list string :=
    ["kmip.CredentialValue"; "kmip.KeyValue"; "kmip.PlainKeyValue"; "kmip.KeyMaterial"; "kmip.UnknownPayload"]%string.
  Definition is_hand_only (n : string) : bool := existsb (String.eqb n) hand_only.

  (** the types dec_ty may be started on *)
  Fixpoint decodable (t : ty) : bool :=
    match t with
    | TScalar _ => true
    | TPtr t' => decodable t'
    | TSlice t' => decodable t'
    | TIface _ => false
    | TNamed n =>
      String.eqb n "ttlv.Value" || String.eqb n "ttlv.Struct" ||
      (negb (is_hand_only n) && match find_tdef S n with Some _ => true | None => false end)
    end.

  (** the definition can be decoded and only starts the decoder on decodable types *)
  Definition td_safe (d : tdef) : bool :=
    is_hand_only (t_name d) ||
    match td_types d with Some l => forallb decodable l | None => false end.

  Definition dec_safe_schema (OPS : op_table) (ATTRS : attr_table) (OBJS : obj_table) : bool :=
    forallb td_safe S &&
    forallb (fun e => decodable (TNamed (fst (snd e))) && decodable (TNamed (snd (snd e)))) OPS &&
    forallb (fun e => decodable (snd e)) ATTRS &&
    forallb (fun e => decodable (TNamed (snd e))) OBJS.

  (** the definitions of [S] that fail the check (informative: see C02Typed.v) *)
  Definition unsafe_names : list string :=
    map t_name (filter (fun d => negb (td_safe d)) S).

  (** what dec_fields_s needs of a field list *)
  Definition fields_ok (fl : list field) : bool :=
    tags_ok fl && forallb decodable (map f_ty fl).

End DecSafe.

(** Non-vacuity material: a two-definition schema whose inner struct, decoded reflectively,
    has a field without tag. *)
Open Scope string_scope.
Definition bad_inner : tdef := {| t_name := "x.Inner"; t_fields := [
    {| f_name := "A"; f_tag := 4325386; f_ty := TScalar KInt32; f_omit := false; f_range := None; f_setver := false |};
    {| f_name := "B"; f_tag := 0; f_ty := TScalar KInt32; f_omit := false; f_range := None; f_setver := false |}];
  t_custom_enc := false; t_custom_dec := false; t_deftag := 4325384 |}.
Definition bad_outer : tdef := {| t_name := "x.Outer"; t_fields := [
    {| f_name := "I"; f_tag := 4325384; f_ty := TNamed "x.Inner"; f_omit := false; f_range := None; f_setver := false |}];
  t_custom_enc := false; t_custom_dec := false; t_deftag := 4325496 |}.
Definition bad_schema : schema := [bad_outer; bad_inner].
(** the same with the tag restored *)
Definition good_inner : tdef := {| t_name := "x.Inner"; t_fields := [
    {| f_name := "A"; f_tag := 4325386; f_ty := TScalar KInt32; f_omit := false; f_range := None; f_setver := false |};
    {| f_name := "B"; f_tag := 4325385; f_ty := TScalar KInt32; f_omit := false; f_range := None; f_setver := false |}];
  t_custom_enc := false; t_custom_dec := false; t_deftag := 4325384 |}.
Definition good_schema : schema := [bad_outer; good_inner].
(** Outer{ Inner{ A = 7, B = 9 } } in binary TTLV: tags 420078 / 420008 / 42000A / 420009 *)
Definition bad_input : list Z :=
  [66;0;120;1; 0;0;0;40;  66;0;8;1; 0;0;0;32;
   66;0;10;2; 0;0;0;4; 0;0;0;7; 0;0;0;0;  66;0;9;2; 0;0;0;4; 0;0;0;9; 0;0;0;0].

(** Outer{ Inner{ A = 7 } }: the panic point is reached whatever follows *)
Definition bad_input_short : list Z :=
  [66;0;120;1; 0;0;0;24;  66;0;8;1; 0;0;0;16;  66;0;10;2; 0;0;0;4; 0;0;0;7; 0;0;0;0].
(** an empty KeyValue structure (tag 420045) *)
Definition keyvalue_input : list Z := [66;0;69;1; 0;0;0;0].

(** ttlv.UnmarshalXML / ttlv.UnmarshalJSON into a message: the reader cursors of TextFmt.v
    (any tag / enumeration registry [G]) followed by the same typed decoder as
    KmipCodec.kmip_unmarshal *)
Definition kmip_unmarshal_xml (G : TextFmt.registry) (root : string) (doc : list TextFmt.xelem) (cut : bool) : res value :=
  do c <- TextFmt.xml_cursor G doc cut ;; kmip_dec (TextFmt.xml_fmt G) root c.
Definition kmip_unmarshal_json (G : TextFmt.registry) (root : string) (doc : TextFmt.jvalue) : res value :=
  do c <- TextFmt.json_cursor G doc ;; kmip_dec (TextFmt.json_fmt G) root c.
