(** Defining equations of the mutually recursive functions of SchemaSem.v, one fuel unit
    unfolded, with the recursive calls folded (each proved by [reflexivity]: they are the
    definitions).  GENERATED from SchemaSem.v by lib/gen_eq.py - do not edit. *)
From Coq Require Import ZArith List Bool String.
From KV Require Import Base Wire Cursor Schema SchemaSem.
Import ListNotations.
Open Scope Z_scope.

Section Eq.
  Variable S : schema.
  Variable OPS : op_table.
  Variable ATTRS : attr_table.
  Variable OBJS : obj_table.
  Local Notation enc_ty := (SchemaSem.enc_ty S).
  Local Notation enc_list := (SchemaSem.enc_list S).
  Local Notation enc_fields := (SchemaSem.enc_fields S).
  Local Notation enc_same_tag := (SchemaSem.enc_same_tag S).
  Local Notation enc_custom := (SchemaSem.enc_custom S).

  Lemma enc_ty_eq f (st : vstate) (t : ty) (tag : Z) (v : value) :
    enc_ty (Datatypes.S f) st t tag v =

      match t with
      | TScalar k => do l <- enc_scalar k tag v ;; Ok (l, st)
      | TPtr t' =>
        match v with
        | VNil => Ok ([], st)
        | VPtr w => enc_ty f st t' tag w
        | _ => Panic
        end
      | TSlice t' =>
        match v with
        | VList l => enc_list f st t' tag l
        | _ => Panic
        end
      | TIface _ =>
        match v with
        | VNil => Ok ([], st)
        | VIface dyn w => enc_ty f st dyn tag w
        | _ => Panic
        end
      | TNamed n =>
        if String.eqb n "ttlv.Value" then
          match v with VTree i => Ok ([retag i tag], st) | _ => Panic end
        else if String.eqb n "ttlv.Struct" then
          match v with
          | VList l => match trees_of l with Some is => Ok ([IStruct tag is], st) | None => Panic end
          | _ => Panic
          end
        else
          match find_tdef S n, v with
          | Some d, VStruct _ fs =>
            if t_custom_enc d then enc_custom f st d tag fs
            else do r <- enc_fields f st (t_fields d) fs ;; Ok ([IStruct tag (fst r)], snd r)
          | _, _ => Panic
          end
      end.
  Proof. reflexivity. Qed.

  Lemma enc_list_eq f (st : vstate) (t : ty) (tag : Z) (l : list value) :
    enc_list (Datatypes.S f) st t tag l =

      match l with
      | [] => Ok ([], st)
      | x :: r =>
        do a <- enc_ty f st t tag x ;;
        do b <- enc_list f (snd a) t tag r ;;
        Ok (fst a ++ fst b, snd b)
      end.
  Proof. reflexivity. Qed.

  Lemma enc_fields_eq f (st : vstate) (fl : list field) (vl : list value) :
    enc_fields (Datatypes.S f) st fl vl =

      match fl, vl with
      | [], [] => Ok ([], st)
      | fd :: fl', x :: vl' =>
        do a <-
          (if f_tag fd =? 0 then
             (* interface field without tag: tag of the dynamic type, no wrappers *)
             match x with
             | VNil => Ok ([], st)
             | VIface dyn w => enc_ty f st dyn (deftag_of S dyn) w
             | _ => Panic
             end
           else
             let st1 := if f_setver fd then ver_of_value x else st in
             if negb (version_in st1 (f_range fd)) then Ok ([], st1)
             else if f_omit fd && is_zero x then Ok ([], st1)
             else enc_ty f st1 (f_ty fd) (f_tag fd) x) ;;
        do b <- enc_fields f (snd a) fl' vl' ;;
        Ok (fst a ++ fst b, snd b)
      | _, _ => Panic
      end.
  Proof. reflexivity. Qed.

  Lemma enc_same_tag_eq f (st : vstate) (fl : list field) (tag : Z) (vl : list value) :
    enc_same_tag (Datatypes.S f) st fl tag vl =

      match fl, vl with
      | [], [] => Ok ([], st)
      | fd :: fl', x :: vl' =>
        do a <- enc_ty f st (f_ty fd) tag x ;;
        do b <- enc_same_tag f (snd a) fl' tag vl' ;;
        Ok (fst a ++ fst b, snd b)
      | _, _ => Panic
      end.
  Proof. reflexivity. Qed.

  Lemma enc_custom_eq f (st : vstate) (d : tdef) (tag : Z) (fs : list value) :
    enc_custom (Datatypes.S f) st d tag fs =

      let n := t_name d in
      if String.eqb n "kmip.RequestBatchItem" then
        (* RequestBatchItem.TagEncodeTTLV *)
        match fs with
        | [VInt op; idv; payload; ext] =>
          match bytes_of idv with None => Panic | Some id =>
          do p <- enc_ty f st (fty d 2) (ftag d 2) payload ;;
          do e <- enc_ty f (snd p) (fty d 3) (ftag d 3) ext ;;
          Ok ([IStruct tag ([IEnum (ftag d 0) (ftag d 0) op] ++
                            (match id with [] => [] | _ => [IBytes (ftag d 1) id] end) ++
                            fst p ++ fst e)], snd e)
          end
        | _ => Panic
        end
      else if String.eqb n "kmip.ResponseBatchItem" then
        (* ResponseBatchItem.TagEncodeTTLV: always under TagBatchItem *)
        match fs with
        | [VInt op; idv; VInt status; VInt reason; VStr msg; acvv; payload; ext] =>
          match bytes_of idv, bytes_of acvv with
          | Some id, Some acv =>
          do p <- enc_ty f st (fty d 6) (ftag d 6) payload ;;
          do e <- enc_ty f (snd p) (fty d 7) (ftag d 7) ext ;;
          Ok ([IStruct TAG_BATCH_ITEM
                 ((if op =? 0 then [] else [IEnum (ftag d 0) (ftag d 0) op]) ++
                  (match id with [] => [] | _ => [IBytes (ftag d 1) id] end) ++
                  [IEnum (ftag d 2) (ftag d 2) status] ++
                  (if (status =? RESULT_STATUS_FAILED) || negb (reason =? 0) then [IEnum (ftag d 3) (ftag d 3) reason] else []) ++
                  (match msg with [] => [] | _ => [IText (ftag d 4) msg] end) ++
                  (match acv with [] => [] | _ => [IBytes (ftag d 5) acv] end) ++
                  fst p ++ fst e)], snd e)
          | _, _ => Panic
          end
        | _ => Panic
        end
      else if String.eqb n "kmip.UnknownPayload" then
        match fs with
        | [VInt _; VList l] => match trees_of l with Some is => Ok ([IStruct tag is], st) | None => Panic end
        | _ => Panic
        end
      else
        (* CredentialValue, KeyValue, KeyMaterial: each alternative under the same tag *)
        enc_same_tag f st (t_fields d) tag fs.
  Proof. reflexivity. Qed.

  Context {R : Type}.
  Variable F : rawfmt R.
  Local Notation dres := (SchemaSem.dres (R := R)).
  Local Notation dec_ty := (SchemaSem.dec_ty S OPS ATTRS OBJS F).
  Local Notation dec_slice := (SchemaSem.dec_slice S OPS ATTRS OBJS F).
  Local Notation dec_fields_s := (SchemaSem.dec_fields_s S OPS ATTRS OBJS F).
  Local Notation dec_opt := (SchemaSem.dec_opt S OPS ATTRS OBJS F).
  Local Notation dec_object := (SchemaSem.dec_object S OPS ATTRS OBJS F).
  Local Notation dec_scalar := (SchemaSem.dec_scalar F).
  Local Notation dec_custom_of := (SchemaSem.dec_custom_of S OPS ATTRS F).
  Local Notation lookup_obj := (SchemaSem.lookup_obj OBJS).

  Lemma dec_ty_eq f (st : vstate) (t : ty) (tag : Z) (c : cur R) :
    dec_ty (Datatypes.S f) st t tag c =

      match t with
      | TScalar k => do r <- dec_scalar k tag c ;; Ok (fst r, snd r, st)
      | TPtr t' =>
        (* buildPointerDecodeFunc / buildTagDecodableDecodeFunc on a pointer *)
        if negb (c_tag c =? tag) then Ok (VNil, c, st)
        else do r <- dec_ty f st t' tag c ;; Ok (VPtr (fst (fst r)), snd (fst r), snd r)
      | TSlice t' => do r <- dec_slice f st t' tag c ;; Ok (VList (fst (fst r)), snd (fst r), snd r)
      | TIface _ => Panic   (* d.decodeValue(tag, value.Elem()) on a nil interface *)
      | TNamed n =>
        if String.eqb n "ttlv.Value" then
          do r <- dec_value F f tag c ;; Ok (VTree (fst r), snd r, st)
        else if String.eqb n "ttlv.Struct" then
          do r <- c_struct F tag (dec_fields F f) c ;; Ok (VList (map VTree (fst r)), snd r, st)
        else
          match find_tdef S n with
          | Some d =>
            if t_custom_dec d then
              dec_custom_of (dec_ty f) (dec_opt f) (dec_object f) (dec_fields F f) st d tag c
            else
              do r <- c_struct F tag (fun sub => do x <- dec_fields_s f st (t_fields d) sub ;; Ok ((fst (fst x), snd x), snd (fst x))) c ;;
              Ok (VStruct n (fst (fst r)), snd r, snd (fst r))
          | None => Panic
          end
      end.
  Proof. reflexivity. Qed.

  Lemma dec_slice_eq f (st : vstate) (t : ty) (tag : Z) (c : cur R) :
    dec_slice (Datatypes.S f) st t tag c =

      if negb (c_tag c =? tag) then Ok ([], c, st)
      else
        do a <- dec_ty f st t tag c ;;
        do b <- dec_slice f (snd a) t tag (snd (fst a)) ;;
        Ok (fst (fst a) :: fst (fst b), snd (fst b), snd b).
  Proof. reflexivity. Qed.

  Lemma dec_fields_s_eq f (st : vstate) (fl : list field) (c : cur R) :
    dec_fields_s (Datatypes.S f) st fl c =

      match fl with
      | [] => Ok ([], c, st)
      | fd :: fl' =>
        do a <-
          (if f_tag fd =? 0 then Panic   (* getTagForType(value.Elem().Type()) on a nil interface *)
           else if negb (version_in st (f_range fd)) && negb (c_tag c =? f_tag fd) then Ok (zero_of S 8 (f_ty fd), c, st)
           else if f_omit fd && negb (c_tag c =? f_tag fd) then Ok (zero_of S 8 (f_ty fd), c, st)
           else dec_ty f st (f_ty fd) (f_tag fd) c) ;;
        let st1 := if f_setver fd then ver_of_value (fst (fst a)) else snd a in
        do b <- dec_fields_s f st1 fl' (snd (fst a)) ;;
        Ok (fst (fst a) :: fst (fst b), snd (fst b), snd b)
      end.
  Proof. reflexivity. Qed.

  Lemma dec_opt_eq f (st : vstate) (t : ty) (tag : Z) (c : cur R) :
    dec_opt (Datatypes.S f) st t tag c =

      if c_tag c =? tag then dec_ty f st t tag c else Ok (zero_of S 8 t, c, st).
  Proof. reflexivity. Qed.

  Lemma dec_object_eq f (st : vstate) (ot : Z) (c : cur R) :
    dec_object (Datatypes.S f) st ot c =

      match lookup_obj ot with
      | None => Err
      | Some n =>
        do r <- dec_ty f st (TNamed n) (deftag_of S (TNamed n)) c ;;
        Ok (VIface (TPtr (TNamed n)) (VPtr (fst (fst r))), snd (fst r), snd r)
      end.
  Proof. reflexivity. Qed.

End Eq.
