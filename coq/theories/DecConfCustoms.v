(** The hand-written decoders discharged: [D_custom] at every fuel level from the per-codec
    lemmas, and with it the decoder-side theorem for the whole model: EVERY input the typed
    decoder accepts yields a value that is encodable and whose normal form conforms. *)
From Coq Require Import ZArith List Bool String Lia PeanoNat.
From KV Require Import Base BaseProofs Wire WireProofs Cursor CursorProofs Schema SchemaSem SchemaSemEq FaithfulProofs
  Roundtrip RoundtripEq RoundtripProofs Normalize NormalizeEq DecConfDefs NormProofs DecConfLib DecConfProofs DecConfCustomLib
  DecConfRequestItem DecConfResponseItem DecConfAttribute DecConfCredential DecConfKeyBlock DecConfTypedObject DecConfImportRequest.
Import ListNotations.
Open Scope Z_scope.

Section All.
  Variable S : schema.
  Variables (OPS : op_table) (ATTRS : attr_table) (OBJS : obj_table).
  Context {R : Type}.
  Variable F : rawfmt R.
  Variable eok : relem R -> bool.
  Hypothesis HR : fmt_ranged F eok.
  Hypothesis HS : schema_ok S OPS ATTRS OBJS = true.

  Lemma dcustoms_all f : DQ S OPS ATTRS OBJS F eok f -> D_custom S OPS ATTRS OBJS F eok f.
  Proof.
    intros HQ st d tag c v c' st' Ed Hcd EV ES Hok Htag H.
    unfold custom_ok in Hok. cbv zeta in Hok. unfold dec_custom_of in H. cbv zeta in H.
    destruct (String.eqb (t_name d) "kmip.RequestBatchItem") eqn:E1.
    { apply String.eqb_eq in E1. exact (dc_request_item S OPS ATTRS OBJS F eok HR HS f HQ st d tag c v c' st' Ed Hcd E1 Hok H). }
    destruct (String.eqb (t_name d) "kmip.ResponseBatchItem") eqn:E2.
    { apply String.eqb_eq in E2. exact (dc_response_item S OPS ATTRS OBJS F eok HR HS f HQ st d tag c v c' st' Ed Hcd E2 Hok Htag H). }
    destruct (String.eqb (t_name d) "kmip.Credential") eqn:E3.
    { apply String.eqb_eq in E3. exact (dc_credential S OPS ATTRS OBJS F eok HR HS f HQ st d tag c v c' st' Ed Hcd E3 Hok H). }
    destruct (String.eqb (t_name d) "kmip.KeyBlock") eqn:E4.
    { apply String.eqb_eq in E4. exact (dc_key_block S OPS ATTRS OBJS F eok HR HS f HQ st d tag c v c' st' Ed Hcd E4 Hok H). }
    destruct (String.eqb (t_name d) "kmip.Attribute") eqn:E5.
    { apply String.eqb_eq in E5. exact (dc_attribute S OPS ATTRS OBJS F eok HR HS f HQ st d tag c v c' st' Ed Hcd E5 Hok H). }
    destruct (String.eqb (t_name d) "payloads.GetResponsePayload") eqn:E6.
    { apply String.eqb_eq in E6. exact (dc_get_response S OPS ATTRS OBJS F eok HR HS f HQ st d tag c v c' st' Ed Hcd E6 Hok H). }
    destruct (String.eqb (t_name d) "payloads.RegisterRequestPayload") eqn:E7.
    { apply String.eqb_eq in E7. exact (dc_register_request S OPS ATTRS OBJS F eok HR HS f HQ st d tag c v c' st' Ed Hcd E7 Hok H). }
    destruct (String.eqb (t_name d) "payloads.ExportResponsePayload") eqn:E8.
    { apply String.eqb_eq in E8. exact (dc_export_response S OPS ATTRS OBJS F eok HR HS f HQ st d tag c v c' st' Ed Hcd E8 Hok H). }
    destruct (String.eqb (t_name d) "payloads.ImportRequestPayload") eqn:E9.
    { apply String.eqb_eq in E9. exact (dc_import_request S OPS ATTRS OBJS F eok HR HS f HQ st d tag c v c' st' Ed Hcd E9 Hok H). }
    discriminate.
  Qed.

  Theorem dec_all fd : D_ty S OPS ATTRS OBJS F eok fd /\ D_slice S OPS ATTRS OBJS F eok fd /\ D_fields S OPS ATTRS OBJS F eok fd.
  Proof. apply dec_all_with; [exact HR | exact HS | exact dcustoms_all]. Qed.
End All.
