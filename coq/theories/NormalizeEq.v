(** Defining equations of the mutual fixpoints of Normalize.v, one fuel unit unfolded (each
    by [reflexivity]).  Generated from Normalize.v (same scheme as SchemaSemEq.v). *)
From Coq Require Import ZArith List Bool String.
From KV Require Import Base Wire Cursor Schema SchemaSem Normalize.
Import ListNotations.
Open Scope Z_scope.

Section Eq.
  Variable S : schema.
  Local Notation norm_ty := (Normalize.norm_ty S).
  Local Notation norm_list := (Normalize.norm_list S).
  Local Notation norm_fields := (Normalize.norm_fields S).
  Local Notation norm_same_tag := (Normalize.norm_same_tag S).
  Local Notation norm_custom := (Normalize.norm_custom S).

  Lemma norm_ty_eq f (st : vstate) (t : ty) (v : value) :
    norm_ty (Datatypes.S f) st t v =

      match t with
      | TScalar _ => (v, st)
      | TPtr t' =>
        match v with
        | VPtr w => let r := norm_ty f st t' w in (VPtr (fst r), snd r)
        | _ => (v, st)
        end
      | TSlice t' =>
        match v with
        | VList l => let r := norm_list f st t' l in (VList (fst r), snd r)
        | _ => (v, st)
        end
      | TIface _ =>
        match v with
        | VIface dyn w => let r := norm_ty f st dyn w in (VIface dyn (fst r), snd r)
        | _ => (v, st)
        end
      | TNamed n =>
        if String.eqb n "ttlv.Value" then (v, st)
        else if String.eqb n "ttlv.Struct" then (v, st)
        else
          match find_tdef S n, v with
          | Some d, VStruct n' fs =>
            let r := if t_custom_enc d then norm_custom f st d fs else norm_fields f st (t_fields d) fs in
            (VStruct n' (fst r), snd r)
          | _, _ => (v, st)
          end
      end.
  Proof. reflexivity. Qed.

  Lemma norm_list_eq f (st : vstate) (t : ty) (l : list value) :
    norm_list (Datatypes.S f) st t l =

      match l with
      | [] => ([], st)
      | x :: r =>
        let a := norm_ty f st t x in
        let b := norm_list f (snd a) t r in
        (fst a :: fst b, snd b)
      end.
  Proof. reflexivity. Qed.

  Lemma norm_fields_eq f (st : vstate) (fl : list field) (vl : list value) :
    norm_fields (Datatypes.S f) st fl vl =

      match fl, vl with
      | fd :: fl', x :: vl' =>
        let a :=
          (if f_tag fd =? 0 then
             match x with
             | VIface dyn w => let r := norm_ty f st dyn w in (VIface dyn (fst r), snd r)
             | _ => (x, st)
             end
           else
             let st1 := if f_setver fd then ver_of_value x else st in
             if negb (version_in st1 (f_range fd)) then (zero_of S 8 (f_ty fd), st1)
             else if f_omit fd && is_zero x then (zero_of S 8 (f_ty fd), st1)
             else norm_ty f st1 (f_ty fd) x) in
        let b := norm_fields f (snd a) fl' vl' in
        (fst a :: fst b, snd b)
      | _, _ => (vl, st)
      end.
  Proof. reflexivity. Qed.

  Lemma norm_same_tag_eq f (st : vstate) (fl : list field) (vl : list value) :
    norm_same_tag (Datatypes.S f) st fl vl =

      match fl, vl with
      | fd :: fl', x :: vl' =>
        let a := norm_ty f st (f_ty fd) x in
        let b := norm_same_tag f (snd a) fl' vl' in
        (fst a :: fst b, snd b)
      | _, _ => (vl, st)
      end.
  Proof. reflexivity. Qed.

  Lemma norm_custom_eq f (st : vstate) (d : tdef) (fs : list value) :
    norm_custom (Datatypes.S f) st d fs =

      let n := t_name d in
      if String.eqb n "kmip.RequestBatchItem" then
        match fs with
        | [VInt op; idv; payload; ext] =>
          match bytes_of idv with None => (fs, st) | Some id =>
          let p := norm_ty f st (fty d 2) payload in
          let e := norm_ty f (snd p) (fty d 3) ext in
          ([VInt op; VStr id; fst p; fst e], snd e)
          end
        | _ => (fs, st)
        end
      else if String.eqb n "kmip.ResponseBatchItem" then
        match fs with
        | [VInt op; idv; VInt status; VInt reason; VStr msg; acvv; payload; ext] =>
          match bytes_of idv, bytes_of acvv with
          | Some id, Some acv =>
            let p := norm_ty f st (fty d 6) payload in
            let e := norm_ty f (snd p) (fty d 7) ext in
            ([VInt op; VStr id; VInt status; VInt reason; VStr msg; VStr acv; fst p; fst e], snd e)
          | _, _ => (fs, st)
          end
        | _ => (fs, st)
        end
      else if String.eqb n "kmip.UnknownPayload" then (fs, st)
      else norm_same_tag f st (t_fields d) fs.
  Proof. reflexivity. Qed.

End Eq.
