(** Proofs about the server model Server.v (properties C16 and the many-connections part of C08):
    invariants of the accept loop / Shutdown / wait group over ANY number of connections, each
    connection being an instance of the connection model whose own theorems (ConnServerProofs.v)
    then apply to it. *)
From Coq Require Import List Bool PArith ZArith Lia Arith.
From KV Require Import Lts ConnServer ConnServerProofs Server.
Import ListNotations.

(** * Facts about single connection steps, checked on every reachable control state *)
(** labels of steps taken by handleConn *)
Definition h_label (l : label) : bool :=
  match l with
  | LHStart | LHEnd | LHookOk | LHookFail | LTermHook | LWgDone | LTlsOk | LTlsFail
  | LHandoff | LEnqueue | LMkErrResp | LHDrop => true
  | _ => false
  end.
Definition conn_step_fact (c : cstate) (lc : label * cstate) : bool :=
  let (l, c') := lc in
  implb (h_done c) (negb (h_label l)) &&
  if conn_label_ok l then
    Bool.eqb (rctx c') (rctx c) && Bool.eqb (root c') (root c)
    && match l with
       | LWgDone => negb (h_done c) && h_done c'
       | _ => Bool.eqb (h_done c') (h_done c)
       end
  else true.
Definition conn_state_fact (c : cstate) : bool :=
  (* handleConn has returned: no handler runs, and if no internal step is left then readloop
     and writeloop have returned too (whoever tore the connection down closes the socket) *)
  implb (h_done c) (negb (in_handler c) && match istep cfg_repo c with [] => all_done c | _ => true end).
Definition conn_step_cert : bool :=
  forallb (fun c => conn_state_fact c && forallb (conn_step_fact c) (cstep_lbl cfg_repo c)) Rset.
Lemma conn_step_cert_ok : conn_step_cert = true.
Proof. vm_compute. reflexivity. Qed.

Lemma conn_step_facts tls c l c' :
  reachable (cstep cfg_repo) (cinit tls) c -> In (l, c') (cstep_lbl cfg_repo c) -> conn_label_ok l = true ->
  rctx c' = rctx c /\ root c' = root c /\
  (l = LWgDone -> h_done c = false /\ h_done c' = true) /\
  (l <> LWgDone -> h_done c' = h_done c).
Proof.
  intros Hr Hin Hok. apply reachable_in_Rset in Hr.
  pose proof conn_step_cert_ok as Hc. unfold conn_step_cert in Hc. rewrite forallb_forall in Hc.
  specialize (Hc c Hr). apply andb_true_iff in Hc. destruct Hc as [_ Hc].
  rewrite forallb_forall in Hc. specialize (Hc (l, c') Hin). unfold conn_step_fact in Hc.
  apply andb_true_iff in Hc. destruct Hc as [_ Hc].
  rewrite Hok in Hc. apply andb_true_iff in Hc. destruct Hc as [Hc H3]. apply andb_true_iff in Hc. destruct Hc as [H1 H2].
  apply eqb_prop in H1. apply eqb_prop in H2. clear Hr.
  split; [exact H1|]. split; [exact H2|]. split.
  - intros ->. apply andb_true_iff in H3. destruct H3 as [H3 H4]. apply negb_true_iff in H3. split; assumption.
  - intros Hne. destruct l; try (apply eqb_prop in H3; exact H3). contradiction Hne; reflexivity.
Qed.

Lemma conn_done_facts tls c :
  reachable (cstep cfg_repo) (cinit tls) c -> h_done c = true ->
  in_handler c = false /\ (istep cfg_repo c = [] -> all_done c = true).
Proof.
  intros Hr Hd. apply reachable_in_Rset in Hr.
  pose proof conn_step_cert_ok as Hc. unfold conn_step_cert in Hc. rewrite forallb_forall in Hc.
  specialize (Hc c Hr). apply andb_true_iff in Hc. destruct Hc as [Hc _].
  unfold conn_state_fact in Hc. rewrite Hd in Hc. cbn [implb] in Hc. apply andb_true_iff in Hc. destruct Hc as [H1 H2].
  apply negb_true_iff in H1. split; [exact H1|]. intros E. rewrite E in H2. exact H2.
Qed.

Lemma conn_done_no_h_label tls c l c' :
  reachable (cstep cfg_repo) (cinit tls) c -> In (l, c') (cstep_lbl cfg_repo c) -> h_done c = true ->
  h_label l = false.
Proof.
  intros Hr Hin Hd. apply reachable_in_Rset in Hr.
  pose proof conn_step_cert_ok as Hc. unfold conn_step_cert in Hc. rewrite forallb_forall in Hc.
  specialize (Hc c Hr). apply andb_true_iff in Hc. destruct Hc as [_ Hc].
  rewrite forallb_forall in Hc. specialize (Hc (l, c') Hin). unfold conn_step_fact in Hc.
  apply andb_true_iff in Hc. destruct Hc as [Hc _]. rewrite Hd in Hc. cbn [implb] in Hc.
  apply negb_true_iff in Hc. exact Hc.
Qed.

(** the two context events are steps of the connection model *)
Lemma set_rctx_reach tls c b :
  reachable (cstep cfg_repo) (cinit tls) c -> reachable (cstep cfg_repo) (cinit tls) (set_rctx (b || rctx c) c).
Proof.
  intros Hr. destruct b; cbn [orb].
  - destruct (rctx c) eqn:E.
    + replace (set_rctx true c) with c; [exact Hr|]. destruct c; cbn in *; subst; reflexivity.
    + eapply reach_step; [exact Hr|]. unfold cstep, cstep_lbl.
      rewrite (conn_no_panic tls c Hr). apply in_map_iff. exists (LShutdown, set_rctx true c). split; [reflexivity|].
      apply in_or_app; right. apply in_or_app; right. apply in_or_app; right.
      unfold env_steps. apply in_or_app; right. apply in_or_app; left. rewrite E. left. reflexivity.
  - replace (set_rctx (rctx c) c) with c; [exact Hr|]. destruct c; reflexivity.
Qed.

Lemma set_root_reach tls c b :
  reachable (cstep cfg_repo) (cinit tls) c -> reachable (cstep cfg_repo) (cinit tls) (set_root (b || root c) c).
Proof.
  intros Hr. destruct b; cbn [orb].
  - destruct (root c) eqn:E.
    + replace (set_root true c) with c; [exact Hr|]. destruct c; cbn in *; subst; reflexivity.
    + eapply reach_step; [exact Hr|]. unfold cstep, cstep_lbl.
      rewrite (conn_no_panic tls c Hr). apply in_map_iff. exists (LRootCancel, set_root true c). split; [reflexivity|].
      apply in_or_app; right. apply in_or_app; right. apply in_or_app; right.
      unfold env_steps. apply in_or_app; right. apply in_or_app; right. rewrite E. left. reflexivity.
  - replace (set_root (root c) c) with c; [exact Hr|]. destruct c; reflexivity.
Qed.

(** * List lemmas *)
Lemma upd_nth_In {A} i (x : A) l y : In y (upd_nth i x l) -> y = x \/ In y l.
Proof.
  revert i. induction l as [|a l IH]; intros i H; [destruct i; cbn in H; destruct H|].
  destruct i; cbn in H.
  - destruct H as [<-|H]; [left; reflexivity | right; right; exact H].
  - destruct H as [<-|H]; [right; left; reflexivity|]. destruct (IH _ H); [left|right; right]; assumption.
Qed.

Definition live (c : cstate) : nat := if h_done c then 0 else 1.
Lemma live_conns_cons c l : live_conns (c :: l) = live c + live_conns l.
Proof. unfold live_conns, live. cbn [filter]. destruct (h_done c); reflexivity. Qed.
Lemma live_conns_app l l' : live_conns (l ++ l') = live_conns l + live_conns l'.
Proof. unfold live_conns. rewrite filter_app, app_length. reflexivity. Qed.
Lemma live_conns_map f l : (forall c, h_done (f c) = h_done c) -> live_conns (map f l) = live_conns l.
Proof.
  intros Hf. induction l as [|c l IH]; [reflexivity|]. cbn [map]. rewrite !live_conns_cons, IH.
  unfold live. rewrite Hf. reflexivity.
Qed.
Lemma live_conns_upd i c c' l :
  nth_error l i = Some c -> live_conns (upd_nth i c' l) + live c = live_conns l + live c'.
Proof.
  revert i. induction l as [|a l IH]; intros i H; [destruct i; discriminate H|].
  destruct i; cbn [upd_nth nth_error] in H |- *.
  - injection H as ->. rewrite !live_conns_cons. lia.
  - rewrite !live_conns_cons. specialize (IH _ H). lia.
Qed.
Lemma live_conns_zero l : live_conns l = 0 <-> forall c, In c l -> h_done c = true.
Proof.
  induction l as [|a l IH]; [split; [intros _ c []|reflexivity]|].
  rewrite live_conns_cons. unfold live at 1. split.
  - intros H c [<-|Hc]; [destruct (h_done a); [reflexivity|lia]|]. apply IH; [destruct (h_done a); lia|exact Hc].
  - intros H. rewrite (H a (or_introl eq_refl)). apply IH. intros c Hc. apply H. right. exact Hc.
Qed.

(** membership in the connection steps *)
Lemma conn_steps_from_In C s : forall l k x,
  In x (conn_steps_from C s k l) ->
  exists i c lb c', nth_error l i = Some c /\ In (lb, c') (cstep_lbl (conn_cfg C) c) /\ conn_label_ok lb = true /\
    fst x = SL_Conn (k + i) lb /\
    snd x = (let s' := with_conns (upd_nth (k + i) c' (conns s)) s in
             match lb with
             | LWgDone => match wg s with O => with_spanic true s' | S n => with_wg n s' end
             | _ => s'
             end).
Proof.
  induction l as [|c l IH]; intros k x H; [destruct H|].
  cbn [conn_steps_from] in H. apply in_app_or in H. destruct H as [H|H].
  - unfold conn_steps_at in H. apply in_map_iff in H. destruct H as [[lb c'] [<- Hin]].
    apply filter_In in Hin. destruct Hin as [Hin Hok]. cbn [fst] in Hok.
    exists 0, c, lb, c'. rewrite Nat.add_0_r. repeat split; auto.
  - destruct (IH _ _ H) as [i [c0 [lb [c' [Hn [Hin [Hok [Hf Hs]]]]]]]].
    exists (S i), c0, lb, c'. replace (k + S i) with (S k + i) by lia. repeat split; auto.
Qed.

(** * The server invariant *)
Definition sd_rank (p : sdpc) : nat :=
  match p with
  | SD_Idle => 0 | SD_Mark => 1 | SD_Close => 2 | SD_RecvCancel => 3 | SD_Timer => 4
  | SD_Wait => 5 | SD_Stop => 6 | SD_Cancel => 7 | SD_Returned => 8
  end.

Record SInv (s : sstate) : Prop := {
  v_panic : s_panic s = false;
  v_flags : forall c, In c (conns s) -> rctx c = g_rctx s /\ root c = g_root s;
  v_wg : wg s = (match sv s with S_Go _ => 1 | _ => 0 end) + live_conns (conns s);
  v_reach : forall c, In c (conns s) -> exists tls, reachable (cstep cfg_repo) (cinit tls) c;
  v_shut : 2 <= sd_rank (sd s) -> shut s = true;
  v_lis : 3 <= sd_rank (sd s) -> lis s = true;
  v_rctx : 4 <= sd_rank (sd s) -> g_rctx s = true;
  v_drained : 6 <= sd_rank (sd s) -> live_conns (conns s) = 0 /\ (forall t, sv s <> S_Go t);
  v_root : g_root s = true -> tm s = TFired \/ sd s = SD_Returned;
  v_tm : tm s = TArmed -> sd s = SD_Wait \/ sd s = SD_Stop;
  v_tmn : tm s = TNone \/ 5 <= sd_rank (sd s)
}.

Lemma sinv_init : SInv sinit.
Proof.
  constructor; cbn; try reflexivity; try (intros; lia); try (intros c []); try (intros; discriminate).
  left; reflexivity.
Qed.

Lemma h_done_set_rctx b c : h_done (set_rctx b c) = h_done c. Proof. reflexivity. Qed.
Lemma h_done_set_root b c : h_done (set_root b c) = h_done c. Proof. reflexivity. Qed.

Lemma sinv_cancel_root s : SInv s -> forall s',
  sv s' = sv s -> wg s' = wg s -> shut s' = shut s -> lis s' = lis s -> g_rctx s' = g_rctx s -> s_panic s' = s_panic s ->
  g_root s' = true -> conns s' = map (set_root true) (conns s) ->
  (forall c, In c (conns s') -> rctx c = g_rctx s' /\ root c = true) /\
  wg s' = (match sv s' with S_Go _ => 1 | _ => 0 end) + live_conns (conns s') /\
  (forall c, In c (conns s') -> exists tls, reachable (cstep cfg_repo) (cinit tls) c) /\
  live_conns (conns s') = live_conns (conns s).
Proof.
  intros [] s' E1 E2 E3 E4 E5 E6 E7 E8.
  assert (L : live_conns (conns s') = live_conns (conns s)).
  { rewrite E8. apply live_conns_map. intros; reflexivity. }
  repeat split.
  - rewrite E8 in H. apply in_map_iff in H. destruct H as [c0 [<- H0]]. rewrite E5. cbn. apply v_flags0. exact H0.
  - rewrite E8 in H. apply in_map_iff in H. destruct H as [c0 [<- H0]]. reflexivity.
  - rewrite E1, E2, L. exact v_wg0.
  - intros c H. rewrite E8 in H. apply in_map_iff in H. destruct H as [c0 [<- H0]].
    destruct (v_reach0 c0 H0) as [tls Hr]. exists tls. apply (set_root_reach tls c0 true). exact Hr.
  - exact L.
Qed.

Ltac scbn := cbn [with_sv with_sd with_tm with_wg with_lis with_shut with_conns with_spanic cancel_recv cancel_root sv sd tm wg lis shut g_rctx g_root conns s_panic sd_rank].

Ltac sd_fin v_root0 v_tm0 :=
  try solve [auto]; try (intros; lia); try lia;
  try (intros _; match goal with H : _ <= _ -> ?g |- ?g => apply H; lia end);
  try (let R := fresh in let R' := fresh in intros R; destruct (v_root0 R) as [R'|R']; [left; exact R' | discriminate R']);
  try (let T := fresh in let T' := fresh in intros T; destruct (v_tm0 T) as [T'|T']; discriminate T');
  try (match goal with
       | N : tm _ = TNone \/ _ |- _ \/ _ => destruct N; [left; assumption | right; lia]
       | |- _ \/ _ => first [right; lia | left; reflexivity]
       end).

Theorem sinv_step : forall s l s', SInv s -> In (l, s') (sstep_lbl scfg_repo s) -> SInv s'.
Proof.
  intros s l s' HI Hin. pose proof HI as [].
  unfold sstep_lbl in Hin. rewrite v_panic0 in Hin.
  apply in_app_or in Hin. destruct Hin as [Hin|Hin].
  { (* Serve *)
    unfold serve_steps in Hin. destruct (sv s) as [|tls|tls| |] eqn:Esv.
    - destruct (lis s) eqn:El; cbn [serve_steps] in Hin.
      + destruct Hin as [Hin|[]]. injection Hin as <- <-.
        constructor; scbn; rewrite ?Esv, ?El in *; try solve [auto].
        intros D. destruct (v_drained0 D) as [D1 _]. split; [exact D1|discriminate].
      + destruct Hin as [Hin|[Hin|[Hin|[]]]]; injection Hin as <- <-;
          (constructor; scbn; rewrite ?Esv, ?El in *; try solve [auto];
           intros D; destruct (v_drained0 D) as [D1 _]; split; [exact D1|discriminate]).
    - cbn [guard_add scfg_repo andb] in Hin. destruct (shut s) eqn:Es; cbn in Hin; destruct Hin as [Hin|[]]; injection Hin as <- <-.
      + constructor; scbn; rewrite ?Esv in *; auto. intros D. destruct (v_drained0 D) as [D1 _]. split; [exact D1|discriminate].
      + constructor; scbn; rewrite ?Esv in *; try solve [auto]; lia.
    - destruct Hin as [Hin|[]]. injection Hin as <- <-.
      constructor; scbn; rewrite ?Esv in *; auto.
      + intros c Hc. apply in_app_or in Hc. destruct Hc as [Hc|[<-|[]]]; [apply v_flags0; exact Hc|].
        unfold cnew. split; reflexivity.
      + assert (L1 : live_conns [cnew tls s] = 1) by (destruct tls; reflexivity).
        rewrite live_conns_app, L1. cbn [plus] in v_wg0. lia.
      + intros c Hc. apply in_app_or in Hc. destruct Hc as [Hc|[<-|[]]]; [apply v_reach0; exact Hc|].
        exists tls. unfold cnew.
        pose proof (set_rctx_reach tls (cinit tls) (g_rctx s) ltac:(apply reach_init)) as R1.
        replace (g_rctx s || rctx (cinit tls)) with (g_rctx s) in R1 by (destruct (g_rctx s), tls; reflexivity).
        pose proof (set_root_reach tls _ (g_root s) R1) as R2.
        replace (g_root s || root (set_rctx (g_rctx s) (cinit tls))) with (g_root s) in R2 by (destruct (g_root s), tls; reflexivity).
        exact R2.
      + intros D. destruct (v_drained0 D) as [_ D2]. contradiction (D2 tls). reflexivity.
    - destruct Hin.
    - destruct Hin. }
  apply in_app_or in Hin. destruct Hin as [Hin|Hin].
  { (* Shutdown *)
    unfold shutdown_steps in Hin. destruct (sd s) eqn:Esd; cbn [guard_add scfg_repo] in Hin.
    - destruct Hin as [Hin|[]]. injection Hin as <- <-.
      constructor; scbn; rewrite ?Esd in *; cbn [sd_rank] in *; sd_fin v_root0 v_tm0.
    - destruct Hin as [Hin|[]]. injection Hin as <- <-.
      constructor; scbn; rewrite ?Esd in *; cbn [sd_rank] in *; sd_fin v_root0 v_tm0.
    - destruct Hin as [Hin|[]]. injection Hin as <- <-.
      constructor; scbn; rewrite ?Esd in *; cbn [sd_rank] in *; sd_fin v_root0 v_tm0.
    - destruct Hin as [Hin|[]]. injection Hin as <- <-.
      assert (L : live_conns (map (set_rctx true) (conns s)) = live_conns (conns s)) by (apply live_conns_map; intros; reflexivity).
      constructor; scbn; rewrite ?Esd, ?L in *; cbn [sd_rank] in *; sd_fin v_root0 v_tm0.
      + intros c Hc. apply in_map_iff in Hc. destruct Hc as [c0 [<- H0]]. destruct (v_flags0 c0 H0). split; [reflexivity|assumption].
      + intros c Hc. apply in_map_iff in Hc. destruct Hc as [c0 [<- H0]].
        destruct (v_reach0 c0 H0) as [tls Hr]. exists tls. apply (set_rctx_reach tls c0 true). exact Hr.
    - destruct Hin as [Hin|[]]. injection Hin as <- <-.
      constructor; scbn; rewrite ?Esd in *; cbn [sd_rank] in *; sd_fin v_root0 v_tm0.
      + intros R. destruct (v_root0 R) as [R'|R']; [|discriminate R'].
        destruct v_tmn0 as [N|N]; [rewrite N in R'; discriminate R' | lia].
    - destruct (wg s) eqn:Ew; [|destruct Hin]. destruct Hin as [Hin|[]]. injection Hin as <- <-.
      constructor; scbn; rewrite ?Esd in *; cbn [sd_rank] in *; sd_fin v_root0 v_tm0.
      intros _. destruct (sv s); try (split; [lia|discriminate]); try (exfalso; lia).
    - destruct Hin as [Hin|[]]. injection Hin as <- <-.
      assert (D : 6 <= sd_rank SD_Stop) by (cbn; lia). pose proof (v_drained0 D) as DD.
      destruct (tm s) eqn:Et; constructor; scbn; rewrite ?Esd, ?Et in *; cbn [sd_rank] in *; sd_fin v_root0 v_tm0.
      all: try (intros; discriminate).
      all: try (intros R; destruct (v_root0 R) as [R'|R']; discriminate R').
    - destruct Hin as [Hin|[]]. injection Hin as <- <-.
      assert (D : 6 <= sd_rank SD_Cancel) by (cbn; lia). pose proof (v_drained0 D) as [D1 D2].
      destruct (sinv_cancel_root s HI (with_sd SD_Returned (cancel_root s))) as [F [W [Rr L]]]; try reflexivity.
      constructor; scbn; cbn [sd_rank] in *; sd_fin v_root0 v_tm0.
      all: first [ intros c Hc; destruct (F c Hc); split; assumption
                 | intros _; split; [cbn [with_sd cancel_root conns] in L; rewrite L; exact D1 | exact D2]
                 | idtac ].
    - destruct Hin. }
  apply in_app_or in Hin. destruct Hin as [Hin|Hin].
  { (* timer *)
    unfold timer_steps in Hin. destruct (tm s) eqn:Et; try (destruct Hin; fail).
    destruct Hin as [Hin|[]]. injection Hin as <- <-.
    destruct (sinv_cancel_root s HI (with_tm TFired (cancel_root s))) as [F [W [Rr L]]]; try reflexivity.
    destruct (v_tm0 eq_refl) as [Esd|Esd].
    all: constructor; scbn; rewrite ?Esd in *; cbn [sd_rank] in *; sd_fin v_root0 v_tm0.
    all: first [ intros c Hc; destruct (F c Hc); split; assumption
               | intros D; exfalso; lia
               | intros D; destruct (v_drained0 D) as [D1 D2]; split; [cbn [with_tm cancel_root conns] in L; rewrite L; exact D1 | exact D2]
               | intros T; discriminate T
               | idtac ]. }
  (* a connection step *)
  destruct (conn_steps_from_In scfg_repo s _ _ _ Hin) as [i [c [lb [c' [Hn [Hc [Hok [_ Hs]]]]]]]].
  cbn [fst snd plus] in Hs. cbn [conn_cfg scfg_repo] in Hc.
  assert (Hcin : In c (conns s)) by (eapply nth_error_In; eauto).
  destruct (v_reach0 c Hcin) as [tls Hr].
  destruct (conn_step_facts tls c lb c' Hr Hc Hok) as [F1 [F2 [F3 F4]]].
  destruct (v_flags0 c Hcin) as [G1 G2].
  pose proof (live_conns_upd i c c' (conns s) Hn) as HL.
  assert (Hreach' : exists tls, reachable (cstep cfg_repo) (cinit tls) c').
  { exists tls. eapply reach_step; [exact Hr|]. unfold cstep. apply in_map_iff. exists (lb, c'). split; [reflexivity|exact Hc]. }
  assert (Hflags' : forall x, In x (upd_nth i c' (conns s)) -> rctx x = g_rctx s /\ root x = g_root s).
  { intros x Hx. destruct (upd_nth_In _ _ _ _ Hx) as [->|Hx']; [split; congruence | apply v_flags0; exact Hx']. }
  assert (Hreach'' : forall x, In x (upd_nth i c' (conns s)) -> exists tls, reachable (cstep cfg_repo) (cinit tls) x).
  { intros x Hx. destruct (upd_nth_In _ _ _ _ Hx) as [->|Hx']; [exact Hreach' | apply v_reach0; exact Hx']. }
  destruct (label_eq_dec lb LWgDone) as [->|Hne].
  - destruct (F3 eq_refl) as [D0 D1]. unfold live in HL. rewrite D0, D1 in HL.
    destruct (wg s) as [|n] eqn:Ew.
    + exfalso. rewrite v_wg0 in Ew. assert (live_conns (conns s) >= 1) by lia. lia.
    + subst s'. constructor; cbn [with_wg with_conns sv sd tm wg lis shut g_rctx g_root conns s_panic]; try solve [auto]; try lia.
      all: first [ rewrite v_wg0 in Ew; lia
                 | intros D; destruct (v_drained0 D) as [D2 _]; exfalso; lia ].
  - specialize (F4 Hne). unfold live in HL. rewrite F4 in HL.
    assert (HL' : live_conns (upd_nth i c' (conns s)) = live_conns (conns s)) by (destruct (h_done c); lia).
    assert (s' = with_conns (upd_nth i c' (conns s)) s) by (rewrite Hs; destruct lb; try reflexivity; contradiction Hne; reflexivity).
    clear Hs. subst s'. constructor; cbn [with_conns sv sd tm wg lis shut g_rctx g_root conns s_panic]; try solve [auto]; try lia.
    all: first [ rewrite HL'; exact v_wg0
               | intros D; destruct (v_drained0 D) as [D2 D3]; split; [lia|exact D3] ].
Qed.

Lemma sstep_labelled C s s' : In s' (sstep C s) -> exists l, In (l, s') (sstep_lbl C s).
Proof. unfold sstep. intros H. apply in_map_iff in H. destruct H as [[l x] [<- H]]. exists l. exact H. Qed.

Theorem sinv_reachable : forall s, reachable (sstep scfg_repo) sinit s -> SInv s.
Proof.
  intros s H. induction H as [|s t Hs IH Ht]; [apply sinv_init|].
  destruct (sstep_labelled _ _ _ Ht) as [l Hl]. eapply sinv_step; eauto.
Qed.

(** * Theorems *)

(** every connection of the server is, at every moment, in a state the single-connection model
    can reach: all theorems of ConnServerProofs.v hold for each of any number of concurrent
    connections *)
Theorem server_conns_are_connections : forall s c,
  reachable (sstep scfg_repo) sinit s -> In c (conns s) ->
  exists tls, reachable (cstep cfg_repo) (cinit tls) c.
Proof. intros s c H. apply (v_reach _ (sinv_reachable s H)). Qed.

Theorem server_no_panic : forall s,
  reachable (sstep scfg_repo) sinit s ->
  s_panic s = false /\ forall c, In c (conns s) -> panicked c = false.
Proof.
  intros s H. pose proof (sinv_reachable s H) as []. split; [assumption|].
  intros c Hc. destruct (v_reach0 c Hc) as [tls Hr]. exact (conn_no_panic tls c Hr).
Qed.

Lemma nth_error_upd_other {A} (l : list A) i j x : i <> j -> nth_error (upd_nth i x l) j = nth_error l j.
Proof.
  revert i j. induction l as [|a l IH]; intros i j Hne; [destruct i; reflexivity|].
  destruct i, j; cbn; try reflexivity; [contradiction Hne; reflexivity | apply IH; lia].
Qed.

(** frame: a step of connection [i] changes neither another connection nor the accept loop,
    Shutdown, the timer, the listener or the contexts *)
Theorem product_frame : forall s i lb s',
  In (SL_Conn i lb, s') (sstep_lbl scfg_repo s) ->
  (forall j, j <> i -> nth_error (conns s') j = nth_error (conns s) j) /\
  sv s' = sv s /\ sd s' = sd s /\ tm s' = tm s /\ lis s' = lis s /\ shut s' = shut s /\
  g_rctx s' = g_rctx s /\ g_root s' = g_root s.
Proof.
  intros s i lb s' Hin. unfold sstep_lbl in Hin. destruct (s_panic s); [destruct Hin|].
  apply in_app_or in Hin. destruct Hin as [Hin|Hin].
  { exfalso. unfold serve_steps in Hin. destruct (sv s); try destruct (lis s); try destruct (guard_add scfg_repo && shut s);
      cbn in Hin; repeat (destruct Hin as [Hin|Hin]; try discriminate Hin); try destruct Hin. }
  apply in_app_or in Hin. destruct Hin as [Hin|Hin].
  { exfalso. unfold shutdown_steps in Hin. destruct (sd s); try destruct (wg s); cbn in Hin;
      repeat (destruct Hin as [Hin|Hin]; try discriminate Hin); try destruct Hin. }
  apply in_app_or in Hin. destruct Hin as [Hin|Hin].
  { exfalso. unfold timer_steps in Hin. destruct (tm s); cbn in Hin;
      repeat (destruct Hin as [Hin|Hin]; try discriminate Hin); try destruct Hin. }
  destruct (conn_steps_from_In scfg_repo s _ _ _ Hin) as [k [c [l0 [c' [Hn [Hc [Hok [Hf Hs]]]]]]]].
  cbn [fst snd plus] in Hf, Hs. injection Hf as -> ->.
  assert (E : conns s' = upd_nth k c' (conns s) /\ sv s' = sv s /\ sd s' = sd s /\ tm s' = tm s /\ lis s' = lis s /\
              shut s' = shut s /\ g_rctx s' = g_rctx s /\ g_root s' = g_root s).
  { rewrite Hs. destruct l0; try (repeat split; reflexivity). destruct (wg s); repeat split; reflexivity. }
  destruct E as [E0 E]. split; [|exact E].
  intros j Hj. rewrite E0. apply nth_error_upd_other. congruence.
Qed.

(** the accept loop never waits for a connection: while it has not returned it always has a step
    of its own, whatever the connections do *)
Theorem serve_live : forall s,
  serve_ended s = false -> serve_steps scfg_repo s <> [].
Proof.
  intros s H. unfold serve_steps. unfold serve_ended in H.
  destruct (sv s); try discriminate H; try destruct (lis s); try destruct (guard_add scfg_repo && shut s); discriminate.
Qed.

(** ... and it leaves the loop only through a failing Accept: listener closed (ErrShutdown), another
    Accept error, or a connection accepted while Shutdown had started (refused, ErrShutdown) *)
Theorem serve_leaves_only_by_accept_error : forall s l s',
  In (l, s') (sstep_lbl scfg_repo s) -> serve_ended s = false -> serve_ended s' = true ->
  (l = SL_ServeRet true /\ lis s = true) \/ (l = SL_AcceptErr /\ lis s = false) \/ (l = SL_Dropped /\ shut s = true).
Proof.
  intros s l s' Hin H0 H1. unfold sstep_lbl in Hin. destruct (s_panic s); [destruct Hin|].
  apply in_app_or in Hin. destruct Hin as [Hin|Hin].
  { unfold serve_steps in Hin. unfold serve_ended in H0. destruct (sv s) eqn:Esv; try discriminate H0.
    - destruct (lis s) eqn:El; cbn in Hin.
      + destruct Hin as [Hin|[]]. injection Hin as <- <-. left. split; reflexivity.
      + destruct Hin as [Hin|[Hin|[Hin|[]]]]; injection Hin as <- <-; try discriminate H1. right; left; split; reflexivity.
    - cbn [guard_add scfg_repo andb] in Hin. destruct (shut s) eqn:Es; cbn in Hin; destruct Hin as [Hin|[]]; injection Hin as <- <-.
      + right; right; split; reflexivity.
      + discriminate H1.
    - destruct Hin as [Hin|[]]. injection Hin as <- <-. discriminate H1. }
  exfalso. assert (Hsv : sv s' = sv s).
  { apply in_app_or in Hin. destruct Hin as [Hin|Hin].
    { unfold shutdown_steps in Hin. destruct (sd s); try destruct (wg s); try destruct (tm s); cbn in Hin;
        repeat (destruct Hin as [Hin|Hin]; [injection Hin as <- <-; reflexivity|]); destruct Hin. }
    apply in_app_or in Hin. destruct Hin as [Hin|Hin].
    { unfold timer_steps in Hin. destruct (tm s); cbn in Hin;
        repeat (destruct Hin as [Hin|Hin]; [injection Hin as <- <-; reflexivity|]); destruct Hin. }
    destruct (conn_steps_from_In scfg_repo s _ _ _ Hin) as [k [c [l0 [c' [_ [_ [_ [_ Hs]]]]]]]].
    cbn [snd] in Hs. rewrite Hs. destruct l0; try reflexivity. destruct (wg s); reflexivity. }
  unfold serve_ended in *. rewrite Hsv in H1. rewrite H0 in H1. discriminate H1.
Qed.

(** * Shutdown *)

(** after Shutdown returned: listener closed, server marked as shutting down, both contexts
    cancelled, every connection goroutine (handleConn) returned, no handler in progress *)
Theorem sd_state_at_return : forall s,
  reachable (sstep scfg_repo) sinit s -> sd_returned s = true ->
  lis s = true /\ shut s = true /\ g_rctx s = true /\ wg s = 0 /\
  forall c, In c (conns s) -> h_done c = true /\ in_handler c = false.
Proof.
  intros s H Hr. pose proof (sinv_reachable s H) as [].
  unfold sd_returned in Hr. destruct (sd s) eqn:Esd; try discriminate Hr. cbn [sd_rank] in *.
  destruct v_drained0 as [D1 D2]; [lia|].
  split; [apply v_lis0; lia|]. split; [apply v_shut0; lia|]. split; [apply v_rctx0; lia|].
  split.
  - rewrite v_wg0, D1. destruct (sv s); try reflexivity. contradiction (D2 tls). reflexivity.
  - intros c Hc. assert (Hd : h_done c = true) by (apply (proj1 (live_conns_zero (conns s)) D1); exact Hc).
    split; [exact Hd|]. destruct (v_reach0 c Hc) as [tls Hrc]. apply (conn_done_facts tls c Hrc Hd).
Qed.

(** ... and from then on no connection is accepted or started, and the accept loop can only end
    with ErrShutdown *)
Theorem sd_nothing_starts_after_return : forall s l s',
  reachable (sstep scfg_repo) sinit s -> sd_returned s = true ->
  In (l, s') (sstep_lbl scfg_repo s) ->
  l <> SL_Spawn /\ l <> SL_AcceptErr /\ (forall t, l <> SL_Accept t) /\ l <> SL_ServeRet false /\
  (forall i, l <> SL_Conn i LHStart) /\ (forall i, l <> SL_Conn i LHookOk).
Proof.
  intros s l s' H Hr Hin.
  destruct (sd_state_at_return s H Hr) as [Hl [Hs [_ [_ Hdone]]]].
  pose proof (sinv_reachable s H) as [].
  unfold sd_returned in Hr. destruct (sd s) eqn:Esd; try discriminate Hr. cbn [sd_rank] in *.
  destruct v_drained0 as [D1 D2]; [lia|].
  unfold sstep_lbl in Hin. rewrite v_panic0 in Hin.
  apply in_app_or in Hin. destruct Hin as [Hin|Hin].
  { unfold serve_steps in Hin. rewrite Hl in Hin. cbn [guard_add scfg_repo andb] in Hin. rewrite Hs in Hin.
    destruct (sv s) eqn:Esv; cbn in Hin.
    - destruct Hin as [Hin|[]]. injection Hin as <- <-. repeat split; try discriminate; intros; discriminate.
    - destruct Hin as [Hin|[]]. injection Hin as <- <-. repeat split; try discriminate; intros; discriminate.
    - contradiction (D2 tls). reflexivity.
    - destruct Hin.
    - destruct Hin. }
  apply in_app_or in Hin. destruct Hin as [Hin|Hin].
  { unfold shutdown_steps in Hin. rewrite Esd in Hin. destruct Hin. }
  apply in_app_or in Hin. destruct Hin as [Hin|Hin].
  { unfold timer_steps in Hin. destruct (tm s); try (destruct Hin; fail).
    destruct Hin as [Hin|[]]. injection Hin as <- <-. repeat split; try discriminate; intros; discriminate. }
  destruct (conn_steps_from_In scfg_repo s _ _ _ Hin) as [k [c [l0 [c' [Hn [Hc [Hok [Hf Hs']]]]]]]].
  cbn [fst plus] in Hf. subst l. cbn [conn_cfg scfg_repo] in Hc.
  assert (Hcin : In c (conns s)) by (eapply nth_error_In; eauto).
  destruct (Hdone c Hcin) as [Hd _]. destruct (v_reach0 c Hcin) as [tls Hrc].
  pose proof (conn_done_no_h_label tls c l0 c' Hrc Hc Hd) as Hno.
  repeat split; try discriminate; try (intros; discriminate).
  - intros i E. injection E as _ ->. discriminate Hno.
  - intros i E. injection E as _ ->. discriminate Hno.
Qed.

(** the root context (which every handler's context derives from) is cancelled only by the 3 s
    timer or at the very end of Shutdown, when every connection has ended *)
Theorem sd_cancel_only_by_timer_or_at_end : forall s,
  reachable (sstep scfg_repo) sinit s -> g_root s = true ->
  tm s = TFired \/ (sd_returned s = true /\ forall c, In c (conns s) -> h_done c = true).
Proof.
  intros s H Hg. destruct (v_root _ (sinv_reachable s H) Hg) as [T|R]; [left; exact T|right].
  assert (Hr : sd_returned s = true) by (unfold sd_returned; rewrite R; reflexivity).
  split; [exact Hr|]. intros c Hc. apply (sd_state_at_return s H Hr). exact Hc.
Qed.

(** Shutdown's recvCancel interrupts a connection only between requests: handleConn decides to tear
    a still-live connection down only in recv's select, where it holds no request *)
Definition interrupt_fact (c : cstate) (lc : label * cstate) : bool :=
  let (l, c') := lc in
  match hp c' with
  | H_TermSwap HC_Break =>
    match hp c with
    | H_TermSwap HC_Break => true
    | H_RecvSel => ctxdone c || rctx c
    | _ => ctxdone c
    end
  | _ => true
  end.
Definition interrupt_cert : bool :=
  forallb (fun c => forallb (interrupt_fact c) (cstep_lbl cfg_repo c)) Rset.
Lemma interrupt_cert_ok : interrupt_cert = true.
Proof. vm_compute. reflexivity. Qed.

Theorem shutdown_interrupts_only_between_requests : forall tls c l c',
  reachable (cstep cfg_repo) (cinit tls) c -> In (l, c') (cstep_lbl cfg_repo c) ->
  ctxdone c = false -> hp c' = H_TermSwap HC_Break -> hp c <> H_TermSwap HC_Break ->
  hp c = H_RecvSel /\ rctx c = true /\ a_hst (abs c) = HNone.
Proof.
  intros tls c l c' Hr Hin Hctx Hc' Hne. apply reachable_in_Rset in Hr.
  pose proof interrupt_cert_ok as Hc. unfold interrupt_cert in Hc. rewrite forallb_forall in Hc.
  specialize (Hc c Hr). rewrite forallb_forall in Hc. specialize (Hc (l, c') Hin). clear Hr.
  unfold interrupt_fact in Hc. rewrite Hc', Hctx in Hc. cbn [orb] in Hc.
  destruct (hp c) eqn:Ehp; try discriminate Hc; try (destruct k; try discriminate Hc; contradiction Hne; reflexivity).
  repeat split; [exact Hc | unfold abs; cbn; rewrite Ehp; reflexivity].
Qed.

(** all per-connection goroutines end after Shutdown returned, with no further event: for each
    connection, every run of internal steps is finite and ends with readloop, writeloop and
    handleConn all returned *)
Lemma istep_labelled C c t : In t (istep C c) -> exists l, In (l, t) (cstep_lbl C c) /\ is_internal c l = true.
Proof.
  unfold istep, istep_lbl. intros H. apply in_map_iff in H. destruct H as [[l x] [<- H]].
  apply filter_In in H. destruct H as [H1 H2]. exists l. split; assumption.
Qed.

Theorem sd_goroutines_end : forall s c,
  reachable (sstep scfg_repo) sinit s -> sd_returned s = true -> In c (conns s) ->
  (exists n, forall p, path (istep cfg_repo) c p -> length p <= n) /\
  (forall t, reachable (istep cfg_repo) c t -> istep cfg_repo t = [] -> all_done t = true).
Proof.
  intros s c H Hr Hc.
  destruct (sd_state_at_return s H Hr) as [_ [_ [_ [_ Hdone]]]]. destruct (Hdone c Hc) as [Hd _].
  destruct (server_conns_are_connections s c H Hc) as [tls Hrc].
  split; [exists (irank c); exact (conn_internal_terminates tls c Hrc)|].
  intros t Ht Hn.
  assert (Hinv : reachable (cstep cfg_repo) (cinit tls) t /\ h_done t = true).
  { clear Hn. induction Ht as [|u v Hu IH Hv]; [split; assumption|].
    destruct IH as [Hru Hdu]. destruct (istep_labelled _ _ _ Hv) as [l [Hl Hint]].
    split; [eapply reach_step; [exact Hru | apply istep_incl; exact Hv]|].
    assert (Hok : conn_label_ok l = true) by (destruct l; try reflexivity; discriminate Hint).
    destruct (conn_step_facts tls u l v Hru Hl Hok) as [_ [_ [F3 F4]]].
    destruct (label_eq_dec l LWgDone) as [->|Hne]; [destruct (F3 eq_refl) as [_ D]; exact D|].
    rewrite (F4 Hne). exact Hdu. }
  destruct Hinv as [Hrt Hdt]. apply (conn_done_facts tls t Hrt Hdt). exact Hn.
Qed.

(** * Without the registration guard (Serve as in the pinned tree) the property fails:
    a connection accepted just before Shutdown is started after Shutdown returned *)
Fixpoint follow (C : scfg) (choices : list nat) (s : sstate) : option sstate :=
  match choices with
  | [] => Some s
  | n :: rest => match nth_error (sstep C s) n with Some t => follow C rest t | None => None end
  end.
Lemma follow_reachable C : forall choices s t, follow C choices s = Some t -> reachable (sstep C) s t.
Proof.
  induction choices as [|n rest IH]; intros s t H; cbn in H.
  - injection H as <-. apply reach_init.
  - destruct (nth_error (sstep C s) n) as [u|] eqn:E; [|discriminate H].
    eapply reachable_trans; [|apply IH; exact H].
    eapply reach_step; [apply reach_init | eapply nth_error_In; exact E].
Qed.

Definition late_start_witness : option sstate :=
  Eval vm_compute in follow scfg_unguarded [1; 1; 1; 1; 1; 1; 1; 1; 0; 0] sinit.

Theorem unguarded_serve_starts_connection_after_shutdown_returned :
  exists s, reachable (sstep scfg_unguarded) sinit s /\ sd_returned s = true /\
            exists c, In c (conns s) /\ h_done c = false /\ root c = true.
Proof.
  destruct late_start_witness as [s|] eqn:E; [|discriminate E].
  exists s. split; [apply (follow_reachable scfg_unguarded [1; 1; 1; 1; 1; 1; 1; 1; 0; 0]); exact E|].
  injection E as <-. split; [reflexivity|]. eexists. split; [left; reflexivity|]. split; reflexivity.
Qed.

(** running Shutdown alone (used for non-vacuity) *)
Fixpoint run_sd (n : nat) (s : sstate) : option sstate :=
  match n with
  | O => Some s
  | S k => if s_panic s then None else
           match shutdown_steps scfg_repo s with (_, t) :: _ => run_sd k t | [] => None end
  end.
Lemma run_sd_reachable : forall n s t, run_sd n s = Some t -> reachable (sstep scfg_repo) s t.
Proof.
  induction n as [|n IH]; intros s t H; cbn in H; [injection H as <-; apply reach_init|].
  destruct (s_panic s) eqn:Ep; [discriminate H|].
  destruct (shutdown_steps scfg_repo s) as [|[l u] rest] eqn:E; [discriminate H|].
  eapply reachable_trans; [|apply IH; exact H].
  eapply reach_step; [apply reach_init|]. unfold sstep, sstep_lbl. rewrite Ep.
  apply in_map_iff. exists (l, u). split; [reflexivity|].
  apply in_or_app; right. apply in_or_app; left. rewrite E. left. reflexivity.
Qed.
