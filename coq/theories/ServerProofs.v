From Coq Require Import List Bool PArith ZArith Lia.
From KV Require Import Lts ConnServer ConnServerProofs Server.
Import ListNotations.
