(** Model of TTLV stream framing: ttlv/io.go [Stream.Recv] and [computeNeededBytes]
    (with ttlv/encoding_ttlv.go [ttlvReader.len] / [paddedLen] and ttlv/utils.go
    [padForLen]), as repaired by the commit
    "fix: Stream.Recv processes the bytes returned together with a read error".

    The transport ([io.Reader] behind the stream) is an oracle: a byte string still to
    be delivered, the error it reports once drained, and a schedule of answers that says
    how each [Read] call is served (how many bytes at most, whether the final error
    comes together with the last bytes, spurious errors, "nothing happened" reads).
    The message body decoder [UnmarshalTTLV] is a Section variable: what is modelled
    (and verified) here is framing only.

    No proofs in this file (StreamProofs.v). *)
From Coq Require Import ZArith List Bool.
From KV Require Import Base.
Import ListNotations.
Open Scope Z_scope.

(* ------------------------------------------------------------------ transport *)

(** One answer of the transport to a call [Read(p)], [len(p) = want > 0].
    - [Chunk k attach]: deliver at most [k] bytes (fewer when [p] or the stream is
      shorter).  If the stream is already drained the answer is [(0, end_error)].
      If this read drains the stream and [attach] is set the answer is
      [(n > 0, end_error)] -- what io.Reader explicitly allows and crypto/tls,
      iotest.DataErrReader do -- otherwise [(n, nil)].  [Chunk 0 _] on a stream that
      still has bytes is the discouraged-but-legal [(0, nil)].
    - [Fault k e]: deliver at most [k] bytes (possibly none) together with the error
      [e], whatever remains (a connection that breaks mid-stream). *)
Inductive ans :=
| Chunk (k : Z) (attach : bool)
| Fault (k : Z) (e : Z).

(** Error values are opaque tokens; [0] stands for [io.EOF]. *)
Record tr := mkTr {
  t_rest : list Z;      (* bytes not yet delivered *)
  t_end : Z;            (* error reported once drained *)
  t_sched : list ans    (* answers to the next Read calls; when exhausted every read
                           is served as fully as possible *)
}.

Definition clip (k want avail : Z) : Z := Z.max 0 (Z.min k (Z.min want avail)).

(** [inner.Read(p)] with [len(p) = want]: the bytes written at the start of [p], the
    returned error, and the transport afterwards. *)
Definition tr_read (t : tr) (want : Z) : list Z * option Z * tr :=
  let rest := t_rest t in
  let avail := len rest in
  match t_sched t with
  | [] =>
      if avail =? 0 then ([], Some (t_end t), t)
      else let n := clip want want avail in
           (take n rest, None, mkTr (drop n rest) (t_end t) [])
  | Chunk k attach :: s =>
      if avail =? 0 then ([], Some (t_end t), mkTr rest (t_end t) s)
      else let n := clip k want avail in
           (take n rest,
            if attach && (n =? avail) then Some (t_end t) else None,
            mkTr (drop n rest) (t_end t) s)
  | Fault k e :: s =>
      let n := clip k want avail in
      (take n rest, Some e, mkTr (drop n rest) (t_end t) s)
  end.

(* ------------------------------------------------------------------ integers *)

(** Go's [int] has [W] bits (64 on amd64/arm64, 32 on 386/arm): conversion and
    arithmetic wrap around. *)
Definition wrap (W v : Z) : Z :=
  let u := v mod 2 ^ W in if u <? 2 ^ (W - 1) then u else u - 2 ^ W.

(** ttlv/utils.go [padForLen(l, 8)]: [(8 - l%8) % 8] with Go's truncated [%]. *)
Definition pad_for_len8 (l : Z) : Z := Z.rem (8 - Z.rem l 8) 8.

(** ttlv/encoding_ttlv.go [ttlvReader.len]: [int(binary.BigEndian.Uint32(buf[4:8]))]
    (0 on an empty buffer). Only called here with [8 <= len buf]. *)
Definition rd_len (W : Z) (buf : list Z) : Z :=
  if len buf =? 0 then 0 else wrap W (unbe (take 4 (drop 4 buf))).

(** [ttlvReader.paddedLen]: [l + padForLen(l, 8)] *)
Definition rd_padded_len (W : Z) (buf : list Z) : Z :=
  let l := rd_len W buf in wrap W (l + pad_for_len8 l).

(** [math.MaxInt] *)
Definition max_int (W : Z) : Z := 2 ^ (W - 1) - 1.

(** ttlv/io.go [computeNeededBytes]:
    if len(buf) < 8 { return 8 }
    if l := binary.BigEndian.Uint32(buf[4:8]); uint64(l) > math.MaxInt-16 { return -1 }
    dec := ttlvReader{buf: buf}; return 8 + dec.paddedLen() *)
Definition needed_bytes (W : Z) (buf : list Z) : Z :=
  if len buf <? 8 then 8
  else if unbe (take 4 (drop 4 buf)) >? max_int W - 16 then -1
  else wrap W (8 + rd_padded_len W buf).

(* ------------------------------------------------------------------ Recv *)

(** How [Recv] returns. *)
Inductive rout (M : Type) :=
| RMsg (r : res M)        (* return UnmarshalTTLV(buf[:need], msg) *)
| RErr (e : Z)            (* return err: the transport's error, unchanged *)
| RTooBig                 (* return Errorf("Message is too big. ..."): over the limit, or not representable by an int *)
| RZero (first : bool)    (* a (0, nil) read: io.ErrUnexpectedEOF when read == 0, io.EOF otherwise *)
| RPanic                  (* slice bounds out of range *)
| RFuel.                  (* model ran out of fuel (excluded by recv_terminates) *)
Arguments RMsg {M}. Arguments RErr {M}. Arguments RTooBig {M}. Arguments RZero {M}.
Arguments RPanic {M}. Arguments RFuel {M}.

(** What one [Recv] call did: its result, the transport afterwards, the capacity the
    buffer was asked to have (the real capacity may be rounded up by the allocator),
    and the trace of Read calls as pairs (len(p), n). *)
Record rres (M : Type) := mkRes {
  r_out : rout M;
  r_tr : tr;
  r_cap : Z;
  r_trace : list (Z * Z)
}.
Arguments mkRes {M}. Arguments r_out {M}. Arguments r_tr {M}. Arguments r_cap {M}. Arguments r_trace {M}.

(** [make([]byte, 512)] *)
Definition buf0 : Z := 512.

(** [slices.Grow(buf, need-cap(buf))] with [len(buf) = 512]: the capacity becomes at
    least [len(buf) + (need - cap(buf))] (and never shrinks). *)
Definition grow_cap (cap need : Z) : Z := Z.max cap (buf0 + (need - cap)).

(** The local variables of [Recv] at the top of the [for] loop. [l_buf] holds the bytes of
    [buf[:read]]; [l_trace] is a ghost: the Read calls made so far. *)
Record lstate := mkL {
  l_tr : tr;
  l_buf : list Z;
  l_read : Z;
  l_need : Z;
  l_cap : Z;
  l_trace : list (Z * Z)
}.

Section Recv.
  Variable M : Type.
  Variable unmarshal : list Z -> res M.   (* UnmarshalTTLV, verified elsewhere (C01-C03) *)
  Variable W : Z.                         (* bits of Go's int *)
  Variable max : Z.                       (* Stream.max *)

  Inductive step_res :=
  | Done (r : rres M)        (* a return statement was reached *)
  | Continue (s : lstate).   (* next iteration *)

  (** One iteration of the [for] loop of [Stream.Recv]. *)
  Definition recv_step (s : lstate) : step_res :=
    let t := l_tr s in
    let read := l_read s in
    let need := l_need s in
    let trace := l_trace s in
    (* if need > cap(buf) { buf = slices.Grow(buf, need-cap(buf)) } *)
    let cap := if need >? l_cap s then grow_cap (l_cap s) need else l_cap s in
    (* buf[read:need] *)
    if (read <? 0) || (read >? need) || (need >? cap) then Done (mkRes RPanic t cap trace) else
    (* n, err := s.inner.Read(buf[read:need]) *)
    let '(chunk, err, t') := tr_read t (need - read) in
    let n := len chunk in
    let trace := trace ++ [(need - read, n)] in
    if n =? 0 then
      (* if n == 0 { if err != nil {return err}; if read == 0 {return io.ErrUnexpectedEOF}; return io.EOF } *)
      match err with
      | Some e => Done (mkRes (RErr e) t' cap trace)
      | None => Done (mkRes (RZero (read =? 0)) t' cap trace)
      end
    else
      let buf := take read (l_buf s) ++ chunk in
      (* read += n *)
      let read := read + n in
      (* need = computeNeededBytes(buf[:read]) *)
      let need := needed_bytes W (take read buf) in
      (* if need < 0 { return Errorf(...) }; if s.max > 0 && need > s.max { return Errorf(...) } *)
      if (need <? 0) || ((0 <? max) && (need >? max)) then Done (mkRes RTooBig t' cap trace) else
      (* if read >= need { return UnmarshalTTLV(buf[:need], msg) } *)
      if need <=? read then
        if (need <? 0) || (need >? cap) then Done (mkRes RPanic t' cap trace)
        else Done (mkRes (RMsg (unmarshal (take need buf))) t' cap trace)
      else
      (* if err != nil { return err } *)
      match err with
      | Some e => Done (mkRes (RErr e) t' cap trace)
      | None => Continue (mkL t' buf read need cap trace)
      end.

  Fixpoint recv_loop (fuel : nat) (s : lstate) : rres M :=
    match fuel with
    | O => mkRes RFuel (l_tr s) (l_cap s) (l_trace s)
    | S fuel' =>
      match recv_step s with
      | Done r => r
      | Continue s' => recv_loop fuel' s'
      end
    end.

  (** [Stream.Recv]: read := 0; buf := make([]byte, 512); need := 8; for {...}.
      Every iteration that does not return uses up one scheduled answer or, once the
      schedule is exhausted, completes the header or drains the stream: the fuel
      suffices (recv_terminates). *)
  Definition recv_init (t : tr) : lstate := mkL t [] 0 8 buf0 [].
  Definition recv (t : tr) : rres M := recv_loop (length (t_sched t) + 3) (recv_init t).

  (** [k] successive [Recv] calls on the same stream. *)
  Fixpoint recv_n (k : nat) (t : tr) : list (rres M) :=
    match k with
    | O => []
    | S k' => let r := recv t in r :: recv_n k' (r_tr r)
    end.
End Recv.

(** Bytes taken from the transport by one [Recv]. *)
Definition consumed {M} (r : rres M) : Z := fold_right (fun p acc => snd p + acc) 0 (r_trace r).

(* ------------------------------------------------------------------ specification vocabulary
   (KMIP 1.4 section 9.1: an item is a 3-byte tag, a type byte, a 4-byte big-endian
   length and the value padded with zero bytes to a multiple of 8).  Written with
   [be]/[pad8] of Base.v, independently of [needed_bytes]. *)

(** [f] occupies exactly one TTLV item on the wire (the value bytes are not constrained). *)
Definition is_frame (f : list Z) : Prop :=
  exists tag ty l body,
    f = tag ++ [ty] ++ be 4 l ++ body /\ length tag = 3%nat /\ 0 <= l < 2 ^ 32 /\ len body = l + pad8 l.

(** [p] is the beginning of an item that is cut before its end. *)
Definition is_cut_frame (p : list Z) : Prop :=
  exists f q, is_frame f /\ f = p ++ q /\ q <> [].

(** [h] is an 8-byte item header announcing [total] bytes for the whole item. *)
Definition is_header (h : list Z) (total : Z) : Prop :=
  exists tag ty l, h = tag ++ [ty] ++ be 4 l /\ length tag = 3%nat /\ 0 <= l < 2 ^ 32 /\ total = 8 + l + pad8 l.

(** The schedule makes progress and reports no error before the stream is drained:
    any chunk sizes, the end error possibly together with the last bytes. *)
Fixpoint faithful (s : list ans) : Prop :=
  match s with
  | [] => True
  | Chunk k _ :: s' => 1 <= k /\ faithful s'
  | Fault _ _ :: _ => False
  end.

(** The Read calls of one [Recv] on a stream whose first item announces [N] bytes in all:
    each call asks for exactly what is missing of the header (while fewer than 8 bytes
    have been received) or of the item (afterwards), never for nothing, and is given at
    most that. [c] = bytes received before the call. *)
Fixpoint trace_ok (N c : Z) (tr : list (Z * Z)) : Prop :=
  match tr with
  | [] => True
  | (w, n) :: r => w = (if c <? 8 then 8 else N) - c /\ 0 < w /\ 0 <= n <= w /\ trace_ok N (c + n) r
  end.

(** What the transport still holds after each message of [frames ++ tail] has been received. *)
Fixpoint tails (frames : list (list Z)) (tail : list Z) : list (list Z) :=
  match frames with
  | [] => []
  | _ :: fs => (concat fs ++ tail) :: tails fs tail
  end.

(** The transport after the last of a series of [Recv] calls. *)
Definition last_tr {M} (t : tr) (rs : list (rres M)) : tr := last (map r_tr rs) t.
