(** Dispatch tables (C06): decidable consistency of the tables regenerated from the library
    (every registered payload type reports the operation it is registered under, every object
    type reports its own code) and their pinned copies. *)
From Coq Require Import ZArith List Bool String.
From KV Require Import Base Wire Schema.
Import ListNotations.
Open Scope Z_scope.

Definition assoc_s (l : list (string * Z)) (k : string) : option Z :=
  match find (fun e => String.eqb (fst e) k) l with Some e => Some (snd e) | None => None end.

(** every (op, (req, resp)) entry: new(req).Operation() = op and new(resp).Operation() = op *)
Definition ops_consistent (ops : op_table) (payload_ops : list (string * Z)) : bool :=
  forallb (fun e =>
    match assoc_s payload_ops (fst (snd e)), assoc_s payload_ops (snd (snd e)) with
    | Some a, Some b => (a =? fst e) && (b =? fst e)
    | _, _ => false
    end) ops.

Definition objs_consistent (objs : obj_table) (obj_types : list (string * Z)) : bool :=
  forallb (fun e => match assoc_s obj_types (snd e) with Some a => a =? fst e | None => false end) objs.

(** keys are pairwise distinct (a code denotes one type) *)
Fixpoint nodup_z (l : list Z) : bool :=
  match l with [] => true | x :: r => negb (existsb (Z.eqb x) r) && nodup_z r end.
