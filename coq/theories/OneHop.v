(** C18, typed inputs: re-encoding ANY accepted input reaches the fixed point after one hop.

    For every input the typed decoder accepts (not only what this library's encoder wrote),
    the decoded value [v] is encodable (no panic, no error), its normal form [v1 = norm v]
    (Normalize.v) is encoded as exactly the same items, and [v1] conforms (Roundtrip.conf_ty) -
    hence, by the struct-level round trip (RoundtripCustoms.rt_all), decoding these items in
    any faithful format returns [v1] and re-encoding [v1] gives the same items again.
    Binary instance: the items are in range ([item_ok], derived from the well-formedness of
    the input bytes), so they are laid out in TTLV and read back by the binary reader. *)
From Coq Require Import ZArith List Bool String Lia PeanoNat.
From KV Require Import Base BaseProofs Wire WireProofs Cursor CursorProofs BinCursorProofs Schema SchemaSem SchemaSemEq FaithfulProofs
  Roundtrip RoundtripEq RoundtripProofs RoundtripCustoms FixpointProofs Normalize NormalizeEq DecConfDefs NormProofs DecConfLib DecConfProofs
  DecConfCustoms.
Import ListNotations.
Open Scope Z_scope.

(** a format whose raw elements are not constrained: every format is "ranged" for it *)
Lemma ranged_trivial {R} (F : rawfmt R) : fmt_ranged F (fun _ => false).
Proof. constructor; intros; discriminate. Qed.

(** the binary reader: validate() bounds tags and widths, the parsers return values of the
    TTLV type they read *)
Lemma bin_ranged : fmt_ranged bin_fmt relem_wf.
Proof.
  assert (Hparts : forall tag ty raw kids kb, relem_wf (RE tag ty raw kids kb) = true ->
            (0 <=? tag) && (tag <? 2 ^ 24) = true /\ bytes_ok raw = true /\ bin_width_ok ty (len raw) = true /\ forallb relem_wf kids = true).
  { intros tag ty raw kids kb H. cbn [relem_wf] in H. rewrite !andb_true_iff in H.
    destruct H as ((((((H0 & H1) & _) & _) & Hraw) & Hwid) & Hk). rewrite H0, H1. auto. }
  constructor.
  - intros tag ty raw kids kb H. apply (Hparts _ _ _ _ _ H).
  - intros tag ty raw kids kb H. apply (Hparts _ _ _ _ _ H).
  - intros tag raw kids kb v H Hp. cbn [p_int bin_fmt] in Hp. injection Hp as <-. apply to_i32_range.
  - intros tag raw kids kb v H Hp. cbn [p_long bin_fmt] in Hp. injection Hp as <-. apply to_i64_range.
  - intros rt tag raw kids kb v H Hp. cbn [p_enum bin_fmt] in Hp. injection Hp as <-.
    destruct (Hparts _ _ _ _ _ H) as (_ & Hraw & Hwid & _). apply unbe4_u32; [exact Hraw|].
    unfold bin_width_ok, T_INT, T_ENUM, T_INTV in Hwid. cbn in Hwid. apply Z.eqb_eq. exact Hwid.
  - intros tag raw kids kb v H Hp. cbn [p_text bin_fmt] in Hp. injection Hp as <-. apply (Hparts _ _ _ _ _ H).
  - intros tag raw kids kb v H Hp. cbn [p_bytes bin_fmt] in Hp. injection Hp as <-. apply (Hparts _ _ _ _ _ H).
  - intros tag raw kids kb v H Hp. cbn [p_date bin_fmt] in Hp. injection Hp as <-. apply to_i64_range.
  - intros tag raw kids kb v H Hp. cbn [p_intv bin_fmt] in Hp. injection Hp as <-.
    destruct (Hparts _ _ _ _ _ H) as (_ & Hraw & Hwid & _). apply unbe4_u32; [exact Hraw|].
    unfold bin_width_ok, T_INT, T_ENUM, T_INTV in Hwid. cbn in Hwid. apply Z.eqb_eq. exact Hwid.
  - intros rt tag raw kids kb v H Hp. cbn [p_mask bin_fmt] in Hp. injection Hp as <-. apply to_i32_range.
Qed.

(** an item in range is never a negative interval: the writer does not panic *)
Lemma item_ok_no_panic i : item_ok i = true -> enc_panics i = false.
Proof.
  induction i as [tag kids IH|tag v|tag v|tag v|tag r v|tag b|tag s|tag s|tag v|tag v|tag r v] using item_ind'; intros Hok; try reflexivity.
  - cbn [enc_panics]. cbn [item_ok] in Hok. apply andb_true_iff in Hok. destruct Hok as [_ Hk].
    induction IH as [|k ks Hk' _ IHks]; [reflexivity|]. cbn [forallb] in Hk. apply andb_true_iff in Hk. destruct Hk as [H1 H2].
    cbn [existsb]. rewrite (Hk' H1), (IHks H2). reflexivity.
  - cbn [enc_panics]. cbn [item_ok] in Hok. apply andb_true_iff in Hok. destruct Hok as [_ Hv]. apply in_u32_range in Hv.
    destruct (Z.ltb_spec v 0); [lia | reflexivity].
Qed.

Lemma items_ok_no_panic l : forallb item_ok l = true -> existsb enc_panics l = false.
Proof.
  induction l as [|i l IH]; [reflexivity|]. cbn [forallb existsb]. intros H. apply andb_true_iff in H. destruct H as [H1 H2].
  rewrite (item_ok_no_panic i H1), (IH H2). reflexivity.
Qed.

Section OneHop.
  Variable S : schema.
  Variables (OPS : op_table) (ATTRS : attr_table) (OBJS : obj_table).
  Hypothesis HS : schema_ok S OPS ATTRS OBJS = true.
  Hypothesis HE : enc_schema_ok S = true.

  (** ANY reader format.  [eok] is the well-formedness the format's reader guarantees of its
      raw elements (take [fun _ => false] to drop the range conclusion). *)
  Theorem decoded_one_hop_ranged {R} (F : rawfmt R) (eok : relem R -> bool) : fmt_ranged F eok ->
    forall fd st t tag (c : cur R) v c' st',
      ty_ok S t tag = true ->
      dec_ty S OPS ATTRS OBJS F fd st t tag c = Ok (v, c', st') ->
      exists items v1 fe,
        (forall g, (fe <= g)%nat ->
           enc_ty S g st t tag v = Ok (items, st') /\          (* the decoded value is encodable *)
           norm_ty S g st t v = (v1, st') /\                   (* v1 is its normal form *)
           enc_ty S g st t tag v1 = Ok (items, st') /\         (* written as exactly the same items *)
           conf_ty S OPS ATTRS OBJS g st t tag v1 = Some st')  (* and conforming: a fixed point *)
        /\ (c_ok eok c -> c_ok eok c' /\ forallb item_ok items = true).
  Proof.
    intros HR fd st t tag c v c' st' Hok H.
    destruct (dec_all S OPS ATTRS OBJS F eok HR HS fd) as (Dt & _ & _).
    destruct (Dt _ _ _ _ _ _ _ Hok H) as (items & (v1 & fe & Hg) & Hr).
    exists items, v1, fe. split; [|exact Hr]. intros g Hge. destruct (Hg g Hge) as (H1 & H2 & H3).
    split; [exact H1|]. split; [exact H2|]. split; [|exact H3].
    destruct (enc_norm S HE _ _ _ _ _ _ _ H1) as [_ H4]. rewrite H2 in H4. exact H4.
  Qed.

  (** the statement of the task: for every accepted input there is a conforming value with the
      same encoding as the decoded one *)
  Theorem decoded_one_hop {R} (F : rawfmt R) :
    forall fd st t tag (c : cur R) v c' st',
      ty_ok S t tag = true ->
      dec_ty S OPS ATTRS OBJS F fd st t tag c = Ok (v, c', st') ->
      exists fe items st1 v1 fc sc,
        enc_ty S fe st t tag v  = Ok (items, st1) /\
        enc_ty S fe st t tag v1 = Ok (items, st1) /\
        conf_ty S OPS ATTRS OBJS fc st t tag v1 = Some sc.
  Proof.
    intros fd st t tag c v c' st' Hok H.
    destruct (decoded_one_hop_ranged F _ (ranged_trivial F) _ _ _ _ _ _ _ _ Hok H) as (items & v1 & fe & Hg & _).
    destruct (Hg fe (Nat.le_refl fe)) as (H1 & _ & H3 & H4).
    exists fe, items, st', v1, fe, st'. auto.
  Qed.

  (** ... and that value is the fixed point: read from ANY faithful layout of these items, in any
      format, the decoder returns it, consuming everything, and it re-encodes to the same items *)
  Theorem decoded_fixed_point {R} (F : rawfmt R) {R2} (F2 : rawfmt R2) :
    forall fd st t tag (c : cur R) v c' st',
      ty_ok S t tag = true -> lookahead t = false ->
      dec_ty S OPS ATTRS OBJS F fd st t tag c = Ok (v, c', st') ->
      exists fe items v1,
        enc_ty S fe st t tag v = Ok (items, st') /\ enc_ty S fe st t tag v1 = Ok (items, st') /\
        forall (es : list (relem R2)) fd2, faithful F2 items es -> (fe + 2 * items_size items + 2 <= fd2)%nat ->
          dec_ty S OPS ATTRS OBJS F2 fd2 st t tag (es, false) = Ok (v1, ([], false), st').
  Proof.
    intros fd st t tag c v c' st' Hok Hla H.
    destruct (decoded_one_hop_ranged F _ (ranged_trivial F) _ _ _ _ _ _ _ _ Hok H) as (items & v1 & fe & Hg & _).
    destruct (Hg fe (Nat.le_refl fe)) as (H1 & _ & H3 & H4).
    exists fe, items, v1. split; [exact H1|]. split; [exact H3|].
    intros es fd2 Hf Hfd. destruct (rt_all S OPS ATTRS OBJS F2 fe) as (Pt & _ & _).
    destruct (Pt _ _ _ _ _ _ _ _ H3 H4) as (_ & _ & _ & _ & Hdec).
    specialize (Hdec es [] fd2 Hf). rewrite app_nil_r in Hdec. apply Hdec; [rewrite Hla; discriminate | exact Hfd].
  Qed.

  (** Binary TTLV: for every byte string the typed decoder accepts, the re-encoding E1 of the
      decoded value is defined and in range (never a panic); decoding E1 returns the normal form
      [v1], and [v1] re-encodes to E1.  The size bound [item_small] (every length below 2^32)
      remains a hypothesis. *)
  Theorem bin_one_hop fd st t tag bs c v c' st' :
    bytes_ok bs = true -> bin_cursor bs = Ok c ->
    ty_ok S t tag = true -> lookahead t = false ->
    dec_ty S OPS ATTRS OBJS bin_fmt fd st t tag c = Ok (v, c', st') ->
    exists items v1 fe,
      (forall g, (fe <= g)%nat ->
         enc_ty S g st t tag v = Ok (items, st') /\ enc_ty S g st t tag v1 = Ok (items, st') /\
         conf_ty S OPS ATTRS OBJS g st t tag v1 = Some st') /\
      forallb item_ok items = true /\ existsb enc_panics items = false /\
      (forallb item_small items = true ->
       exists c2, bin_cursor (wire_enc_list items) = Ok c2 /\
         forall fd2, (fe + 2 * items_size items + 2 <= fd2)%nat ->
           dec_ty S OPS ATTRS OBJS bin_fmt fd2 st t tag c2 = Ok (v1, ([], false), st')).
  Proof.
    intros Hb Hcur Hok Hla H.
    destruct (decoded_one_hop_ranged bin_fmt relem_wf bin_ranged _ _ _ _ _ _ _ _ Hok H) as (items & v1 & fe & Hg & Hr).
    assert (Hwf : c_ok relem_wf c).
    { unfold bin_cursor in Hcur. eapply c_open_wf; [exact Hcur | apply bin_forest_wf, Hb]. }
    destruct (Hr Hwf) as [_ Hio].
    exists items, v1, fe. split; [intros g Hge; destruct (Hg g Hge) as (H1 & _ & H3 & H4); auto|].
    split; [exact Hio|]. split; [apply items_ok_no_panic, Hio|].
    intros Hsm. destruct (Hg fe (Nat.le_refl fe)) as (_ & _ & H3 & H4).
    destruct (bin_faithful items Hio Hsm) as (forest & Hc2 & Hf).
    exists (forest, false). split; [exact Hc2|]. intros fd2 Hfd.
    destruct (rt_all S OPS ATTRS OBJS bin_fmt fe) as (Pt & _ & _).
    destruct (Pt _ _ _ _ _ _ _ _ H3 H4) as (_ & _ & _ & _ & Hdec).
    specialize (Hdec forest [] fd2 Hf). rewrite app_nil_r in Hdec. apply Hdec; [rewrite Hla; discriminate | exact Hfd].
  Qed.
End OneHop.
