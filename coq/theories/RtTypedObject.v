(** Round trip of payloads.GetResponsePayload, payloads.RegisterRequestPayload and
    payloads.ExportResponsePayload (payloads/get.go, register.go, import_export.go): reflective
    encoder, hand-written decoder reading the required fields one after the other and then the
    managed object selected by the object type read first. *)
From Coq Require Import ZArith List Bool String Lia PeanoNat.
From KV Require Import Base BaseProofs Wire WireProofs Cursor CursorProofs Schema SchemaSem SchemaSemEq FaithfulProofs
  Roundtrip RoundtripEq RoundtripProofs RtCustomLib RtObject.
Import ListNotations.
Open Scope Z_scope.

Lemma split_last {A} (dflt : A) n : forall l, List.length l = Datatypes.S n -> l = (firstn n l ++ [nth n l dflt])%list.
Proof.
  induction n as [|n IH]; intros [|x l] H; try discriminate.
  - destruct l; [reflexivity | discriminate].
  - cbn [firstn nth app]. f_equal. apply IH. cbn [List.length] in H. lia.
Qed.

Section TO.
  Variable S : schema.
  Variables (OPS : op_table) (ATTRS : attr_table) (OBJS : obj_table).
  Context {R : Type}.
  Variable F : rawfmt R.

  Local Notation enc_ty := (enc_ty S).
  Local Notation enc_fields := (enc_fields S).
  Local Notation dec_ty := (dec_ty S OPS ATTRS OBJS F).
  Local Notation dec_object := (dec_object S OPS ATTRS OBJS F).
  Local Notation conf_ty := (conf_ty S OPS ATTRS OBJS).
  Local Notation Q := (Q S OPS ATTRS OBJS F).
  Local Notation RT_concl := (RT_concl S OPS ATTRS OBJS F).

  (** a hand-written decoder reading the fields [fl] one after the other with [dty], every
      element under the same version state: the values read and the cursor reached *)
  Fixpoint req_chain (dty : vstate -> ty -> Z -> cur R -> res (value * cur R * vstate)) (st : vstate)
      (fl : list field) (vl : list value) (c c' : cur R) : Prop :=
    match fl, vl with
    | [], [] => c = c'
    | fd :: fl', x :: vl' => exists c1, dty st (f_ty fd) (f_tag fd) c = Ok (x, c1, st) /\ req_chain dty st fl' vl' c1 c'
    | _, _ => False
    end.

  (** a run of required fields at the head of a reflectively encoded structure *)
  Lemma required_rt fl : forall g fc st vl fl2 vl2 items st',
    Q g -> conf_required (conf_ty fc) st fl vl = true ->
    enc_fields g st (fl ++ fl2) (vl ++ vl2) = Ok (items, st') ->
    List.length vl = List.length fl /\
    exists a b, items = (a ++ b)%list /\ enc_fields (g - List.length fl) st fl2 vl2 = Ok (b, st') /\
      (a = [] \/ exists fd, In fd fl /\ hd_tag a = f_tag fd) /\
      forall (es rest : list (relem R)) fd, faithful F a es ->
        (forall fd', In fd' fl -> lookahead (f_ty fd') = true -> c_tag (rest, false) <> f_tag fd') ->
        (g + 2 * items_size a + 2 <= fd)%nat ->
        req_chain (dec_ty fd) st fl vl (es ++ rest, false) (rest, false).
  Proof.
    induction fl as [|fd fl IH]; intros g fc st vl fl2 vl2 items st' HQ Hc He.
    - destruct vl; [|discriminate]. split; [reflexivity|]. exists [], items. cbn [app List.length] in *. rewrite Nat.sub_0_r.
      split; [reflexivity|]. split; [exact He|]. split; [left; reflexivity|].
      intros es rest fd0 Hf _ _. apply faithful_nil_inv in Hf. subst es. reflexivity.
    - destruct vl as [|x vl]; [discriminate|]. cbn [conf_required] in Hc.
      rewrite !andb_true_iff in Hc. destruct Hc as ((((Hpos & Hom) & Hdist) & Hk) & Hc).
      destruct (pos_field_facts fd Hpos) as (Ht0 & Hsv & Hr). apply negb_true_iff in Hom. apply keeps_some in Hk.
      destruct g as [|g1]; [discriminate|]. cbn [app] in He. rewrite enc_fields_eq in He. cbv zeta in He.
      rewrite Ht0, Hsv, Hr, Hom, version_in_none in He. cbn [negb andb] in He.
      destruct (enc_ty g1 st (f_ty fd) (f_tag fd) x) as [[a1 s1]| | |] eqn:Ea; cbn [bind fst snd] in He; try discriminate.
      destruct (enc_fields g1 s1 (fl ++ fl2) (vl ++ vl2)) as [[b1 sb]| | |] eqn:Eb; cbn [bind fst snd] in He; try discriminate.
      injection He as <- <-.
      destruct (Q_ty S OPS ATTRS OBJS F _ g1 HQ ltac:(lia) _ _ _ _ _ _ _ _ Ea Hk) as (<- & Hta & _ & _ & Hdec).
      assert (HQ1 : Q g1) by (intros g' Hg'; apply HQ; lia).
      destruct (IH g1 fc st vl fl2 vl2 b1 sb HQ1 Hc Eb) as (Hlen & a' & b & -> & Eb2 & Hhd & Hchain).
      split; [cbn [List.length]; congruence|].
      exists (a1 ++ a')%list, b. split; [apply app_assoc|]. split; [exact Eb2|].
      split.
      { destruct a1 as [|i a1'].
        - destruct Hhd as [->|(g & Hg & Hgt)]; [left; reflexivity | right; exists g; split; [right; exact Hg | exact Hgt]].
        - right. exists fd. split; [left; reflexivity|]. cbn [app hd_tag]. inversion Hta; assumption. }
      intros es rest fd0 Hf Hnext Hfd. apply faithful_app_inv in Hf. destruct Hf as (ea & ea' & -> & Hfa & Hfa').
      rewrite items_size_app in Hfd. rewrite <- app_assoc. cbn [req_chain].
      exists (ea' ++ rest, false). split.
      + apply Hdec; [exact Hfa | | lia].
        intros Hl. rewrite Hl in Hdist.
        destruct Hhd as [->|(g & Hg & Hgt)].
        * apply faithful_nil_inv in Hfa'. subst ea'. cbn [app]. apply Hnext; [left; reflexivity | exact Hl].
        * destruct a' as [|i a''].
          { apply faithful_nil_inv in Hfa'. subst ea'. cbn [app]. apply Hnext; [left; reflexivity | exact Hl]. }
          apply faithful_cons_inv in Hfa'. destruct Hfa' as (e & el & -> & He1 & _). cbn [app].
          rewrite (faithful1_tag F _ _ _ _ He1). cbn [hd_tag] in Hgt. rewrite Hgt.
          apply (forallb_neq_tag fl (f_tag fd) Hdist g Hg).
      + apply Hchain; [exact Hfa' | | lia].
        intros fd' Hin. apply Hnext. right. exact Hin.
  Qed.

  (** the three payloads at once: [nreq] required fields, then the object *)
  Lemma typed_object_rt f nreq : Q f -> forall fc st d tag fs items st' sc,
    find_tdef S (t_name d) = Some d ->
    String.eqb (t_name d) "ttlv.Value" = false -> String.eqb (t_name d) "ttlv.Struct" = false ->
    enc_ty (Datatypes.S f) st (TNamed (t_name d)) tag (VStruct (t_name d) fs) = Ok (items, st') ->
    conf_typed_object S OBJS (conf_ty fc) nreq st d tag fs = Some sc ->
    sc = st' /\ st' = st /\ exists kids vl ot obj, items = [IStruct tag kids] /\
      fs = (vl ++ [obj])%list /\ List.length vl = nreq /\ hd VNil vl = VInt ot /\
      List.length (t_fields d) = Datatypes.S nreq /\
      forall (eks : list (relem R)) fd, faithful F kids eks -> (f + 2 * items_size kids + 2 <= fd)%nat ->
        exists c1, req_chain (dec_ty fd) st (firstn nreq (t_fields d)) vl (eks, false) c1 /\
                   dec_object fd st ot c1 = Ok (obj, ([], false), st).
  Proof.
    intros HQ fc st d tag fs items st' sc Ed EV ES He Hc.
    unfold conf_typed_object in Hc. cbv zeta in Hc.
    destruct (firstn nreq fs) as [|v0 vl0] eqn:Efs; [discriminate|].
    destruct v0 as [ot| | | | | | | | |]; try discriminate.
    destruct (skipn nreq fs) as [|obj [|? ?]] eqn:Esk; try discriminate.
    match type of Hc with (if ?c then _ else _) = _ => destruct c eqn:Hcond; [|discriminate] end.
    injection Hc as <-.
    rewrite !andb_true_iff in Hcond.
    destruct Hcond as (((((((Hce & Hlen) & Hot0) & Hoty) & _) & Hreq) & Hdist) & Hobj).
    apply negb_true_iff in Hce. apply Nat.eqb_eq in Hlen.
    set (fl := firstn nreq (t_fields d)) in *. set (ofd := nth_field d nreq) in *.
    assert (Hsplit : t_fields d = (fl ++ [ofd])%list) by (apply split_last; exact Hlen).
    assert (Hfs : fs = ((VInt ot :: vl0) ++ [obj])%list) by (rewrite <- Efs, <- Esk; symmetry; apply firstn_skipn).
    rewrite enc_ty_eq, EV, ES, Ed, Hce in He.
    destruct (enc_fields f st (t_fields d) fs) as [[kids s2]| | |] eqn:Ef; cbn [bind fst snd] in He; try discriminate.
    injection He as <- <-.
    rewrite Hsplit, Hfs in Ef.
    destruct (required_rt fl f fc st (VInt ot :: vl0) [ofd] [obj] kids s2 HQ Hreq Ef) as (Hlv & a & b & -> & Eb & _ & Hchain).
    assert (Hfl : List.length fl = nreq).
    { unfold fl. rewrite firstn_length, Hlen. lia. }
    destruct (f - List.length fl)%nat as [|g2] eqn:Eg; [discriminate|].
    rewrite enc_fields_eq, Hot0 in Eb.
    match type of Eb with (do _ <- ?m ;; _) = _ => destruct m as [[io so]| | |] eqn:Eo; cbn [bind fst snd] in Eb; try discriminate end.
    destruct g2 as [|g3]; [discriminate|]. rewrite enc_fields_eq in Eb. cbn [bind fst snd] in Eb. injection Eb as <- <-.
    assert (HQ2 : Q (Datatypes.S g3)) by (intros g' Hg'; apply HQ; lia).
    destruct (object_rt S OPS ATTRS OBJS F _ fc st ot obj io so HQ2 Eo Hobj) as (-> & Htg0 & i & -> & Hi & Hdo).
    split; [reflexivity|]. split; [reflexivity|].
    exists (a ++ [i] ++ [])%list, (VInt ot :: vl0), ot, obj.
    split; [reflexivity|]. split; [exact Hfs|]. split; [congruence|]. split; [reflexivity|]. split; [exact Hlen|].
    intros eks fd Hf Hfd. cbn [app] in Hf, Hfd. apply faithful_app_inv in Hf. destruct Hf as (ea & eo & -> & Hfa & Hfo).
    apply faithful_one_inv in Hfo. destruct Hfo as (e & -> & He1).
    rewrite items_size_app, items_size_cons in Hfd.
    exists ([e], false). split.
    - apply Hchain; [exact Hfa | | lia].
      intros fd' Hin _. rewrite (faithful1_tag F _ _ _ _ He1), Hi.
      intros E. exact (forallb_neq_tag fl (object_tag S obj) Hdist fd' Hin (eq_sym E)).
    - apply Hdo; [exact He1 | lia].
  Qed.

  (** the common part of the three round-trip proofs: everything but the decoder body *)
  Lemma typed_object_concl f nreq : Q f -> forall fc st d tag fs items st' sc,
    find_tdef S (t_name d) = Some d -> t_custom_dec d = true ->
    String.eqb (t_name d) "ttlv.Value" = false -> String.eqb (t_name d) "ttlv.Struct" = false ->
    enc_ty (Datatypes.S f) st (TNamed (t_name d)) tag (VStruct (t_name d) fs) = Ok (items, st') ->
    conf_typed_object S OBJS (conf_ty fc) nreq st d tag fs = Some sc ->
    (forall fd vl ot obj (eks : list (relem R)) c1 raw rest,
       fs = (vl ++ [obj])%list -> List.length vl = nreq -> hd VNil vl = VInt ot ->
       List.length (t_fields d) = Datatypes.S nreq ->
       req_chain (dec_ty fd) st (firstn nreq (t_fields d)) vl (eks, false) c1 ->
       dec_object fd st ot c1 = Ok (obj, ([], false), st) ->
       dec_custom_of S OPS ATTRS F (dec_ty fd) (dec_opt S OPS ATTRS OBJS F fd) (dec_object fd) (dec_fields F fd) st d tag
         (RE tag T_STRUCT raw eks false :: rest, false) = Ok (VStruct (t_name d) fs, (rest, false), st)) ->
    RT_concl (Datatypes.S f) st (TNamed (t_name d)) tag (VStruct (t_name d) fs) items st' sc.
  Proof.
    intros HQ fc st d tag fs items st' sc Ed Hcd EV ES He Hc Hbody.
    destruct (typed_object_rt f nreq HQ fc st d tag fs items st' sc Ed EV ES He Hc)
      as (-> & -> & kids & vl & ot & obj & -> & Hfs & Hlv & Hhd & Hlen & Hdec).
    split; [reflexivity|]. split; [constructor; [reflexivity | constructor]|]. split; [eauto|]. split; [intros; discriminate|].
    intros es rest fd Hf _ Hfd. apply faithful_one_inv in Hf. destruct Hf as (e & -> & He1).
    inversion He1 as [tag0 kids0 raw eks Hk| | | | | | | | | |]; subst tag0 kids0 e.
    unfold items_size at 1 in Hfd. cbn [fold_right] in Hfd. rewrite item_size_struct in Hfd.
    destruct fd as [|fd1]; [lia|]. cbn [app].
    rewrite (dec_ty_custom S OPS ATTRS OBJS F fd1 st d tag _ Ed Hcd EV ES).
    destruct (Hdec eks fd1 Hk ltac:(lia)) as (c1 & Hch & Hob).
    exact (Hbody fd1 vl ot obj eks c1 raw rest Hfs Hlv Hhd Hlen Hch Hob).
  Qed.

  (** comparisons of string literals, computed *)
  Ltac str_eqb :=
    repeat match goal with
    | |- context [String.eqb ?a ?b] =>
      let r := eval vm_compute in (String.eqb a b) in change (String.eqb a b) with r
    end.

  Lemma rt_get_response f : Q f -> forall fc st d tag fs items st' sc,
    find_tdef S (t_name d) = Some d -> t_custom_dec d = true ->
    t_name d = "payloads.GetResponsePayload"%string ->
    enc_ty (Datatypes.S f) st (TNamed (t_name d)) tag (VStruct (t_name d) fs) = Ok (items, st') ->
    conf_typed_object S OBJS (conf_ty fc) 2 st d tag fs = Some sc ->
    RT_concl (Datatypes.S f) st (TNamed (t_name d)) tag (VStruct (t_name d) fs) items st' sc.
  Proof.
    intros HQ fc st d tag fs items st' sc Ed Hcd Hname He Hc.
    assert (EV : String.eqb (t_name d) "ttlv.Value" = false) by (rewrite Hname; reflexivity).
    assert (ES : String.eqb (t_name d) "ttlv.Struct" = false) by (rewrite Hname; reflexivity).
    apply (typed_object_concl f 2 HQ fc st d tag fs items st' sc Ed Hcd EV ES He Hc).
    intros fd vl ot obj eks c1 raw rest Hfs Hlv Hhd Hlen Hch Hob.
    destruct vl as [|v0 [|v1 [|? ?]]]; try discriminate. cbn [hd] in Hhd. subst v0 fs.
    destruct (t_fields d) as [|f0 [|f1 [|f2 [|? ?]]]] eqn:Et; try discriminate.
    cbn [firstn req_chain] in Hch. destruct Hch as (c2 & H0 & c3 & H1 & <-).
    unfold dec_custom_of. rewrite Hname. str_eqb. cbv iota.
    unfold dec_get_response, fty, ftag, nth_field. rewrite Hname, Et. cbn [nth app].
    apply wrap_struct_ok with (l := []).
    rewrite H0. cbn [bind fst snd int_of]. rewrite H1. cbn [bind fst snd]. rewrite Hob. reflexivity.
  Qed.

  Lemma rt_register_request f : Q f -> forall fc st d tag fs items st' sc,
    find_tdef S (t_name d) = Some d -> t_custom_dec d = true ->
    t_name d = "payloads.RegisterRequestPayload"%string ->
    enc_ty (Datatypes.S f) st (TNamed (t_name d)) tag (VStruct (t_name d) fs) = Ok (items, st') ->
    conf_typed_object S OBJS (conf_ty fc) 2 st d tag fs = Some sc ->
    RT_concl (Datatypes.S f) st (TNamed (t_name d)) tag (VStruct (t_name d) fs) items st' sc.
  Proof.
    intros HQ fc st d tag fs items st' sc Ed Hcd Hname He Hc.
    assert (EV : String.eqb (t_name d) "ttlv.Value" = false) by (rewrite Hname; reflexivity).
    assert (ES : String.eqb (t_name d) "ttlv.Struct" = false) by (rewrite Hname; reflexivity).
    apply (typed_object_concl f 2 HQ fc st d tag fs items st' sc Ed Hcd EV ES He Hc).
    intros fd vl ot obj eks c1 raw rest Hfs Hlv Hhd Hlen Hch Hob.
    destruct vl as [|v0 [|v1 [|? ?]]]; try discriminate. cbn [hd] in Hhd. subst v0 fs.
    destruct (t_fields d) as [|f0 [|f1 [|f2 [|? ?]]]] eqn:Et; try discriminate.
    cbn [firstn req_chain] in Hch. destruct Hch as (c2 & H0 & c3 & H1 & <-).
    unfold dec_custom_of. rewrite Hname. str_eqb. cbv iota.
    unfold dec_register_request, fty, ftag, nth_field. rewrite Hname, Et. cbn [nth app].
    apply wrap_struct_ok with (l := []).
    rewrite H0. cbn [bind fst snd int_of]. rewrite H1. cbn [bind fst snd]. rewrite Hob. reflexivity.
  Qed.

  Lemma rt_export_response f : Q f -> forall fc st d tag fs items st' sc,
    find_tdef S (t_name d) = Some d -> t_custom_dec d = true ->
    t_name d = "payloads.ExportResponsePayload"%string ->
    enc_ty (Datatypes.S f) st (TNamed (t_name d)) tag (VStruct (t_name d) fs) = Ok (items, st') ->
    conf_typed_object S OBJS (conf_ty fc) 3 st d tag fs = Some sc ->
    RT_concl (Datatypes.S f) st (TNamed (t_name d)) tag (VStruct (t_name d) fs) items st' sc.
  Proof.
    intros HQ fc st d tag fs items st' sc Ed Hcd Hname He Hc.
    assert (EV : String.eqb (t_name d) "ttlv.Value" = false) by (rewrite Hname; reflexivity).
    assert (ES : String.eqb (t_name d) "ttlv.Struct" = false) by (rewrite Hname; reflexivity).
    apply (typed_object_concl f 3 HQ fc st d tag fs items st' sc Ed Hcd EV ES He Hc).
    intros fd vl ot obj eks c1 raw rest Hfs Hlv Hhd Hlen Hch Hob.
    destruct vl as [|v0 [|v1 [|v2 [|? ?]]]]; try discriminate. cbn [hd] in Hhd. subst v0 fs.
    destruct (t_fields d) as [|f0 [|f1 [|f2 [|f3 [|? ?]]]]] eqn:Et; try discriminate.
    cbn [firstn req_chain] in Hch. destruct Hch as (c2 & H0 & c3 & H1 & c4 & H2 & <-).
    unfold dec_custom_of. rewrite Hname. str_eqb. cbv iota.
    unfold dec_export_response, fty, ftag, nth_field. rewrite Hname, Et. cbn [nth app].
    apply wrap_struct_ok with (l := []).
    rewrite H0. cbn [bind fst snd int_of]. rewrite H1. cbn [bind fst snd]. rewrite H2. cbn [bind fst snd].
    rewrite Hob. reflexivity.
  Qed.
End TO.

(** Non-vacuity at the real schema (regenerated from /repo): a Get response, a Register request
    and an Export response carrying a Certificate conform, and their binary encoding decodes
    back to them.  (Objects holding a KeyBlock and non-empty attribute lists conform once the
    KeyBlock and Attribute codecs are dispatched in [conf_custom_of]: see the examples kept in
    the comment below.) *)
From KVGen Require Import KmipSchema.
From KV Require Import KmipCodec.

Definition ex_certificate : value :=
  VIface (TPtr (TNamed "kmip.Certificate")) (VPtr (VStruct "kmip.Certificate" [VInt 1; VStr [48; 130; 1; 10]])).

Definition ex_roundtrip (st : vstate) (n : string) (tag : Z) (v : value) : res bool :=
  do r <- enc_ty kmip_schema 40 st (TNamed n) tag v ;;
  do c <- bin_cursor (wire_enc_list (fst r)) ;;
  do d <- dec_ty kmip_schema kmip_ops kmip_attrs kmip_objs bin_fmt 200 st (TNamed n) tag c ;;
  Ok (value_eqb (fst (fst d)) v && match snd (fst d) with ([], false) => true | _ => false end).

Definition ex_get_response : value :=
  VStruct "payloads.GetResponsePayload" [VInt 1; VStr [105; 100; 45; 49]; ex_certificate].
Example rt_get_response_example :
  (exists sc, conf_ty kmip_schema kmip_ops kmip_attrs kmip_objs 40 (Some (1, 4)) (TNamed "payloads.GetResponsePayload") 4325500 ex_get_response = Some sc) /\
  ex_roundtrip (Some (1, 4)) "payloads.GetResponsePayload" 4325500 ex_get_response = Ok true.
Proof. split; [eexists; vm_compute; reflexivity | vm_compute; reflexivity]. Qed.

Definition ex_register_request : value :=
  VStruct "payloads.RegisterRequestPayload"
    [VInt 1; VStruct "kmip.TemplateAttribute" [VList [VStruct "kmip.Name" [VStr [107; 49]; VInt 1]]; VList []]; ex_certificate].
Example rt_register_request_example :
  (exists sc, conf_ty kmip_schema kmip_ops kmip_attrs kmip_objs 40 (Some (1, 4)) (TNamed "payloads.RegisterRequestPayload") 4325497 ex_register_request = Some sc) /\
  ex_roundtrip (Some (1, 4)) "payloads.RegisterRequestPayload" 4325497 ex_register_request = Ok true.
Proof. split; [eexists; vm_compute; reflexivity | vm_compute; reflexivity]. Qed.

Definition ex_export_response : value :=
  VStruct "payloads.ExportResponsePayload" [VInt 1; VStr [105; 100; 45; 49]; VList []; ex_certificate].
Example rt_export_response_example :
  (exists sc, conf_ty kmip_schema kmip_ops kmip_attrs kmip_objs 40 (Some (1, 4)) (TNamed "payloads.ExportResponsePayload") 4325500 ex_export_response = Some sc) /\
  ex_roundtrip (Some (1, 4)) "payloads.ExportResponsePayload" 4325500 ex_export_response = Ok true.
Proof. split; [eexists; vm_compute; reflexivity | vm_compute; reflexivity]. Qed.
