(** Generic cursor: the typed read operations and the generic-tree decoder are total (no
    panic, no fuel exhaustion with the stated fuel) for EVERY raw forest, as soon as the
    format's scalar parsers are; and they read back what a faithful forest mirrors. *)
From Coq Require Import ZArith List Bool Lia.
From KV Require Import Base BaseProofs Wire Cursor.
Import ListNotations.
Open Scope Z_scope.

Section Total.
  Context {R : Type}.
  Variable F : rawfmt R.

  Definition nopanic {A} (r : res A) : Prop := safe_res (fun _ => True) r.

  Record fmt_total : Prop := {
    t_int : forall raw, nopanic (p_int F raw);
    t_long : forall raw, nopanic (p_long F raw);
    t_big : forall raw, nopanic (p_big F raw);
    t_enum : forall a b raw, nopanic (p_enum F a b raw);
    t_bool : forall raw, nopanic (p_bool F raw);
    t_text : forall raw, nopanic (p_text F raw);
    t_bytes : forall raw, nopanic (p_bytes F raw);
    t_date : forall raw, nopanic (p_date F raw);
    t_intv : forall raw, nopanic (p_intv F raw);
    t_mask : forall a b raw, nopanic (p_mask F a b raw);
  }.
  Hypothesis HF : fmt_total.

  Definition csize (c : cur R) : nat := forest_size (fst c).

  Lemma forest_size_cons (e : relem R) l : forest_size (e :: l) = (relem_size e + forest_size l)%nat.
  Proof. reflexivity. Qed.
  Lemma relem_size_pos (e : relem R) : (1 <= relem_size e)%nat.
  Proof. destruct e. cbn [relem_size]. lia. Qed.
  Lemma relem_size_kids t y raw (kids : list (relem R)) kb : relem_size (RE t y raw kids kb) = S (forest_size kids).
  Proof. reflexivity. Qed.

  Lemma c_open_safe items bad : safe_res (fun c => csize c = forest_size items) (c_open items bad).
  Proof. destruct items; cbn [c_open]; [destruct bad; cbn; auto | cbn; reflexivity]. Qed.

  Lemma c_next_safe c : safe_res (fun c' => (csize c' < csize c)%nat) (c_next c).
  Proof.
    destruct c as [[|e rest] bad]; cbn [c_next fst snd]; [exact I|].
    pose proof (c_open_safe rest bad) as H. destruct (c_open rest bad); cbn [safe_res] in *; try assumption.
    unfold csize in *. cbn [fst]. rewrite forest_size_cons. pose proof (relem_size_pos e). lia.
  Qed.

  Lemma c_scalar_safe {A} ty (parse : R -> res A) tag c :
    (forall raw, nopanic (parse raw)) ->
    safe_res (fun p => (csize (snd p) < csize c)%nat) (c_scalar ty parse tag c).
  Proof.
    intros Hp. unfold c_scalar, c_expect. destruct c as [[|e rest] bad]; cbn [fst snd bind]; [exact I|].
    destruct e as [t y raw kids kb]. destruct (negb (t =? tag)); [exact I|]. destruct (negb (y =? ty)); [exact I|].
    cbn [bind]. eapply safe_bind; [apply Hp|]. intros v _.
    eapply safe_bind; [apply (c_next_safe (RE t y raw kids kb :: rest, bad))|]. intros c' Hc'. exact Hc'.
  Qed.

  Lemma c_struct_safe {A} tag (f : cur R -> res (A * cur R)) c :
    (forall sub, (csize sub < csize c)%nat -> nopanic (f sub)) ->
    safe_res (fun p => (csize (snd p) < csize c)%nat) (c_struct F tag f c).
  Proof.
    intros Hf. unfold c_struct, c_expect. destruct c as [[|e rest] bad]; cbn [fst snd bind]; [exact I|].
    destruct e as [t y raw kids kb]. destruct (negb (t =? tag)); [exact I|]. destruct (negb (y =? T_STRUCT)); [exact I|].
    cbn [bind]. eapply safe_bind; [apply c_open_safe|]. intros sub Hsub.
    eapply safe_bind with (P := fun _ => True).
    - apply Hf. unfold csize in *. rewrite Hsub. cbn [fst]. rewrite forest_size_cons, relem_size_kids. lia.
    - intros r _. destruct (strict_close F && snd (snd r)); [exact I|].
      eapply safe_bind; [apply (c_next_safe (RE t y raw kids kb :: rest, bad))|]. intros c' Hc'. exact Hc'.
  Qed.

  (** fuel: twice the number of raw elements suffices *)
  Lemma dec_value_total fuel :
    (forall tag c, (1 <= fuel)%nat -> (2 * csize c <= fuel)%nat ->
       safe_res (fun p => (csize (snd p) < csize c)%nat) (dec_value F fuel tag c)) /\
    (forall c, (2 * csize c + 1 <= fuel)%nat ->
       safe_res (fun p => (csize (snd p) <= csize c)%nat) (dec_fields F fuel c)).
  Proof.
    induction fuel as [|f [IHv IHf]]; [split; intros; lia|].
    assert (Hsc : forall A B (ty : Z) (parse : R -> res A) (mk : A -> B) tag c,
      (forall raw, nopanic (parse raw)) ->
      safe_res (fun p : B * cur R => (csize (snd p) < csize c)%nat)
        (do r <- c_scalar ty parse tag c ;; Ok (mk (fst r), snd r))).
    { intros A B ty parse mk tag c Hp. eapply safe_bind; [apply c_scalar_safe, Hp|]. intros r Hr. exact Hr. }
    split.
    - intros tag c _ Hsz. cbn [dec_value].
      unfold c_integer, c_long, c_big, c_enum, c_bool, c_text, c_bytes, c_date, c_intv, c_mask.
      repeat match goal with |- safe_res _ (if ?b then _ else _) => destruct b end;
        try (apply Hsc; apply HF); try exact I.
      eapply safe_bind; [|intros r Hr; exact Hr].
      apply c_struct_safe. intros sub Hsub.
      assert (Hf' : (2 * csize sub + 1 <= f)%nat) by lia.
      pose proof (IHf sub Hf') as H. unfold nopanic.
      exact (safe_res_impl _ _ _ (fun _ _ => I) H).
    - intros c Hsz. cbn [dec_fields]. destruct (c_tag c =? 0) eqn:Etag; [cbn [safe_res snd]; lia|].
      destruct (Nat.eq_dec (csize c) 0) as [E0|Hne].
      + (* empty cursor: tag 0, handled above unless tag is non-zero on an empty list: impossible *)
        destruct c as [[|e rest] bad]; [|unfold csize in E0; cbn [fst] in E0; rewrite forest_size_cons in E0; pose proof (relem_size_pos e); lia].
        (* c_tag ([],_) = 0 contradicts the branch *) 
        cbn [c_tag fst] in Etag. discriminate.
      + assert (H1 : (1 <= f)%nat) by lia. assert (H2 : (2 * csize c <= f)%nat) by lia.
        pose proof (IHv (c_tag c) c H1 H2) as Hv.
        eapply safe_bind; [exact Hv|]. intros r Hr. cbv beta in Hr.
        assert (H3 : (2 * csize (snd r) + 1 <= f)%nat) by lia.
        eapply safe_bind; [exact (IHf (snd r) H3)|]. intros rs Hrs. cbn [safe_res snd]. cbv beta in Hrs. lia.
  Qed.

End Total.
