From Coq Require Import ZArith List Bool Lia.
From KV Require Import Base RegModel.
Import ListNotations.
Open Scope Z_scope.
