(** Proofs about RegModel.v: soundness of the registry checkers, lexical lemmas, and the
    text round trips of tags, enumeration values and bit masks, generic in the registry. *)
From Coq Require Import ZArith List Bool Lia Arith.
From KV Require Import Base RegModel.
Import ListNotations.
Open Scope Z_scope.

(* ------------------------------------------------------------------ *)
(** * Strings and association lists *)

Lemma str_eqb_eq : forall a b, str_eqb a b = true <-> a = b.
Proof.
  induction a as [|x a IH]; intros [|y b]; cbn [str_eqb]; split; intros H; try congruence; try discriminate.
  - apply andb_true_iff in H. destruct H as [H1 H2]. apply Z.eqb_eq in H1. apply IH in H2. congruence.
  - inversion H; subst. rewrite Z.eqb_refl. cbn. apply IH. reflexivity.
Qed.

Lemma str_eqb_refl : forall a, str_eqb a a = true.
Proof. intros a. apply str_eqb_eq. reflexivity. Qed.

Lemma str_eqb_neq : forall a b, str_eqb a b = false <-> a <> b.
Proof.
  intros a b. split; intros H.
  - intros E. apply str_eqb_eq in E. congruence.
  - destruct (str_eqb a b) eqn:E; [apply str_eqb_eq in E; contradiction | reflexivity].
Qed.

Lemma zfind_In : forall A (l : list (Z * A)) k v, zfind k l = Some v -> In (k, v) l.
Proof.
  induction l as [|[k' a] l IH]; intros k v H; cbn [zfind] in H; [discriminate|].
  destruct (k' =? k) eqn:E.
  - apply Z.eqb_eq in E. inversion H; subst. left. reflexivity.
  - right. apply IH. exact H.
Qed.

Lemma sfind_In : forall A (l : list (str * A)) k v, sfind k l = Some v -> In (k, v) l.
Proof.
  induction l as [|[k' a] l IH]; intros k v H; cbn [sfind] in H; [discriminate|].
  destruct (str_eqb k' k) eqn:E.
  - apply str_eqb_eq in E. inversion H; subst. left. reflexivity.
  - right. apply IH. exact H.
Qed.

Lemma existsb_zeqb_false : forall x l, existsb (Z.eqb x) l = false -> ~ In x l.
Proof.
  intros x l H HI. assert (existsb (Z.eqb x) l = true) as E.
  { apply existsb_exists. exists x. split; [exact HI | apply Z.eqb_refl]. }
  congruence.
Qed.

Lemma existsb_seqb_false : forall x l, existsb (str_eqb x) l = false -> ~ In x l.
Proof.
  intros x l H HI. assert (existsb (str_eqb x) l = true) as E.
  { apply existsb_exists. exists x. split; [exact HI | apply str_eqb_refl]. }
  congruence.
Qed.

(** with unique keys, membership determines the lookup *)
Lemma zfind_nodup : forall A (l : list (Z * A)) k v,
  znodup (map fst l) = true -> In (k, v) l -> zfind k l = Some v.
Proof.
  induction l as [|[k' a] l IH]; intros k v ND HI; [contradiction|].
  cbn [map fst znodup] in ND. apply andb_true_iff in ND. destruct ND as [N1 N2].
  cbn [zfind]. destruct HI as [HI|HI].
  - inversion HI; subst. rewrite Z.eqb_refl. reflexivity.
  - destruct (k' =? k) eqn:E.
    + apply Z.eqb_eq in E. subst k'. apply negb_true_iff in N1. apply existsb_zeqb_false in N1.
      exfalso. apply N1. apply in_map_iff. exists (k, v). split; [reflexivity | exact HI].
    + apply IH; assumption.
Qed.

Lemma sfind_nodup : forall A (l : list (str * A)) k v,
  snodup (map fst l) = true -> In (k, v) l -> sfind k l = Some v.
Proof.
  induction l as [|[k' a] l IH]; intros k v ND HI; [contradiction|].
  cbn [map fst snodup] in ND. apply andb_true_iff in ND. destruct ND as [N1 N2].
  cbn [sfind]. destruct HI as [HI|HI].
  - inversion HI; subst. rewrite str_eqb_refl. reflexivity.
  - destruct (str_eqb k' k) eqn:E.
    + apply str_eqb_eq in E. subst k'. apply negb_true_iff in N1. apply existsb_seqb_false in N1.
      exfalso. apply N1. apply in_map_iff. exists (k, v). split; [reflexivity | exact HI].
    + apply IH; assumption.
Qed.

(* ------------------------------------------------------------------ *)
(** * Soundness of [bij_check] *)

Lemma bij_check_fwd : forall f g n s,
  bij_check f g = true -> zfind n f = Some s -> sfind s g = Some n.
Proof.
  intros f g n s H Hf. unfold bij_check in H.
  repeat (apply andb_true_iff in H; destruct H as [H ?]).
  apply zfind_In in Hf.
  match goal with H1 : forallb _ f = true |- _ => rewrite forallb_forall in H1; specialize (H1 _ Hf); cbn [fst snd] in H1 end.
  destruct (sfind s g) as [n'|]; [|discriminate].
  match goal with H1 : (n' =? n) = true |- _ => apply Z.eqb_eq in H1; subst; reflexivity end.
Qed.

Lemma bij_check_bwd : forall f g n s,
  bij_check f g = true -> sfind s g = Some n -> zfind n f = Some s.
Proof.
  intros f g n s H Hg. unfold bij_check in H.
  repeat (apply andb_true_iff in H; destruct H as [H ?]).
  apply sfind_In in Hg.
  match goal with H1 : forallb _ g = true |- _ => rewrite forallb_forall in H1; specialize (H1 _ Hg); cbn [fst snd] in H1 end.
  destruct (zfind n f) as [s'|]; [|discriminate].
  match goal with H1 : str_eqb s' s = true |- _ => apply str_eqb_eq in H1; subst; reflexivity end.
Qed.

Theorem bij_check_sound : forall f g,
  bij_check f g = true -> forall n s, zfind n f = Some s <-> sfind s g = Some n.
Proof. intros f g H n s. split; [apply bij_check_fwd | apply bij_check_bwd]; exact H. Qed.

Lemma bij_check_keys : forall f g, bij_check f g = true -> znodup (map fst f) = true /\ snodup (map fst g) = true.
Proof.
  intros f g H. unfold bij_check in H.
  repeat (apply andb_true_iff in H; destruct H as [H ?]). split; assumption.
Qed.

(** two numbers never share a name, two names never share a number *)
Corollary bij_check_injective : forall f g, bij_check f g = true ->
  (forall n n' s, zfind n f = Some s -> zfind n' f = Some s -> n = n') /\
  (forall s s' n, sfind s g = Some n -> sfind s' g = Some n -> s = s').
Proof.
  intros f g H. split.
  - intros n n' s H1 H2. apply (bij_check_fwd _ _ _ _ H) in H1. apply (bij_check_fwd _ _ _ _ H) in H2. congruence.
  - intros s s' n H1 H2. apply (bij_check_bwd _ _ _ _ H) in H1. apply (bij_check_bwd _ _ _ _ H) in H2. congruence.
Qed.

(* ------------------------------------------------------------------ *)
(** * Name hygiene *)

Lemma name_ok_nonempty : forall s, name_ok s = true -> s <> [].
Proof. intros [|c s] H; [discriminate | discriminate]. Qed.

Lemma name_ok_head : forall c s, name_ok (c :: s) = true -> is_letter c = true.
Proof. intros c s H. cbn [name_ok] in H. apply andb_true_iff in H. tauto. Qed.

Lemma name_ok_chars : forall s c, name_ok s = true -> In c s -> name_char c = true.
Proof.
  intros [|x s] c H HI; [contradiction|]. cbn [name_ok] in H. apply andb_true_iff in H.
  destruct H as [_ H]. rewrite forallb_forall in H. apply H. exact HI.
Qed.

Lemma is_letter_range : forall c, is_letter c = true -> (65 <= c <= 90) \/ (97 <= c <= 122).
Proof. intros c H. unfold is_letter in H. lia. Qed.

Lemma name_char_range : forall c, name_char c = true ->
  (65 <= c <= 90) \/ (97 <= c <= 122) \/ (48 <= c <= 57) \/ c = 95.
Proof. intros c H. unfold name_char, is_letter, is_digit in H. lia. Qed.

Lemma name_char_not_space : forall c, name_char c = true -> is_space c = false.
Proof. intros c H. apply name_char_range in H. unfold is_space. lia. Qed.

Lemma name_char_not_bar : forall c, name_char c = true -> is_bar c = false.
Proof. intros c H. apply name_char_range in H. unfold is_bar. lia. Qed.

Lemma name_ok_no_0x : forall s, name_ok s = true -> has_prefix s_0x s = false /\ has_prefix s_0X s = false.
Proof.
  intros [|c s] H; [discriminate|]. apply name_ok_head in H. apply is_letter_range in H.
  unfold s_0x, s_0X. cbn [has_prefix].
  assert ((48 =? c) = false) as -> by lia. cbn. split; reflexivity.
Qed.

Lemma letter_not_digit : forall c, is_letter c = true -> forall base, base <= 16 ->
  match digit_val c with Some d => d <? base | None => false end = true -> 10 <= base.
Proof.
  intros c H base Hb. apply is_letter_range in H. unfold digit_val.
  destruct ((48 <=? c) && (c <=? 57)) eqn:E1; [lia|].
  destruct ((97 <=? c) && (c <=? 122)) eqn:E2; [lia|].
  destruct ((65 <=? c) && (c <=? 90)) eqn:E3; [lia|]. discriminate.
Qed.

(** a name never parses as a decimal number, signed or not *)
Lemma name_ok_not_decimal : forall s bits, name_ok s = true ->
  parse_uint 10 bits s = None /\ parse_int 10 bits s = None.
Proof.
  intros [|c s] bits H; [discriminate|]. apply name_ok_head in H. apply is_letter_range in H.
  assert (digit_val c = None \/ exists d, digit_val c = Some d /\ 10 <= d) as Hd.
  { unfold digit_val.
    destruct ((48 <=? c) && (c <=? 57)) eqn:E1; [lia|].
    destruct ((97 <=? c) && (c <=? 122)) eqn:E2; [right; eexists; split; [reflexivity|lia]|].
    destruct ((65 <=? c) && (c <=? 90)) eqn:E3; [right; eexists; split; [reflexivity|lia]|]. left. reflexivity. }
  assert (parse_digits 10 (c :: s) 0 = None) as HP.
  { cbn [parse_digits]. destruct Hd as [-> | [d [-> Hd]]]; [reflexivity|].
    assert ((d <? 10) = false) as -> by lia. reflexivity. }
  split.
  - unfold parse_uint. rewrite HP. reflexivity.
  - unfold parse_int. assert ((c =? 43) = false) as -> by lia. assert ((c =? 45) = false) as -> by lia.
    cbn [orb]. rewrite HP. reflexivity.
Qed.

Lemma name_ok_no_space : forall s, name_ok s = true -> forallb (fun c => negb (is_space c)) s = true.
Proof.
  intros s H. apply forallb_forall. intros c HI. rewrite (name_char_not_space c); [reflexivity|].
  eapply name_ok_chars; eauto.
Qed.

Lemma name_ok_no_bar : forall s, name_ok s = true -> forallb (fun c => negb (is_bar c)) s = true.
Proof.
  intros s H. apply forallb_forall. intros c HI. rewrite (name_char_not_bar c); [reflexivity|].
  eapply name_ok_chars; eauto.
Qed.

(* ------------------------------------------------------------------ *)
(** * Hexadecimal printing and parsing *)

Lemma hexdigit_val : forall d, 0 <= d < 16 -> digit_val (hexdigit d) = Some d.
Proof.
  intros d H. unfold hexdigit, digit_val. destruct (d <? 10) eqn:E.
  - assert ((48 <=? 48 + d) && (48 + d <=? 57) = true) as -> by lia. f_equal. lia.
  - assert ((48 <=? 55 + d) && (55 + d <=? 57) = false) as -> by lia.
    assert ((97 <=? 55 + d) && (55 + d <=? 122) = false) as -> by lia.
    assert ((65 <=? 55 + d) && (55 + d <=? 90) = true) as -> by lia. f_equal. lia.
Qed.

Lemma hexdigit_not_sign : forall d, 0 <= d < 16 -> hexdigit d <> 43 /\ hexdigit d <> 45.
Proof. intros d H. unfold hexdigit. destruct (d <? 10) eqn:E; lia. Qed.

Lemma parse_digits_hexN : forall n v acc, 0 <= v ->
  parse_digits 16 (hexN n v) acc = Some (acc * 16 ^ Z.of_nat n + v mod 16 ^ Z.of_nat n).
Proof.
  induction n as [|n IH]; intros v acc Hv.
  - cbn [hexN parse_digits]. change (16 ^ Z.of_nat 0) with 1. rewrite Z.mod_1_r. f_equal. lia.
  - cbn [hexN parse_digits].
    assert (0 < 16 ^ Z.of_nat n) as Hp by (apply Z.pow_pos_nonneg; lia).
    assert (0 <= (v / 16 ^ Z.of_nat n) mod 16 < 16) as Hd by (apply Z.mod_pos_bound; lia).
    rewrite (hexdigit_val _ Hd).
    assert (((v / 16 ^ Z.of_nat n) mod 16 <? 16) = true) as -> by lia.
    rewrite IH by exact Hv. f_equal.
    rewrite Nat2Z.inj_succ, Z.pow_succ_r by lia.
    rewrite (Z.mul_comm 16 (16 ^ Z.of_nat n)).
    rewrite (Z.rem_mul_r v (16 ^ Z.of_nat n) 16) by lia. ring.
Qed.

Lemma hexN_length : forall n v, length (hexN n v) = n.
Proof. induction n; intros v; cbn [hexN length]; [reflexivity | f_equal; apply IHn]. Qed.

Lemma parse_hexN_small : forall n v, 0 <= v < 16 ^ Z.of_nat n ->
  parse_digits 16 (hexN n v) 0 = Some v.
Proof.
  intros n v H. rewrite parse_digits_hexN by lia. rewrite Z.mod_small by lia. f_equal.
Qed.

Lemma has_prefix_app : forall p s, has_prefix p (p ++ s) = true.
Proof. induction p as [|a p IH]; intros s; cbn [has_prefix app]; [reflexivity|]. rewrite Z.eqb_refl. apply IH. Qed.

Lemma skipn_0x : forall s, skipn 2 (s_0x ++ s) = s.
Proof. reflexivity. Qed.

(** "0x%08X" of a uint32 is read back by ParseUint(.., 16, 32) *)
Lemma parse_fmt_0x08X : forall v, 0 <= v < 2 ^ 32 ->
  has_prefix s_0x (fmt_0x08X v) = true /\ parse_uint 16 32 (skipn 2 (fmt_0x08X v)) = Some v.
Proof.
  intros v H. unfold fmt_0x08X. split; [apply has_prefix_app|]. rewrite skipn_0x.
  assert (to_u32 v = v) as -> by (unfold to_u32; apply Z.mod_small; exact H).
  unfold parse_uint. rewrite parse_hexN_small by (change (16 ^ Z.of_nat 8) with (2 ^ 32); exact H).
  cbn [hexN]. assert ((v <? 2 ^ 32) = true) as -> by lia. reflexivity.
Qed.

Lemma hex_width_bound : forall u, 0 <= u -> u < 16 ^ Z.of_nat (hex_width u).
Proof.
  intros u H. unfold hex_width. destruct (u <=? 0) eqn:E.
  - assert (u = 0) by lia. subst. reflexivity.
  - assert (0 < u) as Hp by lia.
    pose proof (Z.log2_nonneg u) as Hl.
    assert (0 <= Z.log2 u / 4) as Hq by (apply Z.div_pos; lia).
    rewrite Z2Nat.id by lia.
    replace 16 with (2 ^ 4) by reflexivity. rewrite <- Z.pow_mul_r; [|lia|lia].
    apply Z.log2_lt_pow2; [exact Hp|].
    pose proof (Z.div_mod (Z.log2 u) 4 ltac:(lia)) as Hdm.
    pose proof (Z.mod_pos_bound (Z.log2 u) 4 ltac:(lia)). lia.
Qed.

Lemma hexN_head : forall n v, (0 < n)%nat -> exists d r, 0 <= d < 16 /\ hexN n v = hexdigit d :: r.
Proof.
  intros [|n] v H; [lia|]. cbn [hexN]. eexists. eexists. split; [|reflexivity].
  apply Z.mod_pos_bound. lia.
Qed.

(** "0x%06X" of a tag in the int32 range is read back by ParseInt(.., 16, 32) *)
Lemma parse_fmt_0x06X : forall n, 0 <= n < 2 ^ 31 ->
  has_prefix s_0x (fmt_0x06X n) = true /\ parse_int 16 32 (skipn 2 (fmt_0x06X n)) = Some n /\ fmt_0x06X n <> [].
Proof.
  intros n H. unfold fmt_0x06X. split; [apply has_prefix_app|]. split; [|discriminate]. rewrite skipn_0x.
  assert (to_u64 n = n) as -> by (unfold to_u64; apply Z.mod_small; lia).
  set (w := Nat.max 6 (hex_width n)).
  assert (n < 16 ^ Z.of_nat w) as Hw.
  { pose proof (hex_width_bound n ltac:(lia)) as Hb.
    eapply Z.lt_le_trans; [exact Hb|]. apply Z.pow_le_mono_r; [lia|]. unfold w. lia. }
  destruct (hexN_head w n ltac:(unfold w; lia)) as [d [r [Hd Hr]]].
  unfold parse_int. pose proof (parse_hexN_small w n ltac:(lia)) as HP. rewrite Hr in *.
  destruct (hexdigit_not_sign d Hd) as [N1 N2].
  assert ((hexdigit d =? 43) = false) as -> by lia. assert ((hexdigit d =? 45) = false) as -> by lia.
  cbn [orb]. rewrite HP. assert ((n <? 2 ^ (32 - 1)) = true) as -> by (change (2 ^ (32 - 1)) with (2 ^ 31); lia).
  reflexivity.
Qed.

(* ------------------------------------------------------------------ *)
(** * What [registry_ok] contains *)

Record registry_facts (R : registry) : Prop := {
  rf_tags : bij_check (tagNames R) (tagByName R) = true;
  rf_tag_names : names_check (tagNames R) = true;
  rf_no_ttlv : existsb (fun p => str_eqb (snd p) s_TTLV) (tagNames R) = false;
  rf_enums : scoped_bij_check (enumNames R) (enumsByName R) = true;
  rf_enum_names : forallb (fun p => names_check (snd p) && in_u32_all (snd p)) (enumNames R) = true;
  rf_masks : masks_check (bitmaskNames R) (bitmaskByName R) = true;
  rf_types : bij_check (typesName R) (nameTypes R) = true;
  rf_type_names : names_check (typesName R) = true
}.

Lemma registry_ok_facts : forall R, registry_ok R = true -> registry_facts R.
Proof.
  intros R H. unfold registry_ok in H.
  do 7 (apply andb_true_iff in H; destruct H as [H ?]).
  constructor; try assumption.
  match goal with H1 : negb _ = true |- _ => apply negb_true_iff in H1; exact H1 end.
Qed.

Lemma names_check_In : forall f n s, names_check f = true -> In (n, s) f -> name_ok s = true.
Proof.
  intros f n s H HI. unfold names_check in H. rewrite forallb_forall in H. apply (H (n, s)). exact HI.
Qed.

(* ------------------------------------------------------------------ *)
(** * Tags *)

Section Tags.
  Variable R : registry.
  Hypothesis ROK : registry_ok R = true.
  Let F := registry_ok_facts R ROK.

  (** a registered tag: its canonical name has all the lexical properties, and denotes it *)
  Lemma tag_registered : forall n s, zfind n (tagNames R) = Some s ->
    name_ok s = true /\ s <> s_TTLV /\ sfind s (tagByName R) = Some n.
  Proof.
    intros n s H. pose proof (zfind_In _ _ _ _ H) as HI. split; [|split].
    - eapply names_check_In; [apply (rf_tag_names R F) | exact HI].
    - intros E. pose proof (rf_no_ttlv R F) as N.
      assert (existsb (fun p => str_eqb (snd p) s_TTLV) (tagNames R) = true) as T.
      { apply existsb_exists. exists (n, s). split; [exact HI|]. cbn [snd]. rewrite E. apply str_eqb_refl. }
      congruence.
    - eapply bij_check_fwd; [apply (rf_tags R F) | exact H].
  Qed.

  Lemma tags_bij : forall n s, zfind n (tagNames R) = Some s <-> sfind s (tagByName R) = Some n.
  Proof. apply bij_check_sound. apply (rf_tags R F). Qed.

  Lemma tags_bij_go : forall n s, s <> [] -> (getTagName R n = s <-> getTagByName R s = Some n).
  Proof.
    intros n s Hs. unfold getTagName, getTagByName. rewrite <- tags_bij. split.
    - destruct (zfind n (tagNames R)); intros E; congruence.
    - intros ->. reflexivity.
  Qed.

  Lemma read_tag_hex : forall n, 0 <= n < 2 ^ 31 -> read_tag R (fmt_0x06X n) = n.
  Proof.
    intros n H. destruct (parse_fmt_0x06X n H) as [H1 [H2 H3]]. unfold read_tag.
    destruct (fmt_0x06X n) as [|c r] eqn:E; [congruence|]. rewrite H1, H2. reflexivity.
  Qed.

  Lemma read_tag_name : forall n s, zfind n (tagNames R) = Some s -> read_tag R s = n.
  Proof.
    intros n s H. destruct (tag_registered n s H) as [H1 [H2 H3]].
    destruct (name_ok_no_0x s H1) as [P1 _]. unfold read_tag.
    destruct s as [|c r]; [discriminate|]. rewrite P1. unfold getTagByName. rewrite H3. reflexivity.
  Qed.

  Theorem tag_text_rt : forall n, 0 <= n < 2 ^ 31 ->
    read_tag R (xml_raw_tag (xml_start R n)) = n /\ read_tag R (TagString R n) = n.
  Proof.
    intros n H. unfold xml_start, TagString, getTagName.
    destruct (zfind n (tagNames R)) as [s|] eqn:E.
    - destruct (tag_registered n s E) as [H1 [H2 H3]]. split; [|apply read_tag_name; exact E].
      destruct s as [|c r]; [discriminate|]. unfold xml_raw_tag. cbn [fst snd].
      assert (str_eqb (c :: r) s_TTLV = false) as -> by (apply str_eqb_neq; exact H2).
      apply read_tag_name. exact E.
    - split; [|apply read_tag_hex; exact H]. unfold xml_raw_tag. cbn [fst snd].
      rewrite str_eqb_refl. apply read_tag_hex. exact H.
  Qed.

  (** what the three writers print for a tag is either its canonical name or the hex form *)
  Lemma TagString_cases : forall n,
    (exists s, zfind n (tagNames R) = Some s /\ TagString R n = s /\ xml_start R n = (s, None)) \/
    (zfind n (tagNames R) = None /\ TagString R n = fmt_0x06X n /\ xml_start R n = (s_TTLV, Some (fmt_0x06X n))).
  Proof.
    intros n. unfold TagString, xml_start, getTagName. destruct (zfind n (tagNames R)) as [s|] eqn:E.
    - left. exists s. destruct (tag_registered n s E) as [H1 _]. destruct s; [discriminate|]. auto.
    - right. auto.
  Qed.
End Tags.

(* ------------------------------------------------------------------ *)
(** * Enumerations *)

Lemma hexdigit_range : forall d, 0 <= d < 16 -> (48 <= hexdigit d <= 57) \/ (65 <= hexdigit d <= 70).
Proof. intros d H. unfold hexdigit. destruct (d <? 10) eqn:E; lia. Qed.

Lemma hexN_chars : forall n v c, In c (hexN n v) -> (48 <= c <= 57) \/ (65 <= c <= 70).
Proof.
  induction n as [|n IH]; intros v c H; cbn [hexN] in H; [contradiction|].
  destruct H as [H|H]; [|eapply IH; exact H]. subst c. apply hexdigit_range. apply Z.mod_pos_bound. lia.
Qed.

Lemma fmt_0x08X_chars : forall v c, In c (fmt_0x08X v) -> c = 48 \/ c = 120 \/ (48 <= c <= 57) \/ (65 <= c <= 70).
Proof.
  intros v c H. unfold fmt_0x08X, s_0x in H. cbn [app] in H. destruct H as [H|[H|H]]; [lia|lia|].
  apply hexN_chars in H. lia.
Qed.

Lemma contains_false : forall c s, (forall x, In x s -> x <> c) -> contains c s = false.
Proof.
  intros c s H. unfold contains. destruct (existsb (Z.eqb c) s) eqn:E; [|reflexivity].
  apply existsb_exists in E. destruct E as [x [HI HE]]. apply Z.eqb_eq in HE. subst. exfalso. eapply H; eauto.
Qed.

Section Enums.
  Variable R : registry.
  Hypothesis ROK : registry_ok R = true.
  Let F := registry_ok_facts R ROK.

  Lemma enum_scope : forall t fl, zfind t (enumNames R) = Some fl ->
    exists gl, zfind t (enumsByName R) = Some gl /\ bij_check fl gl = true /\ names_check fl = true /\ in_u32_all fl = true.
  Proof.
    intros t fl H. pose proof (zfind_In _ _ _ _ H) as HI.
    pose proof (rf_enums R F) as S. unfold scoped_bij_check in S.
    repeat (apply andb_true_iff in S; destruct S as [S ?]).
    match goal with H1 : forallb _ (enumNames R) = true |- _ => rewrite forallb_forall in H1; specialize (H1 _ HI); cbn [fst snd] in H1 end.
    destruct (zfind t (enumsByName R)) as [gl|]; [|discriminate]. exists gl. split; [reflexivity|].
    pose proof (rf_enum_names R F) as N. rewrite forallb_forall in N. specialize (N _ HI). cbn [snd] in N.
    apply andb_true_iff in N. tauto.
  Qed.

  Lemma enum_scope_rev : forall t gl, zfind t (enumsByName R) = Some gl ->
    exists fl, zfind t (enumNames R) = Some fl /\ bij_check fl gl = true.
  Proof.
    intros t gl H. pose proof (zfind_In _ _ _ _ H) as HI.
    pose proof (rf_enums R F) as S. unfold scoped_bij_check in S.
    repeat (apply andb_true_iff in S; destruct S as [S ?]).
    match goal with H1 : forallb _ (enumsByName R) = true |- _ => rewrite forallb_forall in H1; specialize (H1 _ HI); cbn [fst snd] in H1 end.
    destruct (zfind t (enumNames R)) as [fl|] eqn:E; [|discriminate]. exists fl. split; [reflexivity|].
    destruct (enum_scope t fl E) as [gl' [G1 [G2 _]]]. congruence.
  Qed.

  (** a registered enumeration value *)
  Lemma enum_registered : forall t v c s, EnumName R t v = c :: s ->
    name_ok (c :: s) = true /\ EnumByName R t (c :: s) = Some v /\ 0 <= v < 2 ^ 32.
  Proof.
    intros t v c s H. unfold EnumName in H.
    destruct (zfind t (enumNames R)) as [fl|] eqn:E1; [|discriminate].
    destruct (zfind v fl) as [n|] eqn:E2; [|discriminate]. subst n.
    destruct (enum_scope t fl E1) as [gl [G1 [G2 [G3 G4]]]].
    pose proof (zfind_In _ _ _ _ E2) as HI. split; [|split].
    - eapply names_check_In; eauto.
    - unfold EnumByName. rewrite G1. eapply bij_check_fwd; eauto.
    - unfold in_u32_all in G4. rewrite forallb_forall in G4. specialize (G4 _ HI). cbn [fst] in G4.
      unfold in_u32 in G4. lia.
  Qed.

  Lemma enums_bij_go : forall t v s, s <> [] -> (EnumName R t v = s <-> EnumByName R t s = Some v).
  Proof.
    intros t v s Hs. split.
    - intros H. destruct s as [|c s]; [congruence|]. apply enum_registered in H. tauto.
    - intros H. unfold EnumByName in H. destruct (zfind t (enumsByName R)) as [gl|] eqn:E; [|discriminate].
      destruct (enum_scope_rev t gl E) as [fl [G1 G2]]. unfold EnumName. rewrite G1.
      rewrite (bij_check_bwd _ _ _ _ G2 H). reflexivity.
  Qed.

  Lemma read_enum_hex : forall rt t v, 0 <= v < 2 ^ 32 -> read_enum R rt t (fmt_0x08X v) = Ok v.
  Proof.
    intros rt t v H. destruct (parse_fmt_0x08X v H) as [H1 H2]. unfold read_enum. rewrite H1, H2. reflexivity.
  Qed.

  (** XML and text: the string written for an enumeration value is read back as that value,
      whether the value has a name or not *)
  Theorem enum_text_rt : forall et t v, 0 <= v < 2 ^ 32 ->
    read_enum R et t (write_enum R et t v) = Ok v.
  Proof.
    intros et t v H. unfold write_enum. destruct (EnumName R (eff_tag et t) v) as [|c s] eqn:E.
    - apply read_enum_hex. exact H.
    - destruct (enum_registered _ _ _ _ E) as [H1 [H2 _]].
      destruct (name_ok_no_0x _ H1) as [P1 _]. destruct (name_ok_not_decimal _ 32 H1) as [P2 _].
      unfold read_enum. rewrite P1, P2, H2. reflexivity.
  Qed.

  Theorem enum_json_rt : forall et t v, 0 <= v < 2 ^ 32 ->
    read_enum_json R et t (JStr (write_enum R et t v)) = Ok v.
  Proof. intros. cbn [read_enum_json]. apply enum_text_rt. assumption. Qed.

  (** JSON readers also take plain numbers *)
  Lemma enum_json_num : forall et t v, 0 <= v < 2 ^ 32 -> read_enum_json R et t (JNum v) = Ok v.
  Proof.
    intros et t v H. cbn [read_enum_json]. assert ((v >? 4294967295) || (v <? 0) = false) as -> by lia. reflexivity.
  Qed.

  Lemma unmarshal_text_hex : forall t v, 0 <= v < 2 ^ 32 -> unmarshal_text R t (fmt_0x08X v) = Ok v.
  Proof.
    intros t v H. destruct (parse_fmt_0x08X v H) as [H1 H2]. unfold unmarshal_text.
    assert (contains 32 (fmt_0x08X v) = false) as ->.
    { apply contains_false. intros x Hx. apply fmt_0x08X_chars in Hx. lia. }
    rewrite H1. cbn [orb]. rewrite H2. reflexivity.
  Qed.

  (** MarshalText / UnmarshalText of an enumeration type registered under tag [t] *)
  Theorem enum_marshal_rt : forall t v, 0 <= v < 2 ^ 32 ->
    unmarshal_text R t (marshal_text R t v) = Ok v.
  Proof.
    intros t v H. unfold marshal_text. destruct (t =? 0) eqn:Et.
    - destruct (fmt_0x08X v) eqn:E; rewrite <- E; apply unmarshal_text_hex; exact H.
    - destruct (EnumName R t v) as [|c s] eqn:E; [apply unmarshal_text_hex; exact H|].
      destruct (enum_registered _ _ _ _ E) as [H1 [H2 _]].
      destruct (name_ok_no_0x _ H1) as [P1 P1']. destruct (name_ok_not_decimal _ 32 H1) as [P2 _].
      unfold unmarshal_text.
      assert (contains 32 (c :: s) = false) as ->.
      { apply contains_false. intros x Hx. pose proof (name_ok_chars _ _ H1 Hx) as Hc.
        apply name_char_range in Hc. lia. }
      rewrite P1, P1'. cbn [orb]. rewrite P2, H2. reflexivity.
  Qed.
End Enums.
