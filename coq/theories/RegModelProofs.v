(** Proofs about RegModel.v: soundness of the registry checkers, lexical lemmas, and the
    text round trips of tags, enumeration values and bit masks, generic in the registry. *)
From Coq Require Import ZArith List Bool Lia Arith.
From KV Require Import Base RegModel.
Import ListNotations.
Open Scope Z_scope.

(* ------------------------------------------------------------------ *)
(** * Strings and association lists *)

Lemma str_eqb_eq : forall a b, str_eqb a b = true <-> a = b.
Proof.
  induction a as [|x a IH]; intros [|y b]; cbn [str_eqb]; split; intros H; try congruence; try discriminate.
  - apply andb_true_iff in H. destruct H as [H1 H2]. apply Z.eqb_eq in H1. apply IH in H2. congruence.
  - inversion H; subst. rewrite Z.eqb_refl. cbn. apply IH. reflexivity.
Qed.

Lemma str_eqb_refl : forall a, str_eqb a a = true.
Proof. intros a. apply str_eqb_eq. reflexivity. Qed.

Lemma str_eqb_neq : forall a b, str_eqb a b = false <-> a <> b.
Proof.
  intros a b. split; intros H.
  - intros E. apply str_eqb_eq in E. congruence.
  - destruct (str_eqb a b) eqn:E; [apply str_eqb_eq in E; contradiction | reflexivity].
Qed.

Lemma zfind_In : forall A (l : list (Z * A)) k v, zfind k l = Some v -> In (k, v) l.
Proof.
  induction l as [|[k' a] l IH]; intros k v H; cbn [zfind] in H; [discriminate|].
  destruct (k' =? k) eqn:E.
  - apply Z.eqb_eq in E. inversion H; subst. left. reflexivity.
  - right. apply IH. exact H.
Qed.

Lemma sfind_In : forall A (l : list (str * A)) k v, sfind k l = Some v -> In (k, v) l.
Proof.
  induction l as [|[k' a] l IH]; intros k v H; cbn [sfind] in H; [discriminate|].
  destruct (str_eqb k' k) eqn:E.
  - apply str_eqb_eq in E. inversion H; subst. left. reflexivity.
  - right. apply IH. exact H.
Qed.

Lemma existsb_zeqb_false : forall x l, existsb (Z.eqb x) l = false -> ~ In x l.
Proof.
  intros x l H HI. assert (existsb (Z.eqb x) l = true) as E.
  { apply existsb_exists. exists x. split; [exact HI | apply Z.eqb_refl]. }
  congruence.
Qed.

Lemma existsb_seqb_false : forall x l, existsb (str_eqb x) l = false -> ~ In x l.
Proof.
  intros x l H HI. assert (existsb (str_eqb x) l = true) as E.
  { apply existsb_exists. exists x. split; [exact HI | apply str_eqb_refl]. }
  congruence.
Qed.

(** with unique keys, membership determines the lookup *)
Lemma zfind_nodup : forall A (l : list (Z * A)) k v,
  znodup (map fst l) = true -> In (k, v) l -> zfind k l = Some v.
Proof.
  induction l as [|[k' a] l IH]; intros k v ND HI; [contradiction|].
  cbn [map fst znodup] in ND. apply andb_true_iff in ND. destruct ND as [N1 N2].
  cbn [zfind]. destruct HI as [HI|HI].
  - inversion HI; subst. rewrite Z.eqb_refl. reflexivity.
  - destruct (k' =? k) eqn:E.
    + apply Z.eqb_eq in E. subst k'. apply negb_true_iff in N1. apply existsb_zeqb_false in N1.
      exfalso. apply N1. apply in_map_iff. exists (k, v). split; [reflexivity | exact HI].
    + apply IH; assumption.
Qed.

Lemma sfind_nodup : forall A (l : list (str * A)) k v,
  snodup (map fst l) = true -> In (k, v) l -> sfind k l = Some v.
Proof.
  induction l as [|[k' a] l IH]; intros k v ND HI; [contradiction|].
  cbn [map fst snodup] in ND. apply andb_true_iff in ND. destruct ND as [N1 N2].
  cbn [sfind]. destruct HI as [HI|HI].
  - inversion HI; subst. rewrite str_eqb_refl. reflexivity.
  - destruct (str_eqb k' k) eqn:E.
    + apply str_eqb_eq in E. subst k'. apply negb_true_iff in N1. apply existsb_seqb_false in N1.
      exfalso. apply N1. apply in_map_iff. exists (k, v). split; [reflexivity | exact HI].
    + apply IH; assumption.
Qed.

(* ------------------------------------------------------------------ *)
(** * Soundness of [bij_check] *)

Lemma bij_check_fwd : forall f g n s,
  bij_check f g = true -> zfind n f = Some s -> sfind s g = Some n.
Proof.
  intros f g n s H Hf. unfold bij_check in H.
  repeat (apply andb_true_iff in H; destruct H as [H ?]).
  apply zfind_In in Hf.
  match goal with H1 : forallb _ f = true |- _ => rewrite forallb_forall in H1; specialize (H1 _ Hf); cbn [fst snd] in H1 end.
  destruct (sfind s g) as [n'|]; [|discriminate].
  match goal with H1 : (n' =? n) = true |- _ => apply Z.eqb_eq in H1; subst; reflexivity end.
Qed.

Lemma bij_check_bwd : forall f g n s,
  bij_check f g = true -> sfind s g = Some n -> zfind n f = Some s.
Proof.
  intros f g n s H Hg. unfold bij_check in H.
  repeat (apply andb_true_iff in H; destruct H as [H ?]).
  apply sfind_In in Hg.
  match goal with H1 : forallb _ g = true |- _ => rewrite forallb_forall in H1; specialize (H1 _ Hg); cbn [fst snd] in H1 end.
  destruct (zfind n f) as [s'|]; [|discriminate].
  match goal with H1 : str_eqb s' s = true |- _ => apply str_eqb_eq in H1; subst; reflexivity end.
Qed.

Theorem bij_check_sound : forall f g,
  bij_check f g = true -> forall n s, zfind n f = Some s <-> sfind s g = Some n.
Proof. intros f g H n s. split; [apply bij_check_fwd | apply bij_check_bwd]; exact H. Qed.

Lemma bij_check_keys : forall f g, bij_check f g = true -> znodup (map fst f) = true /\ snodup (map fst g) = true.
Proof.
  intros f g H. unfold bij_check in H.
  repeat (apply andb_true_iff in H; destruct H as [H ?]). split; assumption.
Qed.

(** two numbers never share a name, two names never share a number *)
Corollary bij_check_injective : forall f g, bij_check f g = true ->
  (forall n n' s, zfind n f = Some s -> zfind n' f = Some s -> n = n') /\
  (forall s s' n, sfind s g = Some n -> sfind s' g = Some n -> s = s').
Proof.
  intros f g H. split.
  - intros n n' s H1 H2. apply (bij_check_fwd _ _ _ _ H) in H1. apply (bij_check_fwd _ _ _ _ H) in H2. congruence.
  - intros s s' n H1 H2. apply (bij_check_bwd _ _ _ _ H) in H1. apply (bij_check_bwd _ _ _ _ H) in H2. congruence.
Qed.

(* ------------------------------------------------------------------ *)
(** * Name hygiene *)

Lemma name_ok_nonempty : forall s, name_ok s = true -> s <> [].
Proof. intros [|c s] H; [discriminate | discriminate]. Qed.

Lemma name_ok_head : forall c s, name_ok (c :: s) = true -> is_letter c = true.
Proof. intros c s H. cbn [name_ok] in H. apply andb_true_iff in H. tauto. Qed.

Lemma name_ok_chars : forall s c, name_ok s = true -> In c s -> name_char c = true.
Proof.
  intros [|x s] c H HI; [contradiction|]. cbn [name_ok] in H. apply andb_true_iff in H.
  destruct H as [_ H]. rewrite forallb_forall in H. apply H. exact HI.
Qed.

Lemma is_letter_range : forall c, is_letter c = true -> (65 <= c <= 90) \/ (97 <= c <= 122).
Proof. intros c H. unfold is_letter in H. lia. Qed.

Lemma name_char_range : forall c, name_char c = true ->
  (65 <= c <= 90) \/ (97 <= c <= 122) \/ (48 <= c <= 57) \/ c = 95.
Proof. intros c H. unfold name_char, is_letter, is_digit in H. lia. Qed.

Lemma name_char_not_space : forall c, name_char c = true -> is_space c = false.
Proof. intros c H. apply name_char_range in H. unfold is_space. lia. Qed.

Lemma name_char_not_bar : forall c, name_char c = true -> is_bar c = false.
Proof. intros c H. apply name_char_range in H. unfold is_bar. lia. Qed.

Lemma name_ok_no_0x : forall s, name_ok s = true -> has_prefix s_0x s = false /\ has_prefix s_0X s = false.
Proof.
  intros [|c s] H; [discriminate|]. apply name_ok_head in H. apply is_letter_range in H.
  unfold s_0x, s_0X. cbn [has_prefix].
  assert ((48 =? c) = false) as -> by lia. cbn. split; reflexivity.
Qed.

Lemma letter_not_digit : forall c, is_letter c = true -> forall base, base <= 16 ->
  match digit_val c with Some d => d <? base | None => false end = true -> 10 <= base.
Proof.
  intros c H base Hb. apply is_letter_range in H. unfold digit_val.
  destruct ((48 <=? c) && (c <=? 57)) eqn:E1; [lia|].
  destruct ((97 <=? c) && (c <=? 122)) eqn:E2; [lia|].
  destruct ((65 <=? c) && (c <=? 90)) eqn:E3; [lia|]. discriminate.
Qed.

(** a name never parses as a decimal number, signed or not *)
Lemma name_ok_not_decimal : forall s bits, name_ok s = true ->
  parse_uint 10 bits s = None /\ parse_int 10 bits s = None.
Proof.
  intros [|c s] bits H; [discriminate|]. apply name_ok_head in H. apply is_letter_range in H.
  assert (digit_val c = None \/ exists d, digit_val c = Some d /\ 10 <= d) as Hd.
  { unfold digit_val.
    destruct ((48 <=? c) && (c <=? 57)) eqn:E1; [lia|].
    destruct ((97 <=? c) && (c <=? 122)) eqn:E2; [right; eexists; split; [reflexivity|lia]|].
    destruct ((65 <=? c) && (c <=? 90)) eqn:E3; [right; eexists; split; [reflexivity|lia]|]. left. reflexivity. }
  assert (parse_digits 10 (c :: s) 0 = None) as HP.
  { cbn [parse_digits]. destruct Hd as [-> | [d [-> Hd]]]; [reflexivity|].
    assert ((d <? 10) = false) as -> by lia. reflexivity. }
  split.
  - unfold parse_uint. rewrite HP. reflexivity.
  - unfold parse_int. assert ((c =? 43) = false) as -> by lia. assert ((c =? 45) = false) as -> by lia.
    cbn [orb]. rewrite HP. reflexivity.
Qed.

Lemma name_ok_no_space : forall s, name_ok s = true -> forallb (fun c => negb (is_space c)) s = true.
Proof.
  intros s H. apply forallb_forall. intros c HI. rewrite (name_char_not_space c); [reflexivity|].
  eapply name_ok_chars; eauto.
Qed.

Lemma name_ok_no_bar : forall s, name_ok s = true -> forallb (fun c => negb (is_bar c)) s = true.
Proof.
  intros s H. apply forallb_forall. intros c HI. rewrite (name_char_not_bar c); [reflexivity|].
  eapply name_ok_chars; eauto.
Qed.

(* ------------------------------------------------------------------ *)
(** * Hexadecimal printing and parsing *)

Lemma hexdigit_val : forall d, 0 <= d < 16 -> digit_val (hexdigit d) = Some d.
Proof.
  intros d H. unfold hexdigit, digit_val. destruct (d <? 10) eqn:E.
  - assert ((48 <=? 48 + d) && (48 + d <=? 57) = true) as -> by lia. f_equal. lia.
  - assert ((48 <=? 55 + d) && (55 + d <=? 57) = false) as -> by lia.
    assert ((97 <=? 55 + d) && (55 + d <=? 122) = false) as -> by lia.
    assert ((65 <=? 55 + d) && (55 + d <=? 90) = true) as -> by lia. f_equal. lia.
Qed.

Lemma hexdigit_not_sign : forall d, 0 <= d < 16 -> hexdigit d <> 43 /\ hexdigit d <> 45.
Proof. intros d H. unfold hexdigit. destruct (d <? 10) eqn:E; lia. Qed.

Lemma parse_digits_hexN : forall n v acc, 0 <= v ->
  parse_digits 16 (hexN n v) acc = Some (acc * 16 ^ Z.of_nat n + v mod 16 ^ Z.of_nat n).
Proof.
  induction n as [|n IH]; intros v acc Hv.
  - cbn [hexN parse_digits]. change (16 ^ Z.of_nat 0) with 1. rewrite Z.mod_1_r. f_equal. lia.
  - cbn [hexN parse_digits].
    assert (0 < 16 ^ Z.of_nat n) as Hp by (apply Z.pow_pos_nonneg; lia).
    assert (0 <= (v / 16 ^ Z.of_nat n) mod 16 < 16) as Hd by (apply Z.mod_pos_bound; lia).
    rewrite (hexdigit_val _ Hd).
    assert (((v / 16 ^ Z.of_nat n) mod 16 <? 16) = true) as -> by lia.
    rewrite IH by exact Hv. f_equal.
    rewrite Nat2Z.inj_succ, Z.pow_succ_r by lia.
    rewrite (Z.mul_comm 16 (16 ^ Z.of_nat n)).
    rewrite (Z.rem_mul_r v (16 ^ Z.of_nat n) 16) by lia. ring.
Qed.

Lemma hexN_length : forall n v, length (hexN n v) = n.
Proof. induction n; intros v; cbn [hexN length]; [reflexivity | f_equal; apply IHn]. Qed.

Lemma parse_hexN_small : forall n v, 0 <= v < 16 ^ Z.of_nat n ->
  parse_digits 16 (hexN n v) 0 = Some v.
Proof.
  intros n v H. rewrite parse_digits_hexN by lia. rewrite Z.mod_small by lia. f_equal.
Qed.

Lemma has_prefix_app : forall p s, has_prefix p (p ++ s) = true.
Proof. induction p as [|a p IH]; intros s; cbn [has_prefix app]; [reflexivity|]. rewrite Z.eqb_refl. apply IH. Qed.

Lemma skipn_0x : forall s, skipn 2 (s_0x ++ s) = s.
Proof. reflexivity. Qed.

(** "0x%08X" of a uint32 is read back by ParseUint(.., 16, 32) *)
Lemma parse_fmt_0x08X : forall v, 0 <= v < 2 ^ 32 ->
  has_prefix s_0x (fmt_0x08X v) = true /\ parse_uint 16 32 (skipn 2 (fmt_0x08X v)) = Some v.
Proof.
  intros v H. unfold fmt_0x08X. split; [apply has_prefix_app|]. rewrite skipn_0x.
  assert (to_u32 v = v) as -> by (unfold to_u32; apply Z.mod_small; exact H).
  unfold parse_uint. rewrite parse_hexN_small by (change (16 ^ Z.of_nat 8) with (2 ^ 32); exact H).
  cbn [hexN]. assert ((v <? 2 ^ 32) = true) as -> by lia. reflexivity.
Qed.

Lemma hex_width_bound : forall u, 0 <= u -> u < 16 ^ Z.of_nat (hex_width u).
Proof.
  intros u H. unfold hex_width. destruct (u <=? 0) eqn:E.
  - assert (u = 0) by lia. subst. reflexivity.
  - assert (0 < u) as Hp by lia.
    pose proof (Z.log2_nonneg u) as Hl.
    assert (0 <= Z.log2 u / 4) as Hq by (apply Z.div_pos; lia).
    rewrite Z2Nat.id by lia.
    replace 16 with (2 ^ 4) by reflexivity. rewrite <- Z.pow_mul_r; [|lia|lia].
    apply Z.log2_lt_pow2; [exact Hp|].
    pose proof (Z.div_mod (Z.log2 u) 4 ltac:(lia)) as Hdm.
    pose proof (Z.mod_pos_bound (Z.log2 u) 4 ltac:(lia)). lia.
Qed.

Lemma hexN_head : forall n v, (0 < n)%nat -> exists d r, 0 <= d < 16 /\ hexN n v = hexdigit d :: r.
Proof.
  intros [|n] v H; [lia|]. cbn [hexN]. eexists. eexists. split; [|reflexivity].
  apply Z.mod_pos_bound. lia.
Qed.

(** "0x%06X" of a tag in the int32 range is read back by ParseInt(.., 16, 32) *)
Lemma parse_fmt_0x06X : forall n, 0 <= n < 2 ^ 31 ->
  has_prefix s_0x (fmt_0x06X n) = true /\ parse_int 16 32 (skipn 2 (fmt_0x06X n)) = Some n /\ fmt_0x06X n <> [].
Proof.
  intros n H. unfold fmt_0x06X. split; [apply has_prefix_app|]. split; [|discriminate]. rewrite skipn_0x.
  assert (to_u64 n = n) as -> by (unfold to_u64; apply Z.mod_small; lia).
  set (w := Nat.max 6 (hex_width n)).
  assert (n < 16 ^ Z.of_nat w) as Hw.
  { pose proof (hex_width_bound n ltac:(lia)) as Hb.
    eapply Z.lt_le_trans; [exact Hb|]. apply Z.pow_le_mono_r; [lia|]. unfold w. lia. }
  destruct (hexN_head w n ltac:(unfold w; lia)) as [d [r [Hd Hr]]].
  unfold parse_int. pose proof (parse_hexN_small w n ltac:(lia)) as HP. rewrite Hr in *.
  destruct (hexdigit_not_sign d Hd) as [N1 N2].
  assert ((hexdigit d =? 43) = false) as -> by lia. assert ((hexdigit d =? 45) = false) as -> by lia.
  cbn [orb]. rewrite HP. assert ((n <? 2 ^ (32 - 1)) = true) as -> by (change (2 ^ (32 - 1)) with (2 ^ 31); lia).
  reflexivity.
Qed.

(* ------------------------------------------------------------------ *)
(** * What [registry_ok] contains *)

Record registry_facts (R : registry) : Prop := {
  rf_tags : bij_check (tagNames R) (tagByName R) = true;
  rf_tag_names : names_check (tagNames R) = true;
  rf_no_ttlv : existsb (fun p => str_eqb (snd p) s_TTLV) (tagNames R) = false;
  rf_enums : scoped_bij_check (enumNames R) (enumsByName R) = true;
  rf_enum_names : forallb (fun p => names_check (snd p) && in_u32_all (snd p)) (enumNames R) = true;
  rf_masks : masks_check (bitmaskNames R) (bitmaskByName R) = true;
  rf_types : bij_check (typesName R) (nameTypes R) = true;
  rf_type_names : names_check (typesName R) = true;
  rf_tag_range : forallb (fun p => (0 <? fst p) && (fst p <? 16777216)) (tagNames R) = true
}.

Lemma registry_ok_facts : forall R, registry_ok R = true -> registry_facts R.
Proof.
  intros R H. unfold registry_ok in H.
  do 8 (apply andb_true_iff in H; destruct H as [H ?]).
  constructor; try assumption.
  match goal with H1 : negb _ = true |- _ => apply negb_true_iff in H1; exact H1 end.
Qed.

Lemma names_check_In : forall f n s, names_check f = true -> In (n, s) f -> name_ok s = true.
Proof.
  intros f n s H HI. unfold names_check in H. rewrite forallb_forall in H. apply (H (n, s)). exact HI.
Qed.

(* ------------------------------------------------------------------ *)
(** * Tags *)

Section Tags.
  Variable R : registry.
  Hypothesis ROK : registry_ok R = true.
  Let F := registry_ok_facts R ROK.

  (** a registered tag: its canonical name has all the lexical properties, and denotes it *)
  Lemma tag_registered : forall n s, zfind n (tagNames R) = Some s ->
    name_ok s = true /\ s <> s_TTLV /\ sfind s (tagByName R) = Some n.
  Proof.
    intros n s H. pose proof (zfind_In _ _ _ _ H) as HI. split; [|split].
    - eapply names_check_In; [apply (rf_tag_names R F) | exact HI].
    - intros E. pose proof (rf_no_ttlv R F) as N.
      assert (existsb (fun p => str_eqb (snd p) s_TTLV) (tagNames R) = true) as T.
      { apply existsb_exists. exists (n, s). split; [exact HI|]. cbn [snd]. rewrite E. apply str_eqb_refl. }
      congruence.
    - eapply bij_check_fwd; [apply (rf_tags R F) | exact H].
  Qed.

  Lemma tags_bij : forall n s, zfind n (tagNames R) = Some s <-> sfind s (tagByName R) = Some n.
  Proof. apply bij_check_sound. apply (rf_tags R F). Qed.

  Lemma tags_bij_go : forall n s, s <> [] -> (getTagName R n = s <-> getTagByName R s = Some n).
  Proof.
    intros n s Hs. unfold getTagName, getTagByName. rewrite <- tags_bij. split.
    - destruct (zfind n (tagNames R)); intros E; congruence.
    - intros ->. reflexivity.
  Qed.

  Lemma read_tag_hex : forall n, 0 <= n < 2 ^ 31 -> read_tag R (fmt_0x06X n) = n.
  Proof.
    intros n H. destruct (parse_fmt_0x06X n H) as [H1 [H2 H3]]. unfold read_tag.
    destruct (fmt_0x06X n) as [|c r] eqn:E; [congruence|]. rewrite H1, H2. reflexivity.
  Qed.

  Lemma read_tag_name : forall n s, zfind n (tagNames R) = Some s -> read_tag R s = n.
  Proof.
    intros n s H. destruct (tag_registered n s H) as [H1 [H2 H3]].
    destruct (name_ok_no_0x s H1) as [P1 _]. unfold read_tag.
    destruct s as [|c r]; [discriminate|]. rewrite P1. unfold getTagByName. rewrite H3. reflexivity.
  Qed.

  Theorem tag_text_rt : forall n, 0 <= n < 2 ^ 31 ->
    read_tag R (xml_raw_tag (xml_start R n)) = n /\ read_tag R (TagString R n) = n.
  Proof.
    intros n H. unfold xml_start, TagString, getTagName.
    destruct (zfind n (tagNames R)) as [s|] eqn:E.
    - destruct (tag_registered n s E) as [H1 [H2 H3]]. split; [|apply read_tag_name; exact E].
      destruct s as [|c r]; [discriminate|]. unfold xml_raw_tag. cbn [fst snd].
      assert (str_eqb (c :: r) s_TTLV = false) as -> by (apply str_eqb_neq; exact H2).
      apply read_tag_name. exact E.
    - split; [|apply read_tag_hex; exact H]. unfold xml_raw_tag. cbn [fst snd].
      rewrite str_eqb_refl. apply read_tag_hex. exact H.
  Qed.

  (** what the three writers print for a tag is either its canonical name or the hex form *)
  Lemma TagString_cases : forall n,
    (exists s, zfind n (tagNames R) = Some s /\ TagString R n = s /\ xml_start R n = (s, None)) \/
    (zfind n (tagNames R) = None /\ TagString R n = fmt_0x06X n /\ xml_start R n = (s_TTLV, Some (fmt_0x06X n))).
  Proof.
    intros n. unfold TagString, xml_start, getTagName. destruct (zfind n (tagNames R)) as [s|] eqn:E.
    - left. exists s. destruct (tag_registered n s E) as [H1 _]. destruct s; [discriminate|]. auto.
    - right. auto.
  Qed.
End Tags.

(* ------------------------------------------------------------------ *)
(** * Enumerations *)

Lemma hexdigit_range : forall d, 0 <= d < 16 -> (48 <= hexdigit d <= 57) \/ (65 <= hexdigit d <= 70).
Proof. intros d H. unfold hexdigit. destruct (d <? 10) eqn:E; lia. Qed.

Lemma hexN_chars : forall n v c, In c (hexN n v) -> (48 <= c <= 57) \/ (65 <= c <= 70).
Proof.
  induction n as [|n IH]; intros v c H; cbn [hexN] in H; [contradiction|].
  destruct H as [H|H]; [|eapply IH; exact H]. subst c. apply hexdigit_range. apply Z.mod_pos_bound. lia.
Qed.

Lemma fmt_0x08X_chars : forall v c, In c (fmt_0x08X v) -> c = 48 \/ c = 120 \/ (48 <= c <= 57) \/ (65 <= c <= 70).
Proof.
  intros v c H. unfold fmt_0x08X, s_0x in H. cbn [app] in H. destruct H as [H|[H|H]]; [lia|lia|].
  apply hexN_chars in H. lia.
Qed.

Lemma contains_false : forall c s, (forall x, In x s -> x <> c) -> contains c s = false.
Proof.
  intros c s H. unfold contains. destruct (existsb (Z.eqb c) s) eqn:E; [|reflexivity].
  apply existsb_exists in E. destruct E as [x [HI HE]]. apply Z.eqb_eq in HE. subst. exfalso. eapply H; eauto.
Qed.

Section Enums.
  Variable R : registry.
  Hypothesis ROK : registry_ok R = true.
  Let F := registry_ok_facts R ROK.

  Lemma enum_scope : forall t fl, zfind t (enumNames R) = Some fl ->
    exists gl, zfind t (enumsByName R) = Some gl /\ bij_check fl gl = true /\ names_check fl = true /\ in_u32_all fl = true.
  Proof.
    intros t fl H. pose proof (zfind_In _ _ _ _ H) as HI.
    pose proof (rf_enums R F) as S. unfold scoped_bij_check in S.
    repeat (apply andb_true_iff in S; destruct S as [S ?]).
    match goal with H1 : forallb _ (enumNames R) = true |- _ => rewrite forallb_forall in H1; specialize (H1 _ HI); cbn [fst snd] in H1 end.
    destruct (zfind t (enumsByName R)) as [gl|]; [|discriminate]. exists gl. split; [reflexivity|].
    pose proof (rf_enum_names R F) as N. rewrite forallb_forall in N. specialize (N _ HI). cbn [snd] in N.
    apply andb_true_iff in N. tauto.
  Qed.

  Lemma enum_scope_rev : forall t gl, zfind t (enumsByName R) = Some gl ->
    exists fl, zfind t (enumNames R) = Some fl /\ bij_check fl gl = true.
  Proof.
    intros t gl H. pose proof (zfind_In _ _ _ _ H) as HI.
    pose proof (rf_enums R F) as S. unfold scoped_bij_check in S.
    repeat (apply andb_true_iff in S; destruct S as [S ?]).
    match goal with H1 : forallb _ (enumsByName R) = true |- _ => rewrite forallb_forall in H1; specialize (H1 _ HI); cbn [fst snd] in H1 end.
    destruct (zfind t (enumNames R)) as [fl|] eqn:E; [|discriminate]. exists fl. split; [reflexivity|].
    destruct (enum_scope t fl E) as [gl' [G1 [G2 _]]]. congruence.
  Qed.

  (** a registered enumeration value *)
  Lemma enum_registered : forall t v c s, EnumName R t v = c :: s ->
    name_ok (c :: s) = true /\ EnumByName R t (c :: s) = Some v /\ 0 <= v < 2 ^ 32.
  Proof.
    intros t v c s H. unfold EnumName in H.
    destruct (zfind t (enumNames R)) as [fl|] eqn:E1; [|discriminate].
    destruct (zfind v fl) as [n|] eqn:E2; [|discriminate]. subst n.
    destruct (enum_scope t fl E1) as [gl [G1 [G2 [G3 G4]]]].
    pose proof (zfind_In _ _ _ _ E2) as HI. split; [|split].
    - eapply names_check_In; eauto.
    - unfold EnumByName. rewrite G1. eapply bij_check_fwd; eauto.
    - unfold in_u32_all in G4. rewrite forallb_forall in G4. specialize (G4 _ HI). cbn [fst] in G4.
      unfold in_u32 in G4. lia.
  Qed.

  Lemma enums_bij_go : forall t v s, s <> [] -> (EnumName R t v = s <-> EnumByName R t s = Some v).
  Proof.
    intros t v s Hs. split.
    - intros H. destruct s as [|c s]; [congruence|]. apply enum_registered in H. tauto.
    - intros H. unfold EnumByName in H. destruct (zfind t (enumsByName R)) as [gl|] eqn:E; [|discriminate].
      destruct (enum_scope_rev t gl E) as [fl [G1 G2]]. unfold EnumName. rewrite G1.
      rewrite (bij_check_bwd _ _ _ _ G2 H). reflexivity.
  Qed.

  Lemma read_enum_hex : forall rt t v, 0 <= v < 2 ^ 32 -> read_enum R rt t (fmt_0x08X v) = Ok v.
  Proof.
    intros rt t v H. destruct (parse_fmt_0x08X v H) as [H1 H2]. unfold read_enum. rewrite H1, H2. reflexivity.
  Qed.

  (** XML and text: the string written for an enumeration value is read back as that value,
      whether the value has a name or not *)
  Theorem enum_text_rt : forall et t v, 0 <= v < 2 ^ 32 ->
    read_enum R et t (write_enum R et t v) = Ok v.
  Proof.
    intros et t v H. unfold write_enum. destruct (EnumName R (eff_tag et t) v) as [|c s] eqn:E.
    - apply read_enum_hex. exact H.
    - destruct (enum_registered _ _ _ _ E) as [H1 [H2 _]].
      destruct (name_ok_no_0x _ H1) as [P1 _]. destruct (name_ok_not_decimal _ 32 H1) as [P2 _].
      unfold read_enum. rewrite P1, P2, H2. reflexivity.
  Qed.

  Theorem enum_json_rt : forall et t v, 0 <= v < 2 ^ 32 ->
    read_enum_json R et t (JStr (write_enum R et t v)) = Ok v.
  Proof. intros. cbn [read_enum_json]. apply enum_text_rt. assumption. Qed.

  (** JSON readers also take plain numbers *)
  Lemma enum_json_num : forall et t v, 0 <= v < 2 ^ 32 -> read_enum_json R et t (JNum v) = Ok v.
  Proof.
    intros et t v H. cbn [read_enum_json]. assert ((v >? 4294967295) || (v <? 0) = false) as -> by lia. reflexivity.
  Qed.

  Lemma unmarshal_text_hex : forall t v, 0 <= v < 2 ^ 32 -> unmarshal_text R t (fmt_0x08X v) = Ok v.
  Proof.
    intros t v H. destruct (parse_fmt_0x08X v H) as [H1 H2]. unfold unmarshal_text.
    assert (contains 32 (fmt_0x08X v) = false) as ->.
    { apply contains_false. intros x Hx. apply fmt_0x08X_chars in Hx. lia. }
    rewrite H1. cbn [orb]. rewrite H2. reflexivity.
  Qed.

  (** MarshalText / UnmarshalText of an enumeration type registered under tag [t] *)
  Theorem enum_marshal_rt : forall t v, 0 <= v < 2 ^ 32 ->
    unmarshal_text R t (marshal_text R t v) = Ok v.
  Proof.
    intros t v H. unfold marshal_text. destruct (t =? 0) eqn:Et.
    - destruct (fmt_0x08X v) eqn:E; rewrite <- E; apply unmarshal_text_hex; exact H.
    - destruct (EnumName R t v) as [|c s] eqn:E; [apply unmarshal_text_hex; exact H|].
      destruct (enum_registered _ _ _ _ E) as [H1 [H2 _]].
      destruct (name_ok_no_0x _ H1) as [P1 P1']. destruct (name_ok_not_decimal _ 32 H1) as [P2 _].
      unfold unmarshal_text.
      assert (contains 32 (c :: s) = false) as ->.
      { apply contains_false. intros x Hx. pose proof (name_ok_chars _ _ H1 Hx) as Hc.
        apply name_char_range in Hc. lia. }
      rewrite P1, P1'. cbn [orb]. rewrite P2, H2. reflexivity.
  Qed.
End Enums.

(* ------------------------------------------------------------------ *)
(** * Splitting and joining *)

Definition no_p (p : Z -> bool) (x : str) : Prop := forallb (fun c => negb (p c)) x = true.

Lemma no_p_cons : forall p a x, no_p p (a :: x) <-> p a = false /\ no_p p x.
Proof.
  intros p a x. unfold no_p. cbn [forallb]. rewrite andb_true_iff, negb_true_iff. tauto.
Qed.

Lemma no_p_app : forall p x y, no_p p (x ++ y) <-> no_p p x /\ no_p p y.
Proof. intros p x y. unfold no_p. rewrite forallb_app, andb_true_iff. tauto. Qed.

Lemma split_by_none : forall p x, no_p p x -> split_by p x = [x].
Proof.
  induction x as [|a x IH]; intros H; [reflexivity|]. apply no_p_cons in H. destruct H as [H1 H2].
  cbn [split_by]. rewrite H1, (IH H2). reflexivity.
Qed.

Lemma split_by_app : forall p x c rest, no_p p x -> p c = true ->
  split_by p (x ++ c :: rest) = x :: split_by p rest.
Proof.
  induction x as [|a x IH]; intros c rest H Hc.
  - cbn [app split_by]. rewrite Hc. reflexivity.
  - apply no_p_cons in H. destruct H as [H1 H2]. cbn [app split_by]. rewrite H1, (IH c rest H2 Hc). reflexivity.
Qed.

(** the loop of AppendBitmaskString as a join: separator before every part but the first *)
Fixpoint join_acc (sep : str) (parts : list str) (wrote : bool) : str :=
  match parts with
  | [] => []
  | p :: r => (if wrote then sep else []) ++ p ++ join_acc sep r true
  end.

Definition all_space (x : str) : Prop := forallb is_space x = true.

Lemma drop_while_app : forall sp c y, all_space sp -> is_space c = false ->
  drop_while is_space (sp ++ c :: y) = c :: y.
Proof.
  induction sp as [|a sp IH]; intros c y H Hc.
  - cbn [app drop_while]. rewrite Hc. reflexivity.
  - unfold all_space in H. cbn [forallb] in H. apply andb_true_iff in H. destruct H as [H1 H2].
    cbn [app drop_while]. rewrite H1. apply IH; assumption.
Qed.

(** a clean part: non-empty, no white space, no bar *)
Definition clean (x : str) : Prop := x <> [] /\ no_p is_space x /\ no_p is_bar x.

Lemma no_p_rev : forall p x, no_p p x -> no_p p (rev x).
Proof.
  intros p x H. unfold no_p in *. rewrite forallb_forall in *. intros c HI. apply H. apply in_rev. exact HI.
Qed.

Lemma all_space_rev : forall x, all_space x -> all_space (rev x).
Proof.
  intros x H. unfold all_space in *. rewrite forallb_forall in *. intros c HI. apply H. apply in_rev. exact HI.
Qed.

Lemma trim_clean : forall sp1 x sp2, clean x -> all_space sp1 -> all_space sp2 ->
  trim_space (sp1 ++ x ++ sp2) = x.
Proof.
  intros sp1 x sp2 [Hne [Hs _]] H1 H2. unfold trim_space.
  destruct x as [|c x]; [congruence|]. pose proof Hs as Hs'. apply no_p_cons in Hs'. destruct Hs' as [Hc _].
  cbn [app]. rewrite (drop_while_app sp1 c (x ++ sp2) H1 Hc).
  change (c :: x ++ sp2) with ((c :: x) ++ sp2). rewrite rev_app_distr.
  pose proof (no_p_rev _ _ Hs) as Hr.
  destruct (rev (c :: x)) as [|d y] eqn:E.
  { apply (f_equal (@length Z)) in E. rewrite rev_length in E. discriminate. }
  apply no_p_cons in Hr. destruct Hr as [Hd _].
  rewrite (drop_while_app (rev sp2) d y (all_space_rev _ H2) Hd). rewrite <- E. apply rev_involutive.
Qed.

Lemma trim_clean_id : forall x, clean x -> trim_space x = x.
Proof.
  intros x H. pose proof (trim_clean [] x [] H eq_refl eq_refl) as T. cbn [app] in T. rewrite app_nil_r in T. exact T.
Qed.

Lemma trim_nil : trim_space [] = [].
Proof. reflexivity. Qed.

Lemma join_true_flat : forall sep parts, join_acc sep parts true = flat_map (fun p => sep ++ p) parts.
Proof. induction parts as [|p r IH]; cbn [join_acc flat_map]; [reflexivity|]. rewrite IH, app_assoc. reflexivity. Qed.

Lemma split_join_1 : forall p c, p c = true -> forall r a,
  no_p p a -> Forall (no_p p) r ->
  split_by p (a ++ flat_map (fun x => [c] ++ x) r) = a :: r.
Proof.
  intros p c Hc. induction r as [|b r IH]; intros a Ha Hr.
  - cbn [flat_map]. rewrite app_nil_r. apply split_by_none. exact Ha.
  - inversion Hr as [|? ? Hb Hr']; subst. cbn [flat_map app].
    rewrite (split_by_app p a c _ Ha Hc). f_equal. apply IH; assumption.
Qed.

Lemma skip_empty_clean : forall l, Forall clean l -> skip_empty l = l.
Proof.
  induction l as [|x l IH]; intros H; [reflexivity|]. inversion H as [|? ? Hx Hl]; subst.
  unfold skip_empty in *. cbn [filter]. destruct x as [|c x]; [destruct Hx as [Hx _]; congruence|].
  cbn [is_nil negb]. f_equal. apply IH. exact Hl.
Qed.

Lemma map_trim_clean : forall l, Forall clean l -> map trim_space l = l.
Proof.
  induction l as [|x l IH]; intros H; [reflexivity|]. inversion H; subst. cbn [map].
  rewrite trim_clean_id by assumption. f_equal. apply IH. assumption.
Qed.

Lemma clean_space : forall l, Forall clean l -> Forall (no_p is_space) l.
Proof. intros l H. eapply Forall_impl; [|exact H]. intros x [_ [Hx _]]. exact Hx. Qed.
Lemma clean_bar : forall l, Forall clean l -> Forall (no_p is_bar) l.
Proof. intros l H. eapply Forall_impl; [|exact H]. intros x [_ [_ Hx]]. exact Hx. Qed.

(** XML: strings.Fields undoes the join with " " *)
Lemma xml_split_join : forall parts, Forall clean parts ->
  map trim_space (fields (join_acc sep_space parts false)) = parts.
Proof.
  intros [|a r] H; [reflexivity|]. inversion H as [|? ? Ha Hr]; subst.
  cbn [join_acc app]. rewrite join_true_flat. unfold fields, sep_space.
  rewrite (split_join_1 is_space 32 eq_refl r a); [|apply Ha|apply clean_space; exact Hr].
  change (filter (fun x => negb (is_nil x)) (a :: r)) with (skip_empty (a :: r)).
  rewrite skip_empty_clean by exact H. apply map_trim_clean. exact H.
Qed.

(** JSON: strings.Split on "|", TrimSpace, skipping empty parts undoes the join with "|" *)
Lemma json_split_join : forall parts, Forall clean parts ->
  skip_empty (map trim_space (split_by is_bar (join_acc sep_bar parts false))) = parts.
Proof.
  intros [|a r] H; [reflexivity|]. inversion H as [|? ? Ha Hr]; subst.
  cbn [join_acc app]. rewrite join_true_flat. unfold sep_bar.
  rewrite (split_join_1 is_bar 124 eq_refl r a); [|apply Ha|apply clean_bar; exact Hr].
  rewrite map_trim_clean by exact H. apply skip_empty_clean. exact H.
Qed.

Lemma text_split_tail : forall r b, clean b -> Forall clean r ->
  map trim_space (split_by is_bar (32 :: b ++ flat_map (fun x => sep_sbs ++ x) r)) = b :: r.
Proof.
  induction r as [|c r IH]; intros b Hb Hr.
  - cbn [flat_map]. rewrite app_nil_r. rewrite split_by_none.
    + cbn [map]. f_equal.
      pose proof (trim_clean [32] b [] Hb eq_refl eq_refl) as T. rewrite app_nil_r in T. exact T.
    + apply no_p_cons. split; [reflexivity | apply Hb].
  - inversion Hr as [|? ? Hc Hr']; subst. cbn [flat_map]. unfold sep_sbs at 1. cbn [app].
    replace (32 :: b ++ 32 :: 124 :: 32 :: c ++ flat_map (fun x => sep_sbs ++ x) r)
      with ((32 :: b ++ [32]) ++ 124 :: (32 :: c ++ flat_map (fun x => sep_sbs ++ x) r)).
    2:{ cbn [app]. rewrite <- app_assoc. reflexivity. }
    rewrite split_by_app.
    + cbn [map]. rewrite (IH c Hc Hr'). f_equal.
      change (32 :: b ++ [32]) with ([32] ++ b ++ [32]). apply trim_clean; [exact Hb | reflexivity | reflexivity].
    + apply no_p_cons. split; [reflexivity|]. apply no_p_app. split; [apply Hb | reflexivity].
    + reflexivity.
Qed.

Lemma contains_bar_clean : forall a, clean a -> contains 124 a = false.
Proof.
  intros a [_ [_ H]]. apply contains_false. intros x Hx E. subst.
  unfold no_p in H. rewrite forallb_forall in H. specialize (H _ Hx). discriminate.
Qed.

Lemma contains_app_r : forall c x y, contains c y = true -> contains c (x ++ y) = true.
Proof. intros c x y H. unfold contains in *. rewrite existsb_app, H. apply orb_true_r. Qed.

(** text: maskUnmarshalText's splitting undoes the join with " | " *)
Lemma text_split_join : forall parts, Forall clean parts ->
  let t := join_acc sep_sbs parts false in
  skip_empty (map trim_space (if contains 124 t then split_by is_bar t else fields t)) = parts.
Proof.
  intros [|a r] H; [reflexivity|]. inversion H as [|? ? Ha Hr]; subst. cbn zeta.
  cbn [join_acc app]. rewrite join_true_flat. destruct r as [|b r].
  - cbn [flat_map]. rewrite app_nil_r. rewrite (contains_bar_clean a Ha). unfold fields.
    rewrite split_by_none by apply Ha. change (filter (fun x => negb (is_nil x)) [a]) with (skip_empty [a]).
    rewrite (skip_empty_clean [a] H). rewrite (map_trim_clean [a] H). apply skip_empty_clean. exact H.
  - inversion Hr as [|? ? Hb Hr']; subst.
    assert (contains 124 (a ++ flat_map (fun p => sep_sbs ++ p) (b :: r)) = true) as ->.
    { apply contains_app_r. reflexivity. }
    cbn [flat_map]. unfold sep_sbs at 1. cbn [app].
    replace (a ++ 32 :: 124 :: 32 :: b ++ flat_map (fun p => sep_sbs ++ p) r)
      with ((a ++ [32]) ++ 124 :: (32 :: b ++ flat_map (fun p => sep_sbs ++ p) r)).
    2:{ rewrite <- app_assoc. reflexivity. }
    rewrite split_by_app.
    + cbn [map]. rewrite (text_split_tail r b Hb Hr').
      replace (trim_space (a ++ [32])) with a.
      2:{ pose proof (trim_clean [] a [32] Ha eq_refl eq_refl) as T. cbn [app] in T. symmetry. exact T. }
      apply skip_empty_clean. exact H.
    + apply no_p_app. split; [apply Ha | reflexivity].
    + reflexivity.
Qed.

(* ------------------------------------------------------------------ *)
(** * Bits *)

Lemma to_i32_id : forall v, - 2 ^ 31 <= v < 2 ^ 31 -> to_i32 v = v.
Proof.
  intros v H. unfold to_i32. cbn zeta.
  destruct (Z_lt_le_dec v 0) as [Hn|Hp].
  - assert (v mod 2 ^ 32 = v + 2 ^ 32) as E.
    { symmetry. apply Z.mod_unique with (q := -1); lia. }
    rewrite E. assert ((v + 2 ^ 32 <? 2 ^ 31) = false) as -> by lia. lia.
  - rewrite Z.mod_small by lia. assert ((v <? 2 ^ 31) = true) as -> by lia. reflexivity.
Qed.

Lemma to_i32_to_u32 : forall v, - 2 ^ 31 <= v < 2 ^ 31 -> to_i32 (to_u32 v) = v.
Proof.
  intros v H. unfold to_i32, to_u32. cbn zeta. rewrite Z.mod_mod by lia. fold (to_i32 v). apply to_i32_id. exact H.
Qed.

Lemma to_u32_range : forall v, 0 <= to_u32 v < 2 ^ 32.
Proof. intros v. unfold to_u32. apply Z.mod_pos_bound. lia. Qed.

Lemma fmt_0x08X_to_u32 : forall v, fmt_0x08X (to_u32 v) = fmt_0x08X v.
Proof. intros v. unfold fmt_0x08X, to_u32. rewrite Z.mod_mod by lia. reflexivity. Qed.

Lemma shl32_small : forall i, (i < 31)%nat -> shl32 i = 2 ^ Z.of_nat i.
Proof.
  intros i H. unfold shl32. apply to_i32_id.
  assert (0 < 2 ^ Z.of_nat i) by (apply Z.pow_pos_nonneg; lia).
  assert (2 ^ Z.of_nat i < 2 ^ 31) by (apply Z.pow_lt_mono_r; lia). lia.
Qed.

Lemma shl32_31 : shl32 31 = - 2 ^ 31.
Proof. reflexivity. Qed.

Lemma shl32_range : forall i, (i < 32)%nat -> - 2 ^ 31 <= shl32 i < 2 ^ 31.
Proof.
  intros i H. destruct (Nat.eq_dec i 31) as [->|N].
  - rewrite shl32_31. lia.
  - rewrite shl32_small by lia.
    assert (0 < 2 ^ Z.of_nat i) by (apply Z.pow_pos_nonneg; lia).
    assert (2 ^ Z.of_nat i < 2 ^ 31) by (apply Z.pow_lt_mono_r; lia). lia.
Qed.

Lemma shl32_inj : forall i j, (i < 32)%nat -> (j < 32)%nat -> shl32 i = shl32 j -> i = j.
Proof.
  intros i j Hi Hj E.
  destruct (Nat.eq_dec i 31) as [->|Ni]; destruct (Nat.eq_dec j 31) as [->|Nj]; try reflexivity.
  - rewrite shl32_31, shl32_small in E by lia. assert (0 < 2 ^ Z.of_nat j) by (apply Z.pow_pos_nonneg; lia). lia.
  - rewrite shl32_31, shl32_small in E by lia. assert (0 < 2 ^ Z.of_nat i) by (apply Z.pow_pos_nonneg; lia). lia.
  - rewrite !shl32_small in E by lia. apply Z.pow_inj_r in E; lia.
Qed.

Lemma testbit_high : forall v n, - 2 ^ 31 <= v < 2 ^ 31 -> 31 <= n -> Z.testbit v n = (v <? 0).
Proof.
  intros v n H Hn. destruct (Z_lt_le_dec v 0) as [Hv|Hv].
  - assert ((v <? 0) = true) as -> by lia. apply Z.bits_above_log2_neg; [exact Hv|].
    destruct (Z.eq_dec (Z.pred (- v)) 0) as [E|E]; [rewrite E; cbn; lia|].
    assert (Z.log2 (Z.pred (- v)) < 31); [|lia]. apply Z.log2_lt_pow2; lia.
  - assert ((v <? 0) = false) as -> by lia. apply Z.bits_above_log2; [exact Hv|].
    destruct (Z.eq_dec v 0) as [E|E]; [rewrite E; cbn; lia|].
    assert (Z.log2 v < 31); [|lia]. apply Z.log2_lt_pow2; lia.
Qed.

Lemma testbit_m2p31 : forall n, 0 <= n -> Z.testbit (- 2 ^ 31) n = (31 <=? n).
Proof.
  intros n Hn. rewrite Z.bits_opp by exact Hn. rewrite <- Z.ones_equiv.
  rewrite Z.testbit_ones_nonneg by lia. destruct (n <? 31) eqn:E; lia.
Qed.

(** [value & (1 << i)] is either 0 or the bit itself *)
Lemma land_shl32 : forall v i, - 2 ^ 31 <= v < 2 ^ 31 -> (i < 32)%nat ->
  Z.land v (shl32 i) = 0 \/ Z.land v (shl32 i) = shl32 i.
Proof.
  intros v i Hv Hi. destruct (Nat.eq_dec i 31) as [->|N].
  - rewrite shl32_31. destruct (Z_lt_le_dec v 0) as [Hn|Hp].
    + right. apply Z.bits_inj'. intros n Hn'. rewrite Z.land_spec, testbit_m2p31 by exact Hn'.
      destruct (31 <=? n) eqn:E; [|apply andb_false_r].
      rewrite testbit_high by lia. assert ((v <? 0) = true) as -> by lia. reflexivity.
    + left. apply Z.bits_inj'. intros n Hn'. rewrite Z.land_spec, testbit_m2p31, Z.bits_0 by exact Hn'.
      destruct (31 <=? n) eqn:E; [|apply andb_false_r].
      rewrite testbit_high by lia. assert ((v <? 0) = false) as -> by lia. reflexivity.
  - rewrite shl32_small by lia. destruct (Z.testbit v (Z.of_nat i)) eqn:T.
    + right. apply Z.bits_inj'. intros n Hn. rewrite Z.land_spec, Z.pow2_bits_eqb by lia.
      destruct (Z.of_nat i =? n) eqn:E; [|apply andb_false_r]. apply Z.eqb_eq in E. subst n. rewrite T. reflexivity.
    + left. apply Z.bits_inj'. intros n Hn. rewrite Z.land_spec, Z.pow2_bits_eqb, Z.bits_0 by lia.
      destruct (Z.of_nat i =? n) eqn:E; [|apply andb_false_r]. apply Z.eqb_eq in E. subst n. rewrite T. reflexivity.
Qed.

Lemma fold_lor_land : forall v (f : nat -> Z) l a,
  fold_left (fun acc i => Z.lor acc (Z.land v (f i))) l (Z.land v a) =
  Z.land v (fold_left (fun acc i => Z.lor acc (f i)) l a).
Proof.
  intros v f. induction l as [|i l IH]; intros a; cbn [fold_left]; [reflexivity|].
  rewrite <- Z.land_lor_distr_r. apply IH.
Qed.

(** OR-ing [value & (1 << i)] over the 32 bit positions gives the value back *)
Lemma lor_all_bits : forall v,
  fold_left (fun acc i => Z.lor acc (Z.land v (shl32 i))) (seq 0 32) 0 = v.
Proof.
  intros v. rewrite <- (Z.land_0_r v) at 1. rewrite fold_lor_land.
  replace (fold_left (fun acc i => Z.lor acc (shl32 i)) (seq 0 32) 0) with (-1) by (vm_compute; reflexivity).
  apply Z.land_m1_r.
Qed.

Definition bit_set (value : Z) (i : nat) : bool := negb (Z.land value (shl32 i) =? 0).

Lemma lor_set_bits : forall v l a,
  fold_left Z.lor (map (fun i => Z.land v (shl32 i)) (filter (bit_set v) l)) a =
  fold_left (fun acc i => Z.lor acc (Z.land v (shl32 i))) l a.
Proof.
  intros v. induction l as [|i l IH]; intros a; [reflexivity|].
  cbn [filter fold_left]. unfold bit_set at 1. destruct (Z.land v (shl32 i) =? 0) eqn:E.
  - cbn [negb]. apply Z.eqb_eq in E. rewrite E, Z.lor_0_r. apply IH.
  - cbn [negb map fold_left]. apply IH.
Qed.

(* ------------------------------------------------------------------ *)
(** * Bit masks *)

Definition part_of (mapper : list str) (value : Z) (i : nat) : str :=
  match nth_error mapper i with
  | Some name => name
  | None => fmt_0x08X (Z.land value (shl32 i))
  end.

Lemma mask_step_spec : forall mapper sep value st i, Forall (fun n => n <> []) mapper ->
  mask_step mapper sep value st i =
  if bit_set value i then ((fst st ++ (if snd st then sep else [])) ++ part_of mapper value i, true) else st.
Proof.
  intros mapper sep value st i HM. unfold mask_step, bit_set, part_of. unfold str in *.
  destruct (Z.land value (shl32 i) =? 0); cbn [negb]; [reflexivity|].
  destruct (nth_error mapper i) as [name|] eqn:N; [|reflexivity].
  destruct name as [|c name]; [|reflexivity].
  apply nth_error_In in N. rewrite Forall_forall in HM. specialize (HM _ N). congruence.
Qed.

(** the writer loop produces the join of the parts of the set bits *)
Lemma mask_fold : forall mapper sep value, Forall (fun n => n <> []) mapper ->
  forall l st, fold_left (mask_step mapper sep value) l st =
    (fst st ++ join_acc sep (map (part_of mapper value) (filter (bit_set value) l)) (snd st),
     snd st || negb (is_nil (filter (bit_set value) l))).
Proof.
  intros mapper sep value HM. induction l as [|i l IH]; intros [dst wrote].
  - cbn [fold_left filter map join_acc fst snd is_nil negb]. rewrite app_nil_r, orb_false_r. reflexivity.
  - cbn [fold_left filter]. rewrite (mask_step_spec _ _ _ _ _ HM). destruct (bit_set value i) eqn:B.
    + rewrite IH. cbn [fst snd map join_acc is_nil negb]. rewrite orb_true_r. f_equal.
      rewrite <- !app_assoc. reflexivity.
    + apply IH.
Qed.

Lemma bit_set_zero : forall l, filter (bit_set 0) l = [].
Proof. induction l as [|i l IH]; [reflexivity|]. cbn [filter]. unfold bit_set at 1. rewrite Z.land_0_l. cbn. exact IH. Qed.

Definition mapper_of (R : registry) (tag : Z) : list str :=
  match zfind tag (bitmaskNames R) with Some l => l | None => [] end.

Lemma AppendBitmaskString_join : forall R tag value sep,
  Forall (fun n => n <> []) (mapper_of R tag) ->
  AppendBitmaskString R tag value sep =
  join_acc sep (map (part_of (mapper_of R tag) value) (filter (bit_set value) (seq 0 32))) false.
Proof.
  intros R tag value sep HM. unfold AppendBitmaskString. destruct (value =? 0) eqn:E.
  - apply Z.eqb_eq in E. subst. rewrite bit_set_zero. reflexivity.
  - fold (mapper_of R tag). rewrite (mask_fold _ _ _ HM). reflexivity.
Qed.

Lemma filter_In_seq : forall (f : nat -> bool) i n, In i (filter f (seq 0 n)) -> (i < n)%nat /\ f i = true.
Proof. intros f i n H. apply filter_In in H. destruct H as [H1 H2]. apply in_seq in H1. split; [lia | exact H2]. Qed.

Lemma mask_fwd_nth : forall names k i name, nth_error names i = Some name ->
  In (shl32 (k + i), name) (mask_fwd names k).
Proof.
  induction names as [|n names IH]; intros k i name H; [destruct i; discriminate|].
  destruct i as [|i]; cbn [nth_error mask_fwd] in *.
  - inversion H; subst. left. rewrite Nat.add_0_r. reflexivity.
  - right. replace (k + S i)%nat with (S k + i)%nat by lia. apply IH. exact H.
Qed.

Lemma mask_fwd_In : forall names k x name, In (x, name) (mask_fwd names k) ->
  exists i, nth_error names i = Some name /\ x = shl32 (k + i).
Proof.
  induction names as [|n names IH]; intros k x name H; [contradiction|].
  cbn [mask_fwd] in H. destruct H as [H|H].
  - inversion H; subst. exists 0%nat. rewrite Nat.add_0_r. split; reflexivity.
  - apply IH in H. destruct H as [i [H1 H2]]. exists (S i). split; [exact H1|]. rewrite H2. f_equal. lia.
Qed.

Lemma hex_clean : forall v, clean (fmt_0x08X v).
Proof.
  intros v. split; [discriminate|]. split; apply forallb_forall; intros c Hc; apply fmt_0x08X_chars in Hc.
  - unfold is_space. lia.
  - unfold is_bar. lia.
Qed.

Lemma name_clean : forall s, name_ok s = true -> clean s.
Proof.
  intros s H. split; [apply name_ok_nonempty; exact H|]. split; [apply name_ok_no_space | apply name_ok_no_bar]; exact H.
Qed.

Section Masks.
  Variable R : registry.
  Hypothesis ROK : registry_ok R = true.
  Let F := registry_ok_facts R ROK.

  Lemma mask_scope : forall t names, zfind t (bitmaskNames R) = Some names ->
    exists g, zfind t (bitmaskByName R) = Some g /\ (length names <= 32)%nat /\
              forallb name_ok names = true /\ bij_check (mask_fwd names 0) g = true.
  Proof.
    intros t names H. pose proof (zfind_In _ _ _ _ H) as HI.
    pose proof (rf_masks R F) as S. unfold masks_check in S.
    do 3 (apply andb_true_iff in S; destruct S as [S ?]).
    match goal with H1 : forallb _ (bitmaskNames R) = true |- _ => rewrite forallb_forall in H1; specialize (H1 _ HI); cbn [fst snd] in H1 end.
    destruct (zfind t (bitmaskByName R)) as [g|]; [|discriminate]. exists g. split; [reflexivity|].
    match goal with H1 : mask_check _ _ = true |- _ => unfold mask_check in H1; do 2 (apply andb_true_iff in H1; destruct H1 as [H1 ?]); apply Nat.leb_le in H1 end.
    auto.
  Qed.

  Lemma mask_scope_rev : forall t g, zfind t (bitmaskByName R) = Some g ->
    exists names, zfind t (bitmaskNames R) = Some names.
  Proof.
    intros t g H. pose proof (zfind_In _ _ _ _ H) as HI.
    pose proof (rf_masks R F) as S. unfold masks_check in S.
    do 3 (apply andb_true_iff in S; destruct S as [S ?]).
    match goal with H1 : forallb _ (bitmaskByName R) = true |- _ => rewrite forallb_forall in H1; specialize (H1 _ HI); cbn [fst snd] in H1 end.
    destruct (zfind t (bitmaskNames R)) as [names|]; [|discriminate]. exists names. reflexivity.
  Qed.

  Lemma mapper_names : forall t name, In name (mapper_of R t) -> name_ok name = true.
  Proof.
    intros t name H. unfold mapper_of in H. destruct (zfind t (bitmaskNames R)) as [names|] eqn:E; [|contradiction].
    destruct (mask_scope t names E) as [g [_ [_ [N _]]]]. rewrite forallb_forall in N. apply N. exact H.
  Qed.

  Lemma mapper_nonempty : forall t, Forall (fun n => n <> []) (mapper_of R t).
  Proof. intros t. apply Forall_forall. intros n H. apply name_ok_nonempty. eapply mapper_names; eauto. Qed.

  (** flag i of mask t is named [name]  <->  [name] denotes 1 << i *)
  Lemma mask_flag_fwd : forall t i name, nth_error (mapper_of R t) i = Some name ->
    BitmaskByStr R t name = Some (shl32 i) /\ (i < 32)%nat.
  Proof.
    intros t i name H. unfold mapper_of in H. destruct (zfind t (bitmaskNames R)) as [names|] eqn:E.
    2:{ destruct i; discriminate. }
    destruct (mask_scope t names E) as [g [G1 [G2 [G3 G4]]]].
    assert (i < length names)%nat as Hi by (apply nth_error_Some; congruence).
    split; [|lia]. unfold BitmaskByStr. rewrite G1.
    eapply bij_check_fwd; [exact G4|]. apply zfind_nodup; [apply (bij_check_keys _ _ G4)|].
    apply (mask_fwd_nth names 0 i name H).
  Qed.

  Lemma mask_flag_bwd : forall t i name, (i < 32)%nat -> BitmaskByStr R t name = Some (shl32 i) ->
    nth_error (mapper_of R t) i = Some name.
  Proof.
    intros t i name Hi H. unfold BitmaskByStr in H. destruct (zfind t (bitmaskByName R)) as [g|] eqn:E; [|discriminate].
    destruct (mask_scope_rev t g E) as [names EN]. unfold mapper_of. rewrite EN.
    destruct (mask_scope t names EN) as [g' [G1 [G2 [G3 G4]]]]. assert (g' = g) by congruence. subst g'.
    pose proof (bij_check_bwd _ _ _ _ G4 H) as Z. apply zfind_In in Z. apply mask_fwd_In in Z.
    destruct Z as [j [J1 J2]]. cbn [Nat.add] in J2.
    assert (j < length names)%nat as Hj by (apply nth_error_Some; congruence).
    assert (i = j) by (apply shl32_inj; [lia | lia | exact J2]). subst j. exact J1.
  Qed.

  Lemma part_clean : forall t v i, clean (part_of (mapper_of R t) v i).
  Proof.
    intros t v i. unfold part_of. destruct (nth_error (mapper_of R t) i) as [name|] eqn:N.
    - apply name_clean. eapply mapper_names. eapply nth_error_In. exact N.
    - apply hex_clean.
  Qed.

  (** each written part parses back to the bit it stands for *)
  Lemma part_parse : forall t upper v i, - 2 ^ 31 <= v < 2 ^ 31 -> (i < 32)%nat -> bit_set v i = true ->
    exists p, mask_part R t upper (part_of (mapper_of R t) v i) = Some p /\ to_i32 p = Z.land v (shl32 i).
  Proof.
    intros t upper v i Hv Hi Hb. unfold bit_set in Hb. apply negb_true_iff, Z.eqb_neq in Hb.
    destruct (land_shl32 v i Hv Hi) as [E|E]; [congruence|].
    unfold part_of. destruct (nth_error (mapper_of R t) i) as [name|] eqn:N.
    - pose proof (mapper_names t name (nth_error_In _ _ N)) as HN.
      destruct (name_ok_no_0x _ HN) as [P1 P2]. destruct (name_ok_not_decimal _ 32 HN) as [_ P3].
      destruct (mask_flag_fwd t i name N) as [B _].
      exists (shl32 i). split.
      + unfold mask_part. rewrite P1, P2, andb_false_r. cbn [orb]. rewrite P3. exact B.
      + rewrite E. apply to_i32_id. apply shl32_range. exact Hi.
    - exists (to_u32 (Z.land v (shl32 i))). split.
      + unfold mask_part. rewrite <- fmt_0x08X_to_u32.
        destruct (parse_fmt_0x08X _ (to_u32_range (Z.land v (shl32 i)))) as [Q1 Q2]. rewrite Q1. cbn [orb]. exact Q2.
      + apply to_i32_to_u32. rewrite E. apply shl32_range. exact Hi.
  Qed.

  Lemma mask_parts_fold : forall t upper parts vals,
    Forall2 (fun part x => exists p, mask_part R t upper part = Some p /\ to_i32 p = x) parts vals ->
    forall acc,
    fold_left (fun acc part =>
                 do r <- acc ;;
                 match mask_part R t upper part with
                 | Some p => Ok (Z.lor r (to_i32 p))
                 | None => Err
                 end) parts (Ok acc) = Ok (fold_left Z.lor vals acc).
  Proof.
    intros t upper parts vals H. induction H as [|part x parts vals [p [P1 P2]] _ IH]; intros acc; [reflexivity|].
    cbn [fold_left bind]. rewrite P1, P2. apply IH.
  Qed.

  (** reading the parts written for [v] gives [v] *)
  Lemma mask_parts_written : forall t upper v, - 2 ^ 31 <= v < 2 ^ 31 ->
    mask_parts R t upper (map (part_of (mapper_of R t) v) (filter (bit_set v) (seq 0 32))) = Ok v.
  Proof.
    intros t upper v Hv. unfold mask_parts.
    rewrite (mask_parts_fold t upper _ (map (fun i => Z.land v (shl32 i)) (filter (bit_set v) (seq 0 32)))).
    - rewrite lor_set_bits. rewrite lor_all_bits. reflexivity.
    - assert (forall l, (forall i, In i l -> (i < 32)%nat /\ bit_set v i = true) ->
              Forall2 (fun part x => exists p, mask_part R t upper part = Some p /\ to_i32 p = x)
                      (map (part_of (mapper_of R t) v) l) (map (fun i => Z.land v (shl32 i)) l)) as G.
      { induction l as [|i l IH]; intros Hl; [constructor|]. cbn [map]. constructor.
        - destruct (Hl i (or_introl eq_refl)) as [H1 H2]. apply part_parse; assumption.
        - apply IH. intros j Hj. apply Hl. right. exact Hj. }
      apply G. intros i Hi. apply filter_In_seq in Hi. exact Hi.
  Qed.

  Lemma parts_clean : forall t v l, Forall clean (map (part_of (mapper_of R t) v) l).
  Proof. intros t v l. apply Forall_forall. intros x Hx. apply in_map_iff in Hx. destruct Hx as [i [<- _]]. apply part_clean. Qed.

  (** XML *)
  Theorem mask_xml_rt : forall bt t v, - 2 ^ 31 <= v < 2 ^ 31 ->
    read_mask_xml R bt t (write_mask_xml R bt t v) = Ok v.
  Proof.
    intros bt t v Hv. unfold read_mask_xml, write_mask_xml.
    rewrite (AppendBitmaskString_join R _ v sep_space (mapper_nonempty _)).
    rewrite xml_split_join by apply parts_clean. apply mask_parts_written. exact Hv.
  Qed.

  (** JSON *)
  Theorem mask_json_rt : forall bt t v, - 2 ^ 31 <= v < 2 ^ 31 ->
    read_mask_json R bt t (JStr (write_mask_json R bt t v)) = Ok v.
  Proof.
    intros bt t v Hv. unfold read_mask_json, write_mask_json.
    rewrite (AppendBitmaskString_join R _ v sep_bar (mapper_nonempty _)).
    rewrite json_split_join by apply parts_clean. apply mask_parts_written. exact Hv.
  Qed.

  Lemma mask_json_num : forall bt t v, - 2 ^ 31 <= v < 2 ^ 31 -> read_mask_json R bt t (JNum v) = Ok v.
  Proof.
    intros bt t v H. cbn [read_mask_json].
    assert ((v >? 2147483647) || (v <? -2147483648) = false) as -> by lia. reflexivity.
  Qed.

  (** text form: MarshalText / UnmarshalText of a bit-mask type registered under [t] *)
  Theorem mask_text_rt : forall t v, - 2 ^ 31 <= v < 2 ^ 31 ->
    mask_unmarshal_text R t (write_mask_text R t v) = Ok v.
  Proof.
    intros t v Hv. unfold mask_unmarshal_text, write_mask_text.
    rewrite (AppendBitmaskString_join R _ v sep_sbs (mapper_nonempty _)).
    rewrite (text_split_join _ (parts_clean t v _)). apply mask_parts_written. exact Hv.
  Qed.
End Masks.

(* ------------------------------------------------------------------ *)
(** * Statements about the whole registry *)

Section Whole.
  Variable R : registry.
  Hypothesis ROK : registry_ok R = true.
  Let F := registry_ok_facts R ROK.

  Lemma masks_bij_go : forall t i s, (i < 32)%nat -> s <> [] ->
    (mask_flag_name R t i = s <-> BitmaskByStr R t s = Some (shl32 i)).
  Proof.
    intros t i s Hi Hs. unfold mask_flag_name. split.
    - intros H. apply (mask_flag_fwd R ROK t i s). unfold mapper_of.
      destruct (zfind t (bitmaskNames R)) as [names|]; [|congruence].
      destruct (nth_error names i) as [x|] eqn:N.
      + rewrite (nth_error_nth _ _ _ N) in H. congruence.
      + apply nth_error_None in N. rewrite nth_overflow in H by exact N. congruence.
    - intros H. pose proof (mask_flag_bwd R ROK t i s Hi H) as N. unfold mapper_of in N.
      destruct (zfind t (bitmaskNames R)) as [names|]; [|destruct i; discriminate].
      apply nth_error_nth. exact N.
  Qed.

  Lemma types_bij : forall n s, type_string R n = Some s <-> type_from_name R s = Some n.
  Proof. apply bij_check_sound. apply (rf_types R F). Qed.

  Lemma all_names_ok : forall s, In s (all_names R) -> name_ok s = true.
  Proof.
    intros s H. unfold all_names in H. repeat (apply in_app_or in H; destruct H as [H|H]).
    - apply in_map_iff in H. destruct H as [[n x] [<- HI]]. eapply names_check_In; [apply (rf_tag_names R F) | exact HI].
    - apply in_flat_map in H. destruct H as [[t fl] [H1 H2]]. cbn [snd] in H2.
      apply in_map_iff in H2. destruct H2 as [[n x] [<- HI]].
      pose proof (rf_enum_names R F) as N. rewrite forallb_forall in N. specialize (N _ H1). cbn [snd] in N.
      apply andb_true_iff in N. destruct N as [N _]. eapply names_check_In; eauto.
    - apply in_flat_map in H. destruct H as [[t names] [H1 H2]]. cbn [snd] in H2.
      apply (mapper_names R ROK t). unfold mapper_of.
      assert (zfind t (bitmaskNames R) = Some names) as ->; [|exact H2].
      apply zfind_nodup; [|exact H1].
      pose proof (rf_masks R F) as S. unfold masks_check in S.
      do 3 (apply andb_true_iff in S; destruct S as [S ?]). exact S.
    - apply in_map_iff in H. destruct H as [[n x] [<- HI]]. eapply names_check_In; [apply (rf_type_names R F) | exact HI].
  Qed.

  (** the lexical properties that make a name safe in every text form *)
  Theorem names_hygiene : forall s, In s (all_names R) ->
    s <> [] /\ has_prefix s_0x s = false /\ has_prefix s_0X s = false /\
    parse_uint 10 32 s = None /\ parse_int 10 32 s = None /\
    (forall c, In c s -> (65 <= c <= 90) \/ (97 <= c <= 122) \/ (48 <= c <= 57) \/ c = 95).
  Proof.
    intros s H. apply all_names_ok in H. split; [apply name_ok_nonempty; exact H|].
    destruct (name_ok_no_0x s H) as [A B]. destruct (name_ok_not_decimal s 32 H) as [C D].
    repeat split; try assumption. intros c Hc. apply name_char_range. eapply name_ok_chars; eauto.
  Qed.

  Lemma tag_numbers : forall n s, zfind n (tagNames R) = Some s -> 0 < n < 2 ^ 24.
  Proof.
    intros n s H. apply zfind_In in H. pose proof (rf_tag_range R F) as T. rewrite forallb_forall in T.
    specialize (T _ H). cbn [fst] in T. change (2 ^ 24) with 16777216. lia.
  Qed.
End Whole.
